From FP Require Import Lexer Parser ShowPT Digest.
From Coq Require Import String List NArith.
Import ListNotations.
Open Scope string_scope.
Set Printing Width 100000000.
Set Printing Depth 100000000.
Definition nl : string := String (Ascii.ascii_of_nat 10) EmptyString.
Definition model_lex (rs : list rune) : string := show_toks (lex rs).
Definition model_parse (rs : list rune) : string :=
  show_pt (match lex rs with Some ts => parse ts | None => None end).
(* coqc is slow at printing long strings: digests first (Digest.v), full texts on demand *)
Definition check (rs : list rune) : string :=
  digest (model_lex rs) ++ " " ++ digest (model_parse rs).
Definition full (rs : list rune) : string := model_lex rs ++ nl ++ model_parse rs.
Definition terms (ts : list tok) (t : pt) : string :=
  digest (show_toks (Some ts)) ++ " " ++ digest (show_pt (Some t)) ++ " " ++ digest (show_pt (parse ts)).
Definition terms_full (ts : list tok) (t : pt) : string :=
  show_toks (Some ts) ++ nl ++ show_pt (Some t) ++ nl ++ show_pt (parse ts).
Eval vm_compute in ("<<<M19>>>" ++ check (runes_of_ascii "// packet A { u8 x, }
options{lengthOf= 255 // " ++ [27880; 37322]%N ++ runes_of_ascii "
; /// triple
}packet MetaDataX {int32  body
, }")).
Eval vm_compute in ("<<<M51>>>" ++ check (runes_of_ascii "packet
i8i8 {
    char[]
    string_
// " ++ [27880; 37322]%N ++ runes_of_ascii "
//
`tab	here` //
, @lengthOf(
    T )
    @lengthOf(
uint8x)@rightPad ( '\x00' ) zchar[ 4294967296 // packet A { u8 x, }
]	f32a @calculatedFrom(
// " ++ [27880; 37322]%N ++ runes_of_ascii "
//x
""CRC32"")
    `it's`	, } // @lengthOf(
root // packet A { u8 x, }
packet	A
    { @rightPad
//	t
// packet A { u8 x, }
( )
    @calculatedFrom(""" ++ [233]%N ++ runes_of_ascii "t" ++ [233]%N ++ runes_of_ascii """ )	string T`crlf
line`
    ,
    u64 falsey `two words`
//x
// trailing space 
,zchar[ 65535	] lengthOf
`doc` , match // `tick` ""quote"" 'q'
crc
as int { [ ""packet"",
    ""it's""
    ]
: body ,007
:
    // a // b
    leftPad
,	""{,}"" :
    Z9_, [ 0123456789
    , 00
    , ""a\\"" // " ++ [128512]%N ++ runes_of_ascii " emoji
, """ ++ [128512]%N ++ runes_of_ascii """  , ""\" ++ [233]%N ++ runes_of_ascii """
    , ""`tick`"", ""it's"",
    """ ++ [233]%N ++ runes_of_ascii "t" ++ [233]%N ++ runes_of_ascii """]
: x_y_z,} // c
,}
")).
Eval vm_compute in ("<<<M83>>>" ++ check (runes_of_ascii "
root packet // `tick` ""quote"" 'q'
rootA { @rightPad (
) @leftPad(	) @lengthOf(  MetaDataX  )float// c
u128`a\` , // `tick` ""quote"" 'q'
}
")).
Eval vm_compute in ("<<<T83>>>" ++ terms [mkTok 34 "root" 2 0 false; mkTok 35 "packet" 2 5 false; mkTok 44 "// `tick` ""quote"" 'q'" 2 12 true; mkTok 42 "rootA" 3 0 false; mkTok 2 "{" 3 6 false; mkTok 32 "@rightPad" 3 8 false; mkTok 8 "(" 3 18 false; mkTok 6 ")" 4 0 false; mkTok 32 "@leftPad" 4 2 false; mkTok 8 "(" 4 10 false; mkTok 6 ")" 4 12 false; mkTok 7 "@lengthOf(" 4 14 false; mkTok 42 "MetaDataX" 4 26 false; mkTok 6 ")" 4 37 false; mkTok 42 "float" 4 38 false; mkTok 44 "// c" 4 43 true; mkTok 42 "u128" 5 0 false; mkTok 43 "`a\`" 5 4 false; mkTok 40 "," 5 9 false; mkTok 44 "// `tick` ""quote"" 'q'" 5 11 true; mkTok 3 "}" 6 0 false; mkTok 0 "<EOF>" 7 0 false] (mkPacket (mkPtok 34 "root" 2 0 0) (Some (mkPtok 3 "}" 6 0 20)) [(DPacket (mkPacketDef (mkSpan (mkPtok 34 "root" 2 0 0) (mkPtok 3 "}" 6 0 20)) (Some (mkPtok 34 "root" 2 0 0)) (mkPtok 35 "packet" 2 5 1) (mkPtok 42 "rootA" 3 0 3) (mkPtok 2 "{" 3 6 4) [(mkFieldWithAttr (mkSpan (mkPtok 32 "@rightPad" 3 8 5) (mkPtok 40 "," 5 9 18)) [(FAPadding (mkSpan (mkPtok 32 "@rightPad" 3 8 5) (mkPtok 6 ")" 4 0 7)) (mkPaddingAttr (mkSpan (mkPtok 32 "@rightPad" 3 8 5) (mkPtok 6 ")" 4 0 7)) (mkPtok 32 "@rightPad" 3 8 5) (mkPtok 8 "(" 3 18 6) None (mkPtok 6 ")" 4 0 7))); (FAPadding (mkSpan (mkPtok 32 "@leftPad" 4 2 8) (mkPtok 6 ")" 4 12 10)) (mkPaddingAttr (mkSpan (mkPtok 32 "@leftPad" 4 2 8) (mkPtok 6 ")" 4 12 10)) (mkPtok 32 "@leftPad" 4 2 8) (mkPtok 8 "(" 4 10 9) None (mkPtok 6 ")" 4 12 10))); (FALengthOf (mkSpan (mkPtok 7 "@lengthOf(" 4 14 11) (mkPtok 6 ")" 4 37 13)) (mkLengthOf (mkSpan (mkPtok 7 "@lengthOf(" 4 14 11) (mkPtok 6 ")" 4 37 13)) (mkPtok 7 "@lengthOf(" 4 14 11) (mkPtok 42 "MetaDataX" 4 26 12) (mkPtok 6 ")" 4 37 13)))] (ObjectField (mkSpan (mkPtok 42 "float" 4 38 14) (mkPtok 40 "," 5 9 18)) None (mkPtok 42 "float" 4 38 14) (Some (mkPtok 42 "u128" 5 0 16)) (Some (mkPtok 43 "`a\`" 5 4 17)) (mkPtok 40 "," 5 9 18)))] (mkPtok 3 "}" 6 0 20)))])).
Eval vm_compute in ("<<<M115>>>" ++ check (@nil rune)).
Eval vm_compute in ("<<<M147>>>" ++ check (runes_of_ascii "packet Header {
    }
")).
Eval vm_compute in ("<<<M179>>>" ++ check (runes_of_ascii "
options
    // " ++ [128512]%N ++ runes_of_ascii " emoji
    {  roots= false ; f32a = ""// no comment""
// " ++ [128512]%N ++ runes_of_ascii " emoji
// a // b
;
}
")).
Eval vm_compute in ("<<<M211>>>" ++ check (runes_of_ascii "options {
chars  =
    //x
    ' '	}
root packet	string_ {i8i8 @lengthOf(
Z9_ )
,	match int as chars // c
{ 007: body	,[ // packet A { u8 x, }
42 ] : int	, ""`tick`"" : options1
, } ,
@leftPad ( ' ' )uint16 crc `it's` , // a // b
float64  packetx
@lengthOf( crc // " ++ [27880; 37322]%N ++ runes_of_ascii "
)// trailing space 
, @tag(4294967296
) match int
as chars{4294967296
    : Foo ,
1:
asx 10
: Pad
    0123456789	: string_
,
3
// " ++ [27880; 37322]%N ++ runes_of_ascii "
// " ++ [128512]%N ++ runes_of_ascii " emoji
: T , ""it's""  : As  } , repeat  float falsey `say ""hi""`  ,
match uint8x as zchar { ""// no comment""
    : body
, 0123456789 : crc , ""{,}"" : o } ,repeat o chars ,uint32
As
`doc` ,
repeat trueish
{ char[
    7
] i64_
`{ , }`  , }
, } packet
    Packet {
zchar[ 0123456789 ] matchKey @lengthOf( chars
)  ,  x
//	t
// a // b
{
u64 o ,} , zchar[
    // a // b
    1 ]
    MetaDataX
@calculatedFrom(
"""" ), char[]lengthOf// trailing space 
@calculatedFrom( // " ++ [27880; 37322]%N ++ runes_of_ascii "
""a\""b""
) `
` ,@rightPad( ' ' ) //	t
uint16
len `a\` , @lengthOf( //x
tag )
char[ 65535
] pack ``, }
")).
Eval vm_compute in ("<<<M243>>>" ++ check (runes_of_ascii "options
{ f32a= zchar[3
//
// c
]
// " ++ [128512]%N ++ runes_of_ascii " emoji
//	t
}	packet falsey
{
Z9_ ,body
    @calculatedFrom( //
""\n""
// packet A { u8 x, }
// c
)
    ,} options { }
")).
Eval vm_compute in ("<<<M275>>>" ++ check (runes_of_ascii "
root packet u128 { @calculatedFrom( ""// no comment"" ) @tag(	10//	t
) @calculatedFrom( ""packet"" ) BodyLength ``
    , char BodyLength `two words`	, repeat uint32 f32a // trailing space 
, crc {	repeat
repeatCount Packet , MetaDataX@lengthOf(
    chars
),
options1 _x ,
repeat float64 T//x
,} ,@tag( 3 )
    @leftPad
( '\x00') @rightPad
(
// @lengthOf(
/// triple
)
    match string_ as MetaDataX { ""packet"" : float ,[
    ""abc"" // @lengthOf(
, """"
    // packet A { u8 x, }
    ,	3
,
    //x
    65535 ,
    ""a	b""
,//	t
42
    ,
    1 ,
    ""packet"" ]:
i64_
// `tick` ""quote"" 'q'
/// triple
,
// " ++ [27880; 37322]%N ++ runes_of_ascii "
// trailing space 
7 :lengthOf 0:
len
// trailing space 
// packet A { u8 x, }
,
10 :  len , [ //	t
0
] : A
    //	t
    , }, }")).
Eval vm_compute in ("<<<M307>>>" ++ check (runes_of_ascii "root
    packet
//	t
// c
charz{
f32 stringy // @lengthOf(
, @rightPad ( '\x00'
    ) metadata
    { MetaDataX
A
    // `tick` ""quote"" 'q'
    , }
,
repeat zchar[ 0/// triple
] u8x , @calculatedFrom( // @lengthOf(
""it's"")
    match trueish as
u128 { ""{,}"" :
    stringy
} ,}
    packet Packet
{char[ 3]  int @calculatedFrom( ""x y""
) ,
}
MetaData Packet { u128 trueish `" ++ [28040; 24687; 31867; 22411]%N ++ runes_of_ascii "` , int8 pack,
    // packet A { u8 x, }
    zchar[ 00 //x
] repeatCount `a\` ,
    // c
    }
")).
Eval vm_compute in ("<<<T307>>>" ++ terms [mkTok 34 "root" 1 0 false; mkTok 35 "packet" 2 4 false; mkTok 44 (string_of_bytes [47; 47; 9; 116]%N) 3 0 true; mkTok 44 "// c" 4 0 true; mkTok 42 "charz" 5 0 false; mkTok 2 "{" 5 5 false; mkTok 28 "f32" 6 0 false; mkTok 42 "stringy" 6 4 false; mkTok 44 "// @lengthOf(" 6 12 true; mkTok 40 "," 7 0 false; mkTok 32 "@rightPad" 7 2 false; mkTok 8 "(" 7 12 false; mkTok 33 "'\x00'" 7 14 false; mkTok 6 ")" 8 4 false; mkTok 42 "metadata" 8 6 false; mkTok 2 "{" 9 4 false; mkTok 42 "MetaDataX" 9 6 false; mkTok 42 "A" 10 0 false; mkTok 44 "// `tick` ""quote"" 'q'" 11 4 true; mkTok 40 "," 12 4 false; mkTok 3 "}" 12 6 false; mkTok 40 "," 13 0 false; mkTok 36 "repeat" 14 0 false; mkTok 14 "zchar[" 14 7 false; mkTok 30 "0" 14 14 false; mkTok 44 "/// triple" 14 15 true; mkTok 13 "]" 15 0 false; mkTok 42 "u8x" 15 2 false; mkTok 40 "," 15 6 false; mkTok 5 "@calculatedFrom(" 15 8 false; mkTok 44 "// @lengthOf(" 15 25 true; mkTok 31 """it's""" 16 0 false; mkTok 6 ")" 16 6 false; mkTok 38 "match" 17 4 false; mkTok 42 "trueish" 17 10 false; mkTok 17 "as" 17 18 false; mkTok 42 "u128" 18 0 false; mkTok 2 "{" 18 5 false; mkTok 31 """{,}""" 18 7 false; mkTok 39 ":" 18 13 false; mkTok 42 "stringy" 19 4 false; mkTok 3 "}" 20 0 false; mkTok 40 "," 20 2 false; mkTok 3 "}" 20 3 false; mkTok 35 "packet" 21 4 false; mkTok 42 "Packet" 21 11 false; mkTok 2 "{" 22 0 false; mkTok 12 "char[" 22 1 false; mkTok 30 "3" 22 7 false; mkTok 13 "]" 22 8 false; mkTok 42 "int" 22 11 false; mkTok 5 "@calculatedFrom(" 22 15 false; mkTok 31 """x y""" 22 32 false; mkTok 6 ")" 23 0 false; mkTok 40 "," 23 2 false; mkTok 3 "}" 24 0 false; mkTok 37 "MetaData" 25 0 false; mkTok 42 "Packet" 25 9 false; mkTok 2 "{" 25 16 false; mkTok 42 "u128" 25 18 false; mkTok 42 "trueish" 25 23 false; mkTok 43 (string_of_bytes [96; 230; 182; 136; 230; 129; 175; 231; 177; 187; 229; 158; 139; 96]%N) 25 31 false; mkTok 40 "," 25 38 false; mkTok 24 "int8" 25 40 false; mkTok 42 "pack" 25 45 false; mkTok 40 "," 25 49 false; mkTok 44 "// packet A { u8 x, }" 26 4 true; mkTok 14 "zchar[" 27 4 false; mkTok 30 "00" 27 11 false; mkTok 44 "//x" 27 14 true; mkTok 13 "]" 28 0 false; mkTok 42 "repeatCount" 28 2 false; mkTok 43 "`a\`" 28 14 false; mkTok 40 "," 28 19 false; mkTok 44 "// c" 29 4 true; mkTok 3 "}" 30 4 false; mkTok 0 "<EOF>" 31 0 false] (mkPacket (mkPtok 34 "root" 1 0 0) (Some (mkPtok 3 "}" 30 4 75)) [(DPacket (mkPacketDef (mkSpan (mkPtok 34 "root" 1 0 0) (mkPtok 3 "}" 20 3 43)) (Some (mkPtok 34 "root" 1 0 0)) (mkPtok 35 "packet" 2 4 1) (mkPtok 42 "charz" 5 0 4) (mkPtok 2 "{" 5 5 5) [(mkFieldWithAttr (mkSpan (mkPtok 28 "f32" 6 0 6) (mkPtok 40 "," 7 0 9)) [] (MetaField (mkSpan (mkPtok 28 "f32" 6 0 6) (mkPtok 40 "," 7 0 9)) None (mkMetaDecl (mkSpan (mkPtok 28 "f32" 6 0 6) (mkPtok 40 "," 7 0 9)) (TyBasic (mkSpan (mkPtok 28 "f32" 6 0 6) (mkPtok 28 "f32" 6 0 6)) (mkBasicType (mkSpan (mkPtok 28 "f32" 6 0 6) (mkPtok 28 "f32" 6 0 6)) (mkPtok 28 "f32" 6 0 6))) (mkPtok 42 "stringy" 6 4 7) None (mkPtok 40 "," 7 0 9)))); (mkFieldWithAttr (mkSpan (mkPtok 32 "@rightPad" 7 2 10) (mkPtok 40 "," 13 0 21)) [(FAPadding (mkSpan (mkPtok 32 "@rightPad" 7 2 10) (mkPtok 6 ")" 8 4 13)) (mkPaddingAttr (mkSpan (mkPtok 32 "@rightPad" 7 2 10) (mkPtok 6 ")" 8 4 13)) (mkPtok 32 "@rightPad" 7 2 10) (mkPtok 8 "(" 7 12 11) (Some (mkPtok 33 "'\x00'" 7 14 12)) (mkPtok 6 ")" 8 4 13)))] (InerObjectField (mkSpan (mkPtok 42 "metadata" 8 6 14) (mkPtok 40 "," 13 0 21)) None (InerObjectDecl (mkSpan (mkPtok 42 "metadata" 8 6 14) (mkPtok 3 "}" 12 6 20)) (mkPtok 42 "metadata" 8 6 14) (mkPtok 2 "{" 9 4 15) [(ObjectField (mkSpan (mkPtok 42 "MetaDataX" 9 6 16) (mkPtok 40 "," 12 4 19)) None (mkPtok 42 "MetaDataX" 9 6 16) (Some (mkPtok 42 "A" 10 0 17)) None (mkPtok 40 "," 12 4 19))] (mkPtok 3 "}" 12 6 20)) (mkPtok 40 "," 13 0 21))); (mkFieldWithAttr (mkSpan (mkPtok 36 "repeat" 14 0 22) (mkPtok 40 "," 15 6 28)) [] (MetaField (mkSpan (mkPtok 36 "repeat" 14 0 22) (mkPtok 40 "," 15 6 28)) (Some (mkPtok 36 "repeat" 14 0 22)) (mkMetaDecl (mkSpan (mkPtok 14 "zchar[" 14 7 23) (mkPtok 40 "," 15 6 28)) (TyFixed (mkSpan (mkPtok 14 "zchar[" 14 7 23) (mkPtok 13 "]" 15 0 26)) (mkFixedString (mkSpan (mkPtok 14 "zchar[" 14 7 23) (mkPtok 13 "]" 15 0 26)) (mkPtok 14 "zchar[" 14 7 23) (mkPtok 30 "0" 14 14 24) (mkPtok 13 "]" 15 0 26))) (mkPtok 42 "u8x" 15 2 27) None (mkPtok 40 "," 15 6 28)))); (mkFieldWithAttr (mkSpan (mkPtok 5 "@calculatedFrom(" 15 8 29) (mkPtok 40 "," 20 2 42)) [(FACalculatedFrom (mkSpan (mkPtok 5 "@calculatedFrom(" 15 8 29) (mkPtok 6 ")" 16 6 32)) (mkCalculatedFrom (mkSpan (mkPtok 5 "@calculatedFrom(" 15 8 29) (mkPtok 6 ")" 16 6 32)) (mkPtok 5 "@calculatedFrom(" 15 8 29) (mkPtok 31 """it's""" 16 0 31) (mkPtok 6 ")" 16 6 32)))] (MatchField (mkSpan (mkPtok 38 "match" 17 4 33) (mkPtok 40 "," 20 2 42)) (mkMatchFieldDecl (mkSpan (mkPtok 38 "match" 17 4 33) (mkPtok 3 "}" 20 0 41)) (mkPtok 38 "match" 17 4 33) (mkPtok 42 "trueish" 17 10 34) (mkPtok 17 "as" 17 18 35) (mkPtok 42 "u128" 18 0 36) (mkPtok 2 "{" 18 5 37) [(mkMatchPair (mkSpan (mkPtok 31 """{,}""" 18 7 38) (mkPtok 42 "stringy" 19 4 40)) (MKString (mkPtok 31 """{,}""" 18 7 38)) (mkPtok 39 ":" 18 13 39) (mkPtok 42 "stringy" 19 4 40) None)] (mkPtok 3 "}" 20 0 41)) (mkPtok 40 "," 20 2 42)))] (mkPtok 3 "}" 20 3 43))); (DPacket (mkPacketDef (mkSpan (mkPtok 35 "packet" 21 4 44) (mkPtok 3 "}" 24 0 55)) None (mkPtok 35 "packet" 21 4 44) (mkPtok 42 "Packet" 21 11 45) (mkPtok 2 "{" 22 0 46) [(mkFieldWithAttr (mkSpan (mkPtok 12 "char[" 22 1 47) (mkPtok 40 "," 23 2 54)) [] (CheckSumField (mkSpan (mkPtok 12 "char[" 22 1 47) (mkPtok 40 "," 23 2 54)) (mkChecksumFieldDecl (mkSpan (mkPtok 12 "char[" 22 1 47) (mkPtok 40 "," 23 2 54)) (Some (TyFixed (mkSpan (mkPtok 12 "char[" 22 1 47) (mkPtok 13 "]" 22 8 49)) (mkFixedString (mkSpan (mkPtok 12 "char[" 22 1 47) (mkPtok 13 "]" 22 8 49)) (mkPtok 12 "char[" 22 1 47) (mkPtok 30 "3" 22 7 48) (mkPtok 13 "]" 22 8 49)))) (mkPtok 42 "int" 22 11 50) (mkCalculatedFrom (mkSpan (mkPtok 5 "@calculatedFrom(" 22 15 51) (mkPtok 6 ")" 23 0 53)) (mkPtok 5 "@calculatedFrom(" 22 15 51) (mkPtok 31 """x y""" 22 32 52) (mkPtok 6 ")" 23 0 53)) None (mkPtok 40 "," 23 2 54))))] (mkPtok 3 "}" 24 0 55))); (DMeta (mkMetaDef (mkSpan (mkPtok 37 "MetaData" 25 0 56) (mkPtok 3 "}" 30 4 75)) (mkPtok 37 "MetaData" 25 0 56) (mkPtok 42 "Packet" 25 9 57) (mkPtok 2 "{" 25 16 58) [(MIRef (mkRefMetaDecl (mkSpan (mkPtok 42 "u128" 25 18 59) (mkPtok 40 "," 25 38 62)) (mkPtok 42 "u128" 25 18 59) (mkPtok 42 "trueish" 25 23 60) (Some (mkPtok 43 (string_of_bytes [96; 230; 182; 136; 230; 129; 175; 231; 177; 187; 229; 158; 139; 96]%N) 25 31 61)) (mkPtok 40 "," 25 38 62))); (MIDecl (mkMetaDecl (mkSpan (mkPtok 24 "int8" 25 40 63) (mkPtok 40 "," 25 49 65)) (TyBasic (mkSpan (mkPtok 24 "int8" 25 40 63) (mkPtok 24 "int8" 25 40 63)) (mkBasicType (mkSpan (mkPtok 24 "int8" 25 40 63) (mkPtok 24 "int8" 25 40 63)) (mkPtok 24 "int8" 25 40 63))) (mkPtok 42 "pack" 25 45 64) None (mkPtok 40 "," 25 49 65))); (MIDecl (mkMetaDecl (mkSpan (mkPtok 14 "zchar[" 27 4 67) (mkPtok 40 "," 28 19 73)) (TyFixed (mkSpan (mkPtok 14 "zchar[" 27 4 67) (mkPtok 13 "]" 28 0 70)) (mkFixedString (mkSpan (mkPtok 14 "zchar[" 27 4 67) (mkPtok 13 "]" 28 0 70)) (mkPtok 14 "zchar[" 27 4 67) (mkPtok 30 "00" 27 11 68) (mkPtok 13 "]" 28 0 70))) (mkPtok 42 "repeatCount" 28 2 71) (Some (mkPtok 43 "`a\`" 28 14 72)) (mkPtok 40 "," 28 19 73)))] (mkPtok 3 "}" 30 4 75)))])).
Eval vm_compute in ("<<<M339>>>" ++ check (runes_of_ascii "MetaData metadata {
//x
// " ++ [128512]%N ++ runes_of_ascii " emoji
}
    root packet chars {
    @lengthOf(Packet
    // @lengthOf(
    ) // c
repeat int16 roots `
` ,	}")).
Eval vm_compute in ("<<<M371>>>" ++ check (runes_of_ascii "options { len=
    // c
    ""abc""
; lengthOf = // trailing space 
true ;} packet
float {
    @tag( 65535
// `tick` ""quote"" 'q'
// trailing space 
) @rightPad
(' ' )int32
zchar ,repeat int64 trueish
,
@tag(10// packet A { u8 x, }
)
T repeatCount ,@leftPad (' ' )float32 MetaDataX
    `it's`
    ,
@rightPad (	' ' ) repeat zchar[ 0123456789 ] A
    , repeat
i8 f32a , u8 body
@calculatedFrom( ""it's""
)
,
    }
")).
Eval vm_compute in ("<<<M403>>>" ++ check (runes_of_ascii "options{zchar=	true
// c
/// triple
BodyLength  = char[]
; x// " ++ [27880; 37322]%N ++ runes_of_ascii "
=  char[007 ]
    ;} /// triple")).
Eval vm_compute in ("<<<M435>>>" ++ check (runes_of_ascii "packet crc { @rightPad ('0'
) //x
char[] asx `doc`	,}
")).
Eval vm_compute in ("<<<M467>>>" ++ check (runes_of_ascii "/// triple
packet
string_{
char[] calculatedFrom
    ,string	rootA	`two words` ,  @tag(
    10 // " ++ [128512]%N ++ runes_of_ascii " emoji
)@lengthOf( packetx ) char[] falsey
    ,// @lengthOf(
int8 MetaDataX @calculatedFrom(""CRC32"" )
    `two words`
, zchar[
    7
]float
    ,  uint32 calculatedFrom,
    matchKey {
zchar[ 10 ]u
@calculatedFrom( ""a\\""
// `tick` ""quote"" 'q'
// " ++ [27880; 37322]%N ++ runes_of_ascii "
)
,
// " ++ [27880; 37322]%N ++ runes_of_ascii "
// packet A { u8 x, }
} , @calculatedFrom( ""1"" )int16 rootA , float64 uint8x
    // " ++ [27880; 37322]%N ++ runes_of_ascii "
    ,
    // " ++ [128512]%N ++ runes_of_ascii " emoji
    } packet u8x{@calculatedFrom( ""CRC32"" ) repeat //x
u64 u8x // packet A { u8 x, }
`a\` , } // trailing space 
packet
    Packet	{ @calculatedFrom(
""packet""
) repeat
len i64_
,
@lengthOf(trueish
)
@lengthOf(u )
    // a // b
    @lengthOf( A
) char[] zchar`say ""hi""`
// " ++ [128512]%N ++ runes_of_ascii " emoji
//
,
    @calculatedFrom(""{,}"" )	chars@calculatedFrom( ""{,}""	)
    ,repeat
//	t
// @lengthOf(
pack lengthOf , // `tick` ""quote"" 'q'
}
//x
// " ++ [27880; 37322]%N ++ runes_of_ascii "
packet
i64_{ calculatedFrom
{ stringy {
zchar[
    // c
    1  ] tag , match
    float as _x  { ""it's"" : Packet ,
[	0123456789 ,// c
4294967296
,""1"", 00, 42 ] :Foo , [""a\\""  , 42 //x
, 255 ,""`tick`"" , 3 , """ ++ [128512]%N ++ runes_of_ascii """ ] :pack , // @lengthOf(
4294967296
    :
    pack,
[ 0123456789 , """ ++ [28040; 24687]%N ++ runes_of_ascii """ ,
""{,}"",
/// triple
// " ++ [27880; 37322]%N ++ runes_of_ascii "
4294967296 ,""packet"", ""x y"" , // packet A { u8 x, }
""x y""	]//	t
: uint8x  ,
    } , } ,
} //
,@tag(00)
BodyLength ,@calculatedFrom(""a	b"" )match msg_type
as Foo { [ ""\n""
, 42,
42 ]
: Pad , } , u64
packetx `" ++ [233]%N ++ runes_of_ascii "`
// packet A { u8 x, }
//x
,repeat
i64 tag
,
//x
// @lengthOf(
@tag( 65535 // `tick` ""quote"" 'q'
)
    @lengthOf(
    // `tick` ""quote"" 'q'
    Pad
    ) match matchKey as f32a
{3 :  BodyLength ,[//	t
""" ++ [128512]%N ++ runes_of_ascii """ , ""packet""  ,
    65535 ,255 , ""a	b""
, 0 , //	t
007 //	t
] : /// triple
u8x ,4294967296
//x
// a // b
: As 007 :i64_
    ""it's"":lengthOf, ""\" ++ [233]%N ++ runes_of_ascii """ :	u8x , },  rootA
    // c
    { f32 Packet@lengthOf(A ), i32 repeatCount
@calculatedFrom( ""x y""	)
//x
// c
, repeatCount
    @calculatedFrom(
""" ++ [233]%N ++ runes_of_ascii "t" ++ [233]%N ++ runes_of_ascii """) // trailing space 
`" ++ [28040; 24687; 31867; 22411]%N ++ runes_of_ascii "`,
    char[] Packet, }, @lengthOf( body
)
@tag(65535 )	@calculatedFrom(""\" ++ [233]%N ++ runes_of_ascii """ )metadata @lengthOf( uint8x
    ) ,
    }packet i64_ { match o as
    asx { ""`tick`""
    : charz
    }
//	t
// trailing space 
,
    }
")).
Eval vm_compute in ("<<<M499>>>" ++ check (runes_of_ascii "root
    packet Header { /// triple
repeat// " ++ [128512]%N ++ runes_of_ascii " emoji
int64 _x
`crlf
line`//x
, int16 leftPad , @rightPad( ) uint64 Packet @calculatedFrom( ""abc"" ) `doc` , @rightPad
    (
    '0') uint8x
{ u8 Logon
    , repeat x_y_z	{	a1 Header `it's`,
    char[0  ]
    /// triple
    pack
// @lengthOf(
// trailing space 
@calculatedFrom(
    ""a	b""	) `line1
line2` ,
o @lengthOf( Header
    ) `tab	here`
    ,
} , rootA zchar ,u128 , } ,@lengthOf( // trailing space 
string_ )
    //	t
    match Foo as calculatedFrom { 0123456789: chars ,007 : string_
    ,[
    ""\n"", 4294967296 ] :  leftPad ,""\n"" : u , }, f64 packetx `
` // c
,	}
    packet o
    {@rightPad// trailing space 
(
) // " ++ [128512]%N ++ runes_of_ascii " emoji
repeat
    chars `it's`
// @lengthOf(
// `tick` ""quote"" 'q'
,
    } MetaData
A
// trailing space 
// c
{ // c
uint64 i64_ `" ++ [233]%N ++ runes_of_ascii "`,  } root packet	int
    { @tag(
10
) //x
repeat a1 body  , @lengthOf( options1// packet A { u8 x, }
) falsey
    //
    { repeat zchar[ 0
    ]
    // c
    i64_ ,repeat u
{ char[42 ] u8x
@calculatedFrom( ""a\""b"") ,char[ 255 ] lengthOf @lengthOf( body
)
    `u8 x,`	, },repeat
    pack {
    trueish body
`u8 x,`,
match Logon as charz { [ 7] : x_y_z """ ++ [233]%N ++ runes_of_ascii "t" ++ [233]%N ++ runes_of_ascii """ : int ,
""abc"" : u ,
    42 : // trailing space 
metadata, 10 : leftPad , }
    ,//x
char[ 10
]trueish `tab	here` ,} ,
}, }
// @lengthOf(
// " ++ [27880; 37322]%N ++ runes_of_ascii "
options
    //x
    { rootA = ""`tick`"" As
    =
7 ;}
")).
Eval vm_compute in ("<<<M531>>>" ++ check (runes_of_ascii "options
{
//x
// c
} options
    {
Foo
    = ""`tick`"" }
")).
Eval vm_compute in ("<<<T531>>>" ++ terms [mkTok 1 "options" 1 0 false; mkTok 2 "{" 2 0 false; mkTok 44 "//x" 3 0 true; mkTok 44 "// c" 4 0 true; mkTok 3 "}" 5 0 false; mkTok 1 "options" 5 2 false; mkTok 2 "{" 6 4 false; mkTok 42 "Foo" 7 0 false; mkTok 4 "=" 8 4 false; mkTok 31 """`tick`""" 8 6 false; mkTok 3 "}" 8 15 false; mkTok 0 "<EOF>" 9 0 false] (mkPacket (mkPtok 1 "options" 1 0 0) (Some (mkPtok 3 "}" 8 15 10)) [(DOption (mkOptionDef (mkSpan (mkPtok 1 "options" 1 0 0) (mkPtok 3 "}" 5 0 4)) (mkPtok 1 "options" 1 0 0) (mkPtok 2 "{" 2 0 1) [] (mkPtok 3 "}" 5 0 4))); (DOption (mkOptionDef (mkSpan (mkPtok 1 "options" 5 2 5) (mkPtok 3 "}" 8 15 10)) (mkPtok 1 "options" 5 2 5) (mkPtok 2 "{" 6 4 6) [(mkOptionDecl (mkSpan (mkPtok 42 "Foo" 7 0 7) (mkPtok 31 """`tick`""" 8 6 9)) (mkPtok 42 "Foo" 7 0 7) (mkPtok 4 "=" 8 4 8) (VString (mkSpan (mkPtok 31 """`tick`""" 8 6 9) (mkPtok 31 """`tick`""" 8 6 9)) (mkPtok 31 """`tick`""" 8 6 9)) None)] (mkPtok 3 "}" 8 15 10)))])).
Eval vm_compute in ("<<<M563>>>" ++ check (runes_of_ascii "packet rootA { metadata { int32
    body  `doc` ,repeat calculatedFrom u8x
,u32 float , },
@lengthOf(
// @lengthOf(
// trailing space 
T )u8x Header,	repeat u16 Z9_ ,
@leftPad (
    '0'	)
repeat Z9_ { stringy msg_type
    `
` ,As
{match i8i8
    as	chars {
10 :len
    ,
    [ ""abc"", 42
//	t
// c
, 7 ] :  leftPad ,42 : lengthOf , 00 : zchar ,
    //x
    } , i32
    i64_ // @lengthOf(
, repeat
lengthOf msg_type`` //x
,
    }	,
    int16 Packet @calculatedFrom( ""packet"") ,} , len @lengthOf( float
    //
    ) `two words`,
@calculatedFrom( //	t
""a\""b"" ) repeat
pack
,
    @tag( 0 ) float32 tag `tab	here` ,rootA @calculatedFrom(""// no comment""
) ,
@lengthOf(x_y_z	)
msg_type { match crc
    as
string_ { 0:	u8x , 10
    : // " ++ [27880; 37322]%N ++ runes_of_ascii "
crc	, ""x y"" : Pad
    , 3: a1	,007
    : x , [ """" ] : A },
} , @calculatedFrom(
    ""CRC32"" ) @rightPad (' ')
    @tag( 10	) match zchar
    as body {
65535 // trailing space 
:
    // packet A { u8 x, }
    tag
    } ,
}
")).
Eval vm_compute in ("<<<M595>>>" ++ check (runes_of_ascii "packet falsey
{ repeat
    zchar[ 0  ]
    x_y_z `it's`, repeat char[] MetaDataX
`u8 x,` ,
@rightPad
// trailing space 
// trailing space 
( )
    match i8i8 as
    charz{ [ 4294967296, 00 ]: crc
, } ,repeat
    string u8x `` ,
Pad , @lengthOf(// c
u128 )  @tag( 65535 )
//	t
// " ++ [128512]%N ++ runes_of_ascii " emoji
tag body
    // c
    , } packet As  {
    @calculatedFrom( ""// no comment""
) repeat uint64
msg_type
    //	t
    `two words`
, @tag(007 )
    @calculatedFrom(
""`tick`""//x
)@rightPad (	'\x00' //
) int32	repeatCount, repeat	repeatCount	Pad
, x
    MetaDataX
    `a\`	,char[	1 ] uint8x `u8 x,` , @calculatedFrom(
    """" ) @calculatedFrom( ""// no comment"" )@tag(3) repeat i64// trailing space 
trueish
/// triple
// `tick` ""quote"" 'q'
, @lengthOf( MetaDataX
    )
Z9_, }  MetaData Logon
    /// triple
    {  i8i8 matchKey , u64
i8i8
, // trailing space 
options1 zchar
    // " ++ [128512]%N ++ runes_of_ascii " emoji
    `" ++ [28040; 24687; 31867; 22411]%N ++ runes_of_ascii "` ,}
//
/// triple
root	packet matchKey
    /// triple
    { T matchKey //	t
, repeat	uint64
    // packet A { u8 x, }
    crc
`" ++ [28040; 24687; 31867; 22411]%N ++ runes_of_ascii "`	, repeat
    zchar[ 0123456789 ]	i8i8 ,string len//	t
, } MetaData x_y_z
/// triple
// a // b
{
    i8i8 i64_
, }

")).
Eval vm_compute in ("<<<M627>>>" ++ check (runes_of_ascii "options {MetaDataX =
// `tick` ""quote"" 'q'
//	t
0; }
")).
Eval vm_compute in ("<<<M659>>>" ++ check (runes_of_ascii "
MetaData
    Header { int16 //	t
i64_ , } packet
u8x
{@tag(4294967296 ) zchar[
//	t
// " ++ [27880; 37322]%N ++ runes_of_ascii "
255 ] MetaDataX`
`,} options { pack = ""a	b"";crc =
    true _x
    =
4294967296 ;Z9_ = ' ' } root packet// a // b
repeatCount  { char[]
u8x ,  }
")).
Eval vm_compute in ("<<<M691>>>" ++ check (runes_of_ascii "  root packet stringy { u
@calculatedFrom(	""packet""	)
``,  @calculatedFrom( """ ++ [28040; 24687]%N ++ runes_of_ascii """ ) @lengthOf(//x
Foo // packet A { u8 x, }
)@calculatedFrom( // trailing space 
""abc"" ) u64 zchar ,
    match body
// " ++ [128512]%N ++ runes_of_ascii " emoji
// c
as
// trailing space 
// " ++ [27880; 37322]%N ++ runes_of_ascii "
body { 0
:
charz ""packet"":
    charz ,
0123456789
    : repeatCount , ""\" ++ [233]%N ++ runes_of_ascii """
:Foo}
    , repeat string	asx `u8 x,` , } MetaData
    BodyLength{
    string Z9_
,zchar[
    0123456789
    ]  Header	,
    char[65535 ]
    asx ,zchar[255 ] charz `// not a comment` ,
f32 crc ,}options	{
    }packet
_x{ }packet trueish { @calculatedFrom("""" )x
, // " ++ [27880; 37322]%N ++ runes_of_ascii "
} 	 ")).
Eval vm_compute in ("<<<M723>>>" ++ check (runes_of_ascii "root packet
    leftPad
    { @lengthOf(
/// triple
//x
_x ) // trailing space 
stringy{
Pad //
{ stringy falsey , int32 metadata @lengthOf( x_y_z)
, }, }
, @rightPad ( )
@tag( 10 ) BodyLength
    `say ""hi""`
,
    }")).
Eval vm_compute in ("<<<M755>>>" ++ check (runes_of_ascii "packet  o
    { chars  {
// `tick` ""quote"" 'q'
//
repeat  options1 {repeat lengthOf packetx , }
, repeat
a1	,	} , repeat leftPad , } // packet A { u8 x, }
packet
float{ f64	string_ @lengthOf( float
) , repeat
f64
uint8x , @tag(1 )
    packetx{ i32 asx,}
// `tick` ""quote"" 'q'
// a // b
, i64_ @lengthOf(
    u128
) `u8 x,` ,
    asx // trailing space 
{ string calculatedFrom	`u8 x,`
, uint8 falsey @calculatedFrom( ""x y""
),
} , int32 Header
, }
//
/// triple
MetaData u8x { }
")).
Eval vm_compute in ("<<<T755>>>" ++ terms [mkTok 35 "packet" 1 0 false; mkTok 42 "o" 1 8 false; mkTok 2 "{" 2 4 false; mkTok 42 "chars" 2 6 false; mkTok 2 "{" 2 13 false; mkTok 44 "// `tick` ""quote"" 'q'" 3 0 true; mkTok 44 "//" 4 0 true; mkTok 36 "repeat" 5 0 false; mkTok 42 "options1" 5 8 false; mkTok 2 "{" 5 17 false; mkTok 36 "repeat" 5 18 false; mkTok 42 "lengthOf" 5 25 false; mkTok 42 "packetx" 5 34 false; mkTok 40 "," 5 42 false; mkTok 3 "}" 5 44 false; mkTok 40 "," 6 0 false; mkTok 36 "repeat" 6 2 false; mkTok 42 "a1" 7 0 false; mkTok 40 "," 7 3 false; mkTok 3 "}" 7 5 false; mkTok 40 "," 7 7 false; mkTok 36 "repeat" 7 9 false; mkTok 42 "leftPad" 7 16 false; mkTok 40 "," 7 24 false; mkTok 3 "}" 7 26 false; mkTok 44 "// packet A { u8 x, }" 7 28 true; mkTok 35 "packet" 8 0 false; mkTok 42 "float" 9 0 false; mkTok 2 "{" 9 5 false; mkTok 29 "f64" 9 7 false; mkTok 42 "string_" 9 11 false; mkTok 7 "@lengthOf(" 9 19 false; mkTok 42 "float" 9 30 false; mkTok 6 ")" 10 0 false; mkTok 40 "," 10 2 false; mkTok 36 "repeat" 10 4 false; mkTok 29 "f64" 11 0 false; mkTok 42 "uint8x" 12 0 false; mkTok 40 "," 12 7 false; mkTok 9 "@tag(" 12 9 false; mkTok 30 "1" 12 14 false; mkTok 6 ")" 12 16 false; mkTok 42 "packetx" 13 4 false; mkTok 2 "{" 13 11 false; mkTok 26 "i32" 13 13 false; mkTok 42 "asx" 13 17 false; mkTok 40 "," 13 20 false; mkTok 3 "}" 13 21 false; mkTok 44 "// `tick` ""quote"" 'q'" 14 0 true; mkTok 44 "// a // b" 15 0 true; mkTok 40 "," 16 0 false; mkTok 42 "i64_" 16 2 false; mkTok 7 "@lengthOf(" 16 7 false; mkTok 42 "u128" 17 4 false; mkTok 6 ")" 18 0 false; mkTok 43 "`u8 x,`" 18 2 false; mkTok 40 "," 18 10 false; mkTok 42 "asx" 19 4 false; mkTok 44 "// trailing space " 19 8 true; mkTok 2 "{" 20 0 false; mkTok 15 "string" 20 2 false; mkTok 42 "calculatedFrom" 20 9 false; mkTok 43 "`u8 x,`" 20 24 false; mkTok 40 "," 21 0 false; mkTok 20 "uint8" 21 2 false; mkTok 42 "falsey" 21 8 false; mkTok 5 "@calculatedFrom(" 21 15 false; mkTok 31 """x y""" 21 32 false; mkTok 6 ")" 22 0 false; mkTok 40 "," 22 1 false; mkTok 3 "}" 23 0 false; mkTok 40 "," 23 2 false; mkTok 26 "int32" 23 4 false; mkTok 42 "Header" 23 10 false; mkTok 40 "," 24 0 false; mkTok 3 "}" 24 2 false; mkTok 44 "//" 25 0 true; mkTok 44 "/// triple" 26 0 true; mkTok 37 "MetaData" 27 0 false; mkTok 42 "u8x" 27 9 false; mkTok 2 "{" 27 13 false; mkTok 3 "}" 27 15 false; mkTok 0 "<EOF>" 28 0 false] (mkPacket (mkPtok 35 "packet" 1 0 0) (Some (mkPtok 3 "}" 27 15 81)) [(DPacket (mkPacketDef (mkSpan (mkPtok 35 "packet" 1 0 0) (mkPtok 3 "}" 7 26 24)) None (mkPtok 35 "packet" 1 0 0) (mkPtok 42 "o" 1 8 1) (mkPtok 2 "{" 2 4 2) [(mkFieldWithAttr (mkSpan (mkPtok 42 "chars" 2 6 3) (mkPtok 40 "," 7 7 20)) [] (InerObjectField (mkSpan (mkPtok 42 "chars" 2 6 3) (mkPtok 40 "," 7 7 20)) None (InerObjectDecl (mkSpan (mkPtok 42 "chars" 2 6 3) (mkPtok 3 "}" 7 5 19)) (mkPtok 42 "chars" 2 6 3) (mkPtok 2 "{" 2 13 4) [(InerObjectField (mkSpan (mkPtok 36 "repeat" 5 0 7) (mkPtok 40 "," 6 0 15)) (Some (mkPtok 36 "repeat" 5 0 7)) (InerObjectDecl (mkSpan (mkPtok 42 "options1" 5 8 8) (mkPtok 3 "}" 5 44 14)) (mkPtok 42 "options1" 5 8 8) (mkPtok 2 "{" 5 17 9) [(ObjectField (mkSpan (mkPtok 36 "repeat" 5 18 10) (mkPtok 40 "," 5 42 13)) (Some (mkPtok 36 "repeat" 5 18 10)) (mkPtok 42 "lengthOf" 5 25 11) (Some (mkPtok 42 "packetx" 5 34 12)) None (mkPtok 40 "," 5 42 13))] (mkPtok 3 "}" 5 44 14)) (mkPtok 40 "," 6 0 15)); (ObjectField (mkSpan (mkPtok 36 "repeat" 6 2 16) (mkPtok 40 "," 7 3 18)) (Some (mkPtok 36 "repeat" 6 2 16)) (mkPtok 42 "a1" 7 0 17) None None (mkPtok 40 "," 7 3 18))] (mkPtok 3 "}" 7 5 19)) (mkPtok 40 "," 7 7 20))); (mkFieldWithAttr (mkSpan (mkPtok 36 "repeat" 7 9 21) (mkPtok 40 "," 7 24 23)) [] (ObjectField (mkSpan (mkPtok 36 "repeat" 7 9 21) (mkPtok 40 "," 7 24 23)) (Some (mkPtok 36 "repeat" 7 9 21)) (mkPtok 42 "leftPad" 7 16 22) None None (mkPtok 40 "," 7 24 23)))] (mkPtok 3 "}" 7 26 24))); (DPacket (mkPacketDef (mkSpan (mkPtok 35 "packet" 8 0 26) (mkPtok 3 "}" 24 2 75)) None (mkPtok 35 "packet" 8 0 26) (mkPtok 42 "float" 9 0 27) (mkPtok 2 "{" 9 5 28) [(mkFieldWithAttr (mkSpan (mkPtok 29 "f64" 9 7 29) (mkPtok 40 "," 10 2 34)) [] (LengthField (mkSpan (mkPtok 29 "f64" 9 7 29) (mkPtok 40 "," 10 2 34)) (mkLengthFieldDecl (mkSpan (mkPtok 29 "f64" 9 7 29) (mkPtok 40 "," 10 2 34)) (Some (TyBasic (mkSpan (mkPtok 29 "f64" 9 7 29) (mkPtok 29 "f64" 9 7 29)) (mkBasicType (mkSpan (mkPtok 29 "f64" 9 7 29) (mkPtok 29 "f64" 9 7 29)) (mkPtok 29 "f64" 9 7 29)))) (mkPtok 42 "string_" 9 11 30) (mkLengthOf (mkSpan (mkPtok 7 "@lengthOf(" 9 19 31) (mkPtok 6 ")" 10 0 33)) (mkPtok 7 "@lengthOf(" 9 19 31) (mkPtok 42 "float" 9 30 32) (mkPtok 6 ")" 10 0 33)) None (mkPtok 40 "," 10 2 34)))); (mkFieldWithAttr (mkSpan (mkPtok 36 "repeat" 10 4 35) (mkPtok 40 "," 12 7 38)) [] (MetaField (mkSpan (mkPtok 36 "repeat" 10 4 35) (mkPtok 40 "," 12 7 38)) (Some (mkPtok 36 "repeat" 10 4 35)) (mkMetaDecl (mkSpan (mkPtok 29 "f64" 11 0 36) (mkPtok 40 "," 12 7 38)) (TyBasic (mkSpan (mkPtok 29 "f64" 11 0 36) (mkPtok 29 "f64" 11 0 36)) (mkBasicType (mkSpan (mkPtok 29 "f64" 11 0 36) (mkPtok 29 "f64" 11 0 36)) (mkPtok 29 "f64" 11 0 36))) (mkPtok 42 "uint8x" 12 0 37) None (mkPtok 40 "," 12 7 38)))); (mkFieldWithAttr (mkSpan (mkPtok 9 "@tag(" 12 9 39) (mkPtok 40 "," 16 0 50)) [(FATag (mkSpan (mkPtok 9 "@tag(" 12 9 39) (mkPtok 6 ")" 12 16 41)) (mkTagAttr (mkSpan (mkPtok 9 "@tag(" 12 9 39) (mkPtok 6 ")" 12 16 41)) (mkPtok 9 "@tag(" 12 9 39) (mkPtok 30 "1" 12 14 40) (mkPtok 6 ")" 12 16 41)))] (InerObjectField (mkSpan (mkPtok 42 "packetx" 13 4 42) (mkPtok 40 "," 16 0 50)) None (InerObjectDecl (mkSpan (mkPtok 42 "packetx" 13 4 42) (mkPtok 3 "}" 13 21 47)) (mkPtok 42 "packetx" 13 4 42) (mkPtok 2 "{" 13 11 43) [(MetaField (mkSpan (mkPtok 26 "i32" 13 13 44) (mkPtok 40 "," 13 20 46)) None (mkMetaDecl (mkSpan (mkPtok 26 "i32" 13 13 44) (mkPtok 40 "," 13 20 46)) (TyBasic (mkSpan (mkPtok 26 "i32" 13 13 44) (mkPtok 26 "i32" 13 13 44)) (mkBasicType (mkSpan (mkPtok 26 "i32" 13 13 44) (mkPtok 26 "i32" 13 13 44)) (mkPtok 26 "i32" 13 13 44))) (mkPtok 42 "asx" 13 17 45) None (mkPtok 40 "," 13 20 46)))] (mkPtok 3 "}" 13 21 47)) (mkPtok 40 "," 16 0 50))); (mkFieldWithAttr (mkSpan (mkPtok 42 "i64_" 16 2 51) (mkPtok 40 "," 18 10 56)) [] (LengthField (mkSpan (mkPtok 42 "i64_" 16 2 51) (mkPtok 40 "," 18 10 56)) (mkLengthFieldDecl (mkSpan (mkPtok 42 "i64_" 16 2 51) (mkPtok 40 "," 18 10 56)) None (mkPtok 42 "i64_" 16 2 51) (mkLengthOf (mkSpan (mkPtok 7 "@lengthOf(" 16 7 52) (mkPtok 6 ")" 18 0 54)) (mkPtok 7 "@lengthOf(" 16 7 52) (mkPtok 42 "u128" 17 4 53) (mkPtok 6 ")" 18 0 54)) (Some (mkPtok 43 "`u8 x,`" 18 2 55)) (mkPtok 40 "," 18 10 56)))); (mkFieldWithAttr (mkSpan (mkPtok 42 "asx" 19 4 57) (mkPtok 40 "," 23 2 71)) [] (InerObjectField (mkSpan (mkPtok 42 "asx" 19 4 57) (mkPtok 40 "," 23 2 71)) None (InerObjectDecl (mkSpan (mkPtok 42 "asx" 19 4 57) (mkPtok 3 "}" 23 0 70)) (mkPtok 42 "asx" 19 4 57) (mkPtok 2 "{" 20 0 59) [(MetaField (mkSpan (mkPtok 15 "string" 20 2 60) (mkPtok 40 "," 21 0 63)) None (mkMetaDecl (mkSpan (mkPtok 15 "string" 20 2 60) (mkPtok 40 "," 21 0 63)) (TyDynamic (mkSpan (mkPtok 15 "string" 20 2 60) (mkPtok 15 "string" 20 2 60)) (mkDynamicString (mkSpan (mkPtok 15 "string" 20 2 60) (mkPtok 15 "string" 20 2 60)) (mkPtok 15 "string" 20 2 60))) (mkPtok 42 "calculatedFrom" 20 9 61) (Some (mkPtok 43 "`u8 x,`" 20 24 62)) (mkPtok 40 "," 21 0 63))); (CheckSumField (mkSpan (mkPtok 20 "uint8" 21 2 64) (mkPtok 40 "," 22 1 69)) (mkChecksumFieldDecl (mkSpan (mkPtok 20 "uint8" 21 2 64) (mkPtok 40 "," 22 1 69)) (Some (TyBasic (mkSpan (mkPtok 20 "uint8" 21 2 64) (mkPtok 20 "uint8" 21 2 64)) (mkBasicType (mkSpan (mkPtok 20 "uint8" 21 2 64) (mkPtok 20 "uint8" 21 2 64)) (mkPtok 20 "uint8" 21 2 64)))) (mkPtok 42 "falsey" 21 8 65) (mkCalculatedFrom (mkSpan (mkPtok 5 "@calculatedFrom(" 21 15 66) (mkPtok 6 ")" 22 0 68)) (mkPtok 5 "@calculatedFrom(" 21 15 66) (mkPtok 31 """x y""" 21 32 67) (mkPtok 6 ")" 22 0 68)) None (mkPtok 40 "," 22 1 69)))] (mkPtok 3 "}" 23 0 70)) (mkPtok 40 "," 23 2 71))); (mkFieldWithAttr (mkSpan (mkPtok 26 "int32" 23 4 72) (mkPtok 40 "," 24 0 74)) [] (MetaField (mkSpan (mkPtok 26 "int32" 23 4 72) (mkPtok 40 "," 24 0 74)) None (mkMetaDecl (mkSpan (mkPtok 26 "int32" 23 4 72) (mkPtok 40 "," 24 0 74)) (TyBasic (mkSpan (mkPtok 26 "int32" 23 4 72) (mkPtok 26 "int32" 23 4 72)) (mkBasicType (mkSpan (mkPtok 26 "int32" 23 4 72) (mkPtok 26 "int32" 23 4 72)) (mkPtok 26 "int32" 23 4 72))) (mkPtok 42 "Header" 23 10 73) None (mkPtok 40 "," 24 0 74))))] (mkPtok 3 "}" 24 2 75))); (DMeta (mkMetaDef (mkSpan (mkPtok 37 "MetaData" 27 0 78) (mkPtok 3 "}" 27 15 81)) (mkPtok 37 "MetaData" 27 0 78) (mkPtok 42 "u8x" 27 9 79) (mkPtok 2 "{" 27 13 80) [] (mkPtok 3 "}" 27 15 81)))])).
Eval vm_compute in ("<<<M787>>>" ++ check (runes_of_ascii "  MetaData
options1{ float _x `{ , }`
, }")).
Eval vm_compute in ("<<<M819>>>" ++ check (runes_of_ascii "// " ++ [27880; 37322]%N ++ runes_of_ascii "
options
{ u8x  = zchar[0
] ; len
    =
    ' ';
    leftPad =false;
} 	 ")).
Eval vm_compute in ("<<<M851>>>" ++ check (runes_of_ascii "
options
    { MetaDataX = zchar[
10 ]
    ;
Pad
=	true // trailing space 
;asx=
    false ;Header=""" ++ [233]%N ++ runes_of_ascii "t" ++ [233]%N ++ runes_of_ascii """ roots = ""it's""
} // " ++ [128512]%N ++ runes_of_ascii " emoji
options { // a // b
a1
    =
//	t
//	t
false
;
asx	= '\x00'
; zchar  =""packet"" BodyLength	= """"// trailing space 
As
= true } packet rootA//x
{} packet	calculatedFrom { repeat	char[]
matchKey ,  repeat trueish {	i16 repeatCount @lengthOf( rootA ) , } , uint64
i8i8 , int64 _x @calculatedFrom(
""// no comment"") ,
@lengthOf(tag ) repeat
    leftPad	, @lengthOf( o  ) // " ++ [128512]%N ++ runes_of_ascii " emoji
zchar
    // packet A { u8 x, }
    @calculatedFrom(""`tick`""
) ,tag @lengthOf(
x_y_z
    // `tick` ""quote"" 'q'
    ) ,
A@lengthOf(
    uint8x )`u8 x,` ,/// triple
roots { u128
    ,	} , } root // " ++ [27880; 37322]%N ++ runes_of_ascii "
packet uint8x
{A // " ++ [27880; 37322]%N ++ runes_of_ascii "
@lengthOf(
    x )`" ++ [233]%N ++ runes_of_ascii "` , }")).
Eval vm_compute in ("<<<M883>>>" ++ check (runes_of_ascii "MetaData
zchar{zchar[
    // " ++ [27880; 37322]%N ++ runes_of_ascii "
    7 ] crc,
}
")).
Eval vm_compute in ("<<<M915>>>" ++ check (runes_of_ascii "
packet// packet A { u8 x, }
Z9_
    {} MetaData	falsey { string
    len
    // " ++ [128512]%N ++ runes_of_ascii " emoji
    `tab	here` ,
/// triple
// `tick` ""quote"" 'q'
i32 asx ,
    uint8 pack
    , } options // " ++ [27880; 37322]%N ++ runes_of_ascii "
{_x = // trailing space 
true
// " ++ [27880; 37322]%N ++ runes_of_ascii "
// " ++ [27880; 37322]%N ++ runes_of_ascii "
}

")).
Eval vm_compute in ("<<<M947>>>" ++ check (runes_of_ascii "packet Packet
{asx
    //	t
    @lengthOf(metadata)  `line1
line2`
// " ++ [128512]%N ++ runes_of_ascii " emoji
// packet A { u8 x, }
,
@tag( 0123456789) repeat char tag,
BodyLength @calculatedFrom( ""`tick`""
)
, @calculatedFrom(
""\" ++ [233]%N ++ runes_of_ascii """ )
tag @calculatedFrom(// @lengthOf(
""" ++ [233]%N ++ runes_of_ascii "t" ++ [233]%N ++ runes_of_ascii """
    )	,@leftPad
( ) match o as T
    {	""CRC32"":metadata [ 7, // trailing space 
""CRC32"", ""CRC32""
, ""a\\"" , 0123456789
]
:
i8i8 4294967296
:
    o, [65535 ] : leftPad, 00:
charz
    , } , string_ @calculatedFrom( ""\n"" ) `u8 x,` , }
root packet Foo // `tick` ""quote"" 'q'
{ @rightPad(
    '0'
    ) repeat msg_type string_ , } root packet Z9_{ @calculatedFrom(
    // c
    ""1"")string
    A //x
, repeat x zchar,  @tag( 1
    ) @tag( 0 ) i64_
    float
`tab	here` , repeat //
u8 _x
    `` , lengthOf
@calculatedFrom(
    ""`tick`"")
//x
// trailing space 
,
    }
")).
Eval vm_compute in ("<<<M979>>>" ++ check (runes_of_ascii "MetaData trueish { f32
a1 `it's` , A // " ++ [128512]%N ++ runes_of_ascii " emoji
lengthOf`tab	here` , } MetaData	BodyLength
{
    // @lengthOf(
    char[
0123456789 ]stringy
//	t
// c
,
} packet string_ { @rightPad	('0' ) asx
    , @calculatedFrom(""abc""
    )repeat char[ 4294967296 // `tick` ""quote"" 'q'
] packetx ,
// a // b
// " ++ [27880; 37322]%N ++ runes_of_ascii "
repeat
o
    // " ++ [27880; 37322]%N ++ runes_of_ascii "
    { // `tick` ""quote"" 'q'
int64
u8x,repeat u32 leftPad
`a\`
, // packet A { u8 x, }
char[] charz `doc`
,zchar[
65535
] lengthOf@calculatedFrom(  ""a\\""
    )
, }  ,
    // " ++ [27880; 37322]%N ++ runes_of_ascii "
    leftPad
@calculatedFrom(	""// no comment"")`// not a comment` ,
    int32 int
,pack {zchar,
} // c
,repeat zchar[65535 ]
    // c
    x ,
@rightPad  (  '0' )
//x
// c
float32 Z9_
, @calculatedFrom(
// a // b
// " ++ [27880; 37322]%N ++ runes_of_ascii "
""`tick`""
    )
    match
uint8x
    as
Header // `tick` ""quote"" 'q'
{[42
    // " ++ [128512]%N ++ runes_of_ascii " emoji
    ]
    :f32a, 4294967296
    :
    matchKey , """ ++ [28040; 24687]%N ++ runes_of_ascii """
    /// triple
    : tag 1 :// a // b
body
, }
    ,
@tag(// a // b
007
    )@calculatedFrom( ""a\\"" ) @lengthOf(
metadata ) repeat chars ,}
packet roots { char[007
    ]
Foo@lengthOf(zchar ) `line1
line2` , @tag( 255 ) match crc as lengthOf {[ ""// no comment"" ]
:
    Header ,
    //x
    1 :// " ++ [128512]%N ++ runes_of_ascii " emoji
crc ,""\n"" :  options1 , [ 1, """ ++ [28040; 24687]%N ++ runes_of_ascii """
    ,
    00,	1, //	t
42 ,65535  ] : Z9_,}
//x
// a // b
,zchar[ 4294967296
] As `say ""hi""`
    ,	@lengthOf( stringy ) chars
{float32 u8x,} ,
    char[ 255 ] Pad
    @lengthOf(u8x ) ,
int64 metadata,
    // c
    uint8 x_y_z	@lengthOf(
    //
    Header )`two words`,	repeat zchar[ 42 ] calculatedFrom `it's`	, @rightPad
(
'\x00' )
    repeat
    crc
    // @lengthOf(
    {
    // trailing space 
    repeat As {
i64_`line1
line2` , } ,}
, }
")).
Eval vm_compute in ("<<<T979>>>" ++ terms [mkTok 37 "MetaData" 1 0 false; mkTok 42 "trueish" 1 9 false; mkTok 2 "{" 1 17 false; mkTok 28 "f32" 1 19 false; mkTok 42 "a1" 2 0 false; mkTok 43 "`it's`" 2 3 false; mkTok 40 "," 2 10 false; mkTok 42 "A" 2 12 false; mkTok 44 (string_of_bytes [47; 47; 32; 240; 159; 152; 128; 32; 101; 109; 111; 106; 105]%N) 2 14 true; mkTok 42 "lengthOf" 3 0 false; mkTok 43 (string_of_bytes [96; 116; 97; 98; 9; 104; 101; 114; 101; 96]%N) 3 8 false; mkTok 40 "," 3 19 false; mkTok 3 "}" 3 21 false; mkTok 37 "MetaData" 3 23 false; mkTok 42 "BodyLength" 3 32 false; mkTok 2 "{" 4 0 false; mkTok 44 "// @lengthOf(" 5 4 true; mkTok 12 "char[" 6 4 false; mkTok 30 "0123456789" 7 0 false; mkTok 13 "]" 7 11 false; mkTok 42 "stringy" 7 12 false; mkTok 44 (string_of_bytes [47; 47; 9; 116]%N) 8 0 true; mkTok 44 "// c" 9 0 true; mkTok 40 "," 10 0 false; mkTok 3 "}" 11 0 false; mkTok 35 "packet" 11 2 false; mkTok 42 "string_" 11 9 false; mkTok 2 "{" 11 17 false; mkTok 32 "@rightPad" 11 19 false; mkTok 8 "(" 11 29 false; mkTok 33 "'0'" 11 30 false; mkTok 6 ")" 11 34 false; mkTok 42 "asx" 11 36 false; mkTok 40 "," 12 4 false; mkTok 5 "@calculatedFrom(" 12 6 false; mkTok 31 """abc""" 12 22 false; mkTok 6 ")" 13 4 false; mkTok 36 "repeat" 13 5 false; mkTok 12 "char[" 13 12 false; mkTok 30 "4294967296" 13 18 false; mkTok 44 "// `tick` ""quote"" 'q'" 13 29 true; mkTok 13 "]" 14 0 false; mkTok 42 "packetx" 14 2 false; mkTok 40 "," 14 10 false; mkTok 44 "// a // b" 15 0 true; mkTok 44 (string_of_bytes [47; 47; 32; 230; 179; 168; 233; 135; 138]%N) 16 0 true; mkTok 36 "repeat" 17 0 false; mkTok 42 "o" 18 0 false; mkTok 44 (string_of_bytes [47; 47; 32; 230; 179; 168; 233; 135; 138]%N) 19 4 true; mkTok 2 "{" 20 4 false; mkTok 44 "// `tick` ""quote"" 'q'" 20 6 true; mkTok 27 "int64" 21 0 false; mkTok 42 "u8x" 22 0 false; mkTok 40 "," 22 3 false; mkTok 36 "repeat" 22 4 false; mkTok 22 "u32" 22 11 false; mkTok 42 "leftPad" 22 15 false; mkTok 43 "`a\`" 23 0 false; mkTok 40 "," 24 0 false; mkTok 44 "// packet A { u8 x, }" 24 2 true; mkTok 16 "char[]" 25 0 false; mkTok 42 "charz" 25 7 false; mkTok 43 "`doc`" 25 13 false; mkTok 40 "," 26 0 false; mkTok 14 "zchar[" 26 1 false; mkTok 30 "65535" 27 0 false; mkTok 13 "]" 28 0 false; mkTok 42 "lengthOf" 28 2 false; mkTok 5 "@calculatedFrom(" 28 10 false; mkTok 31 """a\\""" 28 28 false; mkTok 6 ")" 29 4 false; mkTok 40 "," 30 0 false; mkTok 3 "}" 30 2 false; mkTok 40 "," 30 5 false; mkTok 44 (string_of_bytes [47; 47; 32; 230; 179; 168; 233; 135; 138]%N) 31 4 true; mkTok 42 "leftPad" 32 4 false; mkTok 5 "@calculatedFrom(" 33 0 false; mkTok 31 """// no comment""" 33 17 false; mkTok 6 ")" 33 32 false; mkTok 43 "`// not a comment`" 33 33 false; mkTok 40 "," 33 52 false; mkTok 26 "int32" 34 4 false; mkTok 42 "int" 34 10 false; mkTok 40 "," 35 0 false; mkTok 42 "pack" 35 1 false; mkTok 2 "{" 35 6 false; mkTok 42 "zchar" 35 7 false; mkTok 40 "," 35 12 false; mkTok 3 "}" 36 0 false; mkTok 44 "// c" 36 2 true; mkTok 40 "," 37 0 false; mkTok 36 "repeat" 37 1 false; mkTok 14 "zchar[" 37 8 false; mkTok 30 "65535" 37 14 false; mkTok 13 "]" 37 20 false; mkTok 44 "// c" 38 4 true; mkTok 42 "x" 39 4 false; mkTok 40 "," 39 6 false; mkTok 32 "@rightPad" 40 0 false; mkTok 8 "(" 40 11 false; mkTok 33 "'0'" 40 14 false; mkTok 6 ")" 40 18 false; mkTok 44 "//x" 41 0 true; mkTok 44 "// c" 42 0 true; mkTok 28 "float32" 43 0 false; mkTok 42 "Z9_" 43 8 false; mkTok 40 "," 44 0 false; mkTok 5 "@calculatedFrom(" 44 2 false; mkTok 44 "// a // b" 45 0 true; mkTok 44 (string_of_bytes [47; 47; 32; 230; 179; 168; 233; 135; 138]%N) 46 0 true; mkTok 31 """`tick`""" 47 0 false; mkTok 6 ")" 48 4 false; mkTok 38 "match" 49 4 false; mkTok 42 "uint8x" 50 0 false; mkTok 17 "as" 51 4 false; mkTok 42 "Header" 52 0 false; mkTok 44 "// `tick` ""quote"" 'q'" 52 7 true; mkTok 2 "{" 53 0 false; mkTok 18 "[" 53 1 false; mkTok 30 "42" 53 2 false; mkTok 44 (string_of_bytes [47; 47; 32; 240; 159; 152; 128; 32; 101; 109; 111; 106; 105]%N) 54 4 true; mkTok 13 "]" 55 4 false; mkTok 39 ":" 56 4 false; mkTok 42 "f32a" 56 5 false; mkTok 40 "," 56 9 false; mkTok 30 "4294967296" 56 11 false; mkTok 39 ":" 57 4 false; mkTok 42 "matchKey" 58 4 false; mkTok 40 "," 58 13 false; mkTok 31 (string_of_bytes [34; 230; 182; 136; 230; 129; 175; 34]%N) 58 15 false; mkTok 44 "/// triple" 59 4 true; mkTok 39 ":" 60 4 false; mkTok 42 "tag" 60 6 false; mkTok 30 "1" 60 10 false; mkTok 39 ":" 60 12 false; mkTok 44 "// a // b" 60 13 true; mkTok 42 "body" 61 0 false; mkTok 40 "," 62 0 false; mkTok 3 "}" 62 2 false; mkTok 40 "," 63 4 false; mkTok 9 "@tag(" 64 0 false; mkTok 44 "// a // b" 64 5 true; mkTok 30 "007" 65 0 false; mkTok 6 ")" 66 4 false; mkTok 5 "@calculatedFrom(" 66 5 false; mkTok 31 """a\\""" 66 22 false; mkTok 6 ")" 66 28 false; mkTok 7 "@lengthOf(" 66 30 false; mkTok 42 "metadata" 67 0 false; mkTok 6 ")" 67 9 false; mkTok 36 "repeat" 67 11 false; mkTok 42 "chars" 67 18 false; mkTok 40 "," 67 24 false; mkTok 3 "}" 67 25 false; mkTok 35 "packet" 68 0 false; mkTok 42 "roots" 68 7 false; mkTok 2 "{" 68 13 false; mkTok 12 "char[" 68 15 false; mkTok 30 "007" 68 20 false; mkTok 13 "]" 69 4 false; mkTok 42 "Foo" 70 0 false; mkTok 7 "@lengthOf(" 70 3 false; mkTok 42 "zchar" 70 13 false; mkTok 6 ")" 70 19 false; mkTok 43 (string_of_bytes [96; 108; 105; 110; 101; 49; 10; 108; 105; 110; 101; 50; 96]%N) 70 21 false; mkTok 40 "," 71 7 false; mkTok 9 "@tag(" 71 9 false; mkTok 30 "255" 71 15 false; mkTok 6 ")" 71 19 false; mkTok 38 "match" 71 21 false; mkTok 42 "crc" 71 27 false; mkTok 17 "as" 71 31 false; mkTok 42 "lengthOf" 71 34 false; mkTok 2 "{" 71 43 false; mkTok 18 "[" 71 44 false; mkTok 31 """// no comment""" 71 46 false; mkTok 13 "]" 71 62 false; mkTok 39 ":" 72 0 false; mkTok 42 "Header" 73 4 false; mkTok 40 "," 73 11 false; mkTok 44 "//x" 74 4 true; mkTok 30 "1" 75 4 false; mkTok 39 ":" 75 6 false; mkTok 44 (string_of_bytes [47; 47; 32; 240; 159; 152; 128; 32; 101; 109; 111; 106; 105]%N) 75 7 true; mkTok 42 "crc" 76 0 false; mkTok 40 "," 76 4 false; mkTok 31 """\n""" 76 5 false; mkTok 39 ":" 76 10 false; mkTok 42 "options1" 76 13 false; mkTok 40 "," 76 22 false; mkTok 18 "[" 76 24 false; mkTok 30 "1" 76 26 false; mkTok 40 "," 76 27 false; mkTok 31 (string_of_bytes [34; 230; 182; 136; 230; 129; 175; 34]%N) 76 29 false; mkTok 40 "," 77 4 false; mkTok 30 "00" 78 4 false; mkTok 40 "," 78 6 false; mkTok 30 "1" 78 8 false; mkTok 40 "," 78 9 false; mkTok 44 (string_of_bytes [47; 47; 9; 116]%N) 78 11 true; mkTok 30 "42" 79 0 false; mkTok 40 "," 79 3 false; mkTok 30 "65535" 79 4 false; mkTok 13 "]" 79 11 false; mkTok 39 ":" 79 13 false; mkTok 42 "Z9_" 79 15 false; mkTok 40 "," 79 18 false; mkTok 3 "}" 79 19 false; mkTok 44 "//x" 80 0 true; mkTok 44 "// a // b" 81 0 true; mkTok 40 "," 82 0 false; mkTok 14 "zchar[" 82 1 false; mkTok 30 "4294967296" 82 8 false; mkTok 13 "]" 83 0 false; mkTok 42 "As" 83 2 false; mkTok 43 "`say ""hi""`" 83 5 false; mkTok 40 "," 84 4 false; mkTok 7 "@lengthOf(" 84 6 false; mkTok 42 "stringy" 84 17 false; mkTok 6 ")" 84 25 false; mkTok 42 "chars" 84 27 false; mkTok 2 "{" 85 0 false; mkTok 28 "float32" 85 1 false; mkTok 42 "u8x" 85 9 false; mkTok 40 "," 85 12 false; mkTok 3 "}" 85 13 false; mkTok 40 "," 85 15 false; mkTok 12 "char[" 86 4 false; mkTok 30 "255" 86 10 false; mkTok 13 "]" 86 14 false; mkTok 42 "Pad" 86 16 false; mkTok 7 "@lengthOf(" 87 4 false; mkTok 42 "u8x" 87 14 false; mkTok 6 ")" 87 18 false; mkTok 40 "," 87 20 false; mkTok 27 "int64" 88 0 false; mkTok 42 "metadata" 88 6 false; mkTok 40 "," 88 14 false; mkTok 44 "// c" 89 4 true; mkTok 20 "uint8" 90 4 false; mkTok 42 "x_y_z" 90 10 false; mkTok 7 "@lengthOf(" 90 16 false; mkTok 44 "//" 91 4 true; mkTok 42 "Header" 92 4 false; mkTok 6 ")" 92 11 false; mkTok 43 "`two words`" 92 12 false; mkTok 40 "," 92 23 false; mkTok 36 "repeat" 92 25 false; mkTok 14 "zchar[" 92 32 false; mkTok 30 "42" 92 39 false; mkTok 13 "]" 92 42 false; mkTok 42 "calculatedFrom" 92 44 false; mkTok 43 "`it's`" 92 59 false; mkTok 40 "," 92 66 false; mkTok 32 "@rightPad" 92 68 false; mkTok 8 "(" 93 0 false; mkTok 33 "'\x00'" 94 0 false; mkTok 6 ")" 94 7 false; mkTok 36 "repeat" 95 4 false; mkTok 42 "crc" 96 4 false; mkTok 44 "// @lengthOf(" 97 4 true; mkTok 2 "{" 98 4 false; mkTok 44 "// trailing space " 99 4 true; mkTok 36 "repeat" 100 4 false; mkTok 42 "As" 100 11 false; mkTok 2 "{" 100 14 false; mkTok 42 "i64_" 101 0 false; mkTok 43 (string_of_bytes [96; 108; 105; 110; 101; 49; 10; 108; 105; 110; 101; 50; 96]%N) 101 4 false; mkTok 40 "," 102 7 false; mkTok 3 "}" 102 9 false; mkTok 40 "," 102 11 false; mkTok 3 "}" 102 12 false; mkTok 40 "," 103 0 false; mkTok 3 "}" 103 2 false; mkTok 0 "<EOF>" 104 0 false] (mkPacket (mkPtok 37 "MetaData" 1 0 0) (Some (mkPtok 3 "}" 103 2 273)) [(DMeta (mkMetaDef (mkSpan (mkPtok 37 "MetaData" 1 0 0) (mkPtok 3 "}" 3 21 12)) (mkPtok 37 "MetaData" 1 0 0) (mkPtok 42 "trueish" 1 9 1) (mkPtok 2 "{" 1 17 2) [(MIDecl (mkMetaDecl (mkSpan (mkPtok 28 "f32" 1 19 3) (mkPtok 40 "," 2 10 6)) (TyBasic (mkSpan (mkPtok 28 "f32" 1 19 3) (mkPtok 28 "f32" 1 19 3)) (mkBasicType (mkSpan (mkPtok 28 "f32" 1 19 3) (mkPtok 28 "f32" 1 19 3)) (mkPtok 28 "f32" 1 19 3))) (mkPtok 42 "a1" 2 0 4) (Some (mkPtok 43 "`it's`" 2 3 5)) (mkPtok 40 "," 2 10 6))); (MIRef (mkRefMetaDecl (mkSpan (mkPtok 42 "A" 2 12 7) (mkPtok 40 "," 3 19 11)) (mkPtok 42 "A" 2 12 7) (mkPtok 42 "lengthOf" 3 0 9) (Some (mkPtok 43 (string_of_bytes [96; 116; 97; 98; 9; 104; 101; 114; 101; 96]%N) 3 8 10)) (mkPtok 40 "," 3 19 11)))] (mkPtok 3 "}" 3 21 12))); (DMeta (mkMetaDef (mkSpan (mkPtok 37 "MetaData" 3 23 13) (mkPtok 3 "}" 11 0 24)) (mkPtok 37 "MetaData" 3 23 13) (mkPtok 42 "BodyLength" 3 32 14) (mkPtok 2 "{" 4 0 15) [(MIDecl (mkMetaDecl (mkSpan (mkPtok 12 "char[" 6 4 17) (mkPtok 40 "," 10 0 23)) (TyFixed (mkSpan (mkPtok 12 "char[" 6 4 17) (mkPtok 13 "]" 7 11 19)) (mkFixedString (mkSpan (mkPtok 12 "char[" 6 4 17) (mkPtok 13 "]" 7 11 19)) (mkPtok 12 "char[" 6 4 17) (mkPtok 30 "0123456789" 7 0 18) (mkPtok 13 "]" 7 11 19))) (mkPtok 42 "stringy" 7 12 20) None (mkPtok 40 "," 10 0 23)))] (mkPtok 3 "}" 11 0 24))); (DPacket (mkPacketDef (mkSpan (mkPtok 35 "packet" 11 2 25) (mkPtok 3 "}" 67 25 153)) None (mkPtok 35 "packet" 11 2 25) (mkPtok 42 "string_" 11 9 26) (mkPtok 2 "{" 11 17 27) [(mkFieldWithAttr (mkSpan (mkPtok 32 "@rightPad" 11 19 28) (mkPtok 40 "," 12 4 33)) [(FAPadding (mkSpan (mkPtok 32 "@rightPad" 11 19 28) (mkPtok 6 ")" 11 34 31)) (mkPaddingAttr (mkSpan (mkPtok 32 "@rightPad" 11 19 28) (mkPtok 6 ")" 11 34 31)) (mkPtok 32 "@rightPad" 11 19 28) (mkPtok 8 "(" 11 29 29) (Some (mkPtok 33 "'0'" 11 30 30)) (mkPtok 6 ")" 11 34 31)))] (ObjectField (mkSpan (mkPtok 42 "asx" 11 36 32) (mkPtok 40 "," 12 4 33)) None (mkPtok 42 "asx" 11 36 32) None None (mkPtok 40 "," 12 4 33))); (mkFieldWithAttr (mkSpan (mkPtok 5 "@calculatedFrom(" 12 6 34) (mkPtok 40 "," 14 10 43)) [(FACalculatedFrom (mkSpan (mkPtok 5 "@calculatedFrom(" 12 6 34) (mkPtok 6 ")" 13 4 36)) (mkCalculatedFrom (mkSpan (mkPtok 5 "@calculatedFrom(" 12 6 34) (mkPtok 6 ")" 13 4 36)) (mkPtok 5 "@calculatedFrom(" 12 6 34) (mkPtok 31 """abc""" 12 22 35) (mkPtok 6 ")" 13 4 36)))] (MetaField (mkSpan (mkPtok 36 "repeat" 13 5 37) (mkPtok 40 "," 14 10 43)) (Some (mkPtok 36 "repeat" 13 5 37)) (mkMetaDecl (mkSpan (mkPtok 12 "char[" 13 12 38) (mkPtok 40 "," 14 10 43)) (TyFixed (mkSpan (mkPtok 12 "char[" 13 12 38) (mkPtok 13 "]" 14 0 41)) (mkFixedString (mkSpan (mkPtok 12 "char[" 13 12 38) (mkPtok 13 "]" 14 0 41)) (mkPtok 12 "char[" 13 12 38) (mkPtok 30 "4294967296" 13 18 39) (mkPtok 13 "]" 14 0 41))) (mkPtok 42 "packetx" 14 2 42) None (mkPtok 40 "," 14 10 43)))); (mkFieldWithAttr (mkSpan (mkPtok 36 "repeat" 17 0 46) (mkPtok 40 "," 30 5 73)) [] (InerObjectField (mkSpan (mkPtok 36 "repeat" 17 0 46) (mkPtok 40 "," 30 5 73)) (Some (mkPtok 36 "repeat" 17 0 46)) (InerObjectDecl (mkSpan (mkPtok 42 "o" 18 0 47) (mkPtok 3 "}" 30 2 72)) (mkPtok 42 "o" 18 0 47) (mkPtok 2 "{" 20 4 49) [(MetaField (mkSpan (mkPtok 27 "int64" 21 0 51) (mkPtok 40 "," 22 3 53)) None (mkMetaDecl (mkSpan (mkPtok 27 "int64" 21 0 51) (mkPtok 40 "," 22 3 53)) (TyBasic (mkSpan (mkPtok 27 "int64" 21 0 51) (mkPtok 27 "int64" 21 0 51)) (mkBasicType (mkSpan (mkPtok 27 "int64" 21 0 51) (mkPtok 27 "int64" 21 0 51)) (mkPtok 27 "int64" 21 0 51))) (mkPtok 42 "u8x" 22 0 52) None (mkPtok 40 "," 22 3 53))); (MetaField (mkSpan (mkPtok 36 "repeat" 22 4 54) (mkPtok 40 "," 24 0 58)) (Some (mkPtok 36 "repeat" 22 4 54)) (mkMetaDecl (mkSpan (mkPtok 22 "u32" 22 11 55) (mkPtok 40 "," 24 0 58)) (TyBasic (mkSpan (mkPtok 22 "u32" 22 11 55) (mkPtok 22 "u32" 22 11 55)) (mkBasicType (mkSpan (mkPtok 22 "u32" 22 11 55) (mkPtok 22 "u32" 22 11 55)) (mkPtok 22 "u32" 22 11 55))) (mkPtok 42 "leftPad" 22 15 56) (Some (mkPtok 43 "`a\`" 23 0 57)) (mkPtok 40 "," 24 0 58))); (MetaField (mkSpan (mkPtok 16 "char[]" 25 0 60) (mkPtok 40 "," 26 0 63)) None (mkMetaDecl (mkSpan (mkPtok 16 "char[]" 25 0 60) (mkPtok 40 "," 26 0 63)) (TyDynamic (mkSpan (mkPtok 16 "char[]" 25 0 60) (mkPtok 16 "char[]" 25 0 60)) (mkDynamicString (mkSpan (mkPtok 16 "char[]" 25 0 60) (mkPtok 16 "char[]" 25 0 60)) (mkPtok 16 "char[]" 25 0 60))) (mkPtok 42 "charz" 25 7 61) (Some (mkPtok 43 "`doc`" 25 13 62)) (mkPtok 40 "," 26 0 63))); (CheckSumField (mkSpan (mkPtok 14 "zchar[" 26 1 64) (mkPtok 40 "," 30 0 71)) (mkChecksumFieldDecl (mkSpan (mkPtok 14 "zchar[" 26 1 64) (mkPtok 40 "," 30 0 71)) (Some (TyFixed (mkSpan (mkPtok 14 "zchar[" 26 1 64) (mkPtok 13 "]" 28 0 66)) (mkFixedString (mkSpan (mkPtok 14 "zchar[" 26 1 64) (mkPtok 13 "]" 28 0 66)) (mkPtok 14 "zchar[" 26 1 64) (mkPtok 30 "65535" 27 0 65) (mkPtok 13 "]" 28 0 66)))) (mkPtok 42 "lengthOf" 28 2 67) (mkCalculatedFrom (mkSpan (mkPtok 5 "@calculatedFrom(" 28 10 68) (mkPtok 6 ")" 29 4 70)) (mkPtok 5 "@calculatedFrom(" 28 10 68) (mkPtok 31 """a\\""" 28 28 69) (mkPtok 6 ")" 29 4 70)) None (mkPtok 40 "," 30 0 71)))] (mkPtok 3 "}" 30 2 72)) (mkPtok 40 "," 30 5 73))); (mkFieldWithAttr (mkSpan (mkPtok 42 "leftPad" 32 4 75) (mkPtok 40 "," 33 52 80)) [] (CheckSumField (mkSpan (mkPtok 42 "leftPad" 32 4 75) (mkPtok 40 "," 33 52 80)) (mkChecksumFieldDecl (mkSpan (mkPtok 42 "leftPad" 32 4 75) (mkPtok 40 "," 33 52 80)) None (mkPtok 42 "leftPad" 32 4 75) (mkCalculatedFrom (mkSpan (mkPtok 5 "@calculatedFrom(" 33 0 76) (mkPtok 6 ")" 33 32 78)) (mkPtok 5 "@calculatedFrom(" 33 0 76) (mkPtok 31 """// no comment""" 33 17 77) (mkPtok 6 ")" 33 32 78)) (Some (mkPtok 43 "`// not a comment`" 33 33 79)) (mkPtok 40 "," 33 52 80)))); (mkFieldWithAttr (mkSpan (mkPtok 26 "int32" 34 4 81) (mkPtok 40 "," 35 0 83)) [] (MetaField (mkSpan (mkPtok 26 "int32" 34 4 81) (mkPtok 40 "," 35 0 83)) None (mkMetaDecl (mkSpan (mkPtok 26 "int32" 34 4 81) (mkPtok 40 "," 35 0 83)) (TyBasic (mkSpan (mkPtok 26 "int32" 34 4 81) (mkPtok 26 "int32" 34 4 81)) (mkBasicType (mkSpan (mkPtok 26 "int32" 34 4 81) (mkPtok 26 "int32" 34 4 81)) (mkPtok 26 "int32" 34 4 81))) (mkPtok 42 "int" 34 10 82) None (mkPtok 40 "," 35 0 83)))); (mkFieldWithAttr (mkSpan (mkPtok 42 "pack" 35 1 84) (mkPtok 40 "," 37 0 90)) [] (InerObjectField (mkSpan (mkPtok 42 "pack" 35 1 84) (mkPtok 40 "," 37 0 90)) None (InerObjectDecl (mkSpan (mkPtok 42 "pack" 35 1 84) (mkPtok 3 "}" 36 0 88)) (mkPtok 42 "pack" 35 1 84) (mkPtok 2 "{" 35 6 85) [(ObjectField (mkSpan (mkPtok 42 "zchar" 35 7 86) (mkPtok 40 "," 35 12 87)) None (mkPtok 42 "zchar" 35 7 86) None None (mkPtok 40 "," 35 12 87))] (mkPtok 3 "}" 36 0 88)) (mkPtok 40 "," 37 0 90))); (mkFieldWithAttr (mkSpan (mkPtok 36 "repeat" 37 1 91) (mkPtok 40 "," 39 6 97)) [] (MetaField (mkSpan (mkPtok 36 "repeat" 37 1 91) (mkPtok 40 "," 39 6 97)) (Some (mkPtok 36 "repeat" 37 1 91)) (mkMetaDecl (mkSpan (mkPtok 14 "zchar[" 37 8 92) (mkPtok 40 "," 39 6 97)) (TyFixed (mkSpan (mkPtok 14 "zchar[" 37 8 92) (mkPtok 13 "]" 37 20 94)) (mkFixedString (mkSpan (mkPtok 14 "zchar[" 37 8 92) (mkPtok 13 "]" 37 20 94)) (mkPtok 14 "zchar[" 37 8 92) (mkPtok 30 "65535" 37 14 93) (mkPtok 13 "]" 37 20 94))) (mkPtok 42 "x" 39 4 96) None (mkPtok 40 "," 39 6 97)))); (mkFieldWithAttr (mkSpan (mkPtok 32 "@rightPad" 40 0 98) (mkPtok 40 "," 44 0 106)) [(FAPadding (mkSpan (mkPtok 32 "@rightPad" 40 0 98) (mkPtok 6 ")" 40 18 101)) (mkPaddingAttr (mkSpan (mkPtok 32 "@rightPad" 40 0 98) (mkPtok 6 ")" 40 18 101)) (mkPtok 32 "@rightPad" 40 0 98) (mkPtok 8 "(" 40 11 99) (Some (mkPtok 33 "'0'" 40 14 100)) (mkPtok 6 ")" 40 18 101)))] (MetaField (mkSpan (mkPtok 28 "float32" 43 0 104) (mkPtok 40 "," 44 0 106)) None (mkMetaDecl (mkSpan (mkPtok 28 "float32" 43 0 104) (mkPtok 40 "," 44 0 106)) (TyBasic (mkSpan (mkPtok 28 "float32" 43 0 104) (mkPtok 28 "float32" 43 0 104)) (mkBasicType (mkSpan (mkPtok 28 "float32" 43 0 104) (mkPtok 28 "float32" 43 0 104)) (mkPtok 28 "float32" 43 0 104))) (mkPtok 42 "Z9_" 43 8 105) None (mkPtok 40 "," 44 0 106)))); (mkFieldWithAttr (mkSpan (mkPtok 5 "@calculatedFrom(" 44 2 107) (mkPtok 40 "," 63 4 139)) [(FACalculatedFrom (mkSpan (mkPtok 5 "@calculatedFrom(" 44 2 107) (mkPtok 6 ")" 48 4 111)) (mkCalculatedFrom (mkSpan (mkPtok 5 "@calculatedFrom(" 44 2 107) (mkPtok 6 ")" 48 4 111)) (mkPtok 5 "@calculatedFrom(" 44 2 107) (mkPtok 31 """`tick`""" 47 0 110) (mkPtok 6 ")" 48 4 111)))] (MatchField (mkSpan (mkPtok 38 "match" 49 4 112) (mkPtok 40 "," 63 4 139)) (mkMatchFieldDecl (mkSpan (mkPtok 38 "match" 49 4 112) (mkPtok 3 "}" 62 2 138)) (mkPtok 38 "match" 49 4 112) (mkPtok 42 "uint8x" 50 0 113) (mkPtok 17 "as" 51 4 114) (mkPtok 42 "Header" 52 0 115) (mkPtok 2 "{" 53 0 117) [(mkMatchPair (mkSpan (mkPtok 18 "[" 53 1 118) (mkPtok 40 "," 56 9 124)) (MKList (mkKeyList (mkSpan (mkPtok 18 "[" 53 1 118) (mkPtok 13 "]" 55 4 121)) (mkPtok 18 "[" 53 1 118) (mkPtok 30 "42" 53 2 119) [] (mkPtok 13 "]" 55 4 121))) (mkPtok 39 ":" 56 4 122) (mkPtok 42 "f32a" 56 5 123) (Some (mkPtok 40 "," 56 9 124))); (mkMatchPair (mkSpan (mkPtok 30 "4294967296" 56 11 125) (mkPtok 40 "," 58 13 128)) (MKDigits (mkPtok 30 "4294967296" 56 11 125)) (mkPtok 39 ":" 57 4 126) (mkPtok 42 "matchKey" 58 4 127) (Some (mkPtok 40 "," 58 13 128))); (mkMatchPair (mkSpan (mkPtok 31 (string_of_bytes [34; 230; 182; 136; 230; 129; 175; 34]%N) 58 15 129) (mkPtok 42 "tag" 60 6 132)) (MKString (mkPtok 31 (string_of_bytes [34; 230; 182; 136; 230; 129; 175; 34]%N) 58 15 129)) (mkPtok 39 ":" 60 4 131) (mkPtok 42 "tag" 60 6 132) None); (mkMatchPair (mkSpan (mkPtok 30 "1" 60 10 133) (mkPtok 40 "," 62 0 137)) (MKDigits (mkPtok 30 "1" 60 10 133)) (mkPtok 39 ":" 60 12 134) (mkPtok 42 "body" 61 0 136) (Some (mkPtok 40 "," 62 0 137)))] (mkPtok 3 "}" 62 2 138)) (mkPtok 40 "," 63 4 139))); (mkFieldWithAttr (mkSpan (mkPtok 9 "@tag(" 64 0 140) (mkPtok 40 "," 67 24 152)) [(FATag (mkSpan (mkPtok 9 "@tag(" 64 0 140) (mkPtok 6 ")" 66 4 143)) (mkTagAttr (mkSpan (mkPtok 9 "@tag(" 64 0 140) (mkPtok 6 ")" 66 4 143)) (mkPtok 9 "@tag(" 64 0 140) (mkPtok 30 "007" 65 0 142) (mkPtok 6 ")" 66 4 143))); (FACalculatedFrom (mkSpan (mkPtok 5 "@calculatedFrom(" 66 5 144) (mkPtok 6 ")" 66 28 146)) (mkCalculatedFrom (mkSpan (mkPtok 5 "@calculatedFrom(" 66 5 144) (mkPtok 6 ")" 66 28 146)) (mkPtok 5 "@calculatedFrom(" 66 5 144) (mkPtok 31 """a\\""" 66 22 145) (mkPtok 6 ")" 66 28 146))); (FALengthOf (mkSpan (mkPtok 7 "@lengthOf(" 66 30 147) (mkPtok 6 ")" 67 9 149)) (mkLengthOf (mkSpan (mkPtok 7 "@lengthOf(" 66 30 147) (mkPtok 6 ")" 67 9 149)) (mkPtok 7 "@lengthOf(" 66 30 147) (mkPtok 42 "metadata" 67 0 148) (mkPtok 6 ")" 67 9 149)))] (ObjectField (mkSpan (mkPtok 36 "repeat" 67 11 150) (mkPtok 40 "," 67 24 152)) (Some (mkPtok 36 "repeat" 67 11 150)) (mkPtok 42 "chars" 67 18 151) None None (mkPtok 40 "," 67 24 152)))] (mkPtok 3 "}" 67 25 153))); (DPacket (mkPacketDef (mkSpan (mkPtok 35 "packet" 68 0 154) (mkPtok 3 "}" 103 2 273)) None (mkPtok 35 "packet" 68 0 154) (mkPtok 42 "roots" 68 7 155) (mkPtok 2 "{" 68 13 156) [(mkFieldWithAttr (mkSpan (mkPtok 12 "char[" 68 15 157) (mkPtok 40 "," 71 7 165)) [] (LengthField (mkSpan (mkPtok 12 "char[" 68 15 157) (mkPtok 40 "," 71 7 165)) (mkLengthFieldDecl (mkSpan (mkPtok 12 "char[" 68 15 157) (mkPtok 40 "," 71 7 165)) (Some (TyFixed (mkSpan (mkPtok 12 "char[" 68 15 157) (mkPtok 13 "]" 69 4 159)) (mkFixedString (mkSpan (mkPtok 12 "char[" 68 15 157) (mkPtok 13 "]" 69 4 159)) (mkPtok 12 "char[" 68 15 157) (mkPtok 30 "007" 68 20 158) (mkPtok 13 "]" 69 4 159)))) (mkPtok 42 "Foo" 70 0 160) (mkLengthOf (mkSpan (mkPtok 7 "@lengthOf(" 70 3 161) (mkPtok 6 ")" 70 19 163)) (mkPtok 7 "@lengthOf(" 70 3 161) (mkPtok 42 "zchar" 70 13 162) (mkPtok 6 ")" 70 19 163)) (Some (mkPtok 43 (string_of_bytes [96; 108; 105; 110; 101; 49; 10; 108; 105; 110; 101; 50; 96]%N) 70 21 164)) (mkPtok 40 "," 71 7 165)))); (mkFieldWithAttr (mkSpan (mkPtok 9 "@tag(" 71 9 166) (mkPtok 40 "," 82 0 210)) [(FATag (mkSpan (mkPtok 9 "@tag(" 71 9 166) (mkPtok 6 ")" 71 19 168)) (mkTagAttr (mkSpan (mkPtok 9 "@tag(" 71 9 166) (mkPtok 6 ")" 71 19 168)) (mkPtok 9 "@tag(" 71 9 166) (mkPtok 30 "255" 71 15 167) (mkPtok 6 ")" 71 19 168)))] (MatchField (mkSpan (mkPtok 38 "match" 71 21 169) (mkPtok 40 "," 82 0 210)) (mkMatchFieldDecl (mkSpan (mkPtok 38 "match" 71 21 169) (mkPtok 3 "}" 79 19 207)) (mkPtok 38 "match" 71 21 169) (mkPtok 42 "crc" 71 27 170) (mkPtok 17 "as" 71 31 171) (mkPtok 42 "lengthOf" 71 34 172) (mkPtok 2 "{" 71 43 173) [(mkMatchPair (mkSpan (mkPtok 18 "[" 71 44 174) (mkPtok 40 "," 73 11 179)) (MKList (mkKeyList (mkSpan (mkPtok 18 "[" 71 44 174) (mkPtok 13 "]" 71 62 176)) (mkPtok 18 "[" 71 44 174) (mkPtok 31 """// no comment""" 71 46 175) [] (mkPtok 13 "]" 71 62 176))) (mkPtok 39 ":" 72 0 177) (mkPtok 42 "Header" 73 4 178) (Some (mkPtok 40 "," 73 11 179))); (mkMatchPair (mkSpan (mkPtok 30 "1" 75 4 181) (mkPtok 40 "," 76 4 185)) (MKDigits (mkPtok 30 "1" 75 4 181)) (mkPtok 39 ":" 75 6 182) (mkPtok 42 "crc" 76 0 184) (Some (mkPtok 40 "," 76 4 185))); (mkMatchPair (mkSpan (mkPtok 31 """\n""" 76 5 186) (mkPtok 40 "," 76 22 189)) (MKString (mkPtok 31 """\n""" 76 5 186)) (mkPtok 39 ":" 76 10 187) (mkPtok 42 "options1" 76 13 188) (Some (mkPtok 40 "," 76 22 189))); (mkMatchPair (mkSpan (mkPtok 18 "[" 76 24 190) (mkPtok 40 "," 79 18 206)) (MKList (mkKeyList (mkSpan (mkPtok 18 "[" 76 24 190) (mkPtok 13 "]" 79 11 203)) (mkPtok 18 "[" 76 24 190) (mkPtok 30 "1" 76 26 191) [((mkPtok 40 "," 76 27 192), (mkPtok 31 (string_of_bytes [34; 230; 182; 136; 230; 129; 175; 34]%N) 76 29 193)); ((mkPtok 40 "," 77 4 194), (mkPtok 30 "00" 78 4 195)); ((mkPtok 40 "," 78 6 196), (mkPtok 30 "1" 78 8 197)); ((mkPtok 40 "," 78 9 198), (mkPtok 30 "42" 79 0 200)); ((mkPtok 40 "," 79 3 201), (mkPtok 30 "65535" 79 4 202))] (mkPtok 13 "]" 79 11 203))) (mkPtok 39 ":" 79 13 204) (mkPtok 42 "Z9_" 79 15 205) (Some (mkPtok 40 "," 79 18 206)))] (mkPtok 3 "}" 79 19 207)) (mkPtok 40 "," 82 0 210))); (mkFieldWithAttr (mkSpan (mkPtok 14 "zchar[" 82 1 211) (mkPtok 40 "," 84 4 216)) [] (MetaField (mkSpan (mkPtok 14 "zchar[" 82 1 211) (mkPtok 40 "," 84 4 216)) None (mkMetaDecl (mkSpan (mkPtok 14 "zchar[" 82 1 211) (mkPtok 40 "," 84 4 216)) (TyFixed (mkSpan (mkPtok 14 "zchar[" 82 1 211) (mkPtok 13 "]" 83 0 213)) (mkFixedString (mkSpan (mkPtok 14 "zchar[" 82 1 211) (mkPtok 13 "]" 83 0 213)) (mkPtok 14 "zchar[" 82 1 211) (mkPtok 30 "4294967296" 82 8 212) (mkPtok 13 "]" 83 0 213))) (mkPtok 42 "As" 83 2 214) (Some (mkPtok 43 "`say ""hi""`" 83 5 215)) (mkPtok 40 "," 84 4 216)))); (mkFieldWithAttr (mkSpan (mkPtok 7 "@lengthOf(" 84 6 217) (mkPtok 40 "," 85 15 226)) [(FALengthOf (mkSpan (mkPtok 7 "@lengthOf(" 84 6 217) (mkPtok 6 ")" 84 25 219)) (mkLengthOf (mkSpan (mkPtok 7 "@lengthOf(" 84 6 217) (mkPtok 6 ")" 84 25 219)) (mkPtok 7 "@lengthOf(" 84 6 217) (mkPtok 42 "stringy" 84 17 218) (mkPtok 6 ")" 84 25 219)))] (InerObjectField (mkSpan (mkPtok 42 "chars" 84 27 220) (mkPtok 40 "," 85 15 226)) None (InerObjectDecl (mkSpan (mkPtok 42 "chars" 84 27 220) (mkPtok 3 "}" 85 13 225)) (mkPtok 42 "chars" 84 27 220) (mkPtok 2 "{" 85 0 221) [(MetaField (mkSpan (mkPtok 28 "float32" 85 1 222) (mkPtok 40 "," 85 12 224)) None (mkMetaDecl (mkSpan (mkPtok 28 "float32" 85 1 222) (mkPtok 40 "," 85 12 224)) (TyBasic (mkSpan (mkPtok 28 "float32" 85 1 222) (mkPtok 28 "float32" 85 1 222)) (mkBasicType (mkSpan (mkPtok 28 "float32" 85 1 222) (mkPtok 28 "float32" 85 1 222)) (mkPtok 28 "float32" 85 1 222))) (mkPtok 42 "u8x" 85 9 223) None (mkPtok 40 "," 85 12 224)))] (mkPtok 3 "}" 85 13 225)) (mkPtok 40 "," 85 15 226))); (mkFieldWithAttr (mkSpan (mkPtok 12 "char[" 86 4 227) (mkPtok 40 "," 87 20 234)) [] (LengthField (mkSpan (mkPtok 12 "char[" 86 4 227) (mkPtok 40 "," 87 20 234)) (mkLengthFieldDecl (mkSpan (mkPtok 12 "char[" 86 4 227) (mkPtok 40 "," 87 20 234)) (Some (TyFixed (mkSpan (mkPtok 12 "char[" 86 4 227) (mkPtok 13 "]" 86 14 229)) (mkFixedString (mkSpan (mkPtok 12 "char[" 86 4 227) (mkPtok 13 "]" 86 14 229)) (mkPtok 12 "char[" 86 4 227) (mkPtok 30 "255" 86 10 228) (mkPtok 13 "]" 86 14 229)))) (mkPtok 42 "Pad" 86 16 230) (mkLengthOf (mkSpan (mkPtok 7 "@lengthOf(" 87 4 231) (mkPtok 6 ")" 87 18 233)) (mkPtok 7 "@lengthOf(" 87 4 231) (mkPtok 42 "u8x" 87 14 232) (mkPtok 6 ")" 87 18 233)) None (mkPtok 40 "," 87 20 234)))); (mkFieldWithAttr (mkSpan (mkPtok 27 "int64" 88 0 235) (mkPtok 40 "," 88 14 237)) [] (MetaField (mkSpan (mkPtok 27 "int64" 88 0 235) (mkPtok 40 "," 88 14 237)) None (mkMetaDecl (mkSpan (mkPtok 27 "int64" 88 0 235) (mkPtok 40 "," 88 14 237)) (TyBasic (mkSpan (mkPtok 27 "int64" 88 0 235) (mkPtok 27 "int64" 88 0 235)) (mkBasicType (mkSpan (mkPtok 27 "int64" 88 0 235) (mkPtok 27 "int64" 88 0 235)) (mkPtok 27 "int64" 88 0 235))) (mkPtok 42 "metadata" 88 6 236) None (mkPtok 40 "," 88 14 237)))); (mkFieldWithAttr (mkSpan (mkPtok 20 "uint8" 90 4 239) (mkPtok 40 "," 92 23 246)) [] (LengthField (mkSpan (mkPtok 20 "uint8" 90 4 239) (mkPtok 40 "," 92 23 246)) (mkLengthFieldDecl (mkSpan (mkPtok 20 "uint8" 90 4 239) (mkPtok 40 "," 92 23 246)) (Some (TyBasic (mkSpan (mkPtok 20 "uint8" 90 4 239) (mkPtok 20 "uint8" 90 4 239)) (mkBasicType (mkSpan (mkPtok 20 "uint8" 90 4 239) (mkPtok 20 "uint8" 90 4 239)) (mkPtok 20 "uint8" 90 4 239)))) (mkPtok 42 "x_y_z" 90 10 240) (mkLengthOf (mkSpan (mkPtok 7 "@lengthOf(" 90 16 241) (mkPtok 6 ")" 92 11 244)) (mkPtok 7 "@lengthOf(" 90 16 241) (mkPtok 42 "Header" 92 4 243) (mkPtok 6 ")" 92 11 244)) (Some (mkPtok 43 "`two words`" 92 12 245)) (mkPtok 40 "," 92 23 246)))); (mkFieldWithAttr (mkSpan (mkPtok 36 "repeat" 92 25 247) (mkPtok 40 "," 92 66 253)) [] (MetaField (mkSpan (mkPtok 36 "repeat" 92 25 247) (mkPtok 40 "," 92 66 253)) (Some (mkPtok 36 "repeat" 92 25 247)) (mkMetaDecl (mkSpan (mkPtok 14 "zchar[" 92 32 248) (mkPtok 40 "," 92 66 253)) (TyFixed (mkSpan (mkPtok 14 "zchar[" 92 32 248) (mkPtok 13 "]" 92 42 250)) (mkFixedString (mkSpan (mkPtok 14 "zchar[" 92 32 248) (mkPtok 13 "]" 92 42 250)) (mkPtok 14 "zchar[" 92 32 248) (mkPtok 30 "42" 92 39 249) (mkPtok 13 "]" 92 42 250))) (mkPtok 42 "calculatedFrom" 92 44 251) (Some (mkPtok 43 "`it's`" 92 59 252)) (mkPtok 40 "," 92 66 253)))); (mkFieldWithAttr (mkSpan (mkPtok 32 "@rightPad" 92 68 254) (mkPtok 40 "," 103 0 272)) [(FAPadding (mkSpan (mkPtok 32 "@rightPad" 92 68 254) (mkPtok 6 ")" 94 7 257)) (mkPaddingAttr (mkSpan (mkPtok 32 "@rightPad" 92 68 254) (mkPtok 6 ")" 94 7 257)) (mkPtok 32 "@rightPad" 92 68 254) (mkPtok 8 "(" 93 0 255) (Some (mkPtok 33 "'\x00'" 94 0 256)) (mkPtok 6 ")" 94 7 257)))] (InerObjectField (mkSpan (mkPtok 36 "repeat" 95 4 258) (mkPtok 40 "," 103 0 272)) (Some (mkPtok 36 "repeat" 95 4 258)) (InerObjectDecl (mkSpan (mkPtok 42 "crc" 96 4 259) (mkPtok 3 "}" 102 12 271)) (mkPtok 42 "crc" 96 4 259) (mkPtok 2 "{" 98 4 261) [(InerObjectField (mkSpan (mkPtok 36 "repeat" 100 4 263) (mkPtok 40 "," 102 11 270)) (Some (mkPtok 36 "repeat" 100 4 263)) (InerObjectDecl (mkSpan (mkPtok 42 "As" 100 11 264) (mkPtok 3 "}" 102 9 269)) (mkPtok 42 "As" 100 11 264) (mkPtok 2 "{" 100 14 265) [(ObjectField (mkSpan (mkPtok 42 "i64_" 101 0 266) (mkPtok 40 "," 102 7 268)) None (mkPtok 42 "i64_" 101 0 266) None (Some (mkPtok 43 (string_of_bytes [96; 108; 105; 110; 101; 49; 10; 108; 105; 110; 101; 50; 96]%N) 101 4 267)) (mkPtok 40 "," 102 7 268))] (mkPtok 3 "}" 102 9 269)) (mkPtok 40 "," 102 11 270))] (mkPtok 3 "}" 102 12 271)) (mkPtok 40 "," 103 0 272)))] (mkPtok 3 "}" 103 2 273)))])).
Eval vm_compute in ("<<<M1011>>>" ++ check (runes_of_ascii "packet packetx {
}")).
Eval vm_compute in ("<<<M1043>>>" ++ check (runes_of_ascii "root
packet _x { // `tick` ""quote"" 'q'
@tag( // " ++ [27880; 37322]%N ++ runes_of_ascii "
1) zchar @lengthOf( len
// trailing space 
//	t
), } packet metadata {
uint8x{ a1
Foo ,
    }
    , }options {rootA =""`tick`"" ; Pad // c
=
    // a // b
    65535} packet
    //	t
    charz { }
")).
Eval vm_compute in ("<<<M1075>>>" ++ check (runes_of_ascii "options { int = zchar[ // packet A { u8 x, }
65535] ; zchar
//x
// trailing space 
=  ' ' ;
chars= // packet A { u8 x, }
""\" ++ [233]%N ++ runes_of_ascii """ ;
    Z9_  = '\x00' ;x_y_z = //	t
false }")).
Eval vm_compute in ("<<<M1107>>>" ++ check (runes_of_ascii "packet
// " ++ [128512]%N ++ runes_of_ascii " emoji
// @lengthOf(
Header
    {	}
MetaData
Packet {
uint64 As `say ""hi""`,	}
// trailing space 
")).
Eval vm_compute in ("<<<M1139>>>" ++ check (runes_of_ascii "MetaData A { } packet
    asx { @calculatedFrom(""`tick`""
) matchKey uint8x `" ++ [233]%N ++ runes_of_ascii "` ,
}
")).
Eval vm_compute in ("<<<M1171>>>" ++ check (runes_of_ascii "options { pack  =  false
;
}
")).
Eval vm_compute in ("<<<M1203>>>" ++ check (runes_of_ascii "  ")).
Eval vm_compute in ("<<<T1203>>>" ++ terms [mkTok 0 "<EOF>" 1 2 false] (mkPacket (mkPtok 0 "<EOF>" 1 2 0) None [])).
Eval vm_compute in ("<<<M1235>>>" ++ check (runes_of_ascii "packet
    pack { int64 options1  ,
// packet A { u8 x, }
//
}
")).
Eval vm_compute in ("<<<M1267>>>" ++ check (runes_of_ascii "options
    { Logon
= ' ' } MetaData
BodyLength{  }
")).
Eval vm_compute in ("<<<M1299>>>" ++ check (runes_of_ascii "options
{ lengthOf = false ; }
")).
Eval vm_compute in ("<<<M1331>>>" ++ check (runes_of_ascii "options	{zchar = 10 As
= u32// packet A { u8 x, }
; A= ""a\\"" // " ++ [128512]%N ++ runes_of_ascii " emoji
}
")).
Eval vm_compute in ("<<<M1363>>>" ++ check (runes_of_ascii "options { lengthOf
    =
""" ++ [128512]%N ++ runes_of_ascii """  Pad= ""it's""
    Packet
=' '
;} packet
stringy {@calculatedFrom( ""a\\"" ) stringy asx
    //x
    `doc` , f32a  , options1 { f64 BodyLength @lengthOf(i64_ )  , matchKey
    // `tick` ""quote"" 'q'
    roots,  repeat i8 chars ,
    /// triple
    } ,
charz
    string_ ,
    i8  repeatCount `crlf
line`
, }
    packet uint8x
    {@tag( 00 // " ++ [128512]%N ++ runes_of_ascii " emoji
)
uint64	MetaDataX  ,@tag( 00
) char uint8x @lengthOf(
    uint8x
    ) , roots @lengthOf( stringy  ) `
`
, @rightPad ()
    zchar[ 0123456789
    //
    ] T//x
`" ++ [233]%N ++ runes_of_ascii "`	, @tag(42
) repeat i64
    repeatCount // `tick` ""quote"" 'q'
, falsey `doc` , char[65535]
falsey
`say ""hi""` , x_y_z
    int, @lengthOf(  MetaDataX
) match
    Logon
as
    leftPad {""abc""	:
zchar , 255
: A	,},  }  MetaData falsey{
    }
    packet BodyLength
{ Pad asx , @calculatedFrom(
""a	b""// " ++ [27880; 37322]%N ++ runes_of_ascii "
) string packetx
//
// packet A { u8 x, }
`it's`, float64 uint8x
`two words`
    ,
    zchar[ 007
]	uint8x @calculatedFrom(
    ""a\\"" //x
)
    `" ++ [28040; 24687; 31867; 22411]%N ++ runes_of_ascii "` ,}")).
Eval vm_compute in ("<<<M1395>>>" ++ check (runes_of_ascii "  packet rootA { asx , @tag(
    //x
    10 // " ++ [128512]%N ++ runes_of_ascii " emoji
)	@tag( 1	) @calculatedFrom( ""1"" ) /// triple
charz @calculatedFrom( ""a\\"")`line1
line2`, // @lengthOf(
}")).
Eval vm_compute in ("<<<M1427>>>" ++ check (runes_of_ascii "options	{ string_ // " ++ [128512]%N ++ runes_of_ascii " emoji
= false ; } options { options1
= '\x00' falsey=
10 tag/// triple
=65535}
")).
Eval vm_compute in ("<<<T1427>>>" ++ terms [mkTok 1 "options" 1 0 false; mkTok 2 "{" 1 8 false; mkTok 42 "string_" 1 10 false; mkTok 44 (string_of_bytes [47; 47; 32; 240; 159; 152; 128; 32; 101; 109; 111; 106; 105]%N) 1 18 true; mkTok 4 "=" 2 0 false; mkTok 11 "false" 2 2 false; mkTok 41 ";" 2 8 false; mkTok 3 "}" 2 10 false; mkTok 1 "options" 2 12 false; mkTok 2 "{" 2 20 false; mkTok 42 "options1" 2 22 false; mkTok 4 "=" 3 0 false; mkTok 33 "'\x00'" 3 2 false; mkTok 42 "falsey" 3 9 false; mkTok 4 "=" 3 15 false; mkTok 30 "10" 4 0 false; mkTok 42 "tag" 4 3 false; mkTok 44 "/// triple" 4 6 true; mkTok 4 "=" 5 0 false; mkTok 30 "65535" 5 1 false; mkTok 3 "}" 5 6 false; mkTok 0 "<EOF>" 6 0 false] (mkPacket (mkPtok 1 "options" 1 0 0) (Some (mkPtok 3 "}" 5 6 20)) [(DOption (mkOptionDef (mkSpan (mkPtok 1 "options" 1 0 0) (mkPtok 3 "}" 2 10 7)) (mkPtok 1 "options" 1 0 0) (mkPtok 2 "{" 1 8 1) [(mkOptionDecl (mkSpan (mkPtok 42 "string_" 1 10 2) (mkPtok 41 ";" 2 8 6)) (mkPtok 42 "string_" 1 10 2) (mkPtok 4 "=" 2 0 4) (VFalse (mkSpan (mkPtok 11 "false" 2 2 5) (mkPtok 11 "false" 2 2 5)) (mkPtok 11 "false" 2 2 5)) (Some (mkPtok 41 ";" 2 8 6)))] (mkPtok 3 "}" 2 10 7))); (DOption (mkOptionDef (mkSpan (mkPtok 1 "options" 2 12 8) (mkPtok 3 "}" 5 6 20)) (mkPtok 1 "options" 2 12 8) (mkPtok 2 "{" 2 20 9) [(mkOptionDecl (mkSpan (mkPtok 42 "options1" 2 22 10) (mkPtok 33 "'\x00'" 3 2 12)) (mkPtok 42 "options1" 2 22 10) (mkPtok 4 "=" 3 0 11) (VPaddingChar (mkSpan (mkPtok 33 "'\x00'" 3 2 12) (mkPtok 33 "'\x00'" 3 2 12)) (mkPtok 33 "'\x00'" 3 2 12)) None); (mkOptionDecl (mkSpan (mkPtok 42 "falsey" 3 9 13) (mkPtok 30 "10" 4 0 15)) (mkPtok 42 "falsey" 3 9 13) (mkPtok 4 "=" 3 15 14) (VDigits (mkSpan (mkPtok 30 "10" 4 0 15) (mkPtok 30 "10" 4 0 15)) (mkPtok 30 "10" 4 0 15)) None); (mkOptionDecl (mkSpan (mkPtok 42 "tag" 4 3 16) (mkPtok 30 "65535" 5 1 19)) (mkPtok 42 "tag" 4 3 16) (mkPtok 4 "=" 5 0 18) (VDigits (mkSpan (mkPtok 30 "65535" 5 1 19) (mkPtok 30 "65535" 5 1 19)) (mkPtok 30 "65535" 5 1 19)) None)] (mkPtok 3 "}" 5 6 20)))])).
Eval vm_compute in ("<<<M1459>>>" ++ check (runes_of_ascii "root packet Header
{repeat
zchar[
10 ]charz `two words`
    , repeat
    u8 uint8x
`" ++ [233]%N ++ runes_of_ascii "`
    //	t
    , T@calculatedFrom(
""{,}"" )
    `u8 x,` ,
char[1	] trueish
    @lengthOf( x_y_z )
    `crlf
line` , repeat Pad
    Foo ,
    @lengthOf(  roots )repeat asx	,@rightPad
( '0' ) @leftPad ('0' ) @leftPad('0'	) uint8  x @lengthOf( body) `crlf
line` ,match body
    as rootA {[ // " ++ [128512]%N ++ runes_of_ascii " emoji
0 // " ++ [27880; 37322]%N ++ runes_of_ascii "
, ""\n""] :
x_y_z
,
    10
    : packetx , 1 : BodyLength , """ ++ [233]%N ++ runes_of_ascii "t" ++ [233]%N ++ runes_of_ascii """ :zchar 3  :
// `tick` ""quote"" 'q'
// packet A { u8 x, }
As
""" ++ [233]%N ++ runes_of_ascii "t" ++ [233]%N ++ runes_of_ascii """ : asx	, },
    match packetx as	lengthOf { """ ++ [233]%N ++ runes_of_ascii "t" ++ [233]%N ++ runes_of_ascii """ :
    roots , 42 :
lengthOf [ ""a\""b"" ] :asx // trailing space 
,},
}packet calculatedFrom {@calculatedFrom( ""abc"" ) repeat
u64
//x
// @lengthOf(
stringy , @calculatedFrom(
""" ++ [233]%N ++ runes_of_ascii "t" ++ [233]%N ++ runes_of_ascii """
) i32 i8i8 @lengthOf(
f32a
    )
,i8 Pad // a // b
@calculatedFrom(""a\\"") ,
char charz`" ++ [28040; 24687; 31867; 22411]%N ++ runes_of_ascii "`,@calculatedFrom(	""" ++ [233]%N ++ runes_of_ascii "t" ++ [233]%N ++ runes_of_ascii """// c
)
@tag(4294967296 )rootA //
msg_type
    , @calculatedFrom(
    ""CRC32"" //	t
)	@tag( 007) @tag( 0
    )
uint8 A
    `crlf
line` ,
    char[ 0123456789 ]// " ++ [128512]%N ++ runes_of_ascii " emoji
repeatCount	`" ++ [233]%N ++ runes_of_ascii "`, packetx@lengthOf( tag
)	`it's` , @lengthOf(// c
leftPad  ) @calculatedFrom( ""\n""
) @leftPad	( )Foo
    @calculatedFrom( ""a\\"" ) `" ++ [28040; 24687; 31867; 22411]%N ++ runes_of_ascii "` ,} packet metadata
{ packetx `" ++ [28040; 24687; 31867; 22411]%N ++ runes_of_ascii "`
, u16 i64_
@calculatedFrom( ""a\""b"" ) `
`
    ,}
    //	t
    packet falsey{ //
@lengthOf(
//
// " ++ [128512]%N ++ runes_of_ascii " emoji
int// @lengthOf(
)
// trailing space 
// " ++ [27880; 37322]%N ++ runes_of_ascii "
Packet  , @calculatedFrom(
""packet"" ) @lengthOf( trueish
    //	t
    ) @leftPad // " ++ [128512]%N ++ runes_of_ascii " emoji
()
A repeatCount
    ,A `
`// " ++ [128512]%N ++ runes_of_ascii " emoji
, repeat  trueish
    `{ , }` , zchar[
    /// triple
    42
/// triple
//	t
] rootA @lengthOf( A ),} root
    packet u { repeat char[]i8i8 , @tag( 007) body
    // c
    { repeat u8x`tab	here`, } ,	@rightPad(
    // @lengthOf(
    '\x00'
    ) i16
matchKey`it's` ,@lengthOf( trueish
)
metadata  @lengthOf(
lengthOf)
    ,// `tick` ""quote"" 'q'
int
@calculatedFrom( ""`tick`"" ) ,@tag(
3) match x_y_z	as BodyLength {1 //	t
:options1
//	t
// c
,
    } , repeat i64_
string_	,
    //
    u8 trueish , f64
calculatedFrom ,}")).
Eval vm_compute in ("<<<M1491>>>" ++ check (runes_of_ascii "packet x  { }
")).
Eval vm_compute in ("<<<M1523>>>" ++ check (runes_of_ascii "root packet i64_
{match // packet A { u8 x, }
options1 as i64_ {""x y"" : BodyLength,
    } ,
    }options {chars =3 }	MetaData zchar
    { u8x float ,uint8 packetx ,	char[] body
`tab	here` ,
}
    root packet	MetaDataX {  options1@lengthOf( metadata
) // a // b
`a\`	, }")).
Eval vm_compute in ("<<<M1555>>>" ++ check (runes_of_ascii "// " ++ [128512]%N ++ runes_of_ascii " emoji
options { Packet = 4294967296
//
// @lengthOf(
leftPad
= //	t
int8 }
/// triple
")).
Eval vm_compute in ("<<<M1587>>>" ++ check (runes_of_ascii "packet// c
x_y_z
{ @lengthOf( tag )char[
    4294967296
]body,} root
packet
Logon { repeat
zchar[ 007// packet A { u8 x, }
] stringy , }")).
Eval vm_compute in ("<<<M1619>>>" ++ check (runes_of_ascii "  root // " ++ [128512]%N ++ runes_of_ascii " emoji
packet //
charz { int32 pack	,
repeat zchar[ 3 ]//
A ,
// c
// @lengthOf(
}  options { As= '0'  } packet i64_
//x
// " ++ [128512]%N ++ runes_of_ascii " emoji
{ int64
    float @lengthOf( options1
)	, repeat char[ 42 ] u128, @rightPad ( '0'
)
roots , @rightPad (
    '0' )
    // " ++ [128512]%N ++ runes_of_ascii " emoji
    zchar[
65535 ] stringy @lengthOf( charz )`u8 x,`
,@lengthOf(
//	t
// " ++ [128512]%N ++ runes_of_ascii " emoji
x )
    @lengthOf(u8x)@leftPad ( ' ')
    // trailing space 
    match Pad as As{ 1
    // c
    :	roots // " ++ [128512]%N ++ runes_of_ascii " emoji
,	}
,}options
{	o =i64 }
    root packet  Header {}")).
Eval vm_compute in ("<<<M1651>>>" ++ check (runes_of_ascii "packet a1
    { } 	 ")).
Eval vm_compute in ("<<<T1651>>>" ++ terms [mkTok 35 "packet" 1 0 false; mkTok 42 "a1" 1 7 false; mkTok 2 "{" 2 4 false; mkTok 3 "}" 2 6 false; mkTok 0 "<EOF>" 2 10 false] (mkPacket (mkPtok 35 "packet" 1 0 0) (Some (mkPtok 3 "}" 2 6 3)) [(DPacket (mkPacketDef (mkSpan (mkPtok 35 "packet" 1 0 0) (mkPtok 3 "}" 2 6 3)) None (mkPtok 35 "packet" 1 0 0) (mkPtok 42 "a1" 1 7 1) (mkPtok 2 "{" 2 4 2) [] (mkPtok 3 "}" 2 6 3)))])).
Eval vm_compute in ("<<<M1683>>>" ++ check (runes_of_ascii "options{
    falsey= 1 }
// " ++ [27880; 37322]%N ++ runes_of_ascii "
// a // b
MetaData A {
} // @lengthOf(")).
Eval vm_compute in ("<<<M1715>>>" ++ check (runes_of_ascii "
root packet Logon
{@lengthOf( a1 )  @tag(
    0 ) @rightPad ( '0' )match A as As {""packet""	: _x ,
""// no comment"" :  BodyLength
,
}
    ,	repeat
    string body ,	@lengthOf(
asx ) string
//
// " ++ [128512]%N ++ runes_of_ascii " emoji
zchar `" ++ [28040; 24687; 31867; 22411]%N ++ runes_of_ascii "`, @lengthOf( //
falsey ) Logon , }packet i64_ { match o
// " ++ [27880; 37322]%N ++ runes_of_ascii "
// " ++ [128512]%N ++ runes_of_ascii " emoji
as stringy{ ""`tick`"" // " ++ [27880; 37322]%N ++ runes_of_ascii "
: charz, }
, }
")).
Eval vm_compute in ("<<<M1747>>>" ++ check (runes_of_ascii "  packet options1 {@lengthOf( _x
)
repeat i64_
    `" ++ [28040; 24687; 31867; 22411]%N ++ runes_of_ascii "` , options1 Foo ,@lengthOf(
f32a
) zchar[65535]_x ,	MetaDataX repeatCount  `" ++ [233]%N ++ runes_of_ascii "` // a // b
, @calculatedFrom( """ ++ [128512]%N ++ runes_of_ascii """ ) char[] // " ++ [128512]%N ++ runes_of_ascii " emoji
string_
,string x_y_z @lengthOf(
    zchar )
    , match Pad as packetx
{ [ ""\" ++ [233]%N ++ runes_of_ascii """
    , ""{,}"" ] :	i8i8// packet A { u8 x, }
,// `tick` ""quote"" 'q'
},	repeat
    i64_ `tab	here` , zchar[ 255 ] // c
pack
, crc // `tick` ""quote"" 'q'
@calculatedFrom( ""1""	), }
root packet matchKey {
    }root
    packet
    Header { } // `tick` ""quote"" 'q'")).
Eval vm_compute in ("<<<M1779>>>" ++ check (runes_of_ascii "MetaData falsey{ calculatedFrom
BodyLength
`it's` // trailing space 
, uint32
//x
//x
Logon
, }")).
Eval vm_compute in ("<<<M1811>>>" ++ check (runes_of_ascii "options { Packet= ""CRC32""; T	='\x00'A =
42 ; }//	t
packet _x {@calculatedFrom(""a\""b"" ) char[]asx  @calculatedFrom( ""\n"") ,
}
")).
Eval vm_compute in ("<<<M1843>>>" ++ check (runes_of_ascii "packet
// c
// trailing space 
trueish
    // " ++ [128512]%N ++ runes_of_ascii " emoji
    {}// " ++ [27880; 37322]%N ++ runes_of_ascii "
packet a1	{	repeat
i64_// `tick` ""quote"" 'q'
{	i64_
`line1
line2`
    ,
    },tag @lengthOf( Z9_ ) `u8 x,` ,
    } packet leftPad
{ @calculatedFrom(""CRC32"" ) @lengthOf( Pad
    )f32
A@calculatedFrom( ""a\\"" ) `say ""hi""`
    , @tag( 007 // c
) // packet A { u8 x, }
repeat uint64 pack ,}")).
Eval vm_compute in ("<<<M1875>>>" ++ check (@nil rune)).
Eval vm_compute in ("<<<T1875>>>" ++ terms [mkTok 0 "<EOF>" 1 0 false] (mkPacket (mkPtok 0 "<EOF>" 1 0 0) None [])).
Eval vm_compute in ("<<<M1907>>>" ++ check (runes_of_ascii "packet
tag
{ @lengthOf(repeatCount
)@lengthOf( len )
@tag( 1 ) repeat	repeatCount
rootA ,msg_type u `" ++ [233]%N ++ runes_of_ascii "`,zchar[ 7 ] Logon , @leftPad
(' ' ) lengthOf
    @calculatedFrom( ""it's"") `doc` , repeat crc {
// `tick` ""quote"" 'q'
// `tick` ""quote"" 'q'
u zchar ,
calculatedFrom,// " ++ [128512]%N ++ runes_of_ascii " emoji
}, string uint8x
// c
// `tick` ""quote"" 'q'
`say ""hi""`, }
")).
Eval vm_compute in ("<<<M1939>>>" ++ check (runes_of_ascii "// " ++ [128512]%N ++ runes_of_ascii " emoji
packet x_y_z {}
packet	options1 // " ++ [27880; 37322]%N ++ runes_of_ascii "
{ @tag(
00 ) float64
a1
@calculatedFrom(
// packet A { u8 x, }
//	t
""x y"" ) ,} //	t")).
Eval vm_compute in ("<<<M1971>>>" ++ check (runes_of_ascii "
MetaData  Foo { char[ 3 ]
    //
    packetx `" ++ [28040; 24687; 31867; 22411]%N ++ runes_of_ascii "`,
    }")).
Eval vm_compute in ("<<<M2003>>>" ++ check (runes_of_ascii "options {
    StringPrefixLenType = u16;
    ArrayPrefixLenType = u16;
}

packet SampleBinary {
    uint16 MsgType `" ++ [28040; 24687; 31867; 22411]%N ++ runes_of_ascii "`,
    u16 BodyLenght @lengthOf(Body) `" ++ [28040; 24687; 20307; 38271; 24230]%N ++ runes_of_ascii "`,
    match MsgType as Body {
        1 : Logon,
        2 : Logout,
        3 : Heartbeat,
        4 : RiskControlRequest,
        5 : RiskControlResponse,
    },
    @calculatedFrom(""CRC32"")
    u32 Ckecksum `" ++ [26657; 39564; 21644]%N ++ runes_of_ascii "`,
}

packet Logon {
    @leftPad('0')
    char[10] UserName `" ++ [29992; 25143; 21517]%N ++ runes_of_ascii "`,
    string Password `" ++ [23494; 30721]%N ++ runes_of_ascii "`,
    uint64 ClientId `" ++ [23458; 25143; 31471]%N ++ runes_of_ascii "ID`,
    u16 HeartbeatInterval `" ++ [24515; 36339; 38388; 38548]%N ++ runes_of_ascii "`,
}

packet Logout {
    @rightPad('0')
    char[10] UserName `" ++ [29992; 25143; 21517]%N ++ runes_of_ascii "`,
    uint64 ClientId `" ++ [23458; 25143; 31471]%N ++ runes_of_ascii "ID`,
}

packet Heartbeat {
}

packet RiskControlRequest {
    string UniqueOrderId `" ++ [21807; 19968; 35746; 21333; 21495]%N ++ runes_of_ascii "`,
    char[16] ClOrdID `" ++ [23458; 25143; 35746; 21333; 21495]%N ++ runes_of_ascii "`,
    char[3] MarketID `" ++ [24066; 22330]%N ++ runes_of_ascii "id`,
    char[12] SecurityID `" ++ [35777; 21048; 20195; 30721]%N ++ runes_of_ascii "`,
    char Side `" ++ [20080; 21334; 26041; 21521]%N ++ runes_of_ascii "`,
    char OrderType `" ++ [35746; 21333; 31867; 22411]%N ++ runes_of_ascii "`,
    u64 Price `" ++ [20215; 26684]%N ++ runes_of_ascii "`,
    u32 Qty `" ++ [25968; 37327]%N ++ runes_of_ascii "`,
    repeat string ExtraInfo `" ++ [38468; 21152; 20449; 24687]%N ++ runes_of_ascii "`,
    repeat SubOrder {
        char[16] ClOrdID `" ++ [23376; 35746; 21333; 21495]%N ++ runes_of_ascii "`,
        u64 Price `" ++ [23376; 35746; 21333; 20215; 26684]%N ++ runes_of_ascii "`,
        u32 Qty `" ++ [23376; 35746; 21333; 25968; 37327]%N ++ runes_of_ascii "`,
    },
}

packet RiskControlResponse {
    string UniqueOrderId `" ++ [21807; 19968; 35746; 21333; 21495]%N ++ runes_of_ascii "`,
    i32 Status `" ++ [29366; 24577]%N ++ runes_of_ascii "`,
    string Msg `" ++ [32467; 26524; 20449; 24687]%N ++ runes_of_ascii "`,
    repeat Detail,
}

packet Detail {
    string RuleName `" ++ [35268; 21017; 21517; 31216]%N ++ runes_of_ascii "`,
    u16 Code `" ++ [21407; 22240; 20195; 30721]%N ++ runes_of_ascii "`,
}")).
Eval vm_compute in ("<<<M2035>>>" ++ check (runes_of_ascii "options{ i64_ = string ; ; trueish =
    '\x00'
    leftPad = ""a\\"" /// triple
; crc
    = 255; uint8x
=
""abc""
    ;}")).
Eval vm_compute in ("<<<M2067>>>" ++ check (runes_of_ascii "options{ i64_ = string ; trueish =
    '\x00'
    leftPad = ] /// triple
; crc
    = 255; uint8x
=
""abc""
    ;}")).
Eval vm_compute in ("<<<M2099>>>" ++ check (runes_of_ascii "options{ i64_ = string ; trueish =
    '\x00'
    leftPad = ""a\\"" /// triple
; crc
    = 255; uint8x

""abc""
    ;}")).
Eval vm_compute in ("<<<M2131>>>" ++ check (runes_of_ascii "options{ i64_ = string ; trueish =
    '\x00'
    leftPad = ""a\\"" /// triple
; crc
    "" = 255; uint8x
=
""abc""
    ;}")).
Eval vm_compute in ("<<<M2163>>>" ++ check (runes_of_ascii "  packet
asx
{
/// triple
// @lengthOf(
u32 =
`" ++ [28040; 24687; 31867; 22411]%N ++ runes_of_ascii "` ,} MetaData
    A {string  _x, zchar Header `a\`
// @lengthOf(
// packet A { u8 x, }
, char[] MetaDataX
,zchar[ 1 ]
    matchKey
    , char[] //
u,	char[0123456789 ]
    matchKey
    `{ , }`, }
")).
Eval vm_compute in ("<<<M2195>>>" ++ check (runes_of_ascii "  packet
asx
{
/// triple
// @lengthOf(
u32 stringy
`" ++ [28040; 24687; 31867; 22411]%N ++ runes_of_ascii "` ,} MetaData
    A {  _x, zchar Header `a\`
// @lengthOf(
// packet A { u8 x, }
, char[] MetaDataX
,zchar[ 1 ]
    matchKey
    , char[] //
u,	char[0123456789 ]
    matchKey
    `{ , }`, }
")).
Eval vm_compute in ("<<<M2227>>>" ++ check (runes_of_ascii "  packet
asx
{
/// triple
// @lengthOf(
u32 stringy
`" ++ [28040; 24687; 31867; 22411]%N ++ runes_of_ascii "` ,} MetaData
    A {string  _x, zchar Header `a\`
// @lengthOf(
// packet A { u8 x, }
char[] , MetaDataX
,zchar[ 1 ]
    matchKey
    , char[] //
u,	char[0123456789 ]
    matchKey
    `{ , }`, }
")).
Eval vm_compute in ("<<<M2259>>>" ++ check (runes_of_ascii "  packet
asx
{
/// triple
// @lengthOf(
u32 stringy
`" ++ [28040; 24687; 31867; 22411]%N ++ runes_of_ascii "` ,} MetaData
    A {string  _x, zchar Header `a\`
// @lengthOf(
// packet A { u8 x, }
, char[] MetaDataX
,zchar[ 1")).
Eval vm_compute in ("<<<M2291>>>" ++ check (runes_of_ascii "  packet
asx
{
/// triple
// @lengthOf(
u32 stringy
`" ++ [28040; 24687; 31867; 22411]%N ++ runes_of_ascii "` ,} MetaData
    A {string  _x, zchar Header `a\`
// @lengthOf(
// packet A { u8 x, }
, char[] MetaDataX
,zchar[ 1 ]
    matchKey
    , char[] //
u,	char[0123456789 0123456789 ]
    matchKey
    `{ , }`, }
")).
Eval vm_compute in ("<<<M2323>>>" ++ check (runes_of_ascii "  packet
asx
{
/// triple
// @lengt")).
Eval vm_compute in ("<<<M2355>>>" ++ check (runes_of_ascii "root
    packet")).
Eval vm_compute in ("<<<M2387>>>" ++ check (runes_of_ascii "root
    packet
Packet
{ // trailing space 
| matchKey `tab	here` ,}")).
Eval vm_compute in ("<<<M2419>>>" ++ check (runes_of_ascii "options{ falsey // a // b
'0'
    = } options { repeatCount =
true ; string_// a // b
=
// c
// " ++ [27880; 37322]%N ++ runes_of_ascii "
int64
// trailing space 
/// triple
; } // @lengthOf(")).
Eval vm_compute in ("<<<M2451>>>" ++ check (runes_of_ascii "options{ falsey // a // b
=
    '0' } options { repeatCount")).
Eval vm_compute in ("<<<M2483>>>" ++ check (runes_of_ascii "options{ falsey // a // b
=
    '0' } options { repeatCount =
true ; string_// a // b
=
// c
// " ++ [27880; 37322]%N ++ runes_of_ascii "
int64
// trailing space 
/// triple
; } } // @lengthOf(")).
Eval vm_compute in ("<<<M2515>>>" ++ check (runes_of_ascii "options}{root packet
metadata {
@lengthOf(x ) float32
body ``, }
    MetaData
Z9_
    {
    string string_ , Logon x
,
uint32
    // packet A { u8 x, }
    Z9_,asx
_x
    `tab	here` , }
")).
Eval vm_compute in ("<<<M2547>>>" ++ check (runes_of_ascii "options{}root packet
metadata {")).
Eval vm_compute in ("<<<M2579>>>" ++ check (runes_of_ascii "options{}root packet
metadata {
@lengthOf(x ) float32
body ``, } }
    MetaData
Z9_
    {
    string string_ , Logon x
,
uint32
    // packet A { u8 x, }
    Z9_,asx
_x
    `tab	here` , }
")).
Eval vm_compute in ("<<<M2611>>>" ++ check (runes_of_ascii "options{}root packet
metadata {
@lengthOf(x ) float32
body ``, }
    MetaData
Z9_
    {
    string string_ match Logon x
,
uint32
    // packet A { u8 x, }
    Z9_,asx
_x
    `tab	here` , }
")).
Eval vm_compute in ("<<<M2643>>>" ++ check (runes_of_ascii "options{}root packet
metadata {
@lengthOf(x ) float32
body ``, }
    MetaData
Z9_
    {
    string string_ , Logon x
,
uint32
    // packet A { u8 x, }
    Z9_,
_x
    `tab	here` , }
")).
Eval vm_compute in ("<<<M2675>>>" ++ check (runes_of_ascii "options{}root packet
metadata {
@lengthOf(x ) float32
body ``, }
    MetaD<ata
Z9_
    {
    string string_ , Logon x
,
uint32
    // packet A { u8 x, }
    Z9_,asx
_x
    `tab	here` , }
")).
Eval vm_compute in ("<<<M2707>>>" ++ check (runes_of_ascii "options {
    falsey' '
""a\\"" ; }")).
Eval vm_compute in ("<<<M2739>>>" ++ check (runes_of_ascii "options {
    fal#sey=
""a\\"" ; }")).
Eval vm_compute in ("<<<M2771>>>" ++ check (runes_of_ascii "MetaData f32a
{
    //	t
    }root
    packet packet tag  {
}
")).
Eval vm_compute in ("<<<M2803>>>" ++ check (runes_of_ascii "MetaData f32a
{
    //	t
    }root
    packet tag  {'\x01'
}
")).
Eval vm_compute in ("<<<M2835>>>" ++ check (runes_of_ascii "
options
    {msg_type =")).
Eval vm_compute in ("<<<M2867>>>" ++ check (runes_of_ascii "
options
    {msg_type =
    float32  }root
packet Z9_{ char /// triple
crc crc @lengthOf(
options1 ) //
,} MetaData a1{}
")).
Eval vm_compute in ("<<<M2899>>>" ++ check (runes_of_ascii "
options
    {msg_type =
    float32  }root
packet Z9_{ char /// triple
crc @lengthOf(
options1 ) //
,} string a1{}
")).
Eval vm_compute in ("<<<M2931>>>" ++ check (runes_of_ascii "
options
    {msg_type =
    float32  }root
packet Z9_{ char /// triple
crc @lengthOf(
options1 ) //
,} %MetaData a1{}
")).
Eval vm_compute in ("<<<M2963>>>" ++ check (runes_of_ascii "packet crc{ // " ++ [128512]%N ++ runes_of_ascii " emoji
repeat string i8i8 i8i8
`a\`, }
")).
Eval vm_compute in ("<<<M2995>>>" ++ check (runes_of_ascii "packet crc{ // " ++ [128512]%N ++ runes_of_ascii " emoji
re?peat string i8i8
`a\`, }
")).
Eval vm_compute in ("<<<M3027>>>" ++ check (runes_of_ascii "packet BodyLength {}")).
Eval vm_compute in ("<<<M3059>>>" ++ check (runes_of_ascii "packet BodyLength {} MetaData zchar{ zchar[// @lengthOf(
42 ]
    pack , , string_
A , char[]crc , _x trueish ,
// " ++ [27880; 37322]%N ++ runes_of_ascii "
// " ++ [128512]%N ++ runes_of_ascii " emoji
zchar[
    3 ]	T // trailing space 
, } packet body
{
    }
")).
Eval vm_compute in ("<<<M3091>>>" ++ check (runes_of_ascii "packet BodyLength {} MetaData zchar{ zchar[// @lengthOf(
42 ]
    pack , string_
A , char[]crc } _x trueish ,
// " ++ [27880; 37322]%N ++ runes_of_ascii "
// " ++ [128512]%N ++ runes_of_ascii " emoji
zchar[
    3 ]	T // trailing space 
, } packet body
{
    }
")).
Eval vm_compute in ("<<<M3123>>>" ++ check (runes_of_ascii "packet BodyLength {} MetaData zchar{ zchar[// @lengthOf(
42 ]
    pack , string_
A , char[]crc , _x trueish ,
// " ++ [27880; 37322]%N ++ runes_of_ascii "
// " ++ [128512]%N ++ runes_of_ascii " emoji
zchar[
    3 ]	 // trailing space 
, } packet body
{
    }
")).
Eval vm_compute in ("<<<M3155>>>" ++ check (runes_of_ascii "packet BodyLength {} MetaData zchar{ zchar[// @lengthOf(
42 ]
    pack , string_
A , char[]crc , _x trueish ,
// " ++ [27880; 37322]%N ++ runes_of_ascii "
// " ++ [128512]%N ++ runes_of_ascii " emoji
zchar[
    3 ]	T // trailing space 
, } packet body
{
    char[
")).
Eval vm_compute in ("<<<M3187>>>" ++ check (runes_of_ascii "packet
' ' {@lengthOf( int ) match packetx as f32a {
    1 :	calculatedFrom , }  ,
    } packet len
    //	t
    { @calculatedFrom( """ ++ [233]%N ++ runes_of_ascii "t" ++ [233]%N ++ runes_of_ascii """ ) body Header , char[] lengthOf  `two words` ,chars{repeat string_ matchKey ,
    } ,
    }
")).
Eval vm_compute in ("<<<M3219>>>" ++ check (runes_of_ascii "packet
string_ {@lengthOf( int ) match packetx  f32a {
    1 :	calculatedFrom , }  ,
    } packet len
    //	t
    { @calculatedFrom( """ ++ [233]%N ++ runes_of_ascii "t" ++ [233]%N ++ runes_of_ascii """ ) body Header , char[] lengthOf  `two words` ,chars{repeat string_ matchKey ,
    } ,
    }
")).
Eval vm_compute in ("<<<M3251>>>" ++ check (runes_of_ascii "packet
string_ {@lengthOf( int ) match packetx as f32a {
    1 :	calculatedFrom } ,  ,
    } packet len
    //	t
    { @calculatedFrom( """ ++ [233]%N ++ runes_of_ascii "t" ++ [233]%N ++ runes_of_ascii """ ) body Header , char[] lengthOf  `two words` ,chars{repeat string_ matchKey ,
    } ,
    }
")).
Eval vm_compute in ("<<<M3283>>>" ++ check (runes_of_ascii "packet
string_ {@lengthOf( int ) match packetx as f32a {
    1 :	calculatedFrom , }  ,
    } packet len")).
Eval vm_compute in ("<<<M3315>>>" ++ check (runes_of_ascii "packet
string_ {@lengthOf( int ) match packetx as f32a {
    1 :	calculatedFrom , }  ,
    } packet len
    //	t
    { @calculatedFrom( """ ++ [233]%N ++ runes_of_ascii "t" ++ [233]%N ++ runes_of_ascii """ ) body Header , char[] char[] lengthOf  `two words` ,chars{repeat string_ matchKey ,
    } ,
    }
")).
Eval vm_compute in ("<<<M3347>>>" ++ check (runes_of_ascii "packet
string_ {@lengthOf( int ) match packetx as f32a {
    1 :	calculatedFrom , }  ,
    } packet len
    //	t
    { @calculatedFrom( """ ++ [233]%N ++ runes_of_ascii "t" ++ [233]%N ++ runes_of_ascii """ ) body Header , char[] lengthOf  `two words` ,chars{@lengthOf( string_ matchKey ,
    } ,
    }
")).
Eval vm_compute in ("<<<M3379>>>" ++ check (runes_of_ascii "packet
string_ {@lengthOf( int ) match packetx as f32a {
    1 :	calculatedFrom , }  ,
    } packet len
    //	t
    { @calculatedFrom( """ ++ [233]%N ++ runes_of_ascii "t" ++ [233]%N ++ runes_of_ascii """ ) body Header , char[] lengthOf  `two words` ,chars{repe")).
Eval vm_compute in ("<<<M3411>>>" ++ check (runes_of_ascii "/// trip")).
Eval vm_compute in ("<<<M3443>>>" ++ check (runes_of_ascii "/// triple
root
packet // packet A { u8 x, }
chars { @lengthOf(charz )
stringy,  @tag(  0 ) // a // b
asx
    As
,
// trailing space 
// trailing space 
x_y_z {
repeat i16 charz , , } ,	int16  crc ,}
")).
Eval vm_compute in ("<<<M3475>>>" ++ check (runes_of_ascii "/// triple
packet
root // packet A { u8 x, }
chars { @lengthOf(charz )
stringy,  @tag(  0 ) // a // b
asx
    As
,
// trailing space 
// trailing space 
x_y_z {
repeat i16 charz , } ,	int16  crc ,}
")).
Eval vm_compute in ("<<<M3507>>>" ++ check (runes_of_ascii "u")).
Eval vm_compute in ("<<<M3539>>>" ++ check (runes_of_ascii "'\x00'")).
Eval vm_compute in ("<<<M3571>>>" ++ check (runes_of_ascii "// ab
c")).
Eval vm_compute in ("<<<M3603>>>" ++ check (runes_of_ascii "_1")).
Eval vm_compute in ("<<<M3635>>>" ++ check (runes_of_ascii "packet A { u8 x }")).
Eval vm_compute in ("<<<M3667>>>" ++ check (runes_of_ascii "packet A { B { @tag(1) u8 x, }, }")).
Eval vm_compute in ("<<<M3699>>>" ++ check (runes_of_ascii "packet A { } root")).
Eval vm_compute in ("<<<M3731>>>" ++ check (runes_of_ascii "options { a = 1, }")).
Eval vm_compute in ("<<<M3763>>>" ++ check (runes_of_ascii " " ++ [12]%N ++ runes_of_ascii " ")).
Eval vm_compute in ("<<<M3795>>>" ++ check (runes_of_ascii "u64 }")).
Eval vm_compute in ("<<<M3827>>>" ++ check (runes_of_ascii "' ' ""a	b"" f64 : ( f64 : packet @lengthOf( options MetaData")).
Eval vm_compute in ("<<<M3859>>>" ++ check (runes_of_ascii "u16")).
Eval vm_compute in ("<<<M3891>>>" ++ check (runes_of_ascii "i16 char[] '0' i64 root , packet } """ ++ [28040; 24687]%N ++ runes_of_ascii """ char[ match ,")).
Eval vm_compute in ("<<<M3923>>>" ++ check (runes_of_ascii "root ] = len uint8")).
Eval vm_compute in ("<<<M3955>>>" ++ check (runes_of_ascii "[ ; @calculatedFrom( match zchar[ ; ; [ = , {")).
Eval vm_compute in ("<<<M3987>>>" ++ check (runes_of_ascii "@calculatedFrom( ( options @lengthOf( '\x00' root string { u32 @calculatedFrom(")).
