From FP Require Import Lexer Parser ShowPT Digest.
From Coq Require Import String List NArith.
Import ListNotations.
Open Scope string_scope.
Set Printing Width 100000000.
Set Printing Depth 100000000.
Definition nl : string := String (Ascii.ascii_of_nat 10) EmptyString.
Definition model_lex (rs : list rune) : string := show_toks (lex rs).
Definition model_parse (rs : list rune) : string :=
  show_pt (match lex rs with Some ts => parse ts | None => None end).
(* coqc is slow at printing long strings: digests first (Digest.v), full texts on demand *)
Definition check (rs : list rune) : string :=
  digest (model_lex rs) ++ " " ++ digest (model_parse rs).
Definition full (rs : list rune) : string := model_lex rs ++ nl ++ model_parse rs.
Definition terms (ts : list tok) (t : pt) : string :=
  digest (show_toks (Some ts)) ++ " " ++ digest (show_pt (Some t)) ++ " " ++ digest (show_pt (parse ts)).
Definition terms_full (ts : list tok) (t : pt) : string :=
  show_toks (Some ts) ++ nl ++ show_pt (Some t) ++ nl ++ show_pt (parse ts).
Eval vm_compute in ("<<<M19>>>" ++ check (runes_of_ascii "packet string_	{ }packet
    matchKey
    { }
")).
Eval vm_compute in ("<<<M51>>>" ++ check (runes_of_ascii "MetaData
x_y_z
{zchar[ 3
    ] // c
body ,}
")).
Eval vm_compute in ("<<<M83>>>" ++ check (runes_of_ascii "options
    {f32a	= zchar[ 65535 ]	;
//	t
// trailing space 
Logon
    = // `tick` ""quote"" 'q'
""1"" x_y_z /// triple
=65535 u=
    ""// no comment""
    ; A = ""a\\""
; } //	t
root packet BodyLength { match	crc
as charz { """ ++ [128512]%N ++ runes_of_ascii """ : matchKey, 0123456789 :
T, ""it's"" // " ++ [27880; 37322]%N ++ runes_of_ascii "
: f32a,
7
// `tick` ""quote"" 'q'
// a // b
: body , [ 7 ]  : x_y_z, }
,  }
    MetaData
    string_ { len metadata `line1
line2` ,
    f64 calculatedFrom ,x_y_z x
, char[ 0123456789] Header  , }
")).
Eval vm_compute in ("<<<T83>>>" ++ terms [mkTok 1 "options" 1 0 false; mkTok 2 "{" 2 4 false; mkTok 42 "f32a" 2 5 false; mkTok 4 "=" 2 10 false; mkTok 14 "zchar[" 2 12 false; mkTok 30 "65535" 2 19 false; mkTok 13 "]" 2 25 false; mkTok 41 ";" 2 27 false; mkTok 44 (string_of_bytes [47; 47; 9; 116]%N) 3 0 true; mkTok 44 "// trailing space " 4 0 true; mkTok 42 "Logon" 5 0 false; mkTok 4 "=" 6 4 false; mkTok 44 "// `tick` ""quote"" 'q'" 6 6 true; mkTok 31 """1""" 7 0 false; mkTok 42 "x_y_z" 7 4 false; mkTok 44 "/// triple" 7 10 true; mkTok 4 "=" 8 0 false; mkTok 30 "65535" 8 1 false; mkTok 42 "u" 8 7 false; mkTok 4 "=" 8 8 false; mkTok 31 """// no comment""" 9 4 false; mkTok 41 ";" 10 4 false; mkTok 42 "A" 10 6 false; mkTok 4 "=" 10 8 false; mkTok 31 """a\\""" 10 10 false; mkTok 41 ";" 11 0 false; mkTok 3 "}" 11 2 false; mkTok 44 (string_of_bytes [47; 47; 9; 116]%N) 11 4 true; mkTok 34 "root" 12 0 false; mkTok 35 "packet" 12 5 false; mkTok 42 "BodyLength" 12 12 false; mkTok 2 "{" 12 23 false; mkTok 38 "match" 12 25 false; mkTok 42 "crc" 12 31 false; mkTok 17 "as" 13 0 false; mkTok 42 "charz" 13 3 false; mkTok 2 "{" 13 9 false; mkTok 31 (string_of_bytes [34; 240; 159; 152; 128; 34]%N) 13 11 false; mkTok 39 ":" 13 15 false; mkTok 42 "matchKey" 13 17 false; mkTok 40 "," 13 25 false; mkTok 30 "0123456789" 13 27 false; mkTok 39 ":" 13 38 false; mkTok 42 "T" 14 0 false; mkTok 40 "," 14 1 false; mkTok 31 """it's""" 14 3 false; mkTok 44 (string_of_bytes [47; 47; 32; 230; 179; 168; 233; 135; 138]%N) 14 10 true; mkTok 39 ":" 15 0 false; mkTok 42 "f32a" 15 2 false; mkTok 40 "," 15 6 false; mkTok 30 "7" 16 0 false; mkTok 44 "// `tick` ""quote"" 'q'" 17 0 true; mkTok 44 "// a // b" 18 0 true; mkTok 39 ":" 19 0 false; mkTok 42 "body" 19 2 false; mkTok 40 "," 19 7 false; mkTok 18 "[" 19 9 false; mkTok 30 "7" 19 11 false; mkTok 13 "]" 19 13 false; mkTok 39 ":" 19 16 false; mkTok 42 "x_y_z" 19 18 false; mkTok 40 "," 19 23 false; mkTok 3 "}" 19 25 false; mkTok 40 "," 20 0 false; mkTok 3 "}" 20 3 false; mkTok 37 "MetaData" 21 4 false; mkTok 42 "string_" 22 4 false; mkTok 2 "{" 22 12 false; mkTok 42 "len" 22 14 false; mkTok 42 "metadata" 22 18 false; mkTok 43 (string_of_bytes [96; 108; 105; 110; 101; 49; 10; 108; 105; 110; 101; 50; 96]%N) 22 27 false; mkTok 40 "," 23 7 false; mkTok 29 "f64" 24 4 false; mkTok 42 "calculatedFrom" 24 8 false; mkTok 40 "," 24 23 false; mkTok 42 "x_y_z" 24 24 false; mkTok 42 "x" 24 30 false; mkTok 40 "," 25 0 false; mkTok 12 "char[" 25 2 false; mkTok 30 "0123456789" 25 8 false; mkTok 13 "]" 25 18 false; mkTok 42 "Header" 25 20 false; mkTok 40 "," 25 28 false; mkTok 3 "}" 25 30 false; mkTok 0 "<EOF>" 26 0 false] (mkPacket (mkPtok 1 "options" 1 0 0) (Some (mkPtok 3 "}" 25 30 83)) [(DOption (mkOptionDef (mkSpan (mkPtok 1 "options" 1 0 0) (mkPtok 3 "}" 11 2 26)) (mkPtok 1 "options" 1 0 0) (mkPtok 2 "{" 2 4 1) [(mkOptionDecl (mkSpan (mkPtok 42 "f32a" 2 5 2) (mkPtok 41 ";" 2 27 7)) (mkPtok 42 "f32a" 2 5 2) (mkPtok 4 "=" 2 10 3) (VType (mkSpan (mkPtok 14 "zchar[" 2 12 4) (mkPtok 13 "]" 2 25 6)) (TyFixed (mkSpan (mkPtok 14 "zchar[" 2 12 4) (mkPtok 13 "]" 2 25 6)) (mkFixedString (mkSpan (mkPtok 14 "zchar[" 2 12 4) (mkPtok 13 "]" 2 25 6)) (mkPtok 14 "zchar[" 2 12 4) (mkPtok 30 "65535" 2 19 5) (mkPtok 13 "]" 2 25 6)))) (Some (mkPtok 41 ";" 2 27 7))); (mkOptionDecl (mkSpan (mkPtok 42 "Logon" 5 0 10) (mkPtok 31 """1""" 7 0 13)) (mkPtok 42 "Logon" 5 0 10) (mkPtok 4 "=" 6 4 11) (VString (mkSpan (mkPtok 31 """1""" 7 0 13) (mkPtok 31 """1""" 7 0 13)) (mkPtok 31 """1""" 7 0 13)) None); (mkOptionDecl (mkSpan (mkPtok 42 "x_y_z" 7 4 14) (mkPtok 30 "65535" 8 1 17)) (mkPtok 42 "x_y_z" 7 4 14) (mkPtok 4 "=" 8 0 16) (VDigits (mkSpan (mkPtok 30 "65535" 8 1 17) (mkPtok 30 "65535" 8 1 17)) (mkPtok 30 "65535" 8 1 17)) None); (mkOptionDecl (mkSpan (mkPtok 42 "u" 8 7 18) (mkPtok 41 ";" 10 4 21)) (mkPtok 42 "u" 8 7 18) (mkPtok 4 "=" 8 8 19) (VString (mkSpan (mkPtok 31 """// no comment""" 9 4 20) (mkPtok 31 """// no comment""" 9 4 20)) (mkPtok 31 """// no comment""" 9 4 20)) (Some (mkPtok 41 ";" 10 4 21))); (mkOptionDecl (mkSpan (mkPtok 42 "A" 10 6 22) (mkPtok 41 ";" 11 0 25)) (mkPtok 42 "A" 10 6 22) (mkPtok 4 "=" 10 8 23) (VString (mkSpan (mkPtok 31 """a\\""" 10 10 24) (mkPtok 31 """a\\""" 10 10 24)) (mkPtok 31 """a\\""" 10 10 24)) (Some (mkPtok 41 ";" 11 0 25)))] (mkPtok 3 "}" 11 2 26))); (DPacket (mkPacketDef (mkSpan (mkPtok 34 "root" 12 0 28) (mkPtok 3 "}" 20 3 64)) (Some (mkPtok 34 "root" 12 0 28)) (mkPtok 35 "packet" 12 5 29) (mkPtok 42 "BodyLength" 12 12 30) (mkPtok 2 "{" 12 23 31) [(mkFieldWithAttr (mkSpan (mkPtok 38 "match" 12 25 32) (mkPtok 40 "," 20 0 63)) [] (MatchField (mkSpan (mkPtok 38 "match" 12 25 32) (mkPtok 40 "," 20 0 63)) (mkMatchFieldDecl (mkSpan (mkPtok 38 "match" 12 25 32) (mkPtok 3 "}" 19 25 62)) (mkPtok 38 "match" 12 25 32) (mkPtok 42 "crc" 12 31 33) (mkPtok 17 "as" 13 0 34) (mkPtok 42 "charz" 13 3 35) (mkPtok 2 "{" 13 9 36) [(mkMatchPair (mkSpan (mkPtok 31 (string_of_bytes [34; 240; 159; 152; 128; 34]%N) 13 11 37) (mkPtok 40 "," 13 25 40)) (MKString (mkPtok 31 (string_of_bytes [34; 240; 159; 152; 128; 34]%N) 13 11 37)) (mkPtok 39 ":" 13 15 38) (mkPtok 42 "matchKey" 13 17 39) (Some (mkPtok 40 "," 13 25 40))); (mkMatchPair (mkSpan (mkPtok 30 "0123456789" 13 27 41) (mkPtok 40 "," 14 1 44)) (MKDigits (mkPtok 30 "0123456789" 13 27 41)) (mkPtok 39 ":" 13 38 42) (mkPtok 42 "T" 14 0 43) (Some (mkPtok 40 "," 14 1 44))); (mkMatchPair (mkSpan (mkPtok 31 """it's""" 14 3 45) (mkPtok 40 "," 15 6 49)) (MKString (mkPtok 31 """it's""" 14 3 45)) (mkPtok 39 ":" 15 0 47) (mkPtok 42 "f32a" 15 2 48) (Some (mkPtok 40 "," 15 6 49))); (mkMatchPair (mkSpan (mkPtok 30 "7" 16 0 50) (mkPtok 40 "," 19 7 55)) (MKDigits (mkPtok 30 "7" 16 0 50)) (mkPtok 39 ":" 19 0 53) (mkPtok 42 "body" 19 2 54) (Some (mkPtok 40 "," 19 7 55))); (mkMatchPair (mkSpan (mkPtok 18 "[" 19 9 56) (mkPtok 40 "," 19 23 61)) (MKList (mkKeyList (mkSpan (mkPtok 18 "[" 19 9 56) (mkPtok 13 "]" 19 13 58)) (mkPtok 18 "[" 19 9 56) (mkPtok 30 "7" 19 11 57) [] (mkPtok 13 "]" 19 13 58))) (mkPtok 39 ":" 19 16 59) (mkPtok 42 "x_y_z" 19 18 60) (Some (mkPtok 40 "," 19 23 61)))] (mkPtok 3 "}" 19 25 62)) (mkPtok 40 "," 20 0 63)))] (mkPtok 3 "}" 20 3 64))); (DMeta (mkMetaDef (mkSpan (mkPtok 37 "MetaData" 21 4 65) (mkPtok 3 "}" 25 30 83)) (mkPtok 37 "MetaData" 21 4 65) (mkPtok 42 "string_" 22 4 66) (mkPtok 2 "{" 22 12 67) [(MIRef (mkRefMetaDecl (mkSpan (mkPtok 42 "len" 22 14 68) (mkPtok 40 "," 23 7 71)) (mkPtok 42 "len" 22 14 68) (mkPtok 42 "metadata" 22 18 69) (Some (mkPtok 43 (string_of_bytes [96; 108; 105; 110; 101; 49; 10; 108; 105; 110; 101; 50; 96]%N) 22 27 70)) (mkPtok 40 "," 23 7 71))); (MIDecl (mkMetaDecl (mkSpan (mkPtok 29 "f64" 24 4 72) (mkPtok 40 "," 24 23 74)) (TyBasic (mkSpan (mkPtok 29 "f64" 24 4 72) (mkPtok 29 "f64" 24 4 72)) (mkBasicType (mkSpan (mkPtok 29 "f64" 24 4 72) (mkPtok 29 "f64" 24 4 72)) (mkPtok 29 "f64" 24 4 72))) (mkPtok 42 "calculatedFrom" 24 8 73) None (mkPtok 40 "," 24 23 74))); (MIRef (mkRefMetaDecl (mkSpan (mkPtok 42 "x_y_z" 24 24 75) (mkPtok 40 "," 25 0 77)) (mkPtok 42 "x_y_z" 24 24 75) (mkPtok 42 "x" 24 30 76) None (mkPtok 40 "," 25 0 77))); (MIDecl (mkMetaDecl (mkSpan (mkPtok 12 "char[" 25 2 78) (mkPtok 40 "," 25 28 82)) (TyFixed (mkSpan (mkPtok 12 "char[" 25 2 78) (mkPtok 13 "]" 25 18 80)) (mkFixedString (mkSpan (mkPtok 12 "char[" 25 2 78) (mkPtok 13 "]" 25 18 80)) (mkPtok 12 "char[" 25 2 78) (mkPtok 30 "0123456789" 25 8 79) (mkPtok 13 "]" 25 18 80))) (mkPtok 42 "Header" 25 20 81) None (mkPtok 40 "," 25 28 82)))] (mkPtok 3 "}" 25 30 83)))])).
Eval vm_compute in ("<<<M115>>>" ++ check (runes_of_ascii "
packet repeatCount {
    matchKey roots`crlf
line` , char
    int@lengthOf(
x_y_z  ) , calculatedFrom @calculatedFrom(
""a\""b"" // packet A { u8 x, }
) , }
root packet f32a
    {
/// triple
// trailing space 
@rightPad (
'0' // " ++ [27880; 37322]%N ++ runes_of_ascii "
) repeat u8 Pad, trueish calculatedFrom
    // `tick` ""quote"" 'q'
    , @calculatedFrom(
""" ++ [28040; 24687]%N ++ runes_of_ascii """ ) match msg_type
    as pack {""abc""
:
repeatCount ,
""{,}"" : repeatCount  ""a	b"" : calculatedFrom } ,} root packet repeatCount  { int32
    //
    stringy ,/// triple
}
root packet//	t
BodyLength {@lengthOf( As )//x
repeat charz { match chars
as chars { 0
: MetaDataX ""\n"" :
    // trailing space 
    crc	,
    } , } , }")).
Eval vm_compute in ("<<<M147>>>" ++ check (runes_of_ascii "MetaData
Logon {string //x
a1`{ , }`
    , string
a1,Logon charz,zchar[ 42 ]Z9_ ,
// packet A { u8 x, }
//
} options { packetx =
    00; tag = zchar[
    0123456789]
    i64_	=
    ""\" ++ [233]%N ++ runes_of_ascii """ As
    =""CRC32"" ;body
=
255 ;}// 50% %s
MetaData Packet { u64
    // 50% %s
    x
, zchar[ 7 ] matchKey
`" ++ [28040; 24687; 31867; 22411]%N ++ runes_of_ascii "` ,
    string_
    As ,	} // @lengthOf(")).
Eval vm_compute in ("<<<M179>>>" ++ check (runes_of_ascii "
")).
Eval vm_compute in ("<<<M211>>>" ++ check (runes_of_ascii "packet MetaDataX { int @calculatedFrom( ""`tick`"" ) ,
}")).
Eval vm_compute in ("<<<M243>>>" ++ check (runes_of_ascii "packet
stringy
{ @lengthOf( string_
)matchKey
    @lengthOf( float
)
, @leftPad
(  '0' ) match i8i8 as x
    {[65535 , 10 , 4294967296] : repeatCount,""// no comment"" : // 50% %s
stringy ,
} , }MetaData repeatCount { u32 metadata, } MetaData	crc {
repeatCount f32a ``
    , }")).
Eval vm_compute in ("<<<M275>>>" ++ check (runes_of_ascii "root packet body { o {a1
rootA , },@leftPad
( ' ' // a // b
)
    // packet A { u8 x, }
    charz int, repeat packetx
// trailing space 
// " ++ [128512]%N ++ runes_of_ascii " emoji
{ repeat Z9_{  lengthOf @calculatedFrom( ""`tick`""
    )
`a\` ,
} ,int8 i64_
// `tick` ""quote"" 'q'
// 50% %s
,} , @lengthOf(
    len ) repeat
    zchar{
    /// triple
    Pad a1 , int16 a1 @calculatedFrom(
    ""1""// 50% %s
) `` ,	rootA	{ match a1 as options1	{ 4294967296 :  Header ,""{,}""
    :i8i8 [ """ ++ [28040; 24687]%N ++ runes_of_ascii """ , 7 ] :x , """":i64_ , }
, f32a // " ++ [27880; 37322]%N ++ runes_of_ascii "
{
    repeat
    a1 ,
    // c
    len // c
@calculatedFrom( ""abc"") , } ,// `tick` ""quote"" 'q'
repeat	zchar[10 ] stringy	`a\`,
repeat calculatedFrom // " ++ [128512]%N ++ runes_of_ascii " emoji
{ repeat repeatCount
// c
//	t
, repeat i32 Pad `" ++ [28040; 24687; 31867; 22411]%N ++ runes_of_ascii "` ,	}
,} ,
lengthOf{ lengthOf @calculatedFrom( ""it's"") ,  char[]  Pad`say ""hi""`
, },
} ,
zchar[
0123456789 ]
chars,	float
@lengthOf(
asx )
, zchar{
    match msg_type as Packet { ""packet"" : packetx 1: chars , 0123456789
: metadata 255 : lengthOf
// trailing space 
/// triple
,""// no comment"": a1,// 50% %s
4294967296 :  pack , } ,
    }	, @leftPad (  ) char[ 00
    ] rootA ,
    MetaDataX { match float
    as body{
// `tick` ""quote"" 'q'
// @lengthOf(
[ ""a\""b"" , 007] :
// @lengthOf(
// 50% %s
_x  , } , match calculatedFrom as
x_y_z { // a // b
0123456789 :o 0 : a1 , }  ,_x{ match body// a // b
as	As	{
7: pack
,
// trailing space 
// `tick` ""quote"" 'q'
""it's""
    : f32a , } , }
, repeat
char[] x
    `a\`, } , }
packet x_y_z{repeat
Pad
    // c
    { int32 int
//	t
// a // b
@calculatedFrom( ""CRC32""
    )
    // c
    , }  , @tag( 3	)
    @lengthOf(roots )	@tag( 00 ) match rootA
    as
// trailing space 
// c
u{ [7] : string_ [// " ++ [128512]%N ++ runes_of_ascii " emoji
10
, ""CRC32""
,
007
]
    :
Logon
, 007
:metadata // `tick` ""quote"" 'q'
,
255:
/// triple
// c
As [ // " ++ [27880; 37322]%N ++ runes_of_ascii "
""packet""
    ]:zchar}
//x
// a // b
, }	packet roots	{	float64
/// triple
// `tick` ""quote"" 'q'
Packet, }
")).
Eval vm_compute in ("<<<M307>>>" ++ check (runes_of_ascii "packet falsey { options1 float , i8i8
{ a1  @lengthOf( calculatedFrom ) ,	zchar[	0  ]Foo
    // packet A { u8 x, }
    ,repeat T
    //
    {
    match trueish as crc
{ 42 : T
, } ,string	_x `tab	here` ,repeatCount // trailing space 
{ char[]
// `tick` ""quote"" 'q'
// " ++ [128512]%N ++ runes_of_ascii " emoji
u,u16 msg_type `{ , }` , }
, } , match
    /// triple
    x_y_z
as	zchar  { [ 00 ]: Z9_, }
, } ,
repeat u8 charz , @tag(
    255 ) match lengthOf as
tag
{  ""1"" :  u8x , """ ++ [28040; 24687]%N ++ runes_of_ascii """ :msg_type[ 7 ,
""\n"" ] : Z9_ , 10: leftPad ,
    }
, @calculatedFrom( ""a\\"")	string
    rootA @calculatedFrom( ""a	b"") `` , u8x `a\`
    // `tick` ""quote"" 'q'
    ,}
")).
Eval vm_compute in ("<<<T307>>>" ++ terms [mkTok 35 "packet" 1 0 false; mkTok 42 "falsey" 1 7 false; mkTok 2 "{" 1 14 false; mkTok 42 "options1" 1 16 false; mkTok 42 "float" 1 25 false; mkTok 40 "," 1 31 false; mkTok 42 "i8i8" 1 33 false; mkTok 2 "{" 2 0 false; mkTok 42 "a1" 2 2 false; mkTok 7 "@lengthOf(" 2 6 false; mkTok 42 "calculatedFrom" 2 17 false; mkTok 6 ")" 2 32 false; mkTok 40 "," 2 34 false; mkTok 14 "zchar[" 2 36 false; mkTok 30 "0" 2 43 false; mkTok 13 "]" 2 46 false; mkTok 42 "Foo" 2 47 false; mkTok 44 "// packet A { u8 x, }" 3 4 true; mkTok 40 "," 4 4 false; mkTok 36 "repeat" 4 5 false; mkTok 42 "T" 4 12 false; mkTok 44 "//" 5 4 true; mkTok 2 "{" 6 4 false; mkTok 38 "match" 7 4 false; mkTok 42 "trueish" 7 10 false; mkTok 17 "as" 7 18 false; mkTok 42 "crc" 7 21 false; mkTok 2 "{" 8 0 false; mkTok 30 "42" 8 2 false; mkTok 39 ":" 8 5 false; mkTok 42 "T" 8 7 false; mkTok 40 "," 9 0 false; mkTok 3 "}" 9 2 false; mkTok 40 "," 9 4 false; mkTok 15 "string" 9 5 false; mkTok 42 "_x" 9 12 false; mkTok 43 (string_of_bytes [96; 116; 97; 98; 9; 104; 101; 114; 101; 96]%N) 9 15 false; mkTok 40 "," 9 26 false; mkTok 42 "repeatCount" 9 27 false; mkTok 44 "// trailing space " 9 39 true; mkTok 2 "{" 10 0 false; mkTok 16 "char[]" 10 2 false; mkTok 44 "// `tick` ""quote"" 'q'" 11 0 true; mkTok 44 (string_of_bytes [47; 47; 32; 240; 159; 152; 128; 32; 101; 109; 111; 106; 105]%N) 12 0 true; mkTok 42 "u" 13 0 false; mkTok 40 "," 13 1 false; mkTok 21 "u16" 13 2 false; mkTok 42 "msg_type" 13 6 false; mkTok 43 "`{ , }`" 13 15 false; mkTok 40 "," 13 23 false; mkTok 3 "}" 13 25 false; mkTok 40 "," 14 0 false; mkTok 3 "}" 14 2 false; mkTok 40 "," 14 4 false; mkTok 38 "match" 14 6 false; mkTok 44 "/// triple" 15 4 true; mkTok 42 "x_y_z" 16 4 false; mkTok 17 "as" 17 0 false; mkTok 42 "zchar" 17 3 false; mkTok 2 "{" 17 10 false; mkTok 18 "[" 17 12 false; mkTok 30 "00" 17 14 false; mkTok 13 "]" 17 17 false; mkTok 39 ":" 17 18 false; mkTok 42 "Z9_" 17 20 false; mkTok 40 "," 17 23 false; mkTok 3 "}" 17 25 false; mkTok 40 "," 18 0 false; mkTok 3 "}" 18 2 false; mkTok 40 "," 18 4 false; mkTok 36 "repeat" 19 0 false; mkTok 20 "u8" 19 7 false; mkTok 42 "charz" 19 10 false; mkTok 40 "," 19 16 false; mkTok 9 "@tag(" 19 18 false; mkTok 30 "255" 20 4 false; mkTok 6 ")" 20 8 false; mkTok 38 "match" 20 10 false; mkTok 42 "lengthOf" 20 16 false; mkTok 17 "as" 20 25 false; mkTok 42 "tag" 21 0 false; mkTok 2 "{" 22 0 false; mkTok 31 """1""" 22 3 false; mkTok 39 ":" 22 7 false; mkTok 42 "u8x" 22 10 false; mkTok 40 "," 22 14 false; mkTok 31 (string_of_bytes [34; 230; 182; 136; 230; 129; 175; 34]%N) 22 16 false; mkTok 39 ":" 22 21 false; mkTok 42 "msg_type" 22 22 false; mkTok 18 "[" 22 30 false; mkTok 30 "7" 22 32 false; mkTok 40 "," 22 34 false; mkTok 31 """\n""" 23 0 false; mkTok 13 "]" 23 5 false; mkTok 39 ":" 23 7 false; mkTok 42 "Z9_" 23 9 false; mkTok 40 "," 23 13 false; mkTok 30 "10" 23 15 false; mkTok 39 ":" 23 17 false; mkTok 42 "leftPad" 23 19 false; mkTok 40 "," 23 27 false; mkTok 3 "}" 24 4 false; mkTok 40 "," 25 0 false; mkTok 5 "@calculatedFrom(" 25 2 false; mkTok 31 """a\\""" 25 19 false; mkTok 6 ")" 25 24 false; mkTok 15 "string" 25 26 false; mkTok 42 "rootA" 26 4 false; mkTok 5 "@calculatedFrom(" 26 10 false; mkTok 31 (string_of_bytes [34; 97; 9; 98; 34]%N) 26 27 false; mkTok 6 ")" 26 32 false; mkTok 43 "``" 26 34 false; mkTok 40 "," 26 37 false; mkTok 42 "u8x" 26 39 false; mkTok 43 "`a\`" 26 43 false; mkTok 44 "// `tick` ""quote"" 'q'" 27 4 true; mkTok 40 "," 28 4 false; mkTok 3 "}" 28 5 false; mkTok 0 "<EOF>" 29 0 false] (mkPacket (mkPtok 35 "packet" 1 0 0) (Some (mkPtok 3 "}" 28 5 117)) [(DPacket (mkPacketDef (mkSpan (mkPtok 35 "packet" 1 0 0) (mkPtok 3 "}" 28 5 117)) None (mkPtok 35 "packet" 1 0 0) (mkPtok 42 "falsey" 1 7 1) (mkPtok 2 "{" 1 14 2) [(mkFieldWithAttr (mkSpan (mkPtok 42 "options1" 1 16 3) (mkPtok 40 "," 1 31 5)) [] (ObjectField (mkSpan (mkPtok 42 "options1" 1 16 3) (mkPtok 40 "," 1 31 5)) None (mkPtok 42 "options1" 1 16 3) (Some (mkPtok 42 "float" 1 25 4)) None (mkPtok 40 "," 1 31 5))); (mkFieldWithAttr (mkSpan (mkPtok 42 "i8i8" 1 33 6) (mkPtok 40 "," 18 4 69)) [] (InerObjectField (mkSpan (mkPtok 42 "i8i8" 1 33 6) (mkPtok 40 "," 18 4 69)) None (InerObjectDecl (mkSpan (mkPtok 42 "i8i8" 1 33 6) (mkPtok 3 "}" 18 2 68)) (mkPtok 42 "i8i8" 1 33 6) (mkPtok 2 "{" 2 0 7) [(LengthField (mkSpan (mkPtok 42 "a1" 2 2 8) (mkPtok 40 "," 2 34 12)) (mkLengthFieldDecl (mkSpan (mkPtok 42 "a1" 2 2 8) (mkPtok 40 "," 2 34 12)) None (mkPtok 42 "a1" 2 2 8) (mkLengthOf (mkSpan (mkPtok 7 "@lengthOf(" 2 6 9) (mkPtok 6 ")" 2 32 11)) (mkPtok 7 "@lengthOf(" 2 6 9) (mkPtok 42 "calculatedFrom" 2 17 10) (mkPtok 6 ")" 2 32 11)) None (mkPtok 40 "," 2 34 12))); (MetaField (mkSpan (mkPtok 14 "zchar[" 2 36 13) (mkPtok 40 "," 4 4 18)) None (mkMetaDecl (mkSpan (mkPtok 14 "zchar[" 2 36 13) (mkPtok 40 "," 4 4 18)) (TyFixed (mkSpan (mkPtok 14 "zchar[" 2 36 13) (mkPtok 13 "]" 2 46 15)) (mkFixedString (mkSpan (mkPtok 14 "zchar[" 2 36 13) (mkPtok 13 "]" 2 46 15)) (mkPtok 14 "zchar[" 2 36 13) (mkPtok 30 "0" 2 43 14) (mkPtok 13 "]" 2 46 15))) (mkPtok 42 "Foo" 2 47 16) None (mkPtok 40 "," 4 4 18))); (InerObjectField (mkSpan (mkPtok 36 "repeat" 4 5 19) (mkPtok 40 "," 14 4 53)) (Some (mkPtok 36 "repeat" 4 5 19)) (InerObjectDecl (mkSpan (mkPtok 42 "T" 4 12 20) (mkPtok 3 "}" 14 2 52)) (mkPtok 42 "T" 4 12 20) (mkPtok 2 "{" 6 4 22) [(MatchField (mkSpan (mkPtok 38 "match" 7 4 23) (mkPtok 40 "," 9 4 33)) (mkMatchFieldDecl (mkSpan (mkPtok 38 "match" 7 4 23) (mkPtok 3 "}" 9 2 32)) (mkPtok 38 "match" 7 4 23) (mkPtok 42 "trueish" 7 10 24) (mkPtok 17 "as" 7 18 25) (mkPtok 42 "crc" 7 21 26) (mkPtok 2 "{" 8 0 27) [(mkMatchPair (mkSpan (mkPtok 30 "42" 8 2 28) (mkPtok 40 "," 9 0 31)) (MKDigits (mkPtok 30 "42" 8 2 28)) (mkPtok 39 ":" 8 5 29) (mkPtok 42 "T" 8 7 30) (Some (mkPtok 40 "," 9 0 31)))] (mkPtok 3 "}" 9 2 32)) (mkPtok 40 "," 9 4 33)); (MetaField (mkSpan (mkPtok 15 "string" 9 5 34) (mkPtok 40 "," 9 26 37)) None (mkMetaDecl (mkSpan (mkPtok 15 "string" 9 5 34) (mkPtok 40 "," 9 26 37)) (TyDynamic (mkSpan (mkPtok 15 "string" 9 5 34) (mkPtok 15 "string" 9 5 34)) (mkDynamicString (mkSpan (mkPtok 15 "string" 9 5 34) (mkPtok 15 "string" 9 5 34)) (mkPtok 15 "string" 9 5 34))) (mkPtok 42 "_x" 9 12 35) (Some (mkPtok 43 (string_of_bytes [96; 116; 97; 98; 9; 104; 101; 114; 101; 96]%N) 9 15 36)) (mkPtok 40 "," 9 26 37))); (InerObjectField (mkSpan (mkPtok 42 "repeatCount" 9 27 38) (mkPtok 40 "," 14 0 51)) None (InerObjectDecl (mkSpan (mkPtok 42 "repeatCount" 9 27 38) (mkPtok 3 "}" 13 25 50)) (mkPtok 42 "repeatCount" 9 27 38) (mkPtok 2 "{" 10 0 40) [(MetaField (mkSpan (mkPtok 16 "char[]" 10 2 41) (mkPtok 40 "," 13 1 45)) None (mkMetaDecl (mkSpan (mkPtok 16 "char[]" 10 2 41) (mkPtok 40 "," 13 1 45)) (TyDynamic (mkSpan (mkPtok 16 "char[]" 10 2 41) (mkPtok 16 "char[]" 10 2 41)) (mkDynamicString (mkSpan (mkPtok 16 "char[]" 10 2 41) (mkPtok 16 "char[]" 10 2 41)) (mkPtok 16 "char[]" 10 2 41))) (mkPtok 42 "u" 13 0 44) None (mkPtok 40 "," 13 1 45))); (MetaField (mkSpan (mkPtok 21 "u16" 13 2 46) (mkPtok 40 "," 13 23 49)) None (mkMetaDecl (mkSpan (mkPtok 21 "u16" 13 2 46) (mkPtok 40 "," 13 23 49)) (TyBasic (mkSpan (mkPtok 21 "u16" 13 2 46) (mkPtok 21 "u16" 13 2 46)) (mkBasicType (mkSpan (mkPtok 21 "u16" 13 2 46) (mkPtok 21 "u16" 13 2 46)) (mkPtok 21 "u16" 13 2 46))) (mkPtok 42 "msg_type" 13 6 47) (Some (mkPtok 43 "`{ , }`" 13 15 48)) (mkPtok 40 "," 13 23 49)))] (mkPtok 3 "}" 13 25 50)) (mkPtok 40 "," 14 0 51))] (mkPtok 3 "}" 14 2 52)) (mkPtok 40 "," 14 4 53)); (MatchField (mkSpan (mkPtok 38 "match" 14 6 54) (mkPtok 40 "," 18 0 67)) (mkMatchFieldDecl (mkSpan (mkPtok 38 "match" 14 6 54) (mkPtok 3 "}" 17 25 66)) (mkPtok 38 "match" 14 6 54) (mkPtok 42 "x_y_z" 16 4 56) (mkPtok 17 "as" 17 0 57) (mkPtok 42 "zchar" 17 3 58) (mkPtok 2 "{" 17 10 59) [(mkMatchPair (mkSpan (mkPtok 18 "[" 17 12 60) (mkPtok 40 "," 17 23 65)) (MKList (mkKeyList (mkSpan (mkPtok 18 "[" 17 12 60) (mkPtok 13 "]" 17 17 62)) (mkPtok 18 "[" 17 12 60) (mkPtok 30 "00" 17 14 61) [] (mkPtok 13 "]" 17 17 62))) (mkPtok 39 ":" 17 18 63) (mkPtok 42 "Z9_" 17 20 64) (Some (mkPtok 40 "," 17 23 65)))] (mkPtok 3 "}" 17 25 66)) (mkPtok 40 "," 18 0 67))] (mkPtok 3 "}" 18 2 68)) (mkPtok 40 "," 18 4 69))); (mkFieldWithAttr (mkSpan (mkPtok 36 "repeat" 19 0 70) (mkPtok 40 "," 19 16 73)) [] (MetaField (mkSpan (mkPtok 36 "repeat" 19 0 70) (mkPtok 40 "," 19 16 73)) (Some (mkPtok 36 "repeat" 19 0 70)) (mkMetaDecl (mkSpan (mkPtok 20 "u8" 19 7 71) (mkPtok 40 "," 19 16 73)) (TyBasic (mkSpan (mkPtok 20 "u8" 19 7 71) (mkPtok 20 "u8" 19 7 71)) (mkBasicType (mkSpan (mkPtok 20 "u8" 19 7 71) (mkPtok 20 "u8" 19 7 71)) (mkPtok 20 "u8" 19 7 71))) (mkPtok 42 "charz" 19 10 72) None (mkPtok 40 "," 19 16 73)))); (mkFieldWithAttr (mkSpan (mkPtok 9 "@tag(" 19 18 74) (mkPtok 40 "," 25 0 102)) [(FATag (mkSpan (mkPtok 9 "@tag(" 19 18 74) (mkPtok 6 ")" 20 8 76)) (mkTagAttr (mkSpan (mkPtok 9 "@tag(" 19 18 74) (mkPtok 6 ")" 20 8 76)) (mkPtok 9 "@tag(" 19 18 74) (mkPtok 30 "255" 20 4 75) (mkPtok 6 ")" 20 8 76)))] (MatchField (mkSpan (mkPtok 38 "match" 20 10 77) (mkPtok 40 "," 25 0 102)) (mkMatchFieldDecl (mkSpan (mkPtok 38 "match" 20 10 77) (mkPtok 3 "}" 24 4 101)) (mkPtok 38 "match" 20 10 77) (mkPtok 42 "lengthOf" 20 16 78) (mkPtok 17 "as" 20 25 79) (mkPtok 42 "tag" 21 0 80) (mkPtok 2 "{" 22 0 81) [(mkMatchPair (mkSpan (mkPtok 31 """1""" 22 3 82) (mkPtok 40 "," 22 14 85)) (MKString (mkPtok 31 """1""" 22 3 82)) (mkPtok 39 ":" 22 7 83) (mkPtok 42 "u8x" 22 10 84) (Some (mkPtok 40 "," 22 14 85))); (mkMatchPair (mkSpan (mkPtok 31 (string_of_bytes [34; 230; 182; 136; 230; 129; 175; 34]%N) 22 16 86) (mkPtok 42 "msg_type" 22 22 88)) (MKString (mkPtok 31 (string_of_bytes [34; 230; 182; 136; 230; 129; 175; 34]%N) 22 16 86)) (mkPtok 39 ":" 22 21 87) (mkPtok 42 "msg_type" 22 22 88) None); (mkMatchPair (mkSpan (mkPtok 18 "[" 22 30 89) (mkPtok 40 "," 23 13 96)) (MKList (mkKeyList (mkSpan (mkPtok 18 "[" 22 30 89) (mkPtok 13 "]" 23 5 93)) (mkPtok 18 "[" 22 30 89) (mkPtok 30 "7" 22 32 90) [((mkPtok 40 "," 22 34 91), (mkPtok 31 """\n""" 23 0 92))] (mkPtok 13 "]" 23 5 93))) (mkPtok 39 ":" 23 7 94) (mkPtok 42 "Z9_" 23 9 95) (Some (mkPtok 40 "," 23 13 96))); (mkMatchPair (mkSpan (mkPtok 30 "10" 23 15 97) (mkPtok 40 "," 23 27 100)) (MKDigits (mkPtok 30 "10" 23 15 97)) (mkPtok 39 ":" 23 17 98) (mkPtok 42 "leftPad" 23 19 99) (Some (mkPtok 40 "," 23 27 100)))] (mkPtok 3 "}" 24 4 101)) (mkPtok 40 "," 25 0 102))); (mkFieldWithAttr (mkSpan (mkPtok 5 "@calculatedFrom(" 25 2 103) (mkPtok 40 "," 26 37 112)) [(FACalculatedFrom (mkSpan (mkPtok 5 "@calculatedFrom(" 25 2 103) (mkPtok 6 ")" 25 24 105)) (mkCalculatedFrom (mkSpan (mkPtok 5 "@calculatedFrom(" 25 2 103) (mkPtok 6 ")" 25 24 105)) (mkPtok 5 "@calculatedFrom(" 25 2 103) (mkPtok 31 """a\\""" 25 19 104) (mkPtok 6 ")" 25 24 105)))] (CheckSumField (mkSpan (mkPtok 15 "string" 25 26 106) (mkPtok 40 "," 26 37 112)) (mkChecksumFieldDecl (mkSpan (mkPtok 15 "string" 25 26 106) (mkPtok 40 "," 26 37 112)) (Some (TyDynamic (mkSpan (mkPtok 15 "string" 25 26 106) (mkPtok 15 "string" 25 26 106)) (mkDynamicString (mkSpan (mkPtok 15 "string" 25 26 106) (mkPtok 15 "string" 25 26 106)) (mkPtok 15 "string" 25 26 106)))) (mkPtok 42 "rootA" 26 4 107) (mkCalculatedFrom (mkSpan (mkPtok 5 "@calculatedFrom(" 26 10 108) (mkPtok 6 ")" 26 32 110)) (mkPtok 5 "@calculatedFrom(" 26 10 108) (mkPtok 31 (string_of_bytes [34; 97; 9; 98; 34]%N) 26 27 109) (mkPtok 6 ")" 26 32 110)) (Some (mkPtok 43 "``" 26 34 111)) (mkPtok 40 "," 26 37 112)))); (mkFieldWithAttr (mkSpan (mkPtok 42 "u8x" 26 39 113) (mkPtok 40 "," 28 4 116)) [] (ObjectField (mkSpan (mkPtok 42 "u8x" 26 39 113) (mkPtok 40 "," 28 4 116)) None (mkPtok 42 "u8x" 26 39 113) None (Some (mkPtok 43 "`a\`" 26 43 114)) (mkPtok 40 "," 28 4 116)))] (mkPtok 3 "}" 28 5 117)))])).
Eval vm_compute in ("<<<M339>>>" ++ check (@nil rune)).
Eval vm_compute in ("<<<M371>>>" ++ check (runes_of_ascii "root packet
len
{ // " ++ [27880; 37322]%N ++ runes_of_ascii "
@lengthOf( falsey ) @calculatedFrom( """ ++ [128512]%N ++ runes_of_ascii """
)	@tag(10 )
int32//	t
pack `// not a comment` , repeat char[]
crc, match u8x as
    asx
{ // c
7 :int// trailing space 
,	3 : repeatCount 10
: /// triple
a1 ,
""CRC32"" :msg_type} ,}
MetaData int {char[ 255
    ] metadata
    `100% of %d` , }")).
Eval vm_compute in ("<<<M403>>>" ++ check (runes_of_ascii "MetaData Foo
// " ++ [27880; 37322]%N ++ runes_of_ascii "
// 50% %s
{ }")).
Eval vm_compute in ("<<<M435>>>" ++ check (runes_of_ascii "packet float
    {  }")).
Eval vm_compute in ("<<<M467>>>" ++ check (runes_of_ascii "
packet uint8x { match stringy as
lengthOf
{ 00 : roots,
    } ,match zchar as body {
""// no comment"": // packet A { u8 x, }
MetaDataX [""`tick`"" ,
""\n""] : i8i8 , ""// no comment"" :
    float
""x y"" : body
, } ,
@tag( 00 )
    f32a@calculatedFrom( ""CRC32"") ,  uint32
i8i8
    ,
@rightPad( ' ' ) zchar[4294967296]
rootA ,} packet // c
metadata { // a // b
T  {
    u8x {match
    As as trueish
    { // packet A { u8 x, }
[
    ""\" ++ [233]%N ++ runes_of_ascii """ ] : Header // " ++ [128512]%N ++ runes_of_ascii " emoji
, },
repeat stringy //
options1 , repeat u8x{
float32
int @lengthOf( BodyLength) `line1
line2`
    // `tick` ""quote"" 'q'
    , }
,
string f32a // " ++ [128512]%N ++ runes_of_ascii " emoji
,  }
    , match
    calculatedFrom as tag {00: pack }, msg_type { repeat int64 len `it's` , repeat uint64 rootA `" ++ [28040; 24687; 31867; 22411]%N ++ runes_of_ascii "` , //x
} ,
match rootA as
_x { [ """ ++ [28040; 24687]%N ++ runes_of_ascii """ , ""{,}""] : metadata	} // " ++ [27880; 37322]%N ++ runes_of_ascii "
, }, @leftPad ( )	u
    @lengthOf( Header
    )
    , u16 // trailing space 
x
`a\`, match
    string_ as Foo{42 : string_
, // trailing space 
00
    :	T,} , } // c
packet
options1  { }")).
Eval vm_compute in ("<<<M499>>>" ++ check (runes_of_ascii "packet
zchar { i32 x_y_z , }
")).
Eval vm_compute in ("<<<M531>>>" ++ check (runes_of_ascii "packet o {
repeat
    calculatedFrom { As
    ,repeat
u {//	t
i32 repeatCount
, }, match BodyLength
as u8x { 007 :
trueish }
, asx float  `two words`
, }
    , match pack as// `tick` ""quote"" 'q'
calculatedFrom {""it's"" :	Foo,
// 50% %s
// @lengthOf(
}
, match body as
    calculatedFrom	{	[
    // 50% %s
    ""a\""b"" ] :	o , 42
    :	Packet
    , //
[ 0123456789 ,1	, ""1""
] : float
,}
,
    } MetaData
i64_	{u128
    //x
    crc
    `` , // c
string_ u ,i8 int
    `doc`,
    // " ++ [27880; 37322]%N ++ runes_of_ascii "
    i16 x	`doc`, falsey
/// triple
//
f32a,	} options {	roots //x
=
zchar[
4294967296 ] ;  x
=
    65535 ; crc =	zchar[
    // " ++ [27880; 37322]%N ++ runes_of_ascii "
    7 ] ; metadata= char[]
; leftPad
    =
i32 }")).
Eval vm_compute in ("<<<T531>>>" ++ terms [mkTok 35 "packet" 1 0 false; mkTok 42 "o" 1 7 false; mkTok 2 "{" 1 9 false; mkTok 36 "repeat" 2 0 false; mkTok 42 "calculatedFrom" 3 4 false; mkTok 2 "{" 3 19 false; mkTok 42 "As" 3 21 false; mkTok 40 "," 4 4 false; mkTok 36 "repeat" 4 5 false; mkTok 42 "u" 5 0 false; mkTok 2 "{" 5 2 false; mkTok 44 (string_of_bytes [47; 47; 9; 116]%N) 5 3 true; mkTok 26 "i32" 6 0 false; mkTok 42 "repeatCount" 6 4 false; mkTok 40 "," 7 0 false; mkTok 3 "}" 7 2 false; mkTok 40 "," 7 3 false; mkTok 38 "match" 7 5 false; mkTok 42 "BodyLength" 7 11 false; mkTok 17 "as" 8 0 false; mkTok 42 "u8x" 8 3 false; mkTok 2 "{" 8 7 false; mkTok 30 "007" 8 9 false; mkTok 39 ":" 8 13 false; mkTok 42 "trueish" 9 0 false; mkTok 3 "}" 9 8 false; mkTok 40 "," 10 0 false; mkTok 42 "asx" 10 2 false; mkTok 42 "float" 10 6 false; mkTok 43 "`two words`" 10 13 false; mkTok 40 "," 11 0 false; mkTok 3 "}" 11 2 false; mkTok 40 "," 12 4 false; mkTok 38 "match" 12 6 false; mkTok 42 "pack" 12 12 false; mkTok 17 "as" 12 17 false; mkTok 44 "// `tick` ""quote"" 'q'" 12 19 true; mkTok 42 "calculatedFrom" 13 0 false; mkTok 2 "{" 13 15 false; mkTok 31 """it's""" 13 16 false; mkTok 39 ":" 13 23 false; mkTok 42 "Foo" 13 25 false; mkTok 40 "," 13 28 false; mkTok 44 "// 50% %s" 14 0 true; mkTok 44 "// @lengthOf(" 15 0 true; mkTok 3 "}" 16 0 false; mkTok 40 "," 17 0 false; mkTok 38 "match" 17 2 false; mkTok 42 "body" 17 8 false; mkTok 17 "as" 17 13 false; mkTok 42 "calculatedFrom" 18 4 false; mkTok 2 "{" 18 19 false; mkTok 18 "[" 18 21 false; mkTok 44 "// 50% %s" 19 4 true; mkTok 31 """a\""b""" 20 4 false; mkTok 13 "]" 20 11 false; mkTok 39 ":" 20 13 false; mkTok 42 "o" 20 15 false; mkTok 40 "," 20 17 false; mkTok 30 "42" 20 19 false; mkTok 39 ":" 21 4 false; mkTok 42 "Packet" 21 6 false; mkTok 40 "," 22 4 false; mkTok 44 "//" 22 6 true; mkTok 18 "[" 23 0 false; mkTok 30 "0123456789" 23 2 false; mkTok 40 "," 23 13 false; mkTok 30 "1" 23 14 false; mkTok 40 "," 23 16 false; mkTok 31 """1""" 23 18 false; mkTok 13 "]" 24 0 false; mkTok 39 ":" 24 2 false; mkTok 42 "float" 24 4 false; mkTok 40 "," 25 0 false; mkTok 3 "}" 25 1 false; mkTok 40 "," 26 0 false; mkTok 3 "}" 27 4 false; mkTok 37 "MetaData" 27 6 false; mkTok 42 "i64_" 28 0 false; mkTok 2 "{" 28 5 false; mkTok 42 "u128" 28 6 false; mkTok 44 "//x" 29 4 true; mkTok 42 "crc" 30 4 false; mkTok 43 "``" 31 4 false; mkTok 40 "," 31 7 false; mkTok 44 "// c" 31 9 true; mkTok 42 "string_" 32 0 false; mkTok 42 "u" 32 8 false; mkTok 40 "," 32 10 false; mkTok 24 "i8" 32 11 false; mkTok 42 "int" 32 14 false; mkTok 43 "`doc`" 33 4 false; mkTok 40 "," 33 9 false; mkTok 44 (string_of_bytes [47; 47; 32; 230; 179; 168; 233; 135; 138]%N) 34 4 true; mkTok 25 "i16" 35 4 false; mkTok 42 "x" 35 8 false; mkTok 43 "`doc`" 35 10 false; mkTok 40 "," 35 15 false; mkTok 42 "falsey" 35 17 false; mkTok 44 "/// triple" 36 0 true; mkTok 44 "//" 37 0 true; mkTok 42 "f32a" 38 0 false; mkTok 40 "," 38 4 false; mkTok 3 "}" 38 6 false; mkTok 1 "options" 38 8 false; mkTok 2 "{" 38 16 false; mkTok 42 "roots" 38 18 false; mkTok 44 "//x" 38 24 true; mkTok 4 "=" 39 0 false; mkTok 14 "zchar[" 40 0 false; mkTok 30 "4294967296" 41 0 false; mkTok 13 "]" 41 11 false; mkTok 41 ";" 41 13 false; mkTok 42 "x" 41 16 false; mkTok 4 "=" 42 0 false; mkTok 30 "65535" 43 4 false; mkTok 41 ";" 43 10 false; mkTok 42 "crc" 43 12 false; mkTok 4 "=" 43 16 false; mkTok 14 "zchar[" 43 18 false; mkTok 44 (string_of_bytes [47; 47; 32; 230; 179; 168; 233; 135; 138]%N) 44 4 true; mkTok 30 "7" 45 4 false; mkTok 13 "]" 45 6 false; mkTok 41 ";" 45 8 false; mkTok 42 "metadata" 45 10 false; mkTok 4 "=" 45 18 false; mkTok 16 "char[]" 45 20 false; mkTok 41 ";" 46 0 false; mkTok 42 "leftPad" 46 2 false; mkTok 4 "=" 47 4 false; mkTok 26 "i32" 48 0 false; mkTok 3 "}" 48 4 false; mkTok 0 "<EOF>" 48 5 false] (mkPacket (mkPtok 35 "packet" 1 0 0) (Some (mkPtok 3 "}" 48 4 131)) [(DPacket (mkPacketDef (mkSpan (mkPtok 35 "packet" 1 0 0) (mkPtok 3 "}" 27 4 76)) None (mkPtok 35 "packet" 1 0 0) (mkPtok 42 "o" 1 7 1) (mkPtok 2 "{" 1 9 2) [(mkFieldWithAttr (mkSpan (mkPtok 36 "repeat" 2 0 3) (mkPtok 40 "," 12 4 32)) [] (InerObjectField (mkSpan (mkPtok 36 "repeat" 2 0 3) (mkPtok 40 "," 12 4 32)) (Some (mkPtok 36 "repeat" 2 0 3)) (InerObjectDecl (mkSpan (mkPtok 42 "calculatedFrom" 3 4 4) (mkPtok 3 "}" 11 2 31)) (mkPtok 42 "calculatedFrom" 3 4 4) (mkPtok 2 "{" 3 19 5) [(ObjectField (mkSpan (mkPtok 42 "As" 3 21 6) (mkPtok 40 "," 4 4 7)) None (mkPtok 42 "As" 3 21 6) None None (mkPtok 40 "," 4 4 7)); (InerObjectField (mkSpan (mkPtok 36 "repeat" 4 5 8) (mkPtok 40 "," 7 3 16)) (Some (mkPtok 36 "repeat" 4 5 8)) (InerObjectDecl (mkSpan (mkPtok 42 "u" 5 0 9) (mkPtok 3 "}" 7 2 15)) (mkPtok 42 "u" 5 0 9) (mkPtok 2 "{" 5 2 10) [(MetaField (mkSpan (mkPtok 26 "i32" 6 0 12) (mkPtok 40 "," 7 0 14)) None (mkMetaDecl (mkSpan (mkPtok 26 "i32" 6 0 12) (mkPtok 40 "," 7 0 14)) (TyBasic (mkSpan (mkPtok 26 "i32" 6 0 12) (mkPtok 26 "i32" 6 0 12)) (mkBasicType (mkSpan (mkPtok 26 "i32" 6 0 12) (mkPtok 26 "i32" 6 0 12)) (mkPtok 26 "i32" 6 0 12))) (mkPtok 42 "repeatCount" 6 4 13) None (mkPtok 40 "," 7 0 14)))] (mkPtok 3 "}" 7 2 15)) (mkPtok 40 "," 7 3 16)); (MatchField (mkSpan (mkPtok 38 "match" 7 5 17) (mkPtok 40 "," 10 0 26)) (mkMatchFieldDecl (mkSpan (mkPtok 38 "match" 7 5 17) (mkPtok 3 "}" 9 8 25)) (mkPtok 38 "match" 7 5 17) (mkPtok 42 "BodyLength" 7 11 18) (mkPtok 17 "as" 8 0 19) (mkPtok 42 "u8x" 8 3 20) (mkPtok 2 "{" 8 7 21) [(mkMatchPair (mkSpan (mkPtok 30 "007" 8 9 22) (mkPtok 42 "trueish" 9 0 24)) (MKDigits (mkPtok 30 "007" 8 9 22)) (mkPtok 39 ":" 8 13 23) (mkPtok 42 "trueish" 9 0 24) None)] (mkPtok 3 "}" 9 8 25)) (mkPtok 40 "," 10 0 26)); (ObjectField (mkSpan (mkPtok 42 "asx" 10 2 27) (mkPtok 40 "," 11 0 30)) None (mkPtok 42 "asx" 10 2 27) (Some (mkPtok 42 "float" 10 6 28)) (Some (mkPtok 43 "`two words`" 10 13 29)) (mkPtok 40 "," 11 0 30))] (mkPtok 3 "}" 11 2 31)) (mkPtok 40 "," 12 4 32))); (mkFieldWithAttr (mkSpan (mkPtok 38 "match" 12 6 33) (mkPtok 40 "," 17 0 46)) [] (MatchField (mkSpan (mkPtok 38 "match" 12 6 33) (mkPtok 40 "," 17 0 46)) (mkMatchFieldDecl (mkSpan (mkPtok 38 "match" 12 6 33) (mkPtok 3 "}" 16 0 45)) (mkPtok 38 "match" 12 6 33) (mkPtok 42 "pack" 12 12 34) (mkPtok 17 "as" 12 17 35) (mkPtok 42 "calculatedFrom" 13 0 37) (mkPtok 2 "{" 13 15 38) [(mkMatchPair (mkSpan (mkPtok 31 """it's""" 13 16 39) (mkPtok 40 "," 13 28 42)) (MKString (mkPtok 31 """it's""" 13 16 39)) (mkPtok 39 ":" 13 23 40) (mkPtok 42 "Foo" 13 25 41) (Some (mkPtok 40 "," 13 28 42)))] (mkPtok 3 "}" 16 0 45)) (mkPtok 40 "," 17 0 46))); (mkFieldWithAttr (mkSpan (mkPtok 38 "match" 17 2 47) (mkPtok 40 "," 26 0 75)) [] (MatchField (mkSpan (mkPtok 38 "match" 17 2 47) (mkPtok 40 "," 26 0 75)) (mkMatchFieldDecl (mkSpan (mkPtok 38 "match" 17 2 47) (mkPtok 3 "}" 25 1 74)) (mkPtok 38 "match" 17 2 47) (mkPtok 42 "body" 17 8 48) (mkPtok 17 "as" 17 13 49) (mkPtok 42 "calculatedFrom" 18 4 50) (mkPtok 2 "{" 18 19 51) [(mkMatchPair (mkSpan (mkPtok 18 "[" 18 21 52) (mkPtok 40 "," 20 17 58)) (MKList (mkKeyList (mkSpan (mkPtok 18 "[" 18 21 52) (mkPtok 13 "]" 20 11 55)) (mkPtok 18 "[" 18 21 52) (mkPtok 31 """a\""b""" 20 4 54) [] (mkPtok 13 "]" 20 11 55))) (mkPtok 39 ":" 20 13 56) (mkPtok 42 "o" 20 15 57) (Some (mkPtok 40 "," 20 17 58))); (mkMatchPair (mkSpan (mkPtok 30 "42" 20 19 59) (mkPtok 40 "," 22 4 62)) (MKDigits (mkPtok 30 "42" 20 19 59)) (mkPtok 39 ":" 21 4 60) (mkPtok 42 "Packet" 21 6 61) (Some (mkPtok 40 "," 22 4 62))); (mkMatchPair (mkSpan (mkPtok 18 "[" 23 0 64) (mkPtok 40 "," 25 0 73)) (MKList (mkKeyList (mkSpan (mkPtok 18 "[" 23 0 64) (mkPtok 13 "]" 24 0 70)) (mkPtok 18 "[" 23 0 64) (mkPtok 30 "0123456789" 23 2 65) [((mkPtok 40 "," 23 13 66), (mkPtok 30 "1" 23 14 67)); ((mkPtok 40 "," 23 16 68), (mkPtok 31 """1""" 23 18 69))] (mkPtok 13 "]" 24 0 70))) (mkPtok 39 ":" 24 2 71) (mkPtok 42 "float" 24 4 72) (Some (mkPtok 40 "," 25 0 73)))] (mkPtok 3 "}" 25 1 74)) (mkPtok 40 "," 26 0 75)))] (mkPtok 3 "}" 27 4 76))); (DMeta (mkMetaDef (mkSpan (mkPtok 37 "MetaData" 27 6 77) (mkPtok 3 "}" 38 6 103)) (mkPtok 37 "MetaData" 27 6 77) (mkPtok 42 "i64_" 28 0 78) (mkPtok 2 "{" 28 5 79) [(MIRef (mkRefMetaDecl (mkSpan (mkPtok 42 "u128" 28 6 80) (mkPtok 40 "," 31 7 84)) (mkPtok 42 "u128" 28 6 80) (mkPtok 42 "crc" 30 4 82) (Some (mkPtok 43 "``" 31 4 83)) (mkPtok 40 "," 31 7 84))); (MIRef (mkRefMetaDecl (mkSpan (mkPtok 42 "string_" 32 0 86) (mkPtok 40 "," 32 10 88)) (mkPtok 42 "string_" 32 0 86) (mkPtok 42 "u" 32 8 87) None (mkPtok 40 "," 32 10 88))); (MIDecl (mkMetaDecl (mkSpan (mkPtok 24 "i8" 32 11 89) (mkPtok 40 "," 33 9 92)) (TyBasic (mkSpan (mkPtok 24 "i8" 32 11 89) (mkPtok 24 "i8" 32 11 89)) (mkBasicType (mkSpan (mkPtok 24 "i8" 32 11 89) (mkPtok 24 "i8" 32 11 89)) (mkPtok 24 "i8" 32 11 89))) (mkPtok 42 "int" 32 14 90) (Some (mkPtok 43 "`doc`" 33 4 91)) (mkPtok 40 "," 33 9 92))); (MIDecl (mkMetaDecl (mkSpan (mkPtok 25 "i16" 35 4 94) (mkPtok 40 "," 35 15 97)) (TyBasic (mkSpan (mkPtok 25 "i16" 35 4 94) (mkPtok 25 "i16" 35 4 94)) (mkBasicType (mkSpan (mkPtok 25 "i16" 35 4 94) (mkPtok 25 "i16" 35 4 94)) (mkPtok 25 "i16" 35 4 94))) (mkPtok 42 "x" 35 8 95) (Some (mkPtok 43 "`doc`" 35 10 96)) (mkPtok 40 "," 35 15 97))); (MIRef (mkRefMetaDecl (mkSpan (mkPtok 42 "falsey" 35 17 98) (mkPtok 40 "," 38 4 102)) (mkPtok 42 "falsey" 35 17 98) (mkPtok 42 "f32a" 38 0 101) None (mkPtok 40 "," 38 4 102)))] (mkPtok 3 "}" 38 6 103))); (DOption (mkOptionDef (mkSpan (mkPtok 1 "options" 38 8 104) (mkPtok 3 "}" 48 4 131)) (mkPtok 1 "options" 38 8 104) (mkPtok 2 "{" 38 16 105) [(mkOptionDecl (mkSpan (mkPtok 42 "roots" 38 18 106) (mkPtok 41 ";" 41 13 112)) (mkPtok 42 "roots" 38 18 106) (mkPtok 4 "=" 39 0 108) (VType (mkSpan (mkPtok 14 "zchar[" 40 0 109) (mkPtok 13 "]" 41 11 111)) (TyFixed (mkSpan (mkPtok 14 "zchar[" 40 0 109) (mkPtok 13 "]" 41 11 111)) (mkFixedString (mkSpan (mkPtok 14 "zchar[" 40 0 109) (mkPtok 13 "]" 41 11 111)) (mkPtok 14 "zchar[" 40 0 109) (mkPtok 30 "4294967296" 41 0 110) (mkPtok 13 "]" 41 11 111)))) (Some (mkPtok 41 ";" 41 13 112))); (mkOptionDecl (mkSpan (mkPtok 42 "x" 41 16 113) (mkPtok 41 ";" 43 10 116)) (mkPtok 42 "x" 41 16 113) (mkPtok 4 "=" 42 0 114) (VDigits (mkSpan (mkPtok 30 "65535" 43 4 115) (mkPtok 30 "65535" 43 4 115)) (mkPtok 30 "65535" 43 4 115)) (Some (mkPtok 41 ";" 43 10 116))); (mkOptionDecl (mkSpan (mkPtok 42 "crc" 43 12 117) (mkPtok 41 ";" 45 8 123)) (mkPtok 42 "crc" 43 12 117) (mkPtok 4 "=" 43 16 118) (VType (mkSpan (mkPtok 14 "zchar[" 43 18 119) (mkPtok 13 "]" 45 6 122)) (TyFixed (mkSpan (mkPtok 14 "zchar[" 43 18 119) (mkPtok 13 "]" 45 6 122)) (mkFixedString (mkSpan (mkPtok 14 "zchar[" 43 18 119) (mkPtok 13 "]" 45 6 122)) (mkPtok 14 "zchar[" 43 18 119) (mkPtok 30 "7" 45 4 121) (mkPtok 13 "]" 45 6 122)))) (Some (mkPtok 41 ";" 45 8 123))); (mkOptionDecl (mkSpan (mkPtok 42 "metadata" 45 10 124) (mkPtok 41 ";" 46 0 127)) (mkPtok 42 "metadata" 45 10 124) (mkPtok 4 "=" 45 18 125) (VType (mkSpan (mkPtok 16 "char[]" 45 20 126) (mkPtok 16 "char[]" 45 20 126)) (TyDynamic (mkSpan (mkPtok 16 "char[]" 45 20 126) (mkPtok 16 "char[]" 45 20 126)) (mkDynamicString (mkSpan (mkPtok 16 "char[]" 45 20 126) (mkPtok 16 "char[]" 45 20 126)) (mkPtok 16 "char[]" 45 20 126)))) (Some (mkPtok 41 ";" 46 0 127))); (mkOptionDecl (mkSpan (mkPtok 42 "leftPad" 46 2 128) (mkPtok 26 "i32" 48 0 130)) (mkPtok 42 "leftPad" 46 2 128) (mkPtok 4 "=" 47 4 129) (VType (mkSpan (mkPtok 26 "i32" 48 0 130) (mkPtok 26 "i32" 48 0 130)) (TyBasic (mkSpan (mkPtok 26 "i32" 48 0 130) (mkPtok 26 "i32" 48 0 130)) (mkBasicType (mkSpan (mkPtok 26 "i32" 48 0 130) (mkPtok 26 "i32" 48 0 130)) (mkPtok 26 "i32" 48 0 130)))) None)] (mkPtok 3 "}" 48 4 131)))])).
Eval vm_compute in ("<<<M563>>>" ++ check (runes_of_ascii "root packet // packet A { u8 x, }
zchar { f32a matchKey
,
    }
")).
Eval vm_compute in ("<<<M595>>>" ++ check (runes_of_ascii "// " ++ [27880; 37322]%N ++ runes_of_ascii "
packet
    //	t
    chars
{ Z9_, @tag(
    7
)//x
leftPad@lengthOf( asx	) //
`crlf
line` ,	char Z9_ `crlf
line`	,	T
matchKey ,
    repeat
    uint64	crc`
`	, } root packet Header {
    @tag( 42 ) len {match asx as len {// trailing space 
[
/// triple
// `tick` ""quote"" 'q'
65535 , ""\n""
    ,
""1"", ""1""  ,4294967296
    /// triple
    ,  255 ] : pack
,
""\" ++ [233]%N ++ runes_of_ascii """ // trailing space 
: o
    // " ++ [128512]%N ++ runes_of_ascii " emoji
    , },
// 50% %s
//
u32 crc
    `crlf
line` , char[
1 ] int //	t
, string_	{
    // packet A { u8 x, }
    repeat
leftPad	T `" ++ [233]%N ++ runes_of_ascii "`
    , match asx	as Pad{ 255//	t
: packetx 7 :
/// triple
// a // b
trueish
    , [
3 ] :
int , ""// no comment"" :
    // " ++ [27880; 37322]%N ++ runes_of_ascii "
    chars//
}
    , repeat int16
Header
,
    }, } ,} 	 ")).
Eval vm_compute in ("<<<M627>>>" ++ check (runes_of_ascii "packet body {zchar[ 1]  x	`it's`, Header
    `100% of %d` , } MetaData
a1 {
/// triple
// 50% %s
i8i8 msg_type ,
int64 asx , T
    Packet , uint8
As ,  } options { // " ++ [27880; 37322]%N ++ runes_of_ascii "
charz =' ' x_y_z /// triple
=
//
//x
' ' ;
packetx = ""// no comment"" }")).
Eval vm_compute in ("<<<M659>>>" ++ check (runes_of_ascii "packet metadata{ @calculatedFrom( ""x y"")
    roots@lengthOf(
roots)	,
    repeatCount chars , @calculatedFrom(""packet"" )repeat int64
    Z9_ , Logon @calculatedFrom( ""packet""
),  f32a@calculatedFrom( ""a	b"") `doc` ,
trueish
@lengthOf(Z9_), //x
@tag(4294967296 )
    // 50% %s
    repeat i64
Logon `100% of %d` ,
    f32a x_y_z
, }
    options
    {pack  =""1"" // a // b
;
roots =
    10 ; falsey =// trailing space 
false	stringy
= ' ' ;
trueish //	t
=  '\x00' ; } packet i64_
{ @calculatedFrom( ""abc""
    )u8 roots
    , // c
@leftPad (
'\x00' ) char[1 ]
u128  @lengthOf(options1 ) `tab	here` ,
    @calculatedFrom( """" ) @lengthOf( body
    ) char[]
    calculatedFrom ,@lengthOf(	crc ) @lengthOf( _x
) @rightPad ( ' ' ) // @lengthOf(
match u8x as A { [""// no comment"" , 0123456789]
    // packet A { u8 x, }
    : // trailing space 
Packet , 007 :asx
, } ,
match
    stringy as	falsey {  7 : stringy /// triple
}
    , Header //
`it's`
    ,
    @calculatedFrom( ""\n""	)@rightPad (
    '0' ) @lengthOf(
    As )
    len	T ,@leftPad (
    '\x00'//
) leftPad
{ u @calculatedFrom( ""abc""// c
) `{ , }` , i8
    Foo `` ,
    zchar[
    1 ] stringy
`crlf
line` , },pack `u8 x,` , @rightPad (' ' // " ++ [27880; 37322]%N ++ runes_of_ascii "
)	match
    string_
    as
o	{ 7: u }, // a // b
}
")).
Eval vm_compute in ("<<<M691>>>" ++ check (runes_of_ascii "root
packet T{  } MetaData Header {zchar[ 4294967296
    ]i64_ `" ++ [28040; 24687; 31867; 22411]%N ++ runes_of_ascii "` , } packet
    leftPad{ @calculatedFrom(
    ""a\\"" ) match charz as a1
{
    /// triple
    ""`tick`"": As ,
[10 , 3 ] : u8x ,[ 255 , // c
0]:  leftPad 10 :
repeatCount ,
}
// trailing space 
//	t
, @tag(	007 ) // packet A { u8 x, }
uint8
f32a , @rightPad ( ' ' ) @leftPad
// 50% %s
// c
(  '\x00'
    ) @lengthOf(//
stringy ) T @lengthOf(
charz
    ) ,
    metadata matchKey , A// " ++ [27880; 37322]%N ++ runes_of_ascii "
T
    , @leftPad // `tick` ""quote"" 'q'
( '0' ) char[ 1] // trailing space 
Packet ,
@tag( 7 )
    @leftPad
    (
' ' ) zchar[ 7]
    rootA @lengthOf(uint8x ) // trailing space 
,
    // `tick` ""quote"" 'q'
    zchar[  0123456789 ] Header `u8 x,` ,char[ 255	] x@lengthOf( MetaDataX
) `line1
line2`,}

")).
Eval vm_compute in ("<<<M723>>>" ++ check (runes_of_ascii "root packet//
repeatCount // trailing space 
{_x@calculatedFrom( ""1"" ) ,
}")).
Eval vm_compute in ("<<<M755>>>" ++ check (runes_of_ascii "
root
packet T{msg_type ,
    // " ++ [128512]%N ++ runes_of_ascii " emoji
    }	root
    packet // trailing space 
pack {repeat
int64 lengthOf ,uint16
    stringy
    , @calculatedFrom(""\" ++ [233]%N ++ runes_of_ascii """
) a1 string_ ,
repeat packetx tag , // packet A { u8 x, }
match x as
Foo {
[4294967296
    , """ ++ [28040; 24687]%N ++ runes_of_ascii """ ,65535 , 0 ,
    ""\n"",	""CRC32"" ] : // " ++ [128512]%N ++ runes_of_ascii " emoji
falsey , [ ""a\\"" , ""{,}"" , ""`tick`""
,
    0,
""x y""
]  :len , ""\" ++ [233]%N ++ runes_of_ascii """
: matchKey ""1"":
    /// triple
    packetx
    , 1 : stringy,
    } , @rightPad
(' ' ) @lengthOf( a1	) @tag(
    65535
    ) int64 tag@calculatedFrom(""packet"" )`two words`// a // b
,@leftPad ( ' ') // c
@leftPad (
    ) chars{
    string
zchar `two words`,
    match tag	as
    u8x{ 10 // packet A { u8 x, }
:chars
// " ++ [27880; 37322]%N ++ runes_of_ascii "
// trailing space 
10
    : chars
, [ ""// no comment""
    ,7
,	""packet""
,  ""a	b"" , """", 007
    , 007
//
// a // b
, ""// no comment""
]
: MetaDataX
,// trailing space 
}
,
    } , // " ++ [27880; 37322]%N ++ runes_of_ascii "
char[]	u8x @lengthOf(
Z9_
) `two words`
    // " ++ [27880; 37322]%N ++ runes_of_ascii "
    , @rightPad (
//	t
// 50% %s
' ' )  i32 asx@lengthOf( BodyLength
), @tag( // 50% %s
3 )  @calculatedFrom(
""a\\""
    )
// c
//	t
@leftPad ('0' )
    //	t
    repeat
    // 50% %s
    Logon	Logon `it's` ,
}
")).
Eval vm_compute in ("<<<T755>>>" ++ terms [mkTok 34 "root" 2 0 false; mkTok 35 "packet" 3 0 false; mkTok 42 "T" 3 7 false; mkTok 2 "{" 3 8 false; mkTok 42 "msg_type" 3 9 false; mkTok 40 "," 3 18 false; mkTok 44 (string_of_bytes [47; 47; 32; 240; 159; 152; 128; 32; 101; 109; 111; 106; 105]%N) 4 4 true; mkTok 3 "}" 5 4 false; mkTok 34 "root" 5 6 false; mkTok 35 "packet" 6 4 false; mkTok 44 "// trailing space " 6 11 true; mkTok 42 "pack" 7 0 false; mkTok 2 "{" 7 5 false; mkTok 36 "repeat" 7 6 false; mkTok 27 "int64" 8 0 false; mkTok 42 "lengthOf" 8 6 false; mkTok 40 "," 8 15 false; mkTok 21 "uint16" 8 16 false; mkTok 42 "stringy" 9 4 false; mkTok 40 "," 10 4 false; mkTok 5 "@calculatedFrom(" 10 6 false; mkTok 31 (string_of_bytes [34; 92; 195; 169; 34]%N) 10 22 false; mkTok 6 ")" 11 0 false; mkTok 42 "a1" 11 2 false; mkTok 42 "string_" 11 5 false; mkTok 40 "," 11 13 false; mkTok 36 "repeat" 12 0 false; mkTok 42 "packetx" 12 7 false; mkTok 42 "tag" 12 15 false; mkTok 40 "," 12 19 false; mkTok 44 "// packet A { u8 x, }" 12 21 true; mkTok 38 "match" 13 0 false; mkTok 42 "x" 13 6 false; mkTok 17 "as" 13 8 false; mkTok 42 "Foo" 14 0 false; mkTok 2 "{" 14 4 false; mkTok 18 "[" 15 0 false; mkTok 30 "4294967296" 15 1 false; mkTok 40 "," 16 4 false; mkTok 31 (string_of_bytes [34; 230; 182; 136; 230; 129; 175; 34]%N) 16 6 false; mkTok 40 "," 16 11 false; mkTok 30 "65535" 16 12 false; mkTok 40 "," 16 18 false; mkTok 30 "0" 16 20 false; mkTok 40 "," 16 22 false; mkTok 31 """\n""" 17 4 false; mkTok 40 "," 17 8 false; mkTok 31 """CRC32""" 17 10 false; mkTok 13 "]" 17 18 false; mkTok 39 ":" 17 20 false; mkTok 44 (string_of_bytes [47; 47; 32; 240; 159; 152; 128; 32; 101; 109; 111; 106; 105]%N) 17 22 true; mkTok 42 "falsey" 18 0 false; mkTok 40 "," 18 7 false; mkTok 18 "[" 18 9 false; mkTok 31 """a\\""" 18 11 false; mkTok 40 "," 18 17 false; mkTok 31 """{,}""" 18 19 false; mkTok 40 "," 18 25 false; mkTok 31 """`tick`""" 18 27 false; mkTok 40 "," 19 0 false; mkTok 30 "0" 20 4 false; mkTok 40 "," 20 5 false; mkTok 31 """x y""" 21 0 false; mkTok 13 "]" 22 0 false; mkTok 39 ":" 22 3 false; mkTok 42 "len" 22 4 false; mkTok 40 "," 22 8 false; mkTok 31 (string_of_bytes [34; 92; 195; 169; 34]%N) 22 10 false; mkTok 39 ":" 23 0 false; mkTok 42 "matchKey" 23 2 false; mkTok 31 """1""" 23 11 false; mkTok 39 ":" 23 14 false; mkTok 44 "/// triple" 24 4 true; mkTok 42 "packetx" 25 4 false; mkTok 40 "," 26 4 false; mkTok 30 "1" 26 6 false; mkTok 39 ":" 26 8 false; mkTok 42 "stringy" 26 10 false; mkTok 40 "," 26 17 false; mkTok 3 "}" 27 4 false; mkTok 40 "," 27 6 false; mkTok 32 "@rightPad" 27 8 false; mkTok 8 "(" 28 0 false; mkTok 33 "' '" 28 1 false; mkTok 6 ")" 28 5 false; mkTok 7 "@lengthOf(" 28 7 false; mkTok 42 "a1" 28 18 false; mkTok 6 ")" 28 21 false; mkTok 9 "@tag(" 28 23 false; mkTok 30 "65535" 29 4 false; mkTok 6 ")" 30 4 false; mkTok 27 "int64" 30 6 false; mkTok 42 "tag" 30 12 false; mkTok 5 "@calculatedFrom(" 30 15 false; mkTok 31 """packet""" 30 31 false; mkTok 6 ")" 30 40 false; mkTok 43 "`two words`" 30 41 false; mkTok 44 "// a // b" 30 52 true; mkTok 40 "," 31 0 false; mkTok 32 "@leftPad" 31 1 false; mkTok 8 "(" 31 10 false; mkTok 33 "' '" 31 12 false; mkTok 6 ")" 31 15 false; mkTok 44 "// c" 31 17 true; mkTok 32 "@leftPad" 32 0 false; mkTok 8 "(" 32 9 false; mkTok 6 ")" 33 4 false; mkTok 42 "chars" 33 6 false; mkTok 2 "{" 33 11 false; mkTok 15 "string" 34 4 false; mkTok 42 "zchar" 35 0 false; mkTok 43 "`two words`" 35 6 false; mkTok 40 "," 35 17 false; mkTok 38 "match" 36 4 false; mkTok 42 "tag" 36 10 false; mkTok 17 "as" 36 14 false; mkTok 42 "u8x" 37 4 false; mkTok 2 "{" 37 7 false; mkTok 30 "10" 37 9 false; mkTok 44 "// packet A { u8 x, }" 37 12 true; mkTok 39 ":" 38 0 false; mkTok 42 "chars" 38 1 false; mkTok 44 (string_of_bytes [47; 47; 32; 230; 179; 168; 233; 135; 138]%N) 39 0 true; mkTok 44 "// trailing space " 40 0 true; mkTok 30 "10" 41 0 false; mkTok 39 ":" 42 4 false; mkTok 42 "chars" 42 6 false; mkTok 40 "," 43 0 false; mkTok 18 "[" 43 2 false; mkTok 31 """// no comment""" 43 4 false; mkTok 40 "," 44 4 false; mkTok 30 "7" 44 5 false; mkTok 40 "," 45 0 false; mkTok 31 """packet""" 45 2 false; mkTok 40 "," 46 0 false; mkTok 31 (string_of_bytes [34; 97; 9; 98; 34]%N) 46 3 false; mkTok 40 "," 46 9 false; mkTok 31 """""" 46 11 false; mkTok 40 "," 46 13 false; mkTok 30 "007" 46 15 false; mkTok 40 "," 47 4 false; mkTok 30 "007" 47 6 false; mkTok 44 "//" 48 0 true; mkTok 44 "// a // b" 49 0 true; mkTok 40 "," 50 0 false; mkTok 31 """// no comment""" 50 2 false; mkTok 13 "]" 51 0 false; mkTok 39 ":" 52 0 false; mkTok 42 "MetaDataX" 52 2 false; mkTok 40 "," 53 0 false; mkTok 44 "// trailing space " 53 1 true; mkTok 3 "}" 54 0 false; mkTok 40 "," 55 0 false; mkTok 3 "}" 56 4 false; mkTok 40 "," 56 6 false; mkTok 44 (string_of_bytes [47; 47; 32; 230; 179; 168; 233; 135; 138]%N) 56 8 true; mkTok 16 "char[]" 57 0 false; mkTok 42 "u8x" 57 7 false; mkTok 7 "@lengthOf(" 57 11 false; mkTok 42 "Z9_" 58 0 false; mkTok 6 ")" 59 0 false; mkTok 43 "`two words`" 59 2 false; mkTok 44 (string_of_bytes [47; 47; 32; 230; 179; 168; 233; 135; 138]%N) 60 4 true; mkTok 40 "," 61 4 false; mkTok 32 "@rightPad" 61 6 false; mkTok 8 "(" 61 16 false; mkTok 44 (string_of_bytes [47; 47; 9; 116]%N) 62 0 true; mkTok 44 "// 50% %s" 63 0 true; mkTok 33 "' '" 64 0 false; mkTok 6 ")" 64 4 false; mkTok 26 "i32" 64 7 false; mkTok 42 "asx" 64 11 false; mkTok 7 "@lengthOf(" 64 14 false; mkTok 42 "BodyLength" 64 25 false; mkTok 6 ")" 65 0 false; mkTok 40 "," 65 1 false; mkTok 9 "@tag(" 65 3 false; mkTok 44 "// 50% %s" 65 9 true; mkTok 30 "3" 66 0 false; mkTok 6 ")" 66 2 false; mkTok 5 "@calculatedFrom(" 66 5 false; mkTok 31 """a\\""" 67 0 false; mkTok 6 ")" 68 4 false; mkTok 44 "// c" 69 0 true; mkTok 44 (string_of_bytes [47; 47; 9; 116]%N) 70 0 true; mkTok 32 "@leftPad" 71 0 false; mkTok 8 "(" 71 9 false; mkTok 33 "'0'" 71 10 false; mkTok 6 ")" 71 14 false; mkTok 44 (string_of_bytes [47; 47; 9; 116]%N) 72 4 true; mkTok 36 "repeat" 73 4 false; mkTok 44 "// 50% %s" 74 4 true; mkTok 42 "Logon" 75 4 false; mkTok 42 "Logon" 75 10 false; mkTok 43 "`it's`" 75 16 false; mkTok 40 "," 75 23 false; mkTok 3 "}" 76 0 false; mkTok 0 "<EOF>" 77 0 false] (mkPacket (mkPtok 34 "root" 2 0 0) (Some (mkPtok 3 "}" 76 0 196)) [(DPacket (mkPacketDef (mkSpan (mkPtok 34 "root" 2 0 0) (mkPtok 3 "}" 5 4 7)) (Some (mkPtok 34 "root" 2 0 0)) (mkPtok 35 "packet" 3 0 1) (mkPtok 42 "T" 3 7 2) (mkPtok 2 "{" 3 8 3) [(mkFieldWithAttr (mkSpan (mkPtok 42 "msg_type" 3 9 4) (mkPtok 40 "," 3 18 5)) [] (ObjectField (mkSpan (mkPtok 42 "msg_type" 3 9 4) (mkPtok 40 "," 3 18 5)) None (mkPtok 42 "msg_type" 3 9 4) None None (mkPtok 40 "," 3 18 5)))] (mkPtok 3 "}" 5 4 7))); (DPacket (mkPacketDef (mkSpan (mkPtok 34 "root" 5 6 8) (mkPtok 3 "}" 76 0 196)) (Some (mkPtok 34 "root" 5 6 8)) (mkPtok 35 "packet" 6 4 9) (mkPtok 42 "pack" 7 0 11) (mkPtok 2 "{" 7 5 12) [(mkFieldWithAttr (mkSpan (mkPtok 36 "repeat" 7 6 13) (mkPtok 40 "," 8 15 16)) [] (MetaField (mkSpan (mkPtok 36 "repeat" 7 6 13) (mkPtok 40 "," 8 15 16)) (Some (mkPtok 36 "repeat" 7 6 13)) (mkMetaDecl (mkSpan (mkPtok 27 "int64" 8 0 14) (mkPtok 40 "," 8 15 16)) (TyBasic (mkSpan (mkPtok 27 "int64" 8 0 14) (mkPtok 27 "int64" 8 0 14)) (mkBasicType (mkSpan (mkPtok 27 "int64" 8 0 14) (mkPtok 27 "int64" 8 0 14)) (mkPtok 27 "int64" 8 0 14))) (mkPtok 42 "lengthOf" 8 6 15) None (mkPtok 40 "," 8 15 16)))); (mkFieldWithAttr (mkSpan (mkPtok 21 "uint16" 8 16 17) (mkPtok 40 "," 10 4 19)) [] (MetaField (mkSpan (mkPtok 21 "uint16" 8 16 17) (mkPtok 40 "," 10 4 19)) None (mkMetaDecl (mkSpan (mkPtok 21 "uint16" 8 16 17) (mkPtok 40 "," 10 4 19)) (TyBasic (mkSpan (mkPtok 21 "uint16" 8 16 17) (mkPtok 21 "uint16" 8 16 17)) (mkBasicType (mkSpan (mkPtok 21 "uint16" 8 16 17) (mkPtok 21 "uint16" 8 16 17)) (mkPtok 21 "uint16" 8 16 17))) (mkPtok 42 "stringy" 9 4 18) None (mkPtok 40 "," 10 4 19)))); (mkFieldWithAttr (mkSpan (mkPtok 5 "@calculatedFrom(" 10 6 20) (mkPtok 40 "," 11 13 25)) [(FACalculatedFrom (mkSpan (mkPtok 5 "@calculatedFrom(" 10 6 20) (mkPtok 6 ")" 11 0 22)) (mkCalculatedFrom (mkSpan (mkPtok 5 "@calculatedFrom(" 10 6 20) (mkPtok 6 ")" 11 0 22)) (mkPtok 5 "@calculatedFrom(" 10 6 20) (mkPtok 31 (string_of_bytes [34; 92; 195; 169; 34]%N) 10 22 21) (mkPtok 6 ")" 11 0 22)))] (ObjectField (mkSpan (mkPtok 42 "a1" 11 2 23) (mkPtok 40 "," 11 13 25)) None (mkPtok 42 "a1" 11 2 23) (Some (mkPtok 42 "string_" 11 5 24)) None (mkPtok 40 "," 11 13 25))); (mkFieldWithAttr (mkSpan (mkPtok 36 "repeat" 12 0 26) (mkPtok 40 "," 12 19 29)) [] (ObjectField (mkSpan (mkPtok 36 "repeat" 12 0 26) (mkPtok 40 "," 12 19 29)) (Some (mkPtok 36 "repeat" 12 0 26)) (mkPtok 42 "packetx" 12 7 27) (Some (mkPtok 42 "tag" 12 15 28)) None (mkPtok 40 "," 12 19 29))); (mkFieldWithAttr (mkSpan (mkPtok 38 "match" 13 0 31) (mkPtok 40 "," 27 6 80)) [] (MatchField (mkSpan (mkPtok 38 "match" 13 0 31) (mkPtok 40 "," 27 6 80)) (mkMatchFieldDecl (mkSpan (mkPtok 38 "match" 13 0 31) (mkPtok 3 "}" 27 4 79)) (mkPtok 38 "match" 13 0 31) (mkPtok 42 "x" 13 6 32) (mkPtok 17 "as" 13 8 33) (mkPtok 42 "Foo" 14 0 34) (mkPtok 2 "{" 14 4 35) [(mkMatchPair (mkSpan (mkPtok 18 "[" 15 0 36) (mkPtok 40 "," 18 7 52)) (MKList (mkKeyList (mkSpan (mkPtok 18 "[" 15 0 36) (mkPtok 13 "]" 17 18 48)) (mkPtok 18 "[" 15 0 36) (mkPtok 30 "4294967296" 15 1 37) [((mkPtok 40 "," 16 4 38), (mkPtok 31 (string_of_bytes [34; 230; 182; 136; 230; 129; 175; 34]%N) 16 6 39)); ((mkPtok 40 "," 16 11 40), (mkPtok 30 "65535" 16 12 41)); ((mkPtok 40 "," 16 18 42), (mkPtok 30 "0" 16 20 43)); ((mkPtok 40 "," 16 22 44), (mkPtok 31 """\n""" 17 4 45)); ((mkPtok 40 "," 17 8 46), (mkPtok 31 """CRC32""" 17 10 47))] (mkPtok 13 "]" 17 18 48))) (mkPtok 39 ":" 17 20 49) (mkPtok 42 "falsey" 18 0 51) (Some (mkPtok 40 "," 18 7 52))); (mkMatchPair (mkSpan (mkPtok 18 "[" 18 9 53) (mkPtok 40 "," 22 8 66)) (MKList (mkKeyList (mkSpan (mkPtok 18 "[" 18 9 53) (mkPtok 13 "]" 22 0 63)) (mkPtok 18 "[" 18 9 53) (mkPtok 31 """a\\""" 18 11 54) [((mkPtok 40 "," 18 17 55), (mkPtok 31 """{,}""" 18 19 56)); ((mkPtok 40 "," 18 25 57), (mkPtok 31 """`tick`""" 18 27 58)); ((mkPtok 40 "," 19 0 59), (mkPtok 30 "0" 20 4 60)); ((mkPtok 40 "," 20 5 61), (mkPtok 31 """x y""" 21 0 62))] (mkPtok 13 "]" 22 0 63))) (mkPtok 39 ":" 22 3 64) (mkPtok 42 "len" 22 4 65) (Some (mkPtok 40 "," 22 8 66))); (mkMatchPair (mkSpan (mkPtok 31 (string_of_bytes [34; 92; 195; 169; 34]%N) 22 10 67) (mkPtok 42 "matchKey" 23 2 69)) (MKString (mkPtok 31 (string_of_bytes [34; 92; 195; 169; 34]%N) 22 10 67)) (mkPtok 39 ":" 23 0 68) (mkPtok 42 "matchKey" 23 2 69) None); (mkMatchPair (mkSpan (mkPtok 31 """1""" 23 11 70) (mkPtok 40 "," 26 4 74)) (MKString (mkPtok 31 """1""" 23 11 70)) (mkPtok 39 ":" 23 14 71) (mkPtok 42 "packetx" 25 4 73) (Some (mkPtok 40 "," 26 4 74))); (mkMatchPair (mkSpan (mkPtok 30 "1" 26 6 75) (mkPtok 40 "," 26 17 78)) (MKDigits (mkPtok 30 "1" 26 6 75)) (mkPtok 39 ":" 26 8 76) (mkPtok 42 "stringy" 26 10 77) (Some (mkPtok 40 "," 26 17 78)))] (mkPtok 3 "}" 27 4 79)) (mkPtok 40 "," 27 6 80))); (mkFieldWithAttr (mkSpan (mkPtok 32 "@rightPad" 27 8 81) (mkPtok 40 "," 31 0 98)) [(FAPadding (mkSpan (mkPtok 32 "@rightPad" 27 8 81) (mkPtok 6 ")" 28 5 84)) (mkPaddingAttr (mkSpan (mkPtok 32 "@rightPad" 27 8 81) (mkPtok 6 ")" 28 5 84)) (mkPtok 32 "@rightPad" 27 8 81) (mkPtok 8 "(" 28 0 82) (Some (mkPtok 33 "' '" 28 1 83)) (mkPtok 6 ")" 28 5 84))); (FALengthOf (mkSpan (mkPtok 7 "@lengthOf(" 28 7 85) (mkPtok 6 ")" 28 21 87)) (mkLengthOf (mkSpan (mkPtok 7 "@lengthOf(" 28 7 85) (mkPtok 6 ")" 28 21 87)) (mkPtok 7 "@lengthOf(" 28 7 85) (mkPtok 42 "a1" 28 18 86) (mkPtok 6 ")" 28 21 87))); (FATag (mkSpan (mkPtok 9 "@tag(" 28 23 88) (mkPtok 6 ")" 30 4 90)) (mkTagAttr (mkSpan (mkPtok 9 "@tag(" 28 23 88) (mkPtok 6 ")" 30 4 90)) (mkPtok 9 "@tag(" 28 23 88) (mkPtok 30 "65535" 29 4 89) (mkPtok 6 ")" 30 4 90)))] (CheckSumField (mkSpan (mkPtok 27 "int64" 30 6 91) (mkPtok 40 "," 31 0 98)) (mkChecksumFieldDecl (mkSpan (mkPtok 27 "int64" 30 6 91) (mkPtok 40 "," 31 0 98)) (Some (TyBasic (mkSpan (mkPtok 27 "int64" 30 6 91) (mkPtok 27 "int64" 30 6 91)) (mkBasicType (mkSpan (mkPtok 27 "int64" 30 6 91) (mkPtok 27 "int64" 30 6 91)) (mkPtok 27 "int64" 30 6 91)))) (mkPtok 42 "tag" 30 12 92) (mkCalculatedFrom (mkSpan (mkPtok 5 "@calculatedFrom(" 30 15 93) (mkPtok 6 ")" 30 40 95)) (mkPtok 5 "@calculatedFrom(" 30 15 93) (mkPtok 31 """packet""" 30 31 94) (mkPtok 6 ")" 30 40 95)) (Some (mkPtok 43 "`two words`" 30 41 96)) (mkPtok 40 "," 31 0 98)))); (mkFieldWithAttr (mkSpan (mkPtok 32 "@leftPad" 31 1 99) (mkPtok 40 "," 56 6 154)) [(FAPadding (mkSpan (mkPtok 32 "@leftPad" 31 1 99) (mkPtok 6 ")" 31 15 102)) (mkPaddingAttr (mkSpan (mkPtok 32 "@leftPad" 31 1 99) (mkPtok 6 ")" 31 15 102)) (mkPtok 32 "@leftPad" 31 1 99) (mkPtok 8 "(" 31 10 100) (Some (mkPtok 33 "' '" 31 12 101)) (mkPtok 6 ")" 31 15 102))); (FAPadding (mkSpan (mkPtok 32 "@leftPad" 32 0 104) (mkPtok 6 ")" 33 4 106)) (mkPaddingAttr (mkSpan (mkPtok 32 "@leftPad" 32 0 104) (mkPtok 6 ")" 33 4 106)) (mkPtok 32 "@leftPad" 32 0 104) (mkPtok 8 "(" 32 9 105) None (mkPtok 6 ")" 33 4 106)))] (InerObjectField (mkSpan (mkPtok 42 "chars" 33 6 107) (mkPtok 40 "," 56 6 154)) None (InerObjectDecl (mkSpan (mkPtok 42 "chars" 33 6 107) (mkPtok 3 "}" 56 4 153)) (mkPtok 42 "chars" 33 6 107) (mkPtok 2 "{" 33 11 108) [(MetaField (mkSpan (mkPtok 15 "string" 34 4 109) (mkPtok 40 "," 35 17 112)) None (mkMetaDecl (mkSpan (mkPtok 15 "string" 34 4 109) (mkPtok 40 "," 35 17 112)) (TyDynamic (mkSpan (mkPtok 15 "string" 34 4 109) (mkPtok 15 "string" 34 4 109)) (mkDynamicString (mkSpan (mkPtok 15 "string" 34 4 109) (mkPtok 15 "string" 34 4 109)) (mkPtok 15 "string" 34 4 109))) (mkPtok 42 "zchar" 35 0 110) (Some (mkPtok 43 "`two words`" 35 6 111)) (mkPtok 40 "," 35 17 112))); (MatchField (mkSpan (mkPtok 38 "match" 36 4 113) (mkPtok 40 "," 55 0 152)) (mkMatchFieldDecl (mkSpan (mkPtok 38 "match" 36 4 113) (mkPtok 3 "}" 54 0 151)) (mkPtok 38 "match" 36 4 113) (mkPtok 42 "tag" 36 10 114) (mkPtok 17 "as" 36 14 115) (mkPtok 42 "u8x" 37 4 116) (mkPtok 2 "{" 37 7 117) [(mkMatchPair (mkSpan (mkPtok 30 "10" 37 9 118) (mkPtok 42 "chars" 38 1 121)) (MKDigits (mkPtok 30 "10" 37 9 118)) (mkPtok 39 ":" 38 0 120) (mkPtok 42 "chars" 38 1 121) None); (mkMatchPair (mkSpan (mkPtok 30 "10" 41 0 124) (mkPtok 40 "," 43 0 127)) (MKDigits (mkPtok 30 "10" 41 0 124)) (mkPtok 39 ":" 42 4 125) (mkPtok 42 "chars" 42 6 126) (Some (mkPtok 40 "," 43 0 127))); (mkMatchPair (mkSpan (mkPtok 18 "[" 43 2 128) (mkPtok 40 "," 53 0 149)) (MKList (mkKeyList (mkSpan (mkPtok 18 "[" 43 2 128) (mkPtok 13 "]" 51 0 146)) (mkPtok 18 "[" 43 2 128) (mkPtok 31 """// no comment""" 43 4 129) [((mkPtok 40 "," 44 4 130), (mkPtok 30 "7" 44 5 131)); ((mkPtok 40 "," 45 0 132), (mkPtok 31 """packet""" 45 2 133)); ((mkPtok 40 "," 46 0 134), (mkPtok 31 (string_of_bytes [34; 97; 9; 98; 34]%N) 46 3 135)); ((mkPtok 40 "," 46 9 136), (mkPtok 31 """""" 46 11 137)); ((mkPtok 40 "," 46 13 138), (mkPtok 30 "007" 46 15 139)); ((mkPtok 40 "," 47 4 140), (mkPtok 30 "007" 47 6 141)); ((mkPtok 40 "," 50 0 144), (mkPtok 31 """// no comment""" 50 2 145))] (mkPtok 13 "]" 51 0 146))) (mkPtok 39 ":" 52 0 147) (mkPtok 42 "MetaDataX" 52 2 148) (Some (mkPtok 40 "," 53 0 149)))] (mkPtok 3 "}" 54 0 151)) (mkPtok 40 "," 55 0 152))] (mkPtok 3 "}" 56 4 153)) (mkPtok 40 "," 56 6 154))); (mkFieldWithAttr (mkSpan (mkPtok 16 "char[]" 57 0 156) (mkPtok 40 "," 61 4 163)) [] (LengthField (mkSpan (mkPtok 16 "char[]" 57 0 156) (mkPtok 40 "," 61 4 163)) (mkLengthFieldDecl (mkSpan (mkPtok 16 "char[]" 57 0 156) (mkPtok 40 "," 61 4 163)) (Some (TyDynamic (mkSpan (mkPtok 16 "char[]" 57 0 156) (mkPtok 16 "char[]" 57 0 156)) (mkDynamicString (mkSpan (mkPtok 16 "char[]" 57 0 156) (mkPtok 16 "char[]" 57 0 156)) (mkPtok 16 "char[]" 57 0 156)))) (mkPtok 42 "u8x" 57 7 157) (mkLengthOf (mkSpan (mkPtok 7 "@lengthOf(" 57 11 158) (mkPtok 6 ")" 59 0 160)) (mkPtok 7 "@lengthOf(" 57 11 158) (mkPtok 42 "Z9_" 58 0 159) (mkPtok 6 ")" 59 0 160)) (Some (mkPtok 43 "`two words`" 59 2 161)) (mkPtok 40 "," 61 4 163)))); (mkFieldWithAttr (mkSpan (mkPtok 32 "@rightPad" 61 6 164) (mkPtok 40 "," 65 1 175)) [(FAPadding (mkSpan (mkPtok 32 "@rightPad" 61 6 164) (mkPtok 6 ")" 64 4 169)) (mkPaddingAttr (mkSpan (mkPtok 32 "@rightPad" 61 6 164) (mkPtok 6 ")" 64 4 169)) (mkPtok 32 "@rightPad" 61 6 164) (mkPtok 8 "(" 61 16 165) (Some (mkPtok 33 "' '" 64 0 168)) (mkPtok 6 ")" 64 4 169)))] (LengthField (mkSpan (mkPtok 26 "i32" 64 7 170) (mkPtok 40 "," 65 1 175)) (mkLengthFieldDecl (mkSpan (mkPtok 26 "i32" 64 7 170) (mkPtok 40 "," 65 1 175)) (Some (TyBasic (mkSpan (mkPtok 26 "i32" 64 7 170) (mkPtok 26 "i32" 64 7 170)) (mkBasicType (mkSpan (mkPtok 26 "i32" 64 7 170) (mkPtok 26 "i32" 64 7 170)) (mkPtok 26 "i32" 64 7 170)))) (mkPtok 42 "asx" 64 11 171) (mkLengthOf (mkSpan (mkPtok 7 "@lengthOf(" 64 14 172) (mkPtok 6 ")" 65 0 174)) (mkPtok 7 "@lengthOf(" 64 14 172) (mkPtok 42 "BodyLength" 64 25 173) (mkPtok 6 ")" 65 0 174)) None (mkPtok 40 "," 65 1 175)))); (mkFieldWithAttr (mkSpan (mkPtok 9 "@tag(" 65 3 176) (mkPtok 40 "," 75 23 195)) [(FATag (mkSpan (mkPtok 9 "@tag(" 65 3 176) (mkPtok 6 ")" 66 2 179)) (mkTagAttr (mkSpan (mkPtok 9 "@tag(" 65 3 176) (mkPtok 6 ")" 66 2 179)) (mkPtok 9 "@tag(" 65 3 176) (mkPtok 30 "3" 66 0 178) (mkPtok 6 ")" 66 2 179))); (FACalculatedFrom (mkSpan (mkPtok 5 "@calculatedFrom(" 66 5 180) (mkPtok 6 ")" 68 4 182)) (mkCalculatedFrom (mkSpan (mkPtok 5 "@calculatedFrom(" 66 5 180) (mkPtok 6 ")" 68 4 182)) (mkPtok 5 "@calculatedFrom(" 66 5 180) (mkPtok 31 """a\\""" 67 0 181) (mkPtok 6 ")" 68 4 182))); (FAPadding (mkSpan (mkPtok 32 "@leftPad" 71 0 185) (mkPtok 6 ")" 71 14 188)) (mkPaddingAttr (mkSpan (mkPtok 32 "@leftPad" 71 0 185) (mkPtok 6 ")" 71 14 188)) (mkPtok 32 "@leftPad" 71 0 185) (mkPtok 8 "(" 71 9 186) (Some (mkPtok 33 "'0'" 71 10 187)) (mkPtok 6 ")" 71 14 188)))] (ObjectField (mkSpan (mkPtok 36 "repeat" 73 4 190) (mkPtok 40 "," 75 23 195)) (Some (mkPtok 36 "repeat" 73 4 190)) (mkPtok 42 "Logon" 75 4 192) (Some (mkPtok 42 "Logon" 75 10 193)) (Some (mkPtok 43 "`it's`" 75 16 194)) (mkPtok 40 "," 75 23 195)))] (mkPtok 3 "}" 76 0 196)))])).
Eval vm_compute in ("<<<M787>>>" ++ check (runes_of_ascii "
options { trueish=char[ 255 ] ; }
")).
Eval vm_compute in ("<<<M819>>>" ++ check (runes_of_ascii "// " ++ [27880; 37322]%N ++ runes_of_ascii "
root packet u8x
    { @rightPad(  '0' )
// a // b
// `tick` ""quote"" 'q'
repeat char[]
Z9_ // c
, falsey
string_ `{ , }`// @lengthOf(
,match
    rootA as x_y_z {""" ++ [233]%N ++ runes_of_ascii "t" ++ [233]%N ++ runes_of_ascii """: charz ,
""" ++ [28040; 24687]%N ++ runes_of_ascii """ :len 0
: As ,
42// trailing space 
:
// 50% %s
// c
packetx
, } , } packet  int
{
    repeat	uint32
    body , @calculatedFrom(
""abc""
) //
@lengthOf(roots ) @lengthOf( u
    )char[] Packet `it's`  , }

")).
Eval vm_compute in ("<<<M851>>>" ++ check (runes_of_ascii "packet charz
// @lengthOf(
//
{ char[	3] Packet
@lengthOf(
    pack) ,
    match falsey
    as Packet{[""abc""
,0 // `tick` ""quote"" 'q'
,
    ""x y""
//x
// " ++ [128512]%N ++ runes_of_ascii " emoji
]:  crc,
    ""a\""b"" :leftPad , ""a\""b"": options1 ,
    """ ++ [28040; 24687]%N ++ runes_of_ascii """: repeatCount , 65535	:x_y_z ,} , msg_type {
u64 Logon , stringy @calculatedFrom(
    ""it's""  )
`crlf
line` , },
//x
//
@lengthOf( rootA ) char[42 // trailing space 
]
rootA `line1
line2` , }
MetaData rootA// trailing space 
{
}packet MetaDataX
    {	@lengthOf( packetx // @lengthOf(
)As
`100% of %d`	, @lengthOf( matchKey) repeat Logon// c
{  MetaDataX @lengthOf( trueish ) ,
    uint8
    asx
@calculatedFrom(""\" ++ [233]%N ++ runes_of_ascii """
), metadata
    //	t
    { uint8x ,//
match Logon
    as string_ { // 50% %s
[ 42 , 0] : float , },  } ,
uint16 falsey // " ++ [27880; 37322]%N ++ runes_of_ascii "
@lengthOf(matchKey
    )  `line1
line2`,
},
    @lengthOf( u8x	) char[ 7// a // b
] asx
    @lengthOf( // a // b
Logon )`" ++ [233]%N ++ runes_of_ascii "`
,
repeat Packet crc ,  @tag(  10 ) @leftPad ( ' ' )  @lengthOf(
As
    )
    Foo  chars ,
@calculatedFrom( """" ) i64 u /// triple
, string
f32a
`it's` ,float64 x`" ++ [28040; 24687; 31867; 22411]%N ++ runes_of_ascii "`
    ,u16 roots ,
/// triple
//	t
} options { int = 4294967296 u8x
= false ;
}
")).
Eval vm_compute in ("<<<M883>>>" ++ check (runes_of_ascii "packet
// trailing space 
/// triple
uint8x { match leftPad as float { 0123456789 // " ++ [27880; 37322]%N ++ runes_of_ascii "
: tag[ 007 ]
: Logon ,
    ""it's"" : leftPad  , """ ++ [128512]%N ++ runes_of_ascii """	: lengthOf , }
    , } // 50% %s
packet x { @tag(	42 ) // c
rootA
    // @lengthOf(
    chars , @calculatedFrom(
    ""a\""b"" )
@rightPad
    // " ++ [128512]%N ++ runes_of_ascii " emoji
    ( )@tag(  7)
    /// triple
    match A  as matchKey
{	[42 // packet A { u8 x, }
] :
    msg_type""x y""	:lengthOf ""a\\""
    :
packetx
// " ++ [27880; 37322]%N ++ runes_of_ascii "
// 50% %s
,  [""`tick`""
// " ++ [27880; 37322]%N ++ runes_of_ascii "
// `tick` ""quote"" 'q'
, ""x y"" , ""a\""b""
,	""x y"" , 00
    ,""it's""
    , 7// `tick` ""quote"" 'q'
,""""
]
    // `tick` ""quote"" 'q'
    : Logon
}, @lengthOf(
falsey )
repeat
falsey`" ++ [28040; 24687; 31867; 22411]%N ++ runes_of_ascii "`, u8x { // trailing space 
int16 lengthOf`100% of %d`
,
    match/// triple
tag
as f32a {
    7 :
x ,}
    ,	} ,
}
")).
Eval vm_compute in ("<<<M915>>>" ++ check (runes_of_ascii "packet As // `tick` ""quote"" 'q'
{ lengthOf{
crc{i16 stringy @calculatedFrom(""packet""
) , Z9_	{MetaDataX @calculatedFrom( ""a\\"" ) , }
,
repeat char[3]	Packet , /// triple
}
,
} ,	@tag(
// `tick` ""quote"" 'q'
//x
1
)	repeat Z9_
// " ++ [128512]%N ++ runes_of_ascii " emoji
// packet A { u8 x, }
, char[] // c
falsey ,}
")).
Eval vm_compute in ("<<<M947>>>" ++ check (runes_of_ascii "MetaData Logon {
    zchar[ 0123456789
]
metadata, }
")).
Eval vm_compute in ("<<<M979>>>" ++ check (runes_of_ascii "MetaData repeatCount	{
//x
// @lengthOf(
}")).
Eval vm_compute in ("<<<T979>>>" ++ terms [mkTok 37 "MetaData" 1 0 false; mkTok 42 "repeatCount" 1 9 false; mkTok 2 "{" 1 21 false; mkTok 44 "//x" 2 0 true; mkTok 44 "// @lengthOf(" 3 0 true; mkTok 3 "}" 4 0 false; mkTok 0 "<EOF>" 4 1 false] (mkPacket (mkPtok 37 "MetaData" 1 0 0) (Some (mkPtok 3 "}" 4 0 5)) [(DMeta (mkMetaDef (mkSpan (mkPtok 37 "MetaData" 1 0 0) (mkPtok 3 "}" 4 0 5)) (mkPtok 37 "MetaData" 1 0 0) (mkPtok 42 "repeatCount" 1 9 1) (mkPtok 2 "{" 1 21 2) [] (mkPtok 3 "}" 4 0 5)))])).
Eval vm_compute in ("<<<M1011>>>" ++ check (runes_of_ascii "// " ++ [128512]%N ++ runes_of_ascii " emoji
options// c
{repeatCount= '\x00'	}
// 50% %s
// packet A { u8 x, }
MetaData uint8x {	}

")).
Eval vm_compute in ("<<<M1043>>>" ++ check (runes_of_ascii "
MetaData
// c
// 50% %s
calculatedFrom {
    zchar[10
    ]charz //	t
`100% of %d` , zchar[
//
// " ++ [128512]%N ++ runes_of_ascii " emoji
7 ] chars
,
o leftPad//
`
`, Packet float `
`  , f32 chars, string u , } packet Foo {
} root
packet
leftPad	{ tag @lengthOf( As ) `crlf
line` ,
char[] As `
` , repeat char[ 007	]
    // " ++ [27880; 37322]%N ++ runes_of_ascii "
    u8x, repeat body { stringy { char
string_
, }
    ,} ,
    }
    //x
    root packet Z9_ { }
    root
    packet charz
{
    //x
    @tag(// 50% %s
255 /// triple
) repeat f32a{
zchar[ 0 ]// trailing space 
Z9_
    // `tick` ""quote"" 'q'
    @lengthOf(	Z9_ ) `tab	here` , }/// triple
, }
")).
Eval vm_compute in ("<<<M1075>>>" ++ check (runes_of_ascii "root	packet MetaDataX{@calculatedFrom( ""CRC32"" )	@calculatedFrom(	"""" ) int64 Pad //
@lengthOf(
u128 )
`" ++ [28040; 24687; 31867; 22411]%N ++ runes_of_ascii "`
    // trailing space 
    , }")).
Eval vm_compute in ("<<<M1107>>>" ++ check (runes_of_ascii "
MetaData
    _x  {
    char[ 10 // c
] A, string
    u128 ,  char[ 42 ] int, zchar[
    65535 // 50% %s
] MetaDataX ,
char[
    42
] u
    `line1
line2` , }
// @lengthOf(
")).
Eval vm_compute in ("<<<M1139>>>" ++ check (runes_of_ascii "packet
    //x
    Foo{BodyLength body`" ++ [28040; 24687; 31867; 22411]%N ++ runes_of_ascii "` , match calculatedFrom as// @lengthOf(
_x {42 ://
zchar , },leftPad
    // @lengthOf(
    @calculatedFrom(""a	b"" )  `two words` , zchar[ 3] lengthOf, repeat  float64	Pad
, repeat tag	{ char[] lengthOf `// not a comment` ,
    Foo {  uint8x
    roots ,
u8x
    @calculatedFrom(
""`tick`"" ) // `tick` ""quote"" 'q'
`100% of %d`
,
    repeat
Packet // " ++ [27880; 37322]%N ++ runes_of_ascii "
{ zchar[  0 ]As @calculatedFrom(
    // c
    """ ++ [128512]%N ++ runes_of_ascii """
    // " ++ [128512]%N ++ runes_of_ascii " emoji
    ), } , roots @calculatedFrom(""x y"" // 50% %s
),} , },_x@calculatedFrom(	""`tick`""
)
`{ , }`, // packet A { u8 x, }
@rightPad
( ' ' ) uint64 x_y_z , }")).
Eval vm_compute in ("<<<M1171>>>" ++ check (runes_of_ascii "root// 50% %s
packet falsey
{
    repeat
    zchar[  255 ]
//x
// packet A { u8 x, }
calculatedFrom
, matchKey /// triple
options1 ,
    @tag(	0 ) uint64 o ,// a // b
@tag( 255
    )
// " ++ [128512]%N ++ runes_of_ascii " emoji
//	t
repeat i64
_x, uint16
    // `tick` ""quote"" 'q'
    leftPad `// not a comment` , x , @leftPad ('0' )
repeat Z9_// `tick` ""quote"" 'q'
{
    zchar[ 1 ]
Z9_ @lengthOf( zchar ) `line1
line2` , repeat float32 u
    ,
int {
u {
    repeat
asx
Z9_ `
` , } ,
char[] metadata @lengthOf(len ) `u8 x,` , uint16 //x
i8i8
    // a // b
    , /// triple
} , } ,@calculatedFrom( ""x y"" ) Logon{
    // 50% %s
    char[ 0
] Header
, } , @lengthOf(
    i8i8)
match uint8x	as
body
    { ""it's"" :
pack , } ,@leftPad
    (
    '\x00' // 50% %s
)char[] Foo `u8 x,` , } packet leftPad { }packet float{ @tag(	3
) roots @calculatedFrom( ""1"" )
    , }")).
Eval vm_compute in ("<<<M1203>>>" ++ check (runes_of_ascii "root packet pack
// " ++ [128512]%N ++ runes_of_ascii " emoji
//x
{ Header { matchKey
@lengthOf( metadata ) `doc` ,
zchar[
    4294967296 ]  stringy ,}, }
")).
Eval vm_compute in ("<<<T1203>>>" ++ terms [mkTok 34 "root" 1 0 false; mkTok 35 "packet" 1 5 false; mkTok 42 "pack" 1 12 false; mkTok 44 (string_of_bytes [47; 47; 32; 240; 159; 152; 128; 32; 101; 109; 111; 106; 105]%N) 2 0 true; mkTok 44 "//x" 3 0 true; mkTok 2 "{" 4 0 false; mkTok 42 "Header" 4 2 false; mkTok 2 "{" 4 9 false; mkTok 42 "matchKey" 4 11 false; mkTok 7 "@lengthOf(" 5 0 false; mkTok 42 "metadata" 5 11 false; mkTok 6 ")" 5 20 false; mkTok 43 "`doc`" 5 22 false; mkTok 40 "," 5 28 false; mkTok 14 "zchar[" 6 0 false; mkTok 30 "4294967296" 7 4 false; mkTok 13 "]" 7 15 false; mkTok 42 "stringy" 7 18 false; mkTok 40 "," 7 26 false; mkTok 3 "}" 7 27 false; mkTok 40 "," 7 28 false; mkTok 3 "}" 7 30 false; mkTok 0 "<EOF>" 8 0 false] (mkPacket (mkPtok 34 "root" 1 0 0) (Some (mkPtok 3 "}" 7 30 21)) [(DPacket (mkPacketDef (mkSpan (mkPtok 34 "root" 1 0 0) (mkPtok 3 "}" 7 30 21)) (Some (mkPtok 34 "root" 1 0 0)) (mkPtok 35 "packet" 1 5 1) (mkPtok 42 "pack" 1 12 2) (mkPtok 2 "{" 4 0 5) [(mkFieldWithAttr (mkSpan (mkPtok 42 "Header" 4 2 6) (mkPtok 40 "," 7 28 20)) [] (InerObjectField (mkSpan (mkPtok 42 "Header" 4 2 6) (mkPtok 40 "," 7 28 20)) None (InerObjectDecl (mkSpan (mkPtok 42 "Header" 4 2 6) (mkPtok 3 "}" 7 27 19)) (mkPtok 42 "Header" 4 2 6) (mkPtok 2 "{" 4 9 7) [(LengthField (mkSpan (mkPtok 42 "matchKey" 4 11 8) (mkPtok 40 "," 5 28 13)) (mkLengthFieldDecl (mkSpan (mkPtok 42 "matchKey" 4 11 8) (mkPtok 40 "," 5 28 13)) None (mkPtok 42 "matchKey" 4 11 8) (mkLengthOf (mkSpan (mkPtok 7 "@lengthOf(" 5 0 9) (mkPtok 6 ")" 5 20 11)) (mkPtok 7 "@lengthOf(" 5 0 9) (mkPtok 42 "metadata" 5 11 10) (mkPtok 6 ")" 5 20 11)) (Some (mkPtok 43 "`doc`" 5 22 12)) (mkPtok 40 "," 5 28 13))); (MetaField (mkSpan (mkPtok 14 "zchar[" 6 0 14) (mkPtok 40 "," 7 26 18)) None (mkMetaDecl (mkSpan (mkPtok 14 "zchar[" 6 0 14) (mkPtok 40 "," 7 26 18)) (TyFixed (mkSpan (mkPtok 14 "zchar[" 6 0 14) (mkPtok 13 "]" 7 15 16)) (mkFixedString (mkSpan (mkPtok 14 "zchar[" 6 0 14) (mkPtok 13 "]" 7 15 16)) (mkPtok 14 "zchar[" 6 0 14) (mkPtok 30 "4294967296" 7 4 15) (mkPtok 13 "]" 7 15 16))) (mkPtok 42 "stringy" 7 18 17) None (mkPtok 40 "," 7 26 18)))] (mkPtok 3 "}" 7 27 19)) (mkPtok 40 "," 7 28 20)))] (mkPtok 3 "}" 7 30 21)))])).
Eval vm_compute in ("<<<M1235>>>" ++ check (runes_of_ascii "options	{  x
= ""{,}""
} packet
charz { @calculatedFrom(
    """ ++ [28040; 24687]%N ++ runes_of_ascii """
) packetx
,
}
options
{ } packet asx
{ repeat
    MetaDataX // " ++ [27880; 37322]%N ++ runes_of_ascii "
leftPad
    , }root
//
/// triple
packet Header {lengthOf
{ string_ float  ,
leftPad , float32
roots
    ,repeat i8i8 { // @lengthOf(
calculatedFrom lengthOf ,
    zchar[ 0
    // @lengthOf(
    ] calculatedFrom @calculatedFrom(  ""\n"" ) ,
roots
    { char[0123456789	]roots `doc`  , } // " ++ [27880; 37322]%N ++ runes_of_ascii "
, string tag @calculatedFrom(  ""a	b"" ) ,} // trailing space 
,
    } , string_ repeatCount ,i8 // " ++ [128512]%N ++ runes_of_ascii " emoji
zchar
    @lengthOf( i64_ ),	T `// not a comment` , @lengthOf(
x_y_z
) match o as chars { [ 007
,
10 ,
""a\\"" , 00 ,""`tick`"" , 007 ,	""{,}"" ,// a // b
""a\\""
    ]
    :
// 50% %s
// " ++ [128512]%N ++ runes_of_ascii " emoji
lengthOf ,
}
    ,
calculatedFrom stringy , @lengthOf( i8i8) @tag( 3)
//
//	t
chars
{
x_y_z@calculatedFrom(
""it's"") ,
string
i64_	, int32
zchar, u8x , } , matchKey trueish	, // " ++ [128512]%N ++ runes_of_ascii " emoji
@calculatedFrom(""" ++ [233]%N ++ runes_of_ascii "t" ++ [233]%N ++ runes_of_ascii """) char[] Header
, match options1// trailing space 
as Foo  { 3
: zchar
, 1
: crc, }
    ,} //	t")).
Eval vm_compute in ("<<<M1267>>>" ++ check (runes_of_ascii "root packet f32a
    {@tag( 1
)@lengthOf( trueish	) @tag( 4294967296)
u8x
`{ , }`,
    }
")).
Eval vm_compute in ("<<<M1299>>>" ++ check (runes_of_ascii "packet //	t
len
{  @leftPad( ' ' )	string_ f32a
,
// " ++ [128512]%N ++ runes_of_ascii " emoji
// 50% %s
}
//x
// @lengthOf(
MetaData As
{char[
    42 ]  string_ `say ""hi""`	,
i8 Logon,MetaDataX f32a,} options{  pack =
    zchar[42 ]; x_y_z = zchar[ 10 ] ;
int=
    ""1"" ; x_y_z
=
// `tick` ""quote"" 'q'
// `tick` ""quote"" 'q'
""packet"" matchKey =' ' }
")).
Eval vm_compute in ("<<<M1331>>>" ++ check (runes_of_ascii "packet _x
    {string lengthOf  `two words` , @rightPad  (	)uint32 calculatedFrom , @lengthOf(
float )
    len leftPad ,i32 A ,
@lengthOf( i64_
    )	options1 @lengthOf(u) `" ++ [28040; 24687; 31867; 22411]%N ++ runes_of_ascii "`
// 50% %s
// 50% %s
,@tag( 1
    )
@tag(//
7 ) @calculatedFrom( ""a	b"" )match Z9_ as
crc{ [65535
    , 255
,
    """"
    ,
    4294967296
    ,
    007 ] : u128 ,
42 :int , [ 0  ]: i8i8 """ ++ [128512]%N ++ runes_of_ascii """
    // c
    :	Foo ,
[ 4294967296
] :float , 255// packet A { u8 x, }
: Foo
, } , options1`it's`
, char[] matchKey  @calculatedFrom(	""1"" )  `
`	, uint16
    a1`it's` , }

")).
Eval vm_compute in ("<<<M1363>>>" ++ check (runes_of_ascii "packet x_y_z
    {uint16 asx
    ,  } 	 ")).
Eval vm_compute in ("<<<M1395>>>" ++ check (runes_of_ascii "root packet packetx {}
")).
Eval vm_compute in ("<<<M1427>>>" ++ check (runes_of_ascii "
packet BodyLength  {
match
// " ++ [128512]%N ++ runes_of_ascii " emoji
// trailing space 
i64_ as asx
{ [10,
    ""\" ++ [233]%N ++ runes_of_ascii """  , 0 , 1, ""CRC32"" ,0, 007,""" ++ [233]%N ++ runes_of_ascii "t" ++ [233]%N ++ runes_of_ascii """
    ] :
// c
// packet A { u8 x, }
options1 , 007 :trueish, 00:  metadata ,
    [ ""it's""]
:
    msg_type
// `tick` ""quote"" 'q'
/// triple
,},
    @tag( 65535 )  repeat string repeatCount //
, @lengthOf( tag
) @leftPad ( '\x00'	)
@lengthOf( A	)  i16 asx@lengthOf(
    // c
    string_ )
`
` ,
    @calculatedFrom(""// no comment""
) match packetx
as
x_y_z
{  [ 007
, 255 , ""x y""	, // trailing space 
42 ]
    : i64_ // " ++ [128512]%N ++ runes_of_ascii " emoji
, """ ++ [233]%N ++ runes_of_ascii "t" ++ [233]%N ++ runes_of_ascii """
    :
f32a [
""packet"" // trailing space 
, ""a\\"" , 7,""it's"" ]: rootA ""a\""b"" : MetaDataX ,	255 : i64_  ""CRC32""
:repeatCount ,} ,@tag( 0123456789
)@rightPad ( ' ') @leftPad( '\x00'// `tick` ""quote"" 'q'
)
roots `100% of %d` ,repeat
x {
repeat char[]  pack ,
    char[  00
] Packet // @lengthOf(
@calculatedFrom( ""\" ++ [233]%N ++ runes_of_ascii """ )
    `two words`,// c
MetaDataX , }, match
    u as zchar { 65535 : A , [00
, 4294967296
// `tick` ""quote"" 'q'
//x
,""// no comment"" , 65535,""a\""b""  , 255
, 0 , 7 ]
    : a1 , [ ""{,}"" ]
: Header ,}
, @rightPad ( ' ' ) match i64_ as Z9_ { [ """ ++ [128512]%N ++ runes_of_ascii """ ,
    ""// no comment"" , ""packet""
, 255 , 65535	] :  stringy , [
""""
    , // @lengthOf(
007
    , // c
""it's""// " ++ [27880; 37322]%N ++ runes_of_ascii "
] : Z9_  [ """ ++ [128512]%N ++ runes_of_ascii """ ] : calculatedFrom
, 1 :T ,} , @tag( 0123456789
    )@calculatedFrom(
""{,}"" )
@leftPad// trailing space 
( )
repeat i8i8 i8i8
    ,string
    Z9_ ,
    }")).
Eval vm_compute in ("<<<T1427>>>" ++ terms [mkTok 35 "packet" 2 0 false; mkTok 42 "BodyLength" 2 7 false; mkTok 2 "{" 2 19 false; mkTok 38 "match" 3 0 false; mkTok 44 (string_of_bytes [47; 47; 32; 240; 159; 152; 128; 32; 101; 109; 111; 106; 105]%N) 4 0 true; mkTok 44 "// trailing space " 5 0 true; mkTok 42 "i64_" 6 0 false; mkTok 17 "as" 6 5 false; mkTok 42 "asx" 6 8 false; mkTok 2 "{" 7 0 false; mkTok 18 "[" 7 2 false; mkTok 30 "10" 7 3 false; mkTok 40 "," 7 5 false; mkTok 31 (string_of_bytes [34; 92; 195; 169; 34]%N) 8 4 false; mkTok 40 "," 8 10 false; mkTok 30 "0" 8 12 false; mkTok 40 "," 8 14 false; mkTok 30 "1" 8 16 false; mkTok 40 "," 8 17 false; mkTok 31 """CRC32""" 8 19 false; mkTok 40 "," 8 27 false; mkTok 30 "0" 8 28 false; mkTok 40 "," 8 29 false; mkTok 30 "007" 8 31 false; mkTok 40 "," 8 34 false; mkTok 31 (string_of_bytes [34; 195; 169; 116; 195; 169; 34]%N) 8 35 false; mkTok 13 "]" 9 4 false; mkTok 39 ":" 9 6 false; mkTok 44 "// c" 10 0 true; mkTok 44 "// packet A { u8 x, }" 11 0 true; mkTok 42 "options1" 12 0 false; mkTok 40 "," 12 9 false; mkTok 30 "007" 12 11 false; mkTok 39 ":" 12 15 false; mkTok 42 "trueish" 12 16 false; mkTok 40 "," 12 23 false; mkTok 30 "00" 12 25 false; mkTok 39 ":" 12 27 false; mkTok 42 "metadata" 12 30 false; mkTok 40 "," 12 39 false; mkTok 18 "[" 13 4 false; mkTok 31 """it's""" 13 6 false; mkTok 13 "]" 13 12 false; mkTok 39 ":" 14 0 false; mkTok 42 "msg_type" 15 4 false; mkTok 44 "// `tick` ""quote"" 'q'" 16 0 true; mkTok 44 "/// triple" 17 0 true; mkTok 40 "," 18 0 false; mkTok 3 "}" 18 1 false; mkTok 40 "," 18 2 false; mkTok 9 "@tag(" 19 4 false; mkTok 30 "65535" 19 10 false; mkTok 6 ")" 19 16 false; mkTok 36 "repeat" 19 19 false; mkTok 15 "string" 19 26 false; mkTok 42 "repeatCount" 19 33 false; mkTok 44 "//" 19 45 true; mkTok 40 "," 20 0 false; mkTok 7 "@lengthOf(" 20 2 false; mkTok 42 "tag" 20 13 false; mkTok 6 ")" 21 0 false; mkTok 32 "@leftPad" 21 2 false; mkTok 8 "(" 21 11 false; mkTok 33 "'\x00'" 21 13 false; mkTok 6 ")" 21 20 false; mkTok 7 "@lengthOf(" 22 0 false; mkTok 42 "A" 22 11 false; mkTok 6 ")" 22 13 false; mkTok 25 "i16" 22 16 false; mkTok 42 "asx" 22 20 false; mkTok 7 "@lengthOf(" 22 23 false; mkTok 44 "// c" 23 4 true; mkTok 42 "string_" 24 4 false; mkTok 6 ")" 24 12 false; mkTok 43 (string_of_bytes [96; 10; 96]%N) 25 0 false; mkTok 40 "," 26 2 false; mkTok 5 "@calculatedFrom(" 27 4 false; mkTok 31 """// no comment""" 27 20 false; mkTok 6 ")" 28 0 false; mkTok 38 "match" 28 2 false; mkTok 42 "packetx" 28 8 false; mkTok 17 "as" 29 0 false; mkTok 42 "x_y_z" 30 0 false; mkTok 2 "{" 31 0 false; mkTok 18 "[" 31 3 false; mkTok 30 "007" 31 5 false; mkTok 40 "," 32 0 false; mkTok 30 "255" 32 2 false; mkTok 40 "," 32 6 false; mkTok 31 """x y""" 32 8 false; mkTok 40 "," 32 14 false; mkTok 44 "// trailing space " 32 16 true; mkTok 30 "42" 33 0 false; mkTok 13 "]" 33 3 false; mkTok 39 ":" 34 4 false; mkTok 42 "i64_" 34 6 false; mkTok 44 (string_of_bytes [47; 47; 32; 240; 159; 152; 128; 32; 101; 109; 111; 106; 105]%N) 34 11 true; mkTok 40 "," 35 0 false; mkTok 31 (string_of_bytes [34; 195; 169; 116; 195; 169; 34]%N) 35 2 false; mkTok 39 ":" 36 4 false; mkTok 42 "f32a" 37 0 false; mkTok 18 "[" 37 5 false; mkTok 31 """packet""" 38 0 false; mkTok 44 "// trailing space " 38 9 true; mkTok 40 "," 39 0 false; mkTok 31 """a\\""" 39 2 false; mkTok 40 "," 39 8 false; mkTok 30 "7" 39 10 false; mkTok 40 "," 39 11 false; mkTok 31 """it's""" 39 12 false; mkTok 13 "]" 39 19 false; mkTok 39 ":" 39 20 false; mkTok 42 "rootA" 39 22 false; mkTok 31 """a\""b""" 39 28 false; mkTok 39 ":" 39 35 false; mkTok 42 "MetaDataX" 39 37 false; mkTok 40 "," 39 47 false; mkTok 30 "255" 39 49 false; mkTok 39 ":" 39 53 false; mkTok 42 "i64_" 39 55 false; mkTok 31 """CRC32""" 39 61 false; mkTok 39 ":" 40 0 false; mkTok 42 "repeatCount" 40 1 false; mkTok 40 "," 40 13 false; mkTok 3 "}" 40 14 false; mkTok 40 "," 40 16 false; mkTok 9 "@tag(" 40 17 false; mkTok 30 "0123456789" 40 23 false; mkTok 6 ")" 41 0 false; mkTok 32 "@rightPad" 41 1 false; mkTok 8 "(" 41 11 false; mkTok 33 "' '" 41 13 false; mkTok 6 ")" 41 16 false; mkTok 32 "@leftPad" 41 18 false; mkTok 8 "(" 41 26 false; mkTok 33 "'\x00'" 41 28 false; mkTok 44 "// `tick` ""quote"" 'q'" 41 34 true; mkTok 6 ")" 42 0 false; mkTok 42 "roots" 43 0 false; mkTok 43 "`100% of %d`" 43 6 false; mkTok 40 "," 43 19 false; mkTok 36 "repeat" 43 20 false; mkTok 42 "x" 44 0 false; mkTok 2 "{" 44 2 false; mkTok 36 "repeat" 45 0 false; mkTok 16 "char[]" 45 7 false; mkTok 42 "pack" 45 15 false; mkTok 40 "," 45 20 false; mkTok 12 "char[" 46 4 false; mkTok 30 "00" 46 11 false; mkTok 13 "]" 47 0 false; mkTok 42 "Packet" 47 2 false; mkTok 44 "// @lengthOf(" 47 9 true; mkTok 5 "@calculatedFrom(" 48 0 false; mkTok 31 (string_of_bytes [34; 92; 195; 169; 34]%N) 48 17 false; mkTok 6 ")" 48 22 false; mkTok 43 "`two words`" 49 4 false; mkTok 40 "," 49 15 false; mkTok 44 "// c" 49 16 true; mkTok 42 "MetaDataX" 50 0 false; mkTok 40 "," 50 10 false; mkTok 3 "}" 50 12 false; mkTok 40 "," 50 13 false; mkTok 38 "match" 50 15 false; mkTok 42 "u" 51 4 false; mkTok 17 "as" 51 6 false; mkTok 42 "zchar" 51 9 false; mkTok 2 "{" 51 15 false; mkTok 30 "65535" 51 17 false; mkTok 39 ":" 51 23 false; mkTok 42 "A" 51 25 false; mkTok 40 "," 51 27 false; mkTok 18 "[" 51 29 false; mkTok 30 "00" 51 30 false; mkTok 40 "," 52 0 false; mkTok 30 "4294967296" 52 2 false; mkTok 44 "// `tick` ""quote"" 'q'" 53 0 true; mkTok 44 "//x" 54 0 true; mkTok 40 "," 55 0 false; mkTok 31 """// no comment""" 55 1 false; mkTok 40 "," 55 17 false; mkTok 30 "65535" 55 19 false; mkTok 40 "," 55 24 false; mkTok 31 """a\""b""" 55 25 false; mkTok 40 "," 55 33 false; mkTok 30 "255" 55 35 false; mkTok 40 "," 56 0 false; mkTok 30 "0" 56 2 false; mkTok 40 "," 56 4 false; mkTok 30 "7" 56 6 false; mkTok 13 "]" 56 8 false; mkTok 39 ":" 57 4 false; mkTok 42 "a1" 57 6 false; mkTok 40 "," 57 9 false; mkTok 18 "[" 57 11 false; mkTok 31 """{,}""" 57 13 false; mkTok 13 "]" 57 19 false; mkTok 39 ":" 58 0 false; mkTok 42 "Header" 58 2 false; mkTok 40 "," 58 9 false; mkTok 3 "}" 58 10 false; mkTok 40 "," 59 0 false; mkTok 32 "@rightPad" 59 2 false; mkTok 8 "(" 59 12 false; mkTok 33 "' '" 59 14 false; mkTok 6 ")" 59 18 false; mkTok 38 "match" 59 20 false; mkTok 42 "i64_" 59 26 false; mkTok 17 "as" 59 31 false; mkTok 42 "Z9_" 59 34 false; mkTok 2 "{" 59 38 false; mkTok 18 "[" 59 40 false; mkTok 31 (string_of_bytes [34; 240; 159; 152; 128; 34]%N) 59 42 false; mkTok 40 "," 59 46 false; mkTok 31 """// no comment""" 60 4 false; mkTok 40 "," 60 20 false; mkTok 31 """packet""" 60 22 false; mkTok 40 "," 61 0 false; mkTok 30 "255" 61 2 false; mkTok 40 "," 61 6 false; mkTok 30 "65535" 61 8 false; mkTok 13 "]" 61 14 false; mkTok 39 ":" 61 16 false; mkTok 42 "stringy" 61 19 false; mkTok 40 "," 61 27 false; mkTok 18 "[" 61 29 false; mkTok 31 """""" 62 0 false; mkTok 40 "," 63 4 false; mkTok 44 "// @lengthOf(" 63 6 true; mkTok 30 "007" 64 0 false; mkTok 40 "," 65 4 false; mkTok 44 "// c" 65 6 true; mkTok 31 """it's""" 66 0 false; mkTok 44 (string_of_bytes [47; 47; 32; 230; 179; 168; 233; 135; 138]%N) 66 6 true; mkTok 13 "]" 67 0 false; mkTok 39 ":" 67 2 false; mkTok 42 "Z9_" 67 4 false; mkTok 18 "[" 67 9 false; mkTok 31 (string_of_bytes [34; 240; 159; 152; 128; 34]%N) 67 11 false; mkTok 13 "]" 67 15 false; mkTok 39 ":" 67 17 false; mkTok 42 "calculatedFrom" 67 19 false; mkTok 40 "," 68 0 false; mkTok 30 "1" 68 2 false; mkTok 39 ":" 68 4 false; mkTok 42 "T" 68 5 false; mkTok 40 "," 68 7 false; mkTok 3 "}" 68 8 false; mkTok 40 "," 68 10 false; mkTok 9 "@tag(" 68 12 false; mkTok 30 "0123456789" 68 18 false; mkTok 6 ")" 69 4 false; mkTok 5 "@calculatedFrom(" 69 5 false; mkTok 31 """{,}""" 70 0 false; mkTok 6 ")" 70 6 false; mkTok 32 "@leftPad" 71 0 false; mkTok 44 "// trailing space " 71 8 true; mkTok 8 "(" 72 0 false; mkTok 6 ")" 72 2 false; mkTok 36 "repeat" 73 0 false; mkTok 42 "i8i8" 73 7 false; mkTok 42 "i8i8" 73 12 false; mkTok 40 "," 74 4 false; mkTok 15 "string" 74 5 false; mkTok 42 "Z9_" 75 4 false; mkTok 40 "," 75 8 false; mkTok 3 "}" 76 4 false; mkTok 0 "<EOF>" 76 5 false] (mkPacket (mkPtok 35 "packet" 2 0 0) (Some (mkPtok 3 "}" 76 4 266)) [(DPacket (mkPacketDef (mkSpan (mkPtok 35 "packet" 2 0 0) (mkPtok 3 "}" 76 4 266)) None (mkPtok 35 "packet" 2 0 0) (mkPtok 42 "BodyLength" 2 7 1) (mkPtok 2 "{" 2 19 2) [(mkFieldWithAttr (mkSpan (mkPtok 38 "match" 3 0 3) (mkPtok 40 "," 18 2 49)) [] (MatchField (mkSpan (mkPtok 38 "match" 3 0 3) (mkPtok 40 "," 18 2 49)) (mkMatchFieldDecl (mkSpan (mkPtok 38 "match" 3 0 3) (mkPtok 3 "}" 18 1 48)) (mkPtok 38 "match" 3 0 3) (mkPtok 42 "i64_" 6 0 6) (mkPtok 17 "as" 6 5 7) (mkPtok 42 "asx" 6 8 8) (mkPtok 2 "{" 7 0 9) [(mkMatchPair (mkSpan (mkPtok 18 "[" 7 2 10) (mkPtok 40 "," 12 9 31)) (MKList (mkKeyList (mkSpan (mkPtok 18 "[" 7 2 10) (mkPtok 13 "]" 9 4 26)) (mkPtok 18 "[" 7 2 10) (mkPtok 30 "10" 7 3 11) [((mkPtok 40 "," 7 5 12), (mkPtok 31 (string_of_bytes [34; 92; 195; 169; 34]%N) 8 4 13)); ((mkPtok 40 "," 8 10 14), (mkPtok 30 "0" 8 12 15)); ((mkPtok 40 "," 8 14 16), (mkPtok 30 "1" 8 16 17)); ((mkPtok 40 "," 8 17 18), (mkPtok 31 """CRC32""" 8 19 19)); ((mkPtok 40 "," 8 27 20), (mkPtok 30 "0" 8 28 21)); ((mkPtok 40 "," 8 29 22), (mkPtok 30 "007" 8 31 23)); ((mkPtok 40 "," 8 34 24), (mkPtok 31 (string_of_bytes [34; 195; 169; 116; 195; 169; 34]%N) 8 35 25))] (mkPtok 13 "]" 9 4 26))) (mkPtok 39 ":" 9 6 27) (mkPtok 42 "options1" 12 0 30) (Some (mkPtok 40 "," 12 9 31))); (mkMatchPair (mkSpan (mkPtok 30 "007" 12 11 32) (mkPtok 40 "," 12 23 35)) (MKDigits (mkPtok 30 "007" 12 11 32)) (mkPtok 39 ":" 12 15 33) (mkPtok 42 "trueish" 12 16 34) (Some (mkPtok 40 "," 12 23 35))); (mkMatchPair (mkSpan (mkPtok 30 "00" 12 25 36) (mkPtok 40 "," 12 39 39)) (MKDigits (mkPtok 30 "00" 12 25 36)) (mkPtok 39 ":" 12 27 37) (mkPtok 42 "metadata" 12 30 38) (Some (mkPtok 40 "," 12 39 39))); (mkMatchPair (mkSpan (mkPtok 18 "[" 13 4 40) (mkPtok 40 "," 18 0 47)) (MKList (mkKeyList (mkSpan (mkPtok 18 "[" 13 4 40) (mkPtok 13 "]" 13 12 42)) (mkPtok 18 "[" 13 4 40) (mkPtok 31 """it's""" 13 6 41) [] (mkPtok 13 "]" 13 12 42))) (mkPtok 39 ":" 14 0 43) (mkPtok 42 "msg_type" 15 4 44) (Some (mkPtok 40 "," 18 0 47)))] (mkPtok 3 "}" 18 1 48)) (mkPtok 40 "," 18 2 49))); (mkFieldWithAttr (mkSpan (mkPtok 9 "@tag(" 19 4 50) (mkPtok 40 "," 20 0 57)) [(FATag (mkSpan (mkPtok 9 "@tag(" 19 4 50) (mkPtok 6 ")" 19 16 52)) (mkTagAttr (mkSpan (mkPtok 9 "@tag(" 19 4 50) (mkPtok 6 ")" 19 16 52)) (mkPtok 9 "@tag(" 19 4 50) (mkPtok 30 "65535" 19 10 51) (mkPtok 6 ")" 19 16 52)))] (MetaField (mkSpan (mkPtok 36 "repeat" 19 19 53) (mkPtok 40 "," 20 0 57)) (Some (mkPtok 36 "repeat" 19 19 53)) (mkMetaDecl (mkSpan (mkPtok 15 "string" 19 26 54) (mkPtok 40 "," 20 0 57)) (TyDynamic (mkSpan (mkPtok 15 "string" 19 26 54) (mkPtok 15 "string" 19 26 54)) (mkDynamicString (mkSpan (mkPtok 15 "string" 19 26 54) (mkPtok 15 "string" 19 26 54)) (mkPtok 15 "string" 19 26 54))) (mkPtok 42 "repeatCount" 19 33 55) None (mkPtok 40 "," 20 0 57)))); (mkFieldWithAttr (mkSpan (mkPtok 7 "@lengthOf(" 20 2 58) (mkPtok 40 "," 26 2 75)) [(FALengthOf (mkSpan (mkPtok 7 "@lengthOf(" 20 2 58) (mkPtok 6 ")" 21 0 60)) (mkLengthOf (mkSpan (mkPtok 7 "@lengthOf(" 20 2 58) (mkPtok 6 ")" 21 0 60)) (mkPtok 7 "@lengthOf(" 20 2 58) (mkPtok 42 "tag" 20 13 59) (mkPtok 6 ")" 21 0 60))); (FAPadding (mkSpan (mkPtok 32 "@leftPad" 21 2 61) (mkPtok 6 ")" 21 20 64)) (mkPaddingAttr (mkSpan (mkPtok 32 "@leftPad" 21 2 61) (mkPtok 6 ")" 21 20 64)) (mkPtok 32 "@leftPad" 21 2 61) (mkPtok 8 "(" 21 11 62) (Some (mkPtok 33 "'\x00'" 21 13 63)) (mkPtok 6 ")" 21 20 64))); (FALengthOf (mkSpan (mkPtok 7 "@lengthOf(" 22 0 65) (mkPtok 6 ")" 22 13 67)) (mkLengthOf (mkSpan (mkPtok 7 "@lengthOf(" 22 0 65) (mkPtok 6 ")" 22 13 67)) (mkPtok 7 "@lengthOf(" 22 0 65) (mkPtok 42 "A" 22 11 66) (mkPtok 6 ")" 22 13 67)))] (LengthField (mkSpan (mkPtok 25 "i16" 22 16 68) (mkPtok 40 "," 26 2 75)) (mkLengthFieldDecl (mkSpan (mkPtok 25 "i16" 22 16 68) (mkPtok 40 "," 26 2 75)) (Some (TyBasic (mkSpan (mkPtok 25 "i16" 22 16 68) (mkPtok 25 "i16" 22 16 68)) (mkBasicType (mkSpan (mkPtok 25 "i16" 22 16 68) (mkPtok 25 "i16" 22 16 68)) (mkPtok 25 "i16" 22 16 68)))) (mkPtok 42 "asx" 22 20 69) (mkLengthOf (mkSpan (mkPtok 7 "@lengthOf(" 22 23 70) (mkPtok 6 ")" 24 12 73)) (mkPtok 7 "@lengthOf(" 22 23 70) (mkPtok 42 "string_" 24 4 72) (mkPtok 6 ")" 24 12 73)) (Some (mkPtok 43 (string_of_bytes [96; 10; 96]%N) 25 0 74)) (mkPtok 40 "," 26 2 75)))); (mkFieldWithAttr (mkSpan (mkPtok 5 "@calculatedFrom(" 27 4 76) (mkPtok 40 "," 40 16 125)) [(FACalculatedFrom (mkSpan (mkPtok 5 "@calculatedFrom(" 27 4 76) (mkPtok 6 ")" 28 0 78)) (mkCalculatedFrom (mkSpan (mkPtok 5 "@calculatedFrom(" 27 4 76) (mkPtok 6 ")" 28 0 78)) (mkPtok 5 "@calculatedFrom(" 27 4 76) (mkPtok 31 """// no comment""" 27 20 77) (mkPtok 6 ")" 28 0 78)))] (MatchField (mkSpan (mkPtok 38 "match" 28 2 79) (mkPtok 40 "," 40 16 125)) (mkMatchFieldDecl (mkSpan (mkPtok 38 "match" 28 2 79) (mkPtok 3 "}" 40 14 124)) (mkPtok 38 "match" 28 2 79) (mkPtok 42 "packetx" 28 8 80) (mkPtok 17 "as" 29 0 81) (mkPtok 42 "x_y_z" 30 0 82) (mkPtok 2 "{" 31 0 83) [(mkMatchPair (mkSpan (mkPtok 18 "[" 31 3 84) (mkPtok 40 "," 35 0 97)) (MKList (mkKeyList (mkSpan (mkPtok 18 "[" 31 3 84) (mkPtok 13 "]" 33 3 93)) (mkPtok 18 "[" 31 3 84) (mkPtok 30 "007" 31 5 85) [((mkPtok 40 "," 32 0 86), (mkPtok 30 "255" 32 2 87)); ((mkPtok 40 "," 32 6 88), (mkPtok 31 """x y""" 32 8 89)); ((mkPtok 40 "," 32 14 90), (mkPtok 30 "42" 33 0 92))] (mkPtok 13 "]" 33 3 93))) (mkPtok 39 ":" 34 4 94) (mkPtok 42 "i64_" 34 6 95) (Some (mkPtok 40 "," 35 0 97))); (mkMatchPair (mkSpan (mkPtok 31 (string_of_bytes [34; 195; 169; 116; 195; 169; 34]%N) 35 2 98) (mkPtok 42 "f32a" 37 0 100)) (MKString (mkPtok 31 (string_of_bytes [34; 195; 169; 116; 195; 169; 34]%N) 35 2 98)) (mkPtok 39 ":" 36 4 99) (mkPtok 42 "f32a" 37 0 100) None); (mkMatchPair (mkSpan (mkPtok 18 "[" 37 5 101) (mkPtok 42 "rootA" 39 22 112)) (MKList (mkKeyList (mkSpan (mkPtok 18 "[" 37 5 101) (mkPtok 13 "]" 39 19 110)) (mkPtok 18 "[" 37 5 101) (mkPtok 31 """packet""" 38 0 102) [((mkPtok 40 "," 39 0 104), (mkPtok 31 """a\\""" 39 2 105)); ((mkPtok 40 "," 39 8 106), (mkPtok 30 "7" 39 10 107)); ((mkPtok 40 "," 39 11 108), (mkPtok 31 """it's""" 39 12 109))] (mkPtok 13 "]" 39 19 110))) (mkPtok 39 ":" 39 20 111) (mkPtok 42 "rootA" 39 22 112) None); (mkMatchPair (mkSpan (mkPtok 31 """a\""b""" 39 28 113) (mkPtok 40 "," 39 47 116)) (MKString (mkPtok 31 """a\""b""" 39 28 113)) (mkPtok 39 ":" 39 35 114) (mkPtok 42 "MetaDataX" 39 37 115) (Some (mkPtok 40 "," 39 47 116))); (mkMatchPair (mkSpan (mkPtok 30 "255" 39 49 117) (mkPtok 42 "i64_" 39 55 119)) (MKDigits (mkPtok 30 "255" 39 49 117)) (mkPtok 39 ":" 39 53 118) (mkPtok 42 "i64_" 39 55 119) None); (mkMatchPair (mkSpan (mkPtok 31 """CRC32""" 39 61 120) (mkPtok 40 "," 40 13 123)) (MKString (mkPtok 31 """CRC32""" 39 61 120)) (mkPtok 39 ":" 40 0 121) (mkPtok 42 "repeatCount" 40 1 122) (Some (mkPtok 40 "," 40 13 123)))] (mkPtok 3 "}" 40 14 124)) (mkPtok 40 "," 40 16 125))); (mkFieldWithAttr (mkSpan (mkPtok 9 "@tag(" 40 17 126) (mkPtok 40 "," 43 19 140)) [(FATag (mkSpan (mkPtok 9 "@tag(" 40 17 126) (mkPtok 6 ")" 41 0 128)) (mkTagAttr (mkSpan (mkPtok 9 "@tag(" 40 17 126) (mkPtok 6 ")" 41 0 128)) (mkPtok 9 "@tag(" 40 17 126) (mkPtok 30 "0123456789" 40 23 127) (mkPtok 6 ")" 41 0 128))); (FAPadding (mkSpan (mkPtok 32 "@rightPad" 41 1 129) (mkPtok 6 ")" 41 16 132)) (mkPaddingAttr (mkSpan (mkPtok 32 "@rightPad" 41 1 129) (mkPtok 6 ")" 41 16 132)) (mkPtok 32 "@rightPad" 41 1 129) (mkPtok 8 "(" 41 11 130) (Some (mkPtok 33 "' '" 41 13 131)) (mkPtok 6 ")" 41 16 132))); (FAPadding (mkSpan (mkPtok 32 "@leftPad" 41 18 133) (mkPtok 6 ")" 42 0 137)) (mkPaddingAttr (mkSpan (mkPtok 32 "@leftPad" 41 18 133) (mkPtok 6 ")" 42 0 137)) (mkPtok 32 "@leftPad" 41 18 133) (mkPtok 8 "(" 41 26 134) (Some (mkPtok 33 "'\x00'" 41 28 135)) (mkPtok 6 ")" 42 0 137)))] (ObjectField (mkSpan (mkPtok 42 "roots" 43 0 138) (mkPtok 40 "," 43 19 140)) None (mkPtok 42 "roots" 43 0 138) None (Some (mkPtok 43 "`100% of %d`" 43 6 139)) (mkPtok 40 "," 43 19 140))); (mkFieldWithAttr (mkSpan (mkPtok 36 "repeat" 43 20 141) (mkPtok 40 "," 50 13 162)) [] (InerObjectField (mkSpan (mkPtok 36 "repeat" 43 20 141) (mkPtok 40 "," 50 13 162)) (Some (mkPtok 36 "repeat" 43 20 141)) (InerObjectDecl (mkSpan (mkPtok 42 "x" 44 0 142) (mkPtok 3 "}" 50 12 161)) (mkPtok 42 "x" 44 0 142) (mkPtok 2 "{" 44 2 143) [(MetaField (mkSpan (mkPtok 36 "repeat" 45 0 144) (mkPtok 40 "," 45 20 147)) (Some (mkPtok 36 "repeat" 45 0 144)) (mkMetaDecl (mkSpan (mkPtok 16 "char[]" 45 7 145) (mkPtok 40 "," 45 20 147)) (TyDynamic (mkSpan (mkPtok 16 "char[]" 45 7 145) (mkPtok 16 "char[]" 45 7 145)) (mkDynamicString (mkSpan (mkPtok 16 "char[]" 45 7 145) (mkPtok 16 "char[]" 45 7 145)) (mkPtok 16 "char[]" 45 7 145))) (mkPtok 42 "pack" 45 15 146) None (mkPtok 40 "," 45 20 147))); (CheckSumField (mkSpan (mkPtok 12 "char[" 46 4 148) (mkPtok 40 "," 49 15 157)) (mkChecksumFieldDecl (mkSpan (mkPtok 12 "char[" 46 4 148) (mkPtok 40 "," 49 15 157)) (Some (TyFixed (mkSpan (mkPtok 12 "char[" 46 4 148) (mkPtok 13 "]" 47 0 150)) (mkFixedString (mkSpan (mkPtok 12 "char[" 46 4 148) (mkPtok 13 "]" 47 0 150)) (mkPtok 12 "char[" 46 4 148) (mkPtok 30 "00" 46 11 149) (mkPtok 13 "]" 47 0 150)))) (mkPtok 42 "Packet" 47 2 151) (mkCalculatedFrom (mkSpan (mkPtok 5 "@calculatedFrom(" 48 0 153) (mkPtok 6 ")" 48 22 155)) (mkPtok 5 "@calculatedFrom(" 48 0 153) (mkPtok 31 (string_of_bytes [34; 92; 195; 169; 34]%N) 48 17 154) (mkPtok 6 ")" 48 22 155)) (Some (mkPtok 43 "`two words`" 49 4 156)) (mkPtok 40 "," 49 15 157))); (ObjectField (mkSpan (mkPtok 42 "MetaDataX" 50 0 159) (mkPtok 40 "," 50 10 160)) None (mkPtok 42 "MetaDataX" 50 0 159) None None (mkPtok 40 "," 50 10 160))] (mkPtok 3 "}" 50 12 161)) (mkPtok 40 "," 50 13 162))); (mkFieldWithAttr (mkSpan (mkPtok 38 "match" 50 15 163) (mkPtok 40 "," 59 0 201)) [] (MatchField (mkSpan (mkPtok 38 "match" 50 15 163) (mkPtok 40 "," 59 0 201)) (mkMatchFieldDecl (mkSpan (mkPtok 38 "match" 50 15 163) (mkPtok 3 "}" 58 10 200)) (mkPtok 38 "match" 50 15 163) (mkPtok 42 "u" 51 4 164) (mkPtok 17 "as" 51 6 165) (mkPtok 42 "zchar" 51 9 166) (mkPtok 2 "{" 51 15 167) [(mkMatchPair (mkSpan (mkPtok 30 "65535" 51 17 168) (mkPtok 40 "," 51 27 171)) (MKDigits (mkPtok 30 "65535" 51 17 168)) (mkPtok 39 ":" 51 23 169) (mkPtok 42 "A" 51 25 170) (Some (mkPtok 40 "," 51 27 171))); (mkMatchPair (mkSpan (mkPtok 18 "[" 51 29 172) (mkPtok 40 "," 57 9 193)) (MKList (mkKeyList (mkSpan (mkPtok 18 "[" 51 29 172) (mkPtok 13 "]" 56 8 190)) (mkPtok 18 "[" 51 29 172) (mkPtok 30 "00" 51 30 173) [((mkPtok 40 "," 52 0 174), (mkPtok 30 "4294967296" 52 2 175)); ((mkPtok 40 "," 55 0 178), (mkPtok 31 """// no comment""" 55 1 179)); ((mkPtok 40 "," 55 17 180), (mkPtok 30 "65535" 55 19 181)); ((mkPtok 40 "," 55 24 182), (mkPtok 31 """a\""b""" 55 25 183)); ((mkPtok 40 "," 55 33 184), (mkPtok 30 "255" 55 35 185)); ((mkPtok 40 "," 56 0 186), (mkPtok 30 "0" 56 2 187)); ((mkPtok 40 "," 56 4 188), (mkPtok 30 "7" 56 6 189))] (mkPtok 13 "]" 56 8 190))) (mkPtok 39 ":" 57 4 191) (mkPtok 42 "a1" 57 6 192) (Some (mkPtok 40 "," 57 9 193))); (mkMatchPair (mkSpan (mkPtok 18 "[" 57 11 194) (mkPtok 40 "," 58 9 199)) (MKList (mkKeyList (mkSpan (mkPtok 18 "[" 57 11 194) (mkPtok 13 "]" 57 19 196)) (mkPtok 18 "[" 57 11 194) (mkPtok 31 """{,}""" 57 13 195) [] (mkPtok 13 "]" 57 19 196))) (mkPtok 39 ":" 58 0 197) (mkPtok 42 "Header" 58 2 198) (Some (mkPtok 40 "," 58 9 199)))] (mkPtok 3 "}" 58 10 200)) (mkPtok 40 "," 59 0 201))); (mkFieldWithAttr (mkSpan (mkPtok 32 "@rightPad" 59 2 202) (mkPtok 40 "," 68 10 248)) [(FAPadding (mkSpan (mkPtok 32 "@rightPad" 59 2 202) (mkPtok 6 ")" 59 18 205)) (mkPaddingAttr (mkSpan (mkPtok 32 "@rightPad" 59 2 202) (mkPtok 6 ")" 59 18 205)) (mkPtok 32 "@rightPad" 59 2 202) (mkPtok 8 "(" 59 12 203) (Some (mkPtok 33 "' '" 59 14 204)) (mkPtok 6 ")" 59 18 205)))] (MatchField (mkSpan (mkPtok 38 "match" 59 20 206) (mkPtok 40 "," 68 10 248)) (mkMatchFieldDecl (mkSpan (mkPtok 38 "match" 59 20 206) (mkPtok 3 "}" 68 8 247)) (mkPtok 38 "match" 59 20 206) (mkPtok 42 "i64_" 59 26 207) (mkPtok 17 "as" 59 31 208) (mkPtok 42 "Z9_" 59 34 209) (mkPtok 2 "{" 59 38 210) [(mkMatchPair (mkSpan (mkPtok 18 "[" 59 40 211) (mkPtok 40 "," 61 27 224)) (MKList (mkKeyList (mkSpan (mkPtok 18 "[" 59 40 211) (mkPtok 13 "]" 61 14 221)) (mkPtok 18 "[" 59 40 211) (mkPtok 31 (string_of_bytes [34; 240; 159; 152; 128; 34]%N) 59 42 212) [((mkPtok 40 "," 59 46 213), (mkPtok 31 """// no comment""" 60 4 214)); ((mkPtok 40 "," 60 20 215), (mkPtok 31 """packet""" 60 22 216)); ((mkPtok 40 "," 61 0 217), (mkPtok 30 "255" 61 2 218)); ((mkPtok 40 "," 61 6 219), (mkPtok 30 "65535" 61 8 220))] (mkPtok 13 "]" 61 14 221))) (mkPtok 39 ":" 61 16 222) (mkPtok 42 "stringy" 61 19 223) (Some (mkPtok 40 "," 61 27 224))); (mkMatchPair (mkSpan (mkPtok 18 "[" 61 29 225) (mkPtok 42 "Z9_" 67 4 236)) (MKList (mkKeyList (mkSpan (mkPtok 18 "[" 61 29 225) (mkPtok 13 "]" 67 0 234)) (mkPtok 18 "[" 61 29 225) (mkPtok 31 """""" 62 0 226) [((mkPtok 40 "," 63 4 227), (mkPtok 30 "007" 64 0 229)); ((mkPtok 40 "," 65 4 230), (mkPtok 31 """it's""" 66 0 232))] (mkPtok 13 "]" 67 0 234))) (mkPtok 39 ":" 67 2 235) (mkPtok 42 "Z9_" 67 4 236) None); (mkMatchPair (mkSpan (mkPtok 18 "[" 67 9 237) (mkPtok 40 "," 68 0 242)) (MKList (mkKeyList (mkSpan (mkPtok 18 "[" 67 9 237) (mkPtok 13 "]" 67 15 239)) (mkPtok 18 "[" 67 9 237) (mkPtok 31 (string_of_bytes [34; 240; 159; 152; 128; 34]%N) 67 11 238) [] (mkPtok 13 "]" 67 15 239))) (mkPtok 39 ":" 67 17 240) (mkPtok 42 "calculatedFrom" 67 19 241) (Some (mkPtok 40 "," 68 0 242))); (mkMatchPair (mkSpan (mkPtok 30 "1" 68 2 243) (mkPtok 40 "," 68 7 246)) (MKDigits (mkPtok 30 "1" 68 2 243)) (mkPtok 39 ":" 68 4 244) (mkPtok 42 "T" 68 5 245) (Some (mkPtok 40 "," 68 7 246)))] (mkPtok 3 "}" 68 8 247)) (mkPtok 40 "," 68 10 248))); (mkFieldWithAttr (mkSpan (mkPtok 9 "@tag(" 68 12 249) (mkPtok 40 "," 74 4 262)) [(FATag (mkSpan (mkPtok 9 "@tag(" 68 12 249) (mkPtok 6 ")" 69 4 251)) (mkTagAttr (mkSpan (mkPtok 9 "@tag(" 68 12 249) (mkPtok 6 ")" 69 4 251)) (mkPtok 9 "@tag(" 68 12 249) (mkPtok 30 "0123456789" 68 18 250) (mkPtok 6 ")" 69 4 251))); (FACalculatedFrom (mkSpan (mkPtok 5 "@calculatedFrom(" 69 5 252) (mkPtok 6 ")" 70 6 254)) (mkCalculatedFrom (mkSpan (mkPtok 5 "@calculatedFrom(" 69 5 252) (mkPtok 6 ")" 70 6 254)) (mkPtok 5 "@calculatedFrom(" 69 5 252) (mkPtok 31 """{,}""" 70 0 253) (mkPtok 6 ")" 70 6 254))); (FAPadding (mkSpan (mkPtok 32 "@leftPad" 71 0 255) (mkPtok 6 ")" 72 2 258)) (mkPaddingAttr (mkSpan (mkPtok 32 "@leftPad" 71 0 255) (mkPtok 6 ")" 72 2 258)) (mkPtok 32 "@leftPad" 71 0 255) (mkPtok 8 "(" 72 0 257) None (mkPtok 6 ")" 72 2 258)))] (ObjectField (mkSpan (mkPtok 36 "repeat" 73 0 259) (mkPtok 40 "," 74 4 262)) (Some (mkPtok 36 "repeat" 73 0 259)) (mkPtok 42 "i8i8" 73 7 260) (Some (mkPtok 42 "i8i8" 73 12 261)) None (mkPtok 40 "," 74 4 262))); (mkFieldWithAttr (mkSpan (mkPtok 15 "string" 74 5 263) (mkPtok 40 "," 75 8 265)) [] (MetaField (mkSpan (mkPtok 15 "string" 74 5 263) (mkPtok 40 "," 75 8 265)) None (mkMetaDecl (mkSpan (mkPtok 15 "string" 74 5 263) (mkPtok 40 "," 75 8 265)) (TyDynamic (mkSpan (mkPtok 15 "string" 74 5 263) (mkPtok 15 "string" 74 5 263)) (mkDynamicString (mkSpan (mkPtok 15 "string" 74 5 263) (mkPtok 15 "string" 74 5 263)) (mkPtok 15 "string" 74 5 263))) (mkPtok 42 "Z9_" 75 4 264) None (mkPtok 40 "," 75 8 265))))] (mkPtok 3 "}" 76 4 266)))])).
Eval vm_compute in ("<<<M1459>>>" ++ check (runes_of_ascii "
")).
Eval vm_compute in ("<<<M1491>>>" ++ check (runes_of_ascii "packet falsey{	match x_y_z as Z9_ { ""CRC32"":
metadata ,	""CRC32""
    :u
,
    10	: Logon, ""it's"":repeatCount 7
: options1
    ,
    }	, @calculatedFrom(  ""a\\"" )zchar[
    0	] zchar
    @calculatedFrom(
    ""a\\""
)`say ""hi""`
, } MetaData matchKey { u32 // 50% %s
matchKey`doc`
, }")).
Eval vm_compute in ("<<<M1523>>>" ++ check (runes_of_ascii "
")).
Eval vm_compute in ("<<<M1555>>>" ++ check (runes_of_ascii "packet Pad
{repeat  rootA//	t
`{ , }` , options1  `" ++ [233]%N ++ runes_of_ascii "` , }")).
Eval vm_compute in ("<<<M1587>>>" ++ check (runes_of_ascii "packet zchar{
// packet A { u8 x, }
// 50% %s
@tag(7 // packet A { u8 x, }
) // c
rootA { x `// not a comment` , }
//
// " ++ [128512]%N ++ runes_of_ascii " emoji
, @lengthOf( chars	) zchar[
65535] zchar
@calculatedFrom(// " ++ [128512]%N ++ runes_of_ascii " emoji
""`tick`"" )`{ , }`
    ,repeat uint64 // @lengthOf(
charz // packet A { u8 x, }
,}
    packet x
{ u64	zchar`two words`
//	t
//	t
, }

")).
Eval vm_compute in ("<<<M1619>>>" ++ check (runes_of_ascii "
options {	As = """ ++ [28040; 24687]%N ++ runes_of_ascii """
    //	t
    ; } packet a1 { char[] i64_ , }
")).
Eval vm_compute in ("<<<M1651>>>" ++ check (runes_of_ascii "//x
MetaData charz { // trailing space 
i8i8 _x`" ++ [28040; 24687; 31867; 22411]%N ++ runes_of_ascii "` ,
    //
    char[42  ] body
``, } 	 ")).
Eval vm_compute in ("<<<T1651>>>" ++ terms [mkTok 44 "//x" 1 0 true; mkTok 37 "MetaData" 2 0 false; mkTok 42 "charz" 2 9 false; mkTok 2 "{" 2 15 false; mkTok 44 "// trailing space " 2 17 true; mkTok 42 "i8i8" 3 0 false; mkTok 42 "_x" 3 5 false; mkTok 43 (string_of_bytes [96; 230; 182; 136; 230; 129; 175; 231; 177; 187; 229; 158; 139; 96]%N) 3 7 false; mkTok 40 "," 3 14 false; mkTok 44 "//" 4 4 true; mkTok 12 "char[" 5 4 false; mkTok 30 "42" 5 9 false; mkTok 13 "]" 5 13 false; mkTok 42 "body" 5 15 false; mkTok 43 "``" 6 0 false; mkTok 40 "," 6 2 false; mkTok 3 "}" 6 4 false; mkTok 0 "<EOF>" 6 8 false] (mkPacket (mkPtok 37 "MetaData" 2 0 1) (Some (mkPtok 3 "}" 6 4 16)) [(DMeta (mkMetaDef (mkSpan (mkPtok 37 "MetaData" 2 0 1) (mkPtok 3 "}" 6 4 16)) (mkPtok 37 "MetaData" 2 0 1) (mkPtok 42 "charz" 2 9 2) (mkPtok 2 "{" 2 15 3) [(MIRef (mkRefMetaDecl (mkSpan (mkPtok 42 "i8i8" 3 0 5) (mkPtok 40 "," 3 14 8)) (mkPtok 42 "i8i8" 3 0 5) (mkPtok 42 "_x" 3 5 6) (Some (mkPtok 43 (string_of_bytes [96; 230; 182; 136; 230; 129; 175; 231; 177; 187; 229; 158; 139; 96]%N) 3 7 7)) (mkPtok 40 "," 3 14 8))); (MIDecl (mkMetaDecl (mkSpan (mkPtok 12 "char[" 5 4 10) (mkPtok 40 "," 6 2 15)) (TyFixed (mkSpan (mkPtok 12 "char[" 5 4 10) (mkPtok 13 "]" 5 13 12)) (mkFixedString (mkSpan (mkPtok 12 "char[" 5 4 10) (mkPtok 13 "]" 5 13 12)) (mkPtok 12 "char[" 5 4 10) (mkPtok 30 "42" 5 9 11) (mkPtok 13 "]" 5 13 12))) (mkPtok 42 "body" 5 15 13) (Some (mkPtok 43 "``" 6 0 14)) (mkPtok 40 "," 6 2 15)))] (mkPtok 3 "}" 6 4 16)))])).
Eval vm_compute in ("<<<M1683>>>" ++ check (runes_of_ascii "packet zchar {
// " ++ [128512]%N ++ runes_of_ascii " emoji
// packet A { u8 x, }
repeat
    string_	{  i64 Foo , match x
    as tag { ""// no comment""
    : pack
    [0 ,
255 ]
    :roots
, }, char[3
] len // `tick` ""quote"" 'q'
,
}
    , @lengthOf( stringy ) // " ++ [27880; 37322]%N ++ runes_of_ascii "
f32 Foo// 50% %s
,
    //
    @tag(
0123456789) //
int64 trueish
,	}
packet Packet { Foo options1, @lengthOf( Packet
) u8 float,
// a // b
// c
roots @calculatedFrom( ""a\""b"" )	`line1
line2` , }")).
Eval vm_compute in ("<<<M1715>>>" ++ check (runes_of_ascii "packet matchKey
{
zchar[255 ]Pad ,trueish
len  , @tag(	65535) match Z9_ as msg_type	{ [ ""a\""b""  ] : packetx
    ,
""{,}"" :Foo ,} , @tag( 42) char[255
    // c
    ] // " ++ [27880; 37322]%N ++ runes_of_ascii "
float
,
match trueish as
    crc { [3 ,
    """"] :Packet, }, @leftPad (
    '0'
    )  zchar[ 0123456789
    ]Header @lengthOf(	T
) `it's`, }MetaData As { char[ 007 ] x`it's`,} packet A { match x as Header {	[ ""x y"" ,	""a\\""
]  : x_y_z ,	65535:
    lengthOf }
    , calculatedFrom,float64 x_y_z
`tab	here`
    // trailing space 
    , i8i8 @lengthOf( float) `a\` ,
@calculatedFrom( """ ++ [28040; 24687]%N ++ runes_of_ascii """)zchar[ 10  ] asx
`100% of %d`, @tag(1)
float As `crlf
line`
//	t
// " ++ [27880; 37322]%N ++ runes_of_ascii "
,  repeat char[ 1 ] trueish , zchar[ 0123456789
] crc @calculatedFrom( ""packet"" )`
`	, // trailing space 
@tag( 3	) calculatedFrom { i64
    trueish
    , Packet
    @lengthOf(options1 ) `{ , }` ,crc `a\`
    , }
// " ++ [128512]%N ++ runes_of_ascii " emoji
// @lengthOf(
, matchKey
    A `line1
line2` , }
")).
Eval vm_compute in ("<<<M1747>>>" ++ check (runes_of_ascii "MetaData
    pack
    { x  u// c
,MetaDataX
    string_ , zchar[
00 ] pack,/// triple
}")).
Eval vm_compute in ("<<<M1779>>>" ++ check (runes_of_ascii "
")).
Eval vm_compute in ("<<<M1811>>>" ++ check (@nil rune)).
Eval vm_compute in ("<<<M1843>>>" ++ check (runes_of_ascii "root packet  x //
{@calculatedFrom(
""\" ++ [233]%N ++ runes_of_ascii """ ) @lengthOf( // " ++ [128512]%N ++ runes_of_ascii " emoji
i8i8 )  @tag(255 )	u128 `crlf
line`,	uint8
asx,
    a1	,
    o	@calculatedFrom( ""abc"" )	,match packetx  as i8i8
{ 42
: f32a//
, ""1"" : msg_type , },
    @calculatedFrom(""it's""  ) @lengthOf(
    As ) A { u8x  len
`// not a comment` , crc
{
    u16
    charz,}
    , match
pack
as
u8x {[ ""// no comment""//x
]
: options1 , """ ++ [233]%N ++ runes_of_ascii "t" ++ [233]%N ++ runes_of_ascii """ : x , ""1""//
:
int  ,
""" ++ [233]%N ++ runes_of_ascii "t" ++ [233]%N ++ runes_of_ascii """
: uint8x } // packet A { u8 x, }
,
    match leftPad as trueish {	[ // " ++ [27880; 37322]%N ++ runes_of_ascii "
42] : u128 }
    // @lengthOf(
    ,
    } , int32 asx @calculatedFrom(
    ""`tick`""
) ,	}")).
Eval vm_compute in ("<<<M1875>>>" ++ check (runes_of_ascii "packet stringy{ repeat trueish	{	repeat char[
    007
]f32a `// not a comment`, len
    // @lengthOf(
    BodyLength  , u,	u64 BodyLength , }, repeat len	{zchar[ 42 ] calculatedFrom , match _x as
    //x
    leftPad {
    """ ++ [128512]%N ++ runes_of_ascii """:// trailing space 
stringy
    , // packet A { u8 x, }
[42,
    ""// no comment"" ]
: /// triple
A, [""a	b"" // 50% %s
] :
packetx 007 // trailing space 
: len
//x
// c
[""CRC32""	]
    :
    // trailing space 
    MetaDataX
    ,
    },
repeat _x
    Pad `say ""hi""`
    // " ++ [27880; 37322]%N ++ runes_of_ascii "
    ,}
    ,	repeat x
`tab	here` , match // c
pack as
    BodyLength {42	: uint8x } ,
// 50% %s
// a // b
}	packet body {i8i8 @lengthOf( crc
)
`a\`	,  @calculatedFrom( ""// no comment""
)  @lengthOf( uint8x	)  repeat tag { repeat o packetx // " ++ [27880; 37322]%N ++ runes_of_ascii "
,f32a
@lengthOf( charz ),
} , @leftPad
    (	'0' ) i8  As ,
}")).
Eval vm_compute in ("<<<T1875>>>" ++ terms [mkTok 35 "packet" 1 0 false; mkTok 42 "stringy" 1 7 false; mkTok 2 "{" 1 14 false; mkTok 36 "repeat" 1 16 false; mkTok 42 "trueish" 1 23 false; mkTok 2 "{" 1 31 false; mkTok 36 "repeat" 1 33 false; mkTok 12 "char[" 1 40 false; mkTok 30 "007" 2 4 false; mkTok 13 "]" 3 0 false; mkTok 42 "f32a" 3 1 false; mkTok 43 "`// not a comment`" 3 6 false; mkTok 40 "," 3 24 false; mkTok 42 "len" 3 26 false; mkTok 44 "// @lengthOf(" 4 4 true; mkTok 42 "BodyLength" 5 4 false; mkTok 40 "," 5 16 false; mkTok 42 "u" 5 18 false; mkTok 40 "," 5 19 false; mkTok 23 "u64" 5 21 false; mkTok 42 "BodyLength" 5 25 false; mkTok 40 "," 5 36 false; mkTok 3 "}" 5 38 false; mkTok 40 "," 5 39 false; mkTok 36 "repeat" 5 41 false; mkTok 42 "len" 5 48 false; mkTok 2 "{" 5 52 false; mkTok 14 "zchar[" 5 53 false; mkTok 30 "42" 5 60 false; mkTok 13 "]" 5 63 false; mkTok 42 "calculatedFrom" 5 65 false; mkTok 40 "," 5 80 false; mkTok 38 "match" 5 82 false; mkTok 42 "_x" 5 88 false; mkTok 17 "as" 5 91 false; mkTok 44 "//x" 6 4 true; mkTok 42 "leftPad" 7 4 false; mkTok 2 "{" 7 12 false; mkTok 31 (string_of_bytes [34; 240; 159; 152; 128; 34]%N) 8 4 false; mkTok 39 ":" 8 7 false; mkTok 44 "// trailing space " 8 8 true; mkTok 42 "stringy" 9 0 false; mkTok 40 "," 10 4 false; mkTok 44 "// packet A { u8 x, }" 10 6 true; mkTok 18 "[" 11 0 false; mkTok 30 "42" 11 1 false; mkTok 40 "," 11 3 false; mkTok 31 """// no comment""" 12 4 false; mkTok 13 "]" 12 20 false; mkTok 39 ":" 13 0 false; mkTok 44 "/// triple" 13 2 true; mkTok 42 "A" 14 0 false; mkTok 40 "," 14 1 false; mkTok 18 "[" 14 3 false; mkTok 31 (string_of_bytes [34; 97; 9; 98; 34]%N) 14 4 false; mkTok 44 "// 50% %s" 14 10 true; mkTok 13 "]" 15 0 false; mkTok 39 ":" 15 2 false; mkTok 42 "packetx" 16 0 false; mkTok 30 "007" 16 8 false; mkTok 44 "// trailing space " 16 12 true; mkTok 39 ":" 17 0 false; mkTok 42 "len" 17 2 false; mkTok 44 "//x" 18 0 true; mkTok 44 "// c" 19 0 true; mkTok 18 "[" 20 0 false; mkTok 31 """CRC32""" 20 1 false; mkTok 13 "]" 20 9 false; mkTok 39 ":" 21 4 false; mkTok 44 "// trailing space " 22 4 true; mkTok 42 "MetaDataX" 23 4 false; mkTok 40 "," 24 4 false; mkTok 3 "}" 25 4 false; mkTok 40 "," 25 5 false; mkTok 36 "repeat" 26 0 false; mkTok 42 "_x" 26 7 false; mkTok 42 "Pad" 27 4 false; mkTok 43 "`say ""hi""`" 27 8 false; mkTok 44 (string_of_bytes [47; 47; 32; 230; 179; 168; 233; 135; 138]%N) 28 4 true; mkTok 40 "," 29 4 false; mkTok 3 "}" 29 5 false; mkTok 40 "," 30 4 false; mkTok 36 "repeat" 30 6 false; mkTok 42 "x" 30 13 false; mkTok 43 (string_of_bytes [96; 116; 97; 98; 9; 104; 101; 114; 101; 96]%N) 31 0 false; mkTok 40 "," 31 11 false; mkTok 38 "match" 31 13 false; mkTok 44 "// c" 31 19 true; mkTok 42 "pack" 32 0 false; mkTok 17 "as" 32 5 false; mkTok 42 "BodyLength" 33 4 false; mkTok 2 "{" 33 15 false; mkTok 30 "42" 33 16 false; mkTok 39 ":" 33 19 false; mkTok 42 "uint8x" 33 21 false; mkTok 3 "}" 33 28 false; mkTok 40 "," 33 30 false; mkTok 44 "// 50% %s" 34 0 true; mkTok 44 "// a // b" 35 0 true; mkTok 3 "}" 36 0 false; mkTok 35 "packet" 36 2 false; mkTok 42 "body" 36 9 false; mkTok 2 "{" 36 14 false; mkTok 42 "i8i8" 36 15 false; mkTok 7 "@lengthOf(" 36 20 false; mkTok 42 "crc" 36 31 false; mkTok 6 ")" 37 0 false; mkTok 43 "`a\`" 38 0 false; mkTok 40 "," 38 5 false; mkTok 5 "@calculatedFrom(" 38 8 false; mkTok 31 """// no comment""" 38 25 false; mkTok 6 ")" 39 0 false; mkTok 7 "@lengthOf(" 39 3 false; mkTok 42 "uint8x" 39 14 false; mkTok 6 ")" 39 21 false; mkTok 36 "repeat" 39 24 false; mkTok 42 "tag" 39 31 false; mkTok 2 "{" 39 35 false; mkTok 36 "repeat" 39 37 false; mkTok 42 "o" 39 44 false; mkTok 42 "packetx" 39 46 false; mkTok 44 (string_of_bytes [47; 47; 32; 230; 179; 168; 233; 135; 138]%N) 39 54 true; mkTok 40 "," 40 0 false; mkTok 42 "f32a" 40 1 false; mkTok 7 "@lengthOf(" 41 0 false; mkTok 42 "charz" 41 11 false; mkTok 6 ")" 41 17 false; mkTok 40 "," 41 18 false; mkTok 3 "}" 42 0 false; mkTok 40 "," 42 2 false; mkTok 32 "@leftPad" 42 4 false; mkTok 8 "(" 43 4 false; mkTok 33 "'0'" 43 6 false; mkTok 6 ")" 43 10 false; mkTok 24 "i8" 43 12 false; mkTok 42 "As" 43 16 false; mkTok 40 "," 43 19 false; mkTok 3 "}" 44 0 false; mkTok 0 "<EOF>" 44 1 false] (mkPacket (mkPtok 35 "packet" 1 0 0) (Some (mkPtok 3 "}" 44 0 137)) [(DPacket (mkPacketDef (mkSpan (mkPtok 35 "packet" 1 0 0) (mkPtok 3 "}" 36 0 99)) None (mkPtok 35 "packet" 1 0 0) (mkPtok 42 "stringy" 1 7 1) (mkPtok 2 "{" 1 14 2) [(mkFieldWithAttr (mkSpan (mkPtok 36 "repeat" 1 16 3) (mkPtok 40 "," 5 39 23)) [] (InerObjectField (mkSpan (mkPtok 36 "repeat" 1 16 3) (mkPtok 40 "," 5 39 23)) (Some (mkPtok 36 "repeat" 1 16 3)) (InerObjectDecl (mkSpan (mkPtok 42 "trueish" 1 23 4) (mkPtok 3 "}" 5 38 22)) (mkPtok 42 "trueish" 1 23 4) (mkPtok 2 "{" 1 31 5) [(MetaField (mkSpan (mkPtok 36 "repeat" 1 33 6) (mkPtok 40 "," 3 24 12)) (Some (mkPtok 36 "repeat" 1 33 6)) (mkMetaDecl (mkSpan (mkPtok 12 "char[" 1 40 7) (mkPtok 40 "," 3 24 12)) (TyFixed (mkSpan (mkPtok 12 "char[" 1 40 7) (mkPtok 13 "]" 3 0 9)) (mkFixedString (mkSpan (mkPtok 12 "char[" 1 40 7) (mkPtok 13 "]" 3 0 9)) (mkPtok 12 "char[" 1 40 7) (mkPtok 30 "007" 2 4 8) (mkPtok 13 "]" 3 0 9))) (mkPtok 42 "f32a" 3 1 10) (Some (mkPtok 43 "`// not a comment`" 3 6 11)) (mkPtok 40 "," 3 24 12))); (ObjectField (mkSpan (mkPtok 42 "len" 3 26 13) (mkPtok 40 "," 5 16 16)) None (mkPtok 42 "len" 3 26 13) (Some (mkPtok 42 "BodyLength" 5 4 15)) None (mkPtok 40 "," 5 16 16)); (ObjectField (mkSpan (mkPtok 42 "u" 5 18 17) (mkPtok 40 "," 5 19 18)) None (mkPtok 42 "u" 5 18 17) None None (mkPtok 40 "," 5 19 18)); (MetaField (mkSpan (mkPtok 23 "u64" 5 21 19) (mkPtok 40 "," 5 36 21)) None (mkMetaDecl (mkSpan (mkPtok 23 "u64" 5 21 19) (mkPtok 40 "," 5 36 21)) (TyBasic (mkSpan (mkPtok 23 "u64" 5 21 19) (mkPtok 23 "u64" 5 21 19)) (mkBasicType (mkSpan (mkPtok 23 "u64" 5 21 19) (mkPtok 23 "u64" 5 21 19)) (mkPtok 23 "u64" 5 21 19))) (mkPtok 42 "BodyLength" 5 25 20) None (mkPtok 40 "," 5 36 21)))] (mkPtok 3 "}" 5 38 22)) (mkPtok 40 "," 5 39 23))); (mkFieldWithAttr (mkSpan (mkPtok 36 "repeat" 5 41 24) (mkPtok 40 "," 30 4 81)) [] (InerObjectField (mkSpan (mkPtok 36 "repeat" 5 41 24) (mkPtok 40 "," 30 4 81)) (Some (mkPtok 36 "repeat" 5 41 24)) (InerObjectDecl (mkSpan (mkPtok 42 "len" 5 48 25) (mkPtok 3 "}" 29 5 80)) (mkPtok 42 "len" 5 48 25) (mkPtok 2 "{" 5 52 26) [(MetaField (mkSpan (mkPtok 14 "zchar[" 5 53 27) (mkPtok 40 "," 5 80 31)) None (mkMetaDecl (mkSpan (mkPtok 14 "zchar[" 5 53 27) (mkPtok 40 "," 5 80 31)) (TyFixed (mkSpan (mkPtok 14 "zchar[" 5 53 27) (mkPtok 13 "]" 5 63 29)) (mkFixedString (mkSpan (mkPtok 14 "zchar[" 5 53 27) (mkPtok 13 "]" 5 63 29)) (mkPtok 14 "zchar[" 5 53 27) (mkPtok 30 "42" 5 60 28) (mkPtok 13 "]" 5 63 29))) (mkPtok 42 "calculatedFrom" 5 65 30) None (mkPtok 40 "," 5 80 31))); (MatchField (mkSpan (mkPtok 38 "match" 5 82 32) (mkPtok 40 "," 25 5 73)) (mkMatchFieldDecl (mkSpan (mkPtok 38 "match" 5 82 32) (mkPtok 3 "}" 25 4 72)) (mkPtok 38 "match" 5 82 32) (mkPtok 42 "_x" 5 88 33) (mkPtok 17 "as" 5 91 34) (mkPtok 42 "leftPad" 7 4 36) (mkPtok 2 "{" 7 12 37) [(mkMatchPair (mkSpan (mkPtok 31 (string_of_bytes [34; 240; 159; 152; 128; 34]%N) 8 4 38) (mkPtok 40 "," 10 4 42)) (MKString (mkPtok 31 (string_of_bytes [34; 240; 159; 152; 128; 34]%N) 8 4 38)) (mkPtok 39 ":" 8 7 39) (mkPtok 42 "stringy" 9 0 41) (Some (mkPtok 40 "," 10 4 42))); (mkMatchPair (mkSpan (mkPtok 18 "[" 11 0 44) (mkPtok 40 "," 14 1 52)) (MKList (mkKeyList (mkSpan (mkPtok 18 "[" 11 0 44) (mkPtok 13 "]" 12 20 48)) (mkPtok 18 "[" 11 0 44) (mkPtok 30 "42" 11 1 45) [((mkPtok 40 "," 11 3 46), (mkPtok 31 """// no comment""" 12 4 47))] (mkPtok 13 "]" 12 20 48))) (mkPtok 39 ":" 13 0 49) (mkPtok 42 "A" 14 0 51) (Some (mkPtok 40 "," 14 1 52))); (mkMatchPair (mkSpan (mkPtok 18 "[" 14 3 53) (mkPtok 42 "packetx" 16 0 58)) (MKList (mkKeyList (mkSpan (mkPtok 18 "[" 14 3 53) (mkPtok 13 "]" 15 0 56)) (mkPtok 18 "[" 14 3 53) (mkPtok 31 (string_of_bytes [34; 97; 9; 98; 34]%N) 14 4 54) [] (mkPtok 13 "]" 15 0 56))) (mkPtok 39 ":" 15 2 57) (mkPtok 42 "packetx" 16 0 58) None); (mkMatchPair (mkSpan (mkPtok 30 "007" 16 8 59) (mkPtok 42 "len" 17 2 62)) (MKDigits (mkPtok 30 "007" 16 8 59)) (mkPtok 39 ":" 17 0 61) (mkPtok 42 "len" 17 2 62) None); (mkMatchPair (mkSpan (mkPtok 18 "[" 20 0 65) (mkPtok 40 "," 24 4 71)) (MKList (mkKeyList (mkSpan (mkPtok 18 "[" 20 0 65) (mkPtok 13 "]" 20 9 67)) (mkPtok 18 "[" 20 0 65) (mkPtok 31 """CRC32""" 20 1 66) [] (mkPtok 13 "]" 20 9 67))) (mkPtok 39 ":" 21 4 68) (mkPtok 42 "MetaDataX" 23 4 70) (Some (mkPtok 40 "," 24 4 71)))] (mkPtok 3 "}" 25 4 72)) (mkPtok 40 "," 25 5 73)); (ObjectField (mkSpan (mkPtok 36 "repeat" 26 0 74) (mkPtok 40 "," 29 4 79)) (Some (mkPtok 36 "repeat" 26 0 74)) (mkPtok 42 "_x" 26 7 75) (Some (mkPtok 42 "Pad" 27 4 76)) (Some (mkPtok 43 "`say ""hi""`" 27 8 77)) (mkPtok 40 "," 29 4 79))] (mkPtok 3 "}" 29 5 80)) (mkPtok 40 "," 30 4 81))); (mkFieldWithAttr (mkSpan (mkPtok 36 "repeat" 30 6 82) (mkPtok 40 "," 31 11 85)) [] (ObjectField (mkSpan (mkPtok 36 "repeat" 30 6 82) (mkPtok 40 "," 31 11 85)) (Some (mkPtok 36 "repeat" 30 6 82)) (mkPtok 42 "x" 30 13 83) None (Some (mkPtok 43 (string_of_bytes [96; 116; 97; 98; 9; 104; 101; 114; 101; 96]%N) 31 0 84)) (mkPtok 40 "," 31 11 85))); (mkFieldWithAttr (mkSpan (mkPtok 38 "match" 31 13 86) (mkPtok 40 "," 33 30 96)) [] (MatchField (mkSpan (mkPtok 38 "match" 31 13 86) (mkPtok 40 "," 33 30 96)) (mkMatchFieldDecl (mkSpan (mkPtok 38 "match" 31 13 86) (mkPtok 3 "}" 33 28 95)) (mkPtok 38 "match" 31 13 86) (mkPtok 42 "pack" 32 0 88) (mkPtok 17 "as" 32 5 89) (mkPtok 42 "BodyLength" 33 4 90) (mkPtok 2 "{" 33 15 91) [(mkMatchPair (mkSpan (mkPtok 30 "42" 33 16 92) (mkPtok 42 "uint8x" 33 21 94)) (MKDigits (mkPtok 30 "42" 33 16 92)) (mkPtok 39 ":" 33 19 93) (mkPtok 42 "uint8x" 33 21 94) None)] (mkPtok 3 "}" 33 28 95)) (mkPtok 40 "," 33 30 96)))] (mkPtok 3 "}" 36 0 99))); (DPacket (mkPacketDef (mkSpan (mkPtok 35 "packet" 36 2 100) (mkPtok 3 "}" 44 0 137)) None (mkPtok 35 "packet" 36 2 100) (mkPtok 42 "body" 36 9 101) (mkPtok 2 "{" 36 14 102) [(mkFieldWithAttr (mkSpan (mkPtok 42 "i8i8" 36 15 103) (mkPtok 40 "," 38 5 108)) [] (LengthField (mkSpan (mkPtok 42 "i8i8" 36 15 103) (mkPtok 40 "," 38 5 108)) (mkLengthFieldDecl (mkSpan (mkPtok 42 "i8i8" 36 15 103) (mkPtok 40 "," 38 5 108)) None (mkPtok 42 "i8i8" 36 15 103) (mkLengthOf (mkSpan (mkPtok 7 "@lengthOf(" 36 20 104) (mkPtok 6 ")" 37 0 106)) (mkPtok 7 "@lengthOf(" 36 20 104) (mkPtok 42 "crc" 36 31 105) (mkPtok 6 ")" 37 0 106)) (Some (mkPtok 43 "`a\`" 38 0 107)) (mkPtok 40 "," 38 5 108)))); (mkFieldWithAttr (mkSpan (mkPtok 5 "@calculatedFrom(" 38 8 109) (mkPtok 40 "," 42 2 129)) [(FACalculatedFrom (mkSpan (mkPtok 5 "@calculatedFrom(" 38 8 109) (mkPtok 6 ")" 39 0 111)) (mkCalculatedFrom (mkSpan (mkPtok 5 "@calculatedFrom(" 38 8 109) (mkPtok 6 ")" 39 0 111)) (mkPtok 5 "@calculatedFrom(" 38 8 109) (mkPtok 31 """// no comment""" 38 25 110) (mkPtok 6 ")" 39 0 111))); (FALengthOf (mkSpan (mkPtok 7 "@lengthOf(" 39 3 112) (mkPtok 6 ")" 39 21 114)) (mkLengthOf (mkSpan (mkPtok 7 "@lengthOf(" 39 3 112) (mkPtok 6 ")" 39 21 114)) (mkPtok 7 "@lengthOf(" 39 3 112) (mkPtok 42 "uint8x" 39 14 113) (mkPtok 6 ")" 39 21 114)))] (InerObjectField (mkSpan (mkPtok 36 "repeat" 39 24 115) (mkPtok 40 "," 42 2 129)) (Some (mkPtok 36 "repeat" 39 24 115)) (InerObjectDecl (mkSpan (mkPtok 42 "tag" 39 31 116) (mkPtok 3 "}" 42 0 128)) (mkPtok 42 "tag" 39 31 116) (mkPtok 2 "{" 39 35 117) [(ObjectField (mkSpan (mkPtok 36 "repeat" 39 37 118) (mkPtok 40 "," 40 0 122)) (Some (mkPtok 36 "repeat" 39 37 118)) (mkPtok 42 "o" 39 44 119) (Some (mkPtok 42 "packetx" 39 46 120)) None (mkPtok 40 "," 40 0 122)); (LengthField (mkSpan (mkPtok 42 "f32a" 40 1 123) (mkPtok 40 "," 41 18 127)) (mkLengthFieldDecl (mkSpan (mkPtok 42 "f32a" 40 1 123) (mkPtok 40 "," 41 18 127)) None (mkPtok 42 "f32a" 40 1 123) (mkLengthOf (mkSpan (mkPtok 7 "@lengthOf(" 41 0 124) (mkPtok 6 ")" 41 17 126)) (mkPtok 7 "@lengthOf(" 41 0 124) (mkPtok 42 "charz" 41 11 125) (mkPtok 6 ")" 41 17 126)) None (mkPtok 40 "," 41 18 127)))] (mkPtok 3 "}" 42 0 128)) (mkPtok 40 "," 42 2 129))); (mkFieldWithAttr (mkSpan (mkPtok 32 "@leftPad" 42 4 130) (mkPtok 40 "," 43 19 136)) [(FAPadding (mkSpan (mkPtok 32 "@leftPad" 42 4 130) (mkPtok 6 ")" 43 10 133)) (mkPaddingAttr (mkSpan (mkPtok 32 "@leftPad" 42 4 130) (mkPtok 6 ")" 43 10 133)) (mkPtok 32 "@leftPad" 42 4 130) (mkPtok 8 "(" 43 4 131) (Some (mkPtok 33 "'0'" 43 6 132)) (mkPtok 6 ")" 43 10 133)))] (MetaField (mkSpan (mkPtok 24 "i8" 43 12 134) (mkPtok 40 "," 43 19 136)) None (mkMetaDecl (mkSpan (mkPtok 24 "i8" 43 12 134) (mkPtok 40 "," 43 19 136)) (TyBasic (mkSpan (mkPtok 24 "i8" 43 12 134) (mkPtok 24 "i8" 43 12 134)) (mkBasicType (mkSpan (mkPtok 24 "i8" 43 12 134) (mkPtok 24 "i8" 43 12 134)) (mkPtok 24 "i8" 43 12 134))) (mkPtok 42 "As" 43 16 135) None (mkPtok 40 "," 43 19 136))))] (mkPtok 3 "}" 44 0 137)))])).
Eval vm_compute in ("<<<M1907>>>" ++ check (runes_of_ascii "root packet Pad{
matchKey@calculatedFrom( ""abc"" )
, }
")).
Eval vm_compute in ("<<<M1939>>>" ++ check (runes_of_ascii "packet Z9_{
repeat pack , repeat
char[// 50% %s
3
]
repeatCount `" ++ [28040; 24687; 31867; 22411]%N ++ runes_of_ascii "` ,
repeat
zchar[
007 ] msg_type // 50% %s
, char i64_ `// not a comment`, }
options { crc = true ; falsey = false ; Z9_=true metadata
= f32 }
")).
Eval vm_compute in ("<<<M1971>>>" ++ check (runes_of_ascii "
root packet // trailing space 
Z9_  {
options1 {
string
int @lengthOf(//
u128)
    `" ++ [28040; 24687; 31867; 22411]%N ++ runes_of_ascii "` ,len
    { char[ 0123456789
    ]
roots
    //
    @calculatedFrom(
""packet""	)
// c
//x
`
` ,
    } ,char[ 0123456789
// " ++ [27880; 37322]%N ++ runes_of_ascii "
//x
] u128,float As `crlf
line` ,  },
match Logon as asx	{ 10 : Header , 42: Header , 7
: a1 , 1  : asx, [
    0123456789
, 0123456789 ,""" ++ [28040; 24687]%N ++ runes_of_ascii """ ,42  , 7  ]  : MetaDataX,
    ""a	b""	: matchKey
    },
    // `tick` ""quote"" 'q'
    match int as
falsey { 00 :
MetaDataX
    ,
    } , }
")).
Eval vm_compute in ("<<<M2003>>>" ++ check (runes_of_ascii "options {
    StringPrefixLenType = u16;
    ArrayPrefixLenType = u16;
}

packet SampleBinary {
    uint16 MsgType `" ++ [28040; 24687; 31867; 22411]%N ++ runes_of_ascii "`,
    u16 BodyLenght @lengthOf(Body) `" ++ [28040; 24687; 20307; 38271; 24230]%N ++ runes_of_ascii "`,
    match MsgType as Body {
        1 : Logon,
        2 : Logout,
        3 : Heartbeat,
        4 : RiskControlRequest,
        5 : RiskControlResponse,
    },
    @calculatedFrom(""CRC32"")
    u32 Ckecksum `" ++ [26657; 39564; 21644]%N ++ runes_of_ascii "`,
}

packet Logon {
    @leftPad('0')
    char[10] UserName `" ++ [29992; 25143; 21517]%N ++ runes_of_ascii "`,
    string Password `" ++ [23494; 30721]%N ++ runes_of_ascii "`,
    uint64 ClientId `" ++ [23458; 25143; 31471]%N ++ runes_of_ascii "ID`,
    u16 HeartbeatInterval `" ++ [24515; 36339; 38388; 38548]%N ++ runes_of_ascii "`,
}

packet Logout {
    @rightPad('0')
    char[10] UserName `" ++ [29992; 25143; 21517]%N ++ runes_of_ascii "`,
    uint64 ClientId `" ++ [23458; 25143; 31471]%N ++ runes_of_ascii "ID`,
}

packet Heartbeat {
}

packet RiskControlRequest {
    string UniqueOrderId `" ++ [21807; 19968; 35746; 21333; 21495]%N ++ runes_of_ascii "`,
    char[16] ClOrdID `" ++ [23458; 25143; 35746; 21333; 21495]%N ++ runes_of_ascii "`,
    char[3] MarketID `" ++ [24066; 22330]%N ++ runes_of_ascii "id`,
    char[12] SecurityID `" ++ [35777; 21048; 20195; 30721]%N ++ runes_of_ascii "`,
    char Side `" ++ [20080; 21334; 26041; 21521]%N ++ runes_of_ascii "`,
    char OrderType `" ++ [35746; 21333; 31867; 22411]%N ++ runes_of_ascii "`,
    u64 Price `" ++ [20215; 26684]%N ++ runes_of_ascii "`,
    u32 Qty `" ++ [25968; 37327]%N ++ runes_of_ascii "`,
    repeat string ExtraInfo `" ++ [38468; 21152; 20449; 24687]%N ++ runes_of_ascii "`,
    repeat SubOrder {
        char[16] ClOrdID `" ++ [23376; 35746; 21333; 21495]%N ++ runes_of_ascii "`,
        u64 Price `" ++ [23376; 35746; 21333; 20215; 26684]%N ++ runes_of_ascii "`,
        u32 Qty `" ++ [23376; 35746; 21333; 25968; 37327]%N ++ runes_of_ascii "`,
    },
}

packet RiskControlResponse {
    string UniqueOrderId `" ++ [21807; 19968; 35746; 21333; 21495]%N ++ runes_of_ascii "`,
    i32 Status `" ++ [29366; 24577]%N ++ runes_of_ascii "`,
    string Msg `" ++ [32467; 26524; 20449; 24687]%N ++ runes_of_ascii "`,
    repeat Detail,
}

packet Detail {
    string RuleName `" ++ [35268; 21017; 21517; 31216]%N ++ runes_of_ascii "`,
    u16 Code `" ++ [21407; 22240; 20195; 30721]%N ++ runes_of_ascii "`,
}")).
Eval vm_compute in ("<<<M2035>>>" ++ check (runes_of_ascii "MetaData repeatCount { float64 packetx, ,
} root packet  metadata {
char _x @lengthOf( trueish ), @leftPad
( ' '// " ++ [27880; 37322]%N ++ runes_of_ascii "
)/// triple
char[] len`doc` , // packet A { u8 x, }
repeatCount , }
")).
Eval vm_compute in ("<<<M2067>>>" ++ check (runes_of_ascii "MetaData repeatCount { float64 packetx,
} root packet  metadata {
{ _x @lengthOf( trueish ), @leftPad
( ' '// " ++ [27880; 37322]%N ++ runes_of_ascii "
)/// triple
char[] len`doc` , // packet A { u8 x, }
repeatCount , }
")).
Eval vm_compute in ("<<<M2099>>>" ++ check (runes_of_ascii "MetaData repeatCount { float64 packetx,
} root packet  metadata {
char _x @lengthOf( trueish ), @leftPad
 ' '// " ++ [27880; 37322]%N ++ runes_of_ascii "
)/// triple
char[] len`doc` , // packet A { u8 x, }
repeatCount , }
")).
Eval vm_compute in ("<<<M2131>>>" ++ check (runes_of_ascii "MetaData repeatCount { float64 packetx,
} root packet  metadata {
char _x @lengthOf( trueish ), @leftPad
( ' '// " ++ [27880; 37322]%N ++ runes_of_ascii "
)/// triple
char[] len`doc` repeatCount // packet A { u8 x, }
, , }
")).
Eval vm_compute in ("<<<M2163>>>" ++ check (runes_of_ascii "MetaData repeatCount { float64 packetx,
} root packet  metadata " ++ [65279]%N ++ runes_of_ascii " {
char _x @lengthOf( trueish ), @leftPad
( ' '// " ++ [27880; 37322]%N ++ runes_of_ascii "
)/// triple
char[] len`doc` , // packet A { u8 x, }
repeatCount , }
")).
Eval vm_compute in ("<<<M2195>>>" ++ check (runes_of_ascii "options{
leftPad
    =65535

a1 = true ; packetx=  '\x00' ; packetx
=  """ ++ [28040; 24687]%N ++ runes_of_ascii """MetaDataX= // " ++ [27880; 37322]%N ++ runes_of_ascii "
false }root // c
packet // packet A { u8 x, }
Pad { repeat
u8 Header
// packet A { u8 x, }
//	t
`{ , }`
// a // b
//x
, }
")).
Eval vm_compute in ("<<<M2227>>>" ++ check (runes_of_ascii "options{
leftPad
    =65535
;
a1 = true ; packetx'\x00'  = ; packetx
=  """ ++ [28040; 24687]%N ++ runes_of_ascii """MetaDataX= // " ++ [27880; 37322]%N ++ runes_of_ascii "
false }root // c
packet // packet A { u8 x, }
Pad { repeat
u8 Header
// packet A { u8 x, }
//	t
`{ , }`
// a // b
//x
, }
")).
Eval vm_compute in ("<<<M2259>>>" ++ check (runes_of_ascii "options{
leftPad
    =65535
;
a1 = true ; packetx=  '\x00' ; packetx
=  """ ++ [28040; 24687]%N ++ runes_of_ascii """")).
Eval vm_compute in ("<<<M2291>>>" ++ check (runes_of_ascii "options{
leftPad
    =65535
;
a1 = true ; packetx=  '\x00' ; packetx
=  """ ++ [28040; 24687]%N ++ runes_of_ascii """MetaDataX= // " ++ [27880; 37322]%N ++ runes_of_ascii "
false }root // c
packet // packet A { u8 x, }
Pad { { repeat
u8 Header
// packet A { u8 x, }
//	t
`{ , }`
// a // b
//x
, }
")).
Eval vm_compute in ("<<<M2323>>>" ++ check (runes_of_ascii "options{
leftPad
    =65535
;
a1 = true ; packetx=  '\x00' ; packetx
=  """ ++ [28040; 24687]%N ++ runes_of_ascii """MetaDataX= // " ++ [27880; 37322]%N ++ runes_of_ascii "
false }root // c
packet // packet A { u8 x, }
Pad { repeat
u8 Header
// packet A { u8 x, }
//	t
`{ , }`
// a // b
//x
,")).
Eval vm_compute in ("<<<M2355>>>" ++ check (runes_of_ascii "
packet")).
Eval vm_compute in ("<<<M2387>>>" ++ check (runes_of_ascii "
packet float
{	@calculatedFrom( """ ++ [233]%N ++ runes_of_ascii "t" ++ [233]%N ++ runes_of_ascii """ )
@rightPad ( '\x00' '\x00' )
    @calculatedFrom( ""x y"" ) string chars  ,
    // a // b
    char[0 ]
    u	@lengthOf( i8i8 ) `{ , }` ,repeat char[] o //x
`// not a comment`, } // c")).
Eval vm_compute in ("<<<M2419>>>" ++ check (runes_of_ascii "
packet float
{	@calculatedFrom( """ ++ [233]%N ++ runes_of_ascii "t" ++ [233]%N ++ runes_of_ascii """ )
@rightPad ( '\x00' )
    @calculatedFrom( ""x y"" ) string ,  ,
    // a // b
    char[0 ]
    u	@lengthOf( i8i8 ) `{ , }` ,repeat char[] o //x
`// not a comment`, } // c")).
Eval vm_compute in ("<<<M2451>>>" ++ check (runes_of_ascii "
packet float
{	@calculatedFrom( """ ++ [233]%N ++ runes_of_ascii "t" ++ [233]%N ++ runes_of_ascii """ )
@rightPad ( '\x00' )
    @calculatedFrom( ""x y"" ) string chars  ,
    // a // b
    char[0 ]
    u	@lengthOf(  ) `{ , }` ,repeat char[] o //x
`// not a comment`, } // c")).
Eval vm_compute in ("<<<M2483>>>" ++ check (runes_of_ascii "
packet float
{	@calculatedFrom( """ ++ [233]%N ++ runes_of_ascii "t" ++ [233]%N ++ runes_of_ascii """ )
@rightPad ( '\x00' )
    @calculatedFrom( ""x y"" ) string chars  ,
    // a // b
    char[0 ]
    u	@lengthOf( i8i8 ) `{ , }` ,repeat char[] `// not a comment` //x
o, } // c")).
Eval vm_compute in ("<<<M2515>>>" ++ check (runes_of_ascii "
packet float
{	@calculatedFrom( """ ++ [233]%N ++ runes_of_ascii "t" ++ [233]%N ++ runes_of_ascii """ )
@rightPad ( '\x00' )
    @calculatedFrom( ""x y"" ) string chars  ,
    // a // b
    char[0 ]
    u	@lengthOf( i8i8 ) `{ , }` ,repeat char[] o //x
<`// not a comment`, } // c")).
Eval vm_compute in ("<<<M2547>>>" ++ check (runes_of_ascii "root packet u128{
    repeat
     65535 ] u `" ++ [28040; 24687; 31867; 22411]%N ++ runes_of_ascii "` ,// `tick` ""quote"" 'q'
} packet i64_ {repeatCount
    `
` ,	} // " ++ [128512]%N ++ runes_of_ascii " emoji")).
Eval vm_compute in ("<<<M2579>>>" ++ check (runes_of_ascii "root packet u128{
    repeat
    zchar[ 65535 ] u `" ++ [28040; 24687; 31867; 22411]%N ++ runes_of_ascii "` ,// `tick` ""quote"" 'q'
packet } i64_ {repeatCount
    `
` ,	} // " ++ [128512]%N ++ runes_of_ascii " emoji")).
Eval vm_compute in ("<<<M2611>>>" ++ check (runes_of_ascii "root packet u128{
    repeat
    zchar[ 65535 ] u `" ++ [28040; 24687; 31867; 22411]%N ++ runes_of_ascii "` ,// `tick` ""quote"" 'q'
} packet i64_ {repeatCount
    `
`")).
Eval vm_compute in ("<<<M2643>>>" ++ check (runes_of_ascii "
MetaData
 { int8
    BodyLength ,//	t
}
")).
Eval vm_compute in ("<<<M2675>>>" ++ check (runes_of_ascii "
MetaData
r")).
Eval vm_compute in ("<<<M2707>>>" ++ check (runes_of_ascii "options {u32 = ""CRC32""i8i8 = false; leftPad =
    '\x00'
    // `tick` ""quote"" 'q'
    ; o=255  ;
    // packet A { u8 x, }
    }")).
Eval vm_compute in ("<<<M2739>>>" ++ check (runes_of_ascii "options {Packet = ""CRC32""i8i8 = false;  =
    '\x00'
    // `tick` ""quote"" 'q'
    ; o=255  ;
    // packet A { u8 x, }
    }")).
Eval vm_compute in ("<<<M2771>>>" ++ check (runes_of_ascii "options {Packet = ""CRC32""i8i8 = false; leftPad =
    '\x00'
    // `tick` ""quote"" 'q'
    ; o=;  255
    // packet A { u8 x, }
    }")).
Eval vm_compute in ("<<<M2803>>>" ++ check (runes_of_ascii "options {Packet = ""CRC32""na" ++ [239]%N ++ runes_of_ascii "ve = false; leftPad =
    '\x00'
    // `tick` ""quote"" 'q'
    ; o=255  ;
    // packet A { u8 x, }
    }")).
Eval vm_compute in ("<<<M2835>>>" ++ check (runes_of_ascii "
packet metadata { @rightPad (
    // packet A { u8 x, }
    ' '  repeat u32	A
,matchKey ,
    @lengthOf( string_ ) @lengthOf( body )
    // a // b
    @lengthOf(float  )	repeat
int32 u8x
    // c
    `tab	here`
, } // a // b")).
Eval vm_compute in ("<<<M2867>>>" ++ check (runes_of_ascii "
packet metadata { @rightPad (
    // packet A { u8 x, }
    ' ' ) repeat u32	A
,matchKey @lengthOf(
    , string_ ) @lengthOf( body )
    // a // b
    @lengthOf(float  )	repeat
int32 u8x
    // c
    `tab	here`
, } // a // b")).
Eval vm_compute in ("<<<M2899>>>" ++ check (runes_of_ascii "
packet metadata { @rightPad (
    // packet A { u8 x, }
    ' ' ) repeat u32	A
,matchKey ,
    @lengthOf( string_ ) @lengthOf( body")).
Eval vm_compute in ("<<<M2931>>>" ++ check (runes_of_ascii "
packet metadata { @rightPad (
    // packet A { u8 x, }
    ' ' ) repeat u32	A
,matchKey ,
    @lengthOf( string_ ) @lengthOf( body )
    // a // b
    @lengthOf(float  )	repeat
int32 u8x
    // c
    `tab	here` `tab	here`
, } // a // b")).
Eval vm_compute in ("<<<M2963>>>" ++ check (runes_of_ascii "
packet " ++ [21517; 23383]%N ++ runes_of_ascii " { @rightPad (
    // packet A { u8 x, }
    ' ' ) repeat u32	A
,matchKey ,
    @lengthOf( string_ ) @lengthOf( body )
    // a // b
    @lengthOf(float  )	repeat
int32 u8x
    // c
    `tab	here`
, } // a // b")).
Eval vm_compute in ("<<<M2995>>>" ++ check (runes_of_ascii "packet x{
string
zchar")).
Eval vm_compute in ("<<<M3027>>>" ++ check (runes_of_ascii "
MetaData 
{ // c
}root packet
    Pad {
    } options
{
u
    =
    ""CRC32""
    // " ++ [128512]%N ++ runes_of_ascii " emoji
    i64_ = u16;
T =65535 x = ' '
    ; u128
= true ; }")).
Eval vm_compute in ("<<<M3059>>>" ++ check (runes_of_ascii "
MetaData Logon
{ // c
}root packet
    Pad }
    { options
{
u
    =
    ""CRC32""
    // " ++ [128512]%N ++ runes_of_ascii " emoji
    i64_ = u16;
T =65535 x = ' '
    ; u128
= true ; }")).
Eval vm_compute in ("<<<M3091>>>" ++ check (runes_of_ascii "
MetaData Logon
{ // c
}root packet
    Pad {
    } options
{
u
    =")).
Eval vm_compute in ("<<<M3123>>>" ++ check (runes_of_ascii "
MetaData Logon
{ // c
}root packet
    Pad {
    } options
{
u
    =
    ""CRC32""
    // " ++ [128512]%N ++ runes_of_ascii " emoji
    i64_ = u16;
T =65535 65535 x = ' '
    ; u128
= true ; }")).
Eval vm_compute in ("<<<M3155>>>" ++ check (runes_of_ascii "
MetaData Logon
{ // c
}root packet
    Pad {
    } options
{
u
    =
    ""CRC32""
    // " ++ [128512]%N ++ runes_of_ascii " emoji
    i64_ = u16;
T =65535 x = ' '
    ; u128
packet true ; }")).
Eval vm_compute in ("<<<M3187>>>" ++ check (runes_of_ascii "
MetaData Logon
{ // c
}root packet
    Pad {
    } options
{
u
    =
    ""CRC32""
    // " ++ [128512]%N ++ runes_of_ascii " emoji
    i64_ = u16;
T =65535 x = ' '
  @leftpad  ; u128
= true ; }")).
Eval vm_compute in ("<<<M3219>>>" ++ check (runes_of_ascii "MetaData body{}
packet	Packet Packet { x_y_z @calculatedFrom(  ""a\\"")// `tick` ""quote"" 'q'
, }
")).
Eval vm_compute in ("<<<M3251>>>" ++ check (runes_of_ascii "MetaData body{}
packet	Packet { x_y_z @calculatedFrom(  ""a\\"")// `tick` ""quote"" 'q'
i32 }
")).
Eval vm_compute in ("<<<M3283>>>" ++ check (@nil rune)).
Eval vm_compute in ("<<<M3315>>>" ++ check (runes_of_ascii "packet f32a {} root packet len { {repeat u // " ++ [128512]%N ++ runes_of_ascii " emoji
`{ , }` , }
")).
Eval vm_compute in ("<<<M3347>>>" ++ check (runes_of_ascii "packet ")).
Eval vm_compute in ("<<<M3379>>>" ++ check (runes_of_ascii "options{ _x=""\" ++ [233]%N ++ runes_of_ascii """;
    Logon = 10	; Foo= 7;
i64_= char[]} options {
matchKey = ""// no comment"" // a // b
falsey = string
; trueish =
    4294967296
options1=
    ""it's"" string_	= true }  {
    /// triple
    }")).
Eval vm_compute in ("<<<M3411>>>" ++ check (runes_of_ascii "options{ _x=""\" ++ [233]%N ++ runes_of_ascii """;
    Logon = 10	; Foo= 7;
i64_= char[]} options {
matchKey = ""// no comment"" // a // b
falsey = string
; = trueish
    4294967296
options1=
    ""it's"" string_	= true } options {
    /// triple
    }")).
Eval vm_compute in ("<<<M3443>>>" ++ check (runes_of_ascii "options{ _x=""\" ++ [233]%N ++ runes_of_ascii """;
    Logon = 10	; Foo= 7;
i64_=")).
Eval vm_compute in ("<<<M3475>>>" ++ check (runes_of_ascii "options{ _x=""\" ++ [233]%N ++ runes_of_ascii """;
    Logon = 10	; Foo= 7
i64_= char[]} options {
matchKey = ""// no comment"" // a // b
falsey = string
; trueish =
    4294967296
options1=
    ""it's"" string_	= true } options {
    /// triple
    }")).
Eval vm_compute in ("<<<M3507>>>" ++ check (runes_of_ascii "u")).
Eval vm_compute in ("<<<M3539>>>" ++ check (runes_of_ascii "'\x00'")).
Eval vm_compute in ("<<<M3571>>>" ++ check (runes_of_ascii "// ab
c")).
Eval vm_compute in ("<<<M3603>>>" ++ check (runes_of_ascii "_1")).
Eval vm_compute in ("<<<M3635>>>" ++ check (runes_of_ascii "packet A { u8 x }")).
Eval vm_compute in ("<<<M3667>>>" ++ check (runes_of_ascii "packet A { B { @tag(1) u8 x, }, }")).
Eval vm_compute in ("<<<M3699>>>" ++ check (runes_of_ascii "packet A { } root")).
Eval vm_compute in ("<<<M3731>>>" ++ check (runes_of_ascii "options { a = 1, }")).
Eval vm_compute in ("<<<M3763>>>" ++ check (runes_of_ascii " " ++ [12]%N ++ runes_of_ascii " ")).
Eval vm_compute in ("<<<M3795>>>" ++ check (runes_of_ascii """{,}"" string char[] u16 repeat packet : uint8")).
Eval vm_compute in ("<<<M3827>>>" ++ check (runes_of_ascii "{ } string ""CRC32""")).
Eval vm_compute in ("<<<M3859>>>" ++ check (runes_of_ascii "uint16 zchar[ string options uint16 i64 int16 ; i16 uint32 repeat root string")).
Eval vm_compute in ("<<<M3891>>>" ++ check (runes_of_ascii "repeatCount { uint16 options u128 : { @tag( ]")).
Eval vm_compute in ("<<<M3923>>>" ++ check (runes_of_ascii "as options { @calculatedFrom( ; @lengthOf( @calculatedFrom( @tag( '0' [ ;")).
Eval vm_compute in ("<<<M3955>>>" ++ check (runes_of_ascii "char[] @tag( char[] ""x y"" Header")).
Eval vm_compute in ("<<<M3987>>>" ++ check (runes_of_ascii ", ) @rightPad")).
