From FP Require Import Lexer Parser ShowPT Digest.
From Coq Require Import String List NArith.
Import ListNotations.
Open Scope string_scope.
Set Printing Width 100000000.
Set Printing Depth 100000000.
Definition nl : string := String (Ascii.ascii_of_nat 10) EmptyString.
Definition model_lex (rs : list rune) : string := show_toks (lex rs).
Definition model_parse (rs : list rune) : string :=
  show_pt (match lex rs with Some ts => parse ts | None => None end).
(* coqc is slow at printing long strings: digests first (Digest.v), full texts on demand *)
Definition check (rs : list rune) : string :=
  digest (model_lex rs) ++ " " ++ digest (model_parse rs).
Definition full (rs : list rune) : string := model_lex rs ++ nl ++ model_parse rs.
Definition terms (ts : list tok) (t : pt) : string :=
  digest (show_toks (Some ts)) ++ " " ++ digest (show_pt (Some t)) ++ " " ++ digest (show_pt (parse ts)).
Definition terms_full (ts : list tok) (t : pt) : string :=
  show_toks (Some ts) ++ nl ++ show_pt (Some t) ++ nl ++ show_pt (parse ts).
Eval vm_compute in ("<<<M3>>>" ++ check (runes_of_ascii "packet Z9_
{@calculatedFrom(
""packet"" //x
)	match a1 as// " ++ [27880; 37322]%N ++ runes_of_ascii "
Packet{
""" ++ [28040; 24687]%N ++ runes_of_ascii """:  i8i8 ,
""it's"":
a1 [// trailing space 
""" ++ [128512]%N ++ runes_of_ascii """,
00
    ]: msg_type ,
""x y"" : x_y_z
, } ,	@calculatedFrom( ""\" ++ [233]%N ++ runes_of_ascii """  ) i8 x_y_z,
}  packet
x_y_z { float32 metadata @lengthOf(
    u128 ) ,} root
    packet MetaDataX	{ //
} 	 ")).
Eval vm_compute in ("<<<M13>>>" ++ check (runes_of_ascii "packet leftPad
// a // b
// c
{@tag(	00 ) int16
    Packet@calculatedFrom( ""a\\""  )  ,}
")).
Eval vm_compute in ("<<<T13>>>" ++ terms [mkTok 35 "packet" 1 0 false; mkTok 42 "leftPad" 1 7 false; mkTok 44 "// a // b" 2 0 true; mkTok 44 "// c" 3 0 true; mkTok 2 "{" 4 0 false; mkTok 9 "@tag(" 4 1 false; mkTok 30 "00" 4 7 false; mkTok 6 ")" 4 10 false; mkTok 25 "int16" 4 12 false; mkTok 42 "Packet" 5 4 false; mkTok 5 "@calculatedFrom(" 5 10 false; mkTok 31 """a\\""" 5 27 false; mkTok 6 ")" 5 34 false; mkTok 40 "," 5 37 false; mkTok 3 "}" 5 38 false; mkTok 0 "<EOF>" 6 0 false] (mkPacket (mkPtok 35 "packet" 1 0 0) (Some (mkPtok 3 "}" 5 38 14)) [(DPacket (mkPacketDef (mkSpan (mkPtok 35 "packet" 1 0 0) (mkPtok 3 "}" 5 38 14)) None (mkPtok 35 "packet" 1 0 0) (mkPtok 42 "leftPad" 1 7 1) (mkPtok 2 "{" 4 0 4) [(mkFieldWithAttr (mkSpan (mkPtok 9 "@tag(" 4 1 5) (mkPtok 40 "," 5 37 13)) [(FATag (mkSpan (mkPtok 9 "@tag(" 4 1 5) (mkPtok 6 ")" 4 10 7)) (mkTagAttr (mkSpan (mkPtok 9 "@tag(" 4 1 5) (mkPtok 6 ")" 4 10 7)) (mkPtok 9 "@tag(" 4 1 5) (mkPtok 30 "00" 4 7 6) (mkPtok 6 ")" 4 10 7)))] (CheckSumField (mkSpan (mkPtok 25 "int16" 4 12 8) (mkPtok 40 "," 5 37 13)) (mkChecksumFieldDecl (mkSpan (mkPtok 25 "int16" 4 12 8) (mkPtok 40 "," 5 37 13)) (Some (TyBasic (mkSpan (mkPtok 25 "int16" 4 12 8) (mkPtok 25 "int16" 4 12 8)) (mkBasicType (mkSpan (mkPtok 25 "int16" 4 12 8) (mkPtok 25 "int16" 4 12 8)) (mkPtok 25 "int16" 4 12 8)))) (mkPtok 42 "Packet" 5 4 9) (mkCalculatedFrom (mkSpan (mkPtok 5 "@calculatedFrom(" 5 10 10) (mkPtok 6 ")" 5 34 12)) (mkPtok 5 "@calculatedFrom(" 5 10 10) (mkPtok 31 """a\\""" 5 27 11) (mkPtok 6 ")" 5 34 12)) None (mkPtok 40 "," 5 37 13))))] (mkPtok 3 "}" 5 38 14)))])).
Eval vm_compute in ("<<<M23>>>" ++ check (runes_of_ascii "packet MetaDataX  { char[] Pad ,@calculatedFrom( ""a	b"" // a // b
) match
options1 as	falsey
{
""CRC32""// trailing space 
:
    Pad ,[0
,""" ++ [128512]%N ++ runes_of_ascii """ ,
    ""\n"" ,4294967296 ,
""packet"", """" , 3 ] : pack// `tick` ""quote"" 'q'
, """ ++ [233]%N ++ runes_of_ascii "t" ++ [233]%N ++ runes_of_ascii """ :
    MetaDataX , 42 : chars , } , repeat string Packet , @leftPad /// triple
( '0'
    )	zchar[65535 ] charz
    @calculatedFrom(
""packet"" ) `{ , }`
    , char i8i8	, int16 Pad @calculatedFrom(
    ""`tick`""
    ) `say ""hi""` ,u8	pack
    , repeat  i8i8 metadata
`a\`	, u body , uint64 packetx @calculatedFrom( ""CRC32"" ), }")).
Eval vm_compute in ("<<<M33>>>" ++ check (runes_of_ascii "
options {BodyLength =false	; Z9_ = string;
chars
=false
}	MetaData
x // `tick` ""quote"" 'q'
{ i8 /// triple
tag, }
")).
Eval vm_compute in ("<<<M43>>>" ++ check (runes_of_ascii "  root packet
Z9_ { } root
packet
MetaDataX{ string Foo `u8 x,` , @rightPad ( '\x00'
    ) repeat metadata `tab	here` , repeat
    string
    // `tick` ""quote"" 'q'
    A
,
repeat zchar
//x
//x
,// " ++ [27880; 37322]%N ++ runes_of_ascii "
@calculatedFrom( ""`tick`"" )
u16 body// `tick` ""quote"" 'q'
@calculatedFrom(
// a // b
// a // b
""a	b""
) //	t
, f32
    // " ++ [128512]%N ++ runes_of_ascii " emoji
    packetx
, match options1 as rootA{
3 : _x , ""abc"" //	t
: i64_,  ""CRC32""	: // c
i64_ [
    ""{,}"" ]:  repeatCount
    // packet A { u8 x, }
    , //	t
"""" :/// triple
x_y_z, }  , @lengthOf( Z9_
) match MetaDataX as //	t
int
    { """" :tag [ 0 , 0123456789 ,
00 , 65535,""" ++ [233]%N ++ runes_of_ascii "t" ++ [233]%N ++ runes_of_ascii """
] : rootA , ""CRC32""
    :
BodyLength// a // b
[ ""{,}"" , 42 ] : // a // b
body,	""`tick`"": charz
    }, repeat
    string MetaDataX, } //x")).
Eval vm_compute in ("<<<M53>>>" ++ check (runes_of_ascii "

")).
Eval vm_compute in ("<<<M63>>>" ++ check (runes_of_ascii "root packet
int
{ @lengthOf(BodyLength ) trueish ,//	t
repeat falsey { string
    MetaDataX
,}, @lengthOf( BodyLength )	@lengthOf(
    //x
    trueish ) @lengthOf( rootA) zchar[ 00 ] Z9_ `" ++ [233]%N ++ runes_of_ascii "` ,// `tick` ""quote"" 'q'
} root packet
    roots{
@leftPad
( )
    string//x
metadata@lengthOf( Header //	t
) `` ,	repeat string
leftPad ,
    i8 f32a
@lengthOf(  packetx ),
@calculatedFrom(// c
""a\""b"")	char[] u8x
    //x
    ``
, } options{ msg_type
    // a // b
    = u8	;
// c
// c
}
")).
Eval vm_compute in ("<<<M73>>>" ++ check (runes_of_ascii "
root packet asx {zchar[0123456789
    ]matchKey@calculatedFrom( """ ++ [28040; 24687]%N ++ runes_of_ascii """
    )
    , repeat // " ++ [27880; 37322]%N ++ runes_of_ascii "
uint32 _x `crlf
line`, } root packet As{ }
packet
tag {
}
    packet Pad { string_
@calculatedFrom( """ ++ [233]%N ++ runes_of_ascii "t" ++ [233]%N ++ runes_of_ascii """
) , f32 uint8x@calculatedFrom( /// triple
""\n"" )
,
}")).
Eval vm_compute in ("<<<M83>>>" ++ check (runes_of_ascii "MetaData repeatCount{ Pad options1 , }
")).
Eval vm_compute in ("<<<T83>>>" ++ terms [mkTok 37 "MetaData" 1 0 false; mkTok 42 "repeatCount" 1 9 false; mkTok 2 "{" 1 20 false; mkTok 42 "Pad" 1 22 false; mkTok 42 "options1" 1 26 false; mkTok 40 "," 1 35 false; mkTok 3 "}" 1 37 false; mkTok 0 "<EOF>" 2 0 false] (mkPacket (mkPtok 37 "MetaData" 1 0 0) (Some (mkPtok 3 "}" 1 37 6)) [(DMeta (mkMetaDef (mkSpan (mkPtok 37 "MetaData" 1 0 0) (mkPtok 3 "}" 1 37 6)) (mkPtok 37 "MetaData" 1 0 0) (mkPtok 42 "repeatCount" 1 9 1) (mkPtok 2 "{" 1 20 2) [(MIRef (mkRefMetaDecl (mkSpan (mkPtok 42 "Pad" 1 22 3) (mkPtok 40 "," 1 35 5)) (mkPtok 42 "Pad" 1 22 3) (mkPtok 42 "options1" 1 26 4) None (mkPtok 40 "," 1 35 5)))] (mkPtok 3 "}" 1 37 6)))])).
Eval vm_compute in ("<<<M93>>>" ++ check (runes_of_ascii "packet len {char[
/// triple
// c
3 ] float ,
@lengthOf( falsey
) zchar[ 1
]tag @lengthOf( roots ) `tab	here` ,
    @lengthOf( o
) @calculatedFrom( ""// no comment""
    )
@calculatedFrom( ""`tick`""
)
// c
/// triple
falsey @lengthOf(
crc ),
@rightPad
( '0' )@leftPad(
    '\x00'
)@rightPad( '0'
    ) char[] Pad `doc`
,
    } MetaData
u  { body  packetx , metadata
MetaDataX , f32a Z9_`say ""hi""` , } packet rootA { options1
@calculatedFrom( ""packet"" )`two words` ,@lengthOf( u8x
) char[007
]
float ,//	t
@calculatedFrom( ""\n"" )@tag(255	) match len as As { 3: u[ // packet A { u8 x, }
""abc""
,
""a\\""  ] :Header
0
:
    i8i8 00
    :
    charz
    // a // b
    , } , }
")).
Eval vm_compute in ("<<<M103>>>" ++ check (runes_of_ascii "root packet
chars { calculatedFrom Foo, @calculatedFrom( ""a	b"" )
    o asx, @rightPad
( ' ')
    // trailing space 
    float @calculatedFrom(""1""  )`line1
line2` , @leftPad
// a // b
//
(
) @calculatedFrom( ""a	b"" ) @tag(  10 )
    Packet@calculatedFrom(
    ""packet"" )
    , @tag(
    00 ) @calculatedFrom( ""`tick`"" )  @leftPad (
    // " ++ [128512]%N ++ runes_of_ascii " emoji
    '\x00') match Z9_ as metadata { ""\n"" :u8x	,	[ 00	,
    //x
    42
,	""a\""b"" ,""CRC32"",10 ]
    :  len , """ ++ [233]%N ++ runes_of_ascii "t" ++ [233]%N ++ runes_of_ascii """ : As , 1:
o  , [0
,
""1""
    ,
// packet A { u8 x, }
/// triple
10 ,""CRC32"" , 007 ,
    255,""a	b""]:
    // " ++ [27880; 37322]%N ++ runes_of_ascii "
    Pad ,
},
    }
")).
Eval vm_compute in ("<<<M113>>>" ++ check (runes_of_ascii "MetaData len {
    BodyLength charz
    // " ++ [128512]%N ++ runes_of_ascii " emoji
    `` ,} //")).
Eval vm_compute in ("<<<M123>>>" ++ check (runes_of_ascii "//
MetaData// trailing space 
metadata{
u32 Header ,	_x
Pad
, // trailing space 
x_y_z u8x
// " ++ [27880; 37322]%N ++ runes_of_ascii "
//	t
`say ""hi""` , char[] Logon
    ,	}")).
Eval vm_compute in ("<<<M133>>>" ++ check (runes_of_ascii "// `tick` ""quote"" 'q'
packet u128//
{ @rightPad ( ' ' ) @calculatedFrom(
""a\\"") @tag( 0) uint64 tag// `tick` ""quote"" 'q'
@calculatedFrom(
    ""a	b"" ), f32 body
    @calculatedFrom(
    ""1"" ) ,
@rightPad (
    //	t
    '0' ) @lengthOf(
    a1 ) // @lengthOf(
repeat zchar[ 7] options1, repeat
float32 leftPad	,
char[	4294967296
]
falsey @calculatedFrom(
""a	b"") `{ , }` ,
@leftPad	( '0'
    )i8i8{
x @calculatedFrom( ""a\""b"" ) ,
//x
// " ++ [27880; 37322]%N ++ runes_of_ascii "
repeat  uint32 leftPad
    , zchar[ 007 // a // b
] string_ , },@calculatedFrom( ""\n"") charz
    `tab	here` , @lengthOf(uint8x )
match
u8x  as falsey { """ ++ [233]%N ++ runes_of_ascii "t" ++ [233]%N ++ runes_of_ascii """ // c
:len 10:
    options1
}
,repeat u8x
    { char[ 3 ]calculatedFrom `it's` ,uint64 stringy
, repeat
uint8 Z9_
`" ++ [28040; 24687; 31867; 22411]%N ++ runes_of_ascii "`
    , }
, match asx
    // trailing space 
    as
    Pad
{	1 :
// a // b
// " ++ [27880; 37322]%N ++ runes_of_ascii "
len, 4294967296	:
    BodyLength , [ ""it's"" ]	:
    //x
    repeatCount
    // `tick` ""quote"" 'q'
    , ""a\\""
    :	body , """ ++ [233]%N ++ runes_of_ascii "t" ++ [233]%N ++ runes_of_ascii """ :x_y_z
42 :
zchar
, } ,
}
// packet A { u8 x, }
")).
Eval vm_compute in ("<<<M143>>>" ++ check (runes_of_ascii "packet asx { }")).
Eval vm_compute in ("<<<M153>>>" ++ check (runes_of_ascii "root packet
i64_ { asx	,Logon`two words`
    ,} root packet	asx {
tag `u8 x,` ,	}	root packet
msg_type {
@calculatedFrom( ""\n"" )
body { //	t
i16 // trailing space 
lengthOf
`doc`
, f32a
    @lengthOf( calculatedFrom
) `{ , }` , // " ++ [27880; 37322]%N ++ runes_of_ascii "
} ,
    @calculatedFrom(""\" ++ [233]%N ++ runes_of_ascii """ )// " ++ [128512]%N ++ runes_of_ascii " emoji
o
    stringy // packet A { u8 x, }
, @lengthOf( packetx
)
@lengthOf(stringy )
@calculatedFrom(	""{,}""
    ) repeat u8 Pad , string lengthOf @calculatedFrom(
    """" )
    //x
    `" ++ [233]%N ++ runes_of_ascii "` , }
// `tick` ""quote"" 'q'
")).
Eval vm_compute in ("<<<T153>>>" ++ terms [mkTok 34 "root" 1 0 false; mkTok 35 "packet" 1 5 false; mkTok 42 "i64_" 2 0 false; mkTok 2 "{" 2 5 false; mkTok 42 "asx" 2 7 false; mkTok 40 "," 2 11 false; mkTok 42 "Logon" 2 12 false; mkTok 43 "`two words`" 2 17 false; mkTok 40 "," 3 4 false; mkTok 3 "}" 3 5 false; mkTok 34 "root" 3 7 false; mkTok 35 "packet" 3 12 false; mkTok 42 "asx" 3 19 false; mkTok 2 "{" 3 23 false; mkTok 42 "tag" 4 0 false; mkTok 43 "`u8 x,`" 4 4 false; mkTok 40 "," 4 12 false; mkTok 3 "}" 4 14 false; mkTok 34 "root" 4 16 false; mkTok 35 "packet" 4 21 false; mkTok 42 "msg_type" 5 0 false; mkTok 2 "{" 5 9 false; mkTok 5 "@calculatedFrom(" 6 0 false; mkTok 31 """\n""" 6 17 false; mkTok 6 ")" 6 22 false; mkTok 42 "body" 7 0 false; mkTok 2 "{" 7 5 false; mkTok 44 (string_of_bytes [47; 47; 9; 116]%N) 7 7 true; mkTok 25 "i16" 8 0 false; mkTok 44 "// trailing space " 8 4 true; mkTok 42 "lengthOf" 9 0 false; mkTok 43 "`doc`" 10 0 false; mkTok 40 "," 11 0 false; mkTok 42 "f32a" 11 2 false; mkTok 7 "@lengthOf(" 12 4 false; mkTok 42 "calculatedFrom" 12 15 false; mkTok 6 ")" 13 0 false; mkTok 43 "`{ , }`" 13 2 false; mkTok 40 "," 13 10 false; mkTok 44 (string_of_bytes [47; 47; 32; 230; 179; 168; 233; 135; 138]%N) 13 12 true; mkTok 3 "}" 14 0 false; mkTok 40 "," 14 2 false; mkTok 5 "@calculatedFrom(" 15 4 false; mkTok 31 (string_of_bytes [34; 92; 195; 169; 34]%N) 15 20 false; mkTok 6 ")" 15 25 false; mkTok 44 (string_of_bytes [47; 47; 32; 240; 159; 152; 128; 32; 101; 109; 111; 106; 105]%N) 15 26 true; mkTok 42 "o" 16 0 false; mkTok 42 "stringy" 17 4 false; mkTok 44 "// packet A { u8 x, }" 17 12 true; mkTok 40 "," 18 0 false; mkTok 7 "@lengthOf(" 18 2 false; mkTok 42 "packetx" 18 13 false; mkTok 6 ")" 19 0 false; mkTok 7 "@lengthOf(" 20 0 false; mkTok 42 "stringy" 20 10 false; mkTok 6 ")" 20 18 false; mkTok 5 "@calculatedFrom(" 21 0 false; mkTok 31 """{,}""" 21 17 false; mkTok 6 ")" 22 4 false; mkTok 36 "repeat" 22 6 false; mkTok 20 "u8" 22 13 false; mkTok 42 "Pad" 22 16 false; mkTok 40 "," 22 20 false; mkTok 15 "string" 22 22 false; mkTok 42 "lengthOf" 22 29 false; mkTok 5 "@calculatedFrom(" 22 38 false; mkTok 31 """""" 23 4 false; mkTok 6 ")" 23 7 false; mkTok 44 "//x" 24 4 true; mkTok 43 (string_of_bytes [96; 195; 169; 96]%N) 25 4 false; mkTok 40 "," 25 8 false; mkTok 3 "}" 25 10 false; mkTok 44 "// `tick` ""quote"" 'q'" 26 0 true; mkTok 0 "<EOF>" 27 0 false] (mkPacket (mkPtok 34 "root" 1 0 0) (Some (mkPtok 3 "}" 25 10 71)) [(DPacket (mkPacketDef (mkSpan (mkPtok 34 "root" 1 0 0) (mkPtok 3 "}" 3 5 9)) (Some (mkPtok 34 "root" 1 0 0)) (mkPtok 35 "packet" 1 5 1) (mkPtok 42 "i64_" 2 0 2) (mkPtok 2 "{" 2 5 3) [(mkFieldWithAttr (mkSpan (mkPtok 42 "asx" 2 7 4) (mkPtok 40 "," 2 11 5)) [] (ObjectField (mkSpan (mkPtok 42 "asx" 2 7 4) (mkPtok 40 "," 2 11 5)) None (mkPtok 42 "asx" 2 7 4) None None (mkPtok 40 "," 2 11 5))); (mkFieldWithAttr (mkSpan (mkPtok 42 "Logon" 2 12 6) (mkPtok 40 "," 3 4 8)) [] (ObjectField (mkSpan (mkPtok 42 "Logon" 2 12 6) (mkPtok 40 "," 3 4 8)) None (mkPtok 42 "Logon" 2 12 6) None (Some (mkPtok 43 "`two words`" 2 17 7)) (mkPtok 40 "," 3 4 8)))] (mkPtok 3 "}" 3 5 9))); (DPacket (mkPacketDef (mkSpan (mkPtok 34 "root" 3 7 10) (mkPtok 3 "}" 4 14 17)) (Some (mkPtok 34 "root" 3 7 10)) (mkPtok 35 "packet" 3 12 11) (mkPtok 42 "asx" 3 19 12) (mkPtok 2 "{" 3 23 13) [(mkFieldWithAttr (mkSpan (mkPtok 42 "tag" 4 0 14) (mkPtok 40 "," 4 12 16)) [] (ObjectField (mkSpan (mkPtok 42 "tag" 4 0 14) (mkPtok 40 "," 4 12 16)) None (mkPtok 42 "tag" 4 0 14) None (Some (mkPtok 43 "`u8 x,`" 4 4 15)) (mkPtok 40 "," 4 12 16)))] (mkPtok 3 "}" 4 14 17))); (DPacket (mkPacketDef (mkSpan (mkPtok 34 "root" 4 16 18) (mkPtok 3 "}" 25 10 71)) (Some (mkPtok 34 "root" 4 16 18)) (mkPtok 35 "packet" 4 21 19) (mkPtok 42 "msg_type" 5 0 20) (mkPtok 2 "{" 5 9 21) [(mkFieldWithAttr (mkSpan (mkPtok 5 "@calculatedFrom(" 6 0 22) (mkPtok 40 "," 14 2 41)) [(FACalculatedFrom (mkSpan (mkPtok 5 "@calculatedFrom(" 6 0 22) (mkPtok 6 ")" 6 22 24)) (mkCalculatedFrom (mkSpan (mkPtok 5 "@calculatedFrom(" 6 0 22) (mkPtok 6 ")" 6 22 24)) (mkPtok 5 "@calculatedFrom(" 6 0 22) (mkPtok 31 """\n""" 6 17 23) (mkPtok 6 ")" 6 22 24)))] (InerObjectField (mkSpan (mkPtok 42 "body" 7 0 25) (mkPtok 40 "," 14 2 41)) None (InerObjectDecl (mkSpan (mkPtok 42 "body" 7 0 25) (mkPtok 3 "}" 14 0 40)) (mkPtok 42 "body" 7 0 25) (mkPtok 2 "{" 7 5 26) [(MetaField (mkSpan (mkPtok 25 "i16" 8 0 28) (mkPtok 40 "," 11 0 32)) None (mkMetaDecl (mkSpan (mkPtok 25 "i16" 8 0 28) (mkPtok 40 "," 11 0 32)) (TyBasic (mkSpan (mkPtok 25 "i16" 8 0 28) (mkPtok 25 "i16" 8 0 28)) (mkBasicType (mkSpan (mkPtok 25 "i16" 8 0 28) (mkPtok 25 "i16" 8 0 28)) (mkPtok 25 "i16" 8 0 28))) (mkPtok 42 "lengthOf" 9 0 30) (Some (mkPtok 43 "`doc`" 10 0 31)) (mkPtok 40 "," 11 0 32))); (LengthField (mkSpan (mkPtok 42 "f32a" 11 2 33) (mkPtok 40 "," 13 10 38)) (mkLengthFieldDecl (mkSpan (mkPtok 42 "f32a" 11 2 33) (mkPtok 40 "," 13 10 38)) None (mkPtok 42 "f32a" 11 2 33) (mkLengthOf (mkSpan (mkPtok 7 "@lengthOf(" 12 4 34) (mkPtok 6 ")" 13 0 36)) (mkPtok 7 "@lengthOf(" 12 4 34) (mkPtok 42 "calculatedFrom" 12 15 35) (mkPtok 6 ")" 13 0 36)) (Some (mkPtok 43 "`{ , }`" 13 2 37)) (mkPtok 40 "," 13 10 38)))] (mkPtok 3 "}" 14 0 40)) (mkPtok 40 "," 14 2 41))); (mkFieldWithAttr (mkSpan (mkPtok 5 "@calculatedFrom(" 15 4 42) (mkPtok 40 "," 18 0 49)) [(FACalculatedFrom (mkSpan (mkPtok 5 "@calculatedFrom(" 15 4 42) (mkPtok 6 ")" 15 25 44)) (mkCalculatedFrom (mkSpan (mkPtok 5 "@calculatedFrom(" 15 4 42) (mkPtok 6 ")" 15 25 44)) (mkPtok 5 "@calculatedFrom(" 15 4 42) (mkPtok 31 (string_of_bytes [34; 92; 195; 169; 34]%N) 15 20 43) (mkPtok 6 ")" 15 25 44)))] (ObjectField (mkSpan (mkPtok 42 "o" 16 0 46) (mkPtok 40 "," 18 0 49)) None (mkPtok 42 "o" 16 0 46) (Some (mkPtok 42 "stringy" 17 4 47)) None (mkPtok 40 "," 18 0 49))); (mkFieldWithAttr (mkSpan (mkPtok 7 "@lengthOf(" 18 2 50) (mkPtok 40 "," 22 20 62)) [(FALengthOf (mkSpan (mkPtok 7 "@lengthOf(" 18 2 50) (mkPtok 6 ")" 19 0 52)) (mkLengthOf (mkSpan (mkPtok 7 "@lengthOf(" 18 2 50) (mkPtok 6 ")" 19 0 52)) (mkPtok 7 "@lengthOf(" 18 2 50) (mkPtok 42 "packetx" 18 13 51) (mkPtok 6 ")" 19 0 52))); (FALengthOf (mkSpan (mkPtok 7 "@lengthOf(" 20 0 53) (mkPtok 6 ")" 20 18 55)) (mkLengthOf (mkSpan (mkPtok 7 "@lengthOf(" 20 0 53) (mkPtok 6 ")" 20 18 55)) (mkPtok 7 "@lengthOf(" 20 0 53) (mkPtok 42 "stringy" 20 10 54) (mkPtok 6 ")" 20 18 55))); (FACalculatedFrom (mkSpan (mkPtok 5 "@calculatedFrom(" 21 0 56) (mkPtok 6 ")" 22 4 58)) (mkCalculatedFrom (mkSpan (mkPtok 5 "@calculatedFrom(" 21 0 56) (mkPtok 6 ")" 22 4 58)) (mkPtok 5 "@calculatedFrom(" 21 0 56) (mkPtok 31 """{,}""" 21 17 57) (mkPtok 6 ")" 22 4 58)))] (MetaField (mkSpan (mkPtok 36 "repeat" 22 6 59) (mkPtok 40 "," 22 20 62)) (Some (mkPtok 36 "repeat" 22 6 59)) (mkMetaDecl (mkSpan (mkPtok 20 "u8" 22 13 60) (mkPtok 40 "," 22 20 62)) (TyBasic (mkSpan (mkPtok 20 "u8" 22 13 60) (mkPtok 20 "u8" 22 13 60)) (mkBasicType (mkSpan (mkPtok 20 "u8" 22 13 60) (mkPtok 20 "u8" 22 13 60)) (mkPtok 20 "u8" 22 13 60))) (mkPtok 42 "Pad" 22 16 61) None (mkPtok 40 "," 22 20 62)))); (mkFieldWithAttr (mkSpan (mkPtok 15 "string" 22 22 63) (mkPtok 40 "," 25 8 70)) [] (CheckSumField (mkSpan (mkPtok 15 "string" 22 22 63) (mkPtok 40 "," 25 8 70)) (mkChecksumFieldDecl (mkSpan (mkPtok 15 "string" 22 22 63) (mkPtok 40 "," 25 8 70)) (Some (TyDynamic (mkSpan (mkPtok 15 "string" 22 22 63) (mkPtok 15 "string" 22 22 63)) (mkDynamicString (mkSpan (mkPtok 15 "string" 22 22 63) (mkPtok 15 "string" 22 22 63)) (mkPtok 15 "string" 22 22 63)))) (mkPtok 42 "lengthOf" 22 29 64) (mkCalculatedFrom (mkSpan (mkPtok 5 "@calculatedFrom(" 22 38 65) (mkPtok 6 ")" 23 7 67)) (mkPtok 5 "@calculatedFrom(" 22 38 65) (mkPtok 31 """""" 23 4 66) (mkPtok 6 ")" 23 7 67)) (Some (mkPtok 43 (string_of_bytes [96; 195; 169; 96]%N) 25 4 69)) (mkPtok 40 "," 25 8 70))))] (mkPtok 3 "}" 25 10 71)))])).
Eval vm_compute in ("<<<M163>>>" ++ check (runes_of_ascii "root packet	o {
u64 trueish `u8 x,` , repeat u	{
u32 x
,i64 falsey `{ , }`
    // `tick` ""quote"" 'q'
    , repeat packetx
{
char[0123456789 ]u`line1
line2` , Header @lengthOf( x
//x
//	t
) ,	match len as
// " ++ [128512]%N ++ runes_of_ascii " emoji
// packet A { u8 x, }
BodyLength
    { ""a\""b"" :rootA ,10 :
calculatedFrom ,
    } , } , } , uint32  zchar @lengthOf(metadata
)`doc`, }
")).
Eval vm_compute in ("<<<M173>>>" ++ check (runes_of_ascii "root packet
MetaDataX {	repeat Foo packetx// c
`` , } 	 ")).
Eval vm_compute in ("<<<M183>>>" ++ check (runes_of_ascii "
root packet body { char[] matchKey
`crlf
line` , } packet string_
    // trailing space 
    { // trailing space 
} root packet f32a { @lengthOf( stringy )
    f32 i64_
    @lengthOf(
o) `line1
line2` , //x
repeat charz	As`line1
line2` , options1 _x , }
")).
Eval vm_compute in ("<<<M193>>>" ++ check (runes_of_ascii "packet x_y_z { lengthOf int `two words` ,@calculatedFrom( ""x y"" ) char[] leftPad// packet A { u8 x, }
@lengthOf(
    // a // b
    roots
) `" ++ [233]%N ++ runes_of_ascii "` ,
u8x { match uint8x as BodyLength { ""it's"" : trueish
, } ,
u64	msg_type  `a\`,} ,
    zchar[  65535
    //
    ] string_  ,	@tag(  3 )
    // trailing space 
    zchar[
42 ]
matchKey ,
int32 pack , u32 As `` , @tag( // " ++ [128512]%N ++ runes_of_ascii " emoji
00 )
len	`say ""hi""` ,int16  u8x
@lengthOf( u8x )
,
}
")).
Eval vm_compute in ("<<<M203>>>" ++ check (runes_of_ascii "
root packet charz  { u8x {
Header //
{
    match chars as chars {
    [  """ ++ [233]%N ++ runes_of_ascii "t" ++ [233]%N ++ runes_of_ascii """ , ""packet"" ] :i64_ , [ 10,""a\\""
] : packetx // " ++ [27880; 37322]%N ++ runes_of_ascii "
, } ,len @lengthOf( body) ,
    } , }
,
    match
    x as stringy { 0
: int ,4294967296 : zchar //x
,
65535 :
metadata ,[""abc""
,10
    ,
10  ,
4294967296 ,""x y"" ]:chars , 0 : Packet, ""CRC32"":u8x } ,falsey @lengthOf( trueish )
`" ++ [28040; 24687; 31867; 22411]%N ++ runes_of_ascii "` , char[
    // a // b
    3 ]
    x ,}
packet
    repeatCount { char[ 4294967296 ] Logon `" ++ [233]%N ++ runes_of_ascii "`,  @lengthOf(// " ++ [128512]%N ++ runes_of_ascii " emoji
Z9_ ) @tag(
10 ) x_y_z float `{ , }` , roots /// triple
`two words`, match x_y_z as leftPad {
    ""\" ++ [233]%N ++ runes_of_ascii """
:u8x  , } ,@rightPad (  '0' ) repeat
    metadata tag`" ++ [28040; 24687; 31867; 22411]%N ++ runes_of_ascii "`
    ,
    // packet A { u8 x, }
    chars , pack @lengthOf(
    //x
    rootA	)
`crlf
line`, body ,@leftPad()zchar[ 7 ]  MetaDataX @calculatedFrom(
    ""a\\"" )
    , zchar[ 3]
f32a
    ,}
    root packet zchar //
{
@lengthOf(uint8x)	float32 packetx
    , } root packet BodyLength
    {int64
    //	t
    uint8x
    `it's`
    ,}packet string_// trailing space 
{ }

")).
Eval vm_compute in ("<<<M213>>>" ++ check (runes_of_ascii "packet x	{
    float32
uint8x // c
@calculatedFrom(
    ""CRC32""  )
``
,repeat chars ``, }")).
Eval vm_compute in ("<<<M223>>>" ++ check (runes_of_ascii "// `tick` ""quote"" 'q'
packet uint8x{ // `tick` ""quote"" 'q'
match As
as
int {[ 4294967296
    , """ ++ [233]%N ++ runes_of_ascii "t" ++ [233]%N ++ runes_of_ascii """,
""" ++ [233]%N ++ runes_of_ascii "t" ++ [233]%N ++ runes_of_ascii """ ,//
""1"",""{,}"" ,255 , 7 , ""\" ++ [233]%N ++ runes_of_ascii """ ] : Foo , ""x y""
    // " ++ [27880; 37322]%N ++ runes_of_ascii "
    : BodyLength ,""CRC32""
:	crc
    ,	4294967296: rootA,//	t
00 :	rootA
    , } , @tag(
0123456789
)
A
body `a\` , i8i8, u8x T , Packet Foo `" ++ [28040; 24687; 31867; 22411]%N ++ runes_of_ascii "`, f32a @calculatedFrom( """"// packet A { u8 x, }
) //
, repeat  u8x { // " ++ [128512]%N ++ runes_of_ascii " emoji
char[0123456789
// " ++ [128512]%N ++ runes_of_ascii " emoji
// packet A { u8 x, }
]  o `a\`,
    char
u8x
,  } , @calculatedFrom( ""a\\"" ) repeat
options1 trueish
    // a // b
    ,
repeat
char[ 42 ] u8x, }
")).
Eval vm_compute in ("<<<T223>>>" ++ terms [mkTok 44 "// `tick` ""quote"" 'q'" 1 0 true; mkTok 35 "packet" 2 0 false; mkTok 42 "uint8x" 2 7 false; mkTok 2 "{" 2 13 false; mkTok 44 "// `tick` ""quote"" 'q'" 2 15 true; mkTok 38 "match" 3 0 false; mkTok 42 "As" 3 6 false; mkTok 17 "as" 4 0 false; mkTok 42 "int" 5 0 false; mkTok 2 "{" 5 4 false; mkTok 18 "[" 5 5 false; mkTok 30 "4294967296" 5 7 false; mkTok 40 "," 6 4 false; mkTok 31 (string_of_bytes [34; 195; 169; 116; 195; 169; 34]%N) 6 6 false; mkTok 40 "," 6 11 false; mkTok 31 (string_of_bytes [34; 195; 169; 116; 195; 169; 34]%N) 7 0 false; mkTok 40 "," 7 6 false; mkTok 44 "//" 7 7 true; mkTok 31 """1""" 8 0 false; mkTok 40 "," 8 3 false; mkTok 31 """{,}""" 8 4 false; mkTok 40 "," 8 10 false; mkTok 30 "255" 8 11 false; mkTok 40 "," 8 15 false; mkTok 30 "7" 8 17 false; mkTok 40 "," 8 19 false; mkTok 31 (string_of_bytes [34; 92; 195; 169; 34]%N) 8 21 false; mkTok 13 "]" 8 26 false; mkTok 39 ":" 8 28 false; mkTok 42 "Foo" 8 30 false; mkTok 40 "," 8 34 false; mkTok 31 """x y""" 8 36 false; mkTok 44 (string_of_bytes [47; 47; 32; 230; 179; 168; 233; 135; 138]%N) 9 4 true; mkTok 39 ":" 10 4 false; mkTok 42 "BodyLength" 10 6 false; mkTok 40 "," 10 17 false; mkTok 31 """CRC32""" 10 18 false; mkTok 39 ":" 11 0 false; mkTok 42 "crc" 11 2 false; mkTok 40 "," 12 4 false; mkTok 30 "4294967296" 12 6 false; mkTok 39 ":" 12 16 false; mkTok 42 "rootA" 12 18 false; mkTok 40 "," 12 23 false; mkTok 44 (string_of_bytes [47; 47; 9; 116]%N) 12 24 true; mkTok 30 "00" 13 0 false; mkTok 39 ":" 13 3 false; mkTok 42 "rootA" 13 5 false; mkTok 40 "," 14 4 false; mkTok 3 "}" 14 6 false; mkTok 40 "," 14 8 false; mkTok 9 "@tag(" 14 10 false; mkTok 30 "0123456789" 15 0 false; mkTok 6 ")" 16 0 false; mkTok 42 "A" 17 0 false; mkTok 42 "body" 18 0 false; mkTok 43 "`a\`" 18 5 false; mkTok 40 "," 18 10 false; mkTok 42 "i8i8" 18 12 false; mkTok 40 "," 18 16 false; mkTok 42 "u8x" 18 18 false; mkTok 42 "T" 18 22 false; mkTok 40 "," 18 24 false; mkTok 42 "Packet" 18 26 false; mkTok 42 "Foo" 18 33 false; mkTok 43 (string_of_bytes [96; 230; 182; 136; 230; 129; 175; 231; 177; 187; 229; 158; 139; 96]%N) 18 37 false; mkTok 40 "," 18 43 false; mkTok 42 "f32a" 18 45 false; mkTok 5 "@calculatedFrom(" 18 50 false; mkTok 31 """""" 18 67 false; mkTok 44 "// packet A { u8 x, }" 18 69 true; mkTok 6 ")" 19 0 false; mkTok 44 "//" 19 2 true; mkTok 40 "," 20 0 false; mkTok 36 "repeat" 20 2 false; mkTok 42 "u8x" 20 10 false; mkTok 2 "{" 20 14 false; mkTok 44 (string_of_bytes [47; 47; 32; 240; 159; 152; 128; 32; 101; 109; 111; 106; 105]%N) 20 16 true; mkTok 12 "char[" 21 0 false; mkTok 30 "0123456789" 21 5 false; mkTok 44 (string_of_bytes [47; 47; 32; 240; 159; 152; 128; 32; 101; 109; 111; 106; 105]%N) 22 0 true; mkTok 44 "// packet A { u8 x, }" 23 0 true; mkTok 13 "]" 24 0 false; mkTok 42 "o" 24 3 false; mkTok 43 "`a\`" 24 5 false; mkTok 40 "," 24 9 false; mkTok 19 "char" 25 4 false; mkTok 42 "u8x" 26 0 false; mkTok 40 "," 27 0 false; mkTok 3 "}" 27 3 false; mkTok 40 "," 27 5 false; mkTok 5 "@calculatedFrom(" 27 7 false; mkTok 31 """a\\""" 27 24 false; mkTok 6 ")" 27 30 false; mkTok 36 "repeat" 27 32 false; mkTok 42 "options1" 28 0 false; mkTok 42 "trueish" 28 9 false; mkTok 44 "// a // b" 29 4 true; mkTok 40 "," 30 4 false; mkTok 36 "repeat" 31 0 false; mkTok 12 "char[" 32 0 false; mkTok 30 "42" 32 6 false; mkTok 13 "]" 32 9 false; mkTok 42 "u8x" 32 11 false; mkTok 40 "," 32 14 false; mkTok 3 "}" 32 16 false; mkTok 0 "<EOF>" 33 0 false] (mkPacket (mkPtok 35 "packet" 2 0 1) (Some (mkPtok 3 "}" 32 16 105)) [(DPacket (mkPacketDef (mkSpan (mkPtok 35 "packet" 2 0 1) (mkPtok 3 "}" 32 16 105)) None (mkPtok 35 "packet" 2 0 1) (mkPtok 42 "uint8x" 2 7 2) (mkPtok 2 "{" 2 13 3) [(mkFieldWithAttr (mkSpan (mkPtok 38 "match" 3 0 5) (mkPtok 40 "," 14 8 50)) [] (MatchField (mkSpan (mkPtok 38 "match" 3 0 5) (mkPtok 40 "," 14 8 50)) (mkMatchFieldDecl (mkSpan (mkPtok 38 "match" 3 0 5) (mkPtok 3 "}" 14 6 49)) (mkPtok 38 "match" 3 0 5) (mkPtok 42 "As" 3 6 6) (mkPtok 17 "as" 4 0 7) (mkPtok 42 "int" 5 0 8) (mkPtok 2 "{" 5 4 9) [(mkMatchPair (mkSpan (mkPtok 18 "[" 5 5 10) (mkPtok 40 "," 8 34 30)) (MKList (mkKeyList (mkSpan (mkPtok 18 "[" 5 5 10) (mkPtok 13 "]" 8 26 27)) (mkPtok 18 "[" 5 5 10) (mkPtok 30 "4294967296" 5 7 11) [((mkPtok 40 "," 6 4 12), (mkPtok 31 (string_of_bytes [34; 195; 169; 116; 195; 169; 34]%N) 6 6 13)); ((mkPtok 40 "," 6 11 14), (mkPtok 31 (string_of_bytes [34; 195; 169; 116; 195; 169; 34]%N) 7 0 15)); ((mkPtok 40 "," 7 6 16), (mkPtok 31 """1""" 8 0 18)); ((mkPtok 40 "," 8 3 19), (mkPtok 31 """{,}""" 8 4 20)); ((mkPtok 40 "," 8 10 21), (mkPtok 30 "255" 8 11 22)); ((mkPtok 40 "," 8 15 23), (mkPtok 30 "7" 8 17 24)); ((mkPtok 40 "," 8 19 25), (mkPtok 31 (string_of_bytes [34; 92; 195; 169; 34]%N) 8 21 26))] (mkPtok 13 "]" 8 26 27))) (mkPtok 39 ":" 8 28 28) (mkPtok 42 "Foo" 8 30 29) (Some (mkPtok 40 "," 8 34 30))); (mkMatchPair (mkSpan (mkPtok 31 """x y""" 8 36 31) (mkPtok 40 "," 10 17 35)) (MKString (mkPtok 31 """x y""" 8 36 31)) (mkPtok 39 ":" 10 4 33) (mkPtok 42 "BodyLength" 10 6 34) (Some (mkPtok 40 "," 10 17 35))); (mkMatchPair (mkSpan (mkPtok 31 """CRC32""" 10 18 36) (mkPtok 40 "," 12 4 39)) (MKString (mkPtok 31 """CRC32""" 10 18 36)) (mkPtok 39 ":" 11 0 37) (mkPtok 42 "crc" 11 2 38) (Some (mkPtok 40 "," 12 4 39))); (mkMatchPair (mkSpan (mkPtok 30 "4294967296" 12 6 40) (mkPtok 40 "," 12 23 43)) (MKDigits (mkPtok 30 "4294967296" 12 6 40)) (mkPtok 39 ":" 12 16 41) (mkPtok 42 "rootA" 12 18 42) (Some (mkPtok 40 "," 12 23 43))); (mkMatchPair (mkSpan (mkPtok 30 "00" 13 0 45) (mkPtok 40 "," 14 4 48)) (MKDigits (mkPtok 30 "00" 13 0 45)) (mkPtok 39 ":" 13 3 46) (mkPtok 42 "rootA" 13 5 47) (Some (mkPtok 40 "," 14 4 48)))] (mkPtok 3 "}" 14 6 49)) (mkPtok 40 "," 14 8 50))); (mkFieldWithAttr (mkSpan (mkPtok 9 "@tag(" 14 10 51) (mkPtok 40 "," 18 10 57)) [(FATag (mkSpan (mkPtok 9 "@tag(" 14 10 51) (mkPtok 6 ")" 16 0 53)) (mkTagAttr (mkSpan (mkPtok 9 "@tag(" 14 10 51) (mkPtok 6 ")" 16 0 53)) (mkPtok 9 "@tag(" 14 10 51) (mkPtok 30 "0123456789" 15 0 52) (mkPtok 6 ")" 16 0 53)))] (ObjectField (mkSpan (mkPtok 42 "A" 17 0 54) (mkPtok 40 "," 18 10 57)) None (mkPtok 42 "A" 17 0 54) (Some (mkPtok 42 "body" 18 0 55)) (Some (mkPtok 43 "`a\`" 18 5 56)) (mkPtok 40 "," 18 10 57))); (mkFieldWithAttr (mkSpan (mkPtok 42 "i8i8" 18 12 58) (mkPtok 40 "," 18 16 59)) [] (ObjectField (mkSpan (mkPtok 42 "i8i8" 18 12 58) (mkPtok 40 "," 18 16 59)) None (mkPtok 42 "i8i8" 18 12 58) None None (mkPtok 40 "," 18 16 59))); (mkFieldWithAttr (mkSpan (mkPtok 42 "u8x" 18 18 60) (mkPtok 40 "," 18 24 62)) [] (ObjectField (mkSpan (mkPtok 42 "u8x" 18 18 60) (mkPtok 40 "," 18 24 62)) None (mkPtok 42 "u8x" 18 18 60) (Some (mkPtok 42 "T" 18 22 61)) None (mkPtok 40 "," 18 24 62))); (mkFieldWithAttr (mkSpan (mkPtok 42 "Packet" 18 26 63) (mkPtok 40 "," 18 43 66)) [] (ObjectField (mkSpan (mkPtok 42 "Packet" 18 26 63) (mkPtok 40 "," 18 43 66)) None (mkPtok 42 "Packet" 18 26 63) (Some (mkPtok 42 "Foo" 18 33 64)) (Some (mkPtok 43 (string_of_bytes [96; 230; 182; 136; 230; 129; 175; 231; 177; 187; 229; 158; 139; 96]%N) 18 37 65)) (mkPtok 40 "," 18 43 66))); (mkFieldWithAttr (mkSpan (mkPtok 42 "f32a" 18 45 67) (mkPtok 40 "," 20 0 73)) [] (CheckSumField (mkSpan (mkPtok 42 "f32a" 18 45 67) (mkPtok 40 "," 20 0 73)) (mkChecksumFieldDecl (mkSpan (mkPtok 42 "f32a" 18 45 67) (mkPtok 40 "," 20 0 73)) None (mkPtok 42 "f32a" 18 45 67) (mkCalculatedFrom (mkSpan (mkPtok 5 "@calculatedFrom(" 18 50 68) (mkPtok 6 ")" 19 0 71)) (mkPtok 5 "@calculatedFrom(" 18 50 68) (mkPtok 31 """""" 18 67 69) (mkPtok 6 ")" 19 0 71)) None (mkPtok 40 "," 20 0 73)))); (mkFieldWithAttr (mkSpan (mkPtok 36 "repeat" 20 2 74) (mkPtok 40 "," 27 5 90)) [] (InerObjectField (mkSpan (mkPtok 36 "repeat" 20 2 74) (mkPtok 40 "," 27 5 90)) (Some (mkPtok 36 "repeat" 20 2 74)) (InerObjectDecl (mkSpan (mkPtok 42 "u8x" 20 10 75) (mkPtok 3 "}" 27 3 89)) (mkPtok 42 "u8x" 20 10 75) (mkPtok 2 "{" 20 14 76) [(MetaField (mkSpan (mkPtok 12 "char[" 21 0 78) (mkPtok 40 "," 24 9 85)) None (mkMetaDecl (mkSpan (mkPtok 12 "char[" 21 0 78) (mkPtok 40 "," 24 9 85)) (TyFixed (mkSpan (mkPtok 12 "char[" 21 0 78) (mkPtok 13 "]" 24 0 82)) (mkFixedString (mkSpan (mkPtok 12 "char[" 21 0 78) (mkPtok 13 "]" 24 0 82)) (mkPtok 12 "char[" 21 0 78) (mkPtok 30 "0123456789" 21 5 79) (mkPtok 13 "]" 24 0 82))) (mkPtok 42 "o" 24 3 83) (Some (mkPtok 43 "`a\`" 24 5 84)) (mkPtok 40 "," 24 9 85))); (MetaField (mkSpan (mkPtok 19 "char" 25 4 86) (mkPtok 40 "," 27 0 88)) None (mkMetaDecl (mkSpan (mkPtok 19 "char" 25 4 86) (mkPtok 40 "," 27 0 88)) (TyBasic (mkSpan (mkPtok 19 "char" 25 4 86) (mkPtok 19 "char" 25 4 86)) (mkBasicType (mkSpan (mkPtok 19 "char" 25 4 86) (mkPtok 19 "char" 25 4 86)) (mkPtok 19 "char" 25 4 86))) (mkPtok 42 "u8x" 26 0 87) None (mkPtok 40 "," 27 0 88)))] (mkPtok 3 "}" 27 3 89)) (mkPtok 40 "," 27 5 90))); (mkFieldWithAttr (mkSpan (mkPtok 5 "@calculatedFrom(" 27 7 91) (mkPtok 40 "," 30 4 98)) [(FACalculatedFrom (mkSpan (mkPtok 5 "@calculatedFrom(" 27 7 91) (mkPtok 6 ")" 27 30 93)) (mkCalculatedFrom (mkSpan (mkPtok 5 "@calculatedFrom(" 27 7 91) (mkPtok 6 ")" 27 30 93)) (mkPtok 5 "@calculatedFrom(" 27 7 91) (mkPtok 31 """a\\""" 27 24 92) (mkPtok 6 ")" 27 30 93)))] (ObjectField (mkSpan (mkPtok 36 "repeat" 27 32 94) (mkPtok 40 "," 30 4 98)) (Some (mkPtok 36 "repeat" 27 32 94)) (mkPtok 42 "options1" 28 0 95) (Some (mkPtok 42 "trueish" 28 9 96)) None (mkPtok 40 "," 30 4 98))); (mkFieldWithAttr (mkSpan (mkPtok 36 "repeat" 31 0 99) (mkPtok 40 "," 32 14 104)) [] (MetaField (mkSpan (mkPtok 36 "repeat" 31 0 99) (mkPtok 40 "," 32 14 104)) (Some (mkPtok 36 "repeat" 31 0 99)) (mkMetaDecl (mkSpan (mkPtok 12 "char[" 32 0 100) (mkPtok 40 "," 32 14 104)) (TyFixed (mkSpan (mkPtok 12 "char[" 32 0 100) (mkPtok 13 "]" 32 9 102)) (mkFixedString (mkSpan (mkPtok 12 "char[" 32 0 100) (mkPtok 13 "]" 32 9 102)) (mkPtok 12 "char[" 32 0 100) (mkPtok 30 "42" 32 6 101) (mkPtok 13 "]" 32 9 102))) (mkPtok 42 "u8x" 32 11 103) None (mkPtok 40 "," 32 14 104))))] (mkPtok 3 "}" 32 16 105)))])).
Eval vm_compute in ("<<<M233>>>" ++ check (runes_of_ascii "options { body =	false;  }")).
Eval vm_compute in ("<<<M243>>>" ++ check (runes_of_ascii "MetaData
Logon
{ i64
    matchKey `doc` , // packet A { u8 x, }
}
")).
Eval vm_compute in ("<<<M253>>>" ++ check (@nil rune)).
Eval vm_compute in ("<<<M263>>>" ++ check (runes_of_ascii "packet rootA {
// `tick` ""quote"" 'q'
//
float32 options1// a // b
@lengthOf( _x )
,//	t
int32
    T @calculatedFrom(""\" ++ [233]%N ++ runes_of_ascii """) `a\` ,// c
len @calculatedFrom(
""" ++ [28040; 24687]%N ++ runes_of_ascii """	) `u8 x,`, @calculatedFrom( ""// no comment"" ) repeat len { lengthOf
    @lengthOf( Logon ) `line1
line2` ,}  , crc
/// triple
// " ++ [128512]%N ++ runes_of_ascii " emoji
options1, zchar[
3
    ] Packet	`` , @tag(
0123456789 ) @lengthOf(  u128 ) repeat Logon { calculatedFrom, float64 asx`say ""hi""` , metadata @lengthOf( pack)`u8 x,` ,} ,@tag( 00 ) repeat zchar
    // packet A { u8 x, }
    , }	packet trueish {
    // trailing space 
    }")).
Eval vm_compute in ("<<<M273>>>" ++ check (runes_of_ascii "packet float { i64_  lengthOf`say ""hi""` , match u128
    as packetx  {
[ ""a\""b"" ,""{,}"" ,  ""// no comment""
    ,
00,
""CRC32"" ,""" ++ [128512]%N ++ runes_of_ascii """
    ]: u128 ,	} , }
")).
Eval vm_compute in ("<<<M283>>>" ++ check (runes_of_ascii "packet i8i8{ // " ++ [128512]%N ++ runes_of_ascii " emoji
@calculatedFrom( ""1"" ) char[ 255 ] x
`a\`,repeat
//x
//x
x `
` , match Packet
as matchKey { 0 : leftPad
, },
int8 i64_ `crlf
line` , float32 A `crlf
line`
// `tick` ""quote"" 'q'
/// triple
,
int64 // trailing space 
_x  `line1
line2`
,@rightPad
    (
    //
    '0' ) uint64
    Z9_`" ++ [233]%N ++ runes_of_ascii "`  , repeat char[]	a1 , repeat repeatCount{
As//x
,
    } ,
// `tick` ""quote"" 'q'
//	t
} root packet zchar
    {
repeat// packet A { u8 x, }
len {
x_y_z//x
, i16	trueish	`" ++ [28040; 24687; 31867; 22411]%N ++ runes_of_ascii "`,
},}
")).
Eval vm_compute in ("<<<M293>>>" ++ check (runes_of_ascii "// packet A { u8 x, }
packet Z9_ {
@tag(007// trailing space 
) repeat
i64_ /// triple
,}")).
Eval vm_compute in ("<<<T293>>>" ++ terms [mkTok 44 "// packet A { u8 x, }" 1 0 true; mkTok 35 "packet" 2 0 false; mkTok 42 "Z9_" 2 7 false; mkTok 2 "{" 2 11 false; mkTok 9 "@tag(" 3 0 false; mkTok 30 "007" 3 5 false; mkTok 44 "// trailing space " 3 8 true; mkTok 6 ")" 4 0 false; mkTok 36 "repeat" 4 2 false; mkTok 42 "i64_" 5 0 false; mkTok 44 "/// triple" 5 5 true; mkTok 40 "," 6 0 false; mkTok 3 "}" 6 1 false; mkTok 0 "<EOF>" 6 2 false] (mkPacket (mkPtok 35 "packet" 2 0 1) (Some (mkPtok 3 "}" 6 1 12)) [(DPacket (mkPacketDef (mkSpan (mkPtok 35 "packet" 2 0 1) (mkPtok 3 "}" 6 1 12)) None (mkPtok 35 "packet" 2 0 1) (mkPtok 42 "Z9_" 2 7 2) (mkPtok 2 "{" 2 11 3) [(mkFieldWithAttr (mkSpan (mkPtok 9 "@tag(" 3 0 4) (mkPtok 40 "," 6 0 11)) [(FATag (mkSpan (mkPtok 9 "@tag(" 3 0 4) (mkPtok 6 ")" 4 0 7)) (mkTagAttr (mkSpan (mkPtok 9 "@tag(" 3 0 4) (mkPtok 6 ")" 4 0 7)) (mkPtok 9 "@tag(" 3 0 4) (mkPtok 30 "007" 3 5 5) (mkPtok 6 ")" 4 0 7)))] (ObjectField (mkSpan (mkPtok 36 "repeat" 4 2 8) (mkPtok 40 "," 6 0 11)) (Some (mkPtok 36 "repeat" 4 2 8)) (mkPtok 42 "i64_" 5 0 9) None None (mkPtok 40 "," 6 0 11)))] (mkPtok 3 "}" 6 1 12)))])).
Eval vm_compute in ("<<<M303>>>" ++ check (runes_of_ascii "options {
    StringPrefixLenType = u16;
    ArrayPrefixLenType = u16;
}

packet SampleBinary {
    uint16 MsgType `" ++ [28040; 24687; 31867; 22411]%N ++ runes_of_ascii "`,
    u16 BodyLenght @lengthOf(Body) `" ++ [28040; 24687; 20307; 38271; 24230]%N ++ runes_of_ascii "`,
    match MsgType as Body {
        1 : Logon,
        2 : Logout,
        3 : Heartbeat,
        4 : RiskControlRequest,
        5 : RiskControlResponse,
    },
    @calculatedFrom(""CRC32"")
    u32 Ckecksum `" ++ [26657; 39564; 21644]%N ++ runes_of_ascii "`,
}

packet Logon {
    @leftPad('0')
    char[10] UserName `" ++ [29992; 25143; 21517]%N ++ runes_of_ascii "`,
    string Password `" ++ [23494; 30721]%N ++ runes_of_ascii "`,
    uint64 ClientId `" ++ [23458; 25143; 31471]%N ++ runes_of_ascii "ID`,
    u16 HeartbeatInterval `" ++ [24515; 36339; 38388; 38548]%N ++ runes_of_ascii "`,
}

packet Logout {
    @rightPad('0')
    char[10] UserName `" ++ [29992; 25143; 21517]%N ++ runes_of_ascii "`,
    uint64 ClientId `" ++ [23458; 25143; 31471]%N ++ runes_of_ascii "ID`,
}

packet Heartbeat {
}

packet RiskControlRequest {
    string UniqueOrderId `" ++ [21807; 19968; 35746; 21333; 21495]%N ++ runes_of_ascii "`,
    char[16] ClOrdID `" ++ [23458; 25143; 35746; 21333; 21495]%N ++ runes_of_ascii "`,
    char[3] MarketID `" ++ [24066; 22330]%N ++ runes_of_ascii "id`,
    char[12] SecurityID `" ++ [35777; 21048; 20195; 30721]%N ++ runes_of_ascii "`,
    char Side `" ++ [20080; 21334; 26041; 21521]%N ++ runes_of_ascii "`,
    char OrderType `" ++ [35746; 21333; 31867; 22411]%N ++ runes_of_ascii "`,
    u64 Price `" ++ [20215; 26684]%N ++ runes_of_ascii "`,
    u32 Qty `" ++ [25968; 37327]%N ++ runes_of_ascii "`,
    repeat string ExtraInfo `" ++ [38468; 21152; 20449; 24687]%N ++ runes_of_ascii "`,
    repeat SubOrder {
        char[16] ClOrdID `" ++ [23376; 35746; 21333; 21495]%N ++ runes_of_ascii "`,
        u64 Price `" ++ [23376; 35746; 21333; 20215; 26684]%N ++ runes_of_ascii "`,
        u32 Qty `" ++ [23376; 35746; 21333; 25968; 37327]%N ++ runes_of_ascii "`,
    },
}

packet RiskControlResponse {
    string UniqueOrderId `" ++ [21807; 19968; 35746; 21333; 21495]%N ++ runes_of_ascii "`,
    i32 Status `" ++ [29366; 24577]%N ++ runes_of_ascii "`,
    string Msg `" ++ [32467; 26524; 20449; 24687]%N ++ runes_of_ascii "`,
    repeat Detail,
}

packet Detail {
    string RuleName `" ++ [35268; 21017; 21517; 31216]%N ++ runes_of_ascii "`,
    u16 Code `" ++ [21407; 22240; 20195; 30721]%N ++ runes_of_ascii "`,
}")).
Eval vm_compute in ("<<<M313>>>" ++ check (@nil rune)).
Eval vm_compute in ("<<<M323>>>" ++ check (runes_of_ascii "packet  calculatedFrom")).
Eval vm_compute in ("<<<M333>>>" ++ check (runes_of_ascii "packet  calculatedFrom{ @rightPad")).
Eval vm_compute in ("<<<M343>>>" ++ check (runes_of_ascii "packet  calculatedFrom{ @rightPad(	' '")).
Eval vm_compute in ("<<<M353>>>" ++ check (runes_of_ascii "packet  calculatedFrom{ @rightPad(	' '
    )@lengthOf(")).
Eval vm_compute in ("<<<M363>>>" ++ check (runes_of_ascii "packet  calculatedFrom{ @rightPad(	' '
    )@lengthOf( uint8x
)")).
Eval vm_compute in ("<<<M373>>>" ++ check (runes_of_ascii "packet  calculatedFrom{ @rightPad(	' '
    )@lengthOf( uint8x
)	i32  options1")).
Eval vm_compute in ("<<<M383>>>" ++ check (runes_of_ascii "packet  calculatedFrom{ @rightPad(	' '
    )@lengthOf( uint8x
)	i32  options1 ,u")).
Eval vm_compute in ("<<<M393>>>" ++ check (runes_of_ascii "packet  calculatedFrom{ @rightPad(	' '
    )@lengthOf( uint8x
)	i32  options1 ,u ,
    //	t
    len")).
Eval vm_compute in ("<<<M403>>>" ++ check (runes_of_ascii "packet  calculatedFrom{ @rightPad(	' '
    )@lengthOf( uint8x
)	i32  options1 ,u ,
    //	t
    len @lengthOf(
int")).
Eval vm_compute in ("<<<M413>>>" ++ check (runes_of_ascii "packet  calculatedFrom{ @rightPad(	' '
    )@lengthOf( uint8x
)	i32  options1 ,u ,
    //	t
    len @lengthOf(
int // trailing space 
)
    ,")).
Eval vm_compute in ("<<<M423>>>" ++ check (runes_of_ascii "packet  calculatedFrom{ @rightPad(	' '
    )@lengthOf( uint8x
)	i32  options1 ,u ,
    //	t
    len @lengthOf(
int // trailing space 
)
    , @tag( 42")).
Eval vm_compute in ("<<<M433>>>" ++ check (runes_of_ascii "packet  calculatedFrom{ @rightPad(	' '
    )@lengthOf( uint8x
)	i32  options1 ,u ,
    //	t
    len @lengthOf(
int // trailing space 
)
    , @tag( 42 ) repeat")).
Eval vm_compute in ("<<<M443>>>" ++ check (runes_of_ascii "packet  calculatedFrom{ @rightPad(	' '
    )@lengthOf( uint8x
)	i32  options1 ,u ,
    //	t
    len @lengthOf(
int // trailing space 
)
    , @tag( 42 ) repeat uint32 u")).
Eval vm_compute in ("<<<M453>>>" ++ check (runes_of_ascii "packet  |calculatedFrom{ @rightPad(	' '
    )@lengthOf( uint8x
)	i32  options1 ,u ,
    //	t
    len @lengthOf(
int // trailing space 
)
    , @tag( 42 ) repeat uint32 u ,
    }")).
Eval vm_compute in ("<<<M463>>>" ++ check (runes_of_ascii "packet  @x calculatedFrom{ @rightPad(	' '
    )@lengthOf( uint8x
)	i32  options1 ,u ,
    //	t
    len @lengthOf(
int // trailing space 
)
    , @tag( 42 ) repeat uint32 u ,
    }")).
Eval vm_compute in ("<<<M473>>>" ++ check (runes_of_ascii "MetaData u// packet A { u8 x, }
{ A
// c
//	t
i64_ ,char[ 255 ]
    repeatCount , zchar[
65535 ]
    tag `" ++ [233]%N ++ runes_of_ascii "`
    ,int32 lengthOf	,")).
Eval vm_compute in ("<<<M483>>>" ++ check (runes_of_ascii "MetaData u// packet A { u8 x, }
{ A
// c
//	t
i64_ ,char[ 255 ]
    repeatCount , zchar[
65535 65535 ]
    tag `" ++ [233]%N ++ runes_of_ascii "`
    ,int32 lengthOf	, }
")).
Eval vm_compute in ("<<<M493>>>" ++ check (runes_of_ascii "MetaData u// packet A { u8 x, }
{ A
// c
//	t
i64_ ,char[ 255 ]
    repeatCount , zchar[
65535 ]
    tag `" ++ [233]%N ++ runes_of_ascii "`
    ,int32 @leftpadlengthOf	, }
")).
Eval vm_compute in ("<<<M503>>>" ++ check (runes_of_ascii "MetaData u// packet A { u8 x, }
{ A
// c
//	t
i64_ ,char[ int64 ]
    repeatCount , zchar[
65535 ]
    tag `" ++ [233]%N ++ runes_of_ascii "`
    ,int32 lengthOf	, }
")).
Eval vm_compute in ("<<<M513>>>" ++ check (runes_of_ascii "MetaData x" ++ [178]%N ++ runes_of_ascii "// packet A { u8 x, }
{ A
// c
//	t
i64_ ,char[ 255 ]
    repeatCount , zchar[
65535 ]
    tag `" ++ [233]%N ++ runes_of_ascii "`
    ,int32 lengthOf	, }
")).
Eval vm_compute in ("<<<M523>>>" ++ check (runes_of_ascii "MetaData u// packet A { u8 x, }
{ A
// c
//	t
i64_ ,char[ 255 ]
    repeatCount , zchar[
65535 ]
    tag `" ++ [233]%N ++ runes_of_ascii "`
    ,int32 lengthOf	, false
")).
Eval vm_compute in ("<<<M533>>>" ++ check (runes_of_ascii "MetaData u// packet A { u8 x, }
{ A
// c
//	t
i64_ char[, 255 ]
    repeatCount , zchar[
65535 ]
    tag `" ++ [233]%N ++ runes_of_ascii "`
    ,int32 lengthOf	, }
")).
Eval vm_compute in ("<<<M543>>>" ++ check (runes_of_ascii "MetaData u// packet A { u8 x, }
{ A
// c
//	t
i64_ ,char[ 255 ]
    repeatCount , zchar[
65535 ]
    tag `" ++ [233]%N ++ runes_of_ascii "`
    ,int32 lengthOf")).
Eval vm_compute in ("<<<M553>>>" ++ check (runes_of_ascii "MetaData u// packet A { u8 x, }
{ A
// c
//	t
i64_ ,char[ 255 ]
    repeatCount , zchar[
65535 ]
    '0' `" ++ [233]%N ++ runes_of_ascii "`
    ,int32 lengthOf	, }
")).
Eval vm_compute in ("<<<M563>>>" ++ check (@nil rune)).
Eval vm_compute in ("<<<T563>>>" ++ terms [mkTok 0 "<EOF>" 1 0 false] (mkPacket (mkPtok 0 "<EOF>" 1 0 0) None [])).
Eval vm_compute in ("<<<M573>>>" ++ check (runes_of_ascii "


")).
Eval vm_compute in ("<<<M583>>>" ++ check (runes_of_ascii "float32 MetaData")).
Eval vm_compute in ("<<<M593>>>" ++ check ([65533]%N ++ runes_of_ascii "[" ++ [65533; 29]%N ++ runes_of_ascii "2" ++ [1199]%N ++ runes_of_ascii "&" ++ [65533]%N ++ runes_of_ascii " " ++ [65533]%N)).
