From FP Require Import Lexer Parser ShowPT Digest.
From Coq Require Import String List NArith.
Import ListNotations.
Open Scope string_scope.
Set Printing Width 100000000.
Set Printing Depth 100000000.
Definition nl : string := String (Ascii.ascii_of_nat 10) EmptyString.
Definition model_lex (rs : list rune) : string := show_toks (lex rs).
Definition model_parse (rs : list rune) : string :=
  show_pt (match lex rs with Some ts => parse ts | None => None end).
(* coqc is slow at printing long strings: digests first (Digest.v), full texts on demand *)
Definition check (rs : list rune) : string :=
  digest (model_lex rs) ++ " " ++ digest (model_parse rs).
Definition full (rs : list rune) : string := model_lex rs ++ nl ++ model_parse rs.
Definition terms (ts : list tok) (t : pt) : string :=
  digest (show_toks (Some ts)) ++ " " ++ digest (show_pt (Some t)) ++ " " ++ digest (show_pt (parse ts)).
Definition terms_full (ts : list tok) (t : pt) : string :=
  show_toks (Some ts) ++ nl ++ show_pt (Some t) ++ nl ++ show_pt (parse ts).
Eval vm_compute in ("<<<M0>>>" ++ check (runes_of_ascii "packet body{ @tag( 0123456789 )repeatCount { // @lengthOf(
i32
roots	@calculatedFrom( ""it's""
    )
    // trailing space 
    ,
    char[]repeatCount @calculatedFrom(
""packet"" ) `two words` // " ++ [128512]%N ++ runes_of_ascii " emoji
,repeat u16 roots , match lengthOf as As //	t
{ [ ""packet"" ,""" ++ [28040; 24687]%N ++ runes_of_ascii """,	255
, 42 ,""\" ++ [233]%N ++ runes_of_ascii """ ] : x_y_z ,
    } , } , trueish ,@tag( 65535 )
@tag( 255  ) /// triple
@tag(00) chars @calculatedFrom(""it's"" ) ,	match o as
    // `tick` ""quote"" 'q'
    roots {
// " ++ [27880; 37322]%N ++ runes_of_ascii "
// c
""{,}""
: options1 , """ ++ [28040; 24687]%N ++ runes_of_ascii """
    :	lengthOf	, 00: pack  ,[ ""a\""b"" ] :
    msg_type ,1 : i8i8
, [ 10  , 3 ,"""" ] : falsey ,} , }
root packet// `tick` ""quote"" 'q'
Z9_ {repeat char[] // a // b
Packet	, string chars@calculatedFrom( ""a\""b"" )
`// not a comment`
    // " ++ [128512]%N ++ runes_of_ascii " emoji
    ,	}
")).
Eval vm_compute in ("<<<M10>>>" ++ check (runes_of_ascii "MetaData
    chars{
char[]Header `say ""hi""`
,
    char[] matchKey
,char[ 1
    ]  u8x , zchar A ,x falsey
,
zchar[ 42
    ] calculatedFrom , }
")).
Eval vm_compute in ("<<<M20>>>" ++ check (runes_of_ascii "// " ++ [128512]%N ++ runes_of_ascii " emoji
MetaData o
    { } packet uint8x { uint8
    // c
    u128  @lengthOf(
body  )  `// not a comment` , @calculatedFrom( ""1"" ) options1{
    repeat Foo crc , zchar[ 255] MetaDataX
    /// triple
    @calculatedFrom( ""\" ++ [233]%N ++ runes_of_ascii """ ) , Foo { char[ 1 ] msg_type ,
    } ,
    },
float64
    falsey @lengthOf(
f32a )
,
    match
// packet A { u8 x, }
//
BodyLength
    as f32a
{ """ ++ [128512]%N ++ runes_of_ascii """
: x_y_z ,	""" ++ [128512]%N ++ runes_of_ascii """ :
    BodyLength ,""" ++ [28040; 24687]%N ++ runes_of_ascii """ : Foo
,
    } , @lengthOf( lengthOf ) repeat len , // " ++ [128512]%N ++ runes_of_ascii " emoji
crc float`line1
line2`
    , }MetaData repeatCount {
tag x, //	t
}
")).
Eval vm_compute in ("<<<T20>>>" ++ terms [mkTok 44 (string_of_bytes [47; 47; 32; 240; 159; 152; 128; 32; 101; 109; 111; 106; 105]%N) 1 0 true; mkTok 37 "MetaData" 2 0 false; mkTok 42 "o" 2 9 false; mkTok 2 "{" 3 4 false; mkTok 3 "}" 3 6 false; mkTok 35 "packet" 3 8 false; mkTok 42 "uint8x" 3 15 false; mkTok 2 "{" 3 22 false; mkTok 20 "uint8" 3 24 false; mkTok 44 "// c" 4 4 true; mkTok 42 "u128" 5 4 false; mkTok 7 "@lengthOf(" 5 10 false; mkTok 42 "body" 6 0 false; mkTok 6 ")" 6 6 false; mkTok 43 "`// not a comment`" 6 9 false; mkTok 40 "," 6 28 false; mkTok 5 "@calculatedFrom(" 6 30 false; mkTok 31 """1""" 6 47 false; mkTok 6 ")" 6 51 false; mkTok 42 "options1" 6 53 false; mkTok 2 "{" 6 61 false; mkTok 36 "repeat" 7 4 false; mkTok 42 "Foo" 7 11 false; mkTok 42 "crc" 7 15 false; mkTok 40 "," 7 19 false; mkTok 14 "zchar[" 7 21 false; mkTok 30 "255" 7 28 false; mkTok 13 "]" 7 31 false; mkTok 42 "MetaDataX" 7 33 false; mkTok 44 "/// triple" 8 4 true; mkTok 5 "@calculatedFrom(" 9 4 false; mkTok 31 (string_of_bytes [34; 92; 195; 169; 34]%N) 9 21 false; mkTok 6 ")" 9 26 false; mkTok 40 "," 9 28 false; mkTok 42 "Foo" 9 30 false; mkTok 2 "{" 9 34 false; mkTok 12 "char[" 9 36 false; mkTok 30 "1" 9 42 false; mkTok 13 "]" 9 44 false; mkTok 42 "msg_type" 9 46 false; mkTok 40 "," 9 55 false; mkTok 3 "}" 10 4 false; mkTok 40 "," 10 6 false; mkTok 3 "}" 11 4 false; mkTok 40 "," 11 5 false; mkTok 29 "float64" 12 0 false; mkTok 42 "falsey" 13 4 false; mkTok 7 "@lengthOf(" 13 11 false; mkTok 42 "f32a" 14 0 false; mkTok 6 ")" 14 5 false; mkTok 40 "," 15 0 false; mkTok 38 "match" 16 4 false; mkTok 44 "// packet A { u8 x, }" 17 0 true; mkTok 44 "//" 18 0 true; mkTok 42 "BodyLength" 19 0 false; mkTok 17 "as" 20 4 false; mkTok 42 "f32a" 20 7 false; mkTok 2 "{" 21 0 false; mkTok 31 (string_of_bytes [34; 240; 159; 152; 128; 34]%N) 21 2 false; mkTok 39 ":" 22 0 false; mkTok 42 "x_y_z" 22 2 false; mkTok 40 "," 22 8 false; mkTok 31 (string_of_bytes [34; 240; 159; 152; 128; 34]%N) 22 10 false; mkTok 39 ":" 22 14 false; mkTok 42 "BodyLength" 23 4 false; mkTok 40 "," 23 15 false; mkTok 31 (string_of_bytes [34; 230; 182; 136; 230; 129; 175; 34]%N) 23 16 false; mkTok 39 ":" 23 21 false; mkTok 42 "Foo" 23 23 false; mkTok 40 "," 24 0 false; mkTok 3 "}" 25 4 false; mkTok 40 "," 25 6 false; mkTok 7 "@lengthOf(" 25 8 false; mkTok 42 "lengthOf" 25 19 false; mkTok 6 ")" 25 28 false; mkTok 36 "repeat" 25 30 false; mkTok 42 "len" 25 37 false; mkTok 40 "," 25 41 false; mkTok 44 (string_of_bytes [47; 47; 32; 240; 159; 152; 128; 32; 101; 109; 111; 106; 105]%N) 25 43 true; mkTok 42 "crc" 26 0 false; mkTok 42 "float" 26 4 false; mkTok 43 (string_of_bytes [96; 108; 105; 110; 101; 49; 10; 108; 105; 110; 101; 50; 96]%N) 26 9 false; mkTok 40 "," 28 4 false; mkTok 3 "}" 28 6 false; mkTok 37 "MetaData" 28 7 false; mkTok 42 "repeatCount" 28 16 false; mkTok 2 "{" 28 28 false; mkTok 42 "tag" 29 0 false; mkTok 42 "x" 29 4 false; mkTok 40 "," 29 5 false; mkTok 44 (string_of_bytes [47; 47; 9; 116]%N) 29 7 true; mkTok 3 "}" 30 0 false; mkTok 0 "<EOF>" 31 0 false] (mkPacket (mkPtok 37 "MetaData" 2 0 1) (Some (mkPtok 3 "}" 30 0 91)) [(DMeta (mkMetaDef (mkSpan (mkPtok 37 "MetaData" 2 0 1) (mkPtok 3 "}" 3 6 4)) (mkPtok 37 "MetaData" 2 0 1) (mkPtok 42 "o" 2 9 2) (mkPtok 2 "{" 3 4 3) [] (mkPtok 3 "}" 3 6 4))); (DPacket (mkPacketDef (mkSpan (mkPtok 35 "packet" 3 8 5) (mkPtok 3 "}" 28 6 83)) None (mkPtok 35 "packet" 3 8 5) (mkPtok 42 "uint8x" 3 15 6) (mkPtok 2 "{" 3 22 7) [(mkFieldWithAttr (mkSpan (mkPtok 20 "uint8" 3 24 8) (mkPtok 40 "," 6 28 15)) [] (LengthField (mkSpan (mkPtok 20 "uint8" 3 24 8) (mkPtok 40 "," 6 28 15)) (mkLengthFieldDecl (mkSpan (mkPtok 20 "uint8" 3 24 8) (mkPtok 40 "," 6 28 15)) (Some (TyBasic (mkSpan (mkPtok 20 "uint8" 3 24 8) (mkPtok 20 "uint8" 3 24 8)) (mkBasicType (mkSpan (mkPtok 20 "uint8" 3 24 8) (mkPtok 20 "uint8" 3 24 8)) (mkPtok 20 "uint8" 3 24 8)))) (mkPtok 42 "u128" 5 4 10) (mkLengthOf (mkSpan (mkPtok 7 "@lengthOf(" 5 10 11) (mkPtok 6 ")" 6 6 13)) (mkPtok 7 "@lengthOf(" 5 10 11) (mkPtok 42 "body" 6 0 12) (mkPtok 6 ")" 6 6 13)) (Some (mkPtok 43 "`// not a comment`" 6 9 14)) (mkPtok 40 "," 6 28 15)))); (mkFieldWithAttr (mkSpan (mkPtok 5 "@calculatedFrom(" 6 30 16) (mkPtok 40 "," 11 5 44)) [(FACalculatedFrom (mkSpan (mkPtok 5 "@calculatedFrom(" 6 30 16) (mkPtok 6 ")" 6 51 18)) (mkCalculatedFrom (mkSpan (mkPtok 5 "@calculatedFrom(" 6 30 16) (mkPtok 6 ")" 6 51 18)) (mkPtok 5 "@calculatedFrom(" 6 30 16) (mkPtok 31 """1""" 6 47 17) (mkPtok 6 ")" 6 51 18)))] (InerObjectField (mkSpan (mkPtok 42 "options1" 6 53 19) (mkPtok 40 "," 11 5 44)) None (InerObjectDecl (mkSpan (mkPtok 42 "options1" 6 53 19) (mkPtok 3 "}" 11 4 43)) (mkPtok 42 "options1" 6 53 19) (mkPtok 2 "{" 6 61 20) [(ObjectField (mkSpan (mkPtok 36 "repeat" 7 4 21) (mkPtok 40 "," 7 19 24)) (Some (mkPtok 36 "repeat" 7 4 21)) (mkPtok 42 "Foo" 7 11 22) (Some (mkPtok 42 "crc" 7 15 23)) None (mkPtok 40 "," 7 19 24)); (CheckSumField (mkSpan (mkPtok 14 "zchar[" 7 21 25) (mkPtok 40 "," 9 28 33)) (mkChecksumFieldDecl (mkSpan (mkPtok 14 "zchar[" 7 21 25) (mkPtok 40 "," 9 28 33)) (Some (TyFixed (mkSpan (mkPtok 14 "zchar[" 7 21 25) (mkPtok 13 "]" 7 31 27)) (mkFixedString (mkSpan (mkPtok 14 "zchar[" 7 21 25) (mkPtok 13 "]" 7 31 27)) (mkPtok 14 "zchar[" 7 21 25) (mkPtok 30 "255" 7 28 26) (mkPtok 13 "]" 7 31 27)))) (mkPtok 42 "MetaDataX" 7 33 28) (mkCalculatedFrom (mkSpan (mkPtok 5 "@calculatedFrom(" 9 4 30) (mkPtok 6 ")" 9 26 32)) (mkPtok 5 "@calculatedFrom(" 9 4 30) (mkPtok 31 (string_of_bytes [34; 92; 195; 169; 34]%N) 9 21 31) (mkPtok 6 ")" 9 26 32)) None (mkPtok 40 "," 9 28 33))); (InerObjectField (mkSpan (mkPtok 42 "Foo" 9 30 34) (mkPtok 40 "," 10 6 42)) None (InerObjectDecl (mkSpan (mkPtok 42 "Foo" 9 30 34) (mkPtok 3 "}" 10 4 41)) (mkPtok 42 "Foo" 9 30 34) (mkPtok 2 "{" 9 34 35) [(MetaField (mkSpan (mkPtok 12 "char[" 9 36 36) (mkPtok 40 "," 9 55 40)) None (mkMetaDecl (mkSpan (mkPtok 12 "char[" 9 36 36) (mkPtok 40 "," 9 55 40)) (TyFixed (mkSpan (mkPtok 12 "char[" 9 36 36) (mkPtok 13 "]" 9 44 38)) (mkFixedString (mkSpan (mkPtok 12 "char[" 9 36 36) (mkPtok 13 "]" 9 44 38)) (mkPtok 12 "char[" 9 36 36) (mkPtok 30 "1" 9 42 37) (mkPtok 13 "]" 9 44 38))) (mkPtok 42 "msg_type" 9 46 39) None (mkPtok 40 "," 9 55 40)))] (mkPtok 3 "}" 10 4 41)) (mkPtok 40 "," 10 6 42))] (mkPtok 3 "}" 11 4 43)) (mkPtok 40 "," 11 5 44))); (mkFieldWithAttr (mkSpan (mkPtok 29 "float64" 12 0 45) (mkPtok 40 "," 15 0 50)) [] (LengthField (mkSpan (mkPtok 29 "float64" 12 0 45) (mkPtok 40 "," 15 0 50)) (mkLengthFieldDecl (mkSpan (mkPtok 29 "float64" 12 0 45) (mkPtok 40 "," 15 0 50)) (Some (TyBasic (mkSpan (mkPtok 29 "float64" 12 0 45) (mkPtok 29 "float64" 12 0 45)) (mkBasicType (mkSpan (mkPtok 29 "float64" 12 0 45) (mkPtok 29 "float64" 12 0 45)) (mkPtok 29 "float64" 12 0 45)))) (mkPtok 42 "falsey" 13 4 46) (mkLengthOf (mkSpan (mkPtok 7 "@lengthOf(" 13 11 47) (mkPtok 6 ")" 14 5 49)) (mkPtok 7 "@lengthOf(" 13 11 47) (mkPtok 42 "f32a" 14 0 48) (mkPtok 6 ")" 14 5 49)) None (mkPtok 40 "," 15 0 50)))); (mkFieldWithAttr (mkSpan (mkPtok 38 "match" 16 4 51) (mkPtok 40 "," 25 6 71)) [] (MatchField (mkSpan (mkPtok 38 "match" 16 4 51) (mkPtok 40 "," 25 6 71)) (mkMatchFieldDecl (mkSpan (mkPtok 38 "match" 16 4 51) (mkPtok 3 "}" 25 4 70)) (mkPtok 38 "match" 16 4 51) (mkPtok 42 "BodyLength" 19 0 54) (mkPtok 17 "as" 20 4 55) (mkPtok 42 "f32a" 20 7 56) (mkPtok 2 "{" 21 0 57) [(mkMatchPair (mkSpan (mkPtok 31 (string_of_bytes [34; 240; 159; 152; 128; 34]%N) 21 2 58) (mkPtok 40 "," 22 8 61)) (MKString (mkPtok 31 (string_of_bytes [34; 240; 159; 152; 128; 34]%N) 21 2 58)) (mkPtok 39 ":" 22 0 59) (mkPtok 42 "x_y_z" 22 2 60) (Some (mkPtok 40 "," 22 8 61))); (mkMatchPair (mkSpan (mkPtok 31 (string_of_bytes [34; 240; 159; 152; 128; 34]%N) 22 10 62) (mkPtok 40 "," 23 15 65)) (MKString (mkPtok 31 (string_of_bytes [34; 240; 159; 152; 128; 34]%N) 22 10 62)) (mkPtok 39 ":" 22 14 63) (mkPtok 42 "BodyLength" 23 4 64) (Some (mkPtok 40 "," 23 15 65))); (mkMatchPair (mkSpan (mkPtok 31 (string_of_bytes [34; 230; 182; 136; 230; 129; 175; 34]%N) 23 16 66) (mkPtok 40 "," 24 0 69)) (MKString (mkPtok 31 (string_of_bytes [34; 230; 182; 136; 230; 129; 175; 34]%N) 23 16 66)) (mkPtok 39 ":" 23 21 67) (mkPtok 42 "Foo" 23 23 68) (Some (mkPtok 40 "," 24 0 69)))] (mkPtok 3 "}" 25 4 70)) (mkPtok 40 "," 25 6 71))); (mkFieldWithAttr (mkSpan (mkPtok 7 "@lengthOf(" 25 8 72) (mkPtok 40 "," 25 41 77)) [(FALengthOf (mkSpan (mkPtok 7 "@lengthOf(" 25 8 72) (mkPtok 6 ")" 25 28 74)) (mkLengthOf (mkSpan (mkPtok 7 "@lengthOf(" 25 8 72) (mkPtok 6 ")" 25 28 74)) (mkPtok 7 "@lengthOf(" 25 8 72) (mkPtok 42 "lengthOf" 25 19 73) (mkPtok 6 ")" 25 28 74)))] (ObjectField (mkSpan (mkPtok 36 "repeat" 25 30 75) (mkPtok 40 "," 25 41 77)) (Some (mkPtok 36 "repeat" 25 30 75)) (mkPtok 42 "len" 25 37 76) None None (mkPtok 40 "," 25 41 77))); (mkFieldWithAttr (mkSpan (mkPtok 42 "crc" 26 0 79) (mkPtok 40 "," 28 4 82)) [] (ObjectField (mkSpan (mkPtok 42 "crc" 26 0 79) (mkPtok 40 "," 28 4 82)) None (mkPtok 42 "crc" 26 0 79) (Some (mkPtok 42 "float" 26 4 80)) (Some (mkPtok 43 (string_of_bytes [96; 108; 105; 110; 101; 49; 10; 108; 105; 110; 101; 50; 96]%N) 26 9 81)) (mkPtok 40 "," 28 4 82)))] (mkPtok 3 "}" 28 6 83))); (DMeta (mkMetaDef (mkSpan (mkPtok 37 "MetaData" 28 7 84) (mkPtok 3 "}" 30 0 91)) (mkPtok 37 "MetaData" 28 7 84) (mkPtok 42 "repeatCount" 28 16 85) (mkPtok 2 "{" 28 28 86) [(MIRef (mkRefMetaDecl (mkSpan (mkPtok 42 "tag" 29 0 87) (mkPtok 40 "," 29 5 89)) (mkPtok 42 "tag" 29 0 87) (mkPtok 42 "x" 29 4 88) None (mkPtok 40 "," 29 5 89)))] (mkPtok 3 "}" 30 0 91)))])).
Eval vm_compute in ("<<<M30>>>" ++ check (runes_of_ascii "packet  chars { zchar[ 10
    ]x
@lengthOf( repeatCount )
    ,
repeat
    metadata{
string int ,repeat
matchKey //x
, match leftPad as o { 0 : matchKey
    // " ++ [27880; 37322]%N ++ runes_of_ascii "
    ,
[ 0 ]
: float 0 : packetx// " ++ [128512]%N ++ runes_of_ascii " emoji
255 :i64_
    ,//	t
[0 , 007 , ""a\\"" ,
    //	t
    """ ++ [128512]%N ++ runes_of_ascii """
    ,
65535  , 255 ]
:
charz ,	255 : u,	} , },  @rightPad( ' ' )
// packet A { u8 x, }
// " ++ [128512]%N ++ runes_of_ascii " emoji
@tag( 255
) // c
@rightPad
(	' ' ) u16 falsey,}options
    { f32a
= """ ++ [128512]%N ++ runes_of_ascii """ ;	}
")).
Eval vm_compute in ("<<<M40>>>" ++ check (runes_of_ascii "  options
    {string_
    //x
    =char[ 7 ] ;} options { crc=float64 ; Logon
    = false // a // b
As
    =
    '0' f32a =
char[] ; // packet A { u8 x, }
T =
00	}	root
packet x { @calculatedFrom(
""1"" )repeat zchar[
    255
] // " ++ [128512]%N ++ runes_of_ascii " emoji
string_ , } root packet int {	@tag(4294967296) char[255 // packet A { u8 x, }
]
a1
    ,repeat
x ``, char[]  packetx
@lengthOf( uint8x ) `u8 x,` , zchar[ 10 ]leftPad @calculatedFrom( ""a	b"" )
, lengthOf @calculatedFrom( """"	) , @calculatedFrom(
    /// triple
    ""packet"" )
    i32 matchKey , @rightPad (
) zchar[ 1
] A, u32
Packet @calculatedFrom( ""{,}"" ) `a\`	,// c
repeat char[00]Header	`say ""hi""`
    //x
    , stringy	trueish `// not a comment`, } 	 ")).
Eval vm_compute in ("<<<M50>>>" ++ check (runes_of_ascii "//x
packet uint8x { u8 // packet A { u8 x, }
roots `a\`	, match len
as charz{
[ 3 , """" ] : Z9_
,
    } , }
")).
Eval vm_compute in ("<<<M60>>>" ++ check (runes_of_ascii "MetaData stringy { uint8
//x
// @lengthOf(
string_
, }
")).
Eval vm_compute in ("<<<M70>>>" ++ check (runes_of_ascii "packet
    BodyLength { repeat char[
    1 ]
options1
`it's`
// c
// " ++ [128512]%N ++ runes_of_ascii " emoji
, x_y_z{
    packetx @lengthOf(zchar ) `tab	here` , repeat _x a1 ,
} , } packet roots{ // `tick` ""quote"" 'q'
}	options  { Foo	=char[ 1] // " ++ [27880; 37322]%N ++ runes_of_ascii "
;charz
=
1
; Packet = ""`tick`"" }
//x
")).
Eval vm_compute in ("<<<M80>>>" ++ check (runes_of_ascii "options { pack =0 } MetaData int{ char[	00
    ]
    T
    `crlf
line` ,  i8 string_
,//	t
int16
matchKey , }
")).
Eval vm_compute in ("<<<M90>>>" ++ check (runes_of_ascii "MetaData
    /// triple
    Logon
{zchar[
    3 ] a1
    `" ++ [28040; 24687; 31867; 22411]%N ++ runes_of_ascii "`
    , char[ 007 ]
MetaDataX `a\` ,
}  root packet
    pack { }
packet
    // trailing space 
    i64_
{  @lengthOf(chars
)
    len	{ uint8 rootA`doc` ,
string_ `crlf
line` //x
, //	t
match charz as
Foo
{
    42 : options1 , [255
    ]:charz
    } , }, roots repeatCount
    `two words` /// triple
,
    //	t
    string Logon @calculatedFrom( ""a\""b"") , @calculatedFrom(// `tick` ""quote"" 'q'
""a\\""	) Z9_
    ,
} //x")).
Eval vm_compute in ("<<<T90>>>" ++ terms [mkTok 37 "MetaData" 1 0 false; mkTok 44 "/// triple" 2 4 true; mkTok 42 "Logon" 3 4 false; mkTok 2 "{" 4 0 false; mkTok 14 "zchar[" 4 1 false; mkTok 30 "3" 5 4 false; mkTok 13 "]" 5 6 false; mkTok 42 "a1" 5 8 false; mkTok 43 (string_of_bytes [96; 230; 182; 136; 230; 129; 175; 231; 177; 187; 229; 158; 139; 96]%N) 6 4 false; mkTok 40 "," 7 4 false; mkTok 12 "char[" 7 6 false; mkTok 30 "007" 7 12 false; mkTok 13 "]" 7 16 false; mkTok 42 "MetaDataX" 8 0 false; mkTok 43 "`a\`" 8 10 false; mkTok 40 "," 8 15 false; mkTok 3 "}" 9 0 false; mkTok 34 "root" 9 3 false; mkTok 35 "packet" 9 8 false; mkTok 42 "pack" 10 4 false; mkTok 2 "{" 10 9 false; mkTok 3 "}" 10 11 false; mkTok 35 "packet" 11 0 false; mkTok 44 "// trailing space " 12 4 true; mkTok 42 "i64_" 13 4 false; mkTok 2 "{" 14 0 false; mkTok 7 "@lengthOf(" 14 3 false; mkTok 42 "chars" 14 13 false; mkTok 6 ")" 15 0 false; mkTok 42 "len" 16 4 false; mkTok 2 "{" 16 8 false; mkTok 20 "uint8" 16 10 false; mkTok 42 "rootA" 16 16 false; mkTok 43 "`doc`" 16 21 false; mkTok 40 "," 16 27 false; mkTok 42 "string_" 17 0 false; mkTok 43 (string_of_bytes [96; 99; 114; 108; 102; 13; 10; 108; 105; 110; 101; 96]%N) 17 8 false; mkTok 44 "//x" 18 6 true; mkTok 40 "," 19 0 false; mkTok 44 (string_of_bytes [47; 47; 9; 116]%N) 19 2 true; mkTok 38 "match" 20 0 false; mkTok 42 "charz" 20 6 false; mkTok 17 "as" 20 12 false; mkTok 42 "Foo" 21 0 false; mkTok 2 "{" 22 0 false; mkTok 30 "42" 23 4 false; mkTok 39 ":" 23 7 false; mkTok 42 "options1" 23 9 false; mkTok 40 "," 23 18 false; mkTok 18 "[" 23 20 false; mkTok 30 "255" 23 21 false; mkTok 13 "]" 24 4 false; mkTok 39 ":" 24 5 false; mkTok 42 "charz" 24 6 false; mkTok 3 "}" 25 4 false; mkTok 40 "," 25 6 false; mkTok 3 "}" 25 8 false; mkTok 40 "," 25 9 false; mkTok 42 "roots" 25 11 false; mkTok 42 "repeatCount" 25 17 false; mkTok 43 "`two words`" 26 4 false; mkTok 44 "/// triple" 26 16 true; mkTok 40 "," 27 0 false; mkTok 44 (string_of_bytes [47; 47; 9; 116]%N) 28 4 true; mkTok 15 "string" 29 4 false; mkTok 42 "Logon" 29 11 false; mkTok 5 "@calculatedFrom(" 29 17 false; mkTok 31 """a\""b""" 29 34 false; mkTok 6 ")" 29 40 false; mkTok 40 "," 29 42 false; mkTok 5 "@calculatedFrom(" 29 44 false; mkTok 44 "// `tick` ""quote"" 'q'" 29 60 true; mkTok 31 """a\\""" 30 0 false; mkTok 6 ")" 30 6 false; mkTok 42 "Z9_" 30 8 false; mkTok 40 "," 31 4 false; mkTok 3 "}" 32 0 false; mkTok 44 "//x" 32 2 true; mkTok 0 "<EOF>" 32 5 false] (mkPacket (mkPtok 37 "MetaData" 1 0 0) (Some (mkPtok 3 "}" 32 0 76)) [(DMeta (mkMetaDef (mkSpan (mkPtok 37 "MetaData" 1 0 0) (mkPtok 3 "}" 9 0 16)) (mkPtok 37 "MetaData" 1 0 0) (mkPtok 42 "Logon" 3 4 2) (mkPtok 2 "{" 4 0 3) [(MIDecl (mkMetaDecl (mkSpan (mkPtok 14 "zchar[" 4 1 4) (mkPtok 40 "," 7 4 9)) (TyFixed (mkSpan (mkPtok 14 "zchar[" 4 1 4) (mkPtok 13 "]" 5 6 6)) (mkFixedString (mkSpan (mkPtok 14 "zchar[" 4 1 4) (mkPtok 13 "]" 5 6 6)) (mkPtok 14 "zchar[" 4 1 4) (mkPtok 30 "3" 5 4 5) (mkPtok 13 "]" 5 6 6))) (mkPtok 42 "a1" 5 8 7) (Some (mkPtok 43 (string_of_bytes [96; 230; 182; 136; 230; 129; 175; 231; 177; 187; 229; 158; 139; 96]%N) 6 4 8)) (mkPtok 40 "," 7 4 9))); (MIDecl (mkMetaDecl (mkSpan (mkPtok 12 "char[" 7 6 10) (mkPtok 40 "," 8 15 15)) (TyFixed (mkSpan (mkPtok 12 "char[" 7 6 10) (mkPtok 13 "]" 7 16 12)) (mkFixedString (mkSpan (mkPtok 12 "char[" 7 6 10) (mkPtok 13 "]" 7 16 12)) (mkPtok 12 "char[" 7 6 10) (mkPtok 30 "007" 7 12 11) (mkPtok 13 "]" 7 16 12))) (mkPtok 42 "MetaDataX" 8 0 13) (Some (mkPtok 43 "`a\`" 8 10 14)) (mkPtok 40 "," 8 15 15)))] (mkPtok 3 "}" 9 0 16))); (DPacket (mkPacketDef (mkSpan (mkPtok 34 "root" 9 3 17) (mkPtok 3 "}" 10 11 21)) (Some (mkPtok 34 "root" 9 3 17)) (mkPtok 35 "packet" 9 8 18) (mkPtok 42 "pack" 10 4 19) (mkPtok 2 "{" 10 9 20) [] (mkPtok 3 "}" 10 11 21))); (DPacket (mkPacketDef (mkSpan (mkPtok 35 "packet" 11 0 22) (mkPtok 3 "}" 32 0 76)) None (mkPtok 35 "packet" 11 0 22) (mkPtok 42 "i64_" 13 4 24) (mkPtok 2 "{" 14 0 25) [(mkFieldWithAttr (mkSpan (mkPtok 7 "@lengthOf(" 14 3 26) (mkPtok 40 "," 25 9 57)) [(FALengthOf (mkSpan (mkPtok 7 "@lengthOf(" 14 3 26) (mkPtok 6 ")" 15 0 28)) (mkLengthOf (mkSpan (mkPtok 7 "@lengthOf(" 14 3 26) (mkPtok 6 ")" 15 0 28)) (mkPtok 7 "@lengthOf(" 14 3 26) (mkPtok 42 "chars" 14 13 27) (mkPtok 6 ")" 15 0 28)))] (InerObjectField (mkSpan (mkPtok 42 "len" 16 4 29) (mkPtok 40 "," 25 9 57)) None (InerObjectDecl (mkSpan (mkPtok 42 "len" 16 4 29) (mkPtok 3 "}" 25 8 56)) (mkPtok 42 "len" 16 4 29) (mkPtok 2 "{" 16 8 30) [(MetaField (mkSpan (mkPtok 20 "uint8" 16 10 31) (mkPtok 40 "," 16 27 34)) None (mkMetaDecl (mkSpan (mkPtok 20 "uint8" 16 10 31) (mkPtok 40 "," 16 27 34)) (TyBasic (mkSpan (mkPtok 20 "uint8" 16 10 31) (mkPtok 20 "uint8" 16 10 31)) (mkBasicType (mkSpan (mkPtok 20 "uint8" 16 10 31) (mkPtok 20 "uint8" 16 10 31)) (mkPtok 20 "uint8" 16 10 31))) (mkPtok 42 "rootA" 16 16 32) (Some (mkPtok 43 "`doc`" 16 21 33)) (mkPtok 40 "," 16 27 34))); (ObjectField (mkSpan (mkPtok 42 "string_" 17 0 35) (mkPtok 40 "," 19 0 38)) None (mkPtok 42 "string_" 17 0 35) None (Some (mkPtok 43 (string_of_bytes [96; 99; 114; 108; 102; 13; 10; 108; 105; 110; 101; 96]%N) 17 8 36)) (mkPtok 40 "," 19 0 38)); (MatchField (mkSpan (mkPtok 38 "match" 20 0 40) (mkPtok 40 "," 25 6 55)) (mkMatchFieldDecl (mkSpan (mkPtok 38 "match" 20 0 40) (mkPtok 3 "}" 25 4 54)) (mkPtok 38 "match" 20 0 40) (mkPtok 42 "charz" 20 6 41) (mkPtok 17 "as" 20 12 42) (mkPtok 42 "Foo" 21 0 43) (mkPtok 2 "{" 22 0 44) [(mkMatchPair (mkSpan (mkPtok 30 "42" 23 4 45) (mkPtok 40 "," 23 18 48)) (MKDigits (mkPtok 30 "42" 23 4 45)) (mkPtok 39 ":" 23 7 46) (mkPtok 42 "options1" 23 9 47) (Some (mkPtok 40 "," 23 18 48))); (mkMatchPair (mkSpan (mkPtok 18 "[" 23 20 49) (mkPtok 42 "charz" 24 6 53)) (MKList (mkKeyList (mkSpan (mkPtok 18 "[" 23 20 49) (mkPtok 13 "]" 24 4 51)) (mkPtok 18 "[" 23 20 49) (mkPtok 30 "255" 23 21 50) [] (mkPtok 13 "]" 24 4 51))) (mkPtok 39 ":" 24 5 52) (mkPtok 42 "charz" 24 6 53) None)] (mkPtok 3 "}" 25 4 54)) (mkPtok 40 "," 25 6 55))] (mkPtok 3 "}" 25 8 56)) (mkPtok 40 "," 25 9 57))); (mkFieldWithAttr (mkSpan (mkPtok 42 "roots" 25 11 58) (mkPtok 40 "," 27 0 62)) [] (ObjectField (mkSpan (mkPtok 42 "roots" 25 11 58) (mkPtok 40 "," 27 0 62)) None (mkPtok 42 "roots" 25 11 58) (Some (mkPtok 42 "repeatCount" 25 17 59)) (Some (mkPtok 43 "`two words`" 26 4 60)) (mkPtok 40 "," 27 0 62))); (mkFieldWithAttr (mkSpan (mkPtok 15 "string" 29 4 64) (mkPtok 40 "," 29 42 69)) [] (CheckSumField (mkSpan (mkPtok 15 "string" 29 4 64) (mkPtok 40 "," 29 42 69)) (mkChecksumFieldDecl (mkSpan (mkPtok 15 "string" 29 4 64) (mkPtok 40 "," 29 42 69)) (Some (TyDynamic (mkSpan (mkPtok 15 "string" 29 4 64) (mkPtok 15 "string" 29 4 64)) (mkDynamicString (mkSpan (mkPtok 15 "string" 29 4 64) (mkPtok 15 "string" 29 4 64)) (mkPtok 15 "string" 29 4 64)))) (mkPtok 42 "Logon" 29 11 65) (mkCalculatedFrom (mkSpan (mkPtok 5 "@calculatedFrom(" 29 17 66) (mkPtok 6 ")" 29 40 68)) (mkPtok 5 "@calculatedFrom(" 29 17 66) (mkPtok 31 """a\""b""" 29 34 67) (mkPtok 6 ")" 29 40 68)) None (mkPtok 40 "," 29 42 69)))); (mkFieldWithAttr (mkSpan (mkPtok 5 "@calculatedFrom(" 29 44 70) (mkPtok 40 "," 31 4 75)) [(FACalculatedFrom (mkSpan (mkPtok 5 "@calculatedFrom(" 29 44 70) (mkPtok 6 ")" 30 6 73)) (mkCalculatedFrom (mkSpan (mkPtok 5 "@calculatedFrom(" 29 44 70) (mkPtok 6 ")" 30 6 73)) (mkPtok 5 "@calculatedFrom(" 29 44 70) (mkPtok 31 """a\\""" 30 0 72) (mkPtok 6 ")" 30 6 73)))] (ObjectField (mkSpan (mkPtok 42 "Z9_" 30 8 74) (mkPtok 40 "," 31 4 75)) None (mkPtok 42 "Z9_" 30 8 74) None None (mkPtok 40 "," 31 4 75)))] (mkPtok 3 "}" 32 0 76)))])).
Eval vm_compute in ("<<<M100>>>" ++ check (runes_of_ascii "  options //x
{} 	 ")).
Eval vm_compute in ("<<<M110>>>" ++ check (runes_of_ascii "
root packet stringy{ repeat u16
falsey `
`
, u16 Pad,
    @lengthOf( // packet A { u8 x, }
x)Logon { repeat
zchar[65535
    ]
Packet`it's` , } ,}packet len {@leftPad( ) repeat metadata { match asx
    as asx{""a\\"" :
f32a ,}
    ,}// " ++ [128512]%N ++ runes_of_ascii " emoji
,
uint16  falsey ,body ,repeat
    // a // b
    string
    lengthOf `say ""hi""`
    , } packet i64_
{	x
    ,@lengthOf( i64_ )
@tag( 7// a // b
)
    // `tick` ""quote"" 'q'
    @calculatedFrom(""""
    )  repeat zchar[
    1 ] i8i8
    ,
    i64
    i64_ @calculatedFrom(
    ""\" ++ [233]%N ++ runes_of_ascii """ )`line1
line2`,
float//x
`tab	here` , @calculatedFrom( """ ++ [128512]%N ++ runes_of_ascii """ ) char[] Logon// @lengthOf(
`` , match  leftPad as stringy {
    0
    :float , ""\n""
    : // trailing space 
Pad  , } ,
i8i8 @lengthOf( roots )	, } root packet	i8i8 { tag
    @lengthOf(T
) `" ++ [28040; 24687; 31867; 22411]%N ++ runes_of_ascii "` // " ++ [128512]%N ++ runes_of_ascii " emoji
, }")).
Eval vm_compute in ("<<<M120>>>" ++ check (@nil rune)).
Eval vm_compute in ("<<<M130>>>" ++ check (runes_of_ascii "MetaData len /// triple
{ //
f64 T
`u8 x,` , rootA	stringy ,  zchar repeatCount`say ""hi""` ,
    MetaDataX As ,i8i8 string_, x_y_z f32a , } options // c
{ Logon
    //
    =
    string float =  string
    A =
""abc""/// triple
;
    //
    A =
""\" ++ [233]%N ++ runes_of_ascii """Logon =7	}
    options{ }  options {
    packetx = ""abc""// c
; x =
    true
}
")).
Eval vm_compute in ("<<<M140>>>" ++ check (@nil rune)).
Eval vm_compute in ("<<<M150>>>" ++ check (runes_of_ascii "packet u  { @calculatedFrom( ""CRC32"" ) repeat zchar[ 1] x_y_z`crlf
line` ,
@leftPad
    ( // `tick` ""quote"" 'q'
)
zchar[ // `tick` ""quote"" 'q'
255
]crc// c
, } root
    packet MetaDataX{@tag( 255 )
rootA//x
, }packet f32a {@lengthOf( packetx	) uint8 Z9_ @calculatedFrom(
""CRC32"" )
    /// triple
    ,
    }
")).
Eval vm_compute in ("<<<M160>>>" ++ check (runes_of_ascii "options {float
    = 4294967296 ;} options
{ }
")).
Eval vm_compute in ("<<<T160>>>" ++ terms [mkTok 1 "options" 1 0 false; mkTok 2 "{" 1 8 false; mkTok 42 "float" 1 9 false; mkTok 4 "=" 2 4 false; mkTok 30 "4294967296" 2 6 false; mkTok 41 ";" 2 17 false; mkTok 3 "}" 2 18 false; mkTok 1 "options" 2 20 false; mkTok 2 "{" 3 0 false; mkTok 3 "}" 3 2 false; mkTok 0 "<EOF>" 4 0 false] (mkPacket (mkPtok 1 "options" 1 0 0) (Some (mkPtok 3 "}" 3 2 9)) [(DOption (mkOptionDef (mkSpan (mkPtok 1 "options" 1 0 0) (mkPtok 3 "}" 2 18 6)) (mkPtok 1 "options" 1 0 0) (mkPtok 2 "{" 1 8 1) [(mkOptionDecl (mkSpan (mkPtok 42 "float" 1 9 2) (mkPtok 41 ";" 2 17 5)) (mkPtok 42 "float" 1 9 2) (mkPtok 4 "=" 2 4 3) (VDigits (mkSpan (mkPtok 30 "4294967296" 2 6 4) (mkPtok 30 "4294967296" 2 6 4)) (mkPtok 30 "4294967296" 2 6 4)) (Some (mkPtok 41 ";" 2 17 5)))] (mkPtok 3 "}" 2 18 6))); (DOption (mkOptionDef (mkSpan (mkPtok 1 "options" 2 20 7) (mkPtok 3 "}" 3 2 9)) (mkPtok 1 "options" 2 20 7) (mkPtok 2 "{" 3 0 8) [] (mkPtok 3 "}" 3 2 9)))])).
Eval vm_compute in ("<<<M170>>>" ++ check (runes_of_ascii "root packet o
    { }	packet T{ zchar[ 4294967296
]asx `say ""hi""` ,} MetaData f32a{f64 MetaDataX  `say ""hi""`
    // packet A { u8 x, }
    ,x_y_z
    rootA`doc`
, //	t
u32
repeatCount
    /// triple
    ,
string T
, u8x u`doc` ,} options {x_y_z
    = 0	} // packet A { u8 x, }
root packet// c
MetaDataX { @calculatedFrom( ""abc""
) @calculatedFrom(
    """ ++ [128512]%N ++ runes_of_ascii """ ) @tag( 3
) charz@lengthOf(
Packet )
    `line1
line2` ,	} /// triple")).
Eval vm_compute in ("<<<M180>>>" ++ check (runes_of_ascii "packet u128 {
string
T
, }
packet
A { Pad { metadata f32a, match  i8i8
    as //x
crc { 7:a1,[ ""1"" ] :Foo	, 7
    : metadata
    // c
    , 65535 : pack
    ,	} , repeat char[] string_, }/// triple
,
}
")).
Eval vm_compute in ("<<<M190>>>" ++ check (runes_of_ascii "  packet
    body
//x
/// triple
{ } packet Foo {int @lengthOf( x
    ) , float32 len
    `" ++ [28040; 24687; 31867; 22411]%N ++ runes_of_ascii "`, repeat f32a Packet ,	i8 // @lengthOf(
stringy
/// triple
// trailing space 
@calculatedFrom(""// no comment"" )
`line1
line2`
    ,
@tag( 0
    // a // b
    ) match  u
    as
    falsey
    //
    { [ 10 , 3, ""`tick`"" , 42	, 3// `tick` ""quote"" 'q'
]
    : Pad  ,
7 : repeatCount// c
, 0 :
    Foo}, }MetaData Packet { string// c
u , }options { uint8x = true
; }
")).
Eval vm_compute in ("<<<M200>>>" ++ check (@nil rune)).
Eval vm_compute in ("<<<M210>>>" ++ check (runes_of_ascii "  options { leftPad =	""it's""
    }
")).
Eval vm_compute in ("<<<M220>>>" ++ check (runes_of_ascii "
root packet	msg_type {u128//
, @calculatedFrom(
""" ++ [233]%N ++ runes_of_ascii "t" ++ [233]%N ++ runes_of_ascii """ ) repeat char[
    //
    3]
    metadata`crlf
line`,
char[255 ]	Pad
,  asx @calculatedFrom(""packet"" )
    , repeat stringy `tab	here`
    ,
//x
//	t
repeat //x
As `two words`, @leftPad ( '\x00'
    ) repeat matchKey`a\`	, @rightPad (' ' ) repeat/// triple
Pad
{ repeat
    u
,
// trailing space 
// packet A { u8 x, }
repeat char[] uint8x , }
    ,
u128	{ repeat
As `u8 x,` ,
pack msg_type,	uint32 lengthOf @calculatedFrom( ""1""	), match roots as
    // " ++ [128512]%N ++ runes_of_ascii " emoji
    x{ ""{,}"" :
    // " ++ [27880; 37322]%N ++ runes_of_ascii "
    Pad
    }
    ,  } ,}
root packet tag
{string pack , } root
packet u8x
    {
string
    pack `doc` , @lengthOf( options1
    )f32	matchKey @calculatedFrom( ""`tick`"" )
`two words` , @leftPad (  '\x00' )@lengthOf( Packet) @tag( 007//x
)
int32
    Pad	@calculatedFrom(""a\\""
)
, @calculatedFrom( """" ) string a1 @lengthOf( metadata ) ,match u128 as Foo {
    [ ""`tick`"" ]
: msg_type
    ,
    10 // a // b
:
msg_type, 00
:  len, ""`tick`"" : _x ,1 : repeatCount
    , [ 1 , //	t
1 ] :
    // packet A { u8 x, }
    pack ,} , @leftPad ( )
float64 pack
    `
` ,
    }")).
Eval vm_compute in ("<<<M230>>>" ++ check (runes_of_ascii "MetaData tag { zchar[ // a // b
007 ]BodyLength ``
    // packet A { u8 x, }
    , } root packet MetaDataX {
string_
    @lengthOf(
Header) ,}
")).
Eval vm_compute in ("<<<T230>>>" ++ terms [mkTok 37 "MetaData" 1 0 false; mkTok 42 "tag" 1 9 false; mkTok 2 "{" 1 13 false; mkTok 14 "zchar[" 1 15 false; mkTok 44 "// a // b" 1 22 true; mkTok 30 "007" 2 0 false; mkTok 13 "]" 2 4 false; mkTok 42 "BodyLength" 2 5 false; mkTok 43 "``" 2 16 false; mkTok 44 "// packet A { u8 x, }" 3 4 true; mkTok 40 "," 4 4 false; mkTok 3 "}" 4 6 false; mkTok 34 "root" 4 8 false; mkTok 35 "packet" 4 13 false; mkTok 42 "MetaDataX" 4 20 false; mkTok 2 "{" 4 30 false; mkTok 42 "string_" 5 0 false; mkTok 7 "@lengthOf(" 6 4 false; mkTok 42 "Header" 7 0 false; mkTok 6 ")" 7 6 false; mkTok 40 "," 7 8 false; mkTok 3 "}" 7 9 false; mkTok 0 "<EOF>" 8 0 false] (mkPacket (mkPtok 37 "MetaData" 1 0 0) (Some (mkPtok 3 "}" 7 9 21)) [(DMeta (mkMetaDef (mkSpan (mkPtok 37 "MetaData" 1 0 0) (mkPtok 3 "}" 4 6 11)) (mkPtok 37 "MetaData" 1 0 0) (mkPtok 42 "tag" 1 9 1) (mkPtok 2 "{" 1 13 2) [(MIDecl (mkMetaDecl (mkSpan (mkPtok 14 "zchar[" 1 15 3) (mkPtok 40 "," 4 4 10)) (TyFixed (mkSpan (mkPtok 14 "zchar[" 1 15 3) (mkPtok 13 "]" 2 4 6)) (mkFixedString (mkSpan (mkPtok 14 "zchar[" 1 15 3) (mkPtok 13 "]" 2 4 6)) (mkPtok 14 "zchar[" 1 15 3) (mkPtok 30 "007" 2 0 5) (mkPtok 13 "]" 2 4 6))) (mkPtok 42 "BodyLength" 2 5 7) (Some (mkPtok 43 "``" 2 16 8)) (mkPtok 40 "," 4 4 10)))] (mkPtok 3 "}" 4 6 11))); (DPacket (mkPacketDef (mkSpan (mkPtok 34 "root" 4 8 12) (mkPtok 3 "}" 7 9 21)) (Some (mkPtok 34 "root" 4 8 12)) (mkPtok 35 "packet" 4 13 13) (mkPtok 42 "MetaDataX" 4 20 14) (mkPtok 2 "{" 4 30 15) [(mkFieldWithAttr (mkSpan (mkPtok 42 "string_" 5 0 16) (mkPtok 40 "," 7 8 20)) [] (LengthField (mkSpan (mkPtok 42 "string_" 5 0 16) (mkPtok 40 "," 7 8 20)) (mkLengthFieldDecl (mkSpan (mkPtok 42 "string_" 5 0 16) (mkPtok 40 "," 7 8 20)) None (mkPtok 42 "string_" 5 0 16) (mkLengthOf (mkSpan (mkPtok 7 "@lengthOf(" 6 4 17) (mkPtok 6 ")" 7 6 19)) (mkPtok 7 "@lengthOf(" 6 4 17) (mkPtok 42 "Header" 7 0 18) (mkPtok 6 ")" 7 6 19)) None (mkPtok 40 "," 7 8 20))))] (mkPtok 3 "}" 7 9 21)))])).
Eval vm_compute in ("<<<M240>>>" ++ check (runes_of_ascii "packet
    matchKey{ }
")).
Eval vm_compute in ("<<<M250>>>" ++ check (runes_of_ascii "root //x
packet
rootA
{ @leftPad ( '\x00'
    ) @rightPad
    (' ' )
    // a // b
    @tag(0 ) repeat zchar[ 3 ] matchKey
    , // packet A { u8 x, }
} packet u8x { } options
    { packetx= '0'
Pad = '\x00' Logon
    =  false ;}
// " ++ [128512]%N ++ runes_of_ascii " emoji
// c
MetaData u8x {i32 rootA
    , MetaDataX zchar`" ++ [233]%N ++ runes_of_ascii "` , // packet A { u8 x, }
int64 Foo `// not a comment` ,
}
")).
Eval vm_compute in ("<<<M260>>>" ++ check (runes_of_ascii "packet As { @lengthOf( // c
u8x )
    repeat u32 T ,
string Foo@calculatedFrom(
""it's"" ) `doc`  , @tag(
// a // b
// " ++ [27880; 37322]%N ++ runes_of_ascii "
00) //
@tag( 42 )	repeatCount { packetx { repeat// @lengthOf(
f64 x_y_z
    `doc` //x
,
repeat
    char[65535
] crc ,} ,
    u16 A , o @lengthOf( MetaDataX)  `// not a comment`
    , repeat string  BodyLength `
`
    /// triple
    , }, repeatCount
@lengthOf( chars)
,  match //	t
uint8x
    as As  {007 :
Packet """"  : Header 3
:zchar 7
// packet A { u8 x, }
// " ++ [27880; 37322]%N ++ runes_of_ascii "
:
u128 , [ 4294967296 ,	""x y"" // " ++ [128512]%N ++ runes_of_ascii " emoji
]
:
crc
[ ""1"" ,
    00]:
//x
// @lengthOf(
int ,	}
,
@lengthOf( Foo ) repeat // " ++ [128512]%N ++ runes_of_ascii " emoji
u
{string float
// packet A { u8 x, }
/// triple
,  string matchKey
    @calculatedFrom( ""it's"" // " ++ [128512]%N ++ runes_of_ascii " emoji
)  `it's` ,
    repeat Packet repeatCount
    ,
    }, @lengthOf( T)
A
    //x
    @lengthOf( rootA // c
) `` ,
    repeatCount // " ++ [128512]%N ++ runes_of_ascii " emoji
@calculatedFrom( ""packet"" ) , char[] x
// `tick` ""quote"" 'q'
// packet A { u8 x, }
@calculatedFrom( ""abc"" ) `crlf
line` , }packet
i8i8
// c
// trailing space 
{} options{ MetaDataX=true ;//x
charz	=
    true ; }
")).
Eval vm_compute in ("<<<M270>>>" ++ check (runes_of_ascii "options { i8i8= char[]
    ; } packet
MetaDataX{ @calculatedFrom( ""x y"" )int32 T `" ++ [28040; 24687; 31867; 22411]%N ++ runes_of_ascii "` ,
    f64 matchKey
    , }")).
Eval vm_compute in ("<<<M280>>>" ++ check (runes_of_ascii "
packet tag { char[]i64_
    `crlf
line`, @tag(4294967296	)
repeat // c
f32a { char[]
u8x @lengthOf( Foo)
    `{ , }` ,
match
Foo // " ++ [128512]%N ++ runes_of_ascii " emoji
as
packetx {255 : uint8x [	""\" ++ [233]%N ++ runes_of_ascii """ ]
: matchKey ,} ,	},
As @calculatedFrom( ""a	b"" )
`doc`, char[] BodyLength `two words`	, }
")).
Eval vm_compute in ("<<<M290>>>" ++ check (runes_of_ascii "root packet T // trailing space 
{
//	t
//
@rightPad( // " ++ [27880; 37322]%N ++ runes_of_ascii "
'\x00'
    ) repeat metadata {repeat
    i64 Z9_ , }
    , } options {_x = char[] ; tag
    =
    // packet A { u8 x, }
    uint32 calculatedFrom	=u16;  } packet // c
packetx { @leftPad /// triple
(' '	) int trueish , packetx
{
    leftPad	@lengthOf( //	t
string_ )
    , // `tick` ""quote"" 'q'
repeat o	string_	,  match // " ++ [27880; 37322]%N ++ runes_of_ascii "
stringy as packetx{ 0 :// `tick` ""quote"" 'q'
pack,
    // @lengthOf(
    ""CRC32""	:tag ,
    // trailing space 
    """ ++ [128512]%N ++ runes_of_ascii """:
    Z9_	4294967296 :  chars//x
,007 : calculatedFrom ,10
    : u8x , }
    , } // " ++ [27880; 37322]%N ++ runes_of_ascii "
, repeat BodyLength{ //	t
repeat char[ 3 ]	metadata `a\` ,  repeat char
pack`a\` , char
Header
    //	t
    @calculatedFrom(
""// no comment"")
    ,
    uint32 roots
    @lengthOf( i64_ ) ,
    }
    ,
// a // b
// trailing space 
pack , repeat len Header `
` ,	f64	f32a, char[] x,
    Header @lengthOf(a1	) , asx
@lengthOf( calculatedFrom	) ,  } MetaData roots {
options1 As// a // b
, string_
// `tick` ""quote"" 'q'
// c
float
`{ , }`
/// triple
// packet A { u8 x, }
, // trailing space 
} 	 ")).
Eval vm_compute in ("<<<M300>>>" ++ check (runes_of_ascii "options {
	StringPrefixLenType = u16;
	ArrayPrefixLenType = u16;
}

packet SampleBinary {
    uint16 MsgType `" ++ [28040; 24687; 31867; 22411]%N ++ runes_of_ascii "`,
    u16 BodyLenght @lengthOf(Body) `" ++ [28040; 24687; 20307; 38271; 24230]%N ++ runes_of_ascii "`,
    match MsgType as Body {
        1 : Logon,
        2 : Logout,
        3 : Heartbeat,
        4 : RiskControlRequest,
        5 : RiskControlResponse,
    },
        @calculatedFrom(""CRC32"")
    u32 Ckecksum `" ++ [26657; 39564; 21644]%N ++ runes_of_ascii "`,
}

packet Logon {
     @leftPad('0')
    char[10] UserName `" ++ [29992; 25143; 21517]%N ++ runes_of_ascii "`,
    string Password `" ++ [23494; 30721]%N ++ runes_of_ascii "`,
    uint64 ClientId `" ++ [23458; 25143; 31471]%N ++ runes_of_ascii "ID`,
    u16 HeartbeatInterval `" ++ [24515; 36339; 38388; 38548]%N ++ runes_of_ascii "`,
}

packet Logout {
      @rightPad('0')
    char[10] UserName `" ++ [29992; 25143; 21517]%N ++ runes_of_ascii "`,
    uint64 ClientId `" ++ [23458; 25143; 31471]%N ++ runes_of_ascii "ID`,
}

packet Heartbeat {
}

packet RiskControlRequest {
    string UniqueOrderId `" ++ [21807; 19968; 35746; 21333; 21495]%N ++ runes_of_ascii "`,
    char[16] ClOrdID `" ++ [23458; 25143; 35746; 21333; 21495]%N ++ runes_of_ascii "`,
    char[3] MarketID `" ++ [24066; 22330]%N ++ runes_of_ascii "id`,
    char[12] SecurityID `" ++ [35777; 21048; 20195; 30721]%N ++ runes_of_ascii "`,
    char Side `" ++ [20080; 21334; 26041; 21521]%N ++ runes_of_ascii "`,
    char OrderType `" ++ [35746; 21333; 31867; 22411]%N ++ runes_of_ascii "`,
    u64 Price `" ++ [20215; 26684]%N ++ runes_of_ascii "`,
    u32 Qty `" ++ [25968; 37327]%N ++ runes_of_ascii "`,
    repeat string ExtraInfo `" ++ [38468; 21152; 20449; 24687]%N ++ runes_of_ascii "`,
    repeat SubOrder {
    		char[16] ClOrdID `" ++ [23376; 35746; 21333; 21495]%N ++ runes_of_ascii "`,
    		u64 Price `" ++ [23376; 35746; 21333; 20215; 26684]%N ++ runes_of_ascii "`,
    		u32 Qty `" ++ [23376; 35746; 21333; 25968; 37327]%N ++ runes_of_ascii "`,
    	},
}

packet RiskControlResponse {
    string UniqueOrderId `" ++ [21807; 19968; 35746; 21333; 21495]%N ++ runes_of_ascii "`,
    i32 Status `" ++ [29366; 24577]%N ++ runes_of_ascii "`,
    string Msg `" ++ [32467; 26524; 20449; 24687]%N ++ runes_of_ascii "`,
    repeat Detail,
}

packet Detail {
    string RuleName `" ++ [35268; 21017; 21517; 31216]%N ++ runes_of_ascii "`,
    u16 Code `" ++ [21407; 22240; 20195; 30721]%N ++ runes_of_ascii "`,
}")).
Eval vm_compute in ("<<<T300>>>" ++ terms [mkTok 1 "options" 1 0 false; mkTok 2 "{" 1 8 false; mkTok 42 "StringPrefixLenType" 2 1 false; mkTok 4 "=" 2 21 false; mkTok 21 "u16" 2 23 false; mkTok 41 ";" 2 26 false; mkTok 42 "ArrayPrefixLenType" 3 1 false; mkTok 4 "=" 3 20 false; mkTok 21 "u16" 3 22 false; mkTok 41 ";" 3 25 false; mkTok 3 "}" 4 0 false; mkTok 35 "packet" 6 0 false; mkTok 42 "SampleBinary" 6 7 false; mkTok 2 "{" 6 20 false; mkTok 21 "uint16" 7 4 false; mkTok 42 "MsgType" 7 11 false; mkTok 43 (string_of_bytes [96; 230; 182; 136; 230; 129; 175; 231; 177; 187; 229; 158; 139; 96]%N) 7 19 false; mkTok 40 "," 7 25 false; mkTok 21 "u16" 8 4 false; mkTok 42 "BodyLenght" 8 8 false; mkTok 7 "@lengthOf(" 8 19 false; mkTok 42 "Body" 8 29 false; mkTok 6 ")" 8 33 false; mkTok 43 (string_of_bytes [96; 230; 182; 136; 230; 129; 175; 228; 189; 147; 233; 149; 191; 229; 186; 166; 96]%N) 8 35 false; mkTok 40 "," 8 42 false; mkTok 38 "match" 9 4 false; mkTok 42 "MsgType" 9 10 false; mkTok 17 "as" 9 18 false; mkTok 42 "Body" 9 21 false; mkTok 2 "{" 9 26 false; mkTok 30 "1" 10 8 false; mkTok 39 ":" 10 10 false; mkTok 42 "Logon" 10 12 false; mkTok 40 "," 10 17 false; mkTok 30 "2" 11 8 false; mkTok 39 ":" 11 10 false; mkTok 42 "Logout" 11 12 false; mkTok 40 "," 11 18 false; mkTok 30 "3" 12 8 false; mkTok 39 ":" 12 10 false; mkTok 42 "Heartbeat" 12 12 false; mkTok 40 "," 12 21 false; mkTok 30 "4" 13 8 false; mkTok 39 ":" 13 10 false; mkTok 42 "RiskControlRequest" 13 12 false; mkTok 40 "," 13 30 false; mkTok 30 "5" 14 8 false; mkTok 39 ":" 14 10 false; mkTok 42 "RiskControlResponse" 14 12 false; mkTok 40 "," 14 31 false; mkTok 3 "}" 15 4 false; mkTok 40 "," 15 5 false; mkTok 5 "@calculatedFrom(" 16 8 false; mkTok 31 """CRC32""" 16 24 false; mkTok 6 ")" 16 31 false; mkTok 22 "u32" 17 4 false; mkTok 42 "Ckecksum" 17 8 false; mkTok 43 (string_of_bytes [96; 230; 160; 161; 233; 170; 140; 229; 146; 140; 96]%N) 17 17 false; mkTok 40 "," 17 22 false; mkTok 3 "}" 18 0 false; mkTok 35 "packet" 20 0 false; mkTok 42 "Logon" 20 7 false; mkTok 2 "{" 20 13 false; mkTok 32 "@leftPad" 21 5 false; mkTok 8 "(" 21 13 false; mkTok 33 "'0'" 21 14 false; mkTok 6 ")" 21 17 false; mkTok 12 "char[" 22 4 false; mkTok 30 "10" 22 9 false; mkTok 13 "]" 22 11 false; mkTok 42 "UserName" 22 13 false; mkTok 43 (string_of_bytes [96; 231; 148; 168; 230; 136; 183; 229; 144; 141; 96]%N) 22 22 false; mkTok 40 "," 22 27 false; mkTok 15 "string" 23 4 false; mkTok 42 "Password" 23 11 false; mkTok 43 (string_of_bytes [96; 229; 175; 134; 231; 160; 129; 96]%N) 23 20 false; mkTok 40 "," 23 24 false; mkTok 23 "uint64" 24 4 false; mkTok 42 "ClientId" 24 11 false; mkTok 43 (string_of_bytes [96; 229; 174; 162; 230; 136; 183; 231; 171; 175; 73; 68; 96]%N) 24 20 false; mkTok 40 "," 24 27 false; mkTok 21 "u16" 25 4 false; mkTok 42 "HeartbeatInterval" 25 8 false; mkTok 43 (string_of_bytes [96; 229; 191; 131; 232; 183; 179; 233; 151; 180; 233; 154; 148; 96]%N) 25 26 false; mkTok 40 "," 25 32 false; mkTok 3 "}" 26 0 false; mkTok 35 "packet" 28 0 false; mkTok 42 "Logout" 28 7 false; mkTok 2 "{" 28 14 false; mkTok 32 "@rightPad" 29 6 false; mkTok 8 "(" 29 15 false; mkTok 33 "'0'" 29 16 false; mkTok 6 ")" 29 19 false; mkTok 12 "char[" 30 4 false; mkTok 30 "10" 30 9 false; mkTok 13 "]" 30 11 false; mkTok 42 "UserName" 30 13 false; mkTok 43 (string_of_bytes [96; 231; 148; 168; 230; 136; 183; 229; 144; 141; 96]%N) 30 22 false; mkTok 40 "," 30 27 false; mkTok 23 "uint64" 31 4 false; mkTok 42 "ClientId" 31 11 false; mkTok 43 (string_of_bytes [96; 229; 174; 162; 230; 136; 183; 231; 171; 175; 73; 68; 96]%N) 31 20 false; mkTok 40 "," 31 27 false; mkTok 3 "}" 32 0 false; mkTok 35 "packet" 34 0 false; mkTok 42 "Heartbeat" 34 7 false; mkTok 2 "{" 34 17 false; mkTok 3 "}" 35 0 false; mkTok 35 "packet" 37 0 false; mkTok 42 "RiskControlRequest" 37 7 false; mkTok 2 "{" 37 26 false; mkTok 15 "string" 38 4 false; mkTok 42 "UniqueOrderId" 38 11 false; mkTok 43 (string_of_bytes [96; 229; 148; 175; 228; 184; 128; 232; 174; 162; 229; 141; 149; 229; 143; 183; 96]%N) 38 25 false; mkTok 40 "," 38 32 false; mkTok 12 "char[" 39 4 false; mkTok 30 "16" 39 9 false; mkTok 13 "]" 39 11 false; mkTok 42 "ClOrdID" 39 13 false; mkTok 43 (string_of_bytes [96; 229; 174; 162; 230; 136; 183; 232; 174; 162; 229; 141; 149; 229; 143; 183; 96]%N) 39 21 false; mkTok 40 "," 39 28 false; mkTok 12 "char[" 40 4 false; mkTok 30 "3" 40 9 false; mkTok 13 "]" 40 10 false; mkTok 42 "MarketID" 40 12 false; mkTok 43 (string_of_bytes [96; 229; 184; 130; 229; 156; 186; 105; 100; 96]%N) 40 21 false; mkTok 40 "," 40 27 false; mkTok 12 "char[" 41 4 false; mkTok 30 "12" 41 9 false; mkTok 13 "]" 41 11 false; mkTok 42 "SecurityID" 41 13 false; mkTok 43 (string_of_bytes [96; 232; 175; 129; 229; 136; 184; 228; 187; 163; 231; 160; 129; 96]%N) 41 24 false; mkTok 40 "," 41 30 false; mkTok 19 "char" 42 4 false; mkTok 42 "Side" 42 9 false; mkTok 43 (string_of_bytes [96; 228; 185; 176; 229; 141; 150; 230; 150; 185; 229; 144; 145; 96]%N) 42 14 false; mkTok 40 "," 42 20 false; mkTok 19 "char" 43 4 false; mkTok 42 "OrderType" 43 9 false; mkTok 43 (string_of_bytes [96; 232; 174; 162; 229; 141; 149; 231; 177; 187; 229; 158; 139; 96]%N) 43 19 false; mkTok 40 "," 43 25 false; mkTok 23 "u64" 44 4 false; mkTok 42 "Price" 44 8 false; mkTok 43 (string_of_bytes [96; 228; 187; 183; 230; 160; 188; 96]%N) 44 14 false; mkTok 40 "," 44 18 false; mkTok 22 "u32" 45 4 false; mkTok 42 "Qty" 45 8 false; mkTok 43 (string_of_bytes [96; 230; 149; 176; 233; 135; 143; 96]%N) 45 12 false; mkTok 40 "," 45 16 false; mkTok 36 "repeat" 46 4 false; mkTok 15 "string" 46 11 false; mkTok 42 "ExtraInfo" 46 18 false; mkTok 43 (string_of_bytes [96; 233; 153; 132; 229; 138; 160; 228; 191; 161; 230; 129; 175; 96]%N) 46 28 false; mkTok 40 "," 46 34 false; mkTok 36 "repeat" 47 4 false; mkTok 42 "SubOrder" 47 11 false; mkTok 2 "{" 47 20 false; mkTok 12 "char[" 48 6 false; mkTok 30 "16" 48 11 false; mkTok 13 "]" 48 13 false; mkTok 42 "ClOrdID" 48 15 false; mkTok 43 (string_of_bytes [96; 229; 173; 144; 232; 174; 162; 229; 141; 149; 229; 143; 183; 96]%N) 48 23 false; mkTok 40 "," 48 29 false; mkTok 23 "u64" 49 6 false; mkTok 42 "Price" 49 10 false; mkTok 43 (string_of_bytes [96; 229; 173; 144; 232; 174; 162; 229; 141; 149; 228; 187; 183; 230; 160; 188; 96]%N) 49 16 false; mkTok 40 "," 49 23 false; mkTok 22 "u32" 50 6 false; mkTok 42 "Qty" 50 10 false; mkTok 43 (string_of_bytes [96; 229; 173; 144; 232; 174; 162; 229; 141; 149; 230; 149; 176; 233; 135; 143; 96]%N) 50 14 false; mkTok 40 "," 50 21 false; mkTok 3 "}" 51 5 false; mkTok 40 "," 51 6 false; mkTok 3 "}" 52 0 false; mkTok 35 "packet" 54 0 false; mkTok 42 "RiskControlResponse" 54 7 false; mkTok 2 "{" 54 27 false; mkTok 15 "string" 55 4 false; mkTok 42 "UniqueOrderId" 55 11 false; mkTok 43 (string_of_bytes [96; 229; 148; 175; 228; 184; 128; 232; 174; 162; 229; 141; 149; 229; 143; 183; 96]%N) 55 25 false; mkTok 40 "," 55 32 false; mkTok 26 "i32" 56 4 false; mkTok 42 "Status" 56 8 false; mkTok 43 (string_of_bytes [96; 231; 138; 182; 230; 128; 129; 96]%N) 56 15 false; mkTok 40 "," 56 19 false; mkTok 15 "string" 57 4 false; mkTok 42 "Msg" 57 11 false; mkTok 43 (string_of_bytes [96; 231; 187; 147; 230; 158; 156; 228; 191; 161; 230; 129; 175; 96]%N) 57 15 false; mkTok 40 "," 57 21 false; mkTok 36 "repeat" 58 4 false; mkTok 42 "Detail" 58 11 false; mkTok 40 "," 58 17 false; mkTok 3 "}" 59 0 false; mkTok 35 "packet" 61 0 false; mkTok 42 "Detail" 61 7 false; mkTok 2 "{" 61 14 false; mkTok 15 "string" 62 4 false; mkTok 42 "RuleName" 62 11 false; mkTok 43 (string_of_bytes [96; 232; 167; 132; 229; 136; 153; 229; 144; 141; 231; 167; 176; 96]%N) 62 20 false; mkTok 40 "," 62 26 false; mkTok 21 "u16" 63 4 false; mkTok 42 "Code" 63 8 false; mkTok 43 (string_of_bytes [96; 229; 142; 159; 229; 155; 160; 228; 187; 163; 231; 160; 129; 96]%N) 63 13 false; mkTok 40 "," 63 19 false; mkTok 3 "}" 64 0 false; mkTok 0 "<EOF>" 64 1 false] (mkPacket (mkPtok 1 "options" 1 0 0) (Some (mkPtok 3 "}" 64 0 204)) [(DOption (mkOptionDef (mkSpan (mkPtok 1 "options" 1 0 0) (mkPtok 3 "}" 4 0 10)) (mkPtok 1 "options" 1 0 0) (mkPtok 2 "{" 1 8 1) [(mkOptionDecl (mkSpan (mkPtok 42 "StringPrefixLenType" 2 1 2) (mkPtok 41 ";" 2 26 5)) (mkPtok 42 "StringPrefixLenType" 2 1 2) (mkPtok 4 "=" 2 21 3) (VType (mkSpan (mkPtok 21 "u16" 2 23 4) (mkPtok 21 "u16" 2 23 4)) (TyBasic (mkSpan (mkPtok 21 "u16" 2 23 4) (mkPtok 21 "u16" 2 23 4)) (mkBasicType (mkSpan (mkPtok 21 "u16" 2 23 4) (mkPtok 21 "u16" 2 23 4)) (mkPtok 21 "u16" 2 23 4)))) (Some (mkPtok 41 ";" 2 26 5))); (mkOptionDecl (mkSpan (mkPtok 42 "ArrayPrefixLenType" 3 1 6) (mkPtok 41 ";" 3 25 9)) (mkPtok 42 "ArrayPrefixLenType" 3 1 6) (mkPtok 4 "=" 3 20 7) (VType (mkSpan (mkPtok 21 "u16" 3 22 8) (mkPtok 21 "u16" 3 22 8)) (TyBasic (mkSpan (mkPtok 21 "u16" 3 22 8) (mkPtok 21 "u16" 3 22 8)) (mkBasicType (mkSpan (mkPtok 21 "u16" 3 22 8) (mkPtok 21 "u16" 3 22 8)) (mkPtok 21 "u16" 3 22 8)))) (Some (mkPtok 41 ";" 3 25 9)))] (mkPtok 3 "}" 4 0 10))); (DPacket (mkPacketDef (mkSpan (mkPtok 35 "packet" 6 0 11) (mkPtok 3 "}" 18 0 59)) None (mkPtok 35 "packet" 6 0 11) (mkPtok 42 "SampleBinary" 6 7 12) (mkPtok 2 "{" 6 20 13) [(mkFieldWithAttr (mkSpan (mkPtok 21 "uint16" 7 4 14) (mkPtok 40 "," 7 25 17)) [] (MetaField (mkSpan (mkPtok 21 "uint16" 7 4 14) (mkPtok 40 "," 7 25 17)) None (mkMetaDecl (mkSpan (mkPtok 21 "uint16" 7 4 14) (mkPtok 40 "," 7 25 17)) (TyBasic (mkSpan (mkPtok 21 "uint16" 7 4 14) (mkPtok 21 "uint16" 7 4 14)) (mkBasicType (mkSpan (mkPtok 21 "uint16" 7 4 14) (mkPtok 21 "uint16" 7 4 14)) (mkPtok 21 "uint16" 7 4 14))) (mkPtok 42 "MsgType" 7 11 15) (Some (mkPtok 43 (string_of_bytes [96; 230; 182; 136; 230; 129; 175; 231; 177; 187; 229; 158; 139; 96]%N) 7 19 16)) (mkPtok 40 "," 7 25 17)))); (mkFieldWithAttr (mkSpan (mkPtok 21 "u16" 8 4 18) (mkPtok 40 "," 8 42 24)) [] (LengthField (mkSpan (mkPtok 21 "u16" 8 4 18) (mkPtok 40 "," 8 42 24)) (mkLengthFieldDecl (mkSpan (mkPtok 21 "u16" 8 4 18) (mkPtok 40 "," 8 42 24)) (Some (TyBasic (mkSpan (mkPtok 21 "u16" 8 4 18) (mkPtok 21 "u16" 8 4 18)) (mkBasicType (mkSpan (mkPtok 21 "u16" 8 4 18) (mkPtok 21 "u16" 8 4 18)) (mkPtok 21 "u16" 8 4 18)))) (mkPtok 42 "BodyLenght" 8 8 19) (mkLengthOf (mkSpan (mkPtok 7 "@lengthOf(" 8 19 20) (mkPtok 6 ")" 8 33 22)) (mkPtok 7 "@lengthOf(" 8 19 20) (mkPtok 42 "Body" 8 29 21) (mkPtok 6 ")" 8 33 22)) (Some (mkPtok 43 (string_of_bytes [96; 230; 182; 136; 230; 129; 175; 228; 189; 147; 233; 149; 191; 229; 186; 166; 96]%N) 8 35 23)) (mkPtok 40 "," 8 42 24)))); (mkFieldWithAttr (mkSpan (mkPtok 38 "match" 9 4 25) (mkPtok 40 "," 15 5 51)) [] (MatchField (mkSpan (mkPtok 38 "match" 9 4 25) (mkPtok 40 "," 15 5 51)) (mkMatchFieldDecl (mkSpan (mkPtok 38 "match" 9 4 25) (mkPtok 3 "}" 15 4 50)) (mkPtok 38 "match" 9 4 25) (mkPtok 42 "MsgType" 9 10 26) (mkPtok 17 "as" 9 18 27) (mkPtok 42 "Body" 9 21 28) (mkPtok 2 "{" 9 26 29) [(mkMatchPair (mkSpan (mkPtok 30 "1" 10 8 30) (mkPtok 40 "," 10 17 33)) (MKDigits (mkPtok 30 "1" 10 8 30)) (mkPtok 39 ":" 10 10 31) (mkPtok 42 "Logon" 10 12 32) (Some (mkPtok 40 "," 10 17 33))); (mkMatchPair (mkSpan (mkPtok 30 "2" 11 8 34) (mkPtok 40 "," 11 18 37)) (MKDigits (mkPtok 30 "2" 11 8 34)) (mkPtok 39 ":" 11 10 35) (mkPtok 42 "Logout" 11 12 36) (Some (mkPtok 40 "," 11 18 37))); (mkMatchPair (mkSpan (mkPtok 30 "3" 12 8 38) (mkPtok 40 "," 12 21 41)) (MKDigits (mkPtok 30 "3" 12 8 38)) (mkPtok 39 ":" 12 10 39) (mkPtok 42 "Heartbeat" 12 12 40) (Some (mkPtok 40 "," 12 21 41))); (mkMatchPair (mkSpan (mkPtok 30 "4" 13 8 42) (mkPtok 40 "," 13 30 45)) (MKDigits (mkPtok 30 "4" 13 8 42)) (mkPtok 39 ":" 13 10 43) (mkPtok 42 "RiskControlRequest" 13 12 44) (Some (mkPtok 40 "," 13 30 45))); (mkMatchPair (mkSpan (mkPtok 30 "5" 14 8 46) (mkPtok 40 "," 14 31 49)) (MKDigits (mkPtok 30 "5" 14 8 46)) (mkPtok 39 ":" 14 10 47) (mkPtok 42 "RiskControlResponse" 14 12 48) (Some (mkPtok 40 "," 14 31 49)))] (mkPtok 3 "}" 15 4 50)) (mkPtok 40 "," 15 5 51))); (mkFieldWithAttr (mkSpan (mkPtok 5 "@calculatedFrom(" 16 8 52) (mkPtok 40 "," 17 22 58)) [(FACalculatedFrom (mkSpan (mkPtok 5 "@calculatedFrom(" 16 8 52) (mkPtok 6 ")" 16 31 54)) (mkCalculatedFrom (mkSpan (mkPtok 5 "@calculatedFrom(" 16 8 52) (mkPtok 6 ")" 16 31 54)) (mkPtok 5 "@calculatedFrom(" 16 8 52) (mkPtok 31 """CRC32""" 16 24 53) (mkPtok 6 ")" 16 31 54)))] (MetaField (mkSpan (mkPtok 22 "u32" 17 4 55) (mkPtok 40 "," 17 22 58)) None (mkMetaDecl (mkSpan (mkPtok 22 "u32" 17 4 55) (mkPtok 40 "," 17 22 58)) (TyBasic (mkSpan (mkPtok 22 "u32" 17 4 55) (mkPtok 22 "u32" 17 4 55)) (mkBasicType (mkSpan (mkPtok 22 "u32" 17 4 55) (mkPtok 22 "u32" 17 4 55)) (mkPtok 22 "u32" 17 4 55))) (mkPtok 42 "Ckecksum" 17 8 56) (Some (mkPtok 43 (string_of_bytes [96; 230; 160; 161; 233; 170; 140; 229; 146; 140; 96]%N) 17 17 57)) (mkPtok 40 "," 17 22 58))))] (mkPtok 3 "}" 18 0 59))); (DPacket (mkPacketDef (mkSpan (mkPtok 35 "packet" 20 0 60) (mkPtok 3 "}" 26 0 85)) None (mkPtok 35 "packet" 20 0 60) (mkPtok 42 "Logon" 20 7 61) (mkPtok 2 "{" 20 13 62) [(mkFieldWithAttr (mkSpan (mkPtok 32 "@leftPad" 21 5 63) (mkPtok 40 "," 22 27 72)) [(FAPadding (mkSpan (mkPtok 32 "@leftPad" 21 5 63) (mkPtok 6 ")" 21 17 66)) (mkPaddingAttr (mkSpan (mkPtok 32 "@leftPad" 21 5 63) (mkPtok 6 ")" 21 17 66)) (mkPtok 32 "@leftPad" 21 5 63) (mkPtok 8 "(" 21 13 64) (Some (mkPtok 33 "'0'" 21 14 65)) (mkPtok 6 ")" 21 17 66)))] (MetaField (mkSpan (mkPtok 12 "char[" 22 4 67) (mkPtok 40 "," 22 27 72)) None (mkMetaDecl (mkSpan (mkPtok 12 "char[" 22 4 67) (mkPtok 40 "," 22 27 72)) (TyFixed (mkSpan (mkPtok 12 "char[" 22 4 67) (mkPtok 13 "]" 22 11 69)) (mkFixedString (mkSpan (mkPtok 12 "char[" 22 4 67) (mkPtok 13 "]" 22 11 69)) (mkPtok 12 "char[" 22 4 67) (mkPtok 30 "10" 22 9 68) (mkPtok 13 "]" 22 11 69))) (mkPtok 42 "UserName" 22 13 70) (Some (mkPtok 43 (string_of_bytes [96; 231; 148; 168; 230; 136; 183; 229; 144; 141; 96]%N) 22 22 71)) (mkPtok 40 "," 22 27 72)))); (mkFieldWithAttr (mkSpan (mkPtok 15 "string" 23 4 73) (mkPtok 40 "," 23 24 76)) [] (MetaField (mkSpan (mkPtok 15 "string" 23 4 73) (mkPtok 40 "," 23 24 76)) None (mkMetaDecl (mkSpan (mkPtok 15 "string" 23 4 73) (mkPtok 40 "," 23 24 76)) (TyDynamic (mkSpan (mkPtok 15 "string" 23 4 73) (mkPtok 15 "string" 23 4 73)) (mkDynamicString (mkSpan (mkPtok 15 "string" 23 4 73) (mkPtok 15 "string" 23 4 73)) (mkPtok 15 "string" 23 4 73))) (mkPtok 42 "Password" 23 11 74) (Some (mkPtok 43 (string_of_bytes [96; 229; 175; 134; 231; 160; 129; 96]%N) 23 20 75)) (mkPtok 40 "," 23 24 76)))); (mkFieldWithAttr (mkSpan (mkPtok 23 "uint64" 24 4 77) (mkPtok 40 "," 24 27 80)) [] (MetaField (mkSpan (mkPtok 23 "uint64" 24 4 77) (mkPtok 40 "," 24 27 80)) None (mkMetaDecl (mkSpan (mkPtok 23 "uint64" 24 4 77) (mkPtok 40 "," 24 27 80)) (TyBasic (mkSpan (mkPtok 23 "uint64" 24 4 77) (mkPtok 23 "uint64" 24 4 77)) (mkBasicType (mkSpan (mkPtok 23 "uint64" 24 4 77) (mkPtok 23 "uint64" 24 4 77)) (mkPtok 23 "uint64" 24 4 77))) (mkPtok 42 "ClientId" 24 11 78) (Some (mkPtok 43 (string_of_bytes [96; 229; 174; 162; 230; 136; 183; 231; 171; 175; 73; 68; 96]%N) 24 20 79)) (mkPtok 40 "," 24 27 80)))); (mkFieldWithAttr (mkSpan (mkPtok 21 "u16" 25 4 81) (mkPtok 40 "," 25 32 84)) [] (MetaField (mkSpan (mkPtok 21 "u16" 25 4 81) (mkPtok 40 "," 25 32 84)) None (mkMetaDecl (mkSpan (mkPtok 21 "u16" 25 4 81) (mkPtok 40 "," 25 32 84)) (TyBasic (mkSpan (mkPtok 21 "u16" 25 4 81) (mkPtok 21 "u16" 25 4 81)) (mkBasicType (mkSpan (mkPtok 21 "u16" 25 4 81) (mkPtok 21 "u16" 25 4 81)) (mkPtok 21 "u16" 25 4 81))) (mkPtok 42 "HeartbeatInterval" 25 8 82) (Some (mkPtok 43 (string_of_bytes [96; 229; 191; 131; 232; 183; 179; 233; 151; 180; 233; 154; 148; 96]%N) 25 26 83)) (mkPtok 40 "," 25 32 84))))] (mkPtok 3 "}" 26 0 85))); (DPacket (mkPacketDef (mkSpan (mkPtok 35 "packet" 28 0 86) (mkPtok 3 "}" 32 0 103)) None (mkPtok 35 "packet" 28 0 86) (mkPtok 42 "Logout" 28 7 87) (mkPtok 2 "{" 28 14 88) [(mkFieldWithAttr (mkSpan (mkPtok 32 "@rightPad" 29 6 89) (mkPtok 40 "," 30 27 98)) [(FAPadding (mkSpan (mkPtok 32 "@rightPad" 29 6 89) (mkPtok 6 ")" 29 19 92)) (mkPaddingAttr (mkSpan (mkPtok 32 "@rightPad" 29 6 89) (mkPtok 6 ")" 29 19 92)) (mkPtok 32 "@rightPad" 29 6 89) (mkPtok 8 "(" 29 15 90) (Some (mkPtok 33 "'0'" 29 16 91)) (mkPtok 6 ")" 29 19 92)))] (MetaField (mkSpan (mkPtok 12 "char[" 30 4 93) (mkPtok 40 "," 30 27 98)) None (mkMetaDecl (mkSpan (mkPtok 12 "char[" 30 4 93) (mkPtok 40 "," 30 27 98)) (TyFixed (mkSpan (mkPtok 12 "char[" 30 4 93) (mkPtok 13 "]" 30 11 95)) (mkFixedString (mkSpan (mkPtok 12 "char[" 30 4 93) (mkPtok 13 "]" 30 11 95)) (mkPtok 12 "char[" 30 4 93) (mkPtok 30 "10" 30 9 94) (mkPtok 13 "]" 30 11 95))) (mkPtok 42 "UserName" 30 13 96) (Some (mkPtok 43 (string_of_bytes [96; 231; 148; 168; 230; 136; 183; 229; 144; 141; 96]%N) 30 22 97)) (mkPtok 40 "," 30 27 98)))); (mkFieldWithAttr (mkSpan (mkPtok 23 "uint64" 31 4 99) (mkPtok 40 "," 31 27 102)) [] (MetaField (mkSpan (mkPtok 23 "uint64" 31 4 99) (mkPtok 40 "," 31 27 102)) None (mkMetaDecl (mkSpan (mkPtok 23 "uint64" 31 4 99) (mkPtok 40 "," 31 27 102)) (TyBasic (mkSpan (mkPtok 23 "uint64" 31 4 99) (mkPtok 23 "uint64" 31 4 99)) (mkBasicType (mkSpan (mkPtok 23 "uint64" 31 4 99) (mkPtok 23 "uint64" 31 4 99)) (mkPtok 23 "uint64" 31 4 99))) (mkPtok 42 "ClientId" 31 11 100) (Some (mkPtok 43 (string_of_bytes [96; 229; 174; 162; 230; 136; 183; 231; 171; 175; 73; 68; 96]%N) 31 20 101)) (mkPtok 40 "," 31 27 102))))] (mkPtok 3 "}" 32 0 103))); (DPacket (mkPacketDef (mkSpan (mkPtok 35 "packet" 34 0 104) (mkPtok 3 "}" 35 0 107)) None (mkPtok 35 "packet" 34 0 104) (mkPtok 42 "Heartbeat" 34 7 105) (mkPtok 2 "{" 34 17 106) [] (mkPtok 3 "}" 35 0 107))); (DPacket (mkPacketDef (mkSpan (mkPtok 35 "packet" 37 0 108) (mkPtok 3 "}" 52 0 173)) None (mkPtok 35 "packet" 37 0 108) (mkPtok 42 "RiskControlRequest" 37 7 109) (mkPtok 2 "{" 37 26 110) [(mkFieldWithAttr (mkSpan (mkPtok 15 "string" 38 4 111) (mkPtok 40 "," 38 32 114)) [] (MetaField (mkSpan (mkPtok 15 "string" 38 4 111) (mkPtok 40 "," 38 32 114)) None (mkMetaDecl (mkSpan (mkPtok 15 "string" 38 4 111) (mkPtok 40 "," 38 32 114)) (TyDynamic (mkSpan (mkPtok 15 "string" 38 4 111) (mkPtok 15 "string" 38 4 111)) (mkDynamicString (mkSpan (mkPtok 15 "string" 38 4 111) (mkPtok 15 "string" 38 4 111)) (mkPtok 15 "string" 38 4 111))) (mkPtok 42 "UniqueOrderId" 38 11 112) (Some (mkPtok 43 (string_of_bytes [96; 229; 148; 175; 228; 184; 128; 232; 174; 162; 229; 141; 149; 229; 143; 183; 96]%N) 38 25 113)) (mkPtok 40 "," 38 32 114)))); (mkFieldWithAttr (mkSpan (mkPtok 12 "char[" 39 4 115) (mkPtok 40 "," 39 28 120)) [] (MetaField (mkSpan (mkPtok 12 "char[" 39 4 115) (mkPtok 40 "," 39 28 120)) None (mkMetaDecl (mkSpan (mkPtok 12 "char[" 39 4 115) (mkPtok 40 "," 39 28 120)) (TyFixed (mkSpan (mkPtok 12 "char[" 39 4 115) (mkPtok 13 "]" 39 11 117)) (mkFixedString (mkSpan (mkPtok 12 "char[" 39 4 115) (mkPtok 13 "]" 39 11 117)) (mkPtok 12 "char[" 39 4 115) (mkPtok 30 "16" 39 9 116) (mkPtok 13 "]" 39 11 117))) (mkPtok 42 "ClOrdID" 39 13 118) (Some (mkPtok 43 (string_of_bytes [96; 229; 174; 162; 230; 136; 183; 232; 174; 162; 229; 141; 149; 229; 143; 183; 96]%N) 39 21 119)) (mkPtok 40 "," 39 28 120)))); (mkFieldWithAttr (mkSpan (mkPtok 12 "char[" 40 4 121) (mkPtok 40 "," 40 27 126)) [] (MetaField (mkSpan (mkPtok 12 "char[" 40 4 121) (mkPtok 40 "," 40 27 126)) None (mkMetaDecl (mkSpan (mkPtok 12 "char[" 40 4 121) (mkPtok 40 "," 40 27 126)) (TyFixed (mkSpan (mkPtok 12 "char[" 40 4 121) (mkPtok 13 "]" 40 10 123)) (mkFixedString (mkSpan (mkPtok 12 "char[" 40 4 121) (mkPtok 13 "]" 40 10 123)) (mkPtok 12 "char[" 40 4 121) (mkPtok 30 "3" 40 9 122) (mkPtok 13 "]" 40 10 123))) (mkPtok 42 "MarketID" 40 12 124) (Some (mkPtok 43 (string_of_bytes [96; 229; 184; 130; 229; 156; 186; 105; 100; 96]%N) 40 21 125)) (mkPtok 40 "," 40 27 126)))); (mkFieldWithAttr (mkSpan (mkPtok 12 "char[" 41 4 127) (mkPtok 40 "," 41 30 132)) [] (MetaField (mkSpan (mkPtok 12 "char[" 41 4 127) (mkPtok 40 "," 41 30 132)) None (mkMetaDecl (mkSpan (mkPtok 12 "char[" 41 4 127) (mkPtok 40 "," 41 30 132)) (TyFixed (mkSpan (mkPtok 12 "char[" 41 4 127) (mkPtok 13 "]" 41 11 129)) (mkFixedString (mkSpan (mkPtok 12 "char[" 41 4 127) (mkPtok 13 "]" 41 11 129)) (mkPtok 12 "char[" 41 4 127) (mkPtok 30 "12" 41 9 128) (mkPtok 13 "]" 41 11 129))) (mkPtok 42 "SecurityID" 41 13 130) (Some (mkPtok 43 (string_of_bytes [96; 232; 175; 129; 229; 136; 184; 228; 187; 163; 231; 160; 129; 96]%N) 41 24 131)) (mkPtok 40 "," 41 30 132)))); (mkFieldWithAttr (mkSpan (mkPtok 19 "char" 42 4 133) (mkPtok 40 "," 42 20 136)) [] (MetaField (mkSpan (mkPtok 19 "char" 42 4 133) (mkPtok 40 "," 42 20 136)) None (mkMetaDecl (mkSpan (mkPtok 19 "char" 42 4 133) (mkPtok 40 "," 42 20 136)) (TyBasic (mkSpan (mkPtok 19 "char" 42 4 133) (mkPtok 19 "char" 42 4 133)) (mkBasicType (mkSpan (mkPtok 19 "char" 42 4 133) (mkPtok 19 "char" 42 4 133)) (mkPtok 19 "char" 42 4 133))) (mkPtok 42 "Side" 42 9 134) (Some (mkPtok 43 (string_of_bytes [96; 228; 185; 176; 229; 141; 150; 230; 150; 185; 229; 144; 145; 96]%N) 42 14 135)) (mkPtok 40 "," 42 20 136)))); (mkFieldWithAttr (mkSpan (mkPtok 19 "char" 43 4 137) (mkPtok 40 "," 43 25 140)) [] (MetaField (mkSpan (mkPtok 19 "char" 43 4 137) (mkPtok 40 "," 43 25 140)) None (mkMetaDecl (mkSpan (mkPtok 19 "char" 43 4 137) (mkPtok 40 "," 43 25 140)) (TyBasic (mkSpan (mkPtok 19 "char" 43 4 137) (mkPtok 19 "char" 43 4 137)) (mkBasicType (mkSpan (mkPtok 19 "char" 43 4 137) (mkPtok 19 "char" 43 4 137)) (mkPtok 19 "char" 43 4 137))) (mkPtok 42 "OrderType" 43 9 138) (Some (mkPtok 43 (string_of_bytes [96; 232; 174; 162; 229; 141; 149; 231; 177; 187; 229; 158; 139; 96]%N) 43 19 139)) (mkPtok 40 "," 43 25 140)))); (mkFieldWithAttr (mkSpan (mkPtok 23 "u64" 44 4 141) (mkPtok 40 "," 44 18 144)) [] (MetaField (mkSpan (mkPtok 23 "u64" 44 4 141) (mkPtok 40 "," 44 18 144)) None (mkMetaDecl (mkSpan (mkPtok 23 "u64" 44 4 141) (mkPtok 40 "," 44 18 144)) (TyBasic (mkSpan (mkPtok 23 "u64" 44 4 141) (mkPtok 23 "u64" 44 4 141)) (mkBasicType (mkSpan (mkPtok 23 "u64" 44 4 141) (mkPtok 23 "u64" 44 4 141)) (mkPtok 23 "u64" 44 4 141))) (mkPtok 42 "Price" 44 8 142) (Some (mkPtok 43 (string_of_bytes [96; 228; 187; 183; 230; 160; 188; 96]%N) 44 14 143)) (mkPtok 40 "," 44 18 144)))); (mkFieldWithAttr (mkSpan (mkPtok 22 "u32" 45 4 145) (mkPtok 40 "," 45 16 148)) [] (MetaField (mkSpan (mkPtok 22 "u32" 45 4 145) (mkPtok 40 "," 45 16 148)) None (mkMetaDecl (mkSpan (mkPtok 22 "u32" 45 4 145) (mkPtok 40 "," 45 16 148)) (TyBasic (mkSpan (mkPtok 22 "u32" 45 4 145) (mkPtok 22 "u32" 45 4 145)) (mkBasicType (mkSpan (mkPtok 22 "u32" 45 4 145) (mkPtok 22 "u32" 45 4 145)) (mkPtok 22 "u32" 45 4 145))) (mkPtok 42 "Qty" 45 8 146) (Some (mkPtok 43 (string_of_bytes [96; 230; 149; 176; 233; 135; 143; 96]%N) 45 12 147)) (mkPtok 40 "," 45 16 148)))); (mkFieldWithAttr (mkSpan (mkPtok 36 "repeat" 46 4 149) (mkPtok 40 "," 46 34 153)) [] (MetaField (mkSpan (mkPtok 36 "repeat" 46 4 149) (mkPtok 40 "," 46 34 153)) (Some (mkPtok 36 "repeat" 46 4 149)) (mkMetaDecl (mkSpan (mkPtok 15 "string" 46 11 150) (mkPtok 40 "," 46 34 153)) (TyDynamic (mkSpan (mkPtok 15 "string" 46 11 150) (mkPtok 15 "string" 46 11 150)) (mkDynamicString (mkSpan (mkPtok 15 "string" 46 11 150) (mkPtok 15 "string" 46 11 150)) (mkPtok 15 "string" 46 11 150))) (mkPtok 42 "ExtraInfo" 46 18 151) (Some (mkPtok 43 (string_of_bytes [96; 233; 153; 132; 229; 138; 160; 228; 191; 161; 230; 129; 175; 96]%N) 46 28 152)) (mkPtok 40 "," 46 34 153)))); (mkFieldWithAttr (mkSpan (mkPtok 36 "repeat" 47 4 154) (mkPtok 40 "," 51 6 172)) [] (InerObjectField (mkSpan (mkPtok 36 "repeat" 47 4 154) (mkPtok 40 "," 51 6 172)) (Some (mkPtok 36 "repeat" 47 4 154)) (InerObjectDecl (mkSpan (mkPtok 42 "SubOrder" 47 11 155) (mkPtok 3 "}" 51 5 171)) (mkPtok 42 "SubOrder" 47 11 155) (mkPtok 2 "{" 47 20 156) [(MetaField (mkSpan (mkPtok 12 "char[" 48 6 157) (mkPtok 40 "," 48 29 162)) None (mkMetaDecl (mkSpan (mkPtok 12 "char[" 48 6 157) (mkPtok 40 "," 48 29 162)) (TyFixed (mkSpan (mkPtok 12 "char[" 48 6 157) (mkPtok 13 "]" 48 13 159)) (mkFixedString (mkSpan (mkPtok 12 "char[" 48 6 157) (mkPtok 13 "]" 48 13 159)) (mkPtok 12 "char[" 48 6 157) (mkPtok 30 "16" 48 11 158) (mkPtok 13 "]" 48 13 159))) (mkPtok 42 "ClOrdID" 48 15 160) (Some (mkPtok 43 (string_of_bytes [96; 229; 173; 144; 232; 174; 162; 229; 141; 149; 229; 143; 183; 96]%N) 48 23 161)) (mkPtok 40 "," 48 29 162))); (MetaField (mkSpan (mkPtok 23 "u64" 49 6 163) (mkPtok 40 "," 49 23 166)) None (mkMetaDecl (mkSpan (mkPtok 23 "u64" 49 6 163) (mkPtok 40 "," 49 23 166)) (TyBasic (mkSpan (mkPtok 23 "u64" 49 6 163) (mkPtok 23 "u64" 49 6 163)) (mkBasicType (mkSpan (mkPtok 23 "u64" 49 6 163) (mkPtok 23 "u64" 49 6 163)) (mkPtok 23 "u64" 49 6 163))) (mkPtok 42 "Price" 49 10 164) (Some (mkPtok 43 (string_of_bytes [96; 229; 173; 144; 232; 174; 162; 229; 141; 149; 228; 187; 183; 230; 160; 188; 96]%N) 49 16 165)) (mkPtok 40 "," 49 23 166))); (MetaField (mkSpan (mkPtok 22 "u32" 50 6 167) (mkPtok 40 "," 50 21 170)) None (mkMetaDecl (mkSpan (mkPtok 22 "u32" 50 6 167) (mkPtok 40 "," 50 21 170)) (TyBasic (mkSpan (mkPtok 22 "u32" 50 6 167) (mkPtok 22 "u32" 50 6 167)) (mkBasicType (mkSpan (mkPtok 22 "u32" 50 6 167) (mkPtok 22 "u32" 50 6 167)) (mkPtok 22 "u32" 50 6 167))) (mkPtok 42 "Qty" 50 10 168) (Some (mkPtok 43 (string_of_bytes [96; 229; 173; 144; 232; 174; 162; 229; 141; 149; 230; 149; 176; 233; 135; 143; 96]%N) 50 14 169)) (mkPtok 40 "," 50 21 170)))] (mkPtok 3 "}" 51 5 171)) (mkPtok 40 "," 51 6 172)))] (mkPtok 3 "}" 52 0 173))); (DPacket (mkPacketDef (mkSpan (mkPtok 35 "packet" 54 0 174) (mkPtok 3 "}" 59 0 192)) None (mkPtok 35 "packet" 54 0 174) (mkPtok 42 "RiskControlResponse" 54 7 175) (mkPtok 2 "{" 54 27 176) [(mkFieldWithAttr (mkSpan (mkPtok 15 "string" 55 4 177) (mkPtok 40 "," 55 32 180)) [] (MetaField (mkSpan (mkPtok 15 "string" 55 4 177) (mkPtok 40 "," 55 32 180)) None (mkMetaDecl (mkSpan (mkPtok 15 "string" 55 4 177) (mkPtok 40 "," 55 32 180)) (TyDynamic (mkSpan (mkPtok 15 "string" 55 4 177) (mkPtok 15 "string" 55 4 177)) (mkDynamicString (mkSpan (mkPtok 15 "string" 55 4 177) (mkPtok 15 "string" 55 4 177)) (mkPtok 15 "string" 55 4 177))) (mkPtok 42 "UniqueOrderId" 55 11 178) (Some (mkPtok 43 (string_of_bytes [96; 229; 148; 175; 228; 184; 128; 232; 174; 162; 229; 141; 149; 229; 143; 183; 96]%N) 55 25 179)) (mkPtok 40 "," 55 32 180)))); (mkFieldWithAttr (mkSpan (mkPtok 26 "i32" 56 4 181) (mkPtok 40 "," 56 19 184)) [] (MetaField (mkSpan (mkPtok 26 "i32" 56 4 181) (mkPtok 40 "," 56 19 184)) None (mkMetaDecl (mkSpan (mkPtok 26 "i32" 56 4 181) (mkPtok 40 "," 56 19 184)) (TyBasic (mkSpan (mkPtok 26 "i32" 56 4 181) (mkPtok 26 "i32" 56 4 181)) (mkBasicType (mkSpan (mkPtok 26 "i32" 56 4 181) (mkPtok 26 "i32" 56 4 181)) (mkPtok 26 "i32" 56 4 181))) (mkPtok 42 "Status" 56 8 182) (Some (mkPtok 43 (string_of_bytes [96; 231; 138; 182; 230; 128; 129; 96]%N) 56 15 183)) (mkPtok 40 "," 56 19 184)))); (mkFieldWithAttr (mkSpan (mkPtok 15 "string" 57 4 185) (mkPtok 40 "," 57 21 188)) [] (MetaField (mkSpan (mkPtok 15 "string" 57 4 185) (mkPtok 40 "," 57 21 188)) None (mkMetaDecl (mkSpan (mkPtok 15 "string" 57 4 185) (mkPtok 40 "," 57 21 188)) (TyDynamic (mkSpan (mkPtok 15 "string" 57 4 185) (mkPtok 15 "string" 57 4 185)) (mkDynamicString (mkSpan (mkPtok 15 "string" 57 4 185) (mkPtok 15 "string" 57 4 185)) (mkPtok 15 "string" 57 4 185))) (mkPtok 42 "Msg" 57 11 186) (Some (mkPtok 43 (string_of_bytes [96; 231; 187; 147; 230; 158; 156; 228; 191; 161; 230; 129; 175; 96]%N) 57 15 187)) (mkPtok 40 "," 57 21 188)))); (mkFieldWithAttr (mkSpan (mkPtok 36 "repeat" 58 4 189) (mkPtok 40 "," 58 17 191)) [] (ObjectField (mkSpan (mkPtok 36 "repeat" 58 4 189) (mkPtok 40 "," 58 17 191)) (Some (mkPtok 36 "repeat" 58 4 189)) (mkPtok 42 "Detail" 58 11 190) None None (mkPtok 40 "," 58 17 191)))] (mkPtok 3 "}" 59 0 192))); (DPacket (mkPacketDef (mkSpan (mkPtok 35 "packet" 61 0 193) (mkPtok 3 "}" 64 0 204)) None (mkPtok 35 "packet" 61 0 193) (mkPtok 42 "Detail" 61 7 194) (mkPtok 2 "{" 61 14 195) [(mkFieldWithAttr (mkSpan (mkPtok 15 "string" 62 4 196) (mkPtok 40 "," 62 26 199)) [] (MetaField (mkSpan (mkPtok 15 "string" 62 4 196) (mkPtok 40 "," 62 26 199)) None (mkMetaDecl (mkSpan (mkPtok 15 "string" 62 4 196) (mkPtok 40 "," 62 26 199)) (TyDynamic (mkSpan (mkPtok 15 "string" 62 4 196) (mkPtok 15 "string" 62 4 196)) (mkDynamicString (mkSpan (mkPtok 15 "string" 62 4 196) (mkPtok 15 "string" 62 4 196)) (mkPtok 15 "string" 62 4 196))) (mkPtok 42 "RuleName" 62 11 197) (Some (mkPtok 43 (string_of_bytes [96; 232; 167; 132; 229; 136; 153; 229; 144; 141; 231; 167; 176; 96]%N) 62 20 198)) (mkPtok 40 "," 62 26 199)))); (mkFieldWithAttr (mkSpan (mkPtok 21 "u16" 63 4 200) (mkPtok 40 "," 63 19 203)) [] (MetaField (mkSpan (mkPtok 21 "u16" 63 4 200) (mkPtok 40 "," 63 19 203)) None (mkMetaDecl (mkSpan (mkPtok 21 "u16" 63 4 200) (mkPtok 40 "," 63 19 203)) (TyBasic (mkSpan (mkPtok 21 "u16" 63 4 200) (mkPtok 21 "u16" 63 4 200)) (mkBasicType (mkSpan (mkPtok 21 "u16" 63 4 200) (mkPtok 21 "u16" 63 4 200)) (mkPtok 21 "u16" 63 4 200))) (mkPtok 42 "Code" 63 8 201) (Some (mkPtok 43 (string_of_bytes [96; 229; 142; 159; 229; 155; 160; 228; 187; 163; 231; 160; 129; 96]%N) 63 13 202)) (mkPtok 40 "," 63 19 203))))] (mkPtok 3 "}" 64 0 204)))])).
Eval vm_compute in ("<<<M310>>>" ++ check (runes_of_ascii "root root packet asx { @tag(007 ) // @lengthOf(
repeat
    u64  leftPad , } packet
i64_{ // packet A { u8 x, }
@calculatedFrom(
""a\""b"" )
    zchar[
    10]
    chars,
    }
    MetaData A { charz
uint8x
    // trailing space 
    , len uint8x , u8
    charz,	string_ msg_type ,}
")).
Eval vm_compute in ("<<<M320>>>" ++ check (runes_of_ascii "root packet asx asx { @tag(007 ) // @lengthOf(
repeat
    u64  leftPad , } packet
i64_{ // packet A { u8 x, }
@calculatedFrom(
""a\""b"" )
    zchar[
    10]
    chars,
    }
    MetaData A { charz
uint8x
    // trailing space 
    , len uint8x , u8
    charz,	string_ msg_type ,}
")).
Eval vm_compute in ("<<<M330>>>" ++ check (runes_of_ascii "root packet asx { @tag( @tag(007 ) // @lengthOf(
repeat
    u64  leftPad , } packet
i64_{ // packet A { u8 x, }
@calculatedFrom(
""a\""b"" )
    zchar[
    10]
    chars,
    }
    MetaData A { charz
uint8x
    // trailing space 
    , len uint8x , u8
    charz,	string_ msg_type ,}
")).
Eval vm_compute in ("<<<M340>>>" ++ check (runes_of_ascii "root packet asx { @tag(007 ) ) // @lengthOf(
repeat
    u64  leftPad , } packet
i64_{ // packet A { u8 x, }
@calculatedFrom(
""a\""b"" )
    zchar[
    10]
    chars,
    }
    MetaData A { charz
uint8x
    // trailing space 
    , len uint8x , u8
    charz,	string_ msg_type ,}
")).
Eval vm_compute in ("<<<M350>>>" ++ check (runes_of_ascii "root packet asx { @tag(007 ) // @lengthOf(
repeat
    u64 u64  leftPad , } packet
i64_{ // packet A { u8 x, }
@calculatedFrom(
""a\""b"" )
    zchar[
    10]
    chars,
    }
    MetaData A { charz
uint8x
    // trailing space 
    , len uint8x , u8
    charz,	string_ msg_type ,}
")).
Eval vm_compute in ("<<<M360>>>" ++ check (runes_of_ascii "root packet asx { @tag(007 ) // @lengthOf(
repeat
    u64  leftPad , , } packet
i64_{ // packet A { u8 x, }
@calculatedFrom(
""a\""b"" )
    zchar[
    10]
    chars,
    }
    MetaData A { charz
uint8x
    // trailing space 
    , len uint8x , u8
    charz,	string_ msg_type ,}
")).
Eval vm_compute in ("<<<M370>>>" ++ check (runes_of_ascii "root packet asx { @tag(007 ) // @lengthOf(
repeat
    u64  leftPad , } packet packet
i64_{ // packet A { u8 x, }
@calculatedFrom(
""a\""b"" )
    zchar[
    10]
    chars,
    }
    MetaData A { charz
uint8x
    // trailing space 
    , len uint8x , u8
    charz,	string_ msg_type ,}
")).
Eval vm_compute in ("<<<M380>>>" ++ check (runes_of_ascii "root packet asx { @tag(007 ) // @lengthOf(
repeat
    u64  leftPad , } packet
i64_{ { // packet A { u8 x, }
@calculatedFrom(
""a\""b"" )
    zchar[
    10]
    chars,
    }
    MetaData A { charz
uint8x
    // trailing space 
    , len uint8x , u8
    charz,	string_ msg_type ,}
")).
Eval vm_compute in ("<<<M390>>>" ++ check (runes_of_ascii "root packet asx { @tag(007 ) // @lengthOf(
repeat
    u64  leftPad , } packet
i64_{ // packet A { u8 x, }
@calculatedFrom(
""a\""b"" ""a\""b"" )
    zchar[
    10]
    chars,
    }
    MetaData A { charz
uint8x
    // trailing space 
    , len uint8x , u8
    charz,	string_ msg_type ,}
")).
Eval vm_compute in ("<<<M400>>>" ++ check (runes_of_ascii "root packet asx { @tag(007 ) // @lengthOf(
repeat
    u64  leftPad , } packet
i64_{ // packet A { u8 x, }
@calculatedFrom(
""a\""b"" )
    zchar[ zchar[
    10]
    chars,
    }
    MetaData A { charz
uint8x
    // trailing space 
    , len uint8x , u8
    charz,	string_ msg_type ,}
")).
Eval vm_compute in ("<<<M410>>>" ++ check (runes_of_ascii "root packet asx { @tag(007 ) // @lengthOf(
repeat
    u64  leftPad , } packet
i64_{ // packet A { u8 x, }
@calculatedFrom(
""a\""b"" )
    zchar[
    10] ]
    chars,
    }
    MetaData A { charz
uint8x
    // trailing space 
    , len uint8x , u8
    charz,	string_ msg_type ,}
")).
Eval vm_compute in ("<<<M420>>>" ++ check (runes_of_ascii "root packet asx { @tag(007 ) // @lengthOf(
repeat
    u64  leftPad , } packet
i64_{ // packet A { u8 x, }
@calculatedFrom(
""a\""b"" )
    zchar[
    10]
    chars, ,
    }
    MetaData A { charz
uint8x
    // trailing space 
    , len uint8x , u8
    charz,	string_ msg_type ,}
")).
Eval vm_compute in ("<<<M430>>>" ++ check (runes_of_ascii "root packet asx { @tag(007 ) // @lengthOf(
repeat
    u64  leftPad , } packet
i64_{ // packet A { u8 x, }
@calculatedFrom(
""a\""b"" )
    zchar[
    10]
    chars,
    }
    MetaData MetaData A { charz
uint8x
    // trailing space 
    , len uint8x , u8
    charz,	string_ msg_type ,}
")).
Eval vm_compute in ("<<<M440>>>" ++ check (runes_of_ascii "root packet asx { @tag(007 ) // @lengthOf(
repeat
    u64  leftPad , } packet
i64_{ // packet A { u8 x, }
@calculatedFrom(
""a\""b"" )
    zchar[
    10]
    chars,
    }
    MetaData A { { charz
uint8x
    // trailing space 
    , len uint8x , u8
    charz,	string_ msg_type ,}
")).
Eval vm_compute in ("<<<M450>>>" ++ check (runes_of_ascii "root packet asx { @tag(007 ) // @lengthOf(
repeat
    u64  leftPad , } packet
i64_{ // packet A { u8 x, }
@calculatedFrom(
""a\""b"" )
    zchar[
    10]
    chars,
    }
    MetaData A { charz
uint8x uint8x
    // trailing space 
    , len uint8x , u8
    charz,	string_ msg_type ,}
")).
Eval vm_compute in ("<<<M460>>>" ++ check (runes_of_ascii "root packet asx { @tag(007 ) // @lengthOf(
repeat
    u64  leftPad , } packet
i64_{ // packet A { u8 x, }
@calculatedFrom(
""a\""b"" )
    zchar[
    10]
    chars,
    }
    MetaData A { charz
uint8x
    // trailing space 
    , len len uint8x , u8
    charz,	string_ msg_type ,}
")).
Eval vm_compute in ("<<<M470>>>" ++ check (runes_of_ascii "root packet asx { @tag(007 ) // @lengthOf(
repeat
    u64  leftPad , } packet
i64_{ // packet A { u8 x, }
@calculatedFrom(
""a\""b"" )
    zchar[
    10]
    chars,
    }
    MetaData A { charz
uint8x
    // trailing space 
    , len uint8x , , u8
    charz,	string_ msg_type ,}
")).
Eval vm_compute in ("<<<M480>>>" ++ check (runes_of_ascii "root packet asx { @tag(007 ) // @lengthOf(
repeat
    u64  leftPad , } packet
i64_{ // packet A { u8 x, }
@calculatedFrom(
""a\""b"" )
    zchar[
    10]
    chars,
    }
    MetaData A { charz
uint8x
    // trailing space 
    , len uint8x , u8
    charz charz,	string_ msg_type ,}
")).
Eval vm_compute in ("<<<M490>>>" ++ check (runes_of_ascii "root packet asx { @tag(007 ) // @lengthOf(
repeat
    u64  leftPad , } packet
i64_{ // packet A { u8 x, }
@calculatedFrom(
""a\""b"" )
    zchar[
    10]
    chars,
    }
    MetaData A { charz
uint8x
    // trailing space 
    , len uint8x , u8
    charz,	string_ string_ msg_type ,}
")).
Eval vm_compute in ("<<<M500>>>" ++ check (runes_of_ascii "root packet asx { @tag(007 ) // @lengthOf(
repeat
    u64  leftPad , } packet
i64_{ // packet A { u8 x, }
@calculatedFrom(
""a\""b"" )
    zchar[
    10]
    chars,
    }
    MetaData A { charz
uint8x
    // trailing space 
    , len uint8x , u8
    charz,	string_ msg_type , ,}
")).
Eval vm_compute in ("<<<M510>>>" ++ check (runes_of_ascii "root packet asx { @tag(007 ) // @leng")).
Eval vm_compute in ("<<<M520>>>" ++ check (runes_of_ascii "root packet asx { @tag(007 ) // @lengthOf(
repeat
    u64  leftPad , } packet
i64_{ // packet A { u8 x, }
@calculatedFrom(
""a\""b"" )
    zchar[
    10]
    chars,
    }
    MetaData A { charz
uint8x
    // trailing space| 
    , len uint8x , u8
    charz,	string_ msg_type ,}
")).
Eval vm_compute in ("<<<M530>>>" ++ check (runes_of_ascii "MetaData asx
{ zchar[ 
] roots
,leftPad
Foo
    `" ++ [233]%N ++ runes_of_ascii "`
, Header Header , int16
falsey , // `tick` ""quote"" 'q'
u16 Packet , int64 packetx// " ++ [128512]%N ++ runes_of_ascii " emoji
,}")).
Eval vm_compute in ("<<<M540>>>" ++ check (runes_of_ascii "MetaData asx
{ zchar[ 7
] roots
,leftPad
Foo
    `" ++ [233]%N ++ runes_of_ascii "`
, Header Header , int16
falsey , // `tick` ""quote"" 'q'
u16 , Packet int64 packetx// " ++ [128512]%N ++ runes_of_ascii " emoji
,}")).
Eval vm_compute in ("<<<M550>>>" ++ check (runes_of_ascii "MetaData asx
{ zchar[ 7
] roots
,leftPad
Foo
    `" ++ [233]%N ++ runes_of_ascii "`
, Header Header , int16
falsey , // `tick` ""quote"" 'q'
u16 Packet , int64 packetx// " ++ [128512]%N ++ runes_of_ascii " emoji
, ,}")).
Eval vm_compute in ("<<<M560>>>" ++ check (runes_of_ascii "MetaData asx
{ zchar[ 7
] roots
,leftPad
Foo
    `" ++ [233]%N ++ runes_of_ascii "`
', Header Header , int16
falsey , // `tick` ""quote"" 'q'
u16 Packet , int64 packetx// " ++ [128512]%N ++ runes_of_ascii " emoji
,}")).
Eval vm_compute in ("<<<M570>>>" ++ check (runes_of_ascii "//")).
Eval vm_compute in ("<<<M580>>>" ++ check (runes_of_ascii "i32 } root { packet char @calculatedFrom(")).
Eval vm_compute in ("<<<M590>>>" ++ check (runes_of_ascii "yo8;f""l\h}=sIZ$W;/{HvU*)kLCuVC*E")).
