From FP Require Import Lexer Parser ShowPT Digest Formatter.
From Coq Require Import String List NArith.
Import ListNotations.
Open Scope string_scope.
Set Printing Width 100000000.
Set Printing Depth 100000000.
Definition show_fres (r : fres) : string :=
  match r with
  | FOk s => "OK:" ++ sh_escaped s ""
  | FErr s => "ERR:" ++ sh_escaped s ""
  | FPanic p => "PANIC:" ++ p
  end.
Definition check (rs : list rune) : string := digest (show_fres (format_res rs)).
Definition full (rs : list rune) : string := show_fres (format_res rs).
Eval vm_compute in ("<<<M518>>>" ++ check (runes_of_ascii "packet Header {
f32
    lengthOf `doc` ,string	Z9_ @lengthOf( uint8x )`doc` , u32
calculatedFrom `" ++ [233]%N ++ runes_of_ascii "`,	u32  i64_ , match rootA as falsey
// `tick` ""quote"" 'q'
// 50% %s
{ 4294967296
:Packet	,[ 7 , ""a\""b"", 007  , 4294967296
]:// 50% %s
pack 65535:
zchar  }
    ,repeat MetaDataX{ match crc as roots { 3
: matchKey ,
[""a\\"" , ""`tick`""
    ] :
matchKey 42  :  roots, //x
65535 : MetaDataX ,
""1""
:repeatCount
    ,
    4294967296
: falsey
, } ,	} , match	Foo as float{ 10 :
lengthOf 255
    :	x_y_z	,	7 :
o 00: i64_ ,
    },
repeat
A stringy // a // b
`{ , }` // c
, Header {
    u8x trueish	,char
roots @lengthOf( leftPad )
,
match T as// " ++ [128512]%N ++ runes_of_ascii " emoji
msg_type{0123456789 : As , }
    ,
    falsey  @lengthOf(
    trueish
)// trailing space 
, } , }
    MetaData crc // a // b
{
uint16 A
, string
BodyLength
,i16 x_y_z ,
}
packet u{ @rightPad // 50% %s
(
'\x00' )	zchar[ 3
    ] Logon @calculatedFrom( ""x y"") , @lengthOf(rootA )
/// triple
/// triple
repeat f32
falsey , @lengthOf(	chars
) @calculatedFrom( //	t
""// no comment"" ) repeat
    metadata
,
f32a  @lengthOf(a1 ), @rightPad
( '\x00'
) f64	i64_@calculatedFrom(""a	b""
), @calculatedFrom( ""\n"" ) uint32 BodyLength@calculatedFrom(
// trailing space 
// 50% %s
""" ++ [233]%N ++ runes_of_ascii "t" ++ [233]%N ++ runes_of_ascii """	) `" ++ [28040; 24687; 31867; 22411]%N ++ runes_of_ascii "`, @lengthOf( Logon
    // packet A { u8 x, }
    )
    // 50% %s
    u16 T
    @calculatedFrom(
    ""a\\"")
    `crlf
line`, string Packet/// triple
, char[] len
``	, } root packet T{@calculatedFrom(
//	t
//	t
""`tick`""  ) char[ 3
// a // b
// " ++ [128512]%N ++ runes_of_ascii " emoji
]
msg_type
,
lengthOf
`it's`
,@lengthOf( msg_type )
    char leftPad
`u8 x,`
, // 50% %s
repeat u64
body , } packet i8i8
    {  @lengthOf( string_)  repeat char[] x ,
@calculatedFrom( ""CRC32"" ) u16 A
    // @lengthOf(
    @lengthOf( string_ ) `// not a comment`, i32 zchar // " ++ [128512]%N ++ runes_of_ascii " emoji
`a\`,match  roots as i64_ {
[ 4294967296,
""abc""
    ,
""x y"" ,""a	b"" , ""a	b""
    ] :Z9_
[""// no comment""
,
""\n""
    //
    , 42
,1	, ""\" ++ [233]%N ++ runes_of_ascii """	, 1 ,7 , 3	] : Header , // c
[ """ ++ [128512]%N ++ runes_of_ascii """
, ""\" ++ [233]%N ++ runes_of_ascii """
, ""\" ++ [233]%N ++ runes_of_ascii """
    ,00
, """ ++ [233]%N ++ runes_of_ascii "t" ++ [233]%N ++ runes_of_ascii """,
    1 ,
00
, 3
] : A ,}, char[10] a1 , }")).
Eval vm_compute in ("<<<M596>>>" ++ check (runes_of_ascii "options
{ }  options
{
o = uint64 // " ++ [128512]%N ++ runes_of_ascii " emoji
u =u8 ; charz
=  00// c
}packet //	t
BodyLength{ match u// a // b
as uint8x
    { 65535 : // 50% %s
MetaDataX // " ++ [27880; 37322]%N ++ runes_of_ascii "
,[""CRC32""
,
0// a // b
,
65535 ,""CRC32"" , ""\n""	]: Foo ,[ 65535 , """ ++ [233]%N ++ runes_of_ascii "t" ++ [233]%N ++ runes_of_ascii """, ""// no comment""
    // c
    ,0123456789
    ,  """ ++ [28040; 24687]%N ++ runes_of_ascii """,	0 , ""a	b"" // " ++ [128512]%N ++ runes_of_ascii " emoji
,0123456789 ] : Logon ,
[ ""{,}"" ,// trailing space 
1
]:
a1, [ """ ++ [128512]%N ++ runes_of_ascii """ ]// a // b
:	int, 65535 :
    // packet A { u8 x, }
    i8i8 , }
    ,
repeat
Packet i8i8 `// not a comment` // " ++ [128512]%N ++ runes_of_ascii " emoji
, repeat A A	`doc` ,  char[65535 ] roots
@calculatedFrom(""packet"" ) , repeat int32 trueish ,// trailing space 
Z9_ body `
`
    // " ++ [27880; 37322]%N ++ runes_of_ascii "
    , @rightPad('0'
// " ++ [27880; 37322]%N ++ runes_of_ascii "
// trailing space 
) i8i8 , }packet
    Pad { @rightPad
// packet A { u8 x, }
// @lengthOf(
(
    '\x00'
    ) match
i8i8 as
    Foo {
//x
//	t
0123456789 : As , ""\" ++ [233]%N ++ runes_of_ascii """ : i64_ 3
// 50% %s
// a // b
: len 42: f32a ,// packet A { u8 x, }
[1 , """ ++ [233]%N ++ runes_of_ascii "t" ++ [233]%N ++ runes_of_ascii """, ""a\""b""
    ,
    42
    ,  007
, 4294967296 ,
    // @lengthOf(
    7
    ] :o ,
[007 , 10]
    // " ++ [27880; 37322]%N ++ runes_of_ascii "
    :u8x ,
} , match _x as u128 {
7
    : stringy , 1
: packetx
, ""1""
    :	charz , 42 : MetaDataX
, ""\" ++ [233]%N ++ runes_of_ascii """ : _x	,	[
3
    ,
""`tick`"" ] : BodyLength }
,
@tag( 007  )
@tag(
    1 )@tag( 10 )
    u16 packetx `u8 x,` ,@rightPad
    ( '0')
    u128	{
    Foo {  repeat Foo msg_type ,
repeat char[ 7]i64_ , u@calculatedFrom( ""\" ++ [233]%N ++ runes_of_ascii """) , }
    ,  zchar[	3
]
    // @lengthOf(
    Foo `" ++ [233]%N ++ runes_of_ascii "` ,u128
    // " ++ [128512]%N ++ runes_of_ascii " emoji
    , }
//	t
// `tick` ""quote"" 'q'
,
char[ 10 ] // packet A { u8 x, }
body//
, } packet _x{ @lengthOf(
    trueish)@leftPad('0'
    ) int32 As // a // b
, options1
    {repeat //
int  { uint16 u // " ++ [128512]%N ++ runes_of_ascii " emoji
,zchar
`a\`  ,char[]
    trueish ,
}	,
//x
// @lengthOf(
},
//
//	t
int ,
@tag( 65535 ) char[] roots , }")).
Eval vm_compute in ("<<<M776>>>" ++ check (runes_of_ascii "packet msg_type {
repeat stringy Header`` , @leftPad ( '\x00'
    )repeat leftPad ,
repeat
f32a
    ,	@calculatedFrom(
""it's""
) @tag(
    255 ) match roots as trueish
{ 7 :
    tag ,
},  repeat zchar[ // @lengthOf(
0 ] repeatCount
/// triple
// trailing space 
, string	f32a,
string body , @calculatedFrom("""" )uint64 f32a ,
    } packet asx {  leftPad
    ``
    //	t
    , @rightPad ( '0' )
//
// `tick` ""quote"" 'q'
int8 leftPad , @rightPad( '0' )asx @lengthOf( // @lengthOf(
falsey )
    , @tag(// a // b
00 ) // `tick` ""quote"" 'q'
u32 pack
    ,@tag(
    007
)repeat stringy repeatCount `" ++ [28040; 24687; 31867; 22411]%N ++ runes_of_ascii "`, @lengthOf( roots ) u16 pack @lengthOf( roots
    ) , @calculatedFrom( ""1"" )
    @tag( 1 )
match calculatedFrom as
pack {
""a\\""
    :
Logon//	t
,
[ // 50% %s
""" ++ [128512]%N ++ runes_of_ascii """
] : u8x
    , 1 :calculatedFrom , """ ++ [128512]%N ++ runes_of_ascii """ :	Z9_	, 0 :
_x } , f32 Header
, } packet asx { @tag(00 )@rightPad
    ( '0')
@calculatedFrom(""a\\""// @lengthOf(
) int64 leftPad
    `u8 x,`
    , repeat stringy `two words`
/// triple
// @lengthOf(
,@lengthOf( len )@tag( 7 )
i16
int , @lengthOf( repeatCount
    ) i8i8@lengthOf(
roots
) `" ++ [28040; 24687; 31867; 22411]%N ++ runes_of_ascii "` ,
    string int @calculatedFrom(
    ""\n"" ) `100% of %d`
    , repeat i8i8 rootA
`two words`, T {
roots @lengthOf( o )  ,
    // a // b
    },Pad
// trailing space 
// a // b
,@lengthOf(As )f32 options1 , } MetaData
a1
    {
zchar[ 255 ] tag `say ""hi""`, } options { BodyLength = // 50% %s
0123456789 }
")).
Eval vm_compute in ("<<<M3985>>>" ++ check (runes_of_ascii "MetaData float {
    u32 x,
    T body,
    string msg_type,
}

root packet options1 {
    @lengthOf(chars)
    @calculatedFrom(""\" ++ [233]%N ++ runes_of_ascii """)
    @leftPad('\x00')
    zchar[0] a1 @calculatedFrom(""a\\""),
    @lengthOf(i8i8)
    int64 crc,
    @rightPad('0')
    repeat char[4294967296] As,
    @rightPad('0')
    repeat pack {
        match u8x as stringy {
            ""a\""b"" : lengthOf,
            """ ++ [233]%N ++ runes_of_ascii "t" ++ [233]%N ++ runes_of_ascii """ : a1,
            """ ++ [128512]%N ++ runes_of_ascii """ : Pad,
            ""\" ++ [233]%N ++ runes_of_ascii """ : metadata,
            [255, 3] : crc,
        },
    },
    // " ++ [128512]%N ++ runes_of_ascii " emoji
    repeat falsey,
    @calculatedFrom(""// no comment"")
    repeat float64 Logon,
    repeat zchar[4294967296] Foo,
}

MetaData stringy {
    char[65535] stringy `two words`,
    i64_ calculatedFrom `say ""hi""`,
    stringy float,// 50% %s
    i8 o,
    i8 T,
}

MetaData roots {
    uint8x leftPad `{ , }`,// " ++ [27880; 37322]%N ++ runes_of_ascii "
    string options1,
    char[] tag,
}

packet uint8x {
    @lengthOf(crc)
    // " ++ [128512]%N ++ runes_of_ascii " emoji
    /// triple
    @tag(255)
    //x
    f32 metadata `// not a comment`,//	t
    @rightPad(' ')
    repeat f32a,
    stringy {
        f32a calculatedFrom `crlf
        line`,
        crc @lengthOf(i64_) `crlf
        line`,
        charz `doc`,
        repeat int16 packetx,
    },
    matchKey o,
    @calculatedFrom(""it's"")
    MetaDataX @lengthOf(tag) `100% of %d`,
}")).
Eval vm_compute in ("<<<M3590>>>" ++ check (runes_of_ascii "packet options1 {
    @calculatedFrom(""CRC32"")
    uint8 crc,
    @tag(1)
    metadata f32a `crlf
    line`,
    int,
    repeat As {
        i64 rootA @lengthOf(string_) `a\`,
        char[007] string_ @lengthOf(u8x),
        char[4294967296] As @lengthOf(metadata),
        uint64 lengthOf `say ""hi""`,
    },
    lengthOf @lengthOf(roots),
    @tag(1)
    matchKey {
        repeat rootA _x,
    },
    char[65535] string_ @lengthOf(repeatCount),
    f32a @calculatedFrom(""""),
    match u128 as Z9_ {
        """ ++ [28040; 24687]%N ++ runes_of_ascii """ : lengthOf,
        ""\" ++ [233]%N ++ runes_of_ascii """ : string_,
    },
    @tag(4294967296)
    u64 f32a,
}

root packet msg_type {
}

// 50% %s
packet int {
    char[] T @lengthOf(A),// c
    @tag(7)
    @lengthOf(uint8x)
    T trueish,
    body {
        Foo @lengthOf(trueish),
        T packetx `tab	here`,
        zchar[0123456789] a1 @calculatedFrom(""" ++ [28040; 24687]%N ++ runes_of_ascii """) `say ""hi""`,
        uint8x,
    },
    @tag(10)
    repeat f64 options1,
    @rightPad()
    trueish @lengthOf(A) ``,
    repeat MetaDataX `line1
    line2`,
    string repeatCount @calculatedFrom(""" ++ [128512]%N ++ runes_of_ascii """),
    @calculatedFrom(""" ++ [233]%N ++ runes_of_ascii "t" ++ [233]%N ++ runes_of_ascii """)
    uint8 a1 @lengthOf(leftPad),
    @calculatedFrom(""abc"")
    Z9_ @calculatedFrom(""abc""),
}")).
Eval vm_compute in ("<<<M1409>>>" ++ check (runes_of_ascii "options {
	StringPrefixLenType = u16;
	ArrayPrefixLenType = u16;
}

packet SampleBinary {
	uint16 MsgType `" ++ [28040; 24687; 31867; 22411]%N ++ runes_of_ascii "`,
	u16 BodyLenght @lengthOf(Body) `" ++ [28040; 24687; 20307; 38271; 24230]%N ++ runes_of_ascii "`,
	match MsgType as Body {
		1 : Logon,
		2 : Logout,
		3 : Heartbeat,
		4 : RiskControlRequest,
		5 : RiskControlResponse,
	},
	@calculatedFrom(""CRC32"")
	u32 Ckecksum `" ++ [26657; 39564; 21644]%N ++ runes_of_ascii "`,
}

packet Logon {
	@leftPad('0')
	char[10] UserName `" ++ [29992; 25143; 21517]%N ++ runes_of_ascii "`,
	string Password `" ++ [23494; 30721]%N ++ runes_of_ascii "`,
	uint64 ClientId `" ++ [23458; 25143; 31471]%N ++ runes_of_ascii "ID`,
	u16 HeartbeatInterval `" ++ [24515; 36339; 38388; 38548]%N ++ runes_of_ascii "`,
}

packet Logout {
	@rightPad('0')
	char[10] UserName `" ++ [29992; 25143; 21517]%N ++ runes_of_ascii "`,
	uint64 ClientId `" ++ [23458; 25143; 31471]%N ++ runes_of_ascii "ID`,
}

packet Heartbeat {
}

packet RiskControlRequest {
	string UniqueOrderId `" ++ [21807; 19968; 35746; 21333; 21495]%N ++ runes_of_ascii "`,
	char[16] ClOrdID `" ++ [23458; 25143; 35746; 21333; 21495]%N ++ runes_of_ascii "`,
	char[3] MarketID `" ++ [24066; 22330]%N ++ runes_of_ascii "id`,
	char[12] SecurityID `" ++ [35777; 21048; 20195; 30721]%N ++ runes_of_ascii "`,
	char Side `" ++ [20080; 21334; 26041; 21521]%N ++ runes_of_ascii "`,
	char OrderType `" ++ [35746; 21333; 31867; 22411]%N ++ runes_of_ascii "`,
	u64 Price `" ++ [20215; 26684]%N ++ runes_of_ascii "`,
	u32 Qty `" ++ [25968; 37327]%N ++ runes_of_ascii "`,
	repeat string ExtraInfo `" ++ [38468; 21152; 20449; 24687]%N ++ runes_of_ascii "`,
	repeat SubOrder {
		char[16] ClOrdID `" ++ [23376; 35746; 21333; 21495]%N ++ runes_of_ascii "`,
		u64 Price `" ++ [23376; 35746; 21333; 20215; 26684]%N ++ runes_of_ascii "`,
		u32 Qty `" ++ [23376; 35746; 21333; 25968; 37327]%N ++ runes_of_ascii "`,
	},
}

packet RiskControlResponse {
	string UniqueOrderId `" ++ [21807; 19968; 35746; 21333; 21495]%N ++ runes_of_ascii "`,
	i32 Status `" ++ [29366; 24577]%N ++ runes_of_ascii "`,
	string Msg `" ++ [32467; 26524; 20449; 24687]%N ++ runes_of_ascii "`,
	repeat Detail,
}

packet Detail {
	string RuleName `" ++ [35268; 21017; 21517; 31216]%N ++ runes_of_ascii "`,
	u16 Code `" ++ [21407; 22240; 20195; 30721]%N ++ runes_of_ascii "`,
}")).
Eval vm_compute in ("<<<M3673>>>" ++ check (runes_of_ascii "root packet x {
}

packet trueish {
    @rightPad(' ')
    repeat u16 As `tab	here`,
}

root packet Packet {
    falsey @calculatedFrom(""" ++ [28040; 24687]%N ++ runes_of_ascii """),
    @lengthOf(u128)
    repeat zchar[42] calculatedFrom `it's`,
    u64 options1 @lengthOf(repeatCount),
    @rightPad(' ')
    @calculatedFrom(""x y"")
    @rightPad('\x00')
    msg_type {
        string A @calculatedFrom(""`tick`""),
        i16 Pad @calculatedFrom(""" ++ [233]%N ++ runes_of_ascii "t" ++ [233]%N ++ runes_of_ascii """) `line1
        line2`,
        float64 roots @lengthOf(body),
    },
    @tag(007)
    f32 BodyLength @lengthOf(float),
    Pad Foo,
    char[] chars `it's`,
    @calculatedFrom(""" ++ [233]%N ++ runes_of_ascii "t" ++ [233]%N ++ runes_of_ascii """)
    Pad {
        repeat BodyLength uint8x,
        match Pad as Foo {
            ""packet"" : i64_,
            [4294967296, ""{,}""] : BodyLength,
            10 : repeatCount,
            [0123456789, 3, 42, ""\n"", ""x y""] : Logon,
            [10, ""`tick`"", 0123456789] : tag,
            42 : trueish,
        },
        repeat zchar[4294967296] Foo `it's`,
    },
}

packet float {
    @tag(1)
    u64 options1 @calculatedFrom(""a\""b""),
}")).
Eval vm_compute in ("<<<M4017>>>" ++ check (runes_of_ascii "  packet

    packetx { float64
	string_
	,o
{
    Pad

options1
	`" ++ [233]%N ++ runes_of_ascii "` ,
    roots
{
	float32 Z9_
`a\`
,uint32
	Logon 
,match
asx
	as

rootA { 
""`tick`""	:

    As
// trailing space 
	// c
  ,
    00
    :
int

    , 	 /// triple
} ,
	repeat char[]

// 50% %s
  	// a // b
	Logon,} ,f32  // `tick` ""quote"" 'q'
  u128
    `crlf
line`

,
}	,} packet  float{
    falsey ,
    crc

@calculatedFrom(
""abc""
)  , @calculatedFrom( ""1""
)

    repeat  //	t
    T
    ,@rightPad ('\x00' )repeat
	Header
`tab	here` ,

    repeat  //x
	char[]
    uint8x ,

pack@calculatedFrom(  """ ++ [233]%N ++ runes_of_ascii "t" ++ [233]%N ++ runes_of_ascii """  ) ,

@lengthOf( i8i8 
)
u16

    a1 
``
,
int64 roots  
      // 50% %s
      // 50% %s
@calculatedFrom(
	""x y""

)	, 
rootA
    ,BodyLength  
  // a // b
	@lengthOf(
zchar
	    /// triple
)

    , 	 // 50% %s
    }MetaData

calculatedFrom {  stringy
    crc //	t

,
    } MetaData
Foo {	Packet
	A 
, int8
	Packet

    ,
	As	calculatedFrom
,
	calculatedFrom
calculatedFrom
	``	,  } ")).
Eval vm_compute in ("<<<M1330>>>" ++ check (runes_of_ascii "MetaData uint8x	{ f32a pack , uint64
    _x`line1
line2` ,
} packet
    options1{ @rightPad
    ( )
//x
// `tick` ""quote"" 'q'
zchar[42 ]
    Z9_  ,int64 u
    `tab	here`,@tag( 0
)  zchar
    @lengthOf( body ) ,@calculatedFrom(
    ""packet""
    //	t
    )	repeat Logon msg_type  `crlf
line` ,@tag(
0123456789) zchar[0 ] u`line1
line2`, i64_
    { u64 u128 //
@calculatedFrom(  ""it's"" ) ,},@calculatedFrom( ""abc"")
@tag(
1
// " ++ [27880; 37322]%N ++ runes_of_ascii "
/// triple
) @rightPad ( '0') repeat Foo lengthOf, }MetaData BodyLength { string repeatCount ,zchar[ 00] packetx
`two words`,char[]// " ++ [27880; 37322]%N ++ runes_of_ascii "
MetaDataX`doc` ,  }  packet packetx {
@tag( 10)@lengthOf( charz ) @lengthOf(
zchar ) repeat matchKey // a // b
, @lengthOf( MetaDataX )
repeat leftPad
roots ,	@calculatedFrom(// c
""a\""b""
)match
matchKey
as/// triple
chars { 007
    : Foo, // a // b
""" ++ [128512]%N ++ runes_of_ascii """ : zchar , 007:	crc // " ++ [27880; 37322]%N ++ runes_of_ascii "
,} ,
Z9_  @lengthOf( charz) , @leftPad (	'\x00' )repeat zchar[ 65535 ]	charz , }")).
Eval vm_compute in ("<<<M291>>>" ++ check (runes_of_ascii "packet options1 { }packet o
    {	o Header `` , @calculatedFrom( ""\n"" ) int32 MetaDataX ,
// @lengthOf(
//	t
rootA
{match tag as	Header{	""x y"" :
string_ ,
00
: roots
4294967296: trueish // @lengthOf(
""a\""b"" : u
, ""a\""b"" :
packetx ""\n"" : float
//	t
/// triple
,
} ,
} ,	match//
x_y_z
as
float { ""a	b"" :float , // trailing space 
[ 7 // " ++ [128512]%N ++ runes_of_ascii " emoji
,
0123456789
, 4294967296
,  ""x y"" ,7, ""a\""b"" , 7 ] : Header , ""x y"":Pad ,""`tick`"":  len
} , @calculatedFrom( ""packet""
    )
repeat string As , Foo { int16 trueish	, repeat
int16
    metadata `{ , }` , match lengthOf
//
// `tick` ""quote"" 'q'
as Pad { ""\" ++ [233]%N ++ runes_of_ascii """ :metadata// a // b
, } , Foo
    @calculatedFrom( ""\n"" )// `tick` ""quote"" 'q'
`crlf
line` , // 50% %s
},u@lengthOf(repeatCount
) `doc`
    , T @lengthOf( calculatedFrom ) ,} MetaData trueish{
    }
// " ++ [128512]%N ++ runes_of_ascii " emoji
// packet A { u8 x, }
options{
    trueish	= uint8; }
MetaData
Pad {}
")).
Eval vm_compute in ("<<<M4279>>>" ++ check (runes_of_ascii "  packet float  {
	}	packet
	o {
zchar[
3

] x `doc`
    , repeat
	string_ 
{ 
char[]
	stringy `" ++ [233]%N ++ runes_of_ascii "` 
,	}  ,
repeat uint32 a1
    ``

, 	 //
    int64 // c

  Pad@calculatedFrom(	""1"")

    ,
    @lengthOf(
crc ) repeat	/// triple
  u16
	packetx ,
	msg_type

@lengthOf(
	crc	)
,@tag(3
)
    i16 
u128 ,
	zchar[
    65535

]
	Logon
	`crlf
line` , @lengthOf(
    repeatCount) @calculatedFrom(	""a\""b""
    )

crc tag  ,}  root
packet
i8i8	{ repeat
Packet
	{msg_type
@calculatedFrom(	""a\""b""
    ) ,
/// triple
	// 50% %s
	}
, } // c
packet
    i8i8{ //	t
  i32
    a1// packet A { u8 x, }
      @calculatedFrom(""\n"" )	`// not a comment` ,  } root 
packet	u128
{  @leftPad('\x00'
	)x_y_z

@lengthOf(  lengthOf

    ) , repeat u32  calculatedFrom  // packet A { u8 x, }
    , 
u8	_x
@calculatedFrom(
	""" ++ [128512]%N ++ runes_of_ascii """ )
	`u8 x,`
,	int8	Pad ,  crc
	, }
")).
Eval vm_compute in ("<<<M566>>>" ++ check (runes_of_ascii "root
    packet crc {}
root	packet //x
uint8x { match
// `tick` ""quote"" 'q'
// `tick` ""quote"" 'q'
u8x as
    matchKey { /// triple
0 : // " ++ [128512]%N ++ runes_of_ascii " emoji
options1 3
:
    /// triple
    charz ,
    [ ""\n"" , """"
    , ""abc"",
""a\""b"" , ""abc""
,	42
    ,""" ++ [128512]%N ++ runes_of_ascii """
] : lengthOf },
}packet o
{ @calculatedFrom(
""a\\"" //	t
)	match o as asx {
65535
    : zchar, }
,
    //
    Header @calculatedFrom(  """ ++ [128512]%N ++ runes_of_ascii """) ,
    msg_type
charz , repeat
crc { repeat x_y_z `doc` , char[0123456789 ] Foo  ,	repeat i16 x`` , // packet A { u8 x, }
zchar[ 7 ]
o @calculatedFrom( ""abc"" )
, } ,@calculatedFrom(
    // c
    ""// no comment"" )
    repeat
u32 Pad // " ++ [128512]%N ++ runes_of_ascii " emoji
,
repeat int64 u128 `100% of %d` ,
    repeat uint8x {uint64  leftPad
    `line1
line2` , i64_ // " ++ [27880; 37322]%N ++ runes_of_ascii "
`doc`
, }
    // @lengthOf(
    ,
} root
packet metadata {}
")).
Eval vm_compute in ("<<<M483>>>" ++ check (runes_of_ascii "root //
packet // " ++ [27880; 37322]%N ++ runes_of_ascii "
u {leftPad  { lengthOf T	`say ""hi""`
    , rootA
u128
`say ""hi""` //x
, } ,  } root packet// packet A { u8 x, }
f32a {
    //
    @tag( 7 ) match
    uint8x
    // c
    as i64_{ [
7 ,""it's"" , ""a\\""
, 65535] :int , 255 : _x ,
""x y""
    :	BodyLength ,},
    repeat u32
    i64_ ,
uint8x{
i8 leftPad`a\` , } , @leftPad( ) @lengthOf( matchKey ) @rightPad (
' ' ) zchar[ 42
    ] Header // trailing space 
@lengthOf(_x ) , i64 repeatCount ,
    }//x
packet roots
{a1 `tab	here` ,} options
{Z9_ =
// @lengthOf(
// " ++ [27880; 37322]%N ++ runes_of_ascii "
char[]
    //x
    roots = int32 matchKey =
    ""// no comment""
; uint8x=""packet""
; }
    // 50% %s
    MetaData _x {  o lengthOf ,  i8
    metadata ,
char[ 0123456789] o
,
    i32
    // @lengthOf(
    _x, zchar[10 ] MetaDataX,	}")).
Eval vm_compute in ("<<<M641>>>" ++ check (runes_of_ascii "options { rootA  =
    float64 // packet A { u8 x, }
;asx
    // trailing space 
    = ""x y"" ;/// triple
zchar
=
""it's"" u = '0'  ;}packet
i8i8{ @calculatedFrom(  ""// no comment""  ) o charz, f64 asx , @calculatedFrom( ""`tick`"" )
    u32 msg_type
    `doc`	,@calculatedFrom( ""it's""
)
    // 50% %s
    string_ { uint32 A
, // a // b
x_y_z f32a , char[
    007 ] packetx
    // trailing space 
    @lengthOf(
int ) , Pad float `doc`
,} ,} packet lengthOf {float { repeat
    x ,
    match
body as roots // " ++ [128512]%N ++ runes_of_ascii " emoji
{ [ 42] : u128 , //	t
[ 4294967296 , ""{,}"" , ""CRC32"" ,
    """ ++ [28040; 24687]%N ++ runes_of_ascii """
, ""// no comment"" , """ ++ [233]%N ++ runes_of_ascii "t" ++ [233]%N ++ runes_of_ascii """
    ,	4294967296
    ,1]
: Z9_ ,  }
    , u32 f32a	@lengthOf( x  )	, leftPad  @calculatedFrom( ""// no comment""	) `tab	here` ,
}	, }

")).
Eval vm_compute in ("<<<M244>>>" ++ check (runes_of_ascii "packet calculatedFrom { @leftPad	( /// triple
'\x00') match asx as
x  { 0 :T
,}, roots Pad
, @lengthOf( o) packetx { BodyLength { f64 charz ,
// c
//x
Packet  , repeat A {
Header , } ,repeat
Pad
f32a
    `a\`  , } ,
    repeat options1 , } ,
    @leftPad ( ' ' ) repeat packetx { //
int16 Logon  , } , float32
    rootA	@calculatedFrom( ""a\\""), char[] u	,
tag leftPad `doc`
,@calculatedFrom(	""" ++ [28040; 24687]%N ++ runes_of_ascii """ )
match roots as trueish
{[
    255 ,
""a\""b""
    , ""1""
, ""\n""
,
42 , 42  , 65535 ,
10]
: u8x,[ // trailing space 
""""
, ""CRC32"" ,
3 ,
    255, 0123456789 ,
""packet"", ""a	b""
, """"
]
:leftPad ,
0123456789  : crc
    , ""a\""b"" : Header , 1 :string_ 65535	: a1 } , repeat// `tick` ""quote"" 'q'
crc ,
    }
")).
Eval vm_compute in ("<<<M3462>>>" ++ check (runes_of_ascii "
options 
{

LittleEndian
	=
false ; StringPrefixLenType
=	u32

    ; ArrayPrefixLenType	= u32	;

FixedStringPadChar=
' ';  }
packet

Order{  InX16 {

i64
    Tail
, 
char[	4 ]	price ,  repeat

char[  4 
]	Qty  ,
	}
, InSym89 {

    int8 
x ,char[8 
] clOrdID  ,
    i32  tag7	, 
char[7]venue , int64 Ref ,
}

    ,
zchar[
7	] Flags , } packet
    Logon {  zchar[	3 ]  sym ,
    }	packet
    Leg  {InCount34
    {char[10 
]OrderId,
}, 
}
packet 
Party

{ } root

packet 
Ack 
{  repeat Leg 
,

    char[ 8 ]  Flags ,
u8 seqNo , 
u16	Qty
    @lengthOf(
Body 
)  ,
    match
	seqNo
	as

Body

{
	21 :Order , 
56	:  Logon,

138
	: 
Leg ,73

:
	Party , }
	,

}
")).
Eval vm_compute in ("<<<M3980>>>" ++ check (runes_of_ascii "packet chars {
    char options1,
}

// @lengthOf(
packet tag {
    match msg_type as leftPad {
        42 : options1,
        """" : rootA,
        7 : asx,
        [
            10, ""a\\"", ""a\""b"", 007, 00,
            ""a	b""
        ] : Logon,
        007 : calculatedFrom,
        [
            255, 10, 0, 1, """ ++ [233]%N ++ runes_of_ascii "t" ++ [233]%N ++ runes_of_ascii """,
            """ ++ [233]%N ++ runes_of_ascii "t" ++ [233]%N ++ runes_of_ascii """
        ] : repeatCount,
    },
    string matchKey,
    @calculatedFrom("""")
    repeat int64 repeatCount `line1
    line2`,
}

MetaData trueish {
    char[] Foo,
    float matchKey,// " ++ [128512]%N ++ runes_of_ascii " emoji
    float32 Header,
    BodyLength matchKey,
    // `tick` ""quote"" 'q'
    // trailing space 
    i64 T,
    Pad int `a\`,
}")).
Eval vm_compute in ("<<<M1144>>>" ++ check (runes_of_ascii "options {BodyLength
    =  u32 ; }MetaData u // " ++ [128512]%N ++ runes_of_ascii " emoji
{ string_
chars ,//x
} packet Foo{  @tag(255
    )
len a1// trailing space 
`// not a comment`, @tag( 42  )
    uint16
    lengthOf ,zchar falsey , @rightPad
( ' '	)
    repeat float64 _x	, @lengthOf( _x ) repeat i8i8  rootA `doc` , match rootA as Packet {65535 : len [ 65535
,
    // trailing space 
    ""abc"" ,""it's""
    // c
    ,""a\""b"" , // c
65535 ,
    65535] : i8i8 ""x y""
    // c
    :
i64_
,
4294967296 : calculatedFrom ,00 :  f32a , ""CRC32""  :
charz ,}
    , } packet
    string_ { }
packet calculatedFrom {@tag( 42) @rightPad ( '\x00'
)char[ 10 ] options1 , }
")).
Eval vm_compute in ("<<<M721>>>" ++ check (runes_of_ascii "packet calculatedFrom
    {@lengthOf(pack )
    zchar @lengthOf( Z9_) `a\` , // 50% %s
@calculatedFrom( ""it's"") leftPad ,trueish , // " ++ [128512]%N ++ runes_of_ascii " emoji
@calculatedFrom(
    ""{,}""
)
float32 string_ @calculatedFrom( ""1"" ) `tab	here` ,} packet
u8x{
match Header as
roots { [
""" ++ [28040; 24687]%N ++ runes_of_ascii """ ,""\" ++ [233]%N ++ runes_of_ascii """  , 65535 ,0, 10,//	t
65535 , ""\n""
    ]:
    metadata [
    /// triple
    ""// no comment""
// " ++ [27880; 37322]%N ++ runes_of_ascii "
//	t
,
""{,}""
, 0
    ,
    ""\n"", 3	]//	t
: i8i8 ,
    }
// a // b
//	t
, match trueish as stringy { ""CRC32""//
:repeatCount ,
// a // b
//	t
[""1"", ""a\\"" ,
""a\\""
,
007, 10	,""1""
,007
]: repeatCount ""\" ++ [233]%N ++ runes_of_ascii """
    :
    msg_type , }
,}
")).
Eval vm_compute in ("<<<M305>>>" ++ check (runes_of_ascii "
root packet repeatCount { repeat
    crc trueish , u8 matchKey `a\` ,
repeat char[ 4294967296 ] len,  string x, } packet
    // c
    f32a  { uint64 metadata
,  repeat matchKey {
// c
//	t
char[]
msg_type @calculatedFrom( ""\n"" ) , string
chars @calculatedFrom( ""1"" ) `two words`// c
, } ,
stringy ,
repeat _x,string a1`{ , }` ,
char[] repeatCount @lengthOf( calculatedFrom )	, metadata
    @calculatedFrom(""abc"")
`" ++ [28040; 24687; 31867; 22411]%N ++ runes_of_ascii "`, }
options { matchKey = true }packet// trailing space 
stringy {	uint64
msg_type `" ++ [28040; 24687; 31867; 22411]%N ++ runes_of_ascii "`
,zchar[  4294967296 ]msg_type
@calculatedFrom( ""abc"")
, } /// triple")).
Eval vm_compute in ("<<<M1123>>>" ++ check (runes_of_ascii "MetaData o{ char[] a1 `// not a comment` , metadata rootA `// not a comment` ,	int8
    matchKey
// @lengthOf(
// c
`{ , }`
    , i64
    Packet , i16  pack
, len trueish ,}// @lengthOf(
packet  Packet{// 50% %s
@calculatedFrom(  ""// no comment"" ) char[0
]  zchar @calculatedFrom(""x y"" )	`100% of %d` ,	@lengthOf( o )@rightPad(
    '0') @calculatedFrom( ""\" ++ [233]%N ++ runes_of_ascii """  )match lengthOf as
Packet { // trailing space 
[ 00
    ,
    4294967296 //	t
, ""a\\"" , ""{,}"" ] :	_x , } ,
@leftPad (
    '0' ) @lengthOf(
matchKey ) x	repeatCount  , string_  `line1
line2` ,} // " ++ [27880; 37322]%N)).
Eval vm_compute in ("<<<M377>>>" ++ check (runes_of_ascii "options{}//
packet  body {
Logon packetx `
` , u32  body @calculatedFrom(""`tick`""
//x
//x
), match
chars as
    x_y_z
{[ ""`tick`"" , 255 ,
007
    ,""" ++ [128512]%N ++ runes_of_ascii """ , """ ++ [28040; 24687]%N ++ runes_of_ascii """, 1 ,
42 ] //	t
:	trueish ""it's""	: // packet A { u8 x, }
u , } , @rightPad ( '\x00' ) @rightPad ( )
@lengthOf(
    float ) repeat // c
x_y_z len
,	repeat
asx `{ , }`
    ,
    zchar[4294967296 ]leftPad
@calculatedFrom(""x y"" )`100% of %d`
    ,
@calculatedFrom( ""a\""b"" ) zchar[ 00 ]matchKey
@calculatedFrom( ""`tick`""
    ) , zchar[ 10]
    x @lengthOf( A ) ,} packet body{ }")).
Eval vm_compute in ("<<<M192>>>" ++ check (runes_of_ascii "/// triple
root packet
    lengthOf
    { @lengthOf(
Header) @tag(
255 )lengthOf//x
MetaDataX ,
    @tag(// trailing space 
0
    ) match int // 50% %s
as // 50% %s
repeatCount {""a\""b"" : rootA ,007 :MetaDataX
    ,  42
    /// triple
    : uint8x , [ ""it's""// " ++ [128512]%N ++ runes_of_ascii " emoji
, //
3	] // a // b
:
a1 3 :_x, },// 50% %s
@calculatedFrom( ""\n"" ) zchar[//	t
42] zchar @calculatedFrom(
// " ++ [128512]%N ++ runes_of_ascii " emoji
// trailing space 
""" ++ [128512]%N ++ runes_of_ascii """ )// " ++ [128512]%N ++ runes_of_ascii " emoji
, @calculatedFrom(// trailing space 
""x y"") repeat float32
charz `" ++ [233]%N ++ runes_of_ascii "` ,
// c
// c
}
//	t
")).
Eval vm_compute in ("<<<M1128>>>" ++ check (runes_of_ascii "packet
Pad
{ repeat  uint32
matchKey , match
zchar	as
body
{""CRC32""
:x
""abc""
    :u8x
// 50% %s
// trailing space 
, }
, @calculatedFrom( ""1"" ) @tag(
    4294967296
)
// packet A { u8 x, }
// " ++ [128512]%N ++ runes_of_ascii " emoji
repeat int32 pack ,
    // 50% %s
    }root packet asx
{ // `tick` ""quote"" 'q'
leftPad { char[
10 ] options1 , char[4294967296] Packet `" ++ [233]%N ++ runes_of_ascii "`
    , match chars
//	t
// packet A { u8 x, }
as
    // `tick` ""quote"" 'q'
    _x	{ ""{,}"":	metadata , }
    ,
//	t
//
repeat	string Z9_
, } , }
")).
Eval vm_compute in ("<<<M164>>>" ++ check (runes_of_ascii "packet roots
{ match charz as u128  {
65535
:
calculatedFrom , } ,@lengthOf( T ) @lengthOf(
    len
    )
/// triple
//	t
@rightPad ( '0' )u64	repeatCount @calculatedFrom( ""abc""
    ) `line1
line2`
, } packet string_ { @tag(00 // trailing space 
) @tag( //x
4294967296 ) i8
msg_type ,f32 x	, @calculatedFrom( """ ++ [28040; 24687]%N ++ runes_of_ascii """ ) float32
// c
// trailing space 
leftPad
@lengthOf(  T ) ,repeatCount string_ ,
// packet A { u8 x, }
// " ++ [128512]%N ++ runes_of_ascii " emoji
}
MetaData o { // a // b
} 	 ")).
Eval vm_compute in ("<<<M630>>>" ++ check (runes_of_ascii "options { // " ++ [128512]%N ++ runes_of_ascii " emoji
repeatCount = char[
3 ];u8x =	255 rootA = '0'
;
leftPad =
    // " ++ [27880; 37322]%N ++ runes_of_ascii "
    7	; } packet T {
float@lengthOf(  msg_type )`line1
line2` ,
    int16 o ,repeat
zchar[ 00 ] MetaDataX `u8 x,` ,
    @tag( 00	)
repeat
repeatCount	i64_ , falsey { repeat zchar charz`` ,} , f64 Logon
    @lengthOf(options1
    ) `// not a comment` ,  repeat f32 metadata
, roots a1
    , // " ++ [128512]%N ++ runes_of_ascii " emoji
}MetaData
    u8x{
string Packet /// triple
,
}")).
Eval vm_compute in ("<<<M4007>>>" ++ check (runes_of_ascii "MetaData float {
    i64_ roots,
    char[007] int,/// triple
    msg_type rootA,
    char[255] x_y_z `crlf
    line`,
    uint8x body,
}

options {
    // " ++ [128512]%N ++ runes_of_ascii " emoji
    msg_type = false
}

packet string_ {
    o Pad,
    zchar[0123456789] zchar @calculatedFrom(""CRC32""),
    uint8 matchKey,
}

options {
    //
    T = f32;
    options1 = """";
    matchKey = """ ++ [233]%N ++ runes_of_ascii "t" ++ [233]%N ++ runes_of_ascii """;
    x = ""x y""
    packetx = ""x y""
    //
    // a // b
}")).
Eval vm_compute in ("<<<M208>>>" ++ check (runes_of_ascii "  packet
asx { float @calculatedFrom( ""a\""b"" ) // packet A { u8 x, }
,
Pad msg_type ,
@calculatedFrom(
    ""CRC32"" // " ++ [128512]%N ++ runes_of_ascii " emoji
) match chars	as //
Foo
    { ""1"" :	x_y_z , ""1""
:	o , 4294967296  : tag 7
:
trueish  ,
""" ++ [28040; 24687]%N ++ runes_of_ascii """ // " ++ [27880; 37322]%N ++ runes_of_ascii "
:
Header },}MetaData trueish { u msg_type
,	zchar[
// 50% %s
// 50% %s
00 ] crc , f32
    A `` ,
    //	t
    uint32 options1 , char[]
    zchar `
`	, // packet A { u8 x, }
}")).
Eval vm_compute in ("<<<M3790>>>" ++ check (runes_of_ascii "packet

    MetaDataX { @tag( 10

    ) 	 // " ++ [128512]%N ++ runes_of_ascii " emoji
	@leftPad(	)
	string 
lengthOf// `tick` ""quote"" 'q'
      @calculatedFrom(
    ""packet"" 
)

,

string
    metadata
`line1
line2`

    ,
    @lengthOf(
	options1
)_x{

zchar[ //
10
]

    u128 

    // @lengthOf(
// @lengthOf(
  `crlf
line`
	,

    }, a1 body,	char[ 007 
]
    MetaDataX
@calculatedFrom(  ""it's""

) 
//	t
,}
")).
Eval vm_compute in ("<<<M1013>>>" ++ check (runes_of_ascii "// " ++ [27880; 37322]%N ++ runes_of_ascii "
root
packet trueish
{leftPad //x
x, stringy//
@lengthOf( leftPad )`a\`
    ,	@calculatedFrom( ""a	b"" ) As float , zchar[
7 ] Logon@lengthOf(
    u)
    `" ++ [28040; 24687; 31867; 22411]%N ++ runes_of_ascii "`
, @calculatedFrom( ""\n"")
    repeat Packet ,//x
match A as
i8i8 { 10: int
,[
//x
//
00 ,	4294967296 ,
//x
//	t
""1"" // trailing space 
, 007 ]
: asx
10
:u128  ,
},} options
    {
    u128
=//	t
'\x00'
}")).
Eval vm_compute in ("<<<M3681>>>" ++ check (runes_of_ascii "// top
packet A {
    // c2
    match packetx as BodyLength {
        // c7
        007 : A,
        // c10
        """ ++ [28040; 24687]%N ++ runes_of_ascii """ : x_y_z,
        // c14
        """ ++ [128512]%N ++ runes_of_ascii """ : crc,
        // c17
        [""{,}"", ""\n"", """ ++ [233]%N ++ runes_of_ascii "t" ++ [233]%N ++ runes_of_ascii """, ""x y"", ""a\""b""] : stringy,
        // c31
    },
    // c33
}

// c34
root packet i64_ {
    // c38
    repeat pack `100% of %d`,
    // c42
}
// c43")).
Eval vm_compute in ("<<<M3859>>>" ++ check (runes_of_ascii "MetaData u8x {
    u32 metadata,
}// packet A { u8 x, }

MetaData calculatedFrom {
    calculatedFrom repeatCount `// not a comment`,
    roots options1,
    zchar[1] i8i8,// `tick` ""quote"" 'q'
    zchar[0123456789] i8i8,
    i64 charz,
    u8 f32a,
}

packet string_ {
    /// triple
    @calculatedFrom(""\" ++ [233]%N ++ runes_of_ascii """)
    repeat stringy `it's`,
}")).
Eval vm_compute in ("<<<M75>>>" ++ check (runes_of_ascii "options {Packet
= true ; f32a = u8
    ; }packet
    // `tick` ""quote"" 'q'
    matchKey	{ @lengthOf( /// triple
A
)packetx ``
    ,
    string //
BodyLength ,@tag( 42 ) float32
Z9_
@calculatedFrom(	""\n"" )
`" ++ [28040; 24687; 31867; 22411]%N ++ runes_of_ascii "` , repeat zchar[	0123456789
    // c
    ]  chars ,int16 charz@lengthOf( body
)
`" ++ [233]%N ++ runes_of_ascii "` , repeat u8x msg_type
, }
")).
Eval vm_compute in ("<<<M1156>>>" ++ check (runes_of_ascii "root	packet pack
{ @calculatedFrom( ""CRC32""
// 50% %s
// c
)	msg_type lengthOf,  string	float `u8 x,` ,
// 50% %s
// packet A { u8 x, }
trueish@calculatedFrom(
""// no comment"" ),// trailing space 
f32a `doc` // `tick` ""quote"" 'q'
, i64 Header @calculatedFrom(
    ""abc""
// c
//	t
)
//	t
//	t
`line1
line2` ,
}
")).
Eval vm_compute in ("<<<M831>>>" ++ check (runes_of_ascii "// `tick` ""quote"" 'q'
root  packet zchar
{
// @lengthOf(
//x
match packetx as//x
u128{ 65535: f32a	""abc""
: stringy ,	""// no comment"" :
uint8x // a // b
[
    ""packet""
] : msg_type
, ""`tick`"":
BodyLength
00 :stringy
, } ,}
root
    packet lengthOf
{ @calculatedFrom(""packet"" )char[] trueish , }

")).
Eval vm_compute in ("<<<M3556>>>" ++ check (runes_of_ascii "packet As {
    lengthOf {
        crc {
            i16 stringy @calculatedFrom(""packet""),
            Z9_ {
                MetaDataX @calculatedFrom(""a\\""),
            },
            repeat char[3] Packet,/// triple
        },
    },
    @tag(1)
    repeat Z9_,
    char[] falsey,
}")).
Eval vm_compute in ("<<<M640>>>" ++ check (runes_of_ascii "root // packet A { u8 x, }
packet u128 { string repeatCount @calculatedFrom(  """ ++ [128512]%N ++ runes_of_ascii """ )
    //x
    ,zchar[  3 ] rootA@calculatedFrom(
""a\""b"") , @rightPad( ) @calculatedFrom( """ ++ [128512]%N ++ runes_of_ascii """ )@tag( 0123456789 ) Foo	{ char[] // 50% %s
u8x @lengthOf( charz // " ++ [128512]%N ++ runes_of_ascii " emoji
) //	t
, A
, }
, }")).
Eval vm_compute in ("<<<M1544>>>" ++ check (runes_of_ascii "// 50% %s
packet	a1
    { zchar[
// a // b
// 50% %s
007 uint16
T `it's`
    ,@rightPad
    // a // b
    (
'\x00')
    o repeatCount , }  packet Logon {  }packet	Logon //x
{ repeat // " ++ [128512]%N ++ runes_of_ascii " emoji
uint16 u128
    //
    `a\`,
falsey
@calculatedFrom(""packet"" ) ,
    } 	 ")).
Eval vm_compute in ("<<<M1539>>>" ++ check (runes_of_ascii "// 50% %s
packet	a1
    { zchar[
// a // b
// 50% %s
int64]
T `it's`
    ,@rightPad
    // a // b
    (
'\x00')
    o repeatCount , }  packet Logon {  }packet	Logon //x
{ repeat // " ++ [128512]%N ++ runes_of_ascii " emoji
uint16 u128
    //
    `a\`,
falsey
@calculatedFrom(""packet"" ) ,
    } 	 ")).
Eval vm_compute in ("<<<M1699>>>" ++ check (runes_of_ascii "// 50% %s
packet	a1
    { zchar[
// a // b
// 50% %s
007]
T `it's`
    ,@rightPad
    // a // b
    (
'\x00')
    o repeatCount , }  packet Logon {  }packet	Logon //x
{ repeat // " ++ [128512]%N ++ runes_of_ascii " emoji
uint16 u128
    //
    `a\`,
falsey" ++ [233]%N ++ runes_of_ascii "
@calculatedFrom(""packet"" ) ,
    } 	 ")).
Eval vm_compute in ("<<<M1648>>>" ++ check (runes_of_ascii "// 50% %s
packet	a1
    { zchar[
// a // b
// 50% %s
007]
T `it's`
    ,@rightPad
    // a // b
    (
'\x00')
    o repeatCount , }  packet Logon {  }packet	Logon //x
{ repeat // " ++ [128512]%N ++ runes_of_ascii " emoji
uint16 `a\`
    //
    u128,
falsey
@calculatedFrom(""packet"" ) ,
    } 	 ")).
Eval vm_compute in ("<<<M1521>>>" ++ check (runes_of_ascii "// 50% %s
packet	
    { zchar[
// a // b
// 50% %s
007]
T `it's`
    ,@rightPad
    // a // b
    (
'\x00')
    o repeatCount , }  packet Logon {  }packet	Logon //x
{ repeat // " ++ [128512]%N ++ runes_of_ascii " emoji
uint16 u128
    //
    `a\`,
falsey
@calculatedFrom(""packet"" ) ,
    } 	 ")).
Eval vm_compute in ("<<<M1571>>>" ++ check (runes_of_ascii "// 50% %s
packet	a1
    { zchar[
// a // b
// 50% %s
007]
T `it's`
    ,@rightPad
    // a // b
    (
)
    o repeatCount , }  packet Logon {  }packet	Logon //x
{ repeat // " ++ [128512]%N ++ runes_of_ascii " emoji
uint16 u128
    //
    `a\`,
falsey
@calculatedFrom(""packet"" ) ,
    } 	 ")).
Eval vm_compute in ("<<<M1680>>>" ++ check (runes_of_ascii "// 50% %s
packet	a1
    { zchar[
// a // b
// 50% %s
007]
T `it's`
    ,@rightPad
    // a // b
    (
'\x00')
    o repeatCount , }  packet Logon {  }packet	Logon //x
{ repeat // " ++ [128512]%N ++ runes_of_ascii " emoji
uint16 u128
    //
    `a\`,
falsey
@calculatedFrom(""packet""")).
Eval vm_compute in ("<<<M33>>>" ++ check (runes_of_ascii "root packet MetaDataX { } packet  uint8x
{crc @calculatedFrom( ""a	b"") `it's` , repeat
    string
zchar `" ++ [233]%N ++ runes_of_ascii "`
    // a // b
    ,
    match
lengthOf as u { """"
// c
// `tick` ""quote"" 'q'
: zchar ,
}, @tag(  3 ) repeat  string f32a `it's` ,}
")).
Eval vm_compute in ("<<<M754>>>" ++ check (runes_of_ascii "options { msg_type
=""a\\"" ;zchar = i64; }options
{matchKey // a // b
= ""a\\"" ;
options1=0123456789 len = 3 ; i64_
    = '\x00'; } packet Packet {
    char[
    // packet A { u8 x, }
    4294967296
] roots, }
// `tick` ""quote"" 'q'
")).
Eval vm_compute in ("<<<M3996>>>" ++ check (runes_of_ascii "packet x {
    string As,
    char[65535] leftPad `crlf
        line`,
    i16 rootA @lengthOf(packetx) `
        `,
    repeat zchar T `" ++ [28040; 24687; 31867; 22411]%N ++ runes_of_ascii "`,
}

packet options1 {
    // @lengthOf(
    o ``,
    // packet A { u8 x, }
}")).
Eval vm_compute in ("<<<M3959>>>" ++ check (runes_of_ascii "MetaData o {
    char[] Header `
        `,
    stringy trueish,
    Logon a1 `line1
        line2`,
}

root packet uint8x {
    @lengthOf(zchar)
    @tag(4294967296)
    @leftPad('\x00')
    repeat BodyLength,
}")).
Eval vm_compute in ("<<<M4231>>>" ++ check (runes_of_ascii "root packet crc {
    @tag(0123456789)
    repeat int64 o,
    @calculatedFrom(""1"")
    match asx as pack {
        [
            0, 255, 4294967296, ""x y"", ""x y"",
            42
        ] : u8x,
    },
}")).
Eval vm_compute in ("<<<M4014>>>" ++ check (runes_of_ascii "

  packet
A {u8 a
,
}
    packet B	{
    u16

    b
    , } root  packet	P
{
    u8 K1  , 
u8

K2

,
match K1

as
	M1
{ 1: A ,
    } , 
match K2 as

    M2	{
	1:  B

    , }
    ,  }")).
Eval vm_compute in ("<<<M4146>>>" ++ check (runes_of_ascii "packet A {
    match k as n {
        ""x\
        y"" : B,
        [""x\
        y"", 1] : C,
        [
            1, 2, 3, 4, 5,
            ""x\
            y""
        ] : D,
    },
}")).
Eval vm_compute in ("<<<M844>>>" ++ check (runes_of_ascii "  options { a1 =""it's""As=true	Z9_ = 4294967296 // trailing space 
roots = char[]
    // packet A { u8 x, }
    T
= true} MetaData
f32a {	uint8 MetaDataX //	t
, a1 pack ,}
")).
Eval vm_compute in ("<<<M3945>>>" ++ check (runes_of_ascii "
MetaData	MetaDataX	// packet A { u8 x, }
    {
uint8 stringy  // `tick` ""quote"" 'q'
`a\`
	, 
float32 	 // @lengthOf(

f32a ,
	u32 T

,
float32
    uint8x
,
	}	// " ++ [27880; 37322]%N ++ runes_of_ascii "
")).
Eval vm_compute in ("<<<M4250>>>" ++ check (runes_of_ascii "packet leftPad {
    //	t
    pack rootA `// not a comment`,
}

MetaData Foo {
    /// triple
    trueish x `say ""hi""`,
}

packet a1 {
    repeat pack body,//
}")).
Eval vm_compute in ("<<<M1273>>>" ++ check (runes_of_ascii "packet leftPad{ //	t
pack
rootA
    `// not a comment`, }MetaData //	t
Foo { /// triple
trueish x `say ""hi""`
, } packet	a1	{repeat
pack  body, //
}
")).
Eval vm_compute in ("<<<M8>>>" ++ check (runes_of_ascii "options{ Packet
=  00 ;
u128= true
Pad // a // b
=  '0' }	MetaData a1
{ Z9_ Foo// 50% %s
,
string
    tag ,
msg_type
chars // a // b
, i8 uint8x, }")).
Eval vm_compute in ("<<<M2108>>>" ++ check (runes_of_ascii "MetaData BodyLength
{ int8 Foo
, string
    MetaDataX , float zchar ,string options1
,asx string_, }
packet u8x {Foo@lengthOf(charz )
`" ++ [28040; 24687; 31867; 22411]%N ++ runes_of_ascii "`,  }
")).
Eval vm_compute in ("<<<M2197>>>" ++ check (runes_of_ascii "MetaData BodyLength
{ int8 #Foo
, string
    MetaDataX , float zchar ,pack options1
,asx string_, }
packet u8x {Foo@lengthOf(charz )
`" ++ [28040; 24687; 31867; 22411]%N ++ runes_of_ascii "`,  }
")).
Eval vm_compute in ("<<<M2132>>>" ++ check (runes_of_ascii "MetaData BodyLength
{ int8 Foo
, string
    MetaDataX , float zchar ,pack options1
,asx string_} ,
packet u8x {Foo@lengthOf(charz )
`" ++ [28040; 24687; 31867; 22411]%N ++ runes_of_ascii "`,  }
")).
Eval vm_compute in ("<<<M2170>>>" ++ check (runes_of_ascii "MetaData BodyLength
{ int8 Foo
, string
    MetaDataX , float zchar ,pack options1
,asx string_, }
packet u8x {Foo@lengthOf(charz 
`" ++ [28040; 24687; 31867; 22411]%N ++ runes_of_ascii "`,  }
")).
Eval vm_compute in ("<<<M2012>>>" ++ check (runes_of_ascii "
packet leftPad {
@leftPad( '0')
u32
i64_ `100% of %d` ,repeat// 50% %s
i8 chars
    ,
} MetaData
    f32a f32a
{ // packet A { u8 x, }
}")).
Eval vm_compute in ("<<<M2330>>>" ++ check (runes_of_ascii "options
    {
x_y_z// " ++ [27880; 37322]%N ++ runes_of_ascii "
= 10 ; }
packet body {
    @calculatedFrom(
// trailing space 
// " ++ [27880; 37322]%N ++ runes_of_ascii "
""1""
)	match T as Foo
    {
255 :T , }
,@tag(")).
Eval vm_compute in ("<<<M2002>>>" ++ check (runes_of_ascii "
packet leftPad {
@leftPad( '0')
u32
i64_ `100% of %d` ,repeat// 50% %s
i8 chars
    ,
} } MetaData
    f32a
{ // packet A { u8 x, }
}")).
Eval vm_compute in ("<<<M3828>>>" ++ check (runes_of_ascii "
packet

msg_type{ uint16 T  // a // b
  @lengthOf(  i8i8
) , repeat

    i32
	int
,@lengthOf( 
x_y_z
	)

    int64
    As 
,  }
")).
Eval vm_compute in ("<<<M1943>>>" ++ check (runes_of_ascii "
packet leftPad {
(@leftPad '0')
u32
i64_ `100% of %d` ,repeat// 50% %s
i8 chars
    ,
} MetaData
    f32a
{ // packet A { u8 x, }
}")).
Eval vm_compute in ("<<<M2255>>>" ++ check (runes_of_ascii "options
    {
x_y_z// " ++ [27880; 37322]%N ++ runes_of_ascii "
= 10 ; }
packet body @calculatedFrom(
    {
// trailing space 
// " ++ [27880; 37322]%N ++ runes_of_ascii "
""1""
)	match T as Foo
    {
255 :T , }
,}")).
Eval vm_compute in ("<<<M2053>>>" ++ check (runes_of_ascii "MetaData {
{ int8 Foo
, string
    MetaDataX , float zchar ,pack options1
,asx string_, }
packet u8x {Foo@lengthOf(charz )
`" ++ [28040; 24687; 31867; 22411]%N ++ runes_of_ascii "`,  }
")).
Eval vm_compute in ("<<<M2228>>>" ++ check (runes_of_ascii "options
    {
x_y_z// " ++ [27880; 37322]%N ++ runes_of_ascii "
=  ; }
packet body {
    @calculatedFrom(
// trailing space 
// " ++ [27880; 37322]%N ++ runes_of_ascii "
""1""
)	match T as Foo
    {
255 :T , }
,}")).
Eval vm_compute in ("<<<M2403>>>" ++ check (runes_of_ascii "MetaData
    calculatedFrom
{ zchar[  10 $ ]
    As`tab	here`,
    }// trailing space 
options  { roots ='\x00' ; } packet A
{ }
")).
Eval vm_compute in ("<<<M2406>>>" ++ check (runes_of_ascii "MetaData
    calculatedFrom
{ zchar[  ] 10
    As`tab	here`,
    }// trailing space 
options  { roots ='\x00' ; } packet A
{ }
")).
Eval vm_compute in ("<<<M2307>>>" ++ check (runes_of_ascii "options
    {
x_y_z// " ++ [27880; 37322]%N ++ runes_of_ascii "
= 10 ; }
packet body {
    @calculatedFrom(
// trailing space 
// " ++ [27880; 37322]%N ++ runes_of_ascii "
""1""
)	match T as Foo
    {
255")).
Eval vm_compute in ("<<<M1129>>>" ++ check (runes_of_ascii "root packet pack
// " ++ [128512]%N ++ runes_of_ascii " emoji
//x
{ Header { matchKey
@lengthOf( metadata ) `doc` ,
zchar[
    4294967296 ]  stringy ,}, }
")).
Eval vm_compute in ("<<<M813>>>" ++ check (runes_of_ascii "
packet T { repeat asx `// not a comment`, @tag( 0 )
    u128 { packetx	`line1
line2` , }
    , int16 As
`u8 x,` , }
")).
Eval vm_compute in ("<<<M3002>>>" ++ check (runes_of_ascii "packet A {
  match k as n {
    [""a"", ""bb"", ""c c"", ""d"", ""e"", ""f"", ""g"", ""h"", ""i"", ""j"", ""k"", ""l""] : B
    2 : C
  },
}")).
Eval vm_compute in ("<<<M1839>>>" ++ check (runes_of_ascii "packet o roots
    { `it's`
// trailing space 
//x
, char[ 42
    ]  A, // " ++ [27880; 37322]%N ++ runes_of_ascii "
f64
repeatCount
    `crlf
line`
,}")).
Eval vm_compute in ("<<<M3826>>>" ++ check (runes_of_ascii "root packet asx {
    packetx u128 `a\`,
    repeat i32 x,
}

options {
    pack = true
    As = """ ++ [128512]%N ++ runes_of_ascii """;
}
// a // b")).
Eval vm_compute in ("<<<M3009>>>" ++ check (runes_of_ascii "packet A {
  match k as n {
    [""a"", ""bb"", 007, ""d"", ""e"", 66, ""g"", ""h"", 9, ""j"", ""k"", 12] : B,
    2 : C
  },
}")).
Eval vm_compute in ("<<<M3218>>>" ++ check (runes_of_ascii "// top
root
    // c0
packet // c1a
  // c1b
u128
    // c2
{
    // c3
chars `doc` ,
    // c6
}
    // c7
")).
Eval vm_compute in ("<<<M3779>>>" ++ check (runes_of_ascii "packet  A

{
match
    k  as
	n{	[
	1 ,	""bb""
,  007 
, 
""d""
,5 ,
    ""f""
,
    7
]:B
2

    : C 
}
,}")).
Eval vm_compute in ("<<<M3008>>>" ++ check (runes_of_ascii "packet A {
  match k as n {
    [1, 22, ""c c"", 4, 5, ""f"", 7, 8, ""i"", 10, 11, ""l""] : B
    2 : C
  },
}")).
Eval vm_compute in ("<<<M3744>>>" ++ check (runes_of_ascii "MetaData

    Foo  {zchar[
	0 
]matchKey  ,}

    options
{ lengthOf =i32 u
= 00 ;	// c
    }")).
Eval vm_compute in ("<<<M2978>>>" ++ check (runes_of_ascii "packet A {
  match k as n {
    [1, ""bb"", 007, ""d"", 5, ""f"", 7, ""h"", 9, ""j""] : B
    2 : C
  },
}")).
Eval vm_compute in ("<<<M2967>>>" ++ check (runes_of_ascii "packet A {
  match k as n {
    [""a"", 22, ""c c"", 4, ""e"", 66, ""g"", 8, ""i""] : B
    2 : C
  },
}")).
Eval vm_compute in ("<<<M1420>>>" ++ check (runes_of_ascii "packet
i64
{ match repeatCount as	calculatedFrom
{ [65535 ]	: As	,
} ,}
// trailing space 
")).
Eval vm_compute in ("<<<M1507>>>" ++ check (runes_of_ascii "packet
T
{ match repeatCount as	%calculatedFrom
{ [65535 ]	: As	,
} ,}
// trailing space 
")).
Eval vm_compute in ("<<<M1469>>>" ++ check (runes_of_ascii "packet
T
{ match repeatCount as	calculatedFrom
{ [65535 ]	As :	,
} ,}
// trailing space 
")).
Eval vm_compute in ("<<<M1492>>>" ++ check (runes_of_ascii "packet
T
{ match repeatCount as	calculatedFrom
{ [65535 ]	: As	,
} ,
// trailing space 
")).
Eval vm_compute in ("<<<M1793>>>" ++ check (runes_of_ascii "options{  lengthOf =//x
i16;
    BodyLength = 0 ; pack
= false;
    A = MetaData 3 ] }")).
Eval vm_compute in ("<<<M1828>>>" ++ check (runes_of_ascii "options{  lengthOf =//x
i16;
    BodyLength = 0 ; caf" ++ [233]%N ++ runes_of_ascii "_1
= false;
    A = char[ 3 ] }")).
Eval vm_compute in ("<<<M1412>>>" ++ check (runes_of_ascii "root packet SimpleMessage {
	uint16 MsgType `" ++ [28040; 24687; 31867; 22411]%N ++ runes_of_ascii "`,
	string JsonBody `Json" ++ [23383; 31526; 20018; 28040; 24687; 20307]%N ++ runes_of_ascii "`,
}")).
Eval vm_compute in ("<<<M439>>>" ++ check (runes_of_ascii "MetaData
    // `tick` ""quote"" 'q'
    As// c
{ f32a options1,crc
    Logon ,
    }")).
Eval vm_compute in ("<<<M2942>>>" ++ check (runes_of_ascii "packet A {
  match k as n {
    [1, 22, ""c c"", 4, 5, ""f"", 7] : B,
    2 : C
  },
}")).
Eval vm_compute in ("<<<M4150>>>" ++ check (runes_of_ascii "
MetaData

    len	{	u32	Pad`two words`  // packet A { u8 x, }
  , 
} 	 // c
")).
Eval vm_compute in ("<<<M3257>>>" ++ check (runes_of_ascii "MetaData Foo { zchar[ 0 ] matchKey // c
, } options { lengthOf = i32 u = 00 ; }")).
Eval vm_compute in ("<<<M2930>>>" ++ check (runes_of_ascii "packet A {
  match k as n {
    [1, 22, ""c c"", 4, 5, ""f""] : B
    2 : C
  },
}")).
Eval vm_compute in ("<<<M2905>>>" ++ check (runes_of_ascii "packet A {
  match k as n {
    [""a"", ""bb"", 007, ""d""] : B,
    2 : C
  },
}")).
Eval vm_compute in ("<<<M892>>>" ++ check (runes_of_ascii "packet a1
{
    /// triple
    string_@lengthOf(As ) `
` , // " ++ [128512]%N ++ runes_of_ascii " emoji
}")).
Eval vm_compute in ("<<<M417>>>" ++ check (runes_of_ascii "
packet
Logon { // c
crc @lengthOf(
matchKey ) `line1
line2` ,
    }

")).
Eval vm_compute in ("<<<M2890>>>" ++ check (runes_of_ascii "packet A {
  match k as n {
    [1, 22, ""c c""] : B,
    2 : C
  },
}")).
Eval vm_compute in ("<<<M2946>>>" ++ check (runes_of_ascii "packet A { Inner { match k as n { [1,22,007,4,5,66,7] : B, }, }, }")).
Eval vm_compute in ("<<<M3878>>>" ++ check (runes_of_ascii "packet
	A  { B
    b

    `
x` ,B `
x`	,repeat B bs 
`
x` ,
} ")).
Eval vm_compute in ("<<<M361>>>" ++ check (runes_of_ascii "
root packet Pad { options1
@lengthOf(	f32a/// triple
), }
")).
Eval vm_compute in ("<<<M3313>>>" ++ check (runes_of_ascii "packet u8x { } MetaData crc { char[ 4294967296 ] Foo , // c
}")).
Eval vm_compute in ("<<<M3739>>>" ++ check (runes_of_ascii "
MetaData
	x_y_z  {
    zchar[

3
] // c

body
,

    }
")).
Eval vm_compute in ("<<<M3357>>>" ++ check (runes_of_ascii "

  root

    packet  P	{ repeat

char
cs ,	u8 x
	,}

")).
Eval vm_compute in ("<<<M310>>>" ++ check (runes_of_ascii "root packet
    falsey { int16 i8i8 ,
    } // a // b")).
Eval vm_compute in ("<<<M1093>>>" ++ check (runes_of_ascii "root packet BodyLength{ zchar[ 3 ] u8x `" ++ [28040; 24687; 31867; 22411]%N ++ runes_of_ascii "` ,	}
")).
Eval vm_compute in ("<<<M3663>>>" ++ check (runes_of_ascii "options {
    rootA = ""abc"";
    pack = false;
}")).
Eval vm_compute in ("<<<M1301>>>" ++ check (runes_of_ascii "packet T { @tag(
    00 ) uint8 MetaDataX ,}
")).
Eval vm_compute in ("<<<M2570>>>" ++ check (runes_of_ascii "packet A { repeat x @calculatedFrom(""c""), }")).
Eval vm_compute in ("<<<M3028>>>" ++ check (runes_of_ascii "MetaData M {
    u8 x `
`,
    T t `
`,
}")).
Eval vm_compute in ("<<<M4282>>>" ++ check (runes_of_ascii "packet
	u8x
{} // packet A { u8 x, }
 
")).
Eval vm_compute in ("<<<M1121>>>" ++ check (runes_of_ascii "MetaData
leftPad{ }MetaData float	{	}
")).
Eval vm_compute in ("<<<M2615>>>" ++ check (runes_of_ascii "packet A { match k as n { [] : B }, }")).
Eval vm_compute in ("<<<M3662>>>" ++ check (runes_of_ascii "options {
    trueish = char[255];
}")).
Eval vm_compute in ("<<<M1809>>>" ++ check (runes_of_ascii "options{  lengthOf =//x
i16;
    B")).
Eval vm_compute in ("<<<M26>>>" ++ check (runes_of_ascii "packet len
{
} MetaData crc	{ }")).
Eval vm_compute in ("<<<M738>>>" ++ check (runes_of_ascii "root
packet tag { } // " ++ [128512]%N ++ runes_of_ascii " emoji")).
Eval vm_compute in ("<<<M3094>>>" ++ check (runes_of_ascii "packet A {
 u8 x `d `, // c 
}")).
Eval vm_compute in ("<<<M3351>>>" ++ check (runes_of_ascii "options { u8x = false }
// c
")).
Eval vm_compute in ("<<<M4389>>>" ++ check (runes_of_ascii "// a // b
packet trueish {
}")).
Eval vm_compute in ("<<<M2585>>>" ++ check (runes_of_ascii "packet A { u8 x `d` `e`, }")).
Eval vm_compute in ("<<<M963>>>" ++ check (runes_of_ascii "packet	charz { Header, }")).
Eval vm_compute in ("<<<M2777>>>" ++ check (runes_of_ascii ")}" ++ [65533; 65533]%N ++ runes_of_ascii "Nw" ++ [65533; 65533; 65533]%N ++ runes_of_ascii "N" ++ [65533; 65533]%N ++ runes_of_ascii "%" ++ [65533]%N ++ runes_of_ascii "g" ++ [65533]%N ++ runes_of_ascii "+Y" ++ [65533; 65533; 12; 65533]%N ++ runes_of_ascii "r")).
Eval vm_compute in ("<<<M2583>>>" ++ check (runes_of_ascii "packet A { x `d` y, }")).
Eval vm_compute in ("<<<M498>>>" ++ check (runes_of_ascii "packet
packetx{ }

")).
Eval vm_compute in ("<<<M1729>>>" ++ check (runes_of_ascii "options{  lengthOf")).
Eval vm_compute in ("<<<M3148>>>" ++ check (runes_of_ascii "// c" ++ [11]%N ++ runes_of_ascii "
packet A {
}")).
Eval vm_compute in ("<<<M2857>>>" ++ check (runes_of_ascii "@lengthOf( string")).
Eval vm_compute in ("<<<M2661>>>" ++ check (runes_of_ascii "MetaData M M { }")).
Eval vm_compute in ("<<<M2638>>>" ++ check (runes_of_ascii "packet A { } ;")).
Eval vm_compute in ("<<<M2823>>>" ++ check (runes_of_ascii ", : MetaData")).
Eval vm_compute in ("<<<M2496>>>" ++ check (runes_of_ascii "@lengthOf")).
Eval vm_compute in ("<<<M2471>>>" ++ check (runes_of_ascii "repeats")).
Eval vm_compute in ("<<<M3176>>>" ++ check (runes_of_ascii "// c x")).
Eval vm_compute in ("<<<M3101>>>" ++ check (runes_of_ascii "// c" ++ [160]%N)).
Eval vm_compute in ("<<<M2546>>>" ++ check (runes_of_ascii "A1b2")).
Eval vm_compute in ("<<<M2540>>>" ++ check (runes_of_ascii "a.b")).
Eval vm_compute in ("<<<M2562>>>" ++ check (runes_of_ascii "a" ++ [233]%N)).
