From FP Require Import Lexer Parser ShowPT Digest Formatter.
From Coq Require Import String List NArith.
Import ListNotations.
Open Scope string_scope.
Set Printing Width 100000000.
Set Printing Depth 100000000.
Definition show_fres (r : fres) : string :=
  match r with
  | FOk s => "OK:" ++ sh_escaped s ""
  | FErr s => "ERR:" ++ sh_escaped s ""
  | FPanic p => "PANIC:" ++ p
  end.
Definition check (rs : list rune) : string := digest (show_fres (format_res rs)).
Definition full (rs : list rune) : string := show_fres (format_res rs).
Eval vm_compute in ("<<<M3651>>>" ++ check (runes_of_ascii "options {
    ArrayPrefixLenType = u16;
    FixedStringPadFromLeft = true;
    JavaPackage = ""com.example.msg"";
    GoPackage = ""msg"";
    GoModule = ""example.com/msg"";
}
MetaData Meta {
    u32 SeqNum `sequence number
more`,
    char[8] Symbol `symbol
more`,
    zchar[5] ZSym `z symbol
more`,
    string Note,
    Symbol AltSymbol `alias of symbol`,
    f64 Price,
}
packet Inner {
    u8 a,
    i16 b,
    string c,
}
packet Inner2 {
    u8 a2,
    char[3] c2,
}
packet Logon {
    u8 x,
    string user,
    repeat u16 codes,
}
packet Logout {
    u16 reason,
}
packet Empty {
}
root packet Msg {
    u8 su8,
    uint8 luint8,
    u16 su16,
    uint16 luint16,
    u32 su32,
    uint32 luint32,
    u64 su64,
    uint64 luint64,
    i8 si8,
    int8 lint8,
    i16 si16,
    int16 lint16,
    i32 si32,
    int32 lint32,
    i64 si64,
    int64 lint64,
    f32 sf32,
    float32 lfloat32,
    f64 sf64,
    float64 lfloat64,
    char[6] fsplain,
    @leftPad('0') char[4] fs0,
    @rightPad('0') char[5] fs1,
    @leftPad(' ') char[6] fs2,
    @rightPad(' ') char[7] fs3,
    @leftPad('\x00') char[8] fs4,
    @rightPad('\x00') char[9] fs5,
    @leftPad() char[10] fs6,
    @rightPad() char[11] fs7,
    zchar[7] fz,
    @leftPad('0') zchar[3] fzl0,
    string s1 `doc`,
    char[] s2,
    Inner,
    Sub {
        u8 q,
        string w,
        Deep {
            u16 z,
            repeat i32 zs,
        },
    },
    repeat u8 ru8,
    repeat u16 ru16,
    repeat u32 ru32,
    repeat u64 ru64,
    repeat i8 ri8,
    repeat i16 ri16,
    repeat i32 ri32,
    repeat i64 ri64,
    repeat f32 rf32,
    repeat f64 rf64,
    repeat string rstr,
    repeat char[] rstr2,
    repeat char[3] rfs,
    repeat zchar[3] rfz,
    repeat Inner2,
    repeat Grp {
        u8 k,
        char[2] v,
    },
    SeqNum,
    SeqNum seq2,
    repeat SeqNum seqs,
    Symbol,
    AltSymbol alt,
    ZSym,
    Note,
    repeat Symbol syms,
    Price px,
    u16 MsgType,
    u32 BodyLen @lengthOf(Body),
    match MsgType as Body {
        1 : Logon,
        [2, 3] : Logout,
        7 : Logon,
        9 : Empty,
    },
    u32 Checksum @calculatedFrom(""CRC32""),
}
")).
Eval vm_compute in ("<<<M1>>>" ++ check (runes_of_ascii "
packet
body { chars //x
`two words` , match crc as	metadata {65535
    :
    // c
    trueish ""\" ++ [233]%N ++ runes_of_ascii """ : charz , ""abc""	: MetaDataX [""packet"" , ""// no comment"",0
, 00
,
    ""// no comment"" ,""{,}"" , 00 ]:  i64_
// @lengthOf(
//	t
, """ ++ [233]%N ++ runes_of_ascii "t" ++ [233]%N ++ runes_of_ascii """ :f32a
, [
    """ ++ [128512]%N ++ runes_of_ascii """  , ""it's""
]
: Foo
}
    ,@rightPad
(  ' '
    /// triple
    ) repeat char[ 1]
    body `it's`
,
@tag( 007) @calculatedFrom(
    """ ++ [233]%N ++ runes_of_ascii "t" ++ [233]%N ++ runes_of_ascii """ )
// @lengthOf(
//
@calculatedFrom( ""a\""b""// trailing space 
)
repeat
i64_
{ roots /// triple
{ i16 // packet A { u8 x, }
Header`two words`, repeatCount `{ , }`,  f64
x @calculatedFrom( ""a	b"")
    // a // b
    ,repeatCount @calculatedFrom(// " ++ [27880; 37322]%N ++ runes_of_ascii "
"""" ) ,} ,repeat u8
BodyLength
    `crlf
line`	,
    // `tick` ""quote"" 'q'
    char As
@lengthOf(
    Foo) , } ,	char[] roots
    `line1
line2`,//
int a1, string_{ char[]Logon `line1
line2` , repeat float32 trueish
    ,
},
@leftPad ( '0' ) repeat metadata  {	rootA@lengthOf( // trailing space 
falsey	) ``
    ,
// " ++ [128512]%N ++ runes_of_ascii " emoji
// packet A { u8 x, }
} ,
} packet float
{u16
// trailing space 
// trailing space 
Logon // a // b
`tab	here`// @lengthOf(
,
// @lengthOf(
// c
u128 {zchar[255
// packet A { u8 x, }
//
]	charz`doc` , }
,
@tag(0 )	repeat Foo { i32 body
    @calculatedFrom( ""`tick`"" )
`" ++ [233]%N ++ runes_of_ascii "` ,} /// triple
,char[] o @calculatedFrom(""1"" ) `line1
line2` ,
@lengthOf(
// a // b
//x
zchar) i16 BodyLength
    @lengthOf(
    // " ++ [27880; 37322]%N ++ runes_of_ascii "
    BodyLength )
    , @lengthOf( T) @rightPad(
' ' )@lengthOf( T
)
repeat
u64 _x// " ++ [27880; 37322]%N ++ runes_of_ascii "
, match MetaDataX as // trailing space 
options1// trailing space 
{ //x
0123456789 :
    options1  , } , repeat u8 charz
, repeat i8i8 {// c
a1 ,len  { repeat string
o	,
    // a // b
    } ,	match zchar
as Logon {"""" : matchKey """ ++ [128512]%N ++ runes_of_ascii """	: u 007 :
repeatCount ,}  , // c
}
    ,
}
")).
Eval vm_compute in ("<<<M322>>>" ++ check (runes_of_ascii "
packet
metadata {
i8 BodyLength,
asx `two words`  ,char[ 0123456789] asx`" ++ [28040; 24687; 31867; 22411]%N ++ runes_of_ascii "`// " ++ [128512]%N ++ runes_of_ascii " emoji
, @tag(
42/// triple
)
    repeat	charz `crlf
line` ,
body ,@tag( 65535  ) match
    // " ++ [128512]%N ++ runes_of_ascii " emoji
    Pad as x_y_z  { ""{,}"" :
u , } ,
    repeat Foo
    {repeat pack {
// `tick` ""quote"" 'q'
// `tick` ""quote"" 'q'
f32 calculatedFrom
    @lengthOf( options1
    )
,
//x
// c
}
, int32 Header @calculatedFrom(""a	b"")
, char[]
zchar
    `
`
    ,
    zchar[00 ]a1 @calculatedFrom(
    // c
    ""{,}"") `crlf
line` , }
,
    body zchar ,i64_ @calculatedFrom( ""a\\""  )
, // " ++ [27880; 37322]%N ++ runes_of_ascii "
match
/// triple
// " ++ [27880; 37322]%N ++ runes_of_ascii "
zchar
as zchar {	1 : u128
    ,
255
: packetx, [""{,}"" ,""// no comment"",  0 , 65535 ,  3 ] :  u8x, 0123456789:  calculatedFrom // `tick` ""quote"" 'q'
, 10 : Header	,
}
    ,
}packet string_
{ @tag( 10 ) T, @calculatedFrom(""CRC32""//	t
)@lengthOf(charz )@lengthOf(
zchar) zchar[
42
    ] // a // b
a1 `" ++ [233]%N ++ runes_of_ascii "` , int32 x `two words` //
, float32 repeatCount ,
    //
    @lengthOf(
    Packet) @rightPad('0'	) // @lengthOf(
@calculatedFrom(""a\""b"") zchar[ 0 ]	repeatCount @lengthOf(
BodyLength  ) // trailing space 
, float,
repeat
zchar
// trailing space 
//x
,} root packet body
{  @lengthOf(msg_type) repeat
    u128 {// trailing space 
char[
// " ++ [128512]%N ++ runes_of_ascii " emoji
//
0123456789 ]options1
,
}	, //	t
f64
    u128`it's`	,// @lengthOf(
repeat  i64 charz ,
@calculatedFrom( """ ++ [128512]%N ++ runes_of_ascii """ )
    repeat char
    roots, } packet
metadata // @lengthOf(
{ // trailing space 
@lengthOf( // packet A { u8 x, }
BodyLength ) @tag( 4294967296  ) f32a
A
, } MetaData u128 { } //")).
Eval vm_compute in ("<<<M1155>>>" ++ check (runes_of_ascii "packet u128 {
// packet A { u8 x, }
// c
@rightPad (
' ')uint8x { zchar {
match u8x
as
Logon {007 // @lengthOf(
: Packet
    //x
    , [ 255 ,
//
//x
""`tick`"" ,00 , 42 ,
""a\\""
    ,	3 ] :
// @lengthOf(
// a // b
int ,},  metadata `" ++ [28040; 24687; 31867; 22411]%N ++ runes_of_ascii "` ,
repeat char[]Header
    , a1, }
, match // packet A { u8 x, }
leftPad as rootA{
0123456789 : int,0 : pack, }, tag { // " ++ [27880; 37322]%N ++ runes_of_ascii "
string_ ,
    pack calculatedFrom  , },// packet A { u8 x, }
} ,
    //x
    zchar[
255] msg_type , i32// c
x, match options1 // @lengthOf(
as
    options1 {  10// @lengthOf(
: //
zchar,
42 : pack ,
[  ""a\\"" ] :
    // @lengthOf(
    As [42
,
    ""a\""b"" ] : asx
, [
    10 ] :a1 ,
[
    00]
:
    // trailing space 
    chars
    // " ++ [27880; 37322]%N ++ runes_of_ascii "
    , } ,
// `tick` ""quote"" 'q'
//	t
char[0] Header @lengthOf(
chars) // @lengthOf(
`it's` ,
//
//	t
match//	t
x_y_z as
    u8x {  65535 : Logon
    ,""" ++ [233]%N ++ runes_of_ascii "t" ++ [233]%N ++ runes_of_ascii """ :
Header ,
    ""a	b"":
metadata ,	[
    255,
""a\\""
// a // b
// c
, ""a	b""
, //x
1 , ""{,}"" , """",255 , """ ++ [28040; 24687]%N ++ runes_of_ascii """ ]: f32a
//	t
// c
, 3	:
len // @lengthOf(
}, @leftPad
( ) @calculatedFrom( ""a\\"") int64 leftPad
`" ++ [233]%N ++ runes_of_ascii "` , @calculatedFrom( ""packet"" )
    @tag(
10 )  @calculatedFrom(""a\\"" ) string Packet
    @lengthOf( BodyLength ),//x
@leftPad ( // @lengthOf(
'0' )repeat
char[]
//	t
// trailing space 
Logon
,
@tag( 00
) match
u8x as Z9_ {
[ 10 ] : lengthOf
    0123456789 : _x, ""packet"" : i64_, } , }")).
Eval vm_compute in ("<<<M1389>>>" ++ check (runes_of_ascii "options {
	StringPrefixLenType = u16;
	ArrayPrefixLenType = u16;
}

packet SampleBinary {
    uint16 MsgType `" ++ [28040; 24687; 31867; 22411]%N ++ runes_of_ascii "`,
    u16 BodyLenght @lengthOf(Body) `" ++ [28040; 24687; 20307; 38271; 24230]%N ++ runes_of_ascii "`,
    match MsgType as Body {
        1 : Logon,
        2 : Logout,
        3 : Heartbeat,
        4 : RiskControlRequest,
        5 : RiskControlResponse,
    },
        @calculatedFrom(""CRC32"")
    u32 Ckecksum `" ++ [26657; 39564; 21644]%N ++ runes_of_ascii "`,
}

packet Logon {
     @leftPad('0')
    char[10] UserName `" ++ [29992; 25143; 21517]%N ++ runes_of_ascii "`,
    string Password `" ++ [23494; 30721]%N ++ runes_of_ascii "`,
    uint64 ClientId `" ++ [23458; 25143; 31471]%N ++ runes_of_ascii "ID`,
    u16 HeartbeatInterval `" ++ [24515; 36339; 38388; 38548]%N ++ runes_of_ascii "`,
}

packet Logout {
      @rightPad('0')
    char[10] UserName `" ++ [29992; 25143; 21517]%N ++ runes_of_ascii "`,
    uint64 ClientId `" ++ [23458; 25143; 31471]%N ++ runes_of_ascii "ID`,
}

packet Heartbeat {
}

packet RiskControlRequest {
    string UniqueOrderId `" ++ [21807; 19968; 35746; 21333; 21495]%N ++ runes_of_ascii "`,
    char[16] ClOrdID `" ++ [23458; 25143; 35746; 21333; 21495]%N ++ runes_of_ascii "`,
    char[3] MarketID `" ++ [24066; 22330]%N ++ runes_of_ascii "id`,
    char[12] SecurityID `" ++ [35777; 21048; 20195; 30721]%N ++ runes_of_ascii "`,
    char Side `" ++ [20080; 21334; 26041; 21521]%N ++ runes_of_ascii "`,
    char OrderType `" ++ [35746; 21333; 31867; 22411]%N ++ runes_of_ascii "`,
    u64 Price `" ++ [20215; 26684]%N ++ runes_of_ascii "`,
    u32 Qty `" ++ [25968; 37327]%N ++ runes_of_ascii "`,
    repeat string ExtraInfo `" ++ [38468; 21152; 20449; 24687]%N ++ runes_of_ascii "`,
    repeat SubOrder {
    		char[16] ClOrdID `" ++ [23376; 35746; 21333; 21495]%N ++ runes_of_ascii "`,
    		u64 Price `" ++ [23376; 35746; 21333; 20215; 26684]%N ++ runes_of_ascii "`,
    		u32 Qty `" ++ [23376; 35746; 21333; 25968; 37327]%N ++ runes_of_ascii "`,
    	},
}

packet RiskControlResponse {
    string UniqueOrderId `" ++ [21807; 19968; 35746; 21333; 21495]%N ++ runes_of_ascii "`,
    i32 Status `" ++ [29366; 24577]%N ++ runes_of_ascii "`,
    string Msg `" ++ [32467; 26524; 20449; 24687]%N ++ runes_of_ascii "`,
    repeat Detail,
}

packet Detail {
    string RuleName `" ++ [35268; 21017; 21517; 31216]%N ++ runes_of_ascii "`,
    u16 Code `" ++ [21407; 22240; 20195; 30721]%N ++ runes_of_ascii "`,
}")).
Eval vm_compute in ("<<<M3824>>>" ++ check (runes_of_ascii "options {
    StringPrefixLenType = u16;
    ArrayPrefixLenType = u8;
    FixedStringPadFromLeft = true;
    FixedStringPadChar = ' ';
}

packet Quote {
    int64 OrderId,
    char[] Ref,
    @leftPad('0')
    char[5] price,
}

packet Heartbeat {
    zchar[3] venue,
    string Flags,
}

packet Trade {
    repeat InTag787 {
        i32 venue,
        char[5] sym,
        repeat InPx98 {
            char[11] Qty,
            Heartbeat,
            char[] price,
            u32 x,
            float64 count,
            repeat Quote,
        },
        zchar[7] Note,
        repeat char[1] Tail,
    },
    repeat char[2] seqNo,
    InTail55 {
        repeat Quote,
        string msgKind,
        InPx18 {
            char[] count,
            repeat Quote,
            uint16 Qty,
        },
        char[4] seqNo,
        repeat Heartbeat,
        repeat string sym,
    },
    repeat Quote,
    Heartbeat,
    @leftPad(' ')
    char[10] OrderId,
}

root packet Fill {
    Heartbeat,
    uint32 count,
    u8 OrderId,
    match OrderId as Body {
        96 : Quote,
        195 : Trade,
        187 : Heartbeat,
    },
    u32 venue @calculatedFrom(""CRC32""),
}")).
Eval vm_compute in ("<<<M477>>>" ++ check (runes_of_ascii "
MetaData
    asx
// a // b
/// triple
{
char[]	Z9_ // " ++ [128512]%N ++ runes_of_ascii " emoji
`doc` , }
    packet roots { a1 @lengthOf( string_ ) ,	char[ 0123456789 ] Logon`
` , // " ++ [128512]%N ++ runes_of_ascii " emoji
@calculatedFrom(
""`tick`""  )
i64 u128
    //
    , i32 matchKey
    `doc` ,match asx as pack { /// triple
[ 0 ] : x_y_z
0123456789 :float,
00 : packetx
65535 : crc
,	4294967296
    :a1 } , falsey
float ,  @calculatedFrom(""CRC32"") // " ++ [128512]%N ++ runes_of_ascii " emoji
@lengthOf( body ) @lengthOf( MetaDataX )// @lengthOf(
leftPad
@calculatedFrom( """ ++ [28040; 24687]%N ++ runes_of_ascii """
)
`// not a comment`,
    uint8 packetx @calculatedFrom( ""a	b"")// packet A { u8 x, }
,}  packet
    Logon	{
    } packet zchar { /// triple
Z9_
{ repeat i8 Foo	,	f64
    // " ++ [128512]%N ++ runes_of_ascii " emoji
    falsey
`tab	here` // " ++ [27880; 37322]%N ++ runes_of_ascii "
,
match  msg_type as As{
255: roots
, [ 4294967296, 7
    , ""`tick`""
, 65535	] :
metadata, """ ++ [233]%N ++ runes_of_ascii "t" ++ [233]%N ++ runes_of_ascii """: x_y_z ""`tick`"" : x_y_z , [
    42 , ""CRC32"" , //x
""// no comment"",  0123456789	, ""// no comment"" , ""CRC32"" ,	""" ++ [128512]%N ++ runes_of_ascii """ ,
    ""{,}"" //
]:packetx, } , o@lengthOf(
msg_type ) `it's` , }	,	@calculatedFrom( """ ++ [28040; 24687]%N ++ runes_of_ascii """ )
uint64 x
`crlf
line` , zchar[
7 ]
Logon , repeat rootA matchKey `crlf
line` ,} // " ++ [27880; 37322]%N)).
Eval vm_compute in ("<<<M4479>>>" ++ check (runes_of_ascii "// @lengthOf(
packet BodyLength {
    char T,
}

root packet A {
    repeat len `say ""hi""`,
    repeat Pad {
        repeat char[] stringy,
        repeat rootA {
            uint64 Foo @lengthOf(options1) `it's`,
            //x
            /// triple
            zchar {
                zchar[42] Z9_,
                repeat o i8i8,
                uint8 x `it's`,
                rootA Foo `{ , }`,
            },
        },
        metadata @calculatedFrom(""a	b""),
    },
    @tag(1)
    string u `doc`,
    u @calculatedFrom(""it's"") ``,
    char[7] packetx @lengthOf(A) `{ , }`,
    string _x `
    `,
    float32 _x,
    repeat char[42] rootA `doc`,
}

MetaData matchKey {
    zchar[0123456789] falsey ``,
}

packet Logon {
    @lengthOf(zchar)
    match leftPad as falsey {
        3 : Packet,
        007 : zchar,
        1 : float,
        ""it's"" : body,
        ""CRC32"" : body,
    },
    @calculatedFrom(""{,}"")
    zchar[1] i8i8 @lengthOf(uint8x),
    zchar[00] a1,
    uint64 u,
    string Packet @calculatedFrom(""packet""),
}")).
Eval vm_compute in ("<<<M3632>>>" ++ check (runes_of_ascii "

  options  {
	StringPrefixLenType =	u64
; ArrayPrefixLenType =
	u16

;
    FixedStringPadChar  =
	' '

    ; }	packet
Logon
	{i32
	msgKind

    , 
repeat
InOrderid65
{	u8

pad0  ,
    }
	, i8
	tag7
    ,
	@leftPad
    ( 
' ' )char[ 12 ]

x
,
	}
    packet  Leg

{

char[]  f1

    ,repeat char[

    5]  Px	,
	InQty34{
    repeat char[
	6 ] Qty , char[7] seqNo
, 
string count	,
    }

    ,Logon ,

}
    packet

    Party  {

@leftPad

    (
'0' )	char[

10]	OrderId 
,string	Tail

    ,	}

    packet

    Fill{ zchar[
	5
]  venue	, 
zchar[3
]	clOrdID, InRef95{ InLastpx25	{
    u8  pad0
    ,	} , float64

    OrderId 
, i32 f1
    ,  float32 x
	,
    char[]	seqNo,}

,
	repeat

string
	seqNo, }root
    packet Heartbeat {

repeat
Leg,u32
seqNo , u16 tag7
, u32
Flags
@lengthOf(  Body )

    ,  match tag7

as Body{[
    195 ,  75
	] :
    Party ,
171:Fill 
, 78

:
	Logon
    ,  142 
:
Leg , }
,
u32 
Note @calculatedFrom( ""CRC32"" )
    ,
    }
")).
Eval vm_compute in ("<<<M1057>>>" ++ check (runes_of_ascii "
packet
// c
// @lengthOf(
int{ @lengthOf( //
pack
    ) f64 asx @calculatedFrom( ""abc"" )
    , @calculatedFrom( ""\" ++ [233]%N ++ runes_of_ascii """ ) f64 //	t
u
`// not a comment`
,// " ++ [128512]%N ++ runes_of_ascii " emoji
@lengthOf( stringy) @tag( 3 )
    @rightPad  ()repeat float32
    rootA , msg_type@lengthOf(
    packetx
    // " ++ [27880; 37322]%N ++ runes_of_ascii "
    ), @lengthOf( repeatCount
) //x
@calculatedFrom(
""`tick`"" )  float lengthOf ,
} packet Pad { repeat uint8x body`u8 x,` ,	zchar	{
    u8 trueish, float `
` ,
    } , @lengthOf(
uint8x
) @lengthOf( //x
float ) u64 T @calculatedFrom( ""// no comment"" ) , @rightPad ()
    repeat options1//x
int ,
@tag( 00
// c
// c
)
    @lengthOf( string_
// c
/// triple
)
@lengthOf( f32a	)
string
/// triple
//	t
u , match
    // trailing space 
    x as uint8x
    {[
    ""it's"" , ""x y""
, ""it's""  ] : // " ++ [128512]%N ++ runes_of_ascii " emoji
i64_	,// c
}
    ,} root packet
trueish{ i8i8`line1
line2` , } // " ++ [27880; 37322]%N ++ runes_of_ascii "
packet tag { //	t
float64 // packet A { u8 x, }
Foo
    `` , }
")).
Eval vm_compute in ("<<<M163>>>" ++ check (runes_of_ascii "packet
    // `tick` ""quote"" 'q'
    u8x {} packet calculatedFrom
    {
    i8i8
len
,
    match lengthOf as leftPad
{ 007
    : crc
, ""abc"": o 10 : falsey
    } , repeat  i8
metadata  , @calculatedFrom(""" ++ [28040; 24687]%N ++ runes_of_ascii """ ) repeat int16
leftPad
    // trailing space 
    ``
    ,BodyLength
    @calculatedFrom(  ""a\\""
    ) ,
char[] f32a,
    tag// packet A { u8 x, }
rootA
, @rightPad (
    // " ++ [27880; 37322]%N ++ runes_of_ascii "
    ' ' ) @tag( 007 ) match o as
    // " ++ [27880; 37322]%N ++ runes_of_ascii "
    _x { [ 1
    // " ++ [27880; 37322]%N ++ runes_of_ascii "
    ,
""a	b""
, ""1"" ,
00 ,7
// " ++ [128512]%N ++ runes_of_ascii " emoji
//x
,""" ++ [233]%N ++ runes_of_ascii "t" ++ [233]%N ++ runes_of_ascii """
    ,
    // c
    7 ,00
    ]
    : Foo ,
    // " ++ [27880; 37322]%N ++ runes_of_ascii "
    ""\" ++ [233]%N ++ runes_of_ascii """// @lengthOf(
:  matchKey
    ,},//x
@rightPad (	'\x00' )string msg_type	, }
packet  trueish {u8x
``
, @lengthOf( Header
    )
    repeat int64 int	`` ,
} MetaData matchKey	{ string msg_type	, zchar[
    //	t
    4294967296
]
repeatCount `it's`
, u8
crc
, zchar
o ,int64 asx
, }root
packet chars{
    }
")).
Eval vm_compute in ("<<<M989>>>" ++ check (runes_of_ascii "packet int
// a // b
// @lengthOf(
{i16 Logon @calculatedFrom(
    ""a\\"" ) ,  repeat
calculatedFrom	`// not a comment` , @calculatedFrom(
    // @lengthOf(
    ""CRC32"" ) Z9_ charz , @lengthOf(  Z9_) /// triple
matchKey  `u8 x,` , } MetaData asx { }packet
Packet {
    @tag( 65535  ) options1, int @lengthOf(
metadata
) `it's`,
    //x
    u8x{ char[00 ] Logon ,
repeat  i32 T
`// not a comment` , chars { float64
msg_type@lengthOf(
body	), f64 Z9_ ,
// a // b
// @lengthOf(
u16 string_
@lengthOf( int )`doc`	,//x
repeatCount
    @calculatedFrom( ""x y""	),} , }, match A/// triple
as	u { [
    ""packet"" , ""x y"" ] : f32a ,
[
65535 /// triple
,00 ] :stringy 255 : pack
    ,
[ 0 , ""`tick`""
    ] :
x
    ,
    1 : matchKey
, } , } packet
    roots{
@calculatedFrom( ""\n"" ) char[
65535
    // a // b
    ] Packet , }
")).
Eval vm_compute in ("<<<M4074>>>" ++ check (runes_of_ascii "MetaData	// `tick` ""quote"" 'q'
uint8x
{ char[	// `tick` ""quote"" 'q'
7	] 
Foo
,
float64 

    //x
/// triple
    repeatCount,  /// triple
	a1 uint8x
    `// not a comment`
,  } packet Header
    {

    @calculatedFrom(	""packet""	) repeat calculatedFrom 
charz ,} packet rootA
    { 
@calculatedFrom( ""abc"") @calculatedFrom( """"
)

@lengthOf( 	 // " ++ [128512]%N ++ runes_of_ascii " emoji
asx 
) repeat

repeatCount

    ,repeat// " ++ [128512]%N ++ runes_of_ascii " emoji
o
{
    crc

options1 
      //x
	  // " ++ [128512]%N ++ runes_of_ascii " emoji
	,
zchar[  7  ]

    A
,

    Z9_
    @lengthOf(	Pad)

,
calculatedFrom
	// trailing space 
  @calculatedFrom(""a\""b"") 	 // packet A { u8 x, }
	,}

,
repeat 
a1 Foo

    `{ , }`
, charz ,	}
	options{ body  =  """ ++ [28040; 24687]%N ++ runes_of_ascii """
	;
    packetx	// a // b
  =  0
	}
    MetaData
    _x // @lengthOf(
  	{int16	crc	, } ")).
Eval vm_compute in ("<<<M1022>>>" ++ check (runes_of_ascii "//
packet T
    { @lengthOf( stringy )
f64 packetx `a\` ,packetx asx// `tick` ""quote"" 'q'
,	string matchKey `say ""hi""` , int8 roots ,u32 asx @calculatedFrom(""it's"")
, @calculatedFrom( ""// no comment""// " ++ [128512]%N ++ runes_of_ascii " emoji
)
// " ++ [27880; 37322]%N ++ runes_of_ascii "
// @lengthOf(
match i64_ as
roots
{ ""// no comment""// trailing space 
:crc , }	,
@lengthOf(
leftPad
) string u128 `doc`, @lengthOf( asx ) match
    asx
as f32a { [10,007 ] : asx , [ 10 , ""1""
] :
BodyLength, 1: Logon, }
    , @calculatedFrom(
    ""// no comment""
)
    @lengthOf(
    zchar )zchar[ 0123456789] // trailing space 
T
    `" ++ [28040; 24687; 31867; 22411]%N ++ runes_of_ascii "`  , char[
10 ]matchKey``,
    } MetaData options1
{ i64
repeatCount`a\`
,	f32 calculatedFrom `// not a comment` , char[1]	T , } packet A { // " ++ [128512]%N ++ runes_of_ascii " emoji
char[ 1 ]u `" ++ [28040; 24687; 31867; 22411]%N ++ runes_of_ascii "` , }
")).
Eval vm_compute in ("<<<M1262>>>" ++ check (runes_of_ascii "packet float{	x // " ++ [128512]%N ++ runes_of_ascii " emoji
{ u128 @calculatedFrom( ""it's"" ) `line1
line2` , } ,  match
    packetx as roots
{ """"
    :
body ,
    007 : // " ++ [128512]%N ++ runes_of_ascii " emoji
MetaDataX 7 //
:
stringy , 00: u8x,
1
    : lengthOf
    ,  } , }packet asx
{ match x
as  repeatCount
// " ++ [27880; 37322]%N ++ runes_of_ascii "
//	t
{
// packet A { u8 x, }
// a // b
0
:  float ,
    // " ++ [27880; 37322]%N ++ runes_of_ascii "
    },
    charz
    ,@tag( 0 ) @calculatedFrom( ""\" ++ [233]%N ++ runes_of_ascii """ )
    // @lengthOf(
    @lengthOf( asx ) falsey
    //
    roots
,
repeat u32	BodyLength // packet A { u8 x, }
`line1
line2`, //	t
@rightPad(
'\x00'
) repeat
zchar
{u64 x_y_z
`line1
line2` , }  , // c
@lengthOf(
i64_ )@lengthOf(Header
)
@tag(1 )u8
o	@calculatedFrom( // @lengthOf(
""\n"") `doc`, } // trailing space ")).
Eval vm_compute in ("<<<M119>>>" ++ check (runes_of_ascii "packet
Pad {
@lengthOf(stringy)MetaDataX  @calculatedFrom(""" ++ [28040; 24687]%N ++ runes_of_ascii """ ) `{ , }` ,
//x
/// triple
char[ 0123456789 ]leftPad @lengthOf( float
), asx leftPad `u8 x,` ,
    @calculatedFrom(""\" ++ [233]%N ++ runes_of_ascii """ )
    repeat  rootA
    matchKey `" ++ [28040; 24687; 31867; 22411]%N ++ runes_of_ascii "`, @lengthOf( stringy
    ) /// triple
uint8x msg_type `u8 x,`, // c
char[ 3
]
stringy `tab	here`  ,
}
MetaData metadata{ string_ zchar , float32 u128	,
char[]
    //	t
    u128//x
,} options
    // trailing space 
    { zchar =""" ++ [28040; 24687]%N ++ runes_of_ascii """ ;
msg_type = 007 ;	repeatCount = '\x00' ;	} packet
_x { }  options
{
    asx
=
true;
lengthOf =
'0'  i8i8= '0'  crc =
""abc""
    /// triple
    ; Packet
// " ++ [128512]%N ++ runes_of_ascii " emoji
// trailing space 
= ' ' } // a // b")).
Eval vm_compute in ("<<<M3795>>>" ++ check (runes_of_ascii "options {
    packetx = ""a\\""
    //	t
    x_y_z = false;
    len = """ ++ [233]%N ++ runes_of_ascii "t" ++ [233]%N ++ runes_of_ascii """
    u = ""x y""
}

MetaData Foo {
    uint8x Z9_ `
    `,
    options1 msg_type,
    string_ trueish `
    `,
    metadata rootA `two words`,
}

root packet Foo {
    repeat trueish {
        match A as options1 {
            ""packet"" : int,
        },
        zchar[007] u8x @calculatedFrom(""" ++ [233]%N ++ runes_of_ascii "t" ++ [233]%N ++ runes_of_ascii """),
        msg_type float `" ++ [28040; 24687; 31867; 22411]%N ++ runes_of_ascii "`,
        match string_ as charz {
            10 : zchar,
            [
                0, 007, 10, 65535, 1,
                ""x y"", """ ++ [233]%N ++ runes_of_ascii "t" ++ [233]%N ++ runes_of_ascii """
            ] : u,
            1 : u128,
            3 : int,
        },
    },
}")).
Eval vm_compute in ("<<<M4427>>>" ++ check (runes_of_ascii "packet crc {
    // packet A { u8 x, }
    // trailing space 
    Logon,
}

options {
    msg_type = '\x00';
}

packet falsey {
    char[0123456789] calculatedFrom @calculatedFrom(""packet"") `say ""hi""`,
    match As as o {
        65535 : A,
        """" : _x,
        ""`tick`"" : zchar,
        0123456789 : calculatedFrom,
    },
    @tag(00)
    As {
        char[] calculatedFrom,
    },
    float32 zchar,
    char[255] lengthOf,
    @lengthOf(chars)
    @lengthOf(a1)
    body @calculatedFrom(""// no comment"") `crlf
    line`,
}

root packet _x {
    @calculatedFrom(""a\\"")
    repeat i32 o,
}")).
Eval vm_compute in ("<<<M4531>>>" ++ check (runes_of_ascii "// packet A { u8 x, }
packet Foo {
}

packet i64_ {
    asx @lengthOf(a1) `two words`,
    repeat i64_ {
        char[] u `crlf
                line`,
        char[10] metadata,
        //
        a1 {
            repeat zchar[1] len,
            char[00] Z9_ @calculatedFrom(""a\\""),
            zchar[7] Header @lengthOf(x),
            repeat pack,// @lengthOf(
        },// trailing space 
    },
    match tag as u8x {
        ""{,}"" : zchar,
        1 : metadata,
        """ ++ [233]%N ++ runes_of_ascii "t" ++ [233]%N ++ runes_of_ascii """ : a1,
        """ ++ [233]%N ++ runes_of_ascii "t" ++ [233]%N ++ runes_of_ascii """ : chars,
        [""a\\""] : crc,
    },
    tag @calculatedFrom(""" ++ [128512]%N ++ runes_of_ascii """),
}")).
Eval vm_compute in ("<<<M3740>>>" ++ check (runes_of_ascii "MetaData i8i8 {
    char[0123456789] body `doc`,
}

packet uint8x {
    pack {
        char u `crlf
                line`,
        float,
        zchar[007] A,
    },
    char[] calculatedFrom `
        `,
    char[42] matchKey @calculatedFrom(""a\\"") ``,
}

root packet int {
    @rightPad('0')
    Pad {
        match zchar as asx {
            [42, ""a	b""] : Logon,
        },
        Packet {
            zchar[4294967296] A,
        },
        match x as float {
            ""x y"" : o,
            1 : calculatedFrom,
        },
    },
}")).
Eval vm_compute in ("<<<M581>>>" ++ check (runes_of_ascii "// packet A { u8 x, }
options{ // a // b
} options
    { matchKey = 00
metadata =
/// triple
//
float64 u8x// `tick` ""quote"" 'q'
= 42
    }
packet
    uint8x{
    @lengthOf( matchKey
)
    float32 options1
,
@lengthOf( packetx ) repeat
zchar[7 ]
As ,@rightPad (
)
    // `tick` ""quote"" 'q'
    uint64 repeatCount
//	t
// packet A { u8 x, }
@lengthOf( leftPad	), @lengthOf( As
) @leftPad(
'\x00') // @lengthOf(
Header options1, @lengthOf( // a // b
packetx //
) repeat
    zchar[ 255
    ] zchar `it's` , }
")).
Eval vm_compute in ("<<<M1190>>>" ++ check (runes_of_ascii "packet metadata {	@tag( 7 ) body { u8x As
    // @lengthOf(
    `line1
line2`
    ,
    match// a // b
MetaDataX	as float{ 10
: msg_type 7 : o,}, // " ++ [27880; 37322]%N ++ runes_of_ascii "
} , _x
{  repeat falsey	`
`
,match
    x_y_z
    as Packet {""" ++ [28040; 24687]%N ++ runes_of_ascii """ :u8x	, } ,
zchar @calculatedFrom( """ ++ [233]%N ++ runes_of_ascii "t" ++ [233]%N ++ runes_of_ascii """ ) , } , // trailing space 
@lengthOf( stringy )i64_
@lengthOf( _x )	`` ,/// triple
}
//x
//x
packet asx
    { @leftPad
    (
    '\x00' )
i64	repeatCount
, @lengthOf( lengthOf//	t
)
repeat//	t
float32 Logon
// @lengthOf(
//
, }
")).
Eval vm_compute in ("<<<M223>>>" ++ check (runes_of_ascii "
root packet // a // b
matchKey
    { @calculatedFrom(
""// no comment"")match matchKey as crc { 65535:metadata , 255 :options1 , ""{,}"" :asx
,
    [ ""\" ++ [233]%N ++ runes_of_ascii """ , 00
,	""""  , /// triple
""{,}"" ,
""a\\"" ]
    : msg_type , 007: f32a ,//x
} , @lengthOf(
repeatCount) @leftPad ()
    @calculatedFrom(  ""a\\"")float ,@tag( 42 ) u8 crc @calculatedFrom( //
""" ++ [28040; 24687]%N ++ runes_of_ascii """// " ++ [27880; 37322]%N ++ runes_of_ascii "
)
, uint64
BodyLength @lengthOf( f32a)
    `" ++ [28040; 24687; 31867; 22411]%N ++ runes_of_ascii "` , tag a1 ,
tag @calculatedFrom( ""`tick`""
), } // trailing space ")).
Eval vm_compute in ("<<<M4153>>>" ++ check (runes_of_ascii "MetaData metadata {
    repeatCount asx,
    u16 trueish,
    i8i8 Foo `say ""hi""`,
    char[4294967296] u,
}

packet uint8x {
    repeat char[] u,
    @tag(007)
    char[7] falsey @calculatedFrom(""" ++ [233]%N ++ runes_of_ascii "t" ++ [233]%N ++ runes_of_ascii """),
    @leftPad('\x00')
    @lengthOf(leftPad)
    Packet {
        repeat packetx Header,
        tag `" ++ [233]%N ++ runes_of_ascii "`,
        i16 _x `a\`,
    },
    repeat A {
        //	t
        repeat Header `doc`,
        i64_,
        char[10] asx `two words`,
    },
}")).
Eval vm_compute in ("<<<M4388>>>" ++ check (runes_of_ascii "// " ++ [128512]%N ++ runes_of_ascii " emoji
packet o {
    char[4294967296] tag,
    @tag(1)
    zchar[0123456789] Logon,
    stringy `it's`,
    repeat string Logon,
    repeat f32 string_ `u8 x,`,
    @lengthOf(roots)
    A `" ++ [233]%N ++ runes_of_ascii "`,
    string_,
    @lengthOf(i64_)
    @calculatedFrom(""1"")
    //	t
    f32a @lengthOf(f32a) `doc`,
    @calculatedFrom(""" ++ [28040; 24687]%N ++ runes_of_ascii """)
    repeatCount `a\`,
}

/// triple
root packet As {
    @tag(0)
    char[] o `it's`,
}

packet matchKey {
}")).
Eval vm_compute in ("<<<M353>>>" ++ check (runes_of_ascii "options { len=
    // c
    ""abc""
; lengthOf = // trailing space 
true ;} packet
float {
    @tag( 65535
// `tick` ""quote"" 'q'
// trailing space 
) @rightPad
(' ' )int32
zchar ,repeat int64 trueish
,
@tag(10// packet A { u8 x, }
)
T repeatCount ,@leftPad (' ' )float32 MetaDataX
    `it's`
    ,
@rightPad (	' ' ) repeat zchar[ 0123456789 ] A
    , repeat
i8 f32a , u8 body
@calculatedFrom( ""it's""
)
,
    }
")).
Eval vm_compute in ("<<<M4171>>>" ++ check (runes_of_ascii "options {
    x = 3
    matchKey = ""a\""b""// @lengthOf(
    leftPad = ""packet"";
    T = zchar[65535];
}

MetaData MetaDataX {
}

MetaData repeatCount {
    u8x Pad,
}

packet T {
    @tag(42)
    repeat MetaDataX `{ , }`,// @lengthOf(
    float32 x @lengthOf(u8x) `
    `,
    int16 matchKey @calculatedFrom(""\n"") `two words`,
}

packet packetx {
    _x @calculatedFrom(""a\""b"") `a\`,
}// a // b")).
Eval vm_compute in ("<<<M1003>>>" ++ check (runes_of_ascii "options { Foo = ""packet""; }
/// triple
//	t
options { // `tick` ""quote"" 'q'
x
=
' ' ;
} // @lengthOf(
MetaData
// a // b
// c
calculatedFrom{ char[ 65535 ]asx , zchar stringy `
`	, roots packetx
    ,zchar[ 3 ] options1	, float	u8x ,char  asx
    `doc`,
} packet lengthOf
// c
// c
{
uint16 // a // b
calculatedFrom
    @calculatedFrom(""x y"" ) , } // packet A { u8 x, }")).
Eval vm_compute in ("<<<M1263>>>" ++ check (runes_of_ascii "packet	Z9_
{
    @lengthOf(pack )calculatedFrom //	t
u128 , /// triple
@tag( 4294967296 )
u64 options1 ,	uint16	uint8x@calculatedFrom(
""\n""  ), //
} packet	pack{ leftPad
MetaDataX , @leftPad
( )@lengthOf( packetx	)
repeat lengthOf { f64
repeatCount
    @calculatedFrom( ""a\""b"" ) `tab	here` ,
}, repeat pack body ,} options {
u128
//
//	t
=true ; }
")).
Eval vm_compute in ("<<<M3865>>>" ++ check (runes_of_ascii "packet T {
    uint64 rootA `it's`,
    @tag(255)
    f32a {
        string MetaDataX `" ++ [28040; 24687; 31867; 22411]%N ++ runes_of_ascii "`,
    },
    uint8x @lengthOf(u8x),
    match x as As {
        4294967296 : trueish,
        ""{,}"" : Packet,
        1 : float,
        007 : repeatCount,
    },
    @leftPad('0')
    @lengthOf(crc)
    int16 u128,
    calculatedFrom asx `u8 x,`,
}")).
Eval vm_compute in ("<<<M1067>>>" ++ check (runes_of_ascii "packet f32a{char[
    0123456789 ] matchKey `u8 x,` , @tag( 7 ) zchar[
    //x
    00
// trailing space 
// a // b
] _x
, } packet repeatCount {@calculatedFrom( ""CRC32""
    )@lengthOf(f32a)@leftPad('0'
// trailing space 
//
) match // trailing space 
body
// `tick` ""quote"" 'q'
// " ++ [27880; 37322]%N ++ runes_of_ascii "
as
    int{ [ """" , 1
] :
    string_, } ,}
")).
Eval vm_compute in ("<<<M660>>>" ++ check (runes_of_ascii "packet
BodyLength { }
root packet
Logon//x
{
@tag(	10 ) @tag(0123456789 )
    //x
    repeat float32
Pad	,	}
    packet
f32a{// `tick` ""quote"" 'q'
@rightPad// " ++ [128512]%N ++ runes_of_ascii " emoji
( ' '
    ) // a // b
repeat chars body , x_y_z @lengthOf( matchKey) ,
repeat
float64
    //x
    Logon
    , repeat zchar[
4294967296 //
] Foo
, }")).
Eval vm_compute in ("<<<M1903>>>" ++ check (runes_of_ascii "MetaData
    u { }  options {
// c
// @lengthOf(
float = int8 len rootA =false ; As =	int16 // `tick` ""quote"" 'q'
repeatCount
    // trailing space 
    =
    int16
; u8x =
    //	t
    '\x00' ; } options	{
    repeatCount
= 0
u128
    //
    = false ; i64_
// trailing space 
// `tick` ""quote"" 'q'
= '0' ; //	t
}
")).
Eval vm_compute in ("<<<M2063>>>" ++ check (runes_of_ascii "MetaData
    u { }  options {
// c
// @lengthOf(
float = int8 ;rootA =false ; As =	int16 // `tick` ""quote"" 'q'
repeatCount
    // trailing space 
    =
    int16
; u8x =
    //	t
    '\x00' ; " ++ [8232]%N ++ runes_of_ascii " } options	{
    repeatCount
= 0
u128
    //
    = false ; i64_
// trailing space 
// `tick` ""quote"" 'q'
= '0' ; //	t
}
")).
Eval vm_compute in ("<<<M1902>>>" ++ check (runes_of_ascii "MetaData
    u { }  options {
// c
// @lengthOf(
float = int8 rootA; =false ; As =	int16 // `tick` ""quote"" 'q'
repeatCount
    // trailing space 
    =
    int16
; u8x =
    //	t
    '\x00' ; } options	{
    repeatCount
= 0
u128
    //
    = false ; i64_
// trailing space 
// `tick` ""quote"" 'q'
= '0' ; //	t
}
")).
Eval vm_compute in ("<<<M2047>>>" ++ check (runes_of_ascii "MetaData
    u { }  options {
// c
// @lengthOf(
float = int8 ;rootA =false ; As =	int16 // `tick` ""quote"" 'q'
repeatCount
    // trailing space 
    =
    int16
; u8x =
    //	t
    '\x00' ; } options	{
    repeatCount
= 0
u128
    //
    = false ; i64_
// trailing space 
// `tick` ""quote"" 'q'
= '0' } //	t
;
")).
Eval vm_compute in ("<<<M1925>>>" ++ check (runes_of_ascii "MetaData
    u { }  options {
// c
// @lengthOf(
float = int8 ;rootA =false ;  =	int16 // `tick` ""quote"" 'q'
repeatCount
    // trailing space 
    =
    int16
; u8x =
    //	t
    '\x00' ; } options	{
    repeatCount
= 0
u128
    //
    = false ; i64_
// trailing space 
// `tick` ""quote"" 'q'
= '0' ; //	t
}
")).
Eval vm_compute in ("<<<M949>>>" ++ check (runes_of_ascii "MetaData
    T
//x
// trailing space 
{ char[]	metadata, } MetaData
    a1
{ charz
float , i32 i8i8`say ""hi""` ,} packet pack {MetaDataX	, f64 calculatedFrom , zchar[3 ]
    // a // b
    T//
@calculatedFrom(
    """ ++ [233]%N ++ runes_of_ascii "t" ++ [233]%N ++ runes_of_ascii """) `doc` ,A {i16 charz,char[ //
0123456789 ]crc `" ++ [28040; 24687; 31867; 22411]%N ++ runes_of_ascii "` , char[]
string_ , } , // a // b
}")).
Eval vm_compute in ("<<<M1283>>>" ++ check (runes_of_ascii "MetaData  T {
} root packet MetaDataX {
// packet A { u8 x, }
// `tick` ""quote"" 'q'
@lengthOf( trueish
)repeat
//
//	t
BodyLength ``  , }MetaData
    A // `tick` ""quote"" 'q'
{ float32 trueish , } packet
o
    //x
    {
    @lengthOf( Foo)  i8i8 stringy
    ,}MetaData trueish	{
    string o , }")).
Eval vm_compute in ("<<<M3661>>>" ++ check (runes_of_ascii "
options{
    LittleEndian=
	true; }
    packet 
Sub
{
	u8 a , @calculatedFrom(	""CRC16"")
u64 SubSum ,  }  root 
packet  Frame {
u16 MsgType

    ,  u16  BodyLen@lengthOf(Body)
    ,

Sub Body
,
string note

,

    @calculatedFrom( ""CRC16"" )  u64

Checksum , 
u8 tail ,
    }

")).
Eval vm_compute in ("<<<M92>>>" ++ check (runes_of_ascii "options
    {
    u8x =zchar[ 42 ] ;
roots = """ ++ [233]%N ++ runes_of_ascii "t" ++ [233]%N ++ runes_of_ascii """	; calculatedFrom
= '0' As =
    ""packet"" ; } options	{falsey=  10
    ; A=
// c
// packet A { u8 x, }
'\x00' ; leftPad// c
=	""" ++ [233]%N ++ runes_of_ascii "t" ++ [233]%N ++ runes_of_ascii """
    ;
    crc
//	t
// c
= u16
// `tick` ""quote"" 'q'
// @lengthOf(
;As
= 255 } /// triple")).
Eval vm_compute in ("<<<M1568>>>" ++ check (runes_of_ascii "packet
//	t
// trailing space 
_x {
// packet A { u8 x, }
// c
char[
3
    ] u8x @lengthOf(
u8x ) , @calculatedFrom(""" ++ [128512]%N ++ runes_of_ascii """ // @lengthOf(
)
i16	Foo
@lengthOf( @lengthOf(	string_
    )`doc`	, repeat	i64 metadata , @lengthOf( string_
) i8 // c
u  `line1
line2`	,
}
")).
Eval vm_compute in ("<<<M3894>>>" ++ check (runes_of_ascii "

  packet 
metadata {@lengthOf(i8i8

)
    match BodyLength as
Foo{ 3
:

    len
    , }

,

body @lengthOf(
    roots) 
, f32a
    x	,

}
	root
packet i8i8

{
    zchar[	10]
    i64_
    @calculatedFrom(  ""a\\""
)

    `
`	, } // packet A { u8 x, }
")).
Eval vm_compute in ("<<<M1623>>>" ++ check (runes_of_ascii "packet
//	t
// trailing space 
_x {
// packet A { u8 x, }
// c
char[
3
    ] u8x @lengthOf(
u8x ) , @calculatedFrom(""" ++ [128512]%N ++ runes_of_ascii """ // @lengthOf(
)
i16	Foo
@lengthOf(	string_
    )`doc`	, repeat	i64 metadata , @lengthOf( string_
) ) i8 // c
u  `line1
line2`	,
}
")).
Eval vm_compute in ("<<<M1504>>>" ++ check (runes_of_ascii "packet
//	t
// trailing space 
_x {
// packet A { u8 x, }
// c
3
char[
    ] u8x @lengthOf(
u8x ) , @calculatedFrom(""" ++ [128512]%N ++ runes_of_ascii """ // @lengthOf(
)
i16	Foo
@lengthOf(	string_
    )`doc`	, repeat	i64 metadata , @lengthOf( string_
) i8 // c
u  `line1
line2`	,
}
")).
Eval vm_compute in ("<<<M1645>>>" ++ check (runes_of_ascii "packet
//	t
// trailing space 
_x {
// packet A { u8 x, }
// c
char[
3
    ] u8x @lengthOf(
u8x ) , @calculatedFrom(""" ++ [128512]%N ++ runes_of_ascii """ // @lengthOf(
)
i16	Foo
@lengthOf(	string_
    )`doc`	, repeat	i64 metadata , @lengthOf( string_
) i8 // c
u  `line1
line2`	}
}
")).
Eval vm_compute in ("<<<M1547>>>" ++ check (runes_of_ascii "packet
//	t
// trailing space 
_x {
// packet A { u8 x, }
// c
char[
3
    ] u8x @lengthOf(
u8x ) , @calculatedFrom( // @lengthOf(
)
i16	Foo
@lengthOf(	string_
    )`doc`	, repeat	i64 metadata , @lengthOf( string_
) i8 // c
u  `line1
line2`	,
}
")).
Eval vm_compute in ("<<<M3893>>>" ++ check (runes_of_ascii "MetaData u {
}

options {
    // c
    // @lengthOf(@x
    float = int8;
    rootA = false;
    As = int16// `tick` ""quote"" 'q'
    repeatCount = int16;
    u8x = '\x00';
}

options {
    repeatCount = 0
    u128 = false;
    i64_ = '0';//	t
}")).
Eval vm_compute in ("<<<M3558>>>" ++ check (runes_of_ascii "// top
options // c0a
  // c0b
{ FixedStringPadFromLeft
    // c2
=
    // c3
true
    // c4
; // c5
}
    // c6
root packet // c8a
  // c8b
P // c9a
  // c9b
{ // c10
char[ // c11
4
    // c12
] z // c14
, // c15
} // c16a
  // c16b
")).
Eval vm_compute in ("<<<M260>>>" ++ check (runes_of_ascii "
packet
crc{ } options
{ len= '0' } packet uint8x {T  charz `u8 x,` ,
}
    MetaData  packetx //	t
{
// `tick` ""quote"" 'q'
// trailing space 
} options
    { Header
    =""CRC32""
;
    charz =
    string MetaDataX
=
true ;}
")).
Eval vm_compute in ("<<<M267>>>" ++ check (runes_of_ascii "root packet
i8i8
    { _x@lengthOf(chars
),
    char[	7]
packetx
    /// triple
    `say ""hi""`
,
    // c
    }root packet string_ {
    //
    repeat// `tick` ""quote"" 'q'
options1// c
`u8 x,`	,
    }
options {	}")).
Eval vm_compute in ("<<<M1727>>>" ++ check (runes_of_ascii "options { trueish = ""`tick`"" ; string_= """ ++ [233]%N ++ runes_of_ascii "t" ++ [233]%N ++ runes_of_ascii """
    // c
    } root
    packet packet body { stringy @calculatedFrom(
""a	b"" ) `line1
line2` , }
packet Logon {
    @leftPad(
    ' ' ) //	t
u16 string_ `u8 x,` ,
}
")).
Eval vm_compute in ("<<<M117>>>" ++ check (runes_of_ascii "root packet // packet A { u8 x, }
f32a
{ @lengthOf( int )char[]
    //x
    o, a1 @lengthOf( packetx
) // " ++ [27880; 37322]%N ++ runes_of_ascii "
`u8 x,`
/// triple
/// triple
,
// " ++ [128512]%N ++ runes_of_ascii " emoji
// @lengthOf(
@calculatedFrom( ""1""
)u8
Header ,
    }")).
Eval vm_compute in ("<<<M1729>>>" ++ check (runes_of_ascii "options { trueish = ""`tick`"" ; string_= """ ++ [233]%N ++ runes_of_ascii "t" ++ [233]%N ++ runes_of_ascii """
    // c
    } root
    options body { stringy @calculatedFrom(
""a	b"" ) `line1
line2` , }
packet Logon {
    @leftPad(
    ' ' ) //	t
u16 string_ `u8 x,` ,
}
")).
Eval vm_compute in ("<<<M1748>>>" ++ check (runes_of_ascii "options { trueish = ""`tick`"" ; string_= """ ++ [233]%N ++ runes_of_ascii "t" ++ [233]%N ++ runes_of_ascii """
    // c
    } root
    packet body { stringy ""a	b""
@calculatedFrom( ) `line1
line2` , }
packet Logon {
    @leftPad(
    ' ' ) //	t
u16 string_ `u8 x,` ,
}
")).
Eval vm_compute in ("<<<M1766>>>" ++ check (runes_of_ascii "options { trueish = ""`tick`"" ; string_= """ ++ [233]%N ++ runes_of_ascii "t" ++ [233]%N ++ runes_of_ascii """
    // c
    } root
    packet body { stringy @calculatedFrom(
""a	b"" ) `line1
line2`  }
packet Logon {
    @leftPad(
    ' ' ) //	t
u16 string_ `u8 x,` ,
}
")).
Eval vm_compute in ("<<<M625>>>" ++ check (runes_of_ascii "
root	packet i64_ { roots a1	, @calculatedFrom(""`tick`"" )
i64 //
float `it's` ,@calculatedFrom(
""\n"" ) @calculatedFrom( ""1"" ) @tag(
    10 )	f64
trueish
`" ++ [28040; 24687; 31867; 22411]%N ++ runes_of_ascii "`	, trueish @calculatedFrom( ""\n"" ) ,}")).
Eval vm_compute in ("<<<M3540>>>" ++ check (runes_of_ascii "// top
root // c0
packet
    // c1
P // c2a
  // c2b
{ // c3a
  // c3b
hdr { // c5a
  // c5b
u8 // c6a
  // c6b
a ,
    // c8
} // c9a
  // c9b
, u8 // c11a
  // c11b
x
    // c12
,
    // c13
} ")).
Eval vm_compute in ("<<<M1746>>>" ++ check (runes_of_ascii "options { trueish = ""`tick`"" ; string_= """ ++ [233]%N ++ runes_of_ascii "t" ++ [233]%N ++ runes_of_ascii """
    // c
    } root
    packet body { stringy 
""a	b"" ) `line1
line2` , }
packet Logon {
    @leftPad(
    ' ' ) //	t
u16 string_ `u8 x,` ,
}
")).
Eval vm_compute in ("<<<M372>>>" ++ check (runes_of_ascii "MetaData // " ++ [128512]%N ++ runes_of_ascii " emoji
chars { int64 metadata	,
char[00] stringy
//
// c
,
    f64 Foo ,} options {	} options {As = char[ 4294967296
]A =
""x y""options1=	float32 Logon =  '\x00' ;	}
")).
Eval vm_compute in ("<<<M4220>>>" ++ check (runes_of_ascii "packet A {
    u8 a,
}

packet B {
    u16 b,
}

root packet P {
    u8 K1,
    u8 K2,
    match K1 as M1 {
        1 : A,
    },
    match K2 as M2 {
        1 : B,
    },
}")).
Eval vm_compute in ("<<<M4583>>>" ++ check (runes_of_ascii "packet body
	{ @leftPad

    ( )	zchar[0
]

    metadata ,	chars
{ 
repeat  
      // " ++ [128512]%N ++ runes_of_ascii " emoji
u8 string_
	, 
string
options1
	@calculatedFrom(
""" ++ [28040; 24687]%N ++ runes_of_ascii """  )
,
} ,
}")).
Eval vm_compute in ("<<<M3860>>>" ++ check (runes_of_ascii "MetaData	tag

{
char[  3 

    // trailing space 
	]  u8x
	,packetx 
a1

,}// packet A { u8 x, }

  MetaData

    chars

    { i16
    uint8x`tab	here` ,	} ")).
Eval vm_compute in ("<<<M1835>>>" ++ check (runes_of_ascii "options { trueish = ""`tick`"" ; string_= """ ++ [233]%N ++ runes_of_ascii "t" ++ [233]%N ++ runes_of_ascii """
    // c
    } root
    packet body { stringy @calculatedFrom(
""a	b"" ) `line1
line2` , }
packet Logon {
    @lef")).
Eval vm_compute in ("<<<M1576>>>" ++ check (runes_of_ascii "packet
//	t
// trailing space 
_x {
// packet A { u8 x, }
// c
char[
3
    ] u8x @lengthOf(
u8x ) , @calculatedFrom(""" ++ [128512]%N ++ runes_of_ascii """ // @lengthOf(
)
i16	Foo
@lengthOf(")).
Eval vm_compute in ("<<<M4094>>>" ++ check (runes_of_ascii "// c
packet x {
    @lengthOf(metadata)
    repeat lengthOf lengthOf,
    a1 {
        trueish,// c
        repeat MetaDataX,
    },
    zchar[42] rootA,
}")).
Eval vm_compute in ("<<<M2400>>>" ++ check (runes_of_ascii "// c
packet x { @lengthOf( metadata , repeat lengthOf
,a1{
trueish	,// c
repeat//	t
MetaDataX , } , zchar[
    42	] rootA // `tick` ""quote"" 'q'
,
    }
")).
Eval vm_compute in ("<<<M920>>>" ++ check (runes_of_ascii "packet
/// triple
/// triple
As
{ }
MetaData charz{
i64 falsey ,A msg_type, char[ 3 ]
trueish `say ""hi""` ,float32 calculatedFrom
    ,
string i8i8, }
")).
Eval vm_compute in ("<<<M673>>>" ++ check (runes_of_ascii "packet
A //
{
@tag(255
) @lengthOf(
// packet A { u8 x, }
//
x
    )  u `crlf
line`,
repeat
body { zchar[ 00
    //	t
    ]  crc`a\`
    , }// c
, }")).
Eval vm_compute in ("<<<M2147>>>" ++ check (runes_of_ascii "options{
_x
= true
} options
{ o	= /// triple
false
    ; chars
= ( } root packet	Pad
/// triple
// packet A { u8 x, }
{	chars
    // a // b
    ,}")).
Eval vm_compute in ("<<<M2134>>>" ++ check (runes_of_ascii "options{
_x
= true
} options
{ o	= /// triple
false
    ; 
= ""\n"" } root packet	Pad
/// triple
// packet A { u8 x, }
{	chars
    // a // b
    ,}")).
Eval vm_compute in ("<<<M3688>>>" ++ check (runes_of_ascii "packet A {
    match k as n {
        [
            007, 66, 9, ""a"", ""bb"",
            ""d"", ""e"", ""g"", ""h""
        ] : B,
        2 : C,
    },
}")).
Eval vm_compute in ("<<<M176>>>" ++ check (runes_of_ascii "
packet Foo {	} packet MetaDataX
    {char[]	Logon
// trailing space 
//
,  }root packet MetaDataX { match Z9_ as zchar{
7 : zchar , } , }")).
Eval vm_compute in ("<<<M3677>>>" ++ check (runes_of_ascii "packet

    A
    {	Inner
    {match

k

as
    n{  [
	1

    ,22	,
    007
,

    4 ]
    :
    B

    ,

}

    ,
} , 
}")).
Eval vm_compute in ("<<<M4561>>>" ++ check (runes_of_ascii "
packet
    metadata
{
    Logon

{ A`" ++ [28040; 24687; 31867; 22411]%N ++ runes_of_ascii "`	,

tag o , }

    ,
    zchar

len  `// not a comment`

    , 
        // c
	}
")).
Eval vm_compute in ("<<<M1108>>>" ++ check (runes_of_ascii "options{
i8i8 = '0';
    Header = ""packet"" ;
float  ='0'
// c
// a // b
; MetaDataX=int32	;
    i64_ = zchar[ 255
    ]
; }")).
Eval vm_compute in ("<<<M3548>>>" ++ check (runes_of_ascii "packet B {
    u8 a,
}
root packet P {
    u8 K,
    match K as Body {
        1 : B,
    },
    u16 L @lengthOf(Body),
}
")).
Eval vm_compute in ("<<<M3333>>>" ++ check (runes_of_ascii "root packet matchKey { zchar[ 3 ] pack @calculatedFrom( ""a	b"" )
// c
`doc` , } options { } MetaData A { int8 msg_type , }")).
Eval vm_compute in ("<<<M3977>>>" ++ check (runes_of_ascii "
packet
MetaDataX	{
repeat tag
    i64_ 
, @calculatedFrom(
""packet""
	) 
// trailing space 
	Packet `tab	here`	, }

")).
Eval vm_compute in ("<<<M1312>>>" ++ check (runes_of_ascii "options{ charz =
    0 ; rootA = false
;
// @lengthOf(
// packet A { u8 x, }
As
//	t
//x
=
    true ; Pad = '\x00' }
")).
Eval vm_compute in ("<<<M1457>>>" ++ check (runes_of_ascii "
packet
    falsey { Header@calculatedFrom(""packet""  ) , char[
    0123456789 ] packetx
     } // `tick` ""quote"" 'q'")).
Eval vm_compute in ("<<<M1415>>>" ++ check (runes_of_ascii "
packet
    falsey { }@calculatedFrom(""packet""  ) , char[
    0123456789 ] packetx
    , } // `tick` ""quote"" 'q'")).
Eval vm_compute in ("<<<M1468>>>" ++ check (runes_of_ascii "
packet
    falsey { Header@calculatedFrom(""packet""  ) , char[
    0123456789 ] packetx
    , } // `tick` ""quo")).
Eval vm_compute in ("<<<M2964>>>" ++ check (runes_of_ascii "packet A {
  match k as n {
    [""a"", ""bb"", ""c c"", ""d"", ""e"", ""f"", ""g"", ""h"", ""i"", ""j""] : B,
    2 : C
  },
}")).
Eval vm_compute in ("<<<M107>>>" ++ check (runes_of_ascii "
packet a1{ match /// triple
T as pack
{007 : Header ,} , calculatedFrom	, } MetaData
options1
    { }")).
Eval vm_compute in ("<<<M1417>>>" ++ check (runes_of_ascii "
packet
    falsey { Header""packet""  ) , char[
    0123456789 ] packetx
    , } // `tick` ""quote"" 'q'")).
Eval vm_compute in ("<<<M2983>>>" ++ check (runes_of_ascii "packet A {
  match k as n {
    [1, 22, ""c c"", 4, 5, ""f"", 7, 8, ""i"", 10, 11] : B,
    2 : C
  },
}")).
Eval vm_compute in ("<<<M4060>>>" ++ check (runes_of_ascii "
packet

metadata {
@lengthOf(

Header
    )// " ++ [27880; 37322]%N ++ runes_of_ascii "
	float32

options1

    `line1
line2`, }
")).
Eval vm_compute in ("<<<M2247>>>" ++ check (runes_of_ascii "options
{ } options { BodyLength= u16 Header Header= f64 ; u128 =
    true
    ; } // a // b")).
Eval vm_compute in ("<<<M4073>>>" ++ check (runes_of_ascii "
packet  Inner {  u8 a  ,  }
root
packet 
P {

repeat
    Inner
	items

    , 
u8 x  , }")).
Eval vm_compute in ("<<<M3269>>>" ++ check (runes_of_ascii "MetaData // c
float { float64 charz `
` , } root packet chars { @rightPad ( '0' ) Foo , }")).
Eval vm_compute in ("<<<M3301>>>" ++ check (runes_of_ascii "MetaData float { float64 charz `
` , } root packet chars { @rightPad ( '0' ) Foo // c
, }")).
Eval vm_compute in ("<<<M3512>>>" ++ check (runes_of_ascii "packet chars { } packet MetaDataX { @tag( 42 ) i16 string_ , repeat
// c
x `say ""hi""` , }")).
Eval vm_compute in ("<<<M370>>>" ++ check (runes_of_ascii "MetaData falsey {
//x
//	t
char[ /// triple
65535]Packet `{ , }` , // @lengthOf(
} //x")).
Eval vm_compute in ("<<<M535>>>" ++ check (runes_of_ascii "packet chars
    //
    { i8 body @lengthOf( crc), repeat char[] zchar , body
`
` , }")).
Eval vm_compute in ("<<<M3219>>>" ++ check (runes_of_ascii "packet metadata { Logon // c
{ A `" ++ [28040; 24687; 31867; 22411]%N ++ runes_of_ascii "` , tag o , } , zchar len `// not a comment` , }")).
Eval vm_compute in ("<<<M3747>>>" ++ check (runes_of_ascii "options {
    A = 42;
    body = false;
    options1 = 0123456789;
    As = char[7];
}")).
Eval vm_compute in ("<<<M3439>>>" ++ check (runes_of_ascii "packet o { repeat Logon uint8x // c
, } options { asx = zchar[ 3 ] stringy = '\x00' }")).
Eval vm_compute in ("<<<M2778>>>" ++ check (runes_of_ascii "char[] @calculatedFrom( int32 string match false MetaData @tag( i16 } repeat : uint8")).
Eval vm_compute in ("<<<M381>>>" ++ check (runes_of_ascii "/// triple
MetaData zchar // " ++ [128512]%N ++ runes_of_ascii " emoji
{ int32 pack
// trailing space 
//	t
,
    }
")).
Eval vm_compute in ("<<<M3416>>>" ++ check (runes_of_ascii "MetaData body { i64 pack `it's` , } packet stringy { int16 // c
calculatedFrom , }")).
Eval vm_compute in ("<<<M4065>>>" ++ check (runes_of_ascii "  root  packet
	P
	{ repeat

    string
ss 
,
    repeat
	u16  ns

    , }
")).
Eval vm_compute in ("<<<M2904>>>" ++ check (runes_of_ascii "packet A {
  match k as n {
    [""a"", 22, ""c c"", 4, ""e""] : B
    2 : C
  },
}")).
Eval vm_compute in ("<<<M4328>>>" ++ check (runes_of_ascii "options

    {stringy = 7 
; crc
= ""x y"";}
	MetaData

f32a {

    }

")).
Eval vm_compute in ("<<<M760>>>" ++ check (runes_of_ascii "packet	i64_ { }options{
    } options { MetaDataX = ""CRC32""} // a // b")).
Eval vm_compute in ("<<<M2794>>>" ++ check (runes_of_ascii "@lengthOf( options string u16 as ] i16 ( uint32 , options 7 [ uint16")).
Eval vm_compute in ("<<<M4313>>>" ++ check (runes_of_ascii "packet A {
    match k as n {
        1 : B,
        // d
    },
}")).
Eval vm_compute in ("<<<M1909>>>" ++ check (runes_of_ascii "MetaData
    u { }  options {
// c
// @lengthOf(
float = int8 ;")).
Eval vm_compute in ("<<<M3023>>>" ++ check (runes_of_ascii "MetaData M {
    u8 x `a
    b
  c`,
    T t `a
    b
  c`,
}")).
Eval vm_compute in ("<<<M2765>>>" ++ check (runes_of_ascii "@tag( zchar[ @tag( false @leftPad options @tag( repeat f32")).
Eval vm_compute in ("<<<M4205>>>" ++ check (runes_of_ascii "root 
  // c
packet
    u128 
{

    chars 
`it's`, }

")).
Eval vm_compute in ("<<<M1030>>>" ++ check (runes_of_ascii "root packet
BodyLength{ rootA
//x
// " ++ [128512]%N ++ runes_of_ascii " emoji
roots , }")).
Eval vm_compute in ("<<<M995>>>" ++ check (runes_of_ascii "options
{ Header
    // c
    =""a	b"" ;  } // a // b")).
Eval vm_compute in ("<<<M3527>>>" ++ check (runes_of_ascii "root packet P {
    repeat char cs,
    u8 x,
}
")).
Eval vm_compute in ("<<<M4564>>>" ++ check (runes_of_ascii "MetaData charz {
    calculatedFrom leftPad,
}")).
Eval vm_compute in ("<<<M168>>>" ++ check (runes_of_ascii "root packet leftPad
    { f32a	tag ,
    }
")).
Eval vm_compute in ("<<<M1838>>>" ++ check (runes_of_ascii "options { trueish = ""`tick`"" ; string_= """)).
Eval vm_compute in ("<<<M3200>>>" ++ check (runes_of_ascii "root packet u128 { chars `it's`
// c
, }")).
Eval vm_compute in ("<<<M3979>>>" ++ check (runes_of_ascii "
packet

    A 
{ u8 x
    `x
`, }

")).
Eval vm_compute in ("<<<M4530>>>" ++ check (runes_of_ascii "MetaData chars {
    len metadata,
}")).
Eval vm_compute in ("<<<M2128>>>" ++ check (runes_of_ascii "options{
_x
= true
} options
{ o	=")).
Eval vm_compute in ("<<<M2830>>>" ++ check (runes_of_ascii "ytSP1+_VA;iR~$29D uo*BDXeR,dd`:e4")).
Eval vm_compute in ("<<<M1218>>>" ++ check (runes_of_ascii "packet  options1
    { }
// " ++ [27880; 37322]%N ++ runes_of_ascii "
")).
Eval vm_compute in ("<<<M3102>>>" ++ check (runes_of_ascii "packet A {
 u8 x `d" ++ [8233]%N ++ runes_of_ascii "`, // c" ++ [8233]%N ++ runes_of_ascii "
}")).
Eval vm_compute in ("<<<M2755>>>" ++ check (runes_of_ascii "6p~" ++ [65533]%N ++ runes_of_ascii "d" ++ [65533; 65533]%N ++ runes_of_ascii "!&" ++ [65533; 65533]%N ++ runes_of_ascii "R" ++ [65533]%N ++ runes_of_ascii "u" ++ [65533]%N ++ runes_of_ascii "JR+a" ++ [65533; 31]%N ++ runes_of_ascii "}" ++ [65533; 65533; 23; 0; 65533; 65533]%N)).
Eval vm_compute in ("<<<M1184>>>" ++ check (runes_of_ascii "
MetaData matchKey
    {	}")).
Eval vm_compute in ("<<<M3256>>>" ++ check (runes_of_ascii "root packet // c
pack { }")).
Eval vm_compute in ("<<<M2580>>>" ++ check (runes_of_ascii "packet A { char[ 3 y, }")).
Eval vm_compute in ("<<<M3153>>>" ++ check (runes_of_ascii "// a// bpacket A {}")).
Eval vm_compute in ("<<<M941>>>" ++ check (runes_of_ascii "packet packetx {
}")).
Eval vm_compute in ("<<<M3953>>>" ++ check (runes_of_ascii "packet
	float {
	}
")).
Eval vm_compute in ("<<<M3101>>>" ++ check (runes_of_ascii "// c" ++ [8233]%N ++ runes_of_ascii "
packet A {
}")).
Eval vm_compute in ("<<<M2647>>>" ++ check (runes_of_ascii "MetaData M { x, }")).
Eval vm_compute in ("<<<M2493>>>" ++ check (runes_of_ascii "@calculatedFrom(")).
Eval vm_compute in ("<<<M183>>>" ++ check (runes_of_ascii "packet T
{}
")).
Eval vm_compute in ("<<<M779>>>" ++ check (runes_of_ascii "options { }")).
Eval vm_compute in ("<<<M4048>>>" ++ check (runes_of_ascii "// a
// b")).
Eval vm_compute in ("<<<M2504>>>" ++ check (runes_of_ascii "// a
b")).
Eval vm_compute in ("<<<M2427>>>" ++ check (runes_of_ascii "char[")).
Eval vm_compute in ("<<<M3114>>>" ++ check (runes_of_ascii "// c" ++ [11]%N)).
Eval vm_compute in ("<<<M2693>>>" ++ check (runes_of_ascii "char")).
Eval vm_compute in ("<<<M2551>>>" ++ check (runes_of_ascii "a" ++ [160]%N ++ runes_of_ascii "b")).
Eval vm_compute in ("<<<M2826>>>" ++ check (runes_of_ascii "Yn")).
