From FP Require Import Lexer Parser ShowPT Digest Formatter.
From Coq Require Import String List NArith.
Import ListNotations.
Open Scope string_scope.
Set Printing Width 100000000.
Set Printing Depth 100000000.
Definition show_fres (r : fres) : string :=
  match r with
  | FOk s => "OK:" ++ sh_escaped s ""
  | FErr s => "ERR:" ++ sh_escaped s ""
  | FPanic p => "PANIC:" ++ p
  end.
Definition check (rs : list rune) : string := digest (show_fres (format_res rs)).
Definition full (rs : list rune) : string := show_fres (format_res rs).
Eval vm_compute in ("<<<M1941>>>" ++ check (runes_of_ascii "options {
    lengthOf = ""CRC32"";
    stringy = uint16;
    u8x = float32;
    x_y_z = zchar[007]
    repeatCount = ""a\""b"";
    // c
    //	t
}

MetaData trueish {
    As roots `" ++ [28040; 24687; 31867; 22411]%N ++ runes_of_ascii "`,
    char[00] Packet,
}

root packet roots {
    int8 Logon,
    body @lengthOf(lengthOf) `
        `,
    @rightPad('0')
    Packet @calculatedFrom(""x y"") `a\`,
    @lengthOf(T)
    match matchKey as _x {
        """ ++ [128512]%N ++ runes_of_ascii """ : stringy,
        4294967296 : x_y_z,
        ""\n"" : leftPad,
        [42, 42, ""it's"", ""\n"", ""// no comment""] : asx,
    },
    char[10] BodyLength,
    @leftPad('0')
    char[] Z9_ `crlf
        line`,
    string falsey,
    int16 asx @calculatedFrom(""x y""),
    u128 Z9_ `it's`,
    @rightPad('0')
    Packet {
        // " ++ [128512]%N ++ runes_of_ascii " emoji
        int64 float,
        repeat leftPad {
            repeat Z9_ {
                match T as lengthOf {
                    ""`tick`"" : msg_type,
                    ""1"" : x_y_z,
                    0 : chars,
                },
            },
            repeat trueish {
                zchar[255] crc `doc`,
                char Logon @lengthOf(_x),
                //
                a1 `doc`,
                //x
                //	t
            },
            match msg_type as zchar {
                ""it's"" : body,
                """ ++ [28040; 24687]%N ++ runes_of_ascii """ : u,
            },
        },
    },
}

packet As {
    @leftPad('\x00')
    @tag(255)
    @lengthOf(o)
    zchar[42] string_ @calculatedFrom(""a\""b"") `" ++ [28040; 24687; 31867; 22411]%N ++ runes_of_ascii "`,
    char[] repeatCount @lengthOf(calculatedFrom),
    metadata @calculatedFrom(""abc"") `two words`,
    // `tick` ""quote"" 'q'
    // c
    @lengthOf(matchKey)
    match packetx as falsey {
        007 : A,
        ""1"" : packetx,
        //
        7 : charz,
        [65535] : stringy,
        65535 : a1,
        [""a	b"", 1] : Logon,
        // a // b
        // " ++ [128512]%N ++ runes_of_ascii " emoji
    },
}")).
Eval vm_compute in ("<<<M1544>>>" ++ check (runes_of_ascii "// top
options // c0
{ // c1a
  // c1b
StringPrefixLenType
    // c2
= // c3a
  // c3b
u8 // c4a
  // c4b
; ArrayPrefixLenType // c6
= // c7
u32 // c8
;
    // c9
} packet Quote // c12
{ // c13
u32 // c14a
  // c14b
Ref , // c16a
  // c16b
InNote74 { // c18
u8 pad0 // c20a
  // c20b
, // c21
}
    // c22
, } packet
    // c25
Ack { repeat string
    // c29
OrderId // c30
, // c31
} // c32
packet // c33a
  // c33b
Logout // c34
{
    // c35
zchar[ // c36a
  // c36b
7
    // c37
]
    // c38
venue , // c40a
  // c40b
char[ // c41
12 // c42
] // c43a
  // c43b
Px ,
    // c45
string // c46
count // c47a
  // c47b
,
    // c48
char[] // c49
Tail // c50a
  // c50b
, // c51
char[] Qty // c53
, // c54
Quote // c55
, // c56
} // c57
root // c58a
  // c58b
packet Trade
    // c60
{ // c61a
  // c61b
zchar[
    // c62
2 // c63a
  // c63b
] // c64a
  // c64b
price // c65
,
    // c66
u32
    // c67
x , u32 // c70
lastPx
    // c71
@lengthOf( // c72
Body // c73a
  // c73b
)
    // c74
, // c75a
  // c75b
match // c76a
  // c76b
x as
    // c78
Body // c79
{ // c80
148 : // c82
Ack // c83a
  // c83b
, // c84
171 // c85a
  // c85b
:
    // c86
Quote // c87
, 15
    // c89
:
    // c90
Logout // c91a
  // c91b
,
    // c92
}
    // c93
, // c94
}
    // c95
")).
Eval vm_compute in ("<<<M1657>>>" ++ check (runes_of_ascii "

  /// triple
  MetaData
	roots 
{ 
string

Z9_
    `say ""hi""` 
    //
	  , 
o tag
, 
char[

4294967296	// " ++ [128512]%N ++ runes_of_ascii " emoji
  	] body
	`crlf
line` ,

    _x

lengthOf
`tab	here`  ,	}
options {
repeatCount

    =	""x y""

;T =""" ++ [28040; 24687]%N ++ runes_of_ascii """}
/// triple
		packet  int
{ @calculatedFrom(

""CRC32"")

    int64 f32a ,	roots
	@calculatedFrom(
	""it's""

    ) `` , 
@calculatedFrom( ""a\\""  ) @tag(  007
)char[ 255	//	t
    ] crc  @lengthOf(

    packetx  )

,

    match Pad

    as

    string_{
	[""\" ++ [233]%N ++ runes_of_ascii """	, 3
// " ++ [27880; 37322]%N ++ runes_of_ascii "
    	]:
lengthOf
,  [ 42 ] :

// packet A { u8 x, }
	  // packet A { u8 x, }
  body ,	7

    :
	i8i8,
	0123456789  :
    options1 
,//x
[
00]:  Z9_  ,  }// @lengthOf(
    	,float, // " ++ [27880; 37322]%N ++ runes_of_ascii "
		} MetaData zchar { 
zchar[
    3
    ]options1`line1
line2`,
	}
packet 
asx{
zchar[
42// " ++ [128512]%N ++ runes_of_ascii " emoji
    	]
    falsey

,

    @calculatedFrom(

""1""

)
repeat

string 
As`" ++ [233]%N ++ runes_of_ascii "`

    ,char[]
    trueish, 
int32 
Header

    ,
    repeat
stringy
`crlf
line` ,
	string

x_y_z	,f64

T 
    //x
// `tick` ""quote"" 'q'
,
uint8x
@lengthOf(	charz	) 
`a\`  , 
}

")).
Eval vm_compute in ("<<<M1916>>>" ++ check (runes_of_ascii "

  options { LittleEndian=false; 
FixedStringPadFromLeft= false
    ;	FixedStringPadChar= ' ' ;

    } packet	Fill {	uint16

    Qty

    ,uint64

clOrdID,

repeat
	i64 Flags
    , 
}	packet Ack{zchar[

    7]

    clOrdID ,
	u64 
lastPx
,char[] Note ,

repeat
Fill
	,

    int32
	count,	}

    packet
    Quote

    {  u8
	venue
	,
	InRef40 {	char[]
    Qty , }
, 
zchar[
	5 
]	Flags
, @rightPad 
(
	'\x00') char[
12  ]  msgKind , 
}  packet

    Logout
	{
    InSym79 { int32
Qty
,

    Fill ,char[
3	] x,
    repeat
InNote29 {

    i16
price
	,
    Ack ,

    f64  x,
    zchar[	8

] count

,

}
    ,

    } 
,
    }
root
    packet  Logon {	zchar[1 ]

sym	, u32  count	,  u16  tag7 @lengthOf(

    Body)

,	match

count  as Body 
{ 
[  122
	, 152

    ]

    : 
Ack,
	118
    : Logout, 61 :Quote,	161  :

Fill ,}
	,
    u32 Acct

    @calculatedFrom( ""CR\
C32""	) ,}
")).
Eval vm_compute in ("<<<M343>>>" ++ check (runes_of_ascii "packet
Pad{
    } options { _x
= false
/// triple
// trailing space 
;} MetaData	repeatCount{char[ 10 ]  As `it's`
, T metadata `say ""hi""` , u16
matchKey ,  }packet u128{f32
    As@calculatedFrom( ""packet"") `a\` , repeat
// packet A { u8 x, }
// " ++ [128512]%N ++ runes_of_ascii " emoji
char[ 7 ]
// packet A { u8 x, }
// `tick` ""quote"" 'q'
T `say ""hi""`,
    @lengthOf(
    // c
    rootA )u64 //
trueish `{ , }` , repeat char[
3 ] MetaDataX ,
    repeat float64  i64_ ,i16
    charz
    ,u8 trueish @lengthOf(
    int
    )`u8 x,`
    ,
    @leftPad ( '0' ) match
Header
as
f32a { [  007
]
:
i8i8
, ""a	b""	://x
As ,
[ ""\n"" ]  :	zchar ,
    007:
a1 ,	0123456789 : falsey
, } , repeat float64 stringy	`a\`, } packet
    MetaDataX
{ roots
    // @lengthOf(
    leftPad `a\`, }")).
Eval vm_compute in ("<<<M1911>>>" ++ check (runes_of_ascii "options {
    crc = uint8
}

packet len {
    uint8x @calculatedFrom(""x y""),
    @lengthOf(rootA)
    @lengthOf(body)
    @calculatedFrom(""x y"")
    Packet @calculatedFrom(""\n"") `
        `,
    Packet,
    repeat i8 Z9_,
    @tag(255)
    falsey `
        `,
    i64 int `line1
        line2`,
    @calculatedFrom(""\n"")
    @leftPad()
    @calculatedFrom(""abc"")
    // packet A { u8 x, }
    BodyLength,
    uint8 u,
    @calculatedFrom(""a\""b"")
    @lengthOf(metadata)
    @rightPad(' ')
    // packet A { u8 x, }
    char[10] f32a,
}

packet repeatCount {
}

options {
    string_ = i32;
    o = ""a	b"";
    i8i8 = ""a\""b"";
    uint8x = uint16;
}")).
Eval vm_compute in ("<<<M336>>>" ++ check (runes_of_ascii "root
packet  lengthOf { @lengthOf(
    i64_ ) string repeatCount
    @calculatedFrom( """ ++ [28040; 24687]%N ++ runes_of_ascii """
)
    `doc` ,repeat
char[]	f32a `two words` //x
, @lengthOf( //x
i64_) char[]a1 ,//
match float as	BodyLength	{
"""" // " ++ [27880; 37322]%N ++ runes_of_ascii "
:tag , """ ++ [28040; 24687]%N ++ runes_of_ascii """ : roots
, ""// no comment""
    :
A ,
} , metadata , repeat // `tick` ""quote"" 'q'
char[
0123456789 ]
a1 `a\`, @leftPad (
    '\x00'
    )
    zchar lengthOf ,
    repeat
    // a // b
    char[] calculatedFrom
    // @lengthOf(
    , @rightPad( '\x00' ) @rightPad (
    '\x00' // " ++ [27880; 37322]%N ++ runes_of_ascii "
)
    i8
    BodyLength ,	}
options{ } options { }
")).
Eval vm_compute in ("<<<M155>>>" ++ check (runes_of_ascii "packet T {
    @lengthOf( MetaDataX )match
    Packet as a1 { [ ""1""] : zchar ""{,}""
    : _x ,} ,// @lengthOf(
char[ 007 ]// a // b
u128@lengthOf(
zchar)
// a // b
// packet A { u8 x, }
,string_ , @leftPad ( ' ')match MetaDataX as u128 { [ ""it's"" ,7 , 65535
, 65535]	:  chars,""" ++ [28040; 24687]%N ++ runes_of_ascii """// c
: u , 42 : zchar , }
    , } options // `tick` ""quote"" 'q'
{
    matchKey =
""a\""b""
    }	MetaData
    options1 { i16
len , char[ 7
] // packet A { u8 x, }
crc ,u16 asx `say ""hi""` ,i64 zchar, } // " ++ [27880; 37322]%N)).
Eval vm_compute in ("<<<M180>>>" ++ check (runes_of_ascii "  packet repeatCount {
@rightPad (' ' )
char[42]	Header @calculatedFrom( ""a\\"" )
    ,
// packet A { u8 x, }
// packet A { u8 x, }
@tag( 10 ) i64 options1@calculatedFrom( ""x y"" )
,  Packet{ i64 lengthOf@calculatedFrom( ""abc""
)
    // " ++ [128512]%N ++ runes_of_ascii " emoji
    , repeat zchar[
00 ] i64_`u8 x,`
    , } ,
    string tag , string
    o `" ++ [233]%N ++ runes_of_ascii "`
/// triple
// " ++ [128512]%N ++ runes_of_ascii " emoji
, repeat char[  42] a1 `doc`,
string leftPad @calculatedFrom(""a\\"" ), } 	 ")).
Eval vm_compute in ("<<<M1626>>>" ++ check (runes_of_ascii "
MetaData _x 
{
    As
	f32a
    `doc`// " ++ [128512]%N ++ runes_of_ascii " emoji
  ,

    }
	packet	// @lengthOf(

  x {
	zchar[
    255 ] 
calculatedFrom

    ,
    string_
    @calculatedFrom(""a	b""

    )	,@calculatedFrom(""" ++ [128512]%N ++ runes_of_ascii """ )

    @tag(
4294967296)

    @calculatedFrom( 
""a	b""
    ) char[

    0
] i64_  `" ++ [28040; 24687; 31867; 22411]%N ++ runes_of_ascii "`
	, @leftPad
    (  ' ' )
repeat 

    // c
  // c
    MetaDataX
,	}

")).
Eval vm_compute in ("<<<M200>>>" ++ check (runes_of_ascii "options
{ }	MetaData
Foo {
char[
    0 ]  Logon `u8 x,` ,// packet A { u8 x, }
zchar[ 255 ]
    calculatedFrom `
` ,
    zchar[ 00 ]o
    `u8 x,` ,char[255 ]
Header `a\`// `tick` ""quote"" 'q'
, // a // b
Pad
    Pad ,
    } packet i8i8 {
    u32
    // " ++ [128512]%N ++ runes_of_ascii " emoji
    float,// @lengthOf(
As @calculatedFrom( ""// no comment"" ) , }")).
Eval vm_compute in ("<<<M2126>>>" ++ check (runes_of_ascii "packet zchar {
    @rightPad()
    uint8 a1 `line1
        line2`,
    @calculatedFrom(""x y"")
    match pack as matchKey {
        /// triple
        """ ++ [28040; 24687]%N ++ runes_of_ascii """ : u128,
        3 : i64_,
        ""a\""b"" : As,
    },
    // " ++ [27880; 37322]%N ++ runes_of_ascii "
    // @lengthOf(
    u8 Packet @calculatedFrom(""// no comment""),
}
//")).
Eval vm_compute in ("<<<M531>>>" ++ check (runes_of_ascii "root packet tag { }  packet MetaDataX{char[007	float64
// c
/// triple
asx  @calculatedFrom( ""a\""b""
) `say ""hi""`// " ++ [27880; 37322]%N ++ runes_of_ascii "
,  @tag(4294967296 )
    char[1//x
] packetx @calculatedFrom(""a\""b""
    ) ,
// " ++ [128512]%N ++ runes_of_ascii " emoji
// a // b
@calculatedFrom(""" ++ [233]%N ++ runes_of_ascii "t" ++ [233]%N ++ runes_of_ascii """  ) repeat pack // " ++ [27880; 37322]%N ++ runes_of_ascii "
,
    } // c")).
Eval vm_compute in ("<<<M549>>>" ++ check (runes_of_ascii "root packet tag { }  packet MetaDataX{char[007	]
// c
/// triple
asx  @calculatedFrom( ""a\""b""
) ) `say ""hi""`// " ++ [27880; 37322]%N ++ runes_of_ascii "
,  @tag(4294967296 )
    char[1//x
] packetx @calculatedFrom(""a\""b""
    ) ,
// " ++ [128512]%N ++ runes_of_ascii " emoji
// a // b
@calculatedFrom(""" ++ [233]%N ++ runes_of_ascii "t" ++ [233]%N ++ runes_of_ascii """  ) repeat pack // " ++ [27880; 37322]%N ++ runes_of_ascii "
,
    } // c")).
Eval vm_compute in ("<<<M666>>>" ++ check (runes_of_ascii "root packet tag { }  packet MetaDataX{char[007	]
// c
/// triple
asx  @calculatedFrom\( ""a\""b""
) `say ""hi""`// " ++ [27880; 37322]%N ++ runes_of_ascii "
,  @tag(4294967296 )
    char[1//x
] packetx @calculatedFrom(""a\""b""
    ) ,
// " ++ [128512]%N ++ runes_of_ascii " emoji
// a // b
@calculatedFrom(""" ++ [233]%N ++ runes_of_ascii "t" ++ [233]%N ++ runes_of_ascii """  ) repeat pack // " ++ [27880; 37322]%N ++ runes_of_ascii "
,
    } // c")).
Eval vm_compute in ("<<<M620>>>" ++ check (runes_of_ascii "root packet tag { }  packet MetaDataX{char[007	]
// c
/// triple
asx  @calculatedFrom( ""a\""b""
) `say ""hi""`// " ++ [27880; 37322]%N ++ runes_of_ascii "
,  @tag(4294967296 )
    char[1//x
] packetx @calculatedFrom(""a\""b""
    ) ,
// " ++ [128512]%N ++ runes_of_ascii " emoji
// a // b
""" ++ [233]%N ++ runes_of_ascii "t" ++ [233]%N ++ runes_of_ascii """@calculatedFrom(  ) repeat pack // " ++ [27880; 37322]%N ++ runes_of_ascii "
,
    } // c")).
Eval vm_compute in ("<<<M482>>>" ++ check (runes_of_ascii "( packet tag { }  packet MetaDataX{char[007	]
// c
/// triple
asx  @calculatedFrom( ""a\""b""
) `say ""hi""`// " ++ [27880; 37322]%N ++ runes_of_ascii "
,  @tag(4294967296 )
    char[1//x
] packetx @calculatedFrom(""a\""b""
    ) ,
// " ++ [128512]%N ++ runes_of_ascii " emoji
// a // b
@calculatedFrom(""" ++ [233]%N ++ runes_of_ascii "t" ++ [233]%N ++ runes_of_ascii """  ) repeat pack // " ++ [27880; 37322]%N ++ runes_of_ascii "
,
    } // c")).
Eval vm_compute in ("<<<M621>>>" ++ check (runes_of_ascii "root packet tag { }  packet MetaDataX{char[007	]
// c
/// triple
asx  @calculatedFrom( ""a\""b""
) `say ""hi""`// " ++ [27880; 37322]%N ++ runes_of_ascii "
,  @tag(4294967296 )
    char[1//x
] packetx @calculatedFrom(""a\""b""
    ) ,
// " ++ [128512]%N ++ runes_of_ascii " emoji
// a // b
packet""" ++ [233]%N ++ runes_of_ascii "t" ++ [233]%N ++ runes_of_ascii """  ) repeat pack // " ++ [27880; 37322]%N ++ runes_of_ascii "
,
    } // c")).
Eval vm_compute in ("<<<M3>>>" ++ check (runes_of_ascii "
options	{
} MetaData pack {string T ,
    msg_type
    // a // b
    stringy `" ++ [233]%N ++ runes_of_ascii "`
, }
    // " ++ [128512]%N ++ runes_of_ascii " emoji
    packet a1 {
// " ++ [128512]%N ++ runes_of_ascii " emoji
// packet A { u8 x, }
repeat i32 x , i16 msg_type @calculatedFrom( ""it's""
    )`two words` , } // " ++ [27880; 37322]%N)).
Eval vm_compute in ("<<<M1985>>>" ++ check (runes_of_ascii "packet Logon {
    string user,
}

root packet Frame {
    u8 K,
    match K as Body {
        1 : Logon,
        2 : Logout,
    },
    Tail,
}

packet Logout {
    u16 reason,
}

packet Tail {
    u32 crc,
}")).
Eval vm_compute in ("<<<M2105>>>" ++ check (runes_of_ascii "packet A {
    Inner {
        match k as n {
            [
                1, 22, 007, 4, 5,
                66, 7, 8, 9, 10,
                11, 12
            ] : B,
        },
    },
}")).
Eval vm_compute in ("<<<M386>>>" ++ check (runes_of_ascii "packet packet
    // `tick` ""quote"" 'q'
    crc
// packet A { u8 x, }
//	t
{
u32 a1 ,
    // trailing space 
    roots
charz //
`two words`,	}
    MetaData int {
} /// triple")).
Eval vm_compute in ("<<<M435>>>" ++ check (runes_of_ascii "packet
    // `tick` ""quote"" 'q'
    crc
// packet A { u8 x, }
//	t
{
u32 a1 ,
    // trailing space 
    roots
charz //
`two words`,	} }
    MetaData int {
} /// triple")).
Eval vm_compute in ("<<<M396>>>" ++ check (runes_of_ascii "packet
    // `tick` ""quote"" 'q'
    crc
// packet A { u8 x, }
//	t
u32
{ a1 ,
    // trailing space 
    roots
charz //
`two words`,	}
    MetaData int {
} /// triple")).
Eval vm_compute in ("<<<M429>>>" ++ check (runes_of_ascii "packet
    // `tick` ""quote"" 'q'
    crc
// packet A { u8 x, }
//	t
{
u32 a1 ,
    // trailing space 
    roots
charz //
`two words`	}
    MetaData int {
} /// triple")).
Eval vm_compute in ("<<<M414>>>" ++ check (runes_of_ascii "packet
    // `tick` ""quote"" 'q'
    crc
// packet A { u8 x, }
//	t
{
u32 a1 ,
    // trailing space 
    
charz //
`two words`,	}
    MetaData int {
} /// triple")).
Eval vm_compute in ("<<<M2117>>>" ++ check (runes_of_ascii "root packet Foo {
    int32 tag `doc`,
    char[0] u8x `u8 x,`,
    charz charz,
    @rightPad(' ')
    @tag(3)
    @rightPad('0')
    repeat int16 float,
}")).
Eval vm_compute in ("<<<M130>>>" ++ check (runes_of_ascii "  packet x_y_z	{ @tag( // c
00
//x
// packet A { u8 x, }
)
@tag(// " ++ [27880; 37322]%N ++ runes_of_ascii "
7 ) @leftPad ( ) int16 _x @lengthOf( u ) `it's` // `tick` ""quote"" 'q'
, }
")).
Eval vm_compute in ("<<<M1493>>>" ++ check (runes_of_ascii "

  packet A  {	u8

    a
    ,} 
packet
    B
{ 
u16 b,}

    root packet 
P 
{ u8 
K ,
match K as M
{ 
1  :
A
	,1
:B , }
    ,
	}
")).
Eval vm_compute in ("<<<M1950>>>" ++ check (runes_of_ascii "packet A {
    match k as n {
        [
            1, ""bb"", 007, ""d"", 5,
            ""f""
        ] : B,
        2 : C,
    },
}")).
Eval vm_compute in ("<<<M1230>>>" ++ check (runes_of_ascii "root packet matchKey {
// c
zchar[ 3 ] pack @calculatedFrom( ""a	b"" ) `doc` , } options { } MetaData A { int8 msg_type , }")).
Eval vm_compute in ("<<<M1262>>>" ++ check (runes_of_ascii "root packet matchKey { zchar[ 3 ] pack @calculatedFrom( ""a	b"" ) `doc` , } options { } MetaData A {
// c
int8 msg_type , }")).
Eval vm_compute in ("<<<M1439>>>" ++ check (runes_of_ascii "// top
root // c0a
  // c0b
packet P // c2a
  // c2b
{ // c3
repeat // c4
char cs , u8 x // c9a
  // c9b
, // c10
} ")).
Eval vm_compute in ("<<<M920>>>" ++ check (runes_of_ascii "packet A {
    u16 len @lengthOf(body) `a
b`,
    u32 crc @calculatedFrom(""CRC32"") `a
b`,
    string body,
}")).
Eval vm_compute in ("<<<M1890>>>" ++ check (runes_of_ascii "
MetaData
    _x {

    } 
packet

calculatedFrom {
}MetaData
_x {

    i32 
body
    , uint8 x , }

")).
Eval vm_compute in ("<<<M1641>>>" ++ check (runes_of_ascii "packet

A	{ match  k 
as
n 
{ [ ""a""  ,
""bb"" ,  ""c c""
,
	""d""	,
    ""e"" ]:

    B  ,	2

:  C } 
,  }

")).
Eval vm_compute in ("<<<M1901>>>" ++ check (runes_of_ascii "packet o {
    // c
    repeat Logon uint8x,
}

options {
    asx = zchar[3]
    stringy = '\x00'
}")).
Eval vm_compute in ("<<<M1702>>>" ++ check (runes_of_ascii "packet
A { match
    k as	n
{  [
1 , 22
, 
""c c"",4 ,	5

,  ""f""
, 
7
    ] : B 2
:
	C} ,

}
")).
Eval vm_compute in ("<<<M1617>>>" ++ check (runes_of_ascii "root packet P {
    // c3
    repeat string ss,
    // c7
    repeat u16 ns,// c11
}
// c12")).
Eval vm_compute in ("<<<M1189>>>" ++ check (runes_of_ascii "MetaData float { float64 charz
// c
`
` , } root packet chars { @rightPad ( '0' ) Foo , }")).
Eval vm_compute in ("<<<M1400>>>" ++ check (runes_of_ascii "packet chars { // c
} packet MetaDataX { @tag( 42 ) i16 string_ , repeat x `say ""hi""` , }")).
Eval vm_compute in ("<<<M2016>>>" ++ check (runes_of_ascii "packet

orderItem
	{u8 a
    ,
} root
	packet	newOrder 
{ orderItem ,

    u8 
x
	, }

")).
Eval vm_compute in ("<<<M1130>>>" ++ check (runes_of_ascii "packet metadata { Logon // c
{ A `" ++ [28040; 24687; 31867; 22411]%N ++ runes_of_ascii "` , tag o , } , zchar len `// not a comment` , }")).
Eval vm_compute in ("<<<M2041>>>" ++ check (runes_of_ascii "packet A {
    match k as n {
        [1, ""bb"", 007, ""d""] : B,
        2 : C,
    },
}")).
Eval vm_compute in ("<<<M1367>>>" ++ check (runes_of_ascii "packet o { repeat Logon uint8x , } options { asx = zchar[ 3
// c
] stringy = '\x00' }")).
Eval vm_compute in ("<<<M1333>>>" ++ check (runes_of_ascii "MetaData body { i64 pack `it's` , } packet stringy { int16 calculatedFrom , } // c
")).
Eval vm_compute in ("<<<M1328>>>" ++ check (runes_of_ascii "MetaData body { i64 pack `it's` , } packet stringy { int16
// c
calculatedFrom , }")).
Eval vm_compute in ("<<<M1447>>>" ++ check (runes_of_ascii "packet Inner {
    u8 a,
}
root packet P {
    repeat Inner items,
    u8 x,
}
")).
Eval vm_compute in ("<<<M799>>>" ++ check (runes_of_ascii "packet A {
  match k as n {
    [1, ""bb"", 007, ""d""] : B,
    2 : C
  },
}")).
Eval vm_compute in ("<<<M789>>>" ++ check (runes_of_ascii "packet A {
  match k as n {
    [""a"", 22, ""c c""] : B
    2 : C
  },
}")).
Eval vm_compute in ("<<<M1680>>>" ++ check (runes_of_ascii "
root

packet 
u128
    {
chars  // c
	`it's`
    ,

    }
")).
Eval vm_compute in ("<<<M949>>>" ++ check (runes_of_ascii "packet A {
    B b `
x`,
    B `
x`,
    repeat B bs `
x`,
}")).
Eval vm_compute in ("<<<M1288>>>" ++ check (runes_of_ascii "packet x { @rightPad ( ) repeat // c
roots Logon `doc` , }")).
Eval vm_compute in ("<<<M2061>>>" ++ check (runes_of_ascii "  MetaData
M
{

u8 x`
x`

    ,
	T	t `
x`
    ,
}

")).
Eval vm_compute in ("<<<M1727>>>" ++ check (runes_of_ascii "MetaData int {
    string f32a `two words`,
}//")).
Eval vm_compute in ("<<<M1757>>>" ++ check (runes_of_ascii "root packet u128 {
    chars `it's`,// c
}")).
Eval vm_compute in ("<<<M1944>>>" ++ check (runes_of_ascii "  packet
A
{u8
x 
`d" ++ [8192]%N ++ runes_of_ascii "`  , 	 // c" ++ [8192]%N ++ runes_of_ascii "

}
")).
Eval vm_compute in ("<<<M1661>>>" ++ check (runes_of_ascii "packet A {
    u8 x `
        x`,
}")).
Eval vm_compute in ("<<<M1726>>>" ++ check (runes_of_ascii "options {
    i64_ = ""`tick`""
}")).
Eval vm_compute in ("<<<M740>>>" ++ check (runes_of_ascii "z" ++ [65533]%N ++ runes_of_ascii "u" ++ [65533; 65533; 65533; 65533; 65533]%N ++ runes_of_ascii "}<i" ++ [65533]%N ++ runes_of_ascii "R" ++ [65533; 65533]%N ++ runes_of_ascii "P" ++ [65533]%N ++ runes_of_ascii "6" ++ [65533]%N ++ runes_of_ascii "NL" ++ [65533; 65533]%N ++ runes_of_ascii "(" ++ [65533; 65533; 28; 65533]%N)).
Eval vm_compute in ("<<<M1170>>>" ++ check (runes_of_ascii "root packet pack
// c
{ }")).
Eval vm_compute in ("<<<M1056>>>" ++ check (runes_of_ascii "packet A {
}
// c x")).
Eval vm_compute in ("<<<M1016>>>" ++ check (runes_of_ascii "packet A {
}
// c" ++ [8239]%N)).
Eval vm_compute in ("<<<M1019>>>" ++ check (runes_of_ascii "packet A {
}// c" ++ [8287]%N)).
Eval vm_compute in ("<<<M749>>>" ++ check (runes_of_ascii "C]LW::;w*;")).
Eval vm_compute in ("<<<M1025>>>" ++ check (runes_of_ascii "// c" ++ [11]%N)).
