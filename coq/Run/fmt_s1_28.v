From FP Require Import Lexer Parser ShowPT Digest Formatter.
From Coq Require Import String List NArith.
Import ListNotations.
Open Scope string_scope.
Set Printing Width 100000000.
Set Printing Depth 100000000.
Definition show_fres (r : fres) : string :=
  match r with
  | FOk s => "OK:" ++ sh_escaped s ""
  | FErr s => "ERR:" ++ sh_escaped s ""
  | FPanic p => "PANIC:" ++ p
  end.
Definition check (rs : list rune) : string := digest (show_fres (format_res rs)).
Definition full (rs : list rune) : string := show_fres (format_res rs).
Eval vm_compute in ("<<<M4106>>>" ++ check (runes_of_ascii "packet
metadata{
	zchar[

    10]

    i64_
    `say ""hi""`

    ,	repeat	// " ++ [27880; 37322]%N ++ runes_of_ascii "
	Header
	// a // b
	  // " ++ [128512]%N ++ runes_of_ascii " emoji
  uint8x	, @lengthOf(
falsey )int8 _x
@calculatedFrom(""x y""
	)

    `{ , }` // c
    , 
stringy
    metadata 
`a\` // " ++ [128512]%N ++ runes_of_ascii " emoji
  , // " ++ [128512]%N ++ runes_of_ascii " emoji
	@lengthOf( 
Packet

    ) i64_	{ 
match

crc

    as Header {
	[
0
	, 0123456789 
]
: 	 // c
    Foo ,

""abc"" 
// trailing space 
  // @lengthOf(
    :pack
, }

, match

    int
as

charz{

    1
	    /// triple

:packetx ,
	7

:  MetaDataX 
,// " ++ [128512]%N ++ runes_of_ascii " emoji
    7: a1 007:zchar , 
""CRC32"": 
stringy
	,

[
	""\" ++ [233]%N ++ runes_of_ascii """
, 
""CRC32""
]

    :
	i8i8} 
//
  	//x
	,pack 
    /// triple
	`doc`
    ,tag { 
_x
@calculatedFrom(
    ""CRC32""
) 
`
` ,
    repeat	asx
`{ , }` 	 /// triple
  , 
i32 
_x  //x
    	@calculatedFrom(
	""\n""

    ) `u8 x,`
    ,	}
, }	,
f32a
@lengthOf(
    chars  // trailing space 
  )
    ,
    string Packet
,
@leftPad

(
' ')@lengthOf(  u8x) 	 // trailing space 
a1// " ++ [128512]%N ++ runes_of_ascii " emoji
    @calculatedFrom(
""x y"")
`doc`
    ,options1 ,  body 
`{ , }`

,
}
MetaData
Foo
    {uint8

    Z9_	`{ , }`, }  packet
Header
    { pack
{  // trailing space 
  leftPad {
	u128 
i64_

    , zchar[
	7 
// @lengthOf(
    // `tick` ""quote"" 'q'
  ]
i64_

@calculatedFrom(

""packet"" ) 	 // packet A { u8 x, }

	`line1
line2` //x

,	//
	  metadata
Logon  ,  char[
10 // packet A { u8 x, }
	] asx@lengthOf( 
uint8x  )

`it's` 
,  } /// triple

	, }	, @calculatedFrom(
""a\\"" )Logon

    @lengthOf(  uint8x )  `
`
,
	int64
	msg_type,
    metadata

_x 
// @lengthOf(
  /// triple
  , @leftPad
    (
)  trueish {
	Header {
        //x
	// `tick` ""quote"" 'q'
uint8x 
{ char[	0123456789  ]
	leftPad
@calculatedFrom(

""" ++ [233]%N ++ runes_of_ascii "t" ++ [233]%N ++ runes_of_ascii """ )`" ++ [28040; 24687; 31867; 22411]%N ++ runes_of_ascii "`

,
    }
, // " ++ [128512]%N ++ runes_of_ascii " emoji
      char[ 	 // a // b
  1] 
    // c
	// packet A { u8 x, }
	asx@calculatedFrom(

    ""it's"")	,roots , 
}
	, 
}
	,	zchar[
	// " ++ [128512]%N ++ runes_of_ascii " emoji
      255]
    Packet 
, 	 // `tick` ""quote"" 'q'
	repeat

    i8i8
, repeat
	float64 u8x,
    @calculatedFrom(""" ++ [233]%N ++ runes_of_ascii "t" ++ [233]%N ++ runes_of_ascii """
    ) asx  @calculatedFrom(""a\""b"")
, 
}
MetaData 
  /// triple
    roots  // packet A { u8 x, }
	{ } ")).
Eval vm_compute in ("<<<M1>>>" ++ check (runes_of_ascii "
packet
body { chars //x
`two words` , match crc as	metadata {65535
    :
    // c
    trueish ""\" ++ [233]%N ++ runes_of_ascii """ : charz , ""abc""	: MetaDataX [""packet"" , ""// no comment"",0
, 00
,
    ""// no comment"" ,""{,}"" , 00 ]:  i64_
// @lengthOf(
//	t
, """ ++ [233]%N ++ runes_of_ascii "t" ++ [233]%N ++ runes_of_ascii """ :f32a
, [
    """ ++ [128512]%N ++ runes_of_ascii """  , ""it's""
]
: Foo
}
    ,@rightPad
(  ' '
    /// triple
    ) repeat char[ 1]
    body `it's`
,
@tag( 007) @calculatedFrom(
    """ ++ [233]%N ++ runes_of_ascii "t" ++ [233]%N ++ runes_of_ascii """ )
// @lengthOf(
//
@calculatedFrom( ""a\""b""// trailing space 
)
repeat
i64_
{ roots /// triple
{ i16 // packet A { u8 x, }
Header`two words`, repeatCount `{ , }`,  f64
x @calculatedFrom( ""a	b"")
    // a // b
    ,repeatCount @calculatedFrom(// " ++ [27880; 37322]%N ++ runes_of_ascii "
"""" ) ,} ,repeat u8
BodyLength
    `crlf
line`	,
    // `tick` ""quote"" 'q'
    char As
@lengthOf(
    Foo) , } ,	char[] roots
    `line1
line2`,//
int a1, string_{ char[]Logon `line1
line2` , repeat float32 trueish
    ,
},
@leftPad ( '0' ) repeat metadata  {	rootA@lengthOf( // trailing space 
falsey	) ``
    ,
// " ++ [128512]%N ++ runes_of_ascii " emoji
// packet A { u8 x, }
} ,
} packet float
{u16
// trailing space 
// trailing space 
Logon // a // b
`tab	here`// @lengthOf(
,
// @lengthOf(
// c
u128 {zchar[255
// packet A { u8 x, }
//
]	charz`doc` , }
,
@tag(0 )	repeat Foo { i32 body
    @calculatedFrom( ""`tick`"" )
`" ++ [233]%N ++ runes_of_ascii "` ,} /// triple
,char[] o @calculatedFrom(""1"" ) `line1
line2` ,
@lengthOf(
// a // b
//x
zchar) i16 BodyLength
    @lengthOf(
    // " ++ [27880; 37322]%N ++ runes_of_ascii "
    BodyLength )
    , @lengthOf( T) @rightPad(
' ' )@lengthOf( T
)
repeat
u64 _x// " ++ [27880; 37322]%N ++ runes_of_ascii "
, match MetaDataX as // trailing space 
options1// trailing space 
{ //x
0123456789 :
    options1  , } , repeat u8 charz
, repeat i8i8 {// c
a1 ,len  { repeat string
o	,
    // a // b
    } ,	match zchar
as Logon {"""" : matchKey """ ++ [128512]%N ++ runes_of_ascii """	: u 007 :
repeatCount ,}  , // c
}
    ,
}
")).
Eval vm_compute in ("<<<M1098>>>" ++ check (runes_of_ascii "
packet
    uint8x { }  MetaData
    trueish { }root packet  tag
{
@calculatedFrom(	""x y"") @tag( 255 ) @calculatedFrom( ""a	b"" ) string_ Packet, repeat
u8 roots
    `" ++ [28040; 24687; 31867; 22411]%N ++ runes_of_ascii "`,
roots @calculatedFrom(""it's"" ) ,
rootA{ Foo	@calculatedFrom( ""x y"" ) `{ , }`, } , //
match MetaDataX
    as x_y_z  { 3  : trueish
    // a // b
    0
:
zchar , /// triple
""" ++ [233]%N ++ runes_of_ascii "t" ++ [233]%N ++ runes_of_ascii """:crc} ,
    roots { repeat zchar[10	] A , },
    @leftPad (
    '\x00'	) repeat string
    //x
    lengthOf ,	@tag(  0 ) u128 ,} packet body {
    len
    // " ++ [27880; 37322]%N ++ runes_of_ascii "
    `crlf
line` , @lengthOf(
    Pad )
    @calculatedFrom( ""\" ++ [233]%N ++ runes_of_ascii """) @leftPad //	t
(	' ' )
repeat float
{  zchar[
    // `tick` ""quote"" 'q'
    1 ]options1 , int32
// " ++ [128512]%N ++ runes_of_ascii " emoji
// trailing space 
metadata @lengthOf( f32a ) , } , match Packet as _x
    {  255 : Header,	007 : packetx
, [ 42
,255
]//	t
: msg_type // " ++ [128512]%N ++ runes_of_ascii " emoji
00  :lengthOf [ 3 , 65535
    ] // c
: string_ , ""abc"":uint8x, }, repeat x_y_z {  Foo // " ++ [27880; 37322]%N ++ runes_of_ascii "
{ repeat
A
    calculatedFrom, Z9_
    @calculatedFrom( ""it's"" ) `{ , }` ,
    repeat u repeatCount
, repeat u16 u8x `// not a comment` , } ,
u32  lengthOf `
` ,int8 rootA//
,
    repeat a1 { match
    //	t
    options1 as repeatCount{[	255 , 007 ]
: packetx  , } ,	As { repeatCount
u	, zchar[
255 ] BodyLength`{ , }` ,} ,}	, } ,
    char[4294967296
    ]	A `" ++ [233]%N ++ runes_of_ascii "` , u8 int
, repeat
    Packet  { x
    calculatedFrom `" ++ [233]%N ++ runes_of_ascii "` ,
} , A
    // packet A { u8 x, }
    , Foo @lengthOf(
matchKey )	`" ++ [233]%N ++ runes_of_ascii "`  ,
// `tick` ""quote"" 'q'
// a // b
uint32
    options1,
    } packet calculatedFrom
{}
")).
Eval vm_compute in ("<<<M4426>>>" ++ check (runes_of_ascii "packet 
Packet
{  @leftPad
    // a // b
  // a // b
    (	' '

    )
repeat

    As { repeatCount
@calculatedFrom(""" ++ [28040; 24687]%N ++ runes_of_ascii """

    )
	,
repeat  pack
    {  /// triple
x{	match
As  as 
uint8x

{
	[
""1""	,
""\" ++ [233]%N ++ runes_of_ascii """
	,  00
	, 
""it's"" ,
""a\""b""

,
""\" ++ [233]%N ++ runes_of_ascii """
]

: 
        // " ++ [128512]%N ++ runes_of_ascii " emoji
// packet A { u8 x, }
pack [ ""a\""b"", """ ++ [233]%N ++ runes_of_ascii "t" ++ [233]%N ++ runes_of_ascii """
    ,	65535
    , 
""a	b"", ""`tick`""	, 
      //	t
  //x
  ""\n"" 
	// " ++ [128512]%N ++ runes_of_ascii " emoji
	// packet A { u8 x, }
      ]:As
    ,
0123456789 :	float ,	/// triple
    ""a	b""
: x_y_z,[ 
""abc""
]:

    stringy // trailing space 
  }	,
    f64
	MetaDataX, zchar[	0123456789
    ] 
charz,  }
,crc 	 // trailing space 
      {char[]

x_y_z  // c
`
`
,
	match
Z9_ 
as i8i8  { 
00:  
      // c
    //	t
charz ,
	} 
, }

    ,i8  // a // b

	_x ,  repeat  falsey

{
    // `tick` ""quote"" 'q'
    	char[
    65535 	 // a // b
	  ]Packet

@calculatedFrom(  ""x y"" )

    `line1
line2` ,  }	,
    } ,
	f32a// packet A { u8 x, }
    	MetaDataX

    `" ++ [233]%N ++ runes_of_ascii "` ,repeat //	t
    	matchKey	{int32
int `crlf
line` ,	} 
,
	}
	,  float{

string
    As`// not a comment`  , As,
    stringy 
,

}
	, @tag( 
00
)
    Foo 
,
    repeat
int16 Z9_, @lengthOf( 
u8x )
	u8x

    { repeat

uint64
    asx , 
    // packet A { u8 x, }

  //
	repeat  int 
// packet A { u8 x, }
    ``
	,	char[

1
]uint8x @calculatedFrom(

    ""\" ++ [233]%N ++ runes_of_ascii """
    )
,
    }  , 
x
    ,

} ")).
Eval vm_compute in ("<<<M568>>>" ++ check (runes_of_ascii "
options {a1= 4294967296 ;
    //	t
    u =	"""" BodyLength =0123456789 ;
}
    packet float{
    char[ 10// trailing space 
]
    calculatedFrom `say ""hi""`
,}	packet  charz
    { u
{
    match string_
    as crc {
0 : zchar//x
4294967296:// packet A { u8 x, }
u 255 : falsey }
    ,len@lengthOf(
// a // b
// c
asx )`tab	here`
    ,o @calculatedFrom( ""\n"" ), },// " ++ [128512]%N ++ runes_of_ascii " emoji
} options
{  T = false ;}  packet
calculatedFrom {
    match u8x
as leftPad { """ ++ [233]%N ++ runes_of_ascii "t" ++ [233]%N ++ runes_of_ascii """ //x
:packetx , ""\n"" :lengthOf ,
007 :
    pack 007 :
BodyLength
,
    ""a\\""  :
charz}
, @tag(
    7 // trailing space 
)body { repeat char[
7 ]// packet A { u8 x, }
_x`" ++ [28040; 24687; 31867; 22411]%N ++ runes_of_ascii "` , } ,	@tag(// " ++ [128512]%N ++ runes_of_ascii " emoji
42 )string  tag `crlf
line`	,  @tag( // " ++ [27880; 37322]%N ++ runes_of_ascii "
00 )repeat char[	0  ] calculatedFrom `tab	here`, u16 Z9_ @calculatedFrom( ""{,}"" ) ,
//x
//x
@calculatedFrom(
    ""\" ++ [233]%N ++ runes_of_ascii """ )
    match	Logon
    // @lengthOf(
    as Z9_ {
[
""1""
    //	t
    , // c
""1""	] :
    options1 } ,
T
    metadata ,_x {
    // @lengthOf(
    f32 x
    , int64
a1
//x
// " ++ [27880; 37322]%N ++ runes_of_ascii "
@lengthOf(_x
    )`u8 x,` , uint8x { _x	@lengthOf(
charz ) // `tick` ""quote"" 'q'
, int64// @lengthOf(
trueish
    ,  char[0	]
// `tick` ""quote"" 'q'
// c
roots @calculatedFrom( ""// no comment"")
    `crlf
line` , u ,}
    , } , }
")).
Eval vm_compute in ("<<<M3614>>>" ++ check (runes_of_ascii "packet Frame
    // c1
{ // c2a
  // c2b
u8
    // c3
HK
    // c4
, // c5a
  // c5b
u8 BK
    // c7
, u8 TK
    // c10
, // c11a
  // c11b
match // c12
HK // c13
as // c14
Hdr // c15a
  // c15b
{
    // c16
1 // c17
: HdrA , // c20a
  // c20b
2
    // c21
: // c22
HdrB // c23a
  // c23b
, } // c25
,
    // c26
match
    // c27
BK // c28a
  // c28b
as Body // c30a
  // c30b
{
    // c31
1 // c32a
  // c32b
:
    // c33
BodyA // c34a
  // c34b
, // c35
2 : // c37a
  // c37b
BodyB
    // c38
,
    // c39
} , // c41
match
    // c42
TK
    // c43
as
    // c44
Trl {
    // c46
1 : TrlA // c49
, } // c51a
  // c51b
, // c52
} // c53
packet HdrA // c55
{ u8
    // c57
a ,
    // c59
} packet
    // c61
HdrB // c62
{ u16
    // c64
b // c65a
  // c65b
, } // c67a
  // c67b
packet // c68
BodyA // c69a
  // c69b
{
    // c70
u32 c
    // c72
,
    // c73
}
    // c74
packet
    // c75
BodyB // c76
{
    // c77
u64 d
    // c79
, // c80
}
    // c81
packet
    // c82
TrlA // c83a
  // c83b
{ u8 e
    // c86
, } root // c89a
  // c89b
packet
    // c90
Msg // c91a
  // c91b
{ Frame , u8 // c95a
  // c95b
x // c96a
  // c96b
, } // c98
")).
Eval vm_compute in ("<<<M719>>>" ++ check (runes_of_ascii "packet x
{ @tag(
//x
// a // b
3
    )@calculatedFrom( // `tick` ""quote"" 'q'
""1"") @calculatedFrom( // packet A { u8 x, }
""{,}"" )
    o	uint8x , repeat
    zchar[
    4294967296
    // " ++ [128512]%N ++ runes_of_ascii " emoji
    ] Packet ,
repeat trueish	{uint16
a1  ,
    char[]
matchKey ,
    float { uint64 A	@calculatedFrom(""`tick`""
// c
//x
)
    ,
} ,
int32
tag , }
    , @leftPad
    ( ) Foo{leftPad @calculatedFrom( ""{,}"" ) , //x
} , @lengthOf( Z9_ )uint64 pack ,
    }	options {roots
=65535 ;  falsey =
10 ; //x
x_y_z =
    ' ' ;
    MetaDataX =// `tick` ""quote"" 'q'
false
    ; }options { crc
    =true ;string_
    = false;leftPad = ' ' ;i8i8 =
    // c
    '0' ; }root packet
    string_ { u16
    // trailing space 
    rootA
    @lengthOf( lengthOf ) `" ++ [233]%N ++ runes_of_ascii "`  ,@lengthOf( chars) @lengthOf( stringy)	@lengthOf( falsey	)
string
    Header @calculatedFrom( ""1"" ) ,
@calculatedFrom( ""a\""b"")
@calculatedFrom(
    ""`tick`"" ) @tag(  65535 )
    uint8
//
// " ++ [27880; 37322]%N ++ runes_of_ascii "
f32a , @leftPad () zchar[42 // trailing space 
] a1 @calculatedFrom(""""// " ++ [128512]%N ++ runes_of_ascii " emoji
)
,
// a // b
// a // b
} options{ len  =  7 ; }
")).
Eval vm_compute in ("<<<M3745>>>" ++ check (runes_of_ascii "options { 
Foo = 
      // trailing space 
	""\" ++ [233]%N ++ runes_of_ascii """roots
=	""`tick`"" 

// trailing space 
//	t
;

crc=
""packet"" 
;	falsey

= 	 // a // b
1  float	= u32  ;
}
packet options1{
match Header
    as Packet {	[
    ""abc""	]	:	Header
	,""`tick`""  :

i64_ 
,
    [
	7	, 
    /// triple

//x
      """"
,
3

]  :
	Z9_

    , [""// no comment"" 
, ""x y"" 
,

""" ++ [28040; 24687]%N ++ runes_of_ascii """ ,

    1
    ,
	""a	b"" ]

    :  x_y_z

    ,""a\""b""
	:
float 	 // c
	}  ,	// @lengthOf(
	i8i8  _x	, @rightPad( '\x00'
) 
zchar[ 0

]

    string_
    ,  }packet
	u8x
{
    @lengthOf( packetx ) 
char[ 
42 ]
    // `tick` ""quote"" 'q'
	_x
,  f64 
matchKey

`it's`
,
	match

    repeatCount 
as

roots  {
    // packet A { u8 x, }
	// " ++ [27880; 37322]%N ++ runes_of_ascii "
    	[  ""CRC32""	,	""" ++ [128512]%N ++ runes_of_ascii """
]	: 
i8i8
	,}
,  
      // " ++ [27880; 37322]%N ++ runes_of_ascii "
	@lengthOf(
	len)
@rightPad
(' '

    )
u  stringy
`say ""hi""` , 	 // @lengthOf(

  repeat 
char[7 ] 
pack
`" ++ [28040; 24687; 31867; 22411]%N ++ runes_of_ascii "`
,
    @tag(42	)

    string
    u8x  `// not a comment`,	}	root packet	As
    {
int32 x @calculatedFrom(
    ""\n"" )
,

    }
")).
Eval vm_compute in ("<<<M154>>>" ++ check (runes_of_ascii "options { } packet
    //	t
    falsey /// triple
{	i64 calculatedFrom
    @calculatedFrom(
    //
    ""a\\"" )
`it's` ,
char[ 00 ] falsey ,	@calculatedFrom(""1"" ) @calculatedFrom( ""{,}""
    )
i32	float	,@tag(3 //
)
    @calculatedFrom(  ""CRC32"" ) int64 options1 @lengthOf(roots ) `two words` , @calculatedFrom(""a\\""	) repeat trueish { repeat charz
,trueish // trailing space 
tag //x
`two words` ,
repeat u64 Logon  `" ++ [28040; 24687; 31867; 22411]%N ++ runes_of_ascii "`,},
    @leftPad(
    //x
    '0'
)// " ++ [128512]%N ++ runes_of_ascii " emoji
@rightPad (
// " ++ [128512]%N ++ runes_of_ascii " emoji
//
' ' )
//	t
//
u roots,repeat
A	{i32 int
@lengthOf( zchar
)`" ++ [233]%N ++ runes_of_ascii "`
    ,
    }//	t
, u64 A , @tag( 10 ) char[]
u8x, zchar[
10 ] pack
//
// " ++ [27880; 37322]%N ++ runes_of_ascii "
@calculatedFrom(""1"" ) `say ""hi""` ,	} packet Z9_//	t
{// " ++ [27880; 37322]%N ++ runes_of_ascii "
@leftPad( '0')  repeat
// a // b
// @lengthOf(
As charz
, body @calculatedFrom( ""it's""
    )`crlf
line` ,
    // " ++ [27880; 37322]%N ++ runes_of_ascii "
    @leftPad ('0'
) zchar[ 4294967296 ]
A @calculatedFrom(""packet""
    // trailing space 
    ) `" ++ [233]%N ++ runes_of_ascii "`  , repeat body
    Header`" ++ [233]%N ++ runes_of_ascii "`,}
")).
Eval vm_compute in ("<<<M4493>>>" ++ check (runes_of_ascii "options {
    LittleEndian = false;
    FixedStringPadFromLeft = false;
    FixedStringPadChar = ' ';
}

packet Fill {
    uint16 Qty,
    uint64 clOrdID,
    repeat i64 Flags,
}

packet Ack {
    zchar[7] clOrdID,
    u64 lastPx,
    char[] Note,
    repeat Fill,
    int32 count,
}

packet Quote {
    u8 venue,
    InRef40 {
        char[] Qty,
    },
    zchar[5] Flags,
    @rightPad('\x00')
    char[12] msgKind,
}

packet Logout {
    InSym79 {
        int32 Qty,
        Fill,
        char[3] x,
        repeat InNote29 {
            i16 price,
            Ack,
            f64 x,
            zchar[8] count,
        },
    },
}

root packet Logon {
    zchar[1] sym,
    u32 count,
    u16 tag7 @lengthOf(Body),
    match count as Body {
        [122, 152] : Ack,
        118 : Logout,
        61 : Quote,
        161 : Fill,
    },
    u32 Acct @calculatedFrom(""CR\
    C32""),
}")).
Eval vm_compute in ("<<<M4126>>>" ++ check (runes_of_ascii "root packet u128

    { 
@calculatedFrom( ""// no comment"")
    @tag(
	10 	 //	t
)

@calculatedFrom(

""packet""
	)  BodyLength``	,
char 
BodyLength`two words` 
, repeat
	uint32 
f32a 	 // trailing space 
  ,crc
	{ 
repeat
repeatCount
Packet,
	MetaDataX @lengthOf( 
chars	)  ,

options1
    _x, 
repeat  float64
    T//x
    ,
} , 
@tag(  3 )  @leftPad
	(

'\x00'

    )@rightPad
( 
    // @lengthOf(
  /// triple
    )
    match  string_ as

MetaDataX 
{
    ""packet"": float

,[ ""abc""// @lengthOf(
  ,  """" 
      // packet A { u8 x, }
,
3,
	    //x
    65535
    ,	""a	b""
,//	t
	42, 1 ,
""packet""]: 
i64_
        // `tick` ""quote"" 'q'
		/// triple
	,
    // " ++ [27880; 37322]%N ++ runes_of_ascii "

  // trailing space 
7	:

lengthOf
0
:
len 

// trailing space 
      // packet A { u8 x, }
  	, 
10
:

    len	,
    [ 	 //	t
    0

    ] :A 
//	t
, }
, } ")).
Eval vm_compute in ("<<<M977>>>" ++ check (runes_of_ascii "packet
MetaDataX {zchar[4294967296
] o @calculatedFrom(
""" ++ [233]%N ++ runes_of_ascii "t" ++ [233]%N ++ runes_of_ascii """
// packet A { u8 x, }
// `tick` ""quote"" 'q'
) , @tag( 65535 ) @leftPad /// triple
(' ' )uint16 pack , char[]
charz  , zchar //
metadata , match  i64_
as asx { 0 :BodyLength , [
""" ++ [28040; 24687]%N ++ runes_of_ascii """ ] :	options1 , ""x y"" :
    matchKey ,""x y"": msg_type// " ++ [128512]%N ++ runes_of_ascii " emoji
}, @calculatedFrom(
""a\\"")match repeatCount as zchar { 007 :// a // b
crc
[
""" ++ [233]%N ++ runes_of_ascii "t" ++ [233]%N ++ runes_of_ascii """
    ,""" ++ [28040; 24687]%N ++ runes_of_ascii """ , ""it's"" ] : roots , } // a // b
, char[ 3]falsey `say ""hi""` , @calculatedFrom( ""a	b"") calculatedFrom Header ,repeat
    tag {stringy@calculatedFrom( ""\n""
),
match chars	as x_y_z { //	t
42 :
    repeatCount """ ++ [28040; 24687]%N ++ runes_of_ascii """	:pack
, /// triple
}
    ,
    char[ 3 ]x_y_z@lengthOf(//
body
) `two words` ,
o { repeat zchar[ 00 ] matchKey
    ,	repeat char[
1 ]
repeatCount  `it's` // " ++ [128512]%N ++ runes_of_ascii " emoji
,} , } , }")).
Eval vm_compute in ("<<<M206>>>" ++ check (runes_of_ascii "options{ }root // a // b
packet
    uint8x {  @tag( 3 ) @lengthOf(  falsey ) lengthOf @calculatedFrom(
""`tick`"" ), A { i8 msg_type
`crlf
line` ,
Foo @lengthOf( u8x
) ,float ,
    //
    }
, string // a // b
lengthOf
@calculatedFrom(	""abc"" )
, @lengthOf(charz )
    repeat string_	{// " ++ [128512]%N ++ runes_of_ascii " emoji
zchar[
    0
    // a // b
    ] T @calculatedFrom( ""a\\"" ) //	t
, zchar[
    42 ] repeatCount @lengthOf(
Z9_ )`u8 x,`,}
,  zchar[1
    ]
crc @calculatedFrom( // " ++ [27880; 37322]%N ++ runes_of_ascii "
""// no comment"" )
    `it's`
    // `tick` ""quote"" 'q'
    , @calculatedFrom(""{,}"")
    tag
int//
, //x
}
MetaData f32a { // trailing space 
i64 int // c
,string int
    , // c
asx
    //x
    Pad
    //x
    `crlf
line` , string lengthOf,
    uint32
pack ,// " ++ [27880; 37322]%N ++ runes_of_ascii "
msg_type
    u `it's` ,
}")).
Eval vm_compute in ("<<<M3773>>>" ++ check (runes_of_ascii "//x

packet _x
    {repeat
	charz
	{

repeat
asx,  //x
  string metadata , //x
		uint64
a1	@calculatedFrom(
""it's""
    )
`a\`
,

    } ,
@rightPad //
  ( )

    msg_type
len
``,
MetaDataX
asx	// " ++ [128512]%N ++ runes_of_ascii " emoji
  ,

    @rightPad

(

'\x00'

) zchar[3

    ]int	, }
	packet 
Packet 
{ @leftPad (
    ) string_

{
	repeat

calculatedFrom  // a // b
	`it's`

,

    }
    // " ++ [128512]%N ++ runes_of_ascii " emoji
, @calculatedFrom( 
""a	b""
    )

    @tag(
	00 )
	@rightPad 
(
	' ' 
)
u64
stringy// " ++ [128512]%N ++ runes_of_ascii " emoji

@calculatedFrom(""a	b"" // @lengthOf(
      )
, @leftPad
    (
    '\x00')	options1`" ++ [233]%N ++ runes_of_ascii "`
,

    @rightPad  (  )

    repeat char[007
]  Foo`line1
line2` , } options	{	len
= '\x00' ;
	roots
    = ""{,}""
packetx =i64  ;
	}")).
Eval vm_compute in ("<<<M663>>>" ++ check (runes_of_ascii "
root packet
options1 {float@calculatedFrom(
""a	b"" ) , @leftPad
    // `tick` ""quote"" 'q'
    ( ) match
// @lengthOf(
// `tick` ""quote"" 'q'
lengthOf as  f32a{  ""1""	: f32a , ""{,}"" : falsey , // a // b
} ,
// a // b
// packet A { u8 x, }
} packet
T{ @tag( 7) @lengthOf(
f32a
) @rightPad
(
) char[] msg_type @calculatedFrom( ""\" ++ [233]%N ++ runes_of_ascii """) `" ++ [28040; 24687; 31867; 22411]%N ++ runes_of_ascii "`,	options1 u128
    //x
    `// not a comment` ,
    // packet A { u8 x, }
    @rightPad (  ' '	) char[
    1 ] metadata
    // `tick` ""quote"" 'q'
    @calculatedFrom(""" ++ [128512]%N ++ runes_of_ascii """ )`doc`
    , } packet u8x{ roots
@lengthOf(
f32a
) , @calculatedFrom( ""a\""b"") @tag( 00 )
@leftPad ( '\x00'
) MetaDataX { int @calculatedFrom( ""`tick`""
) `
` ,}// " ++ [27880; 37322]%N ++ runes_of_ascii "
, }
")).
Eval vm_compute in ("<<<M150>>>" ++ check (runes_of_ascii "packet
    Header	{	repeat string
    Header
,
repeat options1  ,	zchar[
    //	t
    00 ] matchKey ,} options
// @lengthOf(
// `tick` ""quote"" 'q'
{charz= ""\n"" ; // a // b
BodyLength = ""x y"" u8x
    = ""x y""
    u // `tick` ""quote"" 'q'
= 255 }
MetaData u8x{
// a // b
// c
Z9_
i8i8 , float32  stringy , float msg_type // `tick` ""quote"" 'q'
`doc`
    ,
calculatedFrom T , Foo T `a\` , }	root
    packet
    roots
    {	@tag( 00
) /// triple
match// `tick` ""quote"" 'q'
len
    as roots {
    // @lengthOf(
    [ 4294967296 ]
    : tag ""// no comment"" :float ,"""" : uint8x ,
// " ++ [27880; 37322]%N ++ runes_of_ascii "
// trailing space 
007
    // " ++ [27880; 37322]%N ++ runes_of_ascii "
    :
    options1 , } , }")).
Eval vm_compute in ("<<<M312>>>" ++ check (runes_of_ascii "packet BodyLength // " ++ [27880; 37322]%N ++ runes_of_ascii "
{ char[ 255 // " ++ [27880; 37322]%N ++ runes_of_ascii "
]	_x, match body as repeatCount
    { ""{,}"" :
len }
    , char[
    0] Logon @calculatedFrom(	""{,}"" ) ,
    // a // b
    @rightPad() i64_//x
@calculatedFrom( ""it's"" )
    `crlf
line` , } packet
Header {
match As as
    chars
{
7: packetx , [ ""it's""  ]: u128
,
    [
    4294967296 , ""{,}"" ] : f32a ,} ,
    }packet asx { @calculatedFrom( ""1""
)
    a1
// @lengthOf(
//
,
//
//x
match x_y_z as  crc /// triple
{
// `tick` ""quote"" 'q'
// `tick` ""quote"" 'q'
""CRC32"" : As
, 7
:o , //x
} ,match msg_type as Packet {""" ++ [233]%N ++ runes_of_ascii "t" ++ [233]%N ++ runes_of_ascii """ : metadata }, repeat u8
i64_ ,// a // b
}")).
Eval vm_compute in ("<<<M3931>>>" ++ check (runes_of_ascii "options {
}

root packet a1 {
    @tag(00)
    Logon,
    @calculatedFrom(""{,}"")
    repeatCount {
        repeat float i64_,
        match u8x as leftPad {
            3 : u128,
            1 : i8i8,
            42 : u128,
            """ ++ [233]%N ++ runes_of_ascii "t" ++ [233]%N ++ runes_of_ascii """ : msg_type,
            [1, 42] : A,
        },
        repeat i64 metadata,
    },
    match len as Z9_ {
        255 : o,
        0123456789 : Pad,
        //
        [7, ""{,}"", ""abc"", 007] : chars,
        3 : packetx,
        00 : o,
        /// triple
    },
    zchar[0123456789] i64_ @lengthOf(chars),
    float32 trueish `" ++ [28040; 24687; 31867; 22411]%N ++ runes_of_ascii "`,
}")).
Eval vm_compute in ("<<<M839>>>" ++ check (runes_of_ascii "options {
uint8x =	true	;	calculatedFrom= '\x00'options1 = // @lengthOf(
""`tick`"" ;
    Header=false ; } root  packet MetaDataX {i16
// c
// `tick` ""quote"" 'q'
A `" ++ [28040; 24687; 31867; 22411]%N ++ runes_of_ascii "`,T
// trailing space 
// trailing space 
Logon,repeat// c
char[ 65535 ] packetx
`tab	here`,
//
//x
@tag(
65535
    )
char[
007] u8x ,
repeat u128 `a\`
, @lengthOf( Pad)  @lengthOf( u8x )
pack @lengthOf(
    pack)
,repeat zchar[
0 ]chars
,zchar[ 65535/// triple
]
T , } options { i8i8 =""CRC32""; metadata = '0'
; // " ++ [128512]%N ++ runes_of_ascii " emoji
lengthOf
    =  '0' ;
}
MetaData float { uint8 int , }
")).
Eval vm_compute in ("<<<M4208>>>" ++ check (runes_of_ascii "packet len
{@tag( 
4294967296	)
repeat f32 
a1 `" ++ [28040; 24687; 31867; 22411]%N ++ runes_of_ascii "`
	,  uint8x

`
` 

    //
//	t
	,	}
    root 
packet rootA{  match  crc	as  // packet A { u8 x, }
	  i8i8  // c
  { ""a\""b""  :

    _x
00 :	Packet
	,
	""// no comment"": 
MetaDataX  ,// c

[""" ++ [28040; 24687]%N ++ runes_of_ascii """  //x
  ,

    007 ]:MetaDataX 42

    :
charz 
, [ 
""" ++ [233]%N ++ runes_of_ascii "t" ++ [233]%N ++ runes_of_ascii """
	, 	 // a // b
    ""abc""
]

    : _x  , } ,
uint16
    Logon
,

    @leftPad (  ' '
	) 	 // packet A { u8 x, }
  @leftPad 
( // " ++ [27880; 37322]%N ++ runes_of_ascii "

' '	)

    uint8

    stringy	@lengthOf(	msg_type
)

`
`

    , }

")).
Eval vm_compute in ("<<<M1181>>>" ++ check (runes_of_ascii "  packet  uint8x // a // b
{
    //x
    } MetaData A
    /// triple
    {float32 options1 , roots
    uint8x
    , trueish asx , string options1 `" ++ [28040; 24687; 31867; 22411]%N ++ runes_of_ascii "`
    , i32 int
,
    u// " ++ [128512]%N ++ runes_of_ascii " emoji
As `doc` ,
} packet Header {
    char[]
A
, // a // b
repeat metadata{match
    /// triple
    leftPad as Foo { ""a\""b"" : msg_type
    // `tick` ""quote"" 'q'
    }
    , } , char[] trueish  ,
matchKey  {
char[ 4294967296//	t
] roots	@calculatedFrom( ""x y"" ) , }, i8// " ++ [128512]%N ++ runes_of_ascii " emoji
MetaDataX@calculatedFrom(  ""packet""
), }
")).
Eval vm_compute in ("<<<M1052>>>" ++ check (runes_of_ascii "MetaData Logon {
    }
    packet trueish	{calculatedFrom@lengthOf(
leftPad )
    ,
char[]chars @lengthOf(rootA) `u8 x,`
,
@calculatedFrom(""""
// @lengthOf(
// @lengthOf(
)As @lengthOf( repeatCount) // " ++ [128512]%N ++ runes_of_ascii " emoji
`two words`// c
,
asx
`it's` // packet A { u8 x, }
,// " ++ [27880; 37322]%N ++ runes_of_ascii "
} packet
MetaDataX	{repeat	u8  i8i8
`" ++ [233]%N ++ runes_of_ascii "`
, uint8 int @lengthOf( uint8x)  ,
u16 T@lengthOf( body
// packet A { u8 x, }
/// triple
) `" ++ [28040; 24687; 31867; 22411]%N ++ runes_of_ascii "` , zchar[ 3] trueish , @calculatedFrom( ""x y"" ) repeat zchar[ 00 ] zchar , }")).
Eval vm_compute in ("<<<M143>>>" ++ check (runes_of_ascii "root packet crc {@calculatedFrom(
""" ++ [128512]%N ++ runes_of_ascii """)
BodyLength{x_y_z i8i8
//
//
, int32 uint8x
`two words` ,	rootA tag , zchar[
7] matchKey
    `" ++ [233]%N ++ runes_of_ascii "` ,} , T { x@calculatedFrom( ""a	b"" )
`// not a comment` ,zchar[ // " ++ [128512]%N ++ runes_of_ascii " emoji
42 ] /// triple
A
, match chars
as
    //x
    len {""packet"" :crc 3//x
:
chars [
0123456789 , ""packet"" ]
    : pack	[""packet""
,
00// " ++ [27880; 37322]%N ++ runes_of_ascii "
,
    7 ,""" ++ [28040; 24687]%N ++ runes_of_ascii """, 3
,  ""packet"",
    42, 0123456789
    ] :
repeatCount	""{,}"" :
chars
    ,/// triple
} ,
} ,
}")).
Eval vm_compute in ("<<<M946>>>" ++ check (runes_of_ascii "MetaData	asx { u32
asx
    ,
//
// a // b
roots Packet
    // " ++ [128512]%N ++ runes_of_ascii " emoji
    , }
root packet
pack{ // @lengthOf(
len @calculatedFrom(""// no comment"" )
    , match pack as leftPad { [007] // `tick` ""quote"" 'q'
:	crc
    //	t
    ,10 :
    tag
    ,7 : packetx
    ,
""" ++ [28040; 24687]%N ++ runes_of_ascii """ : stringy ,
65535
:
    i64_ ,1
: MetaDataX ,
}	, zchar[
    /// triple
    4294967296 ] chars @calculatedFrom(
    //	t
    ""\n""
// `tick` ""quote"" 'q'
// " ++ [27880; 37322]%N ++ runes_of_ascii "
) ,
    }
")).
Eval vm_compute in ("<<<M1233>>>" ++ check (runes_of_ascii "// " ++ [128512]%N ++ runes_of_ascii " emoji
packet u8x {	char[] Z9_ , @leftPad
    (
'0'
)
    //x
    u64 int@lengthOf(
//x
//	t
A ) `crlf
line`	,	repeat
u8x
`" ++ [28040; 24687; 31867; 22411]%N ++ runes_of_ascii "`, int64 leftPad @lengthOf(
T), i8i8 i64_  , // " ++ [128512]%N ++ runes_of_ascii " emoji
repeat msg_type ,@rightPad
    // a // b
    (	'\x00'  ) @lengthOf( zchar )
matchKey ,
    // packet A { u8 x, }
    } MetaData u { } MetaData x_y_z {int16
rootA,char[]
o `it's`
// packet A { u8 x, }
// @lengthOf(
, }
options {}
")).
Eval vm_compute in ("<<<M3959>>>" ++ check (runes_of_ascii "packet f32a {
    i64_ falsey,
    match i8i8 as _x {
        // " ++ [27880; 37322]%N ++ runes_of_ascii "
        0 : Logon,
        [65535, ""x y""] : Header,
        4294967296 : Foo,
        /// triple
    },
    @tag(0123456789)
    u8x msg_type `say ""hi""`,
}

packet Z9_ {
    repeatCount leftPad `two words`,
}

MetaData calculatedFrom {
    u charz `{ , }`,
    u64 T `tab	here`,
    Foo options1 `" ++ [233]%N ++ runes_of_ascii "`,
    char[] x `doc`,
    i8i8 u8x,
}")).
Eval vm_compute in ("<<<M853>>>" ++ check (runes_of_ascii "
root packet crc
{	@rightPad
    // `tick` ""quote"" 'q'
    (
// `tick` ""quote"" 'q'
// c
'\x00' )// a // b
repeat i64 As ,
// @lengthOf(
// a // b
}
packet// c
body // " ++ [128512]%N ++ runes_of_ascii " emoji
{
}
packet  uint8x { options1 @calculatedFrom(""a	b"" ) ,
} MetaData  Packet { }
/// triple
//
MetaData
    // a // b
    falsey{	char[ 007 ]
// trailing space 
//x
tag `it's` , As leftPad
`line1
line2`,
    } 	 ")).
Eval vm_compute in ("<<<M98>>>" ++ check (runes_of_ascii "packet// a // b
stringy  {
    Logon { match
    string_ as
    i64_
{ ""x y"":
string_
    ,
// " ++ [27880; 37322]%N ++ runes_of_ascii "
// `tick` ""quote"" 'q'
""`tick`"" : string_
,  1// " ++ [27880; 37322]%N ++ runes_of_ascii "
:
/// triple
// c
float , [ ""1""
    ] :
options1
    // " ++ [27880; 37322]%N ++ runes_of_ascii "
    ,} , zchar[1 ] crc@calculatedFrom( """") `two words` , f32a , float32 lengthOf ,
}
, @tag(255) u8x @calculatedFrom( // packet A { u8 x, }
""abc""
) `a\` , }
")).
Eval vm_compute in ("<<<M495>>>" ++ check (runes_of_ascii "  packet pack { u8
len/// triple
,@rightPad(  ) u64 A@calculatedFrom( ""\n"" )
, // trailing space 
@lengthOf(
    o )
    @leftPad() @leftPad (
)int32 metadata, matchKey ,
} MetaData matchKey { }packet rootA {}options { A= zchar[65535]float = // `tick` ""quote"" 'q'
3
    roots //	t
= 7 Pad
    // trailing space 
    =
    10 ;trueish =false;}

")).
Eval vm_compute in ("<<<M4465>>>" ++ check (runes_of_ascii "
root  packet

    a1 {repeat string  x `// not a comment` , 
  //x
    	// @lengthOf(
		}

options

    //
    	//	t
  {	stringy

    = true } 
packet
msg_type	{  @rightPad (  '\x00' 
	// " ++ [27880; 37322]%N ++ runes_of_ascii "
  	) match

crc

    as packetx {65535
    :

body
    ,
	65535 : 
T , }
	,  //x
	stringy ,
    u32 
roots
    ,
uint32
body
    ,
	}

")).
Eval vm_compute in ("<<<M1252>>>" ++ check (runes_of_ascii "MetaData packetx	{
    MetaDataX zchar , calculatedFrom i64_ ,char[] BodyLength , zchar[ 4294967296 // packet A { u8 x, }
] MetaDataX``
, int BodyLength `
`, i64 i64_ , }
options
    { u8x= u32 ; } MetaData rootA{
zchar[ 4294967296 ] roots
`doc` ,
char[ 0123456789 ]
    // a // b
    uint8x `" ++ [233]%N ++ runes_of_ascii "`
    , Z9_ len	`u8 x,`	, }
")).
Eval vm_compute in ("<<<M1961>>>" ++ check (runes_of_ascii "MetaData
    u { }  options {
// c
// @lengthOf(
float = int8 ;rootA =false ; As =	int16 // `tick` ""quote"" 'q'
repeatCount
    // trailing space 
    =
    int16
; u8x u8x =
    //	t
    '\x00' ; } options	{
    repeatCount
= 0
u128
    //
    = false ; i64_
// trailing space 
// `tick` ""quote"" 'q'
= '0' ; //	t
}
")).
Eval vm_compute in ("<<<M1991>>>" ++ check (runes_of_ascii "MetaData
    u { }  options {
// c
// @lengthOf(
float = int8 ;rootA =false ; As =	int16 // `tick` ""quote"" 'q'
repeatCount
    // trailing space 
    =
    int16
; u8x =
    //	t
    '\x00' ; } options	{ {
    repeatCount
= 0
u128
    //
    = false ; i64_
// trailing space 
// `tick` ""quote"" 'q'
= '0' ; //	t
}
")).
Eval vm_compute in ("<<<M769>>>" ++ check (runes_of_ascii "
packet i8i8 { match tag
as  i8i8
    { """ ++ [28040; 24687]%N ++ runes_of_ascii """ : pack ,
3
: rootA , [	1, //	t
3
]:falsey, }  ,
// " ++ [128512]%N ++ runes_of_ascii " emoji
// trailing space 
zchar[
10 ]string_ , // @lengthOf(
}packet falsey{string chars ,
uint8x
,@lengthOf( packetx ) char[]
Packet, }MetaData a1 {
chars roots
    //
    `crlf
line` , /// triple
asx zchar ,}
")).
Eval vm_compute in ("<<<M1987>>>" ++ check (runes_of_ascii "MetaData
    u { }  options {
// c
// @lengthOf(
float = int8 ;rootA =false ; As =	int16 // `tick` ""quote"" 'q'
repeatCount
    // trailing space 
    =
    int16
; u8x =
    //	t
    '\x00' ; } {	options
    repeatCount
= 0
u128
    //
    = false ; i64_
// trailing space 
// `tick` ""quote"" 'q'
= '0' ; //	t
}
")).
Eval vm_compute in ("<<<M1980>>>" ++ check (runes_of_ascii "MetaData
    u { }  options {
// c
// @lengthOf(
float = int8 ;rootA =false ; As =	int16 // `tick` ""quote"" 'q'
repeatCount
    // trailing space 
    =
    int16
; u8x =
    //	t
    '\x00' ;  options	{
    repeatCount
= 0
u128
    //
    = false ; i64_
// trailing space 
// `tick` ""quote"" 'q'
= '0' ; //	t
}
")).
Eval vm_compute in ("<<<M1950>>>" ++ check (runes_of_ascii "MetaData
    u { }  options {
// c
// @lengthOf(
float = int8 ;rootA =false ; As =	int16 // `tick` ""quote"" 'q'
repeatCount
    // trailing space 
    =
    
; u8x =
    //	t
    '\x00' ; } options	{
    repeatCount
= 0
u128
    //
    = false ; i64_
// trailing space 
// `tick` ""quote"" 'q'
= '0' ; //	t
}
")).
Eval vm_compute in ("<<<M4290>>>" ++ check (runes_of_ascii "//	t
packet crc {
}

MetaData len {
    stringy body `line1
    line2`,
    u16 crc,//
    zchar[007] Z9_,
    Header T,
}

packet stringy {
    @lengthOf(u8x)
    match A as BodyLength {
        ""{,}"" : o,
        // " ++ [128512]%N ++ runes_of_ascii " emoji
    },
    repeat zchar[255] packetx,
    A `" ++ [233]%N ++ runes_of_ascii "`,
    BodyLength msg_type,
}")).
Eval vm_compute in ("<<<M188>>>" ++ check (runes_of_ascii "packet options1 {// " ++ [128512]%N ++ runes_of_ascii " emoji
@calculatedFrom( ""abc""
) //
repeat BodyLength , a1
@lengthOf(
    // trailing space 
    i8i8
    // " ++ [128512]%N ++ runes_of_ascii " emoji
    ) ,
    } packet	asx
    {char[ 0] o`crlf
line`
,char[] options1 `crlf
line`
,
@tag( 42 )
    repeat Foo  ,
asx @calculatedFrom(
    ""`tick`"") ,}")).
Eval vm_compute in ("<<<M3209>>>" ++ check (runes_of_ascii "// top
packet
    // c0
metadata
    // c1
{
    // c2
Logon
    // c3
{
    // c4
A
    // c5
`" ++ [28040; 24687; 31867; 22411]%N ++ runes_of_ascii "`
    // c6
,
    // c7
tag
    // c8
o
    // c9
,
    // c10
}
    // c11
,
    // c12
zchar
    // c13
len
    // c14
`// not a comment`
    // c15
,
    // c16
}
    // c17
")).
Eval vm_compute in ("<<<M491>>>" ++ check (runes_of_ascii "root packet
    options1 {
    // a // b
    zchar[
    // `tick` ""quote"" 'q'
    1 ] a1 `u8 x,` ,
    }MetaData calculatedFrom {}
    root  packet i64_	{@tag( 10 ) @leftPad	( // c
' '
// a // b
// a // b
) int32 Packet@calculatedFrom( // packet A { u8 x, }
""1"")
,}
")).
Eval vm_compute in ("<<<M1618>>>" ++ check (runes_of_ascii "packet
//	t
// trailing space 
_x {
// packet A { u8 x, }
// c
char[
3
    ] u8x @lengthOf(
u8x ) , @calculatedFrom(""" ++ [128512]%N ++ runes_of_ascii """ // @lengthOf(
)
i16	Foo
@lengthOf(	string_
    )`doc`	, repeat	i64 metadata , @lengthOf( string_ string_
) i8 // c
u  `line1
line2`	,
}
")).
Eval vm_compute in ("<<<M577>>>" ++ check (runes_of_ascii "packet int {
int64 msg_type @calculatedFrom(// trailing space 
""\" ++ [233]%N ++ runes_of_ascii """ ),
} options {
packetx = false tag = // trailing space 
true
    u128= i32 ; msg_type= true
pack = u32 ;
    } options {
    Packet
= char[] ; } root packet roots{ zchar[ 42]
float ,}
")).
Eval vm_compute in ("<<<M1495>>>" ++ check (runes_of_ascii "packet
//	t
// trailing space 
i16 {
// packet A { u8 x, }
// c
char[
3
    ] u8x @lengthOf(
u8x ) , @calculatedFrom(""" ++ [128512]%N ++ runes_of_ascii """ // @lengthOf(
)
i16	Foo
@lengthOf(	string_
    )`doc`	, repeat	i64 metadata , @lengthOf( string_
) i8 // c
u  `line1
line2`	,
}
")).
Eval vm_compute in ("<<<M1554>>>" ++ check (runes_of_ascii "packet
//	t
// trailing space 
_x {
// packet A { u8 x, }
// c
char[
3
    ] u8x @lengthOf(
u8x ) , @calculatedFrom(""" ++ [128512]%N ++ runes_of_ascii """ // @lengthOf(
i16
)	Foo
@lengthOf(	string_
    )`doc`	, repeat	i64 metadata , @lengthOf( string_
) i8 // c
u  `line1
line2`	,
}
")).
Eval vm_compute in ("<<<M1550>>>" ++ check (runes_of_ascii "packet
//	t
// trailing space 
_x {
// packet A { u8 x, }
// c
char[
3
    ] u8x @lengthOf(
u8x ) , @calculatedFrom(as // @lengthOf(
)
i16	Foo
@lengthOf(	string_
    )`doc`	, repeat	i64 metadata , @lengthOf( string_
) i8 // c
u  `line1
line2`	,
}
")).
Eval vm_compute in ("<<<M1595>>>" ++ check (runes_of_ascii "packet
//	t
// trailing space 
_x {
// packet A { u8 x, }
// c
char[
3
    ] u8x @lengthOf(
u8x ) , @calculatedFrom(""" ++ [128512]%N ++ runes_of_ascii """ // @lengthOf(
)
i16	Foo
@lengthOf(	string_
    )`doc`	, {	i64 metadata , @lengthOf( string_
) i8 // c
u  `line1
line2`	,
}
")).
Eval vm_compute in ("<<<M227>>>" ++ check (runes_of_ascii "
root packet
rootA { } root packet
// a // b
// trailing space 
_x // " ++ [27880; 37322]%N ++ runes_of_ascii "
{
    i64_, // a // b
} MetaData options1{ // `tick` ""quote"" 'q'
a1 float `crlf
line`
,
    u8x
falsey // " ++ [128512]%N ++ runes_of_ascii " emoji
`" ++ [233]%N ++ runes_of_ascii "`,
f32a MetaDataX,int64 u8x, } packet f32a {}
")).
Eval vm_compute in ("<<<M3706>>>" ++ check (runes_of_ascii "options {
    zchar = ' ';
    MetaDataX = zchar[255];
}

options {
    options1 = ""1"";
}

MetaData u128 {
    char[] leftPad,
}

options {
    a1 = 255;
}

packet As {
    repeat char[007] A,
    f32a @lengthOf(calculatedFrom),
}")).
Eval vm_compute in ("<<<M4367>>>" ++ check (runes_of_ascii "// c
packet BodyLength {
    u {
        char[007] i8i8 `a\`,
        pack {
            match charz as Header {
                ""\n"" : leftPad,
            },
        },
        string u8x @calculatedFrom(""" ++ [233]%N ++ runes_of_ascii "t" ++ [233]%N ++ runes_of_ascii """),
    },
}")).
Eval vm_compute in ("<<<M4061>>>" ++ check (runes_of_ascii "options {
    // packet A { u8 x, }
    rootA = true;
    chars = true// packet A { u8 x, }
}

options {
    lengthOf = 3
    trueish = ' ';
    /// triple
    crc = true;
    rootA = ""it's"";
    chars = int32;//x
}")).
Eval vm_compute in ("<<<M388>>>" ++ check (runes_of_ascii "packet falsey
    //
    { @calculatedFrom( // @lengthOf(
""`tick`"" )
Pad
/// triple
// c
{
match
pack as roots { """ ++ [233]%N ++ runes_of_ascii "t" ++ [233]%N ++ runes_of_ascii """ : u ,
42: //
As""packet"" : Logon,
}
    ,}
    , } options
{ } root
    packet stringy { }")).
Eval vm_compute in ("<<<M456>>>" ++ check (runes_of_ascii "MetaData Foo
{
zchar[ 10 ]
i8i8 //	t
,
    zchar[	1 ]  zchar  ,  zchar lengthOf, string//
metadata `tab	here` , matchKey  x// " ++ [128512]%N ++ runes_of_ascii " emoji
, /// triple
f32
    // @lengthOf(
    leftPad `it's` ,
    // c
    }")).
Eval vm_compute in ("<<<M1729>>>" ++ check (runes_of_ascii "options { trueish = ""`tick`"" ; string_= """ ++ [233]%N ++ runes_of_ascii "t" ++ [233]%N ++ runes_of_ascii """
    // c
    } root
    options body { stringy @calculatedFrom(
""a	b"" ) `line1
line2` , }
packet Logon {
    @leftPad(
    ' ' ) //	t
u16 string_ `u8 x,` ,
}
")).
Eval vm_compute in ("<<<M1748>>>" ++ check (runes_of_ascii "options { trueish = ""`tick`"" ; string_= """ ++ [233]%N ++ runes_of_ascii "t" ++ [233]%N ++ runes_of_ascii """
    // c
    } root
    packet body { stringy ""a	b""
@calculatedFrom( ) `line1
line2` , }
packet Logon {
    @leftPad(
    ' ' ) //	t
u16 string_ `u8 x,` ,
}
")).
Eval vm_compute in ("<<<M1756>>>" ++ check (runes_of_ascii "options { trueish = ""`tick`"" ; string_= """ ++ [233]%N ++ runes_of_ascii "t" ++ [233]%N ++ runes_of_ascii """
    // c
    } root
    packet body { stringy @calculatedFrom(
""a	b""  `line1
line2` , }
packet Logon {
    @leftPad(
    ' ' ) //	t
u16 string_ `u8 x,` ,
}
")).
Eval vm_compute in ("<<<M193>>>" ++ check (runes_of_ascii "MetaData
    Header { }MetaData Logon {// trailing space 
int32 falsey ,// " ++ [27880; 37322]%N ++ runes_of_ascii "
packetx
_x ,
char[] Logon`two words`
,
    matchKey packetx ,
    u32 u // packet A { u8 x, }
,	i64 float `it's`
, }
")).
Eval vm_compute in ("<<<M919>>>" ++ check (runes_of_ascii "MetaData float
{ // " ++ [27880; 37322]%N ++ runes_of_ascii "
} root packet	Header {float  {
i32 u8x @lengthOf( a1 )
`u8 x,` , }
, char[] i64_
@calculatedFrom( ""a\\"" )
`" ++ [233]%N ++ runes_of_ascii "`,
    float64	packetx `{ , }`,
    } // packet A { u8 x, }")).
Eval vm_compute in ("<<<M138>>>" ++ check (runes_of_ascii "options
{ MetaDataX=""\n""
    /// triple
    stringy = 4294967296 ; Packet=
    false	; As = ""a\\"" /// triple
; stringy = ' ';} options {
}
    MetaData roots {
stringy MetaDataX
    , }")).
Eval vm_compute in ("<<<M591>>>" ++ check (runes_of_ascii "options { packetx =' '
}root	packet i64_ {string // trailing space 
Foo , @tag(// " ++ [27880; 37322]%N ++ runes_of_ascii "
3	) u128 @calculatedFrom( ""\" ++ [233]%N ++ runes_of_ascii """ )	`
` , repeat char[//
00  ] Logon ,repeat crc lengthOf`a\` , }
")).
Eval vm_compute in ("<<<M1219>>>" ++ check (runes_of_ascii "
packet u128{@leftPad //x
( ' '
    ) @tag( 3 ) @calculatedFrom(
    /// triple
    ""abc"" ) repeat A
    ,  } packet
x {
u16 Z9_
`u8 x,` // c
, }packet	int { Logon	chars , }")).
Eval vm_compute in ("<<<M156>>>" ++ check (runes_of_ascii "packet asx {
    }
    // packet A { u8 x, }
    options
    { options1
= float64 leftPad
=true ; MetaDataX =char[00] ; roots=false }// " ++ [128512]%N ++ runes_of_ascii " emoji
packet string_{
    }

")).
Eval vm_compute in ("<<<M3979>>>" ++ check (runes_of_ascii "

  options	{
	} root  packet	i8i8{ }
    packet
asx  { f64 pack
    ,

    @calculatedFrom(	""a\\""	) zchar[ 255 
] rootA`it's`
    // c
      , 	 // " ++ [27880; 37322]%N ++ runes_of_ascii "
} // " ++ [27880; 37322]%N ++ runes_of_ascii "
")).
Eval vm_compute in ("<<<M2152>>>" ++ check (runes_of_ascii "options{
_x
= true
} options
{ o	= /// triple
false
    ; chars
= ""\n"" ""`tick`"" root packet	Pad
/// triple
// packet A { u8 x, }
{	chars
    // a // b
    ,}")).
Eval vm_compute in ("<<<M4322>>>" ++ check (runes_of_ascii "MetaData As {
    // " ++ [128512]%N ++ runes_of_ascii " emoji
    // @lengthOf(
    a1 Pad,
    zchar[00] body `// not a comment`,
    crc uint8x `// not a comment`,
    uint32 packetx ``,
}")).
Eval vm_compute in ("<<<M2343>>>" ++ check (runes_of_ascii "// c
packet x { @lengthOf( metadata ) repeat lengthOf
,a1{
trueish	,// c
repeat//	t
MetaDataX , } , zchar[
    42	] rootA // `tick` ""quote"" 'q'
,
    '}
")).
Eval vm_compute in ("<<<M2350>>>" ++ check (runes_of_ascii "// c
packet x { metadata @lengthOf( ) repeat lengthOf
,a1{
trueish	,// c
repeat//	t
MetaDataX , } , zchar[
    42	] rootA // `tick` ""quote"" 'q'
,
    }
")).
Eval vm_compute in ("<<<M2409>>>" ++ check (runes_of_ascii "// c
packet x { @lengthOf( metadata ) repeat lengthOf
,a1{
trueish	,// c
repeat//	t
MetaDataX  } , zchar[
    42	] rootA // `tick` ""quote"" 'q'
,
    }
")).
Eval vm_compute in ("<<<M2181>>>" ++ check (runes_of_ascii "options{
_x
= true
} options
{ o	= /// triple
false
    ; chars
= ""\n"" } root packet	Pad
/// triple
// packet A { u8 x, }
{	chars
    // a // b
    },")).
Eval vm_compute in ("<<<M398>>>" ++ check (runes_of_ascii "root packet chars {
@lengthOf( a1
// packet A { u8 x, }
//	t
) Z9_ msg_type `it's` , @lengthOf(	calculatedFrom ) //
repeat calculatedFrom `{ , }`
, }")).
Eval vm_compute in ("<<<M2394>>>" ++ check (runes_of_ascii "// c
packet x { @lengthOf( metadata )  lengthOf
,a1{
trueish	,// c
repeat//	t
MetaDataX , } , zchar[
    42	] rootA // `tick` ""quote"" 'q'
,
    }
")).
Eval vm_compute in ("<<<M2371>>>" ++ check (runes_of_ascii "// c
packet x { } metadata ) repeat lengthOf
,a1{
trueish	,// c
repeat//	t
MetaDataX , } , zchar[
    42	] rootA // `tick` ""quote"" 'q'
,
    }
")).
Eval vm_compute in ("<<<M4075>>>" ++ check (runes_of_ascii "packet A {
    match k as n {
        [
            ""a"", ""bb"", 007, ""d"", ""e"",
            66, ""g"", ""h""
        ] : B,
        2 : C,
    },
}")).
Eval vm_compute in ("<<<M3582>>>" ++ check (runes_of_ascii "

  packet A  {	u8

    a
    ,} 
packet
    B
{ 
u16 b,}

    root packet 
P 
{ u8 
K ,
match K as M
{ 
1  :
A
	,1
:B , }
    ,
	}
")).
Eval vm_compute in ("<<<M1770>>>" ++ check (runes_of_ascii "options { trueish = ""`tick`"" ; string_= """ ++ [233]%N ++ runes_of_ascii "t" ++ [233]%N ++ runes_of_ascii """
    // c
    } root
    packet body { stringy @calculatedFrom(
""a	b"" ) `line1
line2`")).
Eval vm_compute in ("<<<M2178>>>" ++ check (runes_of_ascii "options{
_x
= true
} options
{ o	= /// triple
false
    ; chars
= ""\n"" } root packet	Pad
/// triple
// packet A { u8 x, }
{")).
Eval vm_compute in ("<<<M1435>>>" ++ check (runes_of_ascii "
packet
    falsey { Header@calculatedFrom(""packet""  ) zchar[ char[
    0123456789 ] packetx
    , } // `tick` ""quote"" 'q'")).
Eval vm_compute in ("<<<M3327>>>" ++ check (runes_of_ascii "root packet matchKey { zchar[ 3 ] pack
// c
@calculatedFrom( ""a	b"" ) `doc` , } options { } MetaData A { int8 msg_type , }")).
Eval vm_compute in ("<<<M3757>>>" ++ check (runes_of_ascii "packet A {
    Inner {
        u8 x `a
        b`,
        Deep {
            u8 y `a
            b`,
        },
    },
}")).
Eval vm_compute in ("<<<M1480>>>" ++ check (runes_of_ascii "
packet
    falsey { Header@calculatedFrom(""packet""  ) , char[
    0123456789 ] pa<cketx
    , } // `tick` ""quote"" 'q'")).
Eval vm_compute in ("<<<M3022>>>" ++ check (runes_of_ascii "packet A {
    Inner {
        u8 x `a
    b
  c`,
        Deep {
            u8 y `a
    b
  c`,
        },
    },
}")).
Eval vm_compute in ("<<<M3743>>>" ++ check (runes_of_ascii "

  packet

A
{
match k  as n
{

    [
1	,""bb""
,
007 ,
	""d"" ,
    5
	, ""f""  , 7
    ]
    :

B 
, 2
:C  }, } ")).
Eval vm_compute in ("<<<M808>>>" ++ check (runes_of_ascii "MetaData string_{ Header
    u128`tab	here` ,i64 Z9_
// " ++ [27880; 37322]%N ++ runes_of_ascii "
/// triple
, x matchKey
,string
u, f64
    Foo, }

")).
Eval vm_compute in ("<<<M1442>>>" ++ check (runes_of_ascii "
packet
    falsey { Header@calculatedFrom(""packet""  ) , char[
     ] packetx
    , } // `tick` ""quote"" 'q'")).
Eval vm_compute in ("<<<M3703>>>" ++ check (runes_of_ascii "packet o{ repeat
Logon
uint8x
	,	}
	options

    {  asx // c

=zchar[ 3

]

    stringy
='\x00' }
")).
Eval vm_compute in ("<<<M4056>>>" ++ check (runes_of_ascii "options {
    Packet = 4294967296;
    i64_ = ""1"";
    Z9_ = ""abc"";
    options1 = ""a\\"";
    o = 0;
}")).
Eval vm_compute in ("<<<M4022>>>" ++ check (runes_of_ascii "MetaData 
body {
    i64

    pack`it's`
, 
  // c
    }packet

stringy{ int16	calculatedFrom 
,} ")).
Eval vm_compute in ("<<<M2966>>>" ++ check (runes_of_ascii "packet A {
  match k as n {
    [1, ""bb"", 007, ""d"", 5, ""f"", 7, ""h"", 9, ""j""] : B,
    2 : C
  },
}")).
Eval vm_compute in ("<<<M2209>>>" ++ check (runes_of_ascii "options options
{ } options { BodyLength= u16 Header= f64 ; u128 =
    true
    ; } // a // b")).
Eval vm_compute in ("<<<M1365>>>" ++ check (runes_of_ascii "MetaData x_y_z {
    // " ++ [128512]%N ++ runes_of_ascii " emoji
    x
    i8i8 `// not a comment` ,pack _x, //x
i64_ len ,
}")).
Eval vm_compute in ("<<<M2242>>>" ++ check (runes_of_ascii "options
{ } options { BodyLength= u16 u16 Header= f64 ; u128 =
    true
    ; } // a // b")).
Eval vm_compute in ("<<<M3275>>>" ++ check (runes_of_ascii "MetaData float { float64 // c
charz `
` , } root packet chars { @rightPad ( '0' ) Foo , }")).
Eval vm_compute in ("<<<M3486>>>" ++ check (runes_of_ascii "packet
// c
chars { } packet MetaDataX { @tag( 42 ) i16 string_ , repeat x `say ""hi""` , }")).
Eval vm_compute in ("<<<M3518>>>" ++ check (runes_of_ascii "packet chars { } packet MetaDataX { @tag( 42 ) i16 string_ , repeat x `say ""hi""` ,
// c
}")).
Eval vm_compute in ("<<<M2249>>>" ++ check (runes_of_ascii "options
{ } options { BodyLength= u16 float32= f64 ; u128 =
    true
    ; } // a // b")).
Eval vm_compute in ("<<<M2168>>>" ++ check (runes_of_ascii "options{
_x
= true
} options
{ o	= /// triple
false
    ; chars
= ""\n"" } root packet")).
Eval vm_compute in ("<<<M3226>>>" ++ check (runes_of_ascii "packet metadata { Logon { A `" ++ [28040; 24687; 31867; 22411]%N ++ runes_of_ascii "`
// c
, tag o , } , zchar len `// not a comment` , }")).
Eval vm_compute in ("<<<M2236>>>" ++ check (runes_of_ascii "options
{ } options { BodyLength u16 Header= f64 ; u128 =
    true
    ; } // a // b")).
Eval vm_compute in ("<<<M3449>>>" ++ check (runes_of_ascii "packet o { repeat Logon uint8x , } options { asx // c
= zchar[ 3 ] stringy = '\x00' }")).
Eval vm_compute in ("<<<M4347>>>" ++ check (runes_of_ascii "packet pack {
    repeat As {
        char[65535] crc `crlf
        line`,
    },
}")).
Eval vm_compute in ("<<<M2936>>>" ++ check (runes_of_ascii "packet A {
  match k as n {
    [1, 22, 007, 4, 5, 66, 7, 8] : B,
    2 : C
  },
}")).
Eval vm_compute in ("<<<M3702>>>" ++ check (runes_of_ascii "  // trailing space 

	MetaData

body

    {
int32
MetaDataX
,
    As x,
    } ")).
Eval vm_compute in ("<<<M3956>>>" ++ check (runes_of_ascii "root packet calculatedFrom {
    uint8 pack @lengthOf(crc) `// not a comment`,
}")).
Eval vm_compute in ("<<<M4537>>>" ++ check (runes_of_ascii "// trailing space 
packet Pad {
    @lengthOf(asx)
    repeat char[3] u128,
}")).
Eval vm_compute in ("<<<M4161>>>" ++ check (runes_of_ascii "// trailing space 
packet Header {
    // c
    repeat char[] MetaDataX,
}")).
Eval vm_compute in ("<<<M4569>>>" ++ check (runes_of_ascii "packet  x
{@rightPad
	( ) repeat
    roots
	Logon
	`doc` ,} 
      // c")).
Eval vm_compute in ("<<<M30>>>" ++ check (runes_of_ascii "MetaData
T {crc /// triple
u8x `say ""hi""` , } // `tick` ""quote"" 'q'")).
Eval vm_compute in ("<<<M3182>>>" ++ check (runes_of_ascii "packet A {
    match k as n {
        1 : B,
        // c
    },
}")).
Eval vm_compute in ("<<<M1205>>>" ++ check (runes_of_ascii "MetaData stringy{ zchar[ 007 ] body /// triple
`tab	here` , }
")).
Eval vm_compute in ("<<<M2747>>>" ++ check (runes_of_ascii "options int8 x_y_z i16 char[ char[] @calculatedFrom( packet =")).
Eval vm_compute in ("<<<M4524>>>" ++ check (runes_of_ascii "  packet A{ B{ // a

	u8
	x, 	 // b

} 	 // c
	, 	 // d
}")).
Eval vm_compute in ("<<<M3383>>>" ++ check (runes_of_ascii "packet x { @rightPad ( ) repeat roots Logon `doc` // c
, }")).
Eval vm_compute in ("<<<M4554>>>" ++ check (runes_of_ascii "
MetaData
	u8x

    { 
msg_type matchKey

,

    }
")).
Eval vm_compute in ("<<<M583>>>" ++ check (runes_of_ascii "options {Packet =
    255 ; f32a
    = '0'
T= '0' }")).
Eval vm_compute in ("<<<M3527>>>" ++ check (runes_of_ascii "root packet P {
    repeat char cs,
    u8 x,
}
")).
Eval vm_compute in ("<<<M4515>>>" ++ check (runes_of_ascii "
packet A{
u8 x  `d" ++ [6158]%N ++ runes_of_ascii "`

    ,// c" ++ [6158]%N ++ runes_of_ascii "
      } ")).
Eval vm_compute in ("<<<M1426>>>" ++ check (runes_of_ascii "
packet
    falsey { Header@calculatedFrom(")).
Eval vm_compute in ("<<<M3150>>>" ++ check (runes_of_ascii "packet A {
    u8 x,    // c    u8 y,
}")).
Eval vm_compute in ("<<<M3869>>>" ++ check (runes_of_ascii "root packet A {
    u8 x `
        x`,
}")).
Eval vm_compute in ("<<<M2358>>>" ++ check (runes_of_ascii "// c
packet x { @lengthOf( metadata )")).
Eval vm_compute in ("<<<M71>>>" ++ check (runes_of_ascii "// " ++ [27880; 37322]%N ++ runes_of_ascii "
packet  matchKey{
    }
// c
")).
Eval vm_compute in ("<<<M2618>>>" ++ check (runes_of_ascii "packet A { match k as n { 1 B }, }")).
Eval vm_compute in ("<<<M1143>>>" ++ check (runes_of_ascii "
options { options1= false
    }")).
Eval vm_compute in ("<<<M3698>>>" ++ check (runes_of_ascii "root packet P {
    string s,
}")).
Eval vm_compute in ("<<<M3137>>>" ++ check (runes_of_ascii "packet A {
 u8 x `d" ++ [65279]%N ++ runes_of_ascii "`, // c" ++ [65279]%N ++ runes_of_ascii "
}")).
Eval vm_compute in ("<<<M4076>>>" ++ check (runes_of_ascii "packet body{// @lengthOf(
}
")).
Eval vm_compute in ("<<<M2190>>>" ++ check (runes_of_ascii "options{
_x
= true
} optio")).
Eval vm_compute in ("<<<M3257>>>" ++ check (runes_of_ascii "root packet
// c
pack { }")).
Eval vm_compute in ("<<<M1178>>>" ++ check (runes_of_ascii "root packet //
i64_ { }")).
Eval vm_compute in ("<<<M2576>>>" ++ check (runes_of_ascii "packet A { x `d` y, }")).
Eval vm_compute in ("<<<M3998>>>" ++ check (runes_of_ascii "options {
    // a
}")).
Eval vm_compute in ("<<<M3473>>>" ++ check (runes_of_ascii "MetaData
// c
o { }")).
Eval vm_compute in ("<<<M3096>>>" ++ check (runes_of_ascii "// c" ++ [8232]%N ++ runes_of_ascii "
packet A {
}")).
Eval vm_compute in ("<<<M2635>>>" ++ check (runes_of_ascii "packet A { } // c")).
Eval vm_compute in ("<<<M2493>>>" ++ check (runes_of_ascii "@calculatedFrom(")).
Eval vm_compute in ("<<<M4448>>>" ++ check (runes_of_ascii "MetaData T {
}")).
Eval vm_compute in ("<<<M436>>>" ++ check (runes_of_ascii " /// triple")).
Eval vm_compute in ("<<<M2088>>>" ++ check (runes_of_ascii "options{")).
Eval vm_compute in ("<<<M1496>>>" ++ check (runes_of_ascii "packet")).
Eval vm_compute in ("<<<M2451>>>" ++ check (runes_of_ascii "false")).
Eval vm_compute in ("<<<M524>>>" ++ check (runes_of_ascii " //x")).
Eval vm_compute in ("<<<M2439>>>" ++ check (runes_of_ascii "u80")).
Eval vm_compute in ("<<<M3733>>>" ++ check (runes_of_ascii "//x")).
Eval vm_compute in ("<<<M2535>>>" ++ check (runes_of_ascii "_")).
