From FP Require Import Lexer Parser ShowPT Digest.
From Coq Require Import String List NArith.
Import ListNotations.
Open Scope string_scope.
Set Printing Width 100000000.
Set Printing Depth 100000000.
Definition nl : string := String (Ascii.ascii_of_nat 10) EmptyString.
Definition model_lex (rs : list rune) : string := show_toks (lex rs).
Definition model_parse (rs : list rune) : string :=
  show_pt (match lex rs with Some ts => parse ts | None => None end).
(* coqc is slow at printing long strings: digests first (Digest.v), full texts on demand *)
Definition check (rs : list rune) : string :=
  digest (model_lex rs) ++ " " ++ digest (model_parse rs).
Definition full (rs : list rune) : string := model_lex rs ++ nl ++ model_parse rs.
Definition terms (ts : list tok) (t : pt) : string :=
  digest (show_toks (Some ts)) ++ " " ++ digest (show_pt (Some t)) ++ " " ++ digest (show_pt (parse ts)).
Definition terms_full (ts : list tok) (t : pt) : string :=
  show_toks (Some ts) ++ nl ++ show_pt (Some t) ++ nl ++ show_pt (parse ts).
Eval vm_compute in ("<<<M14>>>" ++ check (runes_of_ascii "
")).
Eval vm_compute in ("<<<M46>>>" ++ check (runes_of_ascii "
MetaData int	{ string f32a//	t
`two words`
, } //")).
Eval vm_compute in ("<<<M78>>>" ++ check (runes_of_ascii "MetaData
chars {
uint32 chars	`doc` , int64 float, // trailing space 
u8
pack `
` ,
    }
")).
Eval vm_compute in ("<<<M110>>>" ++ check (runes_of_ascii "packet  matchKey
{
    } options{ int = ""a\\""
; lengthOf //	t
= ""it's"" } MetaData lengthOf { Pad  tag
    , } root packet
    x {int @lengthOf(	pack )
`a\` //
, string matchKey
@lengthOf( chars
    )  `" ++ [233]%N ++ runes_of_ascii "` , repeat repeatCount
//x
//
{
    // packet A { u8 x, }
    match x_y_z as A
    {""1"": o	,
// packet A { u8 x, }
// `tick` ""quote"" 'q'
7 :uint8x
// `tick` ""quote"" 'q'
//	t
, [
// `tick` ""quote"" 'q'
// " ++ [128512]%N ++ runes_of_ascii " emoji
65535 , """"
] ://
Header """ ++ [233]%N ++ runes_of_ascii "t" ++ [233]%N ++ runes_of_ascii """ :  u8x
    """ ++ [28040; 24687]%N ++ runes_of_ascii """ : charz 65535 :
stringy }// " ++ [128512]%N ++ runes_of_ascii " emoji
,	zchar[007]	uint8x ,f32 repeatCount @lengthOf( // c
float) `two words` , f64 A  `u8 x,`	,
}, }
    packet Header{ }
")).
Eval vm_compute in ("<<<M142>>>" ++ check (runes_of_ascii "MetaData
options1
    {
    char[ 7 ] i8i8
, zchar[ 65535
] u128
    , char[]  repeatCount
,
}
")).
Eval vm_compute in ("<<<M174>>>" ++ check (runes_of_ascii "options { roots
=//x
int64 }
// @lengthOf(
// @lengthOf(
packet
    int {
char  zchar, repeat len {
    f32a `" ++ [28040; 24687; 31867; 22411]%N ++ runes_of_ascii "`, } ,zchar[
007 ]As
    `it's`
,  zchar[007
    // a // b
    ] uint8x @lengthOf(
    //x
    Foo)
    ,
// packet A { u8 x, }
// packet A { u8 x, }
}
")).
Eval vm_compute in ("<<<T174>>>" ++ terms [mkTok 1 "options" 1 0 false; mkTok 2 "{" 1 8 false; mkTok 42 "roots" 1 10 false; mkTok 4 "=" 2 0 false; mkTok 44 "//x" 2 1 true; mkTok 27 "int64" 3 0 false; mkTok 3 "}" 3 6 false; mkTok 44 "// @lengthOf(" 4 0 true; mkTok 44 "// @lengthOf(" 5 0 true; mkTok 35 "packet" 6 0 false; mkTok 42 "int" 7 4 false; mkTok 2 "{" 7 8 false; mkTok 19 "char" 8 0 false; mkTok 42 "zchar" 8 6 false; mkTok 40 "," 8 11 false; mkTok 36 "repeat" 8 13 false; mkTok 42 "len" 8 20 false; mkTok 2 "{" 8 24 false; mkTok 42 "f32a" 9 4 false; mkTok 43 (string_of_bytes [96; 230; 182; 136; 230; 129; 175; 231; 177; 187; 229; 158; 139; 96]%N) 9 9 false; mkTok 40 "," 9 15 false; mkTok 3 "}" 9 17 false; mkTok 40 "," 9 19 false; mkTok 14 "zchar[" 9 20 false; mkTok 30 "007" 10 0 false; mkTok 13 "]" 10 4 false; mkTok 42 "As" 10 5 false; mkTok 43 "`it's`" 11 4 false; mkTok 40 "," 12 0 false; mkTok 14 "zchar[" 12 3 false; mkTok 30 "007" 12 9 false; mkTok 44 "// a // b" 13 4 true; mkTok 13 "]" 14 4 false; mkTok 42 "uint8x" 14 6 false; mkTok 7 "@lengthOf(" 14 13 false; mkTok 44 "//x" 15 4 true; mkTok 42 "Foo" 16 4 false; mkTok 6 ")" 16 7 false; mkTok 40 "," 17 4 false; mkTok 44 "// packet A { u8 x, }" 18 0 true; mkTok 44 "// packet A { u8 x, }" 19 0 true; mkTok 3 "}" 20 0 false; mkTok 0 "<EOF>" 21 0 false] (mkPacket (mkPtok 1 "options" 1 0 0) (Some (mkPtok 3 "}" 20 0 41)) [(DOption (mkOptionDef (mkSpan (mkPtok 1 "options" 1 0 0) (mkPtok 3 "}" 3 6 6)) (mkPtok 1 "options" 1 0 0) (mkPtok 2 "{" 1 8 1) [(mkOptionDecl (mkSpan (mkPtok 42 "roots" 1 10 2) (mkPtok 27 "int64" 3 0 5)) (mkPtok 42 "roots" 1 10 2) (mkPtok 4 "=" 2 0 3) (VType (mkSpan (mkPtok 27 "int64" 3 0 5) (mkPtok 27 "int64" 3 0 5)) (TyBasic (mkSpan (mkPtok 27 "int64" 3 0 5) (mkPtok 27 "int64" 3 0 5)) (mkBasicType (mkSpan (mkPtok 27 "int64" 3 0 5) (mkPtok 27 "int64" 3 0 5)) (mkPtok 27 "int64" 3 0 5)))) None)] (mkPtok 3 "}" 3 6 6))); (DPacket (mkPacketDef (mkSpan (mkPtok 35 "packet" 6 0 9) (mkPtok 3 "}" 20 0 41)) None (mkPtok 35 "packet" 6 0 9) (mkPtok 42 "int" 7 4 10) (mkPtok 2 "{" 7 8 11) [(mkFieldWithAttr (mkSpan (mkPtok 19 "char" 8 0 12) (mkPtok 40 "," 8 11 14)) [] (MetaField (mkSpan (mkPtok 19 "char" 8 0 12) (mkPtok 40 "," 8 11 14)) None (mkMetaDecl (mkSpan (mkPtok 19 "char" 8 0 12) (mkPtok 40 "," 8 11 14)) (TyBasic (mkSpan (mkPtok 19 "char" 8 0 12) (mkPtok 19 "char" 8 0 12)) (mkBasicType (mkSpan (mkPtok 19 "char" 8 0 12) (mkPtok 19 "char" 8 0 12)) (mkPtok 19 "char" 8 0 12))) (mkPtok 42 "zchar" 8 6 13) None (mkPtok 40 "," 8 11 14)))); (mkFieldWithAttr (mkSpan (mkPtok 36 "repeat" 8 13 15) (mkPtok 40 "," 9 19 22)) [] (InerObjectField (mkSpan (mkPtok 36 "repeat" 8 13 15) (mkPtok 40 "," 9 19 22)) (Some (mkPtok 36 "repeat" 8 13 15)) (InerObjectDecl (mkSpan (mkPtok 42 "len" 8 20 16) (mkPtok 3 "}" 9 17 21)) (mkPtok 42 "len" 8 20 16) (mkPtok 2 "{" 8 24 17) [(ObjectField (mkSpan (mkPtok 42 "f32a" 9 4 18) (mkPtok 40 "," 9 15 20)) None (mkPtok 42 "f32a" 9 4 18) None (Some (mkPtok 43 (string_of_bytes [96; 230; 182; 136; 230; 129; 175; 231; 177; 187; 229; 158; 139; 96]%N) 9 9 19)) (mkPtok 40 "," 9 15 20))] (mkPtok 3 "}" 9 17 21)) (mkPtok 40 "," 9 19 22))); (mkFieldWithAttr (mkSpan (mkPtok 14 "zchar[" 9 20 23) (mkPtok 40 "," 12 0 28)) [] (MetaField (mkSpan (mkPtok 14 "zchar[" 9 20 23) (mkPtok 40 "," 12 0 28)) None (mkMetaDecl (mkSpan (mkPtok 14 "zchar[" 9 20 23) (mkPtok 40 "," 12 0 28)) (TyFixed (mkSpan (mkPtok 14 "zchar[" 9 20 23) (mkPtok 13 "]" 10 4 25)) (mkFixedString (mkSpan (mkPtok 14 "zchar[" 9 20 23) (mkPtok 13 "]" 10 4 25)) (mkPtok 14 "zchar[" 9 20 23) (mkPtok 30 "007" 10 0 24) (mkPtok 13 "]" 10 4 25))) (mkPtok 42 "As" 10 5 26) (Some (mkPtok 43 "`it's`" 11 4 27)) (mkPtok 40 "," 12 0 28)))); (mkFieldWithAttr (mkSpan (mkPtok 14 "zchar[" 12 3 29) (mkPtok 40 "," 17 4 38)) [] (LengthField (mkSpan (mkPtok 14 "zchar[" 12 3 29) (mkPtok 40 "," 17 4 38)) (mkLengthFieldDecl (mkSpan (mkPtok 14 "zchar[" 12 3 29) (mkPtok 40 "," 17 4 38)) (Some (TyFixed (mkSpan (mkPtok 14 "zchar[" 12 3 29) (mkPtok 13 "]" 14 4 32)) (mkFixedString (mkSpan (mkPtok 14 "zchar[" 12 3 29) (mkPtok 13 "]" 14 4 32)) (mkPtok 14 "zchar[" 12 3 29) (mkPtok 30 "007" 12 9 30) (mkPtok 13 "]" 14 4 32)))) (mkPtok 42 "uint8x" 14 6 33) (mkLengthOf (mkSpan (mkPtok 7 "@lengthOf(" 14 13 34) (mkPtok 6 ")" 16 7 37)) (mkPtok 7 "@lengthOf(" 14 13 34) (mkPtok 42 "Foo" 16 4 36) (mkPtok 6 ")" 16 7 37)) None (mkPtok 40 "," 17 4 38))))] (mkPtok 3 "}" 20 0 41)))])).
Eval vm_compute in ("<<<M206>>>" ++ check (runes_of_ascii "
root packet
    tag { f64
len ,
char[
    4294967296 ] A@calculatedFrom( """"  )`it's`, @tag( 65535
    )
match charz// a // b
as tag	{
    [ ""// no comment"" , """ ++ [128512]%N ++ runes_of_ascii """ ]:
zchar	,
    ""\n"":falsey  , },} packet float {f32a { repeat  packetx{
    //x
    char[ 255 ] int `it's`  ,} , uint32 x_y_z @lengthOf( pack ) // " ++ [27880; 37322]%N ++ runes_of_ascii "
,}, } // `tick` ""quote"" 'q'")).
Eval vm_compute in ("<<<M238>>>" ++ check (runes_of_ascii "packet float { }	packet
body
    { }
//x
")).
Eval vm_compute in ("<<<M270>>>" ++ check (runes_of_ascii "options { Pad = char[]; u8x
    // trailing space 
    =
    ""packet"";
o = i64
; stringy
=""a\""b""
packetx
    // trailing space 
    = 65535
} options
{ chars
= '0'}")).
Eval vm_compute in ("<<<M302>>>" ++ check (runes_of_ascii "options { leftPad //	t
= //	t
""" ++ [28040; 24687]%N ++ runes_of_ascii """ } // " ++ [128512]%N ++ runes_of_ascii " emoji")).
Eval vm_compute in ("<<<M334>>>" ++ check (runes_of_ascii "
//
")).
Eval vm_compute in ("<<<M366>>>" ++ check (runes_of_ascii "packet i64_ { }
")).
Eval vm_compute in ("<<<M398>>>" ++ check (runes_of_ascii "packet BodyLength// packet A { u8 x, }
{ leftPad lengthOf ,	float rootA `it's`	, @leftPad (
    '0' ) repeat
    BodyLength ,@rightPad
(
    ) i16// a // b
falsey @lengthOf(// a // b
i64_ ) , // `tick` ""quote"" 'q'
repeat
char[ 0123456789 ]uint8x , repeat
    // " ++ [27880; 37322]%N ++ runes_of_ascii "
    f64 i64_,	a1 tag`" ++ [233]%N ++ runes_of_ascii "` ,char[ 10 ]packetx
`say ""hi""`
,
    repeat  tag metadata
`tab	here` , }
    /// triple
    options {
crc = """"
    ;
}
    packet int
{ repeat zchar[	255
    ]	i64_ `two words`//x
,
    string tag@lengthOf( // a // b
Header )
,char chars ,
@lengthOf(
    crc ) match asx as Foo{ 7  : BodyLength , ""packet"" : Z9_
,007 :
    matchKey ,} ,
uint16 metadata// a // b
,
i64_ {	repeat
u8
msg_type, stringy {char[ 0123456789 ] // c
o @calculatedFrom(
""\n"" ) `" ++ [233]%N ++ runes_of_ascii "` ,}
/// triple
// packet A { u8 x, }
, zchar[
00]
    stringy	`line1
line2`
, } ,
@leftPad//
('0') match uint8x as u128 {
[ 1 // a // b
, ""abc"" ]
    : _x  ""a	b"" :Packet
    // c
    3 : _x //	t
, ""`tick`"" :
packetx ,
""\n""
: Header ,  } ,
x
    // c
    @calculatedFrom(
    /// triple
    ""\n"" ) ,zchar[ 65535 ]
    Packet//x
,
} MetaData Logon{
    } packet packetx {
@calculatedFrom( ""a\\"" )
match roots as Foo { [""\n"", 4294967296 ] : asx ,00
:  o , ""{,}"" :Header ,255 : packetx , [255,4294967296	] :MetaDataX
    ,  } , }")).
Eval vm_compute in ("<<<T398>>>" ++ terms [mkTok 35 "packet" 1 0 false; mkTok 42 "BodyLength" 1 7 false; mkTok 44 "// packet A { u8 x, }" 1 17 true; mkTok 2 "{" 2 0 false; mkTok 42 "leftPad" 2 2 false; mkTok 42 "lengthOf" 2 10 false; mkTok 40 "," 2 19 false; mkTok 42 "float" 2 21 false; mkTok 42 "rootA" 2 27 false; mkTok 43 "`it's`" 2 33 false; mkTok 40 "," 2 40 false; mkTok 32 "@leftPad" 2 42 false; mkTok 8 "(" 2 51 false; mkTok 33 "'0'" 3 4 false; mkTok 6 ")" 3 8 false; mkTok 36 "repeat" 3 10 false; mkTok 42 "BodyLength" 4 4 false; mkTok 40 "," 4 15 false; mkTok 32 "@rightPad" 4 16 false; mkTok 8 "(" 5 0 false; mkTok 6 ")" 6 4 false; mkTok 25 "i16" 6 6 false; mkTok 44 "// a // b" 6 9 true; mkTok 42 "falsey" 7 0 false; mkTok 7 "@lengthOf(" 7 7 false; mkTok 44 "// a // b" 7 17 true; mkTok 42 "i64_" 8 0 false; mkTok 6 ")" 8 5 false; mkTok 40 "," 8 7 false; mkTok 44 "// `tick` ""quote"" 'q'" 8 9 true; mkTok 36 "repeat" 9 0 false; mkTok 12 "char[" 10 0 false; mkTok 30 "0123456789" 10 6 false; mkTok 13 "]" 10 17 false; mkTok 42 "uint8x" 10 18 false; mkTok 40 "," 10 25 false; mkTok 36 "repeat" 10 27 false; mkTok 44 (string_of_bytes [47; 47; 32; 230; 179; 168; 233; 135; 138]%N) 11 4 true; mkTok 29 "f64" 12 4 false; mkTok 42 "i64_" 12 8 false; mkTok 40 "," 12 12 false; mkTok 42 "a1" 12 14 false; mkTok 42 "tag" 12 17 false; mkTok 43 (string_of_bytes [96; 195; 169; 96]%N) 12 20 false; mkTok 40 "," 12 24 false; mkTok 12 "char[" 12 25 false; mkTok 30 "10" 12 31 false; mkTok 13 "]" 12 34 false; mkTok 42 "packetx" 12 35 false; mkTok 43 "`say ""hi""`" 13 0 false; mkTok 40 "," 14 0 false; mkTok 36 "repeat" 15 4 false; mkTok 42 "tag" 15 12 false; mkTok 42 "metadata" 15 16 false; mkTok 43 (string_of_bytes [96; 116; 97; 98; 9; 104; 101; 114; 101; 96]%N) 16 0 false; mkTok 40 "," 16 11 false; mkTok 3 "}" 16 13 false; mkTok 44 "/// triple" 17 4 true; mkTok 1 "options" 18 4 false; mkTok 2 "{" 18 12 false; mkTok 42 "crc" 19 0 false; mkTok 4 "=" 19 4 false; mkTok 31 """""" 19 6 false; mkTok 41 ";" 20 4 false; mkTok 3 "}" 21 0 false; mkTok 35 "packet" 22 4 false; mkTok 42 "int" 22 11 false; mkTok 2 "{" 23 0 false; mkTok 36 "repeat" 23 2 false; mkTok 14 "zchar[" 23 9 false; mkTok 30 "255" 23 16 false; mkTok 13 "]" 24 4 false; mkTok 42 "i64_" 24 6 false; mkTok 43 "`two words`" 24 11 false; mkTok 44 "//x" 24 22 true; mkTok 40 "," 25 0 false; mkTok 15 "string" 26 4 false; mkTok 42 "tag" 26 11 false; mkTok 7 "@lengthOf(" 26 14 false; mkTok 44 "// a // b" 26 25 true; mkTok 42 "Header" 27 0 false; mkTok 6 ")" 27 7 false; mkTok 40 "," 28 0 false; mkTok 19 "char" 28 1 false; mkTok 42 "chars" 28 6 false; mkTok 40 "," 28 12 false; mkTok 7 "@lengthOf(" 29 0 false; mkTok 42 "crc" 30 4 false; mkTok 6 ")" 30 8 false; mkTok 38 "match" 30 10 false; mkTok 42 "asx" 30 16 false; mkTok 17 "as" 30 20 false; mkTok 42 "Foo" 30 23 false; mkTok 2 "{" 30 26 false; mkTok 30 "7" 30 28 false; mkTok 39 ":" 30 31 false; mkTok 42 "BodyLength" 30 33 false; mkTok 40 "," 30 44 false; mkTok 31 """packet""" 30 46 false; mkTok 39 ":" 30 55 false; mkTok 42 "Z9_" 30 57 false; mkTok 40 "," 31 0 false; mkTok 30 "007" 31 1 false; mkTok 39 ":" 31 5 false; mkTok 42 "matchKey" 32 4 false; mkTok 40 "," 32 13 false; mkTok 3 "}" 32 14 false; mkTok 40 "," 32 16 false; mkTok 21 "uint16" 33 0 false; mkTok 42 "metadata" 33 7 false; mkTok 44 "// a // b" 33 15 true; mkTok 40 "," 34 0 false; mkTok 42 "i64_" 35 0 false; mkTok 2 "{" 35 5 false; mkTok 36 "repeat" 35 7 false; mkTok 20 "u8" 36 0 false; mkTok 42 "msg_type" 37 0 false; mkTok 40 "," 37 8 false; mkTok 42 "stringy" 37 10 false; mkTok 2 "{" 37 18 false; mkTok 12 "char[" 37 19 false; mkTok 30 "0123456789" 37 25 false; mkTok 13 "]" 37 36 false; mkTok 44 "// c" 37 38 true; mkTok 42 "o" 38 0 false; mkTok 5 "@calculatedFrom(" 38 2 false; mkTok 31 """\n""" 39 0 false; mkTok 6 ")" 39 5 false; mkTok 43 (string_of_bytes [96; 195; 169; 96]%N) 39 7 false; mkTok 40 "," 39 11 false; mkTok 3 "}" 39 12 false; mkTok 44 "/// triple" 40 0 true; mkTok 44 "// packet A { u8 x, }" 41 0 true; mkTok 40 "," 42 0 false; mkTok 14 "zchar[" 42 2 false; mkTok 30 "00" 43 0 false; mkTok 13 "]" 43 2 false; mkTok 42 "stringy" 44 4 false; mkTok 43 (string_of_bytes [96; 108; 105; 110; 101; 49; 10; 108; 105; 110; 101; 50; 96]%N) 44 12 false; mkTok 40 "," 46 0 false; mkTok 3 "}" 46 2 false; mkTok 40 "," 46 4 false; mkTok 32 "@leftPad" 47 0 false; mkTok 44 "//" 47 8 true; mkTok 8 "(" 48 0 false; mkTok 33 "'0'" 48 1 false; mkTok 6 ")" 48 4 false; mkTok 38 "match" 48 6 false; mkTok 42 "uint8x" 48 12 false; mkTok 17 "as" 48 19 false; mkTok 42 "u128" 48 22 false; mkTok 2 "{" 48 27 false; mkTok 18 "[" 49 0 false; mkTok 30 "1" 49 2 false; mkTok 44 "// a // b" 49 4 true; mkTok 40 "," 50 0 false; mkTok 31 """abc""" 50 2 false; mkTok 13 "]" 50 8 false; mkTok 39 ":" 51 4 false; mkTok 42 "_x" 51 6 false; mkTok 31 (string_of_bytes [34; 97; 9; 98; 34]%N) 51 10 false; mkTok 39 ":" 51 16 false; mkTok 42 "Packet" 51 17 false; mkTok 44 "// c" 52 4 true; mkTok 30 "3" 53 4 false; mkTok 39 ":" 53 6 false; mkTok 42 "_x" 53 8 false; mkTok 44 (string_of_bytes [47; 47; 9; 116]%N) 53 11 true; mkTok 40 "," 54 0 false; mkTok 31 """`tick`""" 54 2 false; mkTok 39 ":" 54 11 false; mkTok 42 "packetx" 55 0 false; mkTok 40 "," 55 8 false; mkTok 31 """\n""" 56 0 false; mkTok 39 ":" 57 0 false; mkTok 42 "Header" 57 2 false; mkTok 40 "," 57 9 false; mkTok 3 "}" 57 12 false; mkTok 40 "," 57 14 false; mkTok 42 "x" 58 0 false; mkTok 44 "// c" 59 4 true; mkTok 5 "@calculatedFrom(" 60 4 false; mkTok 44 "/// triple" 61 4 true; mkTok 31 """\n""" 62 4 false; mkTok 6 ")" 62 9 false; mkTok 40 "," 62 11 false; mkTok 14 "zchar[" 62 12 false; mkTok 30 "65535" 62 19 false; mkTok 13 "]" 62 25 false; mkTok 42 "Packet" 63 4 false; mkTok 44 "//x" 63 10 true; mkTok 40 "," 64 0 false; mkTok 3 "}" 65 0 false; mkTok 37 "MetaData" 65 2 false; mkTok 42 "Logon" 65 11 false; mkTok 2 "{" 65 16 false; mkTok 3 "}" 66 4 false; mkTok 35 "packet" 66 6 false; mkTok 42 "packetx" 66 13 false; mkTok 2 "{" 66 21 false; mkTok 5 "@calculatedFrom(" 67 0 false; mkTok 31 """a\\""" 67 17 false; mkTok 6 ")" 67 23 false; mkTok 38 "match" 68 0 false; mkTok 42 "roots" 68 6 false; mkTok 17 "as" 68 12 false; mkTok 42 "Foo" 68 15 false; mkTok 2 "{" 68 19 false; mkTok 18 "[" 68 21 false; mkTok 31 """\n""" 68 22 false; mkTok 40 "," 68 26 false; mkTok 30 "4294967296" 68 28 false; mkTok 13 "]" 68 39 false; mkTok 39 ":" 68 41 false; mkTok 42 "asx" 68 43 false; mkTok 40 "," 68 47 false; mkTok 30 "00" 68 48 false; mkTok 39 ":" 69 0 false; mkTok 42 "o" 69 3 false; mkTok 40 "," 69 5 false; mkTok 31 """{,}""" 69 7 false; mkTok 39 ":" 69 13 false; mkTok 42 "Header" 69 14 false; mkTok 40 "," 69 21 false; mkTok 30 "255" 69 22 false; mkTok 39 ":" 69 26 false; mkTok 42 "packetx" 69 28 false; mkTok 40 "," 69 36 false; mkTok 18 "[" 69 38 false; mkTok 30 "255" 69 39 false; mkTok 40 "," 69 42 false; mkTok 30 "4294967296" 69 43 false; mkTok 13 "]" 69 54 false; mkTok 39 ":" 69 56 false; mkTok 42 "MetaDataX" 69 57 false; mkTok 40 "," 70 4 false; mkTok 3 "}" 70 7 false; mkTok 40 "," 70 9 false; mkTok 3 "}" 70 11 false; mkTok 0 "<EOF>" 70 12 false] (mkPacket (mkPtok 35 "packet" 1 0 0) (Some (mkPtok 3 "}" 70 11 238)) [(DPacket (mkPacketDef (mkSpan (mkPtok 35 "packet" 1 0 0) (mkPtok 3 "}" 16 13 56)) None (mkPtok 35 "packet" 1 0 0) (mkPtok 42 "BodyLength" 1 7 1) (mkPtok 2 "{" 2 0 3) [(mkFieldWithAttr (mkSpan (mkPtok 42 "leftPad" 2 2 4) (mkPtok 40 "," 2 19 6)) [] (ObjectField (mkSpan (mkPtok 42 "leftPad" 2 2 4) (mkPtok 40 "," 2 19 6)) None (mkPtok 42 "leftPad" 2 2 4) (Some (mkPtok 42 "lengthOf" 2 10 5)) None (mkPtok 40 "," 2 19 6))); (mkFieldWithAttr (mkSpan (mkPtok 42 "float" 2 21 7) (mkPtok 40 "," 2 40 10)) [] (ObjectField (mkSpan (mkPtok 42 "float" 2 21 7) (mkPtok 40 "," 2 40 10)) None (mkPtok 42 "float" 2 21 7) (Some (mkPtok 42 "rootA" 2 27 8)) (Some (mkPtok 43 "`it's`" 2 33 9)) (mkPtok 40 "," 2 40 10))); (mkFieldWithAttr (mkSpan (mkPtok 32 "@leftPad" 2 42 11) (mkPtok 40 "," 4 15 17)) [(FAPadding (mkSpan (mkPtok 32 "@leftPad" 2 42 11) (mkPtok 6 ")" 3 8 14)) (mkPaddingAttr (mkSpan (mkPtok 32 "@leftPad" 2 42 11) (mkPtok 6 ")" 3 8 14)) (mkPtok 32 "@leftPad" 2 42 11) (mkPtok 8 "(" 2 51 12) (Some (mkPtok 33 "'0'" 3 4 13)) (mkPtok 6 ")" 3 8 14)))] (ObjectField (mkSpan (mkPtok 36 "repeat" 3 10 15) (mkPtok 40 "," 4 15 17)) (Some (mkPtok 36 "repeat" 3 10 15)) (mkPtok 42 "BodyLength" 4 4 16) None None (mkPtok 40 "," 4 15 17))); (mkFieldWithAttr (mkSpan (mkPtok 32 "@rightPad" 4 16 18) (mkPtok 40 "," 8 7 28)) [(FAPadding (mkSpan (mkPtok 32 "@rightPad" 4 16 18) (mkPtok 6 ")" 6 4 20)) (mkPaddingAttr (mkSpan (mkPtok 32 "@rightPad" 4 16 18) (mkPtok 6 ")" 6 4 20)) (mkPtok 32 "@rightPad" 4 16 18) (mkPtok 8 "(" 5 0 19) None (mkPtok 6 ")" 6 4 20)))] (LengthField (mkSpan (mkPtok 25 "i16" 6 6 21) (mkPtok 40 "," 8 7 28)) (mkLengthFieldDecl (mkSpan (mkPtok 25 "i16" 6 6 21) (mkPtok 40 "," 8 7 28)) (Some (TyBasic (mkSpan (mkPtok 25 "i16" 6 6 21) (mkPtok 25 "i16" 6 6 21)) (mkBasicType (mkSpan (mkPtok 25 "i16" 6 6 21) (mkPtok 25 "i16" 6 6 21)) (mkPtok 25 "i16" 6 6 21)))) (mkPtok 42 "falsey" 7 0 23) (mkLengthOf (mkSpan (mkPtok 7 "@lengthOf(" 7 7 24) (mkPtok 6 ")" 8 5 27)) (mkPtok 7 "@lengthOf(" 7 7 24) (mkPtok 42 "i64_" 8 0 26) (mkPtok 6 ")" 8 5 27)) None (mkPtok 40 "," 8 7 28)))); (mkFieldWithAttr (mkSpan (mkPtok 36 "repeat" 9 0 30) (mkPtok 40 "," 10 25 35)) [] (MetaField (mkSpan (mkPtok 36 "repeat" 9 0 30) (mkPtok 40 "," 10 25 35)) (Some (mkPtok 36 "repeat" 9 0 30)) (mkMetaDecl (mkSpan (mkPtok 12 "char[" 10 0 31) (mkPtok 40 "," 10 25 35)) (TyFixed (mkSpan (mkPtok 12 "char[" 10 0 31) (mkPtok 13 "]" 10 17 33)) (mkFixedString (mkSpan (mkPtok 12 "char[" 10 0 31) (mkPtok 13 "]" 10 17 33)) (mkPtok 12 "char[" 10 0 31) (mkPtok 30 "0123456789" 10 6 32) (mkPtok 13 "]" 10 17 33))) (mkPtok 42 "uint8x" 10 18 34) None (mkPtok 40 "," 10 25 35)))); (mkFieldWithAttr (mkSpan (mkPtok 36 "repeat" 10 27 36) (mkPtok 40 "," 12 12 40)) [] (MetaField (mkSpan (mkPtok 36 "repeat" 10 27 36) (mkPtok 40 "," 12 12 40)) (Some (mkPtok 36 "repeat" 10 27 36)) (mkMetaDecl (mkSpan (mkPtok 29 "f64" 12 4 38) (mkPtok 40 "," 12 12 40)) (TyBasic (mkSpan (mkPtok 29 "f64" 12 4 38) (mkPtok 29 "f64" 12 4 38)) (mkBasicType (mkSpan (mkPtok 29 "f64" 12 4 38) (mkPtok 29 "f64" 12 4 38)) (mkPtok 29 "f64" 12 4 38))) (mkPtok 42 "i64_" 12 8 39) None (mkPtok 40 "," 12 12 40)))); (mkFieldWithAttr (mkSpan (mkPtok 42 "a1" 12 14 41) (mkPtok 40 "," 12 24 44)) [] (ObjectField (mkSpan (mkPtok 42 "a1" 12 14 41) (mkPtok 40 "," 12 24 44)) None (mkPtok 42 "a1" 12 14 41) (Some (mkPtok 42 "tag" 12 17 42)) (Some (mkPtok 43 (string_of_bytes [96; 195; 169; 96]%N) 12 20 43)) (mkPtok 40 "," 12 24 44))); (mkFieldWithAttr (mkSpan (mkPtok 12 "char[" 12 25 45) (mkPtok 40 "," 14 0 50)) [] (MetaField (mkSpan (mkPtok 12 "char[" 12 25 45) (mkPtok 40 "," 14 0 50)) None (mkMetaDecl (mkSpan (mkPtok 12 "char[" 12 25 45) (mkPtok 40 "," 14 0 50)) (TyFixed (mkSpan (mkPtok 12 "char[" 12 25 45) (mkPtok 13 "]" 12 34 47)) (mkFixedString (mkSpan (mkPtok 12 "char[" 12 25 45) (mkPtok 13 "]" 12 34 47)) (mkPtok 12 "char[" 12 25 45) (mkPtok 30 "10" 12 31 46) (mkPtok 13 "]" 12 34 47))) (mkPtok 42 "packetx" 12 35 48) (Some (mkPtok 43 "`say ""hi""`" 13 0 49)) (mkPtok 40 "," 14 0 50)))); (mkFieldWithAttr (mkSpan (mkPtok 36 "repeat" 15 4 51) (mkPtok 40 "," 16 11 55)) [] (ObjectField (mkSpan (mkPtok 36 "repeat" 15 4 51) (mkPtok 40 "," 16 11 55)) (Some (mkPtok 36 "repeat" 15 4 51)) (mkPtok 42 "tag" 15 12 52) (Some (mkPtok 42 "metadata" 15 16 53)) (Some (mkPtok 43 (string_of_bytes [96; 116; 97; 98; 9; 104; 101; 114; 101; 96]%N) 16 0 54)) (mkPtok 40 "," 16 11 55)))] (mkPtok 3 "}" 16 13 56))); (DOption (mkOptionDef (mkSpan (mkPtok 1 "options" 18 4 58) (mkPtok 3 "}" 21 0 64)) (mkPtok 1 "options" 18 4 58) (mkPtok 2 "{" 18 12 59) [(mkOptionDecl (mkSpan (mkPtok 42 "crc" 19 0 60) (mkPtok 41 ";" 20 4 63)) (mkPtok 42 "crc" 19 0 60) (mkPtok 4 "=" 19 4 61) (VString (mkSpan (mkPtok 31 """""" 19 6 62) (mkPtok 31 """""" 19 6 62)) (mkPtok 31 """""" 19 6 62)) (Some (mkPtok 41 ";" 20 4 63)))] (mkPtok 3 "}" 21 0 64))); (DPacket (mkPacketDef (mkSpan (mkPtok 35 "packet" 22 4 65) (mkPtok 3 "}" 65 0 192)) None (mkPtok 35 "packet" 22 4 65) (mkPtok 42 "int" 22 11 66) (mkPtok 2 "{" 23 0 67) [(mkFieldWithAttr (mkSpan (mkPtok 36 "repeat" 23 2 68) (mkPtok 40 "," 25 0 75)) [] (MetaField (mkSpan (mkPtok 36 "repeat" 23 2 68) (mkPtok 40 "," 25 0 75)) (Some (mkPtok 36 "repeat" 23 2 68)) (mkMetaDecl (mkSpan (mkPtok 14 "zchar[" 23 9 69) (mkPtok 40 "," 25 0 75)) (TyFixed (mkSpan (mkPtok 14 "zchar[" 23 9 69) (mkPtok 13 "]" 24 4 71)) (mkFixedString (mkSpan (mkPtok 14 "zchar[" 23 9 69) (mkPtok 13 "]" 24 4 71)) (mkPtok 14 "zchar[" 23 9 69) (mkPtok 30 "255" 23 16 70) (mkPtok 13 "]" 24 4 71))) (mkPtok 42 "i64_" 24 6 72) (Some (mkPtok 43 "`two words`" 24 11 73)) (mkPtok 40 "," 25 0 75)))); (mkFieldWithAttr (mkSpan (mkPtok 15 "string" 26 4 76) (mkPtok 40 "," 28 0 82)) [] (LengthField (mkSpan (mkPtok 15 "string" 26 4 76) (mkPtok 40 "," 28 0 82)) (mkLengthFieldDecl (mkSpan (mkPtok 15 "string" 26 4 76) (mkPtok 40 "," 28 0 82)) (Some (TyDynamic (mkSpan (mkPtok 15 "string" 26 4 76) (mkPtok 15 "string" 26 4 76)) (mkDynamicString (mkSpan (mkPtok 15 "string" 26 4 76) (mkPtok 15 "string" 26 4 76)) (mkPtok 15 "string" 26 4 76)))) (mkPtok 42 "tag" 26 11 77) (mkLengthOf (mkSpan (mkPtok 7 "@lengthOf(" 26 14 78) (mkPtok 6 ")" 27 7 81)) (mkPtok 7 "@lengthOf(" 26 14 78) (mkPtok 42 "Header" 27 0 80) (mkPtok 6 ")" 27 7 81)) None (mkPtok 40 "," 28 0 82)))); (mkFieldWithAttr (mkSpan (mkPtok 19 "char" 28 1 83) (mkPtok 40 "," 28 12 85)) [] (MetaField (mkSpan (mkPtok 19 "char" 28 1 83) (mkPtok 40 "," 28 12 85)) None (mkMetaDecl (mkSpan (mkPtok 19 "char" 28 1 83) (mkPtok 40 "," 28 12 85)) (TyBasic (mkSpan (mkPtok 19 "char" 28 1 83) (mkPtok 19 "char" 28 1 83)) (mkBasicType (mkSpan (mkPtok 19 "char" 28 1 83) (mkPtok 19 "char" 28 1 83)) (mkPtok 19 "char" 28 1 83))) (mkPtok 42 "chars" 28 6 84) None (mkPtok 40 "," 28 12 85)))); (mkFieldWithAttr (mkSpan (mkPtok 7 "@lengthOf(" 29 0 86) (mkPtok 40 "," 32 16 107)) [(FALengthOf (mkSpan (mkPtok 7 "@lengthOf(" 29 0 86) (mkPtok 6 ")" 30 8 88)) (mkLengthOf (mkSpan (mkPtok 7 "@lengthOf(" 29 0 86) (mkPtok 6 ")" 30 8 88)) (mkPtok 7 "@lengthOf(" 29 0 86) (mkPtok 42 "crc" 30 4 87) (mkPtok 6 ")" 30 8 88)))] (MatchField (mkSpan (mkPtok 38 "match" 30 10 89) (mkPtok 40 "," 32 16 107)) (mkMatchFieldDecl (mkSpan (mkPtok 38 "match" 30 10 89) (mkPtok 3 "}" 32 14 106)) (mkPtok 38 "match" 30 10 89) (mkPtok 42 "asx" 30 16 90) (mkPtok 17 "as" 30 20 91) (mkPtok 42 "Foo" 30 23 92) (mkPtok 2 "{" 30 26 93) [(mkMatchPair (mkSpan (mkPtok 30 "7" 30 28 94) (mkPtok 40 "," 30 44 97)) (MKDigits (mkPtok 30 "7" 30 28 94)) (mkPtok 39 ":" 30 31 95) (mkPtok 42 "BodyLength" 30 33 96) (Some (mkPtok 40 "," 30 44 97))); (mkMatchPair (mkSpan (mkPtok 31 """packet""" 30 46 98) (mkPtok 40 "," 31 0 101)) (MKString (mkPtok 31 """packet""" 30 46 98)) (mkPtok 39 ":" 30 55 99) (mkPtok 42 "Z9_" 30 57 100) (Some (mkPtok 40 "," 31 0 101))); (mkMatchPair (mkSpan (mkPtok 30 "007" 31 1 102) (mkPtok 40 "," 32 13 105)) (MKDigits (mkPtok 30 "007" 31 1 102)) (mkPtok 39 ":" 31 5 103) (mkPtok 42 "matchKey" 32 4 104) (Some (mkPtok 40 "," 32 13 105)))] (mkPtok 3 "}" 32 14 106)) (mkPtok 40 "," 32 16 107))); (mkFieldWithAttr (mkSpan (mkPtok 21 "uint16" 33 0 108) (mkPtok 40 "," 34 0 111)) [] (MetaField (mkSpan (mkPtok 21 "uint16" 33 0 108) (mkPtok 40 "," 34 0 111)) None (mkMetaDecl (mkSpan (mkPtok 21 "uint16" 33 0 108) (mkPtok 40 "," 34 0 111)) (TyBasic (mkSpan (mkPtok 21 "uint16" 33 0 108) (mkPtok 21 "uint16" 33 0 108)) (mkBasicType (mkSpan (mkPtok 21 "uint16" 33 0 108) (mkPtok 21 "uint16" 33 0 108)) (mkPtok 21 "uint16" 33 0 108))) (mkPtok 42 "metadata" 33 7 109) None (mkPtok 40 "," 34 0 111)))); (mkFieldWithAttr (mkSpan (mkPtok 42 "i64_" 35 0 112) (mkPtok 40 "," 46 4 141)) [] (InerObjectField (mkSpan (mkPtok 42 "i64_" 35 0 112) (mkPtok 40 "," 46 4 141)) None (InerObjectDecl (mkSpan (mkPtok 42 "i64_" 35 0 112) (mkPtok 3 "}" 46 2 140)) (mkPtok 42 "i64_" 35 0 112) (mkPtok 2 "{" 35 5 113) [(MetaField (mkSpan (mkPtok 36 "repeat" 35 7 114) (mkPtok 40 "," 37 8 117)) (Some (mkPtok 36 "repeat" 35 7 114)) (mkMetaDecl (mkSpan (mkPtok 20 "u8" 36 0 115) (mkPtok 40 "," 37 8 117)) (TyBasic (mkSpan (mkPtok 20 "u8" 36 0 115) (mkPtok 20 "u8" 36 0 115)) (mkBasicType (mkSpan (mkPtok 20 "u8" 36 0 115) (mkPtok 20 "u8" 36 0 115)) (mkPtok 20 "u8" 36 0 115))) (mkPtok 42 "msg_type" 37 0 116) None (mkPtok 40 "," 37 8 117))); (InerObjectField (mkSpan (mkPtok 42 "stringy" 37 10 118) (mkPtok 40 "," 42 0 133)) None (InerObjectDecl (mkSpan (mkPtok 42 "stringy" 37 10 118) (mkPtok 3 "}" 39 12 130)) (mkPtok 42 "stringy" 37 10 118) (mkPtok 2 "{" 37 18 119) [(CheckSumField (mkSpan (mkPtok 12 "char[" 37 19 120) (mkPtok 40 "," 39 11 129)) (mkChecksumFieldDecl (mkSpan (mkPtok 12 "char[" 37 19 120) (mkPtok 40 "," 39 11 129)) (Some (TyFixed (mkSpan (mkPtok 12 "char[" 37 19 120) (mkPtok 13 "]" 37 36 122)) (mkFixedString (mkSpan (mkPtok 12 "char[" 37 19 120) (mkPtok 13 "]" 37 36 122)) (mkPtok 12 "char[" 37 19 120) (mkPtok 30 "0123456789" 37 25 121) (mkPtok 13 "]" 37 36 122)))) (mkPtok 42 "o" 38 0 124) (mkCalculatedFrom (mkSpan (mkPtok 5 "@calculatedFrom(" 38 2 125) (mkPtok 6 ")" 39 5 127)) (mkPtok 5 "@calculatedFrom(" 38 2 125) (mkPtok 31 """\n""" 39 0 126) (mkPtok 6 ")" 39 5 127)) (Some (mkPtok 43 (string_of_bytes [96; 195; 169; 96]%N) 39 7 128)) (mkPtok 40 "," 39 11 129)))] (mkPtok 3 "}" 39 12 130)) (mkPtok 40 "," 42 0 133)); (MetaField (mkSpan (mkPtok 14 "zchar[" 42 2 134) (mkPtok 40 "," 46 0 139)) None (mkMetaDecl (mkSpan (mkPtok 14 "zchar[" 42 2 134) (mkPtok 40 "," 46 0 139)) (TyFixed (mkSpan (mkPtok 14 "zchar[" 42 2 134) (mkPtok 13 "]" 43 2 136)) (mkFixedString (mkSpan (mkPtok 14 "zchar[" 42 2 134) (mkPtok 13 "]" 43 2 136)) (mkPtok 14 "zchar[" 42 2 134) (mkPtok 30 "00" 43 0 135) (mkPtok 13 "]" 43 2 136))) (mkPtok 42 "stringy" 44 4 137) (Some (mkPtok 43 (string_of_bytes [96; 108; 105; 110; 101; 49; 10; 108; 105; 110; 101; 50; 96]%N) 44 12 138)) (mkPtok 40 "," 46 0 139)))] (mkPtok 3 "}" 46 2 140)) (mkPtok 40 "," 46 4 141))); (mkFieldWithAttr (mkSpan (mkPtok 32 "@leftPad" 47 0 142) (mkPtok 40 "," 57 14 178)) [(FAPadding (mkSpan (mkPtok 32 "@leftPad" 47 0 142) (mkPtok 6 ")" 48 4 146)) (mkPaddingAttr (mkSpan (mkPtok 32 "@leftPad" 47 0 142) (mkPtok 6 ")" 48 4 146)) (mkPtok 32 "@leftPad" 47 0 142) (mkPtok 8 "(" 48 0 144) (Some (mkPtok 33 "'0'" 48 1 145)) (mkPtok 6 ")" 48 4 146)))] (MatchField (mkSpan (mkPtok 38 "match" 48 6 147) (mkPtok 40 "," 57 14 178)) (mkMatchFieldDecl (mkSpan (mkPtok 38 "match" 48 6 147) (mkPtok 3 "}" 57 12 177)) (mkPtok 38 "match" 48 6 147) (mkPtok 42 "uint8x" 48 12 148) (mkPtok 17 "as" 48 19 149) (mkPtok 42 "u128" 48 22 150) (mkPtok 2 "{" 48 27 151) [(mkMatchPair (mkSpan (mkPtok 18 "[" 49 0 152) (mkPtok 42 "_x" 51 6 159)) (MKList (mkKeyList (mkSpan (mkPtok 18 "[" 49 0 152) (mkPtok 13 "]" 50 8 157)) (mkPtok 18 "[" 49 0 152) (mkPtok 30 "1" 49 2 153) [((mkPtok 40 "," 50 0 155), (mkPtok 31 """abc""" 50 2 156))] (mkPtok 13 "]" 50 8 157))) (mkPtok 39 ":" 51 4 158) (mkPtok 42 "_x" 51 6 159) None); (mkMatchPair (mkSpan (mkPtok 31 (string_of_bytes [34; 97; 9; 98; 34]%N) 51 10 160) (mkPtok 42 "Packet" 51 17 162)) (MKString (mkPtok 31 (string_of_bytes [34; 97; 9; 98; 34]%N) 51 10 160)) (mkPtok 39 ":" 51 16 161) (mkPtok 42 "Packet" 51 17 162) None); (mkMatchPair (mkSpan (mkPtok 30 "3" 53 4 164) (mkPtok 40 "," 54 0 168)) (MKDigits (mkPtok 30 "3" 53 4 164)) (mkPtok 39 ":" 53 6 165) (mkPtok 42 "_x" 53 8 166) (Some (mkPtok 40 "," 54 0 168))); (mkMatchPair (mkSpan (mkPtok 31 """`tick`""" 54 2 169) (mkPtok 40 "," 55 8 172)) (MKString (mkPtok 31 """`tick`""" 54 2 169)) (mkPtok 39 ":" 54 11 170) (mkPtok 42 "packetx" 55 0 171) (Some (mkPtok 40 "," 55 8 172))); (mkMatchPair (mkSpan (mkPtok 31 """\n""" 56 0 173) (mkPtok 40 "," 57 9 176)) (MKString (mkPtok 31 """\n""" 56 0 173)) (mkPtok 39 ":" 57 0 174) (mkPtok 42 "Header" 57 2 175) (Some (mkPtok 40 "," 57 9 176)))] (mkPtok 3 "}" 57 12 177)) (mkPtok 40 "," 57 14 178))); (mkFieldWithAttr (mkSpan (mkPtok 42 "x" 58 0 179) (mkPtok 40 "," 62 11 185)) [] (CheckSumField (mkSpan (mkPtok 42 "x" 58 0 179) (mkPtok 40 "," 62 11 185)) (mkChecksumFieldDecl (mkSpan (mkPtok 42 "x" 58 0 179) (mkPtok 40 "," 62 11 185)) None (mkPtok 42 "x" 58 0 179) (mkCalculatedFrom (mkSpan (mkPtok 5 "@calculatedFrom(" 60 4 181) (mkPtok 6 ")" 62 9 184)) (mkPtok 5 "@calculatedFrom(" 60 4 181) (mkPtok 31 """\n""" 62 4 183) (mkPtok 6 ")" 62 9 184)) None (mkPtok 40 "," 62 11 185)))); (mkFieldWithAttr (mkSpan (mkPtok 14 "zchar[" 62 12 186) (mkPtok 40 "," 64 0 191)) [] (MetaField (mkSpan (mkPtok 14 "zchar[" 62 12 186) (mkPtok 40 "," 64 0 191)) None (mkMetaDecl (mkSpan (mkPtok 14 "zchar[" 62 12 186) (mkPtok 40 "," 64 0 191)) (TyFixed (mkSpan (mkPtok 14 "zchar[" 62 12 186) (mkPtok 13 "]" 62 25 188)) (mkFixedString (mkSpan (mkPtok 14 "zchar[" 62 12 186) (mkPtok 13 "]" 62 25 188)) (mkPtok 14 "zchar[" 62 12 186) (mkPtok 30 "65535" 62 19 187) (mkPtok 13 "]" 62 25 188))) (mkPtok 42 "Packet" 63 4 189) None (mkPtok 40 "," 64 0 191))))] (mkPtok 3 "}" 65 0 192))); (DMeta (mkMetaDef (mkSpan (mkPtok 37 "MetaData" 65 2 193) (mkPtok 3 "}" 66 4 196)) (mkPtok 37 "MetaData" 65 2 193) (mkPtok 42 "Logon" 65 11 194) (mkPtok 2 "{" 65 16 195) [] (mkPtok 3 "}" 66 4 196))); (DPacket (mkPacketDef (mkSpan (mkPtok 35 "packet" 66 6 197) (mkPtok 3 "}" 70 11 238)) None (mkPtok 35 "packet" 66 6 197) (mkPtok 42 "packetx" 66 13 198) (mkPtok 2 "{" 66 21 199) [(mkFieldWithAttr (mkSpan (mkPtok 5 "@calculatedFrom(" 67 0 200) (mkPtok 40 "," 70 9 237)) [(FACalculatedFrom (mkSpan (mkPtok 5 "@calculatedFrom(" 67 0 200) (mkPtok 6 ")" 67 23 202)) (mkCalculatedFrom (mkSpan (mkPtok 5 "@calculatedFrom(" 67 0 200) (mkPtok 6 ")" 67 23 202)) (mkPtok 5 "@calculatedFrom(" 67 0 200) (mkPtok 31 """a\\""" 67 17 201) (mkPtok 6 ")" 67 23 202)))] (MatchField (mkSpan (mkPtok 38 "match" 68 0 203) (mkPtok 40 "," 70 9 237)) (mkMatchFieldDecl (mkSpan (mkPtok 38 "match" 68 0 203) (mkPtok 3 "}" 70 7 236)) (mkPtok 38 "match" 68 0 203) (mkPtok 42 "roots" 68 6 204) (mkPtok 17 "as" 68 12 205) (mkPtok 42 "Foo" 68 15 206) (mkPtok 2 "{" 68 19 207) [(mkMatchPair (mkSpan (mkPtok 18 "[" 68 21 208) (mkPtok 40 "," 68 47 215)) (MKList (mkKeyList (mkSpan (mkPtok 18 "[" 68 21 208) (mkPtok 13 "]" 68 39 212)) (mkPtok 18 "[" 68 21 208) (mkPtok 31 """\n""" 68 22 209) [((mkPtok 40 "," 68 26 210), (mkPtok 30 "4294967296" 68 28 211))] (mkPtok 13 "]" 68 39 212))) (mkPtok 39 ":" 68 41 213) (mkPtok 42 "asx" 68 43 214) (Some (mkPtok 40 "," 68 47 215))); (mkMatchPair (mkSpan (mkPtok 30 "00" 68 48 216) (mkPtok 40 "," 69 5 219)) (MKDigits (mkPtok 30 "00" 68 48 216)) (mkPtok 39 ":" 69 0 217) (mkPtok 42 "o" 69 3 218) (Some (mkPtok 40 "," 69 5 219))); (mkMatchPair (mkSpan (mkPtok 31 """{,}""" 69 7 220) (mkPtok 40 "," 69 21 223)) (MKString (mkPtok 31 """{,}""" 69 7 220)) (mkPtok 39 ":" 69 13 221) (mkPtok 42 "Header" 69 14 222) (Some (mkPtok 40 "," 69 21 223))); (mkMatchPair (mkSpan (mkPtok 30 "255" 69 22 224) (mkPtok 40 "," 69 36 227)) (MKDigits (mkPtok 30 "255" 69 22 224)) (mkPtok 39 ":" 69 26 225) (mkPtok 42 "packetx" 69 28 226) (Some (mkPtok 40 "," 69 36 227))); (mkMatchPair (mkSpan (mkPtok 18 "[" 69 38 228) (mkPtok 40 "," 70 4 235)) (MKList (mkKeyList (mkSpan (mkPtok 18 "[" 69 38 228) (mkPtok 13 "]" 69 54 232)) (mkPtok 18 "[" 69 38 228) (mkPtok 30 "255" 69 39 229) [((mkPtok 40 "," 69 42 230), (mkPtok 30 "4294967296" 69 43 231))] (mkPtok 13 "]" 69 54 232))) (mkPtok 39 ":" 69 56 233) (mkPtok 42 "MetaDataX" 69 57 234) (Some (mkPtok 40 "," 70 4 235)))] (mkPtok 3 "}" 70 7 236)) (mkPtok 40 "," 70 9 237)))] (mkPtok 3 "}" 70 11 238)))])).
Eval vm_compute in ("<<<M430>>>" ++ check (runes_of_ascii "options { options1 =
0 } packet _x { @tag( 3
    // trailing space 
    )
@lengthOf( packetx
)repeat
    zchar[ 255] roots,}	packet  Logon{ f64
float ,
matchKey	,
    f32a//
Pad
    `" ++ [233]%N ++ runes_of_ascii "` ,
    // `tick` ""quote"" 'q'
    @calculatedFrom( ""packet"" ) match u128 as
Pad{
    [// " ++ [27880; 37322]%N ++ runes_of_ascii "
00 ,""CRC32"" ]
    : msg_type
65535
:	stringy , [
""abc"" //	t
,00, """ ++ [233]%N ++ runes_of_ascii "t" ++ [233]%N ++ runes_of_ascii """ , ""// no comment""
    , // trailing space 
0
,""// no comment""
    , ""1"" ]
    : matchKey [ ""it's"" ,0] : A } , zchar[ 3] //x
uint8x , } options { _x = ' ' rootA = //x
char[] uint8x= //	t
""a	b"" ;
body= char[]
    // trailing space 
    }
    root
packet
    len  { }
")).
Eval vm_compute in ("<<<M462>>>" ++ check (runes_of_ascii "// " ++ [27880; 37322]%N ++ runes_of_ascii "
packet// @lengthOf(
roots {	int64 Packet ,}
/// triple
// c
packet trueish
    { @calculatedFrom(
    """" )  msg_type @calculatedFrom(
    ""a\""b"")  ,
    // " ++ [27880; 37322]%N ++ runes_of_ascii "
    u16 trueish
, f32a	, uint64 //x
lengthOf
    @lengthOf( Foo
) , }options { repeatCount = true ; x = false
    chars=zchar[ 007]
;}")).
Eval vm_compute in ("<<<M494>>>" ++ check (runes_of_ascii "MetaData Z9_
    {
}")).
Eval vm_compute in ("<<<M526>>>" ++ check (runes_of_ascii "packet leftPad //x
{uint16 x , lengthOf // a // b
chars `// not a comment` , @calculatedFrom( ""a\\"") repeat
char[] As`{ , }`
, metadata
@calculatedFrom(
    ""// no comment"" ),
uint32 f32a`
`
, @tag( // @lengthOf(
255) repeat trueish `doc` ,
char[] trueish
@lengthOf(
len )
,int16
i64_ ,
@calculatedFrom( ""\n""
)
i8i8 `" ++ [28040; 24687; 31867; 22411]%N ++ runes_of_ascii "`  ,
    } root
    packet crc { repeat uint8x	packetx, match
u8x as T {
0
: crc,1  : T ,
    [ ""a\\""// c
, 0123456789 , 00 ] : chars ,	7 :
T //	t
,	}// a // b
,
roots  @lengthOf(	lengthOf
    ) `two words`
    , match
rootA as A{
10
    : x ,
    }, crc @calculatedFrom( ""a	b""
    )
    , chars {
match lengthOf as Header
{4294967296 :// c
zchar
, [4294967296 ,
""a\\""
    ]: asx ,}
,_x  @calculatedFrom(
    ""\" ++ [233]%N ++ runes_of_ascii """)`tab	here` // a // b
, },} //
MetaData asx { zchar[
    42	] uint8x
// `tick` ""quote"" 'q'
// `tick` ""quote"" 'q'
, uint8
    Logon //x
`// not a comment` , } MetaData
    o
//	t
//x
{ u16 // " ++ [27880; 37322]%N ++ runes_of_ascii "
_x , x_y_z float `crlf
line`,BodyLength calculatedFrom
    `tab	here` ,
    uint16
MetaDataX , }
")).
Eval vm_compute in ("<<<M558>>>" ++ check (runes_of_ascii "packet pack// @lengthOf(
{ repeat
As// " ++ [27880; 37322]%N ++ runes_of_ascii "
{ char[65535  ] u128 // a // b
@lengthOf( a1 )
`tab	here` ,i8 rootA `crlf
line`
,
    match //x
i8i8 as
    zchar { [""1""]
: tag ,""a	b"":
u8x
    ""a\""b""
: calculatedFrom, } , match leftPad //	t
as
    Pad
{
// `tick` ""quote"" 'q'
// trailing space 
65535 : options1
},}	,u32 crc
    , zchar[ 00]
roots, }

")).
Eval vm_compute in ("<<<M590>>>" ++ check (runes_of_ascii "packet
    A { calculatedFrom
    //
    @lengthOf(//
zchar ) `say ""hi""`	, @calculatedFrom(  ""{,}""
)
repeat
    u8x // `tick` ""quote"" 'q'
uint8x `u8 x,` ,
    match
//
// " ++ [128512]%N ++ runes_of_ascii " emoji
o as matchKey {
[ 3 ,""""]: T ,//
""{,}""// @lengthOf(
:
// a // b
// packet A { u8 x, }
calculatedFrom } ,
    repeat char[ 255	] u
,char[]Packet ,repeat int64
packetx// trailing space 
,  @leftPad( '\x00'
)@calculatedFrom( """" ) zchar { // trailing space 
f32
    //
    zchar `" ++ [28040; 24687; 31867; 22411]%N ++ runes_of_ascii "`,match
u128 as
    options1
{ [""abc"",10 ,
    65535 , 0 , ""\n"" ,""" ++ [128512]%N ++ runes_of_ascii """ ,
0123456789 ]
    : // a // b
chars
, 00 :
As
, ""a	b""
    : packetx, 10: a1, // packet A { u8 x, }
} , },
    float64 calculatedFrom @lengthOf( //
packetx
    ) ,char[ //x
00]
// " ++ [128512]%N ++ runes_of_ascii " emoji
//
string_ `
` , @calculatedFrom( ""it's""
    )@leftPad
()
    f32 BodyLength , }
// " ++ [27880; 37322]%N ++ runes_of_ascii "
")).
Eval vm_compute in ("<<<M622>>>" ++ check (runes_of_ascii "// packet A { u8 x, }
options{ // a // b
} options
    { matchKey = 00
metadata =
/// triple
//
float64 u8x// `tick` ""quote"" 'q'
= 42
    }
packet
    uint8x{
    @lengthOf( matchKey
)
    float32 options1
,
@lengthOf( packetx ) repeat
zchar[7 ]
As ,@rightPad (
)
    // `tick` ""quote"" 'q'
    uint64 repeatCount
//	t
// packet A { u8 x, }
@lengthOf( leftPad	), @lengthOf( As
) @leftPad(
'\x00') // @lengthOf(
Header options1, @lengthOf( // a // b
packetx //
) repeat
    zchar[ 255
    ] zchar `it's` , }
")).
Eval vm_compute in ("<<<T622>>>" ++ terms [mkTok 44 "// packet A { u8 x, }" 1 0 true; mkTok 1 "options" 2 0 false; mkTok 2 "{" 2 7 false; mkTok 44 "// a // b" 2 9 true; mkTok 3 "}" 3 0 false; mkTok 1 "options" 3 2 false; mkTok 2 "{" 4 4 false; mkTok 42 "matchKey" 4 6 false; mkTok 4 "=" 4 15 false; mkTok 30 "00" 4 17 false; mkTok 42 "metadata" 5 0 false; mkTok 4 "=" 5 9 false; mkTok 44 "/// triple" 6 0 true; mkTok 44 "//" 7 0 true; mkTok 29 "float64" 8 0 false; mkTok 42 "u8x" 8 8 false; mkTok 44 "// `tick` ""quote"" 'q'" 8 11 true; mkTok 4 "=" 9 0 false; mkTok 30 "42" 9 2 false; mkTok 3 "}" 10 4 false; mkTok 35 "packet" 11 0 false; mkTok 42 "uint8x" 12 4 false; mkTok 2 "{" 12 10 false; mkTok 7 "@lengthOf(" 13 4 false; mkTok 42 "matchKey" 13 15 false; mkTok 6 ")" 14 0 false; mkTok 28 "float32" 15 4 false; mkTok 42 "options1" 15 12 false; mkTok 40 "," 16 0 false; mkTok 7 "@lengthOf(" 17 0 false; mkTok 42 "packetx" 17 11 false; mkTok 6 ")" 17 19 false; mkTok 36 "repeat" 17 21 false; mkTok 14 "zchar[" 18 0 false; mkTok 30 "7" 18 6 false; mkTok 13 "]" 18 8 false; mkTok 42 "As" 19 0 false; mkTok 40 "," 19 3 false; mkTok 32 "@rightPad" 19 4 false; mkTok 8 "(" 19 14 false; mkTok 6 ")" 20 0 false; mkTok 44 "// `tick` ""quote"" 'q'" 21 4 true; mkTok 23 "uint64" 22 4 false; mkTok 42 "repeatCount" 22 11 false; mkTok 44 (string_of_bytes [47; 47; 9; 116]%N) 23 0 true; mkTok 44 "// packet A { u8 x, }" 24 0 true; mkTok 7 "@lengthOf(" 25 0 false; mkTok 42 "leftPad" 25 11 false; mkTok 6 ")" 25 19 false; mkTok 40 "," 25 20 false; mkTok 7 "@lengthOf(" 25 22 false; mkTok 42 "As" 25 33 false; mkTok 6 ")" 26 0 false; mkTok 32 "@leftPad" 26 2 false; mkTok 8 "(" 26 10 false; mkTok 33 "'\x00'" 27 0 false; mkTok 6 ")" 27 6 false; mkTok 44 "// @lengthOf(" 27 8 true; mkTok 42 "Header" 28 0 false; mkTok 42 "options1" 28 7 false; mkTok 40 "," 28 15 false; mkTok 7 "@lengthOf(" 28 17 false; mkTok 44 "// a // b" 28 28 true; mkTok 42 "packetx" 29 0 false; mkTok 44 "//" 29 8 true; mkTok 6 ")" 30 0 false; mkTok 36 "repeat" 30 2 false; mkTok 14 "zchar[" 31 4 false; mkTok 30 "255" 31 11 false; mkTok 13 "]" 32 4 false; mkTok 42 "zchar" 32 6 false; mkTok 43 "`it's`" 32 12 false; mkTok 40 "," 32 19 false; mkTok 3 "}" 32 21 false; mkTok 0 "<EOF>" 33 0 false] (mkPacket (mkPtok 1 "options" 2 0 1) (Some (mkPtok 3 "}" 32 21 73)) [(DOption (mkOptionDef (mkSpan (mkPtok 1 "options" 2 0 1) (mkPtok 3 "}" 3 0 4)) (mkPtok 1 "options" 2 0 1) (mkPtok 2 "{" 2 7 2) [] (mkPtok 3 "}" 3 0 4))); (DOption (mkOptionDef (mkSpan (mkPtok 1 "options" 3 2 5) (mkPtok 3 "}" 10 4 19)) (mkPtok 1 "options" 3 2 5) (mkPtok 2 "{" 4 4 6) [(mkOptionDecl (mkSpan (mkPtok 42 "matchKey" 4 6 7) (mkPtok 30 "00" 4 17 9)) (mkPtok 42 "matchKey" 4 6 7) (mkPtok 4 "=" 4 15 8) (VDigits (mkSpan (mkPtok 30 "00" 4 17 9) (mkPtok 30 "00" 4 17 9)) (mkPtok 30 "00" 4 17 9)) None); (mkOptionDecl (mkSpan (mkPtok 42 "metadata" 5 0 10) (mkPtok 29 "float64" 8 0 14)) (mkPtok 42 "metadata" 5 0 10) (mkPtok 4 "=" 5 9 11) (VType (mkSpan (mkPtok 29 "float64" 8 0 14) (mkPtok 29 "float64" 8 0 14)) (TyBasic (mkSpan (mkPtok 29 "float64" 8 0 14) (mkPtok 29 "float64" 8 0 14)) (mkBasicType (mkSpan (mkPtok 29 "float64" 8 0 14) (mkPtok 29 "float64" 8 0 14)) (mkPtok 29 "float64" 8 0 14)))) None); (mkOptionDecl (mkSpan (mkPtok 42 "u8x" 8 8 15) (mkPtok 30 "42" 9 2 18)) (mkPtok 42 "u8x" 8 8 15) (mkPtok 4 "=" 9 0 17) (VDigits (mkSpan (mkPtok 30 "42" 9 2 18) (mkPtok 30 "42" 9 2 18)) (mkPtok 30 "42" 9 2 18)) None)] (mkPtok 3 "}" 10 4 19))); (DPacket (mkPacketDef (mkSpan (mkPtok 35 "packet" 11 0 20) (mkPtok 3 "}" 32 21 73)) None (mkPtok 35 "packet" 11 0 20) (mkPtok 42 "uint8x" 12 4 21) (mkPtok 2 "{" 12 10 22) [(mkFieldWithAttr (mkSpan (mkPtok 7 "@lengthOf(" 13 4 23) (mkPtok 40 "," 16 0 28)) [(FALengthOf (mkSpan (mkPtok 7 "@lengthOf(" 13 4 23) (mkPtok 6 ")" 14 0 25)) (mkLengthOf (mkSpan (mkPtok 7 "@lengthOf(" 13 4 23) (mkPtok 6 ")" 14 0 25)) (mkPtok 7 "@lengthOf(" 13 4 23) (mkPtok 42 "matchKey" 13 15 24) (mkPtok 6 ")" 14 0 25)))] (MetaField (mkSpan (mkPtok 28 "float32" 15 4 26) (mkPtok 40 "," 16 0 28)) None (mkMetaDecl (mkSpan (mkPtok 28 "float32" 15 4 26) (mkPtok 40 "," 16 0 28)) (TyBasic (mkSpan (mkPtok 28 "float32" 15 4 26) (mkPtok 28 "float32" 15 4 26)) (mkBasicType (mkSpan (mkPtok 28 "float32" 15 4 26) (mkPtok 28 "float32" 15 4 26)) (mkPtok 28 "float32" 15 4 26))) (mkPtok 42 "options1" 15 12 27) None (mkPtok 40 "," 16 0 28)))); (mkFieldWithAttr (mkSpan (mkPtok 7 "@lengthOf(" 17 0 29) (mkPtok 40 "," 19 3 37)) [(FALengthOf (mkSpan (mkPtok 7 "@lengthOf(" 17 0 29) (mkPtok 6 ")" 17 19 31)) (mkLengthOf (mkSpan (mkPtok 7 "@lengthOf(" 17 0 29) (mkPtok 6 ")" 17 19 31)) (mkPtok 7 "@lengthOf(" 17 0 29) (mkPtok 42 "packetx" 17 11 30) (mkPtok 6 ")" 17 19 31)))] (MetaField (mkSpan (mkPtok 36 "repeat" 17 21 32) (mkPtok 40 "," 19 3 37)) (Some (mkPtok 36 "repeat" 17 21 32)) (mkMetaDecl (mkSpan (mkPtok 14 "zchar[" 18 0 33) (mkPtok 40 "," 19 3 37)) (TyFixed (mkSpan (mkPtok 14 "zchar[" 18 0 33) (mkPtok 13 "]" 18 8 35)) (mkFixedString (mkSpan (mkPtok 14 "zchar[" 18 0 33) (mkPtok 13 "]" 18 8 35)) (mkPtok 14 "zchar[" 18 0 33) (mkPtok 30 "7" 18 6 34) (mkPtok 13 "]" 18 8 35))) (mkPtok 42 "As" 19 0 36) None (mkPtok 40 "," 19 3 37)))); (mkFieldWithAttr (mkSpan (mkPtok 32 "@rightPad" 19 4 38) (mkPtok 40 "," 25 20 49)) [(FAPadding (mkSpan (mkPtok 32 "@rightPad" 19 4 38) (mkPtok 6 ")" 20 0 40)) (mkPaddingAttr (mkSpan (mkPtok 32 "@rightPad" 19 4 38) (mkPtok 6 ")" 20 0 40)) (mkPtok 32 "@rightPad" 19 4 38) (mkPtok 8 "(" 19 14 39) None (mkPtok 6 ")" 20 0 40)))] (LengthField (mkSpan (mkPtok 23 "uint64" 22 4 42) (mkPtok 40 "," 25 20 49)) (mkLengthFieldDecl (mkSpan (mkPtok 23 "uint64" 22 4 42) (mkPtok 40 "," 25 20 49)) (Some (TyBasic (mkSpan (mkPtok 23 "uint64" 22 4 42) (mkPtok 23 "uint64" 22 4 42)) (mkBasicType (mkSpan (mkPtok 23 "uint64" 22 4 42) (mkPtok 23 "uint64" 22 4 42)) (mkPtok 23 "uint64" 22 4 42)))) (mkPtok 42 "repeatCount" 22 11 43) (mkLengthOf (mkSpan (mkPtok 7 "@lengthOf(" 25 0 46) (mkPtok 6 ")" 25 19 48)) (mkPtok 7 "@lengthOf(" 25 0 46) (mkPtok 42 "leftPad" 25 11 47) (mkPtok 6 ")" 25 19 48)) None (mkPtok 40 "," 25 20 49)))); (mkFieldWithAttr (mkSpan (mkPtok 7 "@lengthOf(" 25 22 50) (mkPtok 40 "," 28 15 60)) [(FALengthOf (mkSpan (mkPtok 7 "@lengthOf(" 25 22 50) (mkPtok 6 ")" 26 0 52)) (mkLengthOf (mkSpan (mkPtok 7 "@lengthOf(" 25 22 50) (mkPtok 6 ")" 26 0 52)) (mkPtok 7 "@lengthOf(" 25 22 50) (mkPtok 42 "As" 25 33 51) (mkPtok 6 ")" 26 0 52))); (FAPadding (mkSpan (mkPtok 32 "@leftPad" 26 2 53) (mkPtok 6 ")" 27 6 56)) (mkPaddingAttr (mkSpan (mkPtok 32 "@leftPad" 26 2 53) (mkPtok 6 ")" 27 6 56)) (mkPtok 32 "@leftPad" 26 2 53) (mkPtok 8 "(" 26 10 54) (Some (mkPtok 33 "'\x00'" 27 0 55)) (mkPtok 6 ")" 27 6 56)))] (ObjectField (mkSpan (mkPtok 42 "Header" 28 0 58) (mkPtok 40 "," 28 15 60)) None (mkPtok 42 "Header" 28 0 58) (Some (mkPtok 42 "options1" 28 7 59)) None (mkPtok 40 "," 28 15 60))); (mkFieldWithAttr (mkSpan (mkPtok 7 "@lengthOf(" 28 17 61) (mkPtok 40 "," 32 19 72)) [(FALengthOf (mkSpan (mkPtok 7 "@lengthOf(" 28 17 61) (mkPtok 6 ")" 30 0 65)) (mkLengthOf (mkSpan (mkPtok 7 "@lengthOf(" 28 17 61) (mkPtok 6 ")" 30 0 65)) (mkPtok 7 "@lengthOf(" 28 17 61) (mkPtok 42 "packetx" 29 0 63) (mkPtok 6 ")" 30 0 65)))] (MetaField (mkSpan (mkPtok 36 "repeat" 30 2 66) (mkPtok 40 "," 32 19 72)) (Some (mkPtok 36 "repeat" 30 2 66)) (mkMetaDecl (mkSpan (mkPtok 14 "zchar[" 31 4 67) (mkPtok 40 "," 32 19 72)) (TyFixed (mkSpan (mkPtok 14 "zchar[" 31 4 67) (mkPtok 13 "]" 32 4 69)) (mkFixedString (mkSpan (mkPtok 14 "zchar[" 31 4 67) (mkPtok 13 "]" 32 4 69)) (mkPtok 14 "zchar[" 31 4 67) (mkPtok 30 "255" 31 11 68) (mkPtok 13 "]" 32 4 69))) (mkPtok 42 "zchar" 32 6 70) (Some (mkPtok 43 "`it's`" 32 12 71)) (mkPtok 40 "," 32 19 72))))] (mkPtok 3 "}" 32 21 73)))])).
Eval vm_compute in ("<<<M654>>>" ++ check (runes_of_ascii "
")).
Eval vm_compute in ("<<<M686>>>" ++ check (runes_of_ascii "options { T=""it's"" ; // trailing space 
Z9_  =""\" ++ [233]%N ++ runes_of_ascii """
int = '\x00'u8x  =	""`tick`""crc
=""packet"" ;	} root // packet A { u8 x, }
packet string_ { match charz
//x
// c
as u { // " ++ [128512]%N ++ runes_of_ascii " emoji
0123456789 :
    zchar , 42
    // packet A { u8 x, }
    :rootA ,  007:
//	t
// packet A { u8 x, }
crc , """ ++ [28040; 24687]%N ++ runes_of_ascii """ : Foo[
007	, ""x y"" ] :int , // " ++ [27880; 37322]%N ++ runes_of_ascii "
}
,
    @tag(  7
// a // b
// @lengthOf(
) repeat
// `tick` ""quote"" 'q'
//
metadata, string len // a // b
@lengthOf( o ) `crlf
line` , repeat int32 falsey `
`
// a // b
// " ++ [27880; 37322]%N ++ runes_of_ascii "
, @leftPad( )
x
    @calculatedFrom(
    ""// no comment"" )`// not a comment`
,uint16 rootA , @lengthOf( a1// `tick` ""quote"" 'q'
) char calculatedFrom , @tag( /// triple
3 ) zchar[ 65535 ]	body ,}
packet Logon // `tick` ""quote"" 'q'
{ @leftPad (/// triple
)@tag( 7 )
char
u128 `say ""hi""` ,
@tag( 10 ) char[42  ]
    roots , } root // " ++ [27880; 37322]%N ++ runes_of_ascii "
packet	i64_ {
    repeat
    _x { repeat
    // @lengthOf(
    MetaDataX o //x
, } , u128 { asx { u8 a1  ,
repeat	As, // a // b
}	,} ,
    int16 Foo ,
    u64
asx `
` , u8x @lengthOf( crc ) //	t
, @calculatedFrom(
    // `tick` ""quote"" 'q'
    ""CRC32"" ) @lengthOf(body	) @tag( 7 ) falsey
//x
// a // b
body
`{ , }` ,	MetaDataX { trueish
MetaDataX`tab	here` , char[ 3 ] i8i8
@calculatedFrom(""" ++ [128512]%N ++ runes_of_ascii """  )
`" ++ [233]%N ++ runes_of_ascii "`, },
}options { _x
=false
    _x
    =// c
char[
    0123456789 ]	repeatCount
=
    ' '_x = ""packet"";
}

")).
Eval vm_compute in ("<<<M718>>>" ++ check (runes_of_ascii "//
root packet  Foo{ char[]//
leftPad // trailing space 
,}options { } root
packet i64_ { @lengthOf( x_y_z ) @calculatedFrom( ""abc"" )  @lengthOf( leftPad )
repeat body	zchar `it's`  , char[]
    metadata @lengthOf( MetaDataX
//	t
/// triple
) `doc`
    , repeat
Foo Header , /// triple
}
")).
Eval vm_compute in ("<<<M750>>>" ++ check (runes_of_ascii "packet float { @leftPad (' '
)
@calculatedFrom(// `tick` ""quote"" 'q'
""a\""b"")@calculatedFrom( ""packet""
) u32 msg_type
//
// a // b
`" ++ [233]%N ++ runes_of_ascii "`	,
@tag( 00 ) @rightPad (' ' )
    repeat chars
metadata// " ++ [128512]%N ++ runes_of_ascii " emoji
,@rightPad ('0'	) tag string_	, repeat f64 int `u8 x,`  , }
// c
")).
Eval vm_compute in ("<<<M782>>>" ++ check (runes_of_ascii "// " ++ [27880; 37322]%N ++ runes_of_ascii "
options  { i8i8
    //	t
    = 007 ; Logon =	3
; }	packet u128 {BodyLength{ char[ //x
7
] int, u16 _x@lengthOf( // packet A { u8 x, }
u)	, i8 rootA
    `tab	here`
,
    stringy MetaDataX`u8 x,` , } , @tag(007 ) f32a @calculatedFrom( """ ++ [28040; 24687]%N ++ runes_of_ascii """ )
    `it's`
,
// c
// a // b
@calculatedFrom( ""x y""
    )char[007 ] string_ //x
@calculatedFrom( """ ++ [128512]%N ++ runes_of_ascii """ )
    , // c
@calculatedFrom( ""// no comment""
) @calculatedFrom( ""a	b"" )  f64
As , // `tick` ""quote"" 'q'
zchar[7]x `
` ,
    /// triple
    u16
o, repeat float32 roots `{ , }`
    ,
@leftPad (
)// c
repeatCount
{ float64
u8x `a\`
// @lengthOf(
// " ++ [27880; 37322]%N ++ runes_of_ascii "
,rootA@lengthOf( //	t
chars ) ,
    match u128  as
roots{
// a // b
//
[
""" ++ [128512]%N ++ runes_of_ascii """ ] : msg_type// c
, ""\n"" :
    u8x
00 :
crc
    //x
    } , },
//x
/// triple
u16 lengthOf @calculatedFrom( // c
""" ++ [233]%N ++ runes_of_ascii "t" ++ [233]%N ++ runes_of_ascii """  ),	}MetaData
repeatCount{ zchar[ 0123456789
] Logon , char[ 42	]  int	,}
    options {}
options // " ++ [128512]%N ++ runes_of_ascii " emoji
{
repeatCount = ""1""
Z9_ = 255  string_ = ' '
;  trueish = 3 ; crc =
""packet""
    ;}
")).
Eval vm_compute in ("<<<M814>>>" ++ check (runes_of_ascii "
")).
Eval vm_compute in ("<<<M846>>>" ++ check (runes_of_ascii "options{ Header = ' ' } root
packet lengthOf{ uint8 chars , @leftPad (  '\x00' ) repeat
    u128 {match	Header as	msg_type{ 007	:roots  , }
// c
//	t
, A
o ,
match Header as
options1 { 00 : float,""1"": int , """ ++ [128512]%N ++ runes_of_ascii """
: T , [
    ""a\\""
// " ++ [128512]%N ++ runes_of_ascii " emoji
// packet A { u8 x, }
,""// no comment""
// a // b
// packet A { u8 x, }
] //	t
: Foo	0123456789	:
    matchKey , } ,repeat
    o ,
}, } packet x_y_z { repeat stringy A  , @tag(  42 ) char[
    007 ]  Logon ,@leftPad ('\x00'
    )  zchar[
007 ]MetaDataX
, }")).
Eval vm_compute in ("<<<T846>>>" ++ terms [mkTok 1 "options" 1 0 false; mkTok 2 "{" 1 7 false; mkTok 42 "Header" 1 9 false; mkTok 4 "=" 1 16 false; mkTok 33 "' '" 1 18 false; mkTok 3 "}" 1 22 false; mkTok 34 "root" 1 24 false; mkTok 35 "packet" 2 0 false; mkTok 42 "lengthOf" 2 7 false; mkTok 2 "{" 2 15 false; mkTok 20 "uint8" 2 17 false; mkTok 42 "chars" 2 23 false; mkTok 40 "," 2 29 false; mkTok 32 "@leftPad" 2 31 false; mkTok 8 "(" 2 40 false; mkTok 33 "'\x00'" 2 43 false; mkTok 6 ")" 2 50 false; mkTok 36 "repeat" 2 52 false; mkTok 42 "u128" 3 4 false; mkTok 2 "{" 3 9 false; mkTok 38 "match" 3 10 false; mkTok 42 "Header" 3 16 false; mkTok 17 "as" 3 23 false; mkTok 42 "msg_type" 3 26 false; mkTok 2 "{" 3 34 false; mkTok 30 "007" 3 36 false; mkTok 39 ":" 3 40 false; mkTok 42 "roots" 3 41 false; mkTok 40 "," 3 48 false; mkTok 3 "}" 3 50 false; mkTok 44 "// c" 4 0 true; mkTok 44 (string_of_bytes [47; 47; 9; 116]%N) 5 0 true; mkTok 40 "," 6 0 false; mkTok 42 "A" 6 2 false; mkTok 42 "o" 7 0 false; mkTok 40 "," 7 2 false; mkTok 38 "match" 8 0 false; mkTok 42 "Header" 8 6 false; mkTok 17 "as" 8 13 false; mkTok 42 "options1" 9 0 false; mkTok 2 "{" 9 9 false; mkTok 30 "00" 9 11 false; mkTok 39 ":" 9 14 false; mkTok 42 "float" 9 16 false; mkTok 40 "," 9 21 false; mkTok 31 """1""" 9 22 false; mkTok 39 ":" 9 25 false; mkTok 42 "int" 9 27 false; mkTok 40 "," 9 31 false; mkTok 31 (string_of_bytes [34; 240; 159; 152; 128; 34]%N) 9 33 false; mkTok 39 ":" 10 0 false; mkTok 42 "T" 10 2 false; mkTok 40 "," 10 4 false; mkTok 18 "[" 10 6 false; mkTok 31 """a\\""" 11 4 false; mkTok 44 (string_of_bytes [47; 47; 32; 240; 159; 152; 128; 32; 101; 109; 111; 106; 105]%N) 12 0 true; mkTok 44 "// packet A { u8 x, }" 13 0 true; mkTok 40 "," 14 0 false; mkTok 31 """// no comment""" 14 1 false; mkTok 44 "// a // b" 15 0 true; mkTok 44 "// packet A { u8 x, }" 16 0 true; mkTok 13 "]" 17 0 false; mkTok 44 (string_of_bytes [47; 47; 9; 116]%N) 17 2 true; mkTok 39 ":" 18 0 false; mkTok 42 "Foo" 18 2 false; mkTok 30 "0123456789" 18 6 false; mkTok 39 ":" 18 17 false; mkTok 42 "matchKey" 19 4 false; mkTok 40 "," 19 13 false; mkTok 3 "}" 19 15 false; mkTok 40 "," 19 17 false; mkTok 36 "repeat" 19 18 false; mkTok 42 "o" 20 4 false; mkTok 40 "," 20 6 false; mkTok 3 "}" 21 0 false; mkTok 40 "," 21 1 false; mkTok 3 "}" 21 3 false; mkTok 35 "packet" 21 5 false; mkTok 42 "x_y_z" 21 12 false; mkTok 2 "{" 21 18 false; mkTok 36 "repeat" 21 20 false; mkTok 42 "stringy" 21 27 false; mkTok 42 "A" 21 35 false; mkTok 40 "," 21 38 false; mkTok 9 "@tag(" 21 40 false; mkTok 30 "42" 21 47 false; mkTok 6 ")" 21 50 false; mkTok 12 "char[" 21 52 false; mkTok 30 "007" 22 4 false; mkTok 13 "]" 22 8 false; mkTok 42 "Logon" 22 11 false; mkTok 40 "," 22 17 false; mkTok 32 "@leftPad" 22 18 false; mkTok 8 "(" 22 27 false; mkTok 33 "'\x00'" 22 28 false; mkTok 6 ")" 23 4 false; mkTok 14 "zchar[" 23 7 false; mkTok 30 "007" 24 0 false; mkTok 13 "]" 24 4 false; mkTok 42 "MetaDataX" 24 5 false; mkTok 40 "," 25 0 false; mkTok 3 "}" 25 2 false; mkTok 0 "<EOF>" 25 3 false] (mkPacket (mkPtok 1 "options" 1 0 0) (Some (mkPtok 3 "}" 25 2 101)) [(DOption (mkOptionDef (mkSpan (mkPtok 1 "options" 1 0 0) (mkPtok 3 "}" 1 22 5)) (mkPtok 1 "options" 1 0 0) (mkPtok 2 "{" 1 7 1) [(mkOptionDecl (mkSpan (mkPtok 42 "Header" 1 9 2) (mkPtok 33 "' '" 1 18 4)) (mkPtok 42 "Header" 1 9 2) (mkPtok 4 "=" 1 16 3) (VPaddingChar (mkSpan (mkPtok 33 "' '" 1 18 4) (mkPtok 33 "' '" 1 18 4)) (mkPtok 33 "' '" 1 18 4)) None)] (mkPtok 3 "}" 1 22 5))); (DPacket (mkPacketDef (mkSpan (mkPtok 34 "root" 1 24 6) (mkPtok 3 "}" 21 3 76)) (Some (mkPtok 34 "root" 1 24 6)) (mkPtok 35 "packet" 2 0 7) (mkPtok 42 "lengthOf" 2 7 8) (mkPtok 2 "{" 2 15 9) [(mkFieldWithAttr (mkSpan (mkPtok 20 "uint8" 2 17 10) (mkPtok 40 "," 2 29 12)) [] (MetaField (mkSpan (mkPtok 20 "uint8" 2 17 10) (mkPtok 40 "," 2 29 12)) None (mkMetaDecl (mkSpan (mkPtok 20 "uint8" 2 17 10) (mkPtok 40 "," 2 29 12)) (TyBasic (mkSpan (mkPtok 20 "uint8" 2 17 10) (mkPtok 20 "uint8" 2 17 10)) (mkBasicType (mkSpan (mkPtok 20 "uint8" 2 17 10) (mkPtok 20 "uint8" 2 17 10)) (mkPtok 20 "uint8" 2 17 10))) (mkPtok 42 "chars" 2 23 11) None (mkPtok 40 "," 2 29 12)))); (mkFieldWithAttr (mkSpan (mkPtok 32 "@leftPad" 2 31 13) (mkPtok 40 "," 21 1 75)) [(FAPadding (mkSpan (mkPtok 32 "@leftPad" 2 31 13) (mkPtok 6 ")" 2 50 16)) (mkPaddingAttr (mkSpan (mkPtok 32 "@leftPad" 2 31 13) (mkPtok 6 ")" 2 50 16)) (mkPtok 32 "@leftPad" 2 31 13) (mkPtok 8 "(" 2 40 14) (Some (mkPtok 33 "'\x00'" 2 43 15)) (mkPtok 6 ")" 2 50 16)))] (InerObjectField (mkSpan (mkPtok 36 "repeat" 2 52 17) (mkPtok 40 "," 21 1 75)) (Some (mkPtok 36 "repeat" 2 52 17)) (InerObjectDecl (mkSpan (mkPtok 42 "u128" 3 4 18) (mkPtok 3 "}" 21 0 74)) (mkPtok 42 "u128" 3 4 18) (mkPtok 2 "{" 3 9 19) [(MatchField (mkSpan (mkPtok 38 "match" 3 10 20) (mkPtok 40 "," 6 0 32)) (mkMatchFieldDecl (mkSpan (mkPtok 38 "match" 3 10 20) (mkPtok 3 "}" 3 50 29)) (mkPtok 38 "match" 3 10 20) (mkPtok 42 "Header" 3 16 21) (mkPtok 17 "as" 3 23 22) (mkPtok 42 "msg_type" 3 26 23) (mkPtok 2 "{" 3 34 24) [(mkMatchPair (mkSpan (mkPtok 30 "007" 3 36 25) (mkPtok 40 "," 3 48 28)) (MKDigits (mkPtok 30 "007" 3 36 25)) (mkPtok 39 ":" 3 40 26) (mkPtok 42 "roots" 3 41 27) (Some (mkPtok 40 "," 3 48 28)))] (mkPtok 3 "}" 3 50 29)) (mkPtok 40 "," 6 0 32)); (ObjectField (mkSpan (mkPtok 42 "A" 6 2 33) (mkPtok 40 "," 7 2 35)) None (mkPtok 42 "A" 6 2 33) (Some (mkPtok 42 "o" 7 0 34)) None (mkPtok 40 "," 7 2 35)); (MatchField (mkSpan (mkPtok 38 "match" 8 0 36) (mkPtok 40 "," 19 17 70)) (mkMatchFieldDecl (mkSpan (mkPtok 38 "match" 8 0 36) (mkPtok 3 "}" 19 15 69)) (mkPtok 38 "match" 8 0 36) (mkPtok 42 "Header" 8 6 37) (mkPtok 17 "as" 8 13 38) (mkPtok 42 "options1" 9 0 39) (mkPtok 2 "{" 9 9 40) [(mkMatchPair (mkSpan (mkPtok 30 "00" 9 11 41) (mkPtok 40 "," 9 21 44)) (MKDigits (mkPtok 30 "00" 9 11 41)) (mkPtok 39 ":" 9 14 42) (mkPtok 42 "float" 9 16 43) (Some (mkPtok 40 "," 9 21 44))); (mkMatchPair (mkSpan (mkPtok 31 """1""" 9 22 45) (mkPtok 40 "," 9 31 48)) (MKString (mkPtok 31 """1""" 9 22 45)) (mkPtok 39 ":" 9 25 46) (mkPtok 42 "int" 9 27 47) (Some (mkPtok 40 "," 9 31 48))); (mkMatchPair (mkSpan (mkPtok 31 (string_of_bytes [34; 240; 159; 152; 128; 34]%N) 9 33 49) (mkPtok 40 "," 10 4 52)) (MKString (mkPtok 31 (string_of_bytes [34; 240; 159; 152; 128; 34]%N) 9 33 49)) (mkPtok 39 ":" 10 0 50) (mkPtok 42 "T" 10 2 51) (Some (mkPtok 40 "," 10 4 52))); (mkMatchPair (mkSpan (mkPtok 18 "[" 10 6 53) (mkPtok 42 "Foo" 18 2 64)) (MKList (mkKeyList (mkSpan (mkPtok 18 "[" 10 6 53) (mkPtok 13 "]" 17 0 61)) (mkPtok 18 "[" 10 6 53) (mkPtok 31 """a\\""" 11 4 54) [((mkPtok 40 "," 14 0 57), (mkPtok 31 """// no comment""" 14 1 58))] (mkPtok 13 "]" 17 0 61))) (mkPtok 39 ":" 18 0 63) (mkPtok 42 "Foo" 18 2 64) None); (mkMatchPair (mkSpan (mkPtok 30 "0123456789" 18 6 65) (mkPtok 40 "," 19 13 68)) (MKDigits (mkPtok 30 "0123456789" 18 6 65)) (mkPtok 39 ":" 18 17 66) (mkPtok 42 "matchKey" 19 4 67) (Some (mkPtok 40 "," 19 13 68)))] (mkPtok 3 "}" 19 15 69)) (mkPtok 40 "," 19 17 70)); (ObjectField (mkSpan (mkPtok 36 "repeat" 19 18 71) (mkPtok 40 "," 20 6 73)) (Some (mkPtok 36 "repeat" 19 18 71)) (mkPtok 42 "o" 20 4 72) None None (mkPtok 40 "," 20 6 73))] (mkPtok 3 "}" 21 0 74)) (mkPtok 40 "," 21 1 75)))] (mkPtok 3 "}" 21 3 76))); (DPacket (mkPacketDef (mkSpan (mkPtok 35 "packet" 21 5 77) (mkPtok 3 "}" 25 2 101)) None (mkPtok 35 "packet" 21 5 77) (mkPtok 42 "x_y_z" 21 12 78) (mkPtok 2 "{" 21 18 79) [(mkFieldWithAttr (mkSpan (mkPtok 36 "repeat" 21 20 80) (mkPtok 40 "," 21 38 83)) [] (ObjectField (mkSpan (mkPtok 36 "repeat" 21 20 80) (mkPtok 40 "," 21 38 83)) (Some (mkPtok 36 "repeat" 21 20 80)) (mkPtok 42 "stringy" 21 27 81) (Some (mkPtok 42 "A" 21 35 82)) None (mkPtok 40 "," 21 38 83))); (mkFieldWithAttr (mkSpan (mkPtok 9 "@tag(" 21 40 84) (mkPtok 40 "," 22 17 91)) [(FATag (mkSpan (mkPtok 9 "@tag(" 21 40 84) (mkPtok 6 ")" 21 50 86)) (mkTagAttr (mkSpan (mkPtok 9 "@tag(" 21 40 84) (mkPtok 6 ")" 21 50 86)) (mkPtok 9 "@tag(" 21 40 84) (mkPtok 30 "42" 21 47 85) (mkPtok 6 ")" 21 50 86)))] (MetaField (mkSpan (mkPtok 12 "char[" 21 52 87) (mkPtok 40 "," 22 17 91)) None (mkMetaDecl (mkSpan (mkPtok 12 "char[" 21 52 87) (mkPtok 40 "," 22 17 91)) (TyFixed (mkSpan (mkPtok 12 "char[" 21 52 87) (mkPtok 13 "]" 22 8 89)) (mkFixedString (mkSpan (mkPtok 12 "char[" 21 52 87) (mkPtok 13 "]" 22 8 89)) (mkPtok 12 "char[" 21 52 87) (mkPtok 30 "007" 22 4 88) (mkPtok 13 "]" 22 8 89))) (mkPtok 42 "Logon" 22 11 90) None (mkPtok 40 "," 22 17 91)))); (mkFieldWithAttr (mkSpan (mkPtok 32 "@leftPad" 22 18 92) (mkPtok 40 "," 25 0 100)) [(FAPadding (mkSpan (mkPtok 32 "@leftPad" 22 18 92) (mkPtok 6 ")" 23 4 95)) (mkPaddingAttr (mkSpan (mkPtok 32 "@leftPad" 22 18 92) (mkPtok 6 ")" 23 4 95)) (mkPtok 32 "@leftPad" 22 18 92) (mkPtok 8 "(" 22 27 93) (Some (mkPtok 33 "'\x00'" 22 28 94)) (mkPtok 6 ")" 23 4 95)))] (MetaField (mkSpan (mkPtok 14 "zchar[" 23 7 96) (mkPtok 40 "," 25 0 100)) None (mkMetaDecl (mkSpan (mkPtok 14 "zchar[" 23 7 96) (mkPtok 40 "," 25 0 100)) (TyFixed (mkSpan (mkPtok 14 "zchar[" 23 7 96) (mkPtok 13 "]" 24 4 98)) (mkFixedString (mkSpan (mkPtok 14 "zchar[" 23 7 96) (mkPtok 13 "]" 24 4 98)) (mkPtok 14 "zchar[" 23 7 96) (mkPtok 30 "007" 24 0 97) (mkPtok 13 "]" 24 4 98))) (mkPtok 42 "MetaDataX" 24 5 99) None (mkPtok 40 "," 25 0 100))))] (mkPtok 3 "}" 25 2 101)))])).
Eval vm_compute in ("<<<M878>>>" ++ check (runes_of_ascii "options
    { float	=
// " ++ [128512]%N ++ runes_of_ascii " emoji
// @lengthOf(
string }
")).
Eval vm_compute in ("<<<M910>>>" ++ check (runes_of_ascii "options {float = ' ' Foo =
""a	b"" A = // packet A { u8 x, }
i16
    ; string_ =""it's""} // c
MetaData float{ charz falsey // " ++ [27880; 37322]%N ++ runes_of_ascii "
, char[]chars
, float32
    Pad , }MetaData repeatCount
    {
    char[	65535] // `tick` ""quote"" 'q'
Header `" ++ [233]%N ++ runes_of_ascii "` // trailing space 
,
    float32 Pad
, u64 len
    ,
    // `tick` ""quote"" 'q'
    lengthOf a1 `{ , }`
    //	t
    ,
    //x
    }
options
    {  leftPad = zchar[ 00] ; charz
= 10
    ;options1
    =
    // trailing space 
    string len =zchar[255 ] ; Logon = ""\n""
    ; }
")).
Eval vm_compute in ("<<<M942>>>" ++ check (runes_of_ascii "options	{ Foo =1	i64_ =char[]
    /// triple
    ; string_//
=
uint16 ;  chars = char[] ;//	t
}root
packet msg_type{ body, @calculatedFrom(// " ++ [27880; 37322]%N ++ runes_of_ascii "
""packet"" ) repeat zchar[ 4294967296 ]	u128
,
}")).
Eval vm_compute in ("<<<M974>>>" ++ check (runes_of_ascii "options { f32a
=
007
    ;body =""" ++ [128512]%N ++ runes_of_ascii """	i64_ // " ++ [27880; 37322]%N ++ runes_of_ascii "
=zchar[ 0123456789
]
}
options {
    i8i8
= // c
""abc"" ; body = true T
=
float32} root packet MetaDataX
    //	t
    {	@rightPad
    ( '\x00' )char[] // " ++ [128512]%N ++ runes_of_ascii " emoji
matchKey ,
    @calculatedFrom(""CRC32""
) // c
match
int as
options1 { """ ++ [233]%N ++ runes_of_ascii "t" ++ [233]%N ++ runes_of_ascii """ : calculatedFrom , } ,@tag(  7) char[
    65535 ] packetx `" ++ [233]%N ++ runes_of_ascii "` , @calculatedFrom(
    """ ++ [28040; 24687]%N ++ runes_of_ascii """) string
    A  ,  repeat T{
repeat tag
`// not a comment`
, } ,
    // `tick` ""quote"" 'q'
    @rightPad	( '0' ) @calculatedFrom( ""{,}"") Header
    {
int8 A
    `u8 x,`
    , chars  { zchar
{ metadata//	t
metadata ,} ,zchar[ 00
] Foo // " ++ [27880; 37322]%N ++ runes_of_ascii "
, repeat lengthOf
{ x	`line1
line2` ,
    repeat
    // trailing space 
    zchar[ 1
    //x
    ]
trueish ,},
match uint8x as As { 1 :u128
, ""a\""b""	:i64_ 0 : string_,} ,
} , }//
,//	t
repeat char float `say ""hi""`  ,
// a // b
//
repeat
    char[]x `say ""hi""`
    , repeat char[]
    //	t
    A `{ , }` , Header @lengthOf( lengthOf ) , } root packet
float { string_/// triple
repeatCount ,
repeat //x
rootA x  ,  }
// " ++ [128512]%N ++ runes_of_ascii " emoji
")).
Eval vm_compute in ("<<<M1006>>>" ++ check (runes_of_ascii "
MetaData
A
//
// " ++ [128512]%N ++ runes_of_ascii " emoji
{ u8x
A /// triple
``
, int16 roots `// not a comment`
    , u128 u,
int options1 `" ++ [28040; 24687; 31867; 22411]%N ++ runes_of_ascii "`,  i16 repeatCount
,i8	roots, // `tick` ""quote"" 'q'
} root
packet matchKey{  lengthOf/// triple
{ i64_@lengthOf( msg_type )
, } ,
    }
options
    {x=
    char[] } // trailing space 
packet
As{ i64_`crlf
line` , // c
rootA Z9_	,string Pad @calculatedFrom( ""// no comment""
) `say ""hi""`
,
@rightPad
(
    '\x00' )
@calculatedFrom(
    ""{,}""
)// `tick` ""quote"" 'q'
@calculatedFrom(
    ""CRC32""	)falsey `doc` , match Logon as tag { 3 : f32a ,
    ""abc"":  o , 255 :	A""abc"": leftPad, }  , @calculatedFrom(""" ++ [233]%N ++ runes_of_ascii "t" ++ [233]%N ++ runes_of_ascii """)repeat u32
_x `{ , }` , repeat stringy`a\`
,
// @lengthOf(
// " ++ [128512]%N ++ runes_of_ascii " emoji
len // packet A { u8 x, }
@lengthOf(Header
)
//
// " ++ [27880; 37322]%N ++ runes_of_ascii "
`" ++ [28040; 24687; 31867; 22411]%N ++ runes_of_ascii "`
,
    i32 len @lengthOf( repeatCount ) `line1
line2`,
    @tag(
//x
// a // b
42//x
)	BodyLength	,	}")).
Eval vm_compute in ("<<<M1038>>>" ++ check (runes_of_ascii "packet metadata
    {}
    packet charz // `tick` ""quote"" 'q'
{
    repeat
string len ,string_@lengthOf(
x_y_z )
`" ++ [233]%N ++ runes_of_ascii "`
, repeat asx,
    // @lengthOf(
    } MetaData
f32a
    { }")).
Eval vm_compute in ("<<<M1070>>>" ++ check (@nil rune)).
Eval vm_compute in ("<<<T1070>>>" ++ terms [mkTok 0 "<EOF>" 1 0 false] (mkPacket (mkPtok 0 "<EOF>" 1 0 0) None [])).
Eval vm_compute in ("<<<M1102>>>" ++ check (runes_of_ascii "//
packet T
    { @lengthOf( stringy )
f64 packetx `a\` ,packetx asx// `tick` ""quote"" 'q'
,	string matchKey `say ""hi""` , int8 roots ,u32 asx @calculatedFrom(""it's"")
, @calculatedFrom( ""// no comment""// " ++ [128512]%N ++ runes_of_ascii " emoji
)
// " ++ [27880; 37322]%N ++ runes_of_ascii "
// @lengthOf(
match i64_ as
roots
{ ""// no comment""// trailing space 
:crc , }	,
@lengthOf(
leftPad
) string u128 `doc`, @lengthOf( asx ) match
    asx
as f32a { [10,007 ] : asx , [ 10 , ""1""
] :
BodyLength, 1: Logon, }
    , @calculatedFrom(
    ""// no comment""
)
    @lengthOf(
    zchar )zchar[ 0123456789] // trailing space 
T
    `" ++ [28040; 24687; 31867; 22411]%N ++ runes_of_ascii "`  , char[
10 ]matchKey``,
    } MetaData options1
{ i64
repeatCount`a\`
,	f32 calculatedFrom `// not a comment` , char[1]	T , } packet A { // " ++ [128512]%N ++ runes_of_ascii " emoji
char[ 1 ]u `" ++ [28040; 24687; 31867; 22411]%N ++ runes_of_ascii "` , }
")).
Eval vm_compute in ("<<<M1134>>>" ++ check (runes_of_ascii "packet matchKey // @lengthOf(
{ // packet A { u8 x, }
@leftPad( '0' ) int16 options1,}
")).
Eval vm_compute in ("<<<M1166>>>" ++ check (runes_of_ascii "root packet Pad {
float64
// a // b
//x
Pad@lengthOf(repeatCount)
,@lengthOf( _x ) BodyLength o
,
}
")).
Eval vm_compute in ("<<<M1198>>>" ++ check (runes_of_ascii "packet
Pad { @leftPad
() @lengthOf(float
) @calculatedFrom( ""// no comment"" )
    repeat calculatedFrom{ uint16
i64_ @lengthOf( msg_type ) , BodyLength	trueish,_x Logon ,
} ,
} //	t")).
Eval vm_compute in ("<<<M1230>>>" ++ check (runes_of_ascii "options {
    // " ++ [27880; 37322]%N ++ runes_of_ascii "
    len =
// @lengthOf(
// c
3 }
")).
Eval vm_compute in ("<<<M1262>>>" ++ check (runes_of_ascii "MetaData Foo// " ++ [128512]%N ++ runes_of_ascii " emoji
{  }")).
Eval vm_compute in ("<<<M1294>>>" ++ check (runes_of_ascii "options { u8x
    = // @lengthOf(
""it's"" x_y_z = //
42 o
    = true ;MetaDataX
='0' ;	}
MetaData	calculatedFrom { i64 trueish , // " ++ [27880; 37322]%N ++ runes_of_ascii "
u16 stringy
    `two words`,u8x
    repeatCount,int8 matchKey
    ,} packet MetaDataX {@calculatedFrom( ""\" ++ [233]%N ++ runes_of_ascii """ ) uint8x
//x
/// triple
@lengthOf(
    /// triple
    uint8x) ,
    //	t
    repeat zchar[ 007 ]	Foo`" ++ [233]%N ++ runes_of_ascii "` , @lengthOf(
/// triple
// a // b
metadata  ) @tag(1 )
match metadata as BodyLength { 00 :
tag ,
""a	b"" :	Packet
, [ ""abc""]:	pack },
//	t
// " ++ [27880; 37322]%N ++ runes_of_ascii "
}  root packet
packetx
    { @leftPad( '\x00'
)f32a
@lengthOf( options1 ) , }
packet MetaDataX
{ }
")).
Eval vm_compute in ("<<<T1294>>>" ++ terms [mkTok 1 "options" 1 0 false; mkTok 2 "{" 1 8 false; mkTok 42 "u8x" 1 10 false; mkTok 4 "=" 2 4 false; mkTok 44 "// @lengthOf(" 2 6 true; mkTok 31 """it's""" 3 0 false; mkTok 42 "x_y_z" 3 7 false; mkTok 4 "=" 3 13 false; mkTok 44 "//" 3 15 true; mkTok 30 "42" 4 0 false; mkTok 42 "o" 4 3 false; mkTok 4 "=" 5 4 false; mkTok 10 "true" 5 6 false; mkTok 41 ";" 5 11 false; mkTok 42 "MetaDataX" 5 12 false; mkTok 4 "=" 6 0 false; mkTok 33 "'0'" 6 1 false; mkTok 41 ";" 6 5 false; mkTok 3 "}" 6 7 false; mkTok 37 "MetaData" 7 0 false; mkTok 42 "calculatedFrom" 7 9 false; mkTok 2 "{" 7 24 false; mkTok 27 "i64" 7 26 false; mkTok 42 "trueish" 7 30 false; mkTok 40 "," 7 38 false; mkTok 44 (string_of_bytes [47; 47; 32; 230; 179; 168; 233; 135; 138]%N) 7 40 true; mkTok 21 "u16" 8 0 false; mkTok 42 "stringy" 8 4 false; mkTok 43 "`two words`" 9 4 false; mkTok 40 "," 9 15 false; mkTok 42 "u8x" 9 16 false; mkTok 42 "repeatCount" 10 4 false; mkTok 40 "," 10 15 false; mkTok 24 "int8" 10 16 false; mkTok 42 "matchKey" 10 21 false; mkTok 40 "," 11 4 false; mkTok 3 "}" 11 5 false; mkTok 35 "packet" 11 7 false; mkTok 42 "MetaDataX" 11 14 false; mkTok 2 "{" 11 24 false; mkTok 5 "@calculatedFrom(" 11 25 false; mkTok 31 (string_of_bytes [34; 92; 195; 169; 34]%N) 11 42 false; mkTok 6 ")" 11 47 false; mkTok 42 "uint8x" 11 49 false; mkTok 44 "//x" 12 0 true; mkTok 44 "/// triple" 13 0 true; mkTok 7 "@lengthOf(" 14 0 false; mkTok 44 "/// triple" 15 4 true; mkTok 42 "uint8x" 16 4 false; mkTok 6 ")" 16 10 false; mkTok 40 "," 16 12 false; mkTok 44 (string_of_bytes [47; 47; 9; 116]%N) 17 4 true; mkTok 36 "repeat" 18 4 false; mkTok 14 "zchar[" 18 11 false; mkTok 30 "007" 18 18 false; mkTok 13 "]" 18 22 false; mkTok 42 "Foo" 18 24 false; mkTok 43 (string_of_bytes [96; 195; 169; 96]%N) 18 27 false; mkTok 40 "," 18 31 false; mkTok 7 "@lengthOf(" 18 33 false; mkTok 44 "/// triple" 19 0 true; mkTok 44 "// a // b" 20 0 true; mkTok 42 "metadata" 21 0 false; mkTok 6 ")" 21 10 false; mkTok 9 "@tag(" 21 12 false; mkTok 30 "1" 21 17 false; mkTok 6 ")" 21 19 false; mkTok 38 "match" 22 0 false; mkTok 42 "metadata" 22 6 false; mkTok 17 "as" 22 15 false; mkTok 42 "BodyLength" 22 18 false; mkTok 2 "{" 22 29 false; mkTok 30 "00" 22 31 false; mkTok 39 ":" 22 34 false; mkTok 42 "tag" 23 0 false; mkTok 40 "," 23 4 false; mkTok 31 (string_of_bytes [34; 97; 9; 98; 34]%N) 24 0 false; mkTok 39 ":" 24 6 false; mkTok 42 "Packet" 24 8 false; mkTok 40 "," 25 0 false; mkTok 18 "[" 25 2 false; mkTok 31 """abc""" 25 4 false; mkTok 13 "]" 25 9 false; mkTok 39 ":" 25 10 false; mkTok 42 "pack" 25 12 false; mkTok 3 "}" 25 17 false; mkTok 40 "," 25 18 false; mkTok 44 (string_of_bytes [47; 47; 9; 116]%N) 26 0 true; mkTok 44 (string_of_bytes [47; 47; 32; 230; 179; 168; 233; 135; 138]%N) 27 0 true; mkTok 3 "}" 28 0 false; mkTok 34 "root" 28 3 false; mkTok 35 "packet" 28 8 false; mkTok 42 "packetx" 29 0 false; mkTok 2 "{" 30 4 false; mkTok 32 "@leftPad" 30 6 false; mkTok 8 "(" 30 14 false; mkTok 33 "'\x00'" 30 16 false; mkTok 6 ")" 31 0 false; mkTok 42 "f32a" 31 1 false; mkTok 7 "@lengthOf(" 32 0 false; mkTok 42 "options1" 32 11 false; mkTok 6 ")" 32 20 false; mkTok 40 "," 32 22 false; mkTok 3 "}" 32 24 false; mkTok 35 "packet" 33 0 false; mkTok 42 "MetaDataX" 33 7 false; mkTok 2 "{" 34 0 false; mkTok 3 "}" 34 2 false; mkTok 0 "<EOF>" 35 0 false] (mkPacket (mkPtok 1 "options" 1 0 0) (Some (mkPtok 3 "}" 34 2 107)) [(DOption (mkOptionDef (mkSpan (mkPtok 1 "options" 1 0 0) (mkPtok 3 "}" 6 7 18)) (mkPtok 1 "options" 1 0 0) (mkPtok 2 "{" 1 8 1) [(mkOptionDecl (mkSpan (mkPtok 42 "u8x" 1 10 2) (mkPtok 31 """it's""" 3 0 5)) (mkPtok 42 "u8x" 1 10 2) (mkPtok 4 "=" 2 4 3) (VString (mkSpan (mkPtok 31 """it's""" 3 0 5) (mkPtok 31 """it's""" 3 0 5)) (mkPtok 31 """it's""" 3 0 5)) None); (mkOptionDecl (mkSpan (mkPtok 42 "x_y_z" 3 7 6) (mkPtok 30 "42" 4 0 9)) (mkPtok 42 "x_y_z" 3 7 6) (mkPtok 4 "=" 3 13 7) (VDigits (mkSpan (mkPtok 30 "42" 4 0 9) (mkPtok 30 "42" 4 0 9)) (mkPtok 30 "42" 4 0 9)) None); (mkOptionDecl (mkSpan (mkPtok 42 "o" 4 3 10) (mkPtok 41 ";" 5 11 13)) (mkPtok 42 "o" 4 3 10) (mkPtok 4 "=" 5 4 11) (VTrue (mkSpan (mkPtok 10 "true" 5 6 12) (mkPtok 10 "true" 5 6 12)) (mkPtok 10 "true" 5 6 12)) (Some (mkPtok 41 ";" 5 11 13))); (mkOptionDecl (mkSpan (mkPtok 42 "MetaDataX" 5 12 14) (mkPtok 41 ";" 6 5 17)) (mkPtok 42 "MetaDataX" 5 12 14) (mkPtok 4 "=" 6 0 15) (VPaddingChar (mkSpan (mkPtok 33 "'0'" 6 1 16) (mkPtok 33 "'0'" 6 1 16)) (mkPtok 33 "'0'" 6 1 16)) (Some (mkPtok 41 ";" 6 5 17)))] (mkPtok 3 "}" 6 7 18))); (DMeta (mkMetaDef (mkSpan (mkPtok 37 "MetaData" 7 0 19) (mkPtok 3 "}" 11 5 36)) (mkPtok 37 "MetaData" 7 0 19) (mkPtok 42 "calculatedFrom" 7 9 20) (mkPtok 2 "{" 7 24 21) [(MIDecl (mkMetaDecl (mkSpan (mkPtok 27 "i64" 7 26 22) (mkPtok 40 "," 7 38 24)) (TyBasic (mkSpan (mkPtok 27 "i64" 7 26 22) (mkPtok 27 "i64" 7 26 22)) (mkBasicType (mkSpan (mkPtok 27 "i64" 7 26 22) (mkPtok 27 "i64" 7 26 22)) (mkPtok 27 "i64" 7 26 22))) (mkPtok 42 "trueish" 7 30 23) None (mkPtok 40 "," 7 38 24))); (MIDecl (mkMetaDecl (mkSpan (mkPtok 21 "u16" 8 0 26) (mkPtok 40 "," 9 15 29)) (TyBasic (mkSpan (mkPtok 21 "u16" 8 0 26) (mkPtok 21 "u16" 8 0 26)) (mkBasicType (mkSpan (mkPtok 21 "u16" 8 0 26) (mkPtok 21 "u16" 8 0 26)) (mkPtok 21 "u16" 8 0 26))) (mkPtok 42 "stringy" 8 4 27) (Some (mkPtok 43 "`two words`" 9 4 28)) (mkPtok 40 "," 9 15 29))); (MIRef (mkRefMetaDecl (mkSpan (mkPtok 42 "u8x" 9 16 30) (mkPtok 40 "," 10 15 32)) (mkPtok 42 "u8x" 9 16 30) (mkPtok 42 "repeatCount" 10 4 31) None (mkPtok 40 "," 10 15 32))); (MIDecl (mkMetaDecl (mkSpan (mkPtok 24 "int8" 10 16 33) (mkPtok 40 "," 11 4 35)) (TyBasic (mkSpan (mkPtok 24 "int8" 10 16 33) (mkPtok 24 "int8" 10 16 33)) (mkBasicType (mkSpan (mkPtok 24 "int8" 10 16 33) (mkPtok 24 "int8" 10 16 33)) (mkPtok 24 "int8" 10 16 33))) (mkPtok 42 "matchKey" 10 21 34) None (mkPtok 40 "," 11 4 35)))] (mkPtok 3 "}" 11 5 36))); (DPacket (mkPacketDef (mkSpan (mkPtok 35 "packet" 11 7 37) (mkPtok 3 "}" 28 0 89)) None (mkPtok 35 "packet" 11 7 37) (mkPtok 42 "MetaDataX" 11 14 38) (mkPtok 2 "{" 11 24 39) [(mkFieldWithAttr (mkSpan (mkPtok 5 "@calculatedFrom(" 11 25 40) (mkPtok 40 "," 16 12 50)) [(FACalculatedFrom (mkSpan (mkPtok 5 "@calculatedFrom(" 11 25 40) (mkPtok 6 ")" 11 47 42)) (mkCalculatedFrom (mkSpan (mkPtok 5 "@calculatedFrom(" 11 25 40) (mkPtok 6 ")" 11 47 42)) (mkPtok 5 "@calculatedFrom(" 11 25 40) (mkPtok 31 (string_of_bytes [34; 92; 195; 169; 34]%N) 11 42 41) (mkPtok 6 ")" 11 47 42)))] (LengthField (mkSpan (mkPtok 42 "uint8x" 11 49 43) (mkPtok 40 "," 16 12 50)) (mkLengthFieldDecl (mkSpan (mkPtok 42 "uint8x" 11 49 43) (mkPtok 40 "," 16 12 50)) None (mkPtok 42 "uint8x" 11 49 43) (mkLengthOf (mkSpan (mkPtok 7 "@lengthOf(" 14 0 46) (mkPtok 6 ")" 16 10 49)) (mkPtok 7 "@lengthOf(" 14 0 46) (mkPtok 42 "uint8x" 16 4 48) (mkPtok 6 ")" 16 10 49)) None (mkPtok 40 "," 16 12 50)))); (mkFieldWithAttr (mkSpan (mkPtok 36 "repeat" 18 4 52) (mkPtok 40 "," 18 31 58)) [] (MetaField (mkSpan (mkPtok 36 "repeat" 18 4 52) (mkPtok 40 "," 18 31 58)) (Some (mkPtok 36 "repeat" 18 4 52)) (mkMetaDecl (mkSpan (mkPtok 14 "zchar[" 18 11 53) (mkPtok 40 "," 18 31 58)) (TyFixed (mkSpan (mkPtok 14 "zchar[" 18 11 53) (mkPtok 13 "]" 18 22 55)) (mkFixedString (mkSpan (mkPtok 14 "zchar[" 18 11 53) (mkPtok 13 "]" 18 22 55)) (mkPtok 14 "zchar[" 18 11 53) (mkPtok 30 "007" 18 18 54) (mkPtok 13 "]" 18 22 55))) (mkPtok 42 "Foo" 18 24 56) (Some (mkPtok 43 (string_of_bytes [96; 195; 169; 96]%N) 18 27 57)) (mkPtok 40 "," 18 31 58)))); (mkFieldWithAttr (mkSpan (mkPtok 7 "@lengthOf(" 18 33 59) (mkPtok 40 "," 25 18 86)) [(FALengthOf (mkSpan (mkPtok 7 "@lengthOf(" 18 33 59) (mkPtok 6 ")" 21 10 63)) (mkLengthOf (mkSpan (mkPtok 7 "@lengthOf(" 18 33 59) (mkPtok 6 ")" 21 10 63)) (mkPtok 7 "@lengthOf(" 18 33 59) (mkPtok 42 "metadata" 21 0 62) (mkPtok 6 ")" 21 10 63))); (FATag (mkSpan (mkPtok 9 "@tag(" 21 12 64) (mkPtok 6 ")" 21 19 66)) (mkTagAttr (mkSpan (mkPtok 9 "@tag(" 21 12 64) (mkPtok 6 ")" 21 19 66)) (mkPtok 9 "@tag(" 21 12 64) (mkPtok 30 "1" 21 17 65) (mkPtok 6 ")" 21 19 66)))] (MatchField (mkSpan (mkPtok 38 "match" 22 0 67) (mkPtok 40 "," 25 18 86)) (mkMatchFieldDecl (mkSpan (mkPtok 38 "match" 22 0 67) (mkPtok 3 "}" 25 17 85)) (mkPtok 38 "match" 22 0 67) (mkPtok 42 "metadata" 22 6 68) (mkPtok 17 "as" 22 15 69) (mkPtok 42 "BodyLength" 22 18 70) (mkPtok 2 "{" 22 29 71) [(mkMatchPair (mkSpan (mkPtok 30 "00" 22 31 72) (mkPtok 40 "," 23 4 75)) (MKDigits (mkPtok 30 "00" 22 31 72)) (mkPtok 39 ":" 22 34 73) (mkPtok 42 "tag" 23 0 74) (Some (mkPtok 40 "," 23 4 75))); (mkMatchPair (mkSpan (mkPtok 31 (string_of_bytes [34; 97; 9; 98; 34]%N) 24 0 76) (mkPtok 40 "," 25 0 79)) (MKString (mkPtok 31 (string_of_bytes [34; 97; 9; 98; 34]%N) 24 0 76)) (mkPtok 39 ":" 24 6 77) (mkPtok 42 "Packet" 24 8 78) (Some (mkPtok 40 "," 25 0 79))); (mkMatchPair (mkSpan (mkPtok 18 "[" 25 2 80) (mkPtok 42 "pack" 25 12 84)) (MKList (mkKeyList (mkSpan (mkPtok 18 "[" 25 2 80) (mkPtok 13 "]" 25 9 82)) (mkPtok 18 "[" 25 2 80) (mkPtok 31 """abc""" 25 4 81) [] (mkPtok 13 "]" 25 9 82))) (mkPtok 39 ":" 25 10 83) (mkPtok 42 "pack" 25 12 84) None)] (mkPtok 3 "}" 25 17 85)) (mkPtok 40 "," 25 18 86)))] (mkPtok 3 "}" 28 0 89))); (DPacket (mkPacketDef (mkSpan (mkPtok 34 "root" 28 3 90) (mkPtok 3 "}" 32 24 103)) (Some (mkPtok 34 "root" 28 3 90)) (mkPtok 35 "packet" 28 8 91) (mkPtok 42 "packetx" 29 0 92) (mkPtok 2 "{" 30 4 93) [(mkFieldWithAttr (mkSpan (mkPtok 32 "@leftPad" 30 6 94) (mkPtok 40 "," 32 22 102)) [(FAPadding (mkSpan (mkPtok 32 "@leftPad" 30 6 94) (mkPtok 6 ")" 31 0 97)) (mkPaddingAttr (mkSpan (mkPtok 32 "@leftPad" 30 6 94) (mkPtok 6 ")" 31 0 97)) (mkPtok 32 "@leftPad" 30 6 94) (mkPtok 8 "(" 30 14 95) (Some (mkPtok 33 "'\x00'" 30 16 96)) (mkPtok 6 ")" 31 0 97)))] (LengthField (mkSpan (mkPtok 42 "f32a" 31 1 98) (mkPtok 40 "," 32 22 102)) (mkLengthFieldDecl (mkSpan (mkPtok 42 "f32a" 31 1 98) (mkPtok 40 "," 32 22 102)) None (mkPtok 42 "f32a" 31 1 98) (mkLengthOf (mkSpan (mkPtok 7 "@lengthOf(" 32 0 99) (mkPtok 6 ")" 32 20 101)) (mkPtok 7 "@lengthOf(" 32 0 99) (mkPtok 42 "options1" 32 11 100) (mkPtok 6 ")" 32 20 101)) None (mkPtok 40 "," 32 22 102))))] (mkPtok 3 "}" 32 24 103))); (DPacket (mkPacketDef (mkSpan (mkPtok 35 "packet" 33 0 104) (mkPtok 3 "}" 34 2 107)) None (mkPtok 35 "packet" 33 0 104) (mkPtok 42 "MetaDataX" 33 7 105) (mkPtok 2 "{" 34 0 106) [] (mkPtok 3 "}" 34 2 107)))])).
Eval vm_compute in ("<<<M1326>>>" ++ check (runes_of_ascii "root packet i64_{	}
")).
Eval vm_compute in ("<<<M1358>>>" ++ check (runes_of_ascii " // @lengthOf(")).
Eval vm_compute in ("<<<M1390>>>" ++ check (runes_of_ascii "options { string_
=
0123456789 ; u=""" ++ [28040; 24687]%N ++ runes_of_ascii """ ; } options { f32a= 1
// " ++ [27880; 37322]%N ++ runes_of_ascii "
//x
;}packet u8x{	float32 A@calculatedFrom( ""`tick`""
    //x
    ) ,i16 o
    `" ++ [233]%N ++ runes_of_ascii "` ,int64 Logon	`
`,@calculatedFrom( ""`tick`"") @tag(
    //x
    42 ) @leftPad
    (	)
    int8
    // a // b
    len
    ,repeat char[3  ] // @lengthOf(
crc , char[] Packet	@lengthOf( pack ) // trailing space 
`" ++ [233]%N ++ runes_of_ascii "` // packet A { u8 x, }
, /// triple
}
// @lengthOf(
// @lengthOf(
packet MetaDataX{ match u8x as Header{0 : body
    //x
    , [  ""\n""
,""\n""
// @lengthOf(
/// triple
, """ ++ [128512]%N ++ runes_of_ascii """
, """ ++ [28040; 24687]%N ++ runes_of_ascii """	, 007// c
]	:
// `tick` ""quote"" 'q'
//x
leftPad, [ ""x y"" ] :
// trailing space 
//
chars[ //	t
10  ,3, ""`tick`"" ]: Header , }
    , }
")).
Eval vm_compute in ("<<<M1422>>>" ++ check (runes_of_ascii "packet options1{match string_
as// packet A { u8 x, }
i8i8 {
    10 :
a1 , ""a\""b"" :
    x_y_z ""abc"" :
charz
""" ++ [28040; 24687]%N ++ runes_of_ascii """
    : //
repeatCount, ""\" ++ [233]%N ++ runes_of_ascii """  : u8x, } ,@lengthOf( Foo// @lengthOf(
)repeat x_y_z {  repeat u32
BodyLength
,
    } ,match Foo
    as
msg_type
{ 42
:Pad [ 0
    , """ ++ [28040; 24687]%N ++ runes_of_ascii """] : MetaDataX ,	""1"" :
    // `tick` ""quote"" 'q'
    float
""x y"" // @lengthOf(
: msg_type
    //x
    , 4294967296:len} , float `" ++ [28040; 24687; 31867; 22411]%N ++ runes_of_ascii "`, }
")).
Eval vm_compute in ("<<<M1454>>>" ++ check (runes_of_ascii "
MetaData u128 { } packet string_
{ @lengthOf(	i64_
)
    /// triple
    repeat u16
    a1 , falsey	msg_type `doc`//
,@leftPad('\x00' )
u64 i64_
@calculatedFrom(
    //x
    """ ++ [28040; 24687]%N ++ runes_of_ascii """ )
,
    match
    body as len {""" ++ [128512]%N ++ runes_of_ascii """ :charz
    , //x
} , BodyLength
    `two words` // `tick` ""quote"" 'q'
,  @leftPad ( '0'
) repeat char
o
,
@tag( 42 // `tick` ""quote"" 'q'
) @tag( 1 )@calculatedFrom(""{,}""//
)
    u64 matchKey
@lengthOf( /// triple
charz)
    `// not a comment`
    ,	@calculatedFrom( ""1"")u8
A @lengthOf(
x_y_z )
    ,	@calculatedFrom( // a // b
""// no comment"" ) @lengthOf( falsey )	@calculatedFrom(""\" ++ [233]%N ++ runes_of_ascii """) match tag as f32a { [ ""\n""	, // " ++ [27880; 37322]%N ++ runes_of_ascii "
""x y"" ,
4294967296  , 00 , ""\n"" , 255
]:
    float ,
[ ""\" ++ [233]%N ++ runes_of_ascii """
] :packetx ,
    // " ++ [27880; 37322]%N ++ runes_of_ascii "
    0 :
Z9_
    , [
""" ++ [233]%N ++ runes_of_ascii "t" ++ [233]%N ++ runes_of_ascii """
]// `tick` ""quote"" 'q'
:	rootA
    ,} , } options{ f32a =
char[ 00 ]
    // `tick` ""quote"" 'q'
    ;
tag =
4294967296 ; rootA=""{,}"" } options
    {
//	t
// `tick` ""quote"" 'q'
msg_type =""\n"" ; f32a
=
""// no comment""
//x
// `tick` ""quote"" 'q'
; falsey = 65535 ;}
")).
Eval vm_compute in ("<<<M1486>>>" ++ check (runes_of_ascii "
root
    packet _x
    { }
    /// triple
    root packet // `tick` ""quote"" 'q'
rootA
{
    @lengthOf( msg_type
)
    @calculatedFrom( ""a	b""
    ) Z9_ { repeat char[]msg_type `two words` , }, }
options {Logon = 7 ; u8x = '0' len =
'\x00' Foo	=
    10 ; } MetaData leftPad
    {// @lengthOf(
Packet
i8i8 `a\`
,
msg_type
    int// " ++ [27880; 37322]%N ++ runes_of_ascii "
`line1
line2`
// @lengthOf(
/// triple
,
uint8x
i8i8
    `it's`
    ,BodyLength repeatCount ,// packet A { u8 x, }
}
")).
Eval vm_compute in ("<<<M1518>>>" ++ check (runes_of_ascii " 	 ")).
Eval vm_compute in ("<<<T1518>>>" ++ terms [mkTok 0 "<EOF>" 1 3 false] (mkPacket (mkPtok 0 "<EOF>" 1 3 0) None [])).
Eval vm_compute in ("<<<M1550>>>" ++ check (runes_of_ascii "packet
Pad //x
{ match  Logon
    as//	t
lengthOf
{ [
    ""a\""b""//	t
,	00 ,
    ""\" ++ [233]%N ++ runes_of_ascii """// " ++ [27880; 37322]%N ++ runes_of_ascii "
]	: rootA
,
[
    ""a\\"" ] : Header ,  [ ""a\""b"" , 1 ] //	t
: As ""\" ++ [233]%N ++ runes_of_ascii """:crc
, }	, @tag( 0123456789	)	u8x@lengthOf( a1 ),
    @calculatedFrom( """") uint8 crc@calculatedFrom( ""x y"") , @lengthOf(
//	t
/// triple
options1 )
    repeat Pad
    x_y_z `it's`
,
@calculatedFrom(""" ++ [28040; 24687]%N ++ runes_of_ascii """
    )@calculatedFrom( // trailing space 
""" ++ [128512]%N ++ runes_of_ascii """
    ) @calculatedFrom(  ""// no comment"" // packet A { u8 x, }
) char[ 10 ]T  `say ""hi""`,
    @lengthOf( Header ) repeat BodyLength {  char[
// " ++ [27880; 37322]%N ++ runes_of_ascii "
// packet A { u8 x, }
3
    ] trueish @lengthOf(
    leftPad )	, zchar i8i8 ,
/// triple
// trailing space 
char[]
    u8x`u8 x,`,int16 MetaDataX `crlf
line` ,
} , @calculatedFrom( """ ++ [128512]%N ++ runes_of_ascii """
) // " ++ [128512]%N ++ runes_of_ascii " emoji
repeat u8x `say ""hi""`,
    zchar[7 ] /// triple
float @calculatedFrom( """ ++ [28040; 24687]%N ++ runes_of_ascii """
    ), string Packet , // a // b
@rightPad
    (  '\x00'
) @calculatedFrom(
""a\\""
)
@calculatedFrom(/// triple
""`tick`"") match MetaDataX as leftPad{
// c
//
""// no comment"":// c
len  , } , }
    //x
    options {rootA=
/// triple
// " ++ [27880; 37322]%N ++ runes_of_ascii "
3 ; } MetaData
    trueish  { f32
float`
` ,
roots T , trueish	charz ,
i32 As ,
} packet
    u128	{ // " ++ [27880; 37322]%N ++ runes_of_ascii "
_x // @lengthOf(
@calculatedFrom( ""a	b""
) , }")).
Eval vm_compute in ("<<<M1582>>>" ++ check (runes_of_ascii "packet
MetaDataX
{ @tag(
42
    ) stringy// " ++ [27880; 37322]%N ++ runes_of_ascii "
crc
    ,
string trueish  ,
@lengthOf( float )
//x
// trailing space 
zchar[
10
]
// `tick` ""quote"" 'q'
// a // b
uint8x @lengthOf(repeatCount) `
` ,repeat i16 msg_type`" ++ [233]%N ++ runes_of_ascii "` , i16
    _x // @lengthOf(
,repeat  zchar[ 10 ] u128
,float32
o  `line1
line2` ,
    }
packet
chars { // a // b
zchar[65535  ]
    o ,match lengthOf as Pad{
""a	b"" : string_""1"" : _x
    , [""a\\"" ]: pack	, }
, @lengthOf( // a // b
asx )
    packetx /// triple
zchar `tab	here` ,
// `tick` ""quote"" 'q'
// trailing space 
match
Packet as T{ """" : repeatCount , ""packet""	: chars ,	[// packet A { u8 x, }
00 ] :	Header,
    } , msg_type@lengthOf( x )  , @tag( 00 )Packet { match tag
as MetaDataX	{ 7	: MetaDataX [
42 , 3 , ""// no comment"" ,
00 , // `tick` ""quote"" 'q'
007 ,""a\""b""
    // a // b
    ,42
, 3
    // @lengthOf(
    ]:rootA	, [ ""packet"" ,""" ++ [128512]%N ++ runes_of_ascii """
    ,""1"" ] :chars
,}, } , repeat repeatCount { zchar[
0123456789
    ]  string_ @lengthOf(
    len
    // `tick` ""quote"" 'q'
    ) , repeat
    asx
    ,
}  ,
    repeat i64 charz , @tag(3 ) i16
    o ,
}  packet // c
body {msg_type	body`it's` ,@lengthOf( charz) @lengthOf(
    repeatCount ) char[ 0123456789
]options1 @calculatedFrom(
""a	b"" /// triple
)`say ""hi""` ,trueish@lengthOf(// packet A { u8 x, }
u128 ) , crc packetx `crlf
line` ,@lengthOf( Header )
    stringy i64_ ,
@tag( 7 ) match //
matchKey
    as  Logon
    { [ """ ++ [28040; 24687]%N ++ runes_of_ascii """ //	t
,  """ ++ [233]%N ++ runes_of_ascii "t" ++ [233]%N ++ runes_of_ascii """
] : int , [ 007 ]
    : f32a ,0123456789 : i8i8 42:
    i64_
    ,
    }
, repeat
char[ 42 //	t
] int	, T
    ,int32
    Pad @lengthOf( Foo )
,calculatedFrom
{ Pad @lengthOf( o ) , } , } packet pack {
    @tag(
// trailing space 
//x
007)match
o as Pad { 0123456789
:
rootA , } ,  rootA T , int64 int,
@tag(  255 )repeat Foo
{
// packet A { u8 x, }
// `tick` ""quote"" 'q'
x_y_z `
`	, repeat leftPad { repeat
crc // a // b
`" ++ [233]%N ++ runes_of_ascii "`  ,As	{
int As
, } ,
repeat zchar[
    0 ] T , // c
} , repeat
    lengthOf u8x,
}
    , @calculatedFrom( ""\n""
) @rightPad( ' '	)BodyLength
{ Header , int16 rootA ,
match
asx // `tick` ""quote"" 'q'
as// " ++ [128512]%N ++ runes_of_ascii " emoji
uint8x {007
:_x , } , } , char[] Foo , repeat options1 { repeat uint8 tag,
// " ++ [128512]%N ++ runes_of_ascii " emoji
// " ++ [128512]%N ++ runes_of_ascii " emoji
zchar[ 65535]	a1
    @calculatedFrom(
""" ++ [28040; 24687]%N ++ runes_of_ascii """ )
,  repeat string packetx `{ , }`,
    }, repeat Header
{ As,
    //	t
    } ,
    } packet msg_type
{@calculatedFrom( ""CRC32"" //x
)repeatCount
    @lengthOf(string_	) `crlf
line` , repeat  zchar[ 4294967296 ]
    msg_type
, @tag( 1
    //	t
    ) pack	, }

")).
Eval vm_compute in ("<<<M1614>>>" ++ check (runes_of_ascii "packet u8x {
}
")).
Eval vm_compute in ("<<<M1646>>>" ++ check (runes_of_ascii "packet	_x
{
@lengthOf(
    calculatedFrom ) string tag
    ,
i8 float`say ""hi""`
    , @tag(1 ) f32
/// triple
// packet A { u8 x, }
u
    ,len o `u8 x,`
    , @leftPad ( '0'
) // packet A { u8 x, }
repeat f32 packetx, @tag(65535 ) //
zchar[ // @lengthOf(
1 ] u8x , o pack
`doc` , A @lengthOf( repeatCount ) , @calculatedFrom(
""packet"" )  string_	, @calculatedFrom( """ ++ [233]%N ++ runes_of_ascii "t" ++ [233]%N ++ runes_of_ascii """ ) zchar[255
]charz,
    }

")).
Eval vm_compute in ("<<<M1678>>>" ++ check (runes_of_ascii "  options { Z9_ = '\x00'
    ; } MetaData zchar {
string crc
    // " ++ [27880; 37322]%N ++ runes_of_ascii "
    ,} root
packet zchar{
@rightPad ( )
    // " ++ [128512]%N ++ runes_of_ascii " emoji
    match float as
    stringy{""packet"":
    u8x }, uint64 calculatedFrom @calculatedFrom(
    ""{,}"" ) ,  @lengthOf( zchar
) @lengthOf(
u ) float { // " ++ [27880; 37322]%N ++ runes_of_ascii "
repeat int, msg_type
{ uint16 msg_type @lengthOf( asx // packet A { u8 x, }
)	,
options1
{u8 leftPad @lengthOf( falsey //x
)  `u8 x,` , char[
4294967296 ] string_, string Packet
@calculatedFrom( """ ++ [128512]%N ++ runes_of_ascii """), } ,
char[
    0123456789 ]  Foo @lengthOf( _x ) `tab	here` , match charz as//	t
chars { [
255, 255
,""a\\""
,
    // " ++ [27880; 37322]%N ++ runes_of_ascii "
    65535 , """ ++ [128512]%N ++ runes_of_ascii """ ]
    :	trueish , } ,	} ,  calculatedFrom @lengthOf( // `tick` ""quote"" 'q'
options1
) , u32 BodyLength	, } , tag //	t
MetaDataX /// triple
, }packet u128 { } 	 ")).
Eval vm_compute in ("<<<M1710>>>" ++ check (runes_of_ascii "MetaData
    leftPad
    {
zchar // packet A { u8 x, }
uint8x
    `it's`
,	char[]
roots // " ++ [128512]%N ++ runes_of_ascii " emoji
,	u64 roots ,
    // " ++ [128512]%N ++ runes_of_ascii " emoji
    roots  Logon ,
}
")).
Eval vm_compute in ("<<<M1742>>>" ++ check (runes_of_ascii "/// triple
root	packet rootA{ x_y_z@calculatedFrom( ""{,}"" )
    ,
@lengthOf( charz
) @leftPad	(	) o
@calculatedFrom(
    // `tick` ""quote"" 'q'
    ""x y"" ) , @leftPad (
'0' ) @calculatedFrom( ""a\""b"" ) string_ @calculatedFrom(
""x y"" )	, @tag(
    //	t
    007
)
    repeat i64_
{
char leftPad ,
// @lengthOf(
// `tick` ""quote"" 'q'
crc
@calculatedFrom( """ ++ [28040; 24687]%N ++ runes_of_ascii """ ) ,match a1 as
roots {//x
[ ""\n"",7 ,""a\""b""
, ""`tick`"" , ""x y"" , 10
,	7 , // packet A { u8 x, }
""" ++ [128512]%N ++ runes_of_ascii """ ]
:
    lengthOf , [
42 ]	:	len
    ,	[ 255
    ]
: Z9_ , [ """ ++ [28040; 24687]%N ++ runes_of_ascii """
// @lengthOf(
//
, 00
    , 65535
    , 42  ,""a\""b""
, 255, ""it's""]:
Z9_ ""a\""b"" :  packetx
,	}
    // c
    ,
    float `// not a comment` , // @lengthOf(
}, @rightPad ( ' '
) @leftPad (  ' ') char[]string_
`// not a comment` ,	calculatedFrom _x //	t
`say ""hi""`	,
@calculatedFrom( ""it's""
// a // b
//x
)
repeat f32 A `say ""hi""` , match As as u8x {
[ 00 ] : uint8x, """ ++ [233]%N ++ runes_of_ascii "t" ++ [233]%N ++ runes_of_ascii """
: packetx
    , }, match pack as string_
{	[// @lengthOf(
""a	b"" , ""a	b""
    , // packet A { u8 x, }
1
    ,
1 ,""a	b"" ,10
    ,
//x
//x
42 , ""1"" // packet A { u8 x, }
] : Logon	} ,
    char[255
] msg_type @calculatedFrom(	""""
) ,
    } packet  float
{
}")).
Eval vm_compute in ("<<<T1742>>>" ++ terms [mkTok 44 "/// triple" 1 0 true; mkTok 34 "root" 2 0 false; mkTok 35 "packet" 2 5 false; mkTok 42 "rootA" 2 12 false; mkTok 2 "{" 2 17 false; mkTok 42 "x_y_z" 2 19 false; mkTok 5 "@calculatedFrom(" 2 24 false; mkTok 31 """{,}""" 2 41 false; mkTok 6 ")" 2 47 false; mkTok 40 "," 3 4 false; mkTok 7 "@lengthOf(" 4 0 false; mkTok 42 "charz" 4 11 false; mkTok 6 ")" 5 0 false; mkTok 32 "@leftPad" 5 2 false; mkTok 8 "(" 5 11 false; mkTok 6 ")" 5 13 false; mkTok 42 "o" 5 15 false; mkTok 5 "@calculatedFrom(" 6 0 false; mkTok 44 "// `tick` ""quote"" 'q'" 7 4 true; mkTok 31 """x y""" 8 4 false; mkTok 6 ")" 8 10 false; mkTok 40 "," 8 12 false; mkTok 32 "@leftPad" 8 14 false; mkTok 8 "(" 8 23 false; mkTok 33 "'0'" 9 0 false; mkTok 6 ")" 9 4 false; mkTok 5 "@calculatedFrom(" 9 6 false; mkTok 31 """a\""b""" 9 23 false; mkTok 6 ")" 9 30 false; mkTok 42 "string_" 9 32 false; mkTok 5 "@calculatedFrom(" 9 40 false; mkTok 31 """x y""" 10 0 false; mkTok 6 ")" 10 6 false; mkTok 40 "," 10 8 false; mkTok 9 "@tag(" 10 10 false; mkTok 44 (string_of_bytes [47; 47; 9; 116]%N) 11 4 true; mkTok 30 "007" 12 4 false; mkTok 6 ")" 13 0 false; mkTok 36 "repeat" 14 4 false; mkTok 42 "i64_" 14 11 false; mkTok 2 "{" 15 0 false; mkTok 19 "char" 16 0 false; mkTok 42 "leftPad" 16 5 false; mkTok 40 "," 16 13 false; mkTok 44 "// @lengthOf(" 17 0 true; mkTok 44 "// `tick` ""quote"" 'q'" 18 0 true; mkTok 42 "crc" 19 0 false; mkTok 5 "@calculatedFrom(" 20 0 false; mkTok 31 (string_of_bytes [34; 230; 182; 136; 230; 129; 175; 34]%N) 20 17 false; mkTok 6 ")" 20 22 false; mkTok 40 "," 20 24 false; mkTok 38 "match" 20 25 false; mkTok 42 "a1" 20 31 false; mkTok 17 "as" 20 34 false; mkTok 42 "roots" 21 0 false; mkTok 2 "{" 21 6 false; mkTok 44 "//x" 21 7 true; mkTok 18 "[" 22 0 false; mkTok 31 """\n""" 22 2 false; mkTok 40 "," 22 6 false; mkTok 30 "7" 22 7 false; mkTok 40 "," 22 9 false; mkTok 31 """a\""b""" 22 10 false; mkTok 40 "," 23 0 false; mkTok 31 """`tick`""" 23 2 false; mkTok 40 "," 23 11 false; mkTok 31 """x y""" 23 13 false; mkTok 40 "," 23 19 false; mkTok 30 "10" 23 21 false; mkTok 40 "," 24 0 false; mkTok 30 "7" 24 2 false; mkTok 40 "," 24 4 false; mkTok 44 "// packet A { u8 x, }" 24 6 true; mkTok 31 (string_of_bytes [34; 240; 159; 152; 128; 34]%N) 25 0 false; mkTok 13 "]" 25 4 false; mkTok 39 ":" 26 0 false; mkTok 42 "lengthOf" 27 4 false; mkTok 40 "," 27 13 false; mkTok 18 "[" 27 15 false; mkTok 30 "42" 28 0 false; mkTok 13 "]" 28 3 false; mkTok 39 ":" 28 5 false; mkTok 42 "len" 28 7 false; mkTok 40 "," 29 4 false; mkTok 18 "[" 29 6 false; mkTok 30 "255" 29 8 false; mkTok 13 "]" 30 4 false; mkTok 39 ":" 31 0 false; mkTok 42 "Z9_" 31 2 false; mkTok 40 "," 31 6 false; mkTok 18 "[" 31 8 false; mkTok 31 (string_of_bytes [34; 230; 182; 136; 230; 129; 175; 34]%N) 31 10 false; mkTok 44 "// @lengthOf(" 32 0 true; mkTok 44 "//" 33 0 true; mkTok 40 "," 34 0 false; mkTok 30 "00" 34 2 false; mkTok 40 "," 35 4 false; mkTok 30 "65535" 35 6 false; mkTok 40 "," 36 4 false; mkTok 30 "42" 36 6 false; mkTok 40 "," 36 10 false; mkTok 31 """a\""b""" 36 11 false; mkTok 40 "," 37 0 false; mkTok 30 "255" 37 2 false; mkTok 40 "," 37 5 false; mkTok 31 """it's""" 37 7 false; mkTok 13 "]" 37 13 false; mkTok 39 ":" 37 14 false; mkTok 42 "Z9_" 38 0 false; mkTok 31 """a\""b""" 38 4 false; mkTok 39 ":" 38 11 false; mkTok 42 "packetx" 38 14 false; mkTok 40 "," 39 0 false; mkTok 3 "}" 39 2 false; mkTok 44 "// c" 40 4 true; mkTok 40 "," 41 4 false; mkTok 42 "float" 42 4 false; mkTok 43 "`// not a comment`" 42 10 false; mkTok 40 "," 42 29 false; mkTok 44 "// @lengthOf(" 42 31 true; mkTok 3 "}" 43 0 false; mkTok 40 "," 43 1 false; mkTok 32 "@rightPad" 43 3 false; mkTok 8 "(" 43 13 false; mkTok 33 "' '" 43 15 false; mkTok 6 ")" 44 0 false; mkTok 32 "@leftPad" 44 2 false; mkTok 8 "(" 44 11 false; mkTok 33 "' '" 44 14 false; mkTok 6 ")" 44 17 false; mkTok 16 "char[]" 44 19 false; mkTok 42 "string_" 44 25 false; mkTok 43 "`// not a comment`" 45 0 false; mkTok 40 "," 45 19 false; mkTok 42 "calculatedFrom" 45 21 false; mkTok 42 "_x" 45 36 false; mkTok 44 (string_of_bytes [47; 47; 9; 116]%N) 45 39 true; mkTok 43 "`say ""hi""`" 46 0 false; mkTok 40 "," 46 11 false; mkTok 5 "@calculatedFrom(" 47 0 false; mkTok 31 """it's""" 47 17 false; mkTok 44 "// a // b" 48 0 true; mkTok 44 "//x" 49 0 true; mkTok 6 ")" 50 0 false; mkTok 36 "repeat" 51 0 false; mkTok 28 "f32" 51 7 false; mkTok 42 "A" 51 11 false; mkTok 43 "`say ""hi""`" 51 13 false; mkTok 40 "," 51 24 false; mkTok 38 "match" 51 26 false; mkTok 42 "As" 51 32 false; mkTok 17 "as" 51 35 false; mkTok 42 "u8x" 51 38 false; mkTok 2 "{" 51 42 false; mkTok 18 "[" 52 0 false; mkTok 30 "00" 52 2 false; mkTok 13 "]" 52 5 false; mkTok 39 ":" 52 7 false; mkTok 42 "uint8x" 52 9 false; mkTok 40 "," 52 15 false; mkTok 31 (string_of_bytes [34; 195; 169; 116; 195; 169; 34]%N) 52 17 false; mkTok 39 ":" 53 0 false; mkTok 42 "packetx" 53 2 false; mkTok 40 "," 54 4 false; mkTok 3 "}" 54 6 false; mkTok 40 "," 54 7 false; mkTok 38 "match" 54 9 false; mkTok 42 "pack" 54 15 false; mkTok 17 "as" 54 20 false; mkTok 42 "string_" 54 23 false; mkTok 2 "{" 55 0 false; mkTok 18 "[" 55 2 false; mkTok 44 "// @lengthOf(" 55 3 true; mkTok 31 (string_of_bytes [34; 97; 9; 98; 34]%N) 56 0 false; mkTok 40 "," 56 6 false; mkTok 31 (string_of_bytes [34; 97; 9; 98; 34]%N) 56 8 false; mkTok 40 "," 57 4 false; mkTok 44 "// packet A { u8 x, }" 57 6 true; mkTok 30 "1" 58 0 false; mkTok 40 "," 59 4 false; mkTok 30 "1" 60 0 false; mkTok 40 "," 60 2 false; mkTok 31 (string_of_bytes [34; 97; 9; 98; 34]%N) 60 3 false; mkTok 40 "," 60 9 false; mkTok 30 "10" 60 10 false; mkTok 40 "," 61 4 false; mkTok 44 "//x" 62 0 true; mkTok 44 "//x" 63 0 true; mkTok 30 "42" 64 0 false; mkTok 40 "," 64 3 false; mkTok 31 """1""" 64 5 false; mkTok 44 "// packet A { u8 x, }" 64 9 true; mkTok 13 "]" 65 0 false; mkTok 39 ":" 65 2 false; mkTok 42 "Logon" 65 4 false; mkTok 3 "}" 65 10 false; mkTok 40 "," 65 12 false; mkTok 12 "char[" 66 4 false; mkTok 30 "255" 66 9 false; mkTok 13 "]" 67 0 false; mkTok 42 "msg_type" 67 2 false; mkTok 5 "@calculatedFrom(" 67 11 false; mkTok 31 """""" 67 28 false; mkTok 6 ")" 68 0 false; mkTok 40 "," 68 2 false; mkTok 3 "}" 69 4 false; mkTok 35 "packet" 69 6 false; mkTok 42 "float" 69 14 false; mkTok 2 "{" 70 0 false; mkTok 3 "}" 71 0 false; mkTok 0 "<EOF>" 71 1 false] (mkPacket (mkPtok 34 "root" 2 0 1) (Some (mkPtok 3 "}" 71 0 209)) [(DPacket (mkPacketDef (mkSpan (mkPtok 34 "root" 2 0 1) (mkPtok 3 "}" 69 4 205)) (Some (mkPtok 34 "root" 2 0 1)) (mkPtok 35 "packet" 2 5 2) (mkPtok 42 "rootA" 2 12 3) (mkPtok 2 "{" 2 17 4) [(mkFieldWithAttr (mkSpan (mkPtok 42 "x_y_z" 2 19 5) (mkPtok 40 "," 3 4 9)) [] (CheckSumField (mkSpan (mkPtok 42 "x_y_z" 2 19 5) (mkPtok 40 "," 3 4 9)) (mkChecksumFieldDecl (mkSpan (mkPtok 42 "x_y_z" 2 19 5) (mkPtok 40 "," 3 4 9)) None (mkPtok 42 "x_y_z" 2 19 5) (mkCalculatedFrom (mkSpan (mkPtok 5 "@calculatedFrom(" 2 24 6) (mkPtok 6 ")" 2 47 8)) (mkPtok 5 "@calculatedFrom(" 2 24 6) (mkPtok 31 """{,}""" 2 41 7) (mkPtok 6 ")" 2 47 8)) None (mkPtok 40 "," 3 4 9)))); (mkFieldWithAttr (mkSpan (mkPtok 7 "@lengthOf(" 4 0 10) (mkPtok 40 "," 8 12 21)) [(FALengthOf (mkSpan (mkPtok 7 "@lengthOf(" 4 0 10) (mkPtok 6 ")" 5 0 12)) (mkLengthOf (mkSpan (mkPtok 7 "@lengthOf(" 4 0 10) (mkPtok 6 ")" 5 0 12)) (mkPtok 7 "@lengthOf(" 4 0 10) (mkPtok 42 "charz" 4 11 11) (mkPtok 6 ")" 5 0 12))); (FAPadding (mkSpan (mkPtok 32 "@leftPad" 5 2 13) (mkPtok 6 ")" 5 13 15)) (mkPaddingAttr (mkSpan (mkPtok 32 "@leftPad" 5 2 13) (mkPtok 6 ")" 5 13 15)) (mkPtok 32 "@leftPad" 5 2 13) (mkPtok 8 "(" 5 11 14) None (mkPtok 6 ")" 5 13 15)))] (CheckSumField (mkSpan (mkPtok 42 "o" 5 15 16) (mkPtok 40 "," 8 12 21)) (mkChecksumFieldDecl (mkSpan (mkPtok 42 "o" 5 15 16) (mkPtok 40 "," 8 12 21)) None (mkPtok 42 "o" 5 15 16) (mkCalculatedFrom (mkSpan (mkPtok 5 "@calculatedFrom(" 6 0 17) (mkPtok 6 ")" 8 10 20)) (mkPtok 5 "@calculatedFrom(" 6 0 17) (mkPtok 31 """x y""" 8 4 19) (mkPtok 6 ")" 8 10 20)) None (mkPtok 40 "," 8 12 21)))); (mkFieldWithAttr (mkSpan (mkPtok 32 "@leftPad" 8 14 22) (mkPtok 40 "," 10 8 33)) [(FAPadding (mkSpan (mkPtok 32 "@leftPad" 8 14 22) (mkPtok 6 ")" 9 4 25)) (mkPaddingAttr (mkSpan (mkPtok 32 "@leftPad" 8 14 22) (mkPtok 6 ")" 9 4 25)) (mkPtok 32 "@leftPad" 8 14 22) (mkPtok 8 "(" 8 23 23) (Some (mkPtok 33 "'0'" 9 0 24)) (mkPtok 6 ")" 9 4 25))); (FACalculatedFrom (mkSpan (mkPtok 5 "@calculatedFrom(" 9 6 26) (mkPtok 6 ")" 9 30 28)) (mkCalculatedFrom (mkSpan (mkPtok 5 "@calculatedFrom(" 9 6 26) (mkPtok 6 ")" 9 30 28)) (mkPtok 5 "@calculatedFrom(" 9 6 26) (mkPtok 31 """a\""b""" 9 23 27) (mkPtok 6 ")" 9 30 28)))] (CheckSumField (mkSpan (mkPtok 42 "string_" 9 32 29) (mkPtok 40 "," 10 8 33)) (mkChecksumFieldDecl (mkSpan (mkPtok 42 "string_" 9 32 29) (mkPtok 40 "," 10 8 33)) None (mkPtok 42 "string_" 9 32 29) (mkCalculatedFrom (mkSpan (mkPtok 5 "@calculatedFrom(" 9 40 30) (mkPtok 6 ")" 10 6 32)) (mkPtok 5 "@calculatedFrom(" 9 40 30) (mkPtok 31 """x y""" 10 0 31) (mkPtok 6 ")" 10 6 32)) None (mkPtok 40 "," 10 8 33)))); (mkFieldWithAttr (mkSpan (mkPtok 9 "@tag(" 10 10 34) (mkPtok 40 "," 43 1 121)) [(FATag (mkSpan (mkPtok 9 "@tag(" 10 10 34) (mkPtok 6 ")" 13 0 37)) (mkTagAttr (mkSpan (mkPtok 9 "@tag(" 10 10 34) (mkPtok 6 ")" 13 0 37)) (mkPtok 9 "@tag(" 10 10 34) (mkPtok 30 "007" 12 4 36) (mkPtok 6 ")" 13 0 37)))] (InerObjectField (mkSpan (mkPtok 36 "repeat" 14 4 38) (mkPtok 40 "," 43 1 121)) (Some (mkPtok 36 "repeat" 14 4 38)) (InerObjectDecl (mkSpan (mkPtok 42 "i64_" 14 11 39) (mkPtok 3 "}" 43 0 120)) (mkPtok 42 "i64_" 14 11 39) (mkPtok 2 "{" 15 0 40) [(MetaField (mkSpan (mkPtok 19 "char" 16 0 41) (mkPtok 40 "," 16 13 43)) None (mkMetaDecl (mkSpan (mkPtok 19 "char" 16 0 41) (mkPtok 40 "," 16 13 43)) (TyBasic (mkSpan (mkPtok 19 "char" 16 0 41) (mkPtok 19 "char" 16 0 41)) (mkBasicType (mkSpan (mkPtok 19 "char" 16 0 41) (mkPtok 19 "char" 16 0 41)) (mkPtok 19 "char" 16 0 41))) (mkPtok 42 "leftPad" 16 5 42) None (mkPtok 40 "," 16 13 43))); (CheckSumField (mkSpan (mkPtok 42 "crc" 19 0 46) (mkPtok 40 "," 20 24 50)) (mkChecksumFieldDecl (mkSpan (mkPtok 42 "crc" 19 0 46) (mkPtok 40 "," 20 24 50)) None (mkPtok 42 "crc" 19 0 46) (mkCalculatedFrom (mkSpan (mkPtok 5 "@calculatedFrom(" 20 0 47) (mkPtok 6 ")" 20 22 49)) (mkPtok 5 "@calculatedFrom(" 20 0 47) (mkPtok 31 (string_of_bytes [34; 230; 182; 136; 230; 129; 175; 34]%N) 20 17 48) (mkPtok 6 ")" 20 22 49)) None (mkPtok 40 "," 20 24 50))); (MatchField (mkSpan (mkPtok 38 "match" 20 25 51) (mkPtok 40 "," 41 4 115)) (mkMatchFieldDecl (mkSpan (mkPtok 38 "match" 20 25 51) (mkPtok 3 "}" 39 2 113)) (mkPtok 38 "match" 20 25 51) (mkPtok 42 "a1" 20 31 52) (mkPtok 17 "as" 20 34 53) (mkPtok 42 "roots" 21 0 54) (mkPtok 2 "{" 21 6 55) [(mkMatchPair (mkSpan (mkPtok 18 "[" 22 0 57) (mkPtok 40 "," 27 13 77)) (MKList (mkKeyList (mkSpan (mkPtok 18 "[" 22 0 57) (mkPtok 13 "]" 25 4 74)) (mkPtok 18 "[" 22 0 57) (mkPtok 31 """\n""" 22 2 58) [((mkPtok 40 "," 22 6 59), (mkPtok 30 "7" 22 7 60)); ((mkPtok 40 "," 22 9 61), (mkPtok 31 """a\""b""" 22 10 62)); ((mkPtok 40 "," 23 0 63), (mkPtok 31 """`tick`""" 23 2 64)); ((mkPtok 40 "," 23 11 65), (mkPtok 31 """x y""" 23 13 66)); ((mkPtok 40 "," 23 19 67), (mkPtok 30 "10" 23 21 68)); ((mkPtok 40 "," 24 0 69), (mkPtok 30 "7" 24 2 70)); ((mkPtok 40 "," 24 4 71), (mkPtok 31 (string_of_bytes [34; 240; 159; 152; 128; 34]%N) 25 0 73))] (mkPtok 13 "]" 25 4 74))) (mkPtok 39 ":" 26 0 75) (mkPtok 42 "lengthOf" 27 4 76) (Some (mkPtok 40 "," 27 13 77))); (mkMatchPair (mkSpan (mkPtok 18 "[" 27 15 78) (mkPtok 40 "," 29 4 83)) (MKList (mkKeyList (mkSpan (mkPtok 18 "[" 27 15 78) (mkPtok 13 "]" 28 3 80)) (mkPtok 18 "[" 27 15 78) (mkPtok 30 "42" 28 0 79) [] (mkPtok 13 "]" 28 3 80))) (mkPtok 39 ":" 28 5 81) (mkPtok 42 "len" 28 7 82) (Some (mkPtok 40 "," 29 4 83))); (mkMatchPair (mkSpan (mkPtok 18 "[" 29 6 84) (mkPtok 40 "," 31 6 89)) (MKList (mkKeyList (mkSpan (mkPtok 18 "[" 29 6 84) (mkPtok 13 "]" 30 4 86)) (mkPtok 18 "[" 29 6 84) (mkPtok 30 "255" 29 8 85) [] (mkPtok 13 "]" 30 4 86))) (mkPtok 39 ":" 31 0 87) (mkPtok 42 "Z9_" 31 2 88) (Some (mkPtok 40 "," 31 6 89))); (mkMatchPair (mkSpan (mkPtok 18 "[" 31 8 90) (mkPtok 42 "Z9_" 38 0 108)) (MKList (mkKeyList (mkSpan (mkPtok 18 "[" 31 8 90) (mkPtok 13 "]" 37 13 106)) (mkPtok 18 "[" 31 8 90) (mkPtok 31 (string_of_bytes [34; 230; 182; 136; 230; 129; 175; 34]%N) 31 10 91) [((mkPtok 40 "," 34 0 94), (mkPtok 30 "00" 34 2 95)); ((mkPtok 40 "," 35 4 96), (mkPtok 30 "65535" 35 6 97)); ((mkPtok 40 "," 36 4 98), (mkPtok 30 "42" 36 6 99)); ((mkPtok 40 "," 36 10 100), (mkPtok 31 """a\""b""" 36 11 101)); ((mkPtok 40 "," 37 0 102), (mkPtok 30 "255" 37 2 103)); ((mkPtok 40 "," 37 5 104), (mkPtok 31 """it's""" 37 7 105))] (mkPtok 13 "]" 37 13 106))) (mkPtok 39 ":" 37 14 107) (mkPtok 42 "Z9_" 38 0 108) None); (mkMatchPair (mkSpan (mkPtok 31 """a\""b""" 38 4 109) (mkPtok 40 "," 39 0 112)) (MKString (mkPtok 31 """a\""b""" 38 4 109)) (mkPtok 39 ":" 38 11 110) (mkPtok 42 "packetx" 38 14 111) (Some (mkPtok 40 "," 39 0 112)))] (mkPtok 3 "}" 39 2 113)) (mkPtok 40 "," 41 4 115)); (ObjectField (mkSpan (mkPtok 42 "float" 42 4 116) (mkPtok 40 "," 42 29 118)) None (mkPtok 42 "float" 42 4 116) None (Some (mkPtok 43 "`// not a comment`" 42 10 117)) (mkPtok 40 "," 42 29 118))] (mkPtok 3 "}" 43 0 120)) (mkPtok 40 "," 43 1 121))); (mkFieldWithAttr (mkSpan (mkPtok 32 "@rightPad" 43 3 122) (mkPtok 40 "," 45 19 133)) [(FAPadding (mkSpan (mkPtok 32 "@rightPad" 43 3 122) (mkPtok 6 ")" 44 0 125)) (mkPaddingAttr (mkSpan (mkPtok 32 "@rightPad" 43 3 122) (mkPtok 6 ")" 44 0 125)) (mkPtok 32 "@rightPad" 43 3 122) (mkPtok 8 "(" 43 13 123) (Some (mkPtok 33 "' '" 43 15 124)) (mkPtok 6 ")" 44 0 125))); (FAPadding (mkSpan (mkPtok 32 "@leftPad" 44 2 126) (mkPtok 6 ")" 44 17 129)) (mkPaddingAttr (mkSpan (mkPtok 32 "@leftPad" 44 2 126) (mkPtok 6 ")" 44 17 129)) (mkPtok 32 "@leftPad" 44 2 126) (mkPtok 8 "(" 44 11 127) (Some (mkPtok 33 "' '" 44 14 128)) (mkPtok 6 ")" 44 17 129)))] (MetaField (mkSpan (mkPtok 16 "char[]" 44 19 130) (mkPtok 40 "," 45 19 133)) None (mkMetaDecl (mkSpan (mkPtok 16 "char[]" 44 19 130) (mkPtok 40 "," 45 19 133)) (TyDynamic (mkSpan (mkPtok 16 "char[]" 44 19 130) (mkPtok 16 "char[]" 44 19 130)) (mkDynamicString (mkSpan (mkPtok 16 "char[]" 44 19 130) (mkPtok 16 "char[]" 44 19 130)) (mkPtok 16 "char[]" 44 19 130))) (mkPtok 42 "string_" 44 25 131) (Some (mkPtok 43 "`// not a comment`" 45 0 132)) (mkPtok 40 "," 45 19 133)))); (mkFieldWithAttr (mkSpan (mkPtok 42 "calculatedFrom" 45 21 134) (mkPtok 40 "," 46 11 138)) [] (ObjectField (mkSpan (mkPtok 42 "calculatedFrom" 45 21 134) (mkPtok 40 "," 46 11 138)) None (mkPtok 42 "calculatedFrom" 45 21 134) (Some (mkPtok 42 "_x" 45 36 135)) (Some (mkPtok 43 "`say ""hi""`" 46 0 137)) (mkPtok 40 "," 46 11 138))); (mkFieldWithAttr (mkSpan (mkPtok 5 "@calculatedFrom(" 47 0 139) (mkPtok 40 "," 51 24 148)) [(FACalculatedFrom (mkSpan (mkPtok 5 "@calculatedFrom(" 47 0 139) (mkPtok 6 ")" 50 0 143)) (mkCalculatedFrom (mkSpan (mkPtok 5 "@calculatedFrom(" 47 0 139) (mkPtok 6 ")" 50 0 143)) (mkPtok 5 "@calculatedFrom(" 47 0 139) (mkPtok 31 """it's""" 47 17 140) (mkPtok 6 ")" 50 0 143)))] (MetaField (mkSpan (mkPtok 36 "repeat" 51 0 144) (mkPtok 40 "," 51 24 148)) (Some (mkPtok 36 "repeat" 51 0 144)) (mkMetaDecl (mkSpan (mkPtok 28 "f32" 51 7 145) (mkPtok 40 "," 51 24 148)) (TyBasic (mkSpan (mkPtok 28 "f32" 51 7 145) (mkPtok 28 "f32" 51 7 145)) (mkBasicType (mkSpan (mkPtok 28 "f32" 51 7 145) (mkPtok 28 "f32" 51 7 145)) (mkPtok 28 "f32" 51 7 145))) (mkPtok 42 "A" 51 11 146) (Some (mkPtok 43 "`say ""hi""`" 51 13 147)) (mkPtok 40 "," 51 24 148)))); (mkFieldWithAttr (mkSpan (mkPtok 38 "match" 51 26 149) (mkPtok 40 "," 54 7 165)) [] (MatchField (mkSpan (mkPtok 38 "match" 51 26 149) (mkPtok 40 "," 54 7 165)) (mkMatchFieldDecl (mkSpan (mkPtok 38 "match" 51 26 149) (mkPtok 3 "}" 54 6 164)) (mkPtok 38 "match" 51 26 149) (mkPtok 42 "As" 51 32 150) (mkPtok 17 "as" 51 35 151) (mkPtok 42 "u8x" 51 38 152) (mkPtok 2 "{" 51 42 153) [(mkMatchPair (mkSpan (mkPtok 18 "[" 52 0 154) (mkPtok 40 "," 52 15 159)) (MKList (mkKeyList (mkSpan (mkPtok 18 "[" 52 0 154) (mkPtok 13 "]" 52 5 156)) (mkPtok 18 "[" 52 0 154) (mkPtok 30 "00" 52 2 155) [] (mkPtok 13 "]" 52 5 156))) (mkPtok 39 ":" 52 7 157) (mkPtok 42 "uint8x" 52 9 158) (Some (mkPtok 40 "," 52 15 159))); (mkMatchPair (mkSpan (mkPtok 31 (string_of_bytes [34; 195; 169; 116; 195; 169; 34]%N) 52 17 160) (mkPtok 40 "," 54 4 163)) (MKString (mkPtok 31 (string_of_bytes [34; 195; 169; 116; 195; 169; 34]%N) 52 17 160)) (mkPtok 39 ":" 53 0 161) (mkPtok 42 "packetx" 53 2 162) (Some (mkPtok 40 "," 54 4 163)))] (mkPtok 3 "}" 54 6 164)) (mkPtok 40 "," 54 7 165))); (mkFieldWithAttr (mkSpan (mkPtok 38 "match" 54 9 166) (mkPtok 40 "," 65 12 196)) [] (MatchField (mkSpan (mkPtok 38 "match" 54 9 166) (mkPtok 40 "," 65 12 196)) (mkMatchFieldDecl (mkSpan (mkPtok 38 "match" 54 9 166) (mkPtok 3 "}" 65 10 195)) (mkPtok 38 "match" 54 9 166) (mkPtok 42 "pack" 54 15 167) (mkPtok 17 "as" 54 20 168) (mkPtok 42 "string_" 54 23 169) (mkPtok 2 "{" 55 0 170) [(mkMatchPair (mkSpan (mkPtok 18 "[" 55 2 171) (mkPtok 42 "Logon" 65 4 194)) (MKList (mkKeyList (mkSpan (mkPtok 18 "[" 55 2 171) (mkPtok 13 "]" 65 0 192)) (mkPtok 18 "[" 55 2 171) (mkPtok 31 (string_of_bytes [34; 97; 9; 98; 34]%N) 56 0 173) [((mkPtok 40 "," 56 6 174), (mkPtok 31 (string_of_bytes [34; 97; 9; 98; 34]%N) 56 8 175)); ((mkPtok 40 "," 57 4 176), (mkPtok 30 "1" 58 0 178)); ((mkPtok 40 "," 59 4 179), (mkPtok 30 "1" 60 0 180)); ((mkPtok 40 "," 60 2 181), (mkPtok 31 (string_of_bytes [34; 97; 9; 98; 34]%N) 60 3 182)); ((mkPtok 40 "," 60 9 183), (mkPtok 30 "10" 60 10 184)); ((mkPtok 40 "," 61 4 185), (mkPtok 30 "42" 64 0 188)); ((mkPtok 40 "," 64 3 189), (mkPtok 31 """1""" 64 5 190))] (mkPtok 13 "]" 65 0 192))) (mkPtok 39 ":" 65 2 193) (mkPtok 42 "Logon" 65 4 194) None)] (mkPtok 3 "}" 65 10 195)) (mkPtok 40 "," 65 12 196))); (mkFieldWithAttr (mkSpan (mkPtok 12 "char[" 66 4 197) (mkPtok 40 "," 68 2 204)) [] (CheckSumField (mkSpan (mkPtok 12 "char[" 66 4 197) (mkPtok 40 "," 68 2 204)) (mkChecksumFieldDecl (mkSpan (mkPtok 12 "char[" 66 4 197) (mkPtok 40 "," 68 2 204)) (Some (TyFixed (mkSpan (mkPtok 12 "char[" 66 4 197) (mkPtok 13 "]" 67 0 199)) (mkFixedString (mkSpan (mkPtok 12 "char[" 66 4 197) (mkPtok 13 "]" 67 0 199)) (mkPtok 12 "char[" 66 4 197) (mkPtok 30 "255" 66 9 198) (mkPtok 13 "]" 67 0 199)))) (mkPtok 42 "msg_type" 67 2 200) (mkCalculatedFrom (mkSpan (mkPtok 5 "@calculatedFrom(" 67 11 201) (mkPtok 6 ")" 68 0 203)) (mkPtok 5 "@calculatedFrom(" 67 11 201) (mkPtok 31 """""" 67 28 202) (mkPtok 6 ")" 68 0 203)) None (mkPtok 40 "," 68 2 204))))] (mkPtok 3 "}" 69 4 205))); (DPacket (mkPacketDef (mkSpan (mkPtok 35 "packet" 69 6 206) (mkPtok 3 "}" 71 0 209)) None (mkPtok 35 "packet" 69 6 206) (mkPtok 42 "float" 69 14 207) (mkPtok 2 "{" 70 0 208) [] (mkPtok 3 "}" 71 0 209)))])).
Eval vm_compute in ("<<<M1774>>>" ++ check (runes_of_ascii "root packet
rootA {	int64	uint8x ,
char[ 1 ]u `crlf
line`
    //x
    , //
u16
// trailing space 
//x
asx@calculatedFrom( ""\n"" ) //
, @leftPad (
// trailing space 
//x
)
    // packet A { u8 x, }
    repeat int32  Z9_`a\` ,
//	t
// packet A { u8 x, }
match f32a //
as// c
Logon {""abc""
    : Pad""`tick`""
:
_x , // @lengthOf(
7 :
    matchKey ,//	t
""x y"" :options1
    , 65535 : Foo 3 : Pad}
    ,
@tag(0
) repeat
f32
    u8x // trailing space 
`a\` , @calculatedFrom(  ""a\""b""
    /// triple
    )
    string crc@calculatedFrom(
    // " ++ [128512]%N ++ runes_of_ascii " emoji
    """ ++ [28040; 24687]%N ++ runes_of_ascii """
    )
// " ++ [128512]%N ++ runes_of_ascii " emoji
// trailing space 
`a\` , @tag(  255) i8 float `u8 x,`,
    // packet A { u8 x, }
    repeat
//	t
/// triple
char int `a\`,}root packet msg_type {repeat uint16 chars , @calculatedFrom( """ ++ [128512]%N ++ runes_of_ascii """ ) match metadata as
// trailing space 
// packet A { u8 x, }
body{ [ 3 , ""abc""]: rootA,
4294967296
    // " ++ [128512]%N ++ runes_of_ascii " emoji
    : calculatedFrom , 1:
roots , // " ++ [27880; 37322]%N ++ runes_of_ascii "
255: Header ,
    [ 0
// @lengthOf(
// `tick` ""quote"" 'q'
] : chars , } , match	packetx as a1 {
[ // " ++ [128512]%N ++ runes_of_ascii " emoji
""\" ++ [233]%N ++ runes_of_ascii """ , ""CRC32""]:  leftPad, ""it's""  :	body 255 : x } ,@lengthOf(  int ) repeat
    i16	Packet
,
//	t
//x
@tag(
    // " ++ [27880; 37322]%N ++ runes_of_ascii "
    00)
repeat x
    {u128@lengthOf(
crc ) // trailing space 
,
//
// " ++ [27880; 37322]%N ++ runes_of_ascii "
repeat matchKey, //
} ,
repeat string stringy , } packet msg_type {match matchKey as// a // b
crc  { [ ""it's"" , ""abc"" ,
3 , 0,// a // b
""a	b"" ,
1 , 10	]	:
Packet ""packet""  : Header ,0123456789 //	t
: len ,
    [
    7	] :lengthOf ,
""" ++ [233]%N ++ runes_of_ascii "t" ++ [233]%N ++ runes_of_ascii """
    :  trueish, } , //	t
@lengthOf(u128
    // a // b
    ) @leftPad // trailing space 
( '\x00' ) leftPad
    // " ++ [27880; 37322]%N ++ runes_of_ascii "
    @calculatedFrom( """"  )`// not a comment` , int16 leftPad@lengthOf( body) ,
    repeat float64	MetaDataX ,
} packet u8x
    {	}
packet	Z9_
{ repeat int { i8 matchKey , }
    , @tag( 65535 )
char Header , }")).
Eval vm_compute in ("<<<M1806>>>" ++ check (runes_of_ascii "root packet i64_
// trailing space 
// trailing space 
{ i16
//	t
//	t
BodyLength,
@rightPad (
    )
    repeat int16 matchKey `two words` , stringy @lengthOf( options1 )`say ""hi""` , } options
    { int= ""CRC32"" int = 007 }
root //
packet o{  @tag(
65535 )
    repeat
o , @rightPad// a // b
( '0' ) zchar[ 1
]
i64_
    `two words` , }
")).
Eval vm_compute in ("<<<M1838>>>" ++ check (runes_of_ascii "
root
packet matchKey {  } packet options1{ @calculatedFrom( //
""x y"" ) repeat uint8 pack , @lengthOf( _x )@rightPad
    ( )	@tag( // @lengthOf(
42 ) Header
    @calculatedFrom(  ""// no comment"" ) `a\`,char[	4294967296
]i64_`u8 x,` ,
    MetaDataX BodyLength,
    //
    match As
    as o {
[ ""{,}"" ] : charz
,
// a // b
// trailing space 
""packet"" // packet A { u8 x, }
: a1
    , 7 :// trailing space 
len ,
[// trailing space 
7	]: crc ,  3
    :u // a // b
,
} , @calculatedFrom(
    """ ++ [28040; 24687]%N ++ runes_of_ascii """ )	@calculatedFrom(""CRC32"" ) // @lengthOf(
@lengthOf(
    u128 ) match /// triple
len as zchar  { [""a\\""
    , """ ++ [28040; 24687]%N ++ runes_of_ascii """ , 10
    //x
    , ""CRC32"" ,""" ++ [128512]%N ++ runes_of_ascii """  , 0 ] :i64_ ,
    3
// `tick` ""quote"" 'q'
// trailing space 
:
    Pad 00	: u128 ,
    007
: trueish , 00:// `tick` ""quote"" 'q'
matchKey , // " ++ [128512]%N ++ runes_of_ascii " emoji
}
    ,match BodyLength as Header { 0123456789
:
matchKey,
    }, } MetaData u8x
    {}
")).
Eval vm_compute in ("<<<M1870>>>" ++ check (runes_of_ascii "
// a // b
")).
Eval vm_compute in ("<<<M1902>>>" ++ check (runes_of_ascii "
root packet Foo { @calculatedFrom(
""a\""b"" ) string u8x // " ++ [27880; 37322]%N ++ runes_of_ascii "
,	repeat calculatedFrom
// c
//	t
{
trueish { i8i8 {// `tick` ""quote"" 'q'
zchar[ 7]uint8x @lengthOf( charz )  `u8 x,`
    , MetaDataX @lengthOf( asx) , tag @lengthOf( calculatedFrom
    ) ,}// c
,
    packetx
@lengthOf( x ),
} // c
, }
    ,
@tag(007)
repeat	_x f32a
// " ++ [27880; 37322]%N ++ runes_of_ascii "
// `tick` ""quote"" 'q'
`two words`
    , @tag( 00) @lengthOf(  BodyLength
    ) string
calculatedFrom
`a\`	, }
    options { zchar
=
    // c
    zchar[
    //
    7	]
    ; u128 =char[]
// a // b
// " ++ [128512]%N ++ runes_of_ascii " emoji
}")).
Eval vm_compute in ("<<<M1934>>>" ++ check (runes_of_ascii "
MetaData
A {
Logon Foo  , } packet len	{ @calculatedFrom(
""abc"") @tag( 0 ) float32
falsey,
    chars Packet `crlf
line` ,
@leftPad ( '0'
) string x_y_z@calculatedFrom(
""" ++ [233]%N ++ runes_of_ascii "t" ++ [233]%N ++ runes_of_ascii """	)
`a\`, // @lengthOf(
@calculatedFrom( ""a\""b"" )repeat char[
00 ] x
    //
    ,repeat Foo msg_type , @lengthOf(
    _x // " ++ [27880; 37322]%N ++ runes_of_ascii "
) char[]
// @lengthOf(
//x
body @calculatedFrom( ""a	b"" ) , } options {}
MetaData
int{ metadata /// triple
float , // c
stringy	zchar, i32
leftPad //x
`doc`
    //x
    ,
float64 packetx	, uint16 o , }
")).
Eval vm_compute in ("<<<M1966>>>" ++ check (runes_of_ascii "
packet// trailing space 
options1 { char[
1
] calculatedFrom , o
{
falsey	@calculatedFrom(  ""1"" ) // `tick` ""quote"" 'q'
,} /// triple
,@calculatedFrom(""x y"") char[] repeatCount , u32// packet A { u8 x, }
As @lengthOf(	float ) `doc` , charz
@lengthOf( /// triple
body) , i8
repeatCount @lengthOf( // a // b
repeatCount ) `
` , int8 u8x
@calculatedFrom(""a	b"" ) , //
@lengthOf( string_
    ) uint64 T`say ""hi""` ,} MetaData  matchKey {uint8x leftPad,	} 	 ")).
Eval vm_compute in ("<<<T1966>>>" ++ terms [mkTok 35 "packet" 2 0 false; mkTok 44 "// trailing space " 2 6 true; mkTok 42 "options1" 3 0 false; mkTok 2 "{" 3 9 false; mkTok 12 "char[" 3 11 false; mkTok 30 "1" 4 0 false; mkTok 13 "]" 5 0 false; mkTok 42 "calculatedFrom" 5 2 false; mkTok 40 "," 5 17 false; mkTok 42 "o" 5 19 false; mkTok 2 "{" 6 0 false; mkTok 42 "falsey" 7 0 false; mkTok 5 "@calculatedFrom(" 7 7 false; mkTok 31 """1""" 7 25 false; mkTok 6 ")" 7 29 false; mkTok 44 "// `tick` ""quote"" 'q'" 7 31 true; mkTok 40 "," 8 0 false; mkTok 3 "}" 8 1 false; mkTok 44 "/// triple" 8 3 true; mkTok 40 "," 9 0 false; mkTok 5 "@calculatedFrom(" 9 1 false; mkTok 31 """x y""" 9 17 false; mkTok 6 ")" 9 22 false; mkTok 16 "char[]" 9 24 false; mkTok 42 "repeatCount" 9 31 false; mkTok 40 "," 9 43 false; mkTok 22 "u32" 9 45 false; mkTok 44 "// packet A { u8 x, }" 9 48 true; mkTok 42 "As" 10 0 false; mkTok 7 "@lengthOf(" 10 3 false; mkTok 42 "float" 10 14 false; mkTok 6 ")" 10 20 false; mkTok 43 "`doc`" 10 22 false; mkTok 40 "," 10 28 false; mkTok 42 "charz" 10 30 false; mkTok 7 "@lengthOf(" 11 0 false; mkTok 44 "/// triple" 11 11 true; mkTok 42 "body" 12 0 false; mkTok 6 ")" 12 4 false; mkTok 40 "," 12 6 false; mkTok 24 "i8" 12 8 false; mkTok 42 "repeatCount" 13 0 false; mkTok 7 "@lengthOf(" 13 12 false; mkTok 44 "// a // b" 13 23 true; mkTok 42 "repeatCount" 14 0 false; mkTok 6 ")" 14 12 false; mkTok 43 (string_of_bytes [96; 10; 96]%N) 14 14 false; mkTok 40 "," 15 2 false; mkTok 24 "int8" 15 4 false; mkTok 42 "u8x" 15 9 false; mkTok 5 "@calculatedFrom(" 16 0 false; mkTok 31 (string_of_bytes [34; 97; 9; 98; 34]%N) 16 16 false; mkTok 6 ")" 16 22 false; mkTok 40 "," 16 24 false; mkTok 44 "//" 16 26 true; mkTok 7 "@lengthOf(" 17 0 false; mkTok 42 "string_" 17 11 false; mkTok 6 ")" 18 4 false; mkTok 23 "uint64" 18 6 false; mkTok 42 "T" 18 13 false; mkTok 43 "`say ""hi""`" 18 14 false; mkTok 40 "," 18 25 false; mkTok 3 "}" 18 26 false; mkTok 37 "MetaData" 18 28 false; mkTok 42 "matchKey" 18 38 false; mkTok 2 "{" 18 47 false; mkTok 42 "uint8x" 18 48 false; mkTok 42 "leftPad" 18 55 false; mkTok 40 "," 18 62 false; mkTok 3 "}" 18 64 false; mkTok 0 "<EOF>" 18 68 false] (mkPacket (mkPtok 35 "packet" 2 0 0) (Some (mkPtok 3 "}" 18 64 69)) [(DPacket (mkPacketDef (mkSpan (mkPtok 35 "packet" 2 0 0) (mkPtok 3 "}" 18 26 62)) None (mkPtok 35 "packet" 2 0 0) (mkPtok 42 "options1" 3 0 2) (mkPtok 2 "{" 3 9 3) [(mkFieldWithAttr (mkSpan (mkPtok 12 "char[" 3 11 4) (mkPtok 40 "," 5 17 8)) [] (MetaField (mkSpan (mkPtok 12 "char[" 3 11 4) (mkPtok 40 "," 5 17 8)) None (mkMetaDecl (mkSpan (mkPtok 12 "char[" 3 11 4) (mkPtok 40 "," 5 17 8)) (TyFixed (mkSpan (mkPtok 12 "char[" 3 11 4) (mkPtok 13 "]" 5 0 6)) (mkFixedString (mkSpan (mkPtok 12 "char[" 3 11 4) (mkPtok 13 "]" 5 0 6)) (mkPtok 12 "char[" 3 11 4) (mkPtok 30 "1" 4 0 5) (mkPtok 13 "]" 5 0 6))) (mkPtok 42 "calculatedFrom" 5 2 7) None (mkPtok 40 "," 5 17 8)))); (mkFieldWithAttr (mkSpan (mkPtok 42 "o" 5 19 9) (mkPtok 40 "," 9 0 19)) [] (InerObjectField (mkSpan (mkPtok 42 "o" 5 19 9) (mkPtok 40 "," 9 0 19)) None (InerObjectDecl (mkSpan (mkPtok 42 "o" 5 19 9) (mkPtok 3 "}" 8 1 17)) (mkPtok 42 "o" 5 19 9) (mkPtok 2 "{" 6 0 10) [(CheckSumField (mkSpan (mkPtok 42 "falsey" 7 0 11) (mkPtok 40 "," 8 0 16)) (mkChecksumFieldDecl (mkSpan (mkPtok 42 "falsey" 7 0 11) (mkPtok 40 "," 8 0 16)) None (mkPtok 42 "falsey" 7 0 11) (mkCalculatedFrom (mkSpan (mkPtok 5 "@calculatedFrom(" 7 7 12) (mkPtok 6 ")" 7 29 14)) (mkPtok 5 "@calculatedFrom(" 7 7 12) (mkPtok 31 """1""" 7 25 13) (mkPtok 6 ")" 7 29 14)) None (mkPtok 40 "," 8 0 16)))] (mkPtok 3 "}" 8 1 17)) (mkPtok 40 "," 9 0 19))); (mkFieldWithAttr (mkSpan (mkPtok 5 "@calculatedFrom(" 9 1 20) (mkPtok 40 "," 9 43 25)) [(FACalculatedFrom (mkSpan (mkPtok 5 "@calculatedFrom(" 9 1 20) (mkPtok 6 ")" 9 22 22)) (mkCalculatedFrom (mkSpan (mkPtok 5 "@calculatedFrom(" 9 1 20) (mkPtok 6 ")" 9 22 22)) (mkPtok 5 "@calculatedFrom(" 9 1 20) (mkPtok 31 """x y""" 9 17 21) (mkPtok 6 ")" 9 22 22)))] (MetaField (mkSpan (mkPtok 16 "char[]" 9 24 23) (mkPtok 40 "," 9 43 25)) None (mkMetaDecl (mkSpan (mkPtok 16 "char[]" 9 24 23) (mkPtok 40 "," 9 43 25)) (TyDynamic (mkSpan (mkPtok 16 "char[]" 9 24 23) (mkPtok 16 "char[]" 9 24 23)) (mkDynamicString (mkSpan (mkPtok 16 "char[]" 9 24 23) (mkPtok 16 "char[]" 9 24 23)) (mkPtok 16 "char[]" 9 24 23))) (mkPtok 42 "repeatCount" 9 31 24) None (mkPtok 40 "," 9 43 25)))); (mkFieldWithAttr (mkSpan (mkPtok 22 "u32" 9 45 26) (mkPtok 40 "," 10 28 33)) [] (LengthField (mkSpan (mkPtok 22 "u32" 9 45 26) (mkPtok 40 "," 10 28 33)) (mkLengthFieldDecl (mkSpan (mkPtok 22 "u32" 9 45 26) (mkPtok 40 "," 10 28 33)) (Some (TyBasic (mkSpan (mkPtok 22 "u32" 9 45 26) (mkPtok 22 "u32" 9 45 26)) (mkBasicType (mkSpan (mkPtok 22 "u32" 9 45 26) (mkPtok 22 "u32" 9 45 26)) (mkPtok 22 "u32" 9 45 26)))) (mkPtok 42 "As" 10 0 28) (mkLengthOf (mkSpan (mkPtok 7 "@lengthOf(" 10 3 29) (mkPtok 6 ")" 10 20 31)) (mkPtok 7 "@lengthOf(" 10 3 29) (mkPtok 42 "float" 10 14 30) (mkPtok 6 ")" 10 20 31)) (Some (mkPtok 43 "`doc`" 10 22 32)) (mkPtok 40 "," 10 28 33)))); (mkFieldWithAttr (mkSpan (mkPtok 42 "charz" 10 30 34) (mkPtok 40 "," 12 6 39)) [] (LengthField (mkSpan (mkPtok 42 "charz" 10 30 34) (mkPtok 40 "," 12 6 39)) (mkLengthFieldDecl (mkSpan (mkPtok 42 "charz" 10 30 34) (mkPtok 40 "," 12 6 39)) None (mkPtok 42 "charz" 10 30 34) (mkLengthOf (mkSpan (mkPtok 7 "@lengthOf(" 11 0 35) (mkPtok 6 ")" 12 4 38)) (mkPtok 7 "@lengthOf(" 11 0 35) (mkPtok 42 "body" 12 0 37) (mkPtok 6 ")" 12 4 38)) None (mkPtok 40 "," 12 6 39)))); (mkFieldWithAttr (mkSpan (mkPtok 24 "i8" 12 8 40) (mkPtok 40 "," 15 2 47)) [] (LengthField (mkSpan (mkPtok 24 "i8" 12 8 40) (mkPtok 40 "," 15 2 47)) (mkLengthFieldDecl (mkSpan (mkPtok 24 "i8" 12 8 40) (mkPtok 40 "," 15 2 47)) (Some (TyBasic (mkSpan (mkPtok 24 "i8" 12 8 40) (mkPtok 24 "i8" 12 8 40)) (mkBasicType (mkSpan (mkPtok 24 "i8" 12 8 40) (mkPtok 24 "i8" 12 8 40)) (mkPtok 24 "i8" 12 8 40)))) (mkPtok 42 "repeatCount" 13 0 41) (mkLengthOf (mkSpan (mkPtok 7 "@lengthOf(" 13 12 42) (mkPtok 6 ")" 14 12 45)) (mkPtok 7 "@lengthOf(" 13 12 42) (mkPtok 42 "repeatCount" 14 0 44) (mkPtok 6 ")" 14 12 45)) (Some (mkPtok 43 (string_of_bytes [96; 10; 96]%N) 14 14 46)) (mkPtok 40 "," 15 2 47)))); (mkFieldWithAttr (mkSpan (mkPtok 24 "int8" 15 4 48) (mkPtok 40 "," 16 24 53)) [] (CheckSumField (mkSpan (mkPtok 24 "int8" 15 4 48) (mkPtok 40 "," 16 24 53)) (mkChecksumFieldDecl (mkSpan (mkPtok 24 "int8" 15 4 48) (mkPtok 40 "," 16 24 53)) (Some (TyBasic (mkSpan (mkPtok 24 "int8" 15 4 48) (mkPtok 24 "int8" 15 4 48)) (mkBasicType (mkSpan (mkPtok 24 "int8" 15 4 48) (mkPtok 24 "int8" 15 4 48)) (mkPtok 24 "int8" 15 4 48)))) (mkPtok 42 "u8x" 15 9 49) (mkCalculatedFrom (mkSpan (mkPtok 5 "@calculatedFrom(" 16 0 50) (mkPtok 6 ")" 16 22 52)) (mkPtok 5 "@calculatedFrom(" 16 0 50) (mkPtok 31 (string_of_bytes [34; 97; 9; 98; 34]%N) 16 16 51) (mkPtok 6 ")" 16 22 52)) None (mkPtok 40 "," 16 24 53)))); (mkFieldWithAttr (mkSpan (mkPtok 7 "@lengthOf(" 17 0 55) (mkPtok 40 "," 18 25 61)) [(FALengthOf (mkSpan (mkPtok 7 "@lengthOf(" 17 0 55) (mkPtok 6 ")" 18 4 57)) (mkLengthOf (mkSpan (mkPtok 7 "@lengthOf(" 17 0 55) (mkPtok 6 ")" 18 4 57)) (mkPtok 7 "@lengthOf(" 17 0 55) (mkPtok 42 "string_" 17 11 56) (mkPtok 6 ")" 18 4 57)))] (MetaField (mkSpan (mkPtok 23 "uint64" 18 6 58) (mkPtok 40 "," 18 25 61)) None (mkMetaDecl (mkSpan (mkPtok 23 "uint64" 18 6 58) (mkPtok 40 "," 18 25 61)) (TyBasic (mkSpan (mkPtok 23 "uint64" 18 6 58) (mkPtok 23 "uint64" 18 6 58)) (mkBasicType (mkSpan (mkPtok 23 "uint64" 18 6 58) (mkPtok 23 "uint64" 18 6 58)) (mkPtok 23 "uint64" 18 6 58))) (mkPtok 42 "T" 18 13 59) (Some (mkPtok 43 "`say ""hi""`" 18 14 60)) (mkPtok 40 "," 18 25 61))))] (mkPtok 3 "}" 18 26 62))); (DMeta (mkMetaDef (mkSpan (mkPtok 37 "MetaData" 18 28 63) (mkPtok 3 "}" 18 64 69)) (mkPtok 37 "MetaData" 18 28 63) (mkPtok 42 "matchKey" 18 38 64) (mkPtok 2 "{" 18 47 65) [(MIRef (mkRefMetaDecl (mkSpan (mkPtok 42 "uint8x" 18 48 66) (mkPtok 40 "," 18 62 68)) (mkPtok 42 "uint8x" 18 48 66) (mkPtok 42 "leftPad" 18 55 67) None (mkPtok 40 "," 18 62 68)))] (mkPtok 3 "}" 18 64 69)))])).
Eval vm_compute in ("<<<M1998>>>" ++ check (runes_of_ascii "packet
i64_	{ @rightPad ( '0')
zchar[ 0123456789 ] o
`// not a comment`,	repeat u64
// @lengthOf(
// " ++ [27880; 37322]%N ++ runes_of_ascii "
body ,
} MetaData falsey{
zchar[ 42
    ]
    calculatedFrom , Pad len `doc`, int32 a1 `doc` ,
// `tick` ""quote"" 'q'
// c
} packet BodyLength { match
    //x
    u as
repeatCount {
    3 :
    Z9_ ,
""CRC32"" : Foo ,	42//	t
: leftPad
, }  , Z9_
leftPad `a\` , }

")).
Eval vm_compute in ("<<<M2030>>>" ++ check (runes_of_ascii "options{ i64_ = string string ; trueish =
    '\x00'
    leftPad = ""a\\"" /// triple
; crc
    = 255; uint8x
=
""abc""
    ;}")).
Eval vm_compute in ("<<<M2062>>>" ++ check (runes_of_ascii "options{ i64_ = string ; trueish =
    '\x00'
    leftPad as ""a\\"" /// triple
; crc
    = 255; uint8x
=
""abc""
    ;}")).
Eval vm_compute in ("<<<M2094>>>" ++ check (runes_of_ascii "options{ i64_ = string ; trueish =
    '\x00'
    leftPad = ""a\\"" /// triple
; crc
    = 255; 
=
""abc""
    ;}")).
Eval vm_compute in ("<<<M2126>>>" ++ check (runes_of_ascii "options{ i6~4_ = string ; trueish =
    '\x00'
    leftPad = ""a\\"" /// triple
; crc
    = 255; uint8x
=
""abc""
    ;}")).
Eval vm_compute in ("<<<M2158>>>" ++ check (runes_of_ascii "  packet
asx
{
/// triple
// @lengthOf(
, stringy
`" ++ [28040; 24687; 31867; 22411]%N ++ runes_of_ascii "` ,} MetaData
    A {string  _x, zchar Header `a\`
// @lengthOf(
// packet A { u8 x, }
, char[] MetaDataX
,zchar[ 1 ]
    matchKey
    , char[] //
u,	char[0123456789 ]
    matchKey
    `{ , }`, }
")).
Eval vm_compute in ("<<<M2190>>>" ++ check (runes_of_ascii "  packet
asx
{
/// triple
// @lengthOf(
u32 stringy
`" ++ [28040; 24687; 31867; 22411]%N ++ runes_of_ascii "` ,} MetaData
    A string  _x, zchar Header `a\`
// @lengthOf(
// packet A { u8 x, }
, char[] MetaDataX
,zchar[ 1 ]
    matchKey
    , char[] //
u,	char[0123456789 ]
    matchKey
    `{ , }`, }
")).
Eval vm_compute in ("<<<M2222>>>" ++ check (runes_of_ascii "  packet
asx
{
/// triple
// @lengthOf(
u32 stringy
`" ++ [28040; 24687; 31867; 22411]%N ++ runes_of_ascii "` ,} MetaData
    A {string  _x, zchar Header ,
// @lengthOf(
// packet A { u8 x, }
`a\` char[] MetaDataX
,zchar[ 1 ]
    matchKey
    , char[] //
u,	char[0123456789 ]
    matchKey
    `{ , }`, }
")).
Eval vm_compute in ("<<<M2254>>>" ++ check (runes_of_ascii "  packet
asx
{
/// triple
// @lengthOf(
u32 stringy
`" ++ [28040; 24687; 31867; 22411]%N ++ runes_of_ascii "` ,} MetaData
    A {string  _x, zchar Header `a\`
// @lengthOf(
// packet A { u8 x, }
, char[] MetaDataX
,zchar[")).
Eval vm_compute in ("<<<M2286>>>" ++ check (runes_of_ascii "  packet
asx
{
/// triple
// @lengthOf(
u32 stringy
`" ++ [28040; 24687; 31867; 22411]%N ++ runes_of_ascii "` ,} MetaData
    A {string  _x, zchar Header `a\`
// @lengthOf(
// packet A { u8 x, }
, char[] MetaDataX
,zchar[ 1 ]
    matchKey
    , char[] //
u,	char[ char[0123456789 ]
    matchKey
    `{ , }`, }
")).
Eval vm_compute in ("<<<M2318>>>" ++ check (runes_of_ascii "  packet
asx
{
/// triple
// @lengthOf(
u32 stringy
`" ++ [28040; 24687; 31867; 22411]%N ++ runes_of_ascii "` ,} MetaData
    A {string  _x, zchar Header `a\`
// @lengthOf(
// packet A { u8 x, }
, char[] MetaDataX
,zchar[ 1 ]
    matchKey
    , char[] //
u,	char[0123456789 ]
    matchKey
    `{ , }`,")).
Eval vm_compute in ("<<<M2350>>>" ++ check (runes_of_ascii "root")).
Eval vm_compute in ("<<<M2382>>>" ++ check (runes_of_ascii "root
    packet
Packet
{ //")).
Eval vm_compute in ("<<<M2414>>>" ++ check (runes_of_ascii "options{ = // a // b
falsey
    '0' } options { repeatCount =
true ; string_// a // b
=
// c
// " ++ [27880; 37322]%N ++ runes_of_ascii "
int64
// trailing space 
/// triple
; } // @lengthOf(")).
Eval vm_compute in ("<<<M2446>>>" ++ check (runes_of_ascii "options{ falsey // a // b
=
    '0' } options {")).
Eval vm_compute in ("<<<M2478>>>" ++ check (runes_of_ascii "options{ falsey // a // b
=
    '0' } options { repeatCount =
true ; string_// a // b
=
// c
// " ++ [27880; 37322]%N ++ runes_of_ascii "
int64
// trailing space 
/// triple
; ; } // @lengthOf(")).
Eval vm_compute in ("<<<M2510>>>" ++ check (runes_of_ascii "{options}root packet
metadata {
@lengthOf(x ) float32
body ``, }
    MetaData
Z9_
    {
    string string_ , Logon x
,
uint32
    // packet A { u8 x, }
    Z9_,asx
_x
    `tab	here` , }
")).
Eval vm_compute in ("<<<M2542>>>" ++ check (runes_of_ascii "options{}root packet
metadata")).
Eval vm_compute in ("<<<M2574>>>" ++ check (runes_of_ascii "options{}root packet
metadata {
@lengthOf(x ) float32
body ``, , }
    MetaData
Z9_
    {
    string string_ , Logon x
,
uint32
    // packet A { u8 x, }
    Z9_,asx
_x
    `tab	here` , }
")).
Eval vm_compute in ("<<<M2606>>>" ++ check (runes_of_ascii "options{}root packet
metadata {
@lengthOf(x ) float32
body ``, }
    MetaData
Z9_
    {
    string as , Logon x
,
uint32
    // packet A { u8 x, }
    Z9_,asx
_x
    `tab	here` , }
")).
Eval vm_compute in ("<<<M2638>>>" ++ check (runes_of_ascii "options{}root packet
metadata {
@lengthOf(x ) float32
body ``, }
    MetaData
Z9_
    {
    string string_ , Logon x
,
uint32
    // packet A { u8 x, }
    Z9_ asx
_x
    `tab	here` , }
")).
Eval vm_compute in ("<<<M2670>>>" ++ check (runes_of_ascii "options{}root packet
metadata {
@lengthOf(x ) float32
body ``, }
    MetaData
Z9_
    {
    string s")).
Eval vm_compute in ("<<<M2702>>>" ++ check (runes_of_ascii "options {
    @calculatedFrom(=
""a\\"" ; }")).
Eval vm_compute in ("<<<M2734>>>" ++ check (runes_of_ascii "options {
    falsey" ++ [233]%N ++ runes_of_ascii "=
""a\\"" ; }")).
Eval vm_compute in ("<<<M2766>>>" ++ check (runes_of_ascii "MetaData f32a
{
    //	t
    }root root
    packet tag  {
}
")).
Eval vm_compute in ("<<<M2798>>>" ++ check (runes_of_ascii "MetaData f32a
{
    //	t
    }root
    ""packet tag  {
}
")).
Eval vm_compute in ("<<<M2830>>>" ++ check (runes_of_ascii "
options
    {msg_type")).
Eval vm_compute in ("<<<M2862>>>" ++ check (runes_of_ascii "
options
    {msg_type =
    float32  }root
packet Z9_{ char char /// triple
crc @lengthOf(
options1 ) //
,} MetaData a1{}
")).
Eval vm_compute in ("<<<M2894>>>" ++ check (runes_of_ascii "
options
    {msg_type =
    float32  }root
packet Z9_{ char /// triple
crc @lengthOf(
options1 ) //
,MetaData MetaData a1{}
")).
Eval vm_compute in ("<<<M2926>>>" ++ check (runes_of_ascii "
options
    {msg_type =
    float32  }root
packet Z9_" ++ [0]%N ++ runes_of_ascii " { char /// triple
crc @lengthOf(
options1 ) //
,} MetaData a1{}
")).
Eval vm_compute in ("<<<M2958>>>" ++ check (runes_of_ascii "packet crc{ // " ++ [128512]%N ++ runes_of_ascii " emoji
repeat string string i8i8
`a\`, }
")).
Eval vm_compute in ("<<<M2990>>>" ++ check (runes_of_ascii "packet crc{ // " ++ [128512]%N ++ runes_of_ascii " emoji
repeat string i8i8
`a\`, ' }
")).
Eval vm_compute in ("<<<M3022>>>" ++ check (runes_of_ascii "packet BodyLength {")).
Eval vm_compute in ("<<<M3054>>>" ++ check (runes_of_ascii "packet BodyLength {} MetaData zchar{ zchar[// @lengthOf(
42 ]
    pack pack , string_
A , char[]crc , _x trueish ,
// " ++ [27880; 37322]%N ++ runes_of_ascii "
// " ++ [128512]%N ++ runes_of_ascii " emoji
zchar[
    3 ]	T // trailing space 
, } packet body
{
    }
")).
Eval vm_compute in ("<<<M3086>>>" ++ check (runes_of_ascii "packet BodyLength {} MetaData zchar{ zchar[// @lengthOf(
42 ]
    pack , string_
A , char[]string , _x trueish ,
// " ++ [27880; 37322]%N ++ runes_of_ascii "
// " ++ [128512]%N ++ runes_of_ascii " emoji
zchar[
    3 ]	T // trailing space 
, } packet body
{
    }
")).
Eval vm_compute in ("<<<M3118>>>" ++ check (runes_of_ascii "packet BodyLength {} MetaData zchar{ zchar[// @lengthOf(
42 ]
    pack , string_
A , char[]crc , _x trueish ,
// " ++ [27880; 37322]%N ++ runes_of_ascii "
// " ++ [128512]%N ++ runes_of_ascii " emoji
zchar[
    3 	T // trailing space 
, } packet body
{
    }
")).
Eval vm_compute in ("<<<M3150>>>" ++ check (runes_of_ascii "packet BodyLength {} MetaData zchar{ zchar[// @lengthOf(
42 ]
    pack , string_
A , char[]crc , _x trueish ,
// " ++ [27880; 37322]%N ++ runes_of_ascii "
// " ++ [128512]%N ++ runes_of_ascii " emoji
zchar[
    3 ]	T // trailing space 
, } packet body
}
    {
")).
Eval vm_compute in ("<<<M3182>>>" ++ check (runes_of_ascii "as
string_ {@lengthOf( int ) match packetx as f32a {
    1 :	calculatedFrom , }  ,
    } packet len
    //	t
    { @calculatedFrom( """ ++ [233]%N ++ runes_of_ascii "t" ++ [233]%N ++ runes_of_ascii """ ) body Header , char[] lengthOf  `two words` ,chars{repeat string_ matchKey ,
    } ,
    }
")).
Eval vm_compute in ("<<<M3214>>>" ++ check (runes_of_ascii "packet
string_ {@lengthOf( int ) match  as f32a {
    1 :	calculatedFrom , }  ,
    } packet len
    //	t
    { @calculatedFrom( """ ++ [233]%N ++ runes_of_ascii "t" ++ [233]%N ++ runes_of_ascii """ ) body Header , char[] lengthOf  `two words` ,chars{repeat string_ matchKey ,
    } ,
    }
")).
Eval vm_compute in ("<<<M3246>>>" ++ check (runes_of_ascii "packet
string_ {@lengthOf( int ) match packetx as f32a {
    1 :	, calculatedFrom }  ,
    } packet len
    //	t
    { @calculatedFrom( """ ++ [233]%N ++ runes_of_ascii "t" ++ [233]%N ++ runes_of_ascii """ ) body Header , char[] lengthOf  `two words` ,chars{repeat string_ matchKey ,
    } ,
    }
")).
Eval vm_compute in ("<<<M3278>>>" ++ check (runes_of_ascii "packet
string_ {@lengthOf( int ) match packetx as f32a {
    1 :	calculatedFrom , }  ,
    } packet")).
Eval vm_compute in ("<<<M3310>>>" ++ check (runes_of_ascii "packet
string_ {@lengthOf( int ) match packetx as f32a {
    1 :	calculatedFrom , }  ,
    } packet len
    //	t
    { @calculatedFrom( """ ++ [233]%N ++ runes_of_ascii "t" ++ [233]%N ++ runes_of_ascii """ ) body Header , , char[] lengthOf  `two words` ,chars{repeat string_ matchKey ,
    } ,
    }
")).
Eval vm_compute in ("<<<M3342>>>" ++ check (runes_of_ascii "packet
string_ {@lengthOf( int ) match packetx as f32a {
    1 :	calculatedFrom , }  ,
    } packet len
    //	t
    { @calculatedFrom( """ ++ [233]%N ++ runes_of_ascii "t" ++ [233]%N ++ runes_of_ascii """ ) body Header , char[] lengthOf  `two words` ,chars repeat repeat string_ matchKey ,
    } ,
    }
")).
Eval vm_compute in ("<<<M3374>>>" ++ check (runes_of_ascii "packet
string_ {@lengthOf( int ) match packetx as f32a {
    1 :	calculatedFrom , }  ,
    } packet len
    //	t
    { @calculatedFrom( """ ++ [233]%N ++ runes_of_ascii "t" ++ [233]%N ++ runes_of_ascii """ ) body Header , char[] lengthOf  `two words` ,chars{repeat string_ matchKey ,
    } ,
    
")).
Eval vm_compute in ("<<<M3406>>>" ++ check (runes_of_ascii "/// triple
root
packet // packet A { u8 x, }
chars { @lengthOf(charz )
stringy,  @tag(  0 ) // a // b
asx
    As
,
// trailing space 
// trailing space 
x_y_z {
repeat i16 charz , } ,	int16  crc ,")).
Eval vm_compute in ("<<<M3438>>>" ++ check (runes_of_ascii "/// triple
root
packet // packet A { u8 x, }
chars { @lengthOf(charz )
stringy,  @tag(  0 ) // a // b
asx
    As
,
// trailing space 
// trailing space 
x_y_z repeat
{ i16 charz , } ,	int16  crc ,}
")).
Eval vm_compute in ("<<<M3470>>>" ++ check (runes_of_ascii "/// triple
root
packet // packet A { u8 x, }
chars { @lengthOf(charz )
stringy,  @tag(  0 ) // a // b
asx
    As
,
// trailing space 
// trailing space 
x_y_z {
repeat i16")).
Eval vm_compute in ("<<<M3502>>>" ++ check (runes_of_ascii "u80")).
Eval vm_compute in ("<<<M3534>>>" ++ check (runes_of_ascii "matches")).
Eval vm_compute in ("<<<M3566>>>" ++ check (runes_of_ascii "///")).
Eval vm_compute in ("<<<M3598>>>" ++ check (runes_of_ascii "a-b")).
Eval vm_compute in ("<<<M3630>>>" ++ check (runes_of_ascii "packet A { repeat u8 }")).
Eval vm_compute in ("<<<M3662>>>" ++ check (runes_of_ascii "packet A { B { }, }")).
Eval vm_compute in ("<<<M3694>>>" ++ check (runes_of_ascii "packet A { u8 x, @tag(1) }")).
Eval vm_compute in ("<<<M3726>>>" ++ check (runes_of_ascii "options { a = 1; b = 2 c = 3;; }")).
Eval vm_compute in ("<<<M3758>>>" ++ check (runes_of_ascii "/")).
Eval vm_compute in ("<<<M3790>>>" ++ check (runes_of_ascii ") ( 0123456789 '0' string MetaData true")).
Eval vm_compute in ("<<<M3822>>>" ++ check (runes_of_ascii "packet f64 int32 repeat packetx ) char[]")).
Eval vm_compute in ("<<<M3854>>>" ++ check (runes_of_ascii "char[ } zchar[ ] packet ; as } string repeat ,")).
Eval vm_compute in ("<<<M3886>>>" ++ check (runes_of_ascii "char[] '\x00' false uint64 repeat zchar[ uint16 float64")).
Eval vm_compute in ("<<<M3918>>>" ++ check (runes_of_ascii "root 1 : ; u16 ' ' string")).
Eval vm_compute in ("<<<M3950>>>" ++ check (runes_of_ascii "; options zchar[ [ uint64 ) int16 root match int64 ( 255 uint8 `say ""hi""`")).
Eval vm_compute in ("<<<M3982>>>" ++ check (runes_of_ascii "MetaData uint32 false = as")).
