From FP Require Import Lexer Parser ShowPT Digest.
From Coq Require Import String List NArith.
Import ListNotations.
Open Scope string_scope.
Set Printing Width 100000000.
Set Printing Depth 100000000.
Definition nl : string := String (Ascii.ascii_of_nat 10) EmptyString.
Definition model_lex (rs : list rune) : string := show_toks (lex rs).
Definition model_parse (rs : list rune) : string :=
  show_pt (match lex rs with Some ts => parse ts | None => None end).
(* coqc is slow at printing long strings: digests first (Digest.v), full texts on demand *)
Definition check (rs : list rune) : string :=
  digest (model_lex rs) ++ " " ++ digest (model_parse rs).
Definition full (rs : list rune) : string := model_lex rs ++ nl ++ model_parse rs.
Definition terms (ts : list tok) (t : pt) : string :=
  digest (show_toks (Some ts)) ++ " " ++ digest (show_pt (Some t)) ++ " " ++ digest (show_pt (parse ts)).
Definition terms_full (ts : list tok) (t : pt) : string :=
  show_toks (Some ts) ++ nl ++ show_pt (Some t) ++ nl ++ show_pt (parse ts).
Eval vm_compute in ("<<<M14>>>" ++ check (runes_of_ascii "packet
x_y_z{ @calculatedFrom( // `tick` ""quote"" 'q'
""" ++ [128512]%N ++ runes_of_ascii """ ) uint16 a1 , string
    crc //
, char[0123456789 ]charz
`doc`
    //x
    ,//x
match As	as packetx { ""a\""b"":
MetaDataX , ""{,}""  : f32a
,42 : metadata // " ++ [27880; 37322]%N ++ runes_of_ascii "
[""1"" , 7 ]:
chars ,  } , }  MetaData
T
    { //x
uint8 f32a`
`
    , string MetaDataX, char[ // 50% %s
0123456789 // @lengthOf(
]MetaDataX `tab	here`
    , } packet //
uint8x	{ }	packet
    matchKey{ @tag( 00 // c
) @tag(
    255
    // `tick` ""quote"" 'q'
    ) @calculatedFrom(
    //	t
    ""a	b""
    )body @calculatedFrom( ""`tick`"" ) , // trailing space 
@lengthOf( matchKey ) match i8i8
as msg_type  { 00: float
, ""{,}"" :T	} ,@rightPad
    ( '\x00') f64 trueish,  @lengthOf(
chars )repeat string	A ,match Z9_ // trailing space 
as /// triple
metadata {	[ 42
    , ""packet""]	: charz
7 : body// 50% %s
7 :	Z9_ , } ,	zchar[ 00 ]  float
`
` , @lengthOf(
    leftPad
    // c
    ) repeat x_y_z
    metadata ,// 50% %s
@calculatedFrom( ""a\\"")
@calculatedFrom(
    """ ++ [28040; 24687]%N ++ runes_of_ascii """ )match MetaDataX as Pad { ""// no comment"": pack , }, @tag(007
)
    /// triple
    crc { // @lengthOf(
Z9_ {
u128 { repeat repeatCount trueish ,As `crlf
line` ,repeat
    char[ 0123456789
    // " ++ [128512]%N ++ runes_of_ascii " emoji
    ]uint8x ,
string
repeatCount,
    } , repeat int16 i64_ , repeat
f32a Packet ``
,
    }, }	,
    }
")).
Eval vm_compute in ("<<<M46>>>" ++ check (runes_of_ascii "MetaData metadata {u8
tag
    ,
}")).
Eval vm_compute in ("<<<M78>>>" ++ check (runes_of_ascii "packet
Foo
{repeat int16 u8x,
//
// packet A { u8 x, }
}	options {
// `tick` ""quote"" 'q'
//
x =// packet A { u8 x, }
0123456789 ; BodyLength
    = zchar[	00 ] f32a =false
    ;
    // 50% %s
    stringy = int32}
    packet
zchar {}
")).
Eval vm_compute in ("<<<M110>>>" ++ check (runes_of_ascii "packet
calculatedFrom { Header @lengthOf( T
    )
    `" ++ [233]%N ++ runes_of_ascii "`
,}
root
packet T
{
    @tag( 4294967296) // a // b
string
    string_
// packet A { u8 x, }
// `tick` ""quote"" 'q'
@calculatedFrom(
// trailing space 
/// triple
""""), zchar[
007 ]  i64_, // " ++ [27880; 37322]%N ++ runes_of_ascii "
@tag( 4294967296) msg_type	@calculatedFrom( ""1""	) ,
x
{
    // c
    Packet, }, repeat u8 T
// c
/// triple
`a\` ,f32a
// trailing space 
//	t
@lengthOf( float
    // packet A { u8 x, }
    ) , @calculatedFrom( """ ++ [233]%N ++ runes_of_ascii "t" ++ [233]%N ++ runes_of_ascii """ )match crc
as
repeatCount{ ""a	b"": pack, } , @calculatedFrom(
    ""it's""
)f64
uint8x @lengthOf(crc ) `two words` ,
char[] tag ,}
")).
Eval vm_compute in ("<<<M142>>>" ++ check (runes_of_ascii "packet
//
// " ++ [128512]%N ++ runes_of_ascii " emoji
asx{ @leftPad ('\x00' )@calculatedFrom( ""{,}"" ) //
pack
// " ++ [128512]%N ++ runes_of_ascii " emoji
// " ++ [128512]%N ++ runes_of_ascii " emoji
x_y_z , Pad f32a//x
,  repeat	zchar[/// triple
42 /// triple
]
// packet A { u8 x, }
// " ++ [128512]%N ++ runes_of_ascii " emoji
chars `{ , }`
, string packetx `
`	,
@tag( 10
) metadata@calculatedFrom( ""x y"" )
, uint8x //	t
,repeat int16
    // `tick` ""quote"" 'q'
    pack `a\`
    , float64 rootA// c
,
    /// triple
    } packet
// trailing space 
// a // b
asx//	t
{ string_,	}root
packet Header {
float64 x_y_z
    // packet A { u8 x, }
    @calculatedFrom( ""x y""
),
//
//x
@calculatedFrom(
""a\""b""
) @calculatedFrom( // a // b
""a\""b"" )
int { zchar[ 255 ]
    msg_type, i64_	{ stringy @lengthOf( x_y_z ) // " ++ [27880; 37322]%N ++ runes_of_ascii "
, u
options1`" ++ [233]%N ++ runes_of_ascii "`, repeat	f32 msg_type , float32 // trailing space 
Foo  `two words`
,	} , }// 50% %s
,	uint8 asx `line1
line2` , } MetaData
lengthOf { char[] o `line1
line2`
,
}
")).
Eval vm_compute in ("<<<M174>>>" ++ check (runes_of_ascii "packet
    // `tick` ""quote"" 'q'
    asx {
    zchar[
007] Pad
`100% of %d` //x
,
}
root packet u128 { char[ 65535] crc , }")).
Eval vm_compute in ("<<<T174>>>" ++ terms [mkTok 35 "packet" 1 0 false; mkTok 44 "// `tick` ""quote"" 'q'" 2 4 true; mkTok 42 "asx" 3 4 false; mkTok 2 "{" 3 8 false; mkTok 14 "zchar[" 4 4 false; mkTok 30 "007" 5 0 false; mkTok 13 "]" 5 3 false; mkTok 42 "Pad" 5 5 false; mkTok 43 "`100% of %d`" 6 0 false; mkTok 44 "//x" 6 13 true; mkTok 40 "," 7 0 false; mkTok 3 "}" 8 0 false; mkTok 34 "root" 9 0 false; mkTok 35 "packet" 9 5 false; mkTok 42 "u128" 9 12 false; mkTok 2 "{" 9 17 false; mkTok 12 "char[" 9 19 false; mkTok 30 "65535" 9 25 false; mkTok 13 "]" 9 30 false; mkTok 42 "crc" 9 32 false; mkTok 40 "," 9 36 false; mkTok 3 "}" 9 38 false; mkTok 0 "<EOF>" 9 39 false] (mkPacket (mkPtok 35 "packet" 1 0 0) (Some (mkPtok 3 "}" 9 38 21)) [(DPacket (mkPacketDef (mkSpan (mkPtok 35 "packet" 1 0 0) (mkPtok 3 "}" 8 0 11)) None (mkPtok 35 "packet" 1 0 0) (mkPtok 42 "asx" 3 4 2) (mkPtok 2 "{" 3 8 3) [(mkFieldWithAttr (mkSpan (mkPtok 14 "zchar[" 4 4 4) (mkPtok 40 "," 7 0 10)) [] (MetaField (mkSpan (mkPtok 14 "zchar[" 4 4 4) (mkPtok 40 "," 7 0 10)) None (mkMetaDecl (mkSpan (mkPtok 14 "zchar[" 4 4 4) (mkPtok 40 "," 7 0 10)) (TyFixed (mkSpan (mkPtok 14 "zchar[" 4 4 4) (mkPtok 13 "]" 5 3 6)) (mkFixedString (mkSpan (mkPtok 14 "zchar[" 4 4 4) (mkPtok 13 "]" 5 3 6)) (mkPtok 14 "zchar[" 4 4 4) (mkPtok 30 "007" 5 0 5) (mkPtok 13 "]" 5 3 6))) (mkPtok 42 "Pad" 5 5 7) (Some (mkPtok 43 "`100% of %d`" 6 0 8)) (mkPtok 40 "," 7 0 10))))] (mkPtok 3 "}" 8 0 11))); (DPacket (mkPacketDef (mkSpan (mkPtok 34 "root" 9 0 12) (mkPtok 3 "}" 9 38 21)) (Some (mkPtok 34 "root" 9 0 12)) (mkPtok 35 "packet" 9 5 13) (mkPtok 42 "u128" 9 12 14) (mkPtok 2 "{" 9 17 15) [(mkFieldWithAttr (mkSpan (mkPtok 12 "char[" 9 19 16) (mkPtok 40 "," 9 36 20)) [] (MetaField (mkSpan (mkPtok 12 "char[" 9 19 16) (mkPtok 40 "," 9 36 20)) None (mkMetaDecl (mkSpan (mkPtok 12 "char[" 9 19 16) (mkPtok 40 "," 9 36 20)) (TyFixed (mkSpan (mkPtok 12 "char[" 9 19 16) (mkPtok 13 "]" 9 30 18)) (mkFixedString (mkSpan (mkPtok 12 "char[" 9 19 16) (mkPtok 13 "]" 9 30 18)) (mkPtok 12 "char[" 9 19 16) (mkPtok 30 "65535" 9 25 17) (mkPtok 13 "]" 9 30 18))) (mkPtok 42 "crc" 9 32 19) None (mkPtok 40 "," 9 36 20))))] (mkPtok 3 "}" 9 38 21)))])).
Eval vm_compute in ("<<<M206>>>" ++ check (runes_of_ascii "MetaData
x {
_x Z9_
`u8 x,` ,
Z9_ matchKey,
    u128
    // packet A { u8 x, }
    roots, lengthOf matchKey
    , char[3 // @lengthOf(
] packetx `100% of %d`
, char[
    7 ]
    // c
    options1 `doc`  ,// 50% %s
}
options
{ leftPad=' '} packet roots {float32 T
    @lengthOf( int  )
    `" ++ [233]%N ++ runes_of_ascii "` ,
}packet
rootA { }")).
Eval vm_compute in ("<<<M238>>>" ++ check (runes_of_ascii "root packet Header { @calculatedFrom( //
""abc""
) uint8 metadata ,
@tag(
65535
    ) @tag( 3 )
i8 charz , @calculatedFrom( """"
) @lengthOf( A ) @leftPad( ) uint16 Z9_ ,
repeat zchar[ // " ++ [27880; 37322]%N ++ runes_of_ascii "
1 ] metadata
``,u8x @calculatedFrom(	""" ++ [128512]%N ++ runes_of_ascii """ )
    //x
    `{ , }` //x
, repeat f32
    Foo , len
// " ++ [128512]%N ++ runes_of_ascii " emoji
// `tick` ""quote"" 'q'
@calculatedFrom( ""// no comment"" )
,repeat char[ 3  ]tag, repeat zchar[ 0123456789 ]
    asx
,
    u128, } options {	asx =007 ; calculatedFrom
    = false ; uint8x= zchar[ 65535
]
; A=
' '
    } packet len
    // `tick` ""quote"" 'q'
    { @leftPad
    ( ' ' )	string Pad
    // packet A { u8 x, }
    @calculatedFrom(""a\""b""  )	,
    }packet stringy  {@leftPad(
' ' ) repeat i64_ ,
    }
")).
Eval vm_compute in ("<<<M270>>>" ++ check (runes_of_ascii "
packet Header {
As `" ++ [233]%N ++ runes_of_ascii "` , }
")).
Eval vm_compute in ("<<<M302>>>" ++ check (runes_of_ascii "options {
    repeatCount = false // trailing space 
;Packet=""{,}""
    //
    ; float
    //
    = ""`tick`"" T=char[ 007 ]  ; calculatedFrom = uint8 }
    packet x
{int32 options1
@calculatedFrom(""{,}"")
// a // b
// c
`tab	here` ,	match lengthOf  as  u128 { /// triple
10 :rootA ,
    // c
    [
    7//	t
, 0	] :Header
    ,
// @lengthOf(
// a // b
3 :  i8i8 , ""1"" :falsey""`tick`"": matchKey , ""a\\"": tag , }, }")).
Eval vm_compute in ("<<<M334>>>" ++ check (@nil rune)).
Eval vm_compute in ("<<<M366>>>" ++ check (runes_of_ascii "/// triple
root packet	x
// " ++ [128512]%N ++ runes_of_ascii " emoji
// c
{ @lengthOf(
calculatedFrom ) string_ @lengthOf(i8i8
) ,
} // @lengthOf(")).
Eval vm_compute in ("<<<M398>>>" ++ check (runes_of_ascii "
root packet _x{  f32a @calculatedFrom(	""{,}""
    ) `line1
line2` , }
")).
Eval vm_compute in ("<<<T398>>>" ++ terms [mkTok 34 "root" 2 0 false; mkTok 35 "packet" 2 5 false; mkTok 42 "_x" 2 12 false; mkTok 2 "{" 2 14 false; mkTok 42 "f32a" 2 17 false; mkTok 5 "@calculatedFrom(" 2 22 false; mkTok 31 """{,}""" 2 39 false; mkTok 6 ")" 3 4 false; mkTok 43 (string_of_bytes [96; 108; 105; 110; 101; 49; 10; 108; 105; 110; 101; 50; 96]%N) 3 6 false; mkTok 40 "," 4 7 false; mkTok 3 "}" 4 9 false; mkTok 0 "<EOF>" 5 0 false] (mkPacket (mkPtok 34 "root" 2 0 0) (Some (mkPtok 3 "}" 4 9 10)) [(DPacket (mkPacketDef (mkSpan (mkPtok 34 "root" 2 0 0) (mkPtok 3 "}" 4 9 10)) (Some (mkPtok 34 "root" 2 0 0)) (mkPtok 35 "packet" 2 5 1) (mkPtok 42 "_x" 2 12 2) (mkPtok 2 "{" 2 14 3) [(mkFieldWithAttr (mkSpan (mkPtok 42 "f32a" 2 17 4) (mkPtok 40 "," 4 7 9)) [] (CheckSumField (mkSpan (mkPtok 42 "f32a" 2 17 4) (mkPtok 40 "," 4 7 9)) (mkChecksumFieldDecl (mkSpan (mkPtok 42 "f32a" 2 17 4) (mkPtok 40 "," 4 7 9)) None (mkPtok 42 "f32a" 2 17 4) (mkCalculatedFrom (mkSpan (mkPtok 5 "@calculatedFrom(" 2 22 5) (mkPtok 6 ")" 3 4 7)) (mkPtok 5 "@calculatedFrom(" 2 22 5) (mkPtok 31 """{,}""" 2 39 6) (mkPtok 6 ")" 3 4 7)) (Some (mkPtok 43 (string_of_bytes [96; 108; 105; 110; 101; 49; 10; 108; 105; 110; 101; 50; 96]%N) 3 6 8)) (mkPtok 40 "," 4 7 9))))] (mkPtok 3 "}" 4 9 10)))])).
Eval vm_compute in ("<<<M430>>>" ++ check (runes_of_ascii "// c
root
// c
//x
packet As { trueish
    @lengthOf( A )  , @tag(42)repeat  u16
trueish
,
@rightPad  (  ' '
) i8 stringy@calculatedFrom( """ ++ [128512]%N ++ runes_of_ascii """
    )	`crlf
line`
    // 50% %s
    , calculatedFrom`tab	here`
,
    // " ++ [128512]%N ++ runes_of_ascii " emoji
    i32 Logon @calculatedFrom(
    ""CRC32""
    ) // a // b
, roots { matchKey @lengthOf( len  )
    ,
    matchKey@calculatedFrom( ""\" ++ [233]%N ++ runes_of_ascii """ ), u8x
    @calculatedFrom(""1"" )
    , falsey
    // 50% %s
    {
    // a // b
    repeat stringy u`" ++ [233]%N ++ runes_of_ascii "`	, repeat char[ 65535
    ] a1
,
}
// " ++ [128512]%N ++ runes_of_ascii " emoji
//
, }
, @tag( /// triple
3 )  int8 T
    `say ""hi""`
    , }
")).
Eval vm_compute in ("<<<M462>>>" ++ check (runes_of_ascii "root packet	u8x{ pack @calculatedFrom( ""it's"" )
, }
options	{
    } packet// a // b
trueish { repeat f32
charz
,
//x
// " ++ [128512]%N ++ runes_of_ascii " emoji
@rightPad // packet A { u8 x, }
(  '\x00' )A { uint8x@lengthOf( lengthOf ) , } ,int{ uint8
falsey	, } ,
@lengthOf( Z9_
) repeat	uint8 u
    , }
// 50% %s
")).
Eval vm_compute in ("<<<M494>>>" ++ check (runes_of_ascii "
options { leftPad= '\x00' } options
{} packet i64_  {char[ 255 ] matchKey @lengthOf( trueish )`tab	here` ,Pad`line1
line2`	, repeat string_,trueish @calculatedFrom(""1""//
) `` ,
    @leftPad
    ( '\x00' ) zchar[ 0 ] string_ `two words`
    // packet A { u8 x, }
    , @tag(3 ) // packet A { u8 x, }
x
,}
")).
Eval vm_compute in ("<<<M526>>>" ++ check (runes_of_ascii "packet lengthOf{
    }")).
Eval vm_compute in ("<<<M558>>>" ++ check (runes_of_ascii "options { }
    packet roots { leftPad
    falsey , char[
1// c
]
u8x ,
crc{charz
asx, }
    , }
")).
Eval vm_compute in ("<<<M590>>>" ++ check (runes_of_ascii "packet chars{}
    //x
    packet u8x {
} packet	f32a //	t
{ zchar[ 007 ]
falsey , @calculatedFrom( ""x y"" )repeat calculatedFrom
    {string_ @lengthOf(float)
,
},
    @calculatedFrom(	""x y"")  @calculatedFrom( """ ++ [28040; 24687]%N ++ runes_of_ascii """)
    @rightPad
( ' ' ) float @lengthOf(
    pack
)
`it's` // " ++ [128512]%N ++ runes_of_ascii " emoji
, uint8x roots // packet A { u8 x, }
, @calculatedFrom( ""\n"" ) @lengthOf(	chars  )
@lengthOf( zchar )repeat As charz
, u64 BodyLength@lengthOf( BodyLength)//
, zchar[
7 ]f32a `100% of %d` ,
repeat
Pad { repeat
Foo{
    repeat
u64
len ``, char
repeatCount
    // @lengthOf(
    `" ++ [28040; 24687; 31867; 22411]%N ++ runes_of_ascii "`
, // `tick` ""quote"" 'q'
i32 Packet @lengthOf( string_ ) , } , f32 // `tick` ""quote"" 'q'
int @calculatedFrom( """ ++ [128512]%N ++ runes_of_ascii """  ) , zchar[10
    ]i8i8 ,  }//
,}packet stringy	{ @tag(
    3 )
    @lengthOf(Header)
    //	t
    @lengthOf( repeatCount
    )As A , @lengthOf( i8i8
) zchar[ 0]
    MetaDataX
`` ,}
")).
Eval vm_compute in ("<<<M622>>>" ++ check (runes_of_ascii "packet repeatCount
{ char[
    00 ] uint8x ,
    // a // b
    @calculatedFrom(
""a\\"" ) asx
    @lengthOf( charz ) ,} packet string_
{ @calculatedFrom( ""it's"" )repeat
// 50% %s
//
char[]BodyLength , @calculatedFrom(
""abc"") int32	x,@tag( 255 ) @calculatedFrom( """ ++ [28040; 24687]%N ++ runes_of_ascii """ ) @tag(
0123456789	) char[ 65535 // `tick` ""quote"" 'q'
] len	, @tag( 0123456789	) @lengthOf( stringy ) int
/// triple
/// triple
, @tag(
// `tick` ""quote"" 'q'
//	t
65535) MetaDataX { A `it's`,
float64 options1
@calculatedFrom(
""// no comment"" )
    , } , @rightPad ( '\x00'
    ) zchar[ 007
    ] rootA @lengthOf( lengthOf )
`" ++ [28040; 24687; 31867; 22411]%N ++ runes_of_ascii "`
/// triple
// @lengthOf(
,	@lengthOf( crc ) repeat	string charz,
    @tag(1 ) repeat a1 ,
    }")).
Eval vm_compute in ("<<<T622>>>" ++ terms [mkTok 35 "packet" 1 0 false; mkTok 42 "repeatCount" 1 7 false; mkTok 2 "{" 2 0 false; mkTok 12 "char[" 2 2 false; mkTok 30 "00" 3 4 false; mkTok 13 "]" 3 7 false; mkTok 42 "uint8x" 3 9 false; mkTok 40 "," 3 16 false; mkTok 44 "// a // b" 4 4 true; mkTok 5 "@calculatedFrom(" 5 4 false; mkTok 31 """a\\""" 6 0 false; mkTok 6 ")" 6 6 false; mkTok 42 "asx" 6 8 false; mkTok 7 "@lengthOf(" 7 4 false; mkTok 42 "charz" 7 15 false; mkTok 6 ")" 7 21 false; mkTok 40 "," 7 23 false; mkTok 3 "}" 7 24 false; mkTok 35 "packet" 7 26 false; mkTok 42 "string_" 7 33 false; mkTok 2 "{" 8 0 false; mkTok 5 "@calculatedFrom(" 8 2 false; mkTok 31 """it's""" 8 19 false; mkTok 6 ")" 8 26 false; mkTok 36 "repeat" 8 27 false; mkTok 44 "// 50% %s" 9 0 true; mkTok 44 "//" 10 0 true; mkTok 16 "char[]" 11 0 false; mkTok 42 "BodyLength" 11 6 false; mkTok 40 "," 11 17 false; mkTok 5 "@calculatedFrom(" 11 19 false; mkTok 31 """abc""" 12 0 false; mkTok 6 ")" 12 5 false; mkTok 26 "int32" 12 7 false; mkTok 42 "x" 12 13 false; mkTok 40 "," 12 14 false; mkTok 9 "@tag(" 12 15 false; mkTok 30 "255" 12 21 false; mkTok 6 ")" 12 25 false; mkTok 5 "@calculatedFrom(" 12 27 false; mkTok 31 (string_of_bytes [34; 230; 182; 136; 230; 129; 175; 34]%N) 12 44 false; mkTok 6 ")" 12 49 false; mkTok 9 "@tag(" 12 51 false; mkTok 30 "0123456789" 13 0 false; mkTok 6 ")" 13 11 false; mkTok 12 "char[" 13 13 false; mkTok 30 "65535" 13 19 false; mkTok 44 "// `tick` ""quote"" 'q'" 13 25 true; mkTok 13 "]" 14 0 false; mkTok 42 "len" 14 2 false; mkTok 40 "," 14 6 false; mkTok 9 "@tag(" 14 8 false; mkTok 30 "0123456789" 14 14 false; mkTok 6 ")" 14 25 false; mkTok 7 "@lengthOf(" 14 27 false; mkTok 42 "stringy" 14 38 false; mkTok 6 ")" 14 46 false; mkTok 42 "int" 14 48 false; mkTok 44 "/// triple" 15 0 true; mkTok 44 "/// triple" 16 0 true; mkTok 40 "," 17 0 false; mkTok 9 "@tag(" 17 2 false; mkTok 44 "// `tick` ""quote"" 'q'" 18 0 true; mkTok 44 (string_of_bytes [47; 47; 9; 116]%N) 19 0 true; mkTok 30 "65535" 20 0 false; mkTok 6 ")" 20 5 false; mkTok 42 "MetaDataX" 20 7 false; mkTok 2 "{" 20 17 false; mkTok 42 "A" 20 19 false; mkTok 43 "`it's`" 20 21 false; mkTok 40 "," 20 27 false; mkTok 29 "float64" 21 0 false; mkTok 42 "options1" 21 8 false; mkTok 5 "@calculatedFrom(" 22 0 false; mkTok 31 """// no comment""" 23 0 false; mkTok 6 ")" 23 16 false; mkTok 40 "," 24 4 false; mkTok 3 "}" 24 6 false; mkTok 40 "," 24 8 false; mkTok 32 "@rightPad" 24 10 false; mkTok 8 "(" 24 20 false; mkTok 33 "'\x00'" 24 22 false; mkTok 6 ")" 25 4 false; mkTok 14 "zchar[" 25 6 false; mkTok 30 "007" 25 13 false; mkTok 13 "]" 26 4 false; mkTok 42 "rootA" 26 6 false; mkTok 7 "@lengthOf(" 26 12 false; mkTok 42 "lengthOf" 26 23 false; mkTok 6 ")" 26 32 false; mkTok 43 (string_of_bytes [96; 230; 182; 136; 230; 129; 175; 231; 177; 187; 229; 158; 139; 96]%N) 27 0 false; mkTok 44 "/// triple" 28 0 true; mkTok 44 "// @lengthOf(" 29 0 true; mkTok 40 "," 30 0 false; mkTok 7 "@lengthOf(" 30 2 false; mkTok 42 "crc" 30 13 false; mkTok 6 ")" 30 17 false; mkTok 36 "repeat" 30 19 false; mkTok 15 "string" 30 26 false; mkTok 42 "charz" 30 33 false; mkTok 40 "," 30 38 false; mkTok 9 "@tag(" 31 4 false; mkTok 30 "1" 31 9 false; mkTok 6 ")" 31 11 false; mkTok 36 "repeat" 31 13 false; mkTok 42 "a1" 31 20 false; mkTok 40 "," 31 23 false; mkTok 3 "}" 32 4 false; mkTok 0 "<EOF>" 32 5 false] (mkPacket (mkPtok 35 "packet" 1 0 0) (Some (mkPtok 3 "}" 32 4 107)) [(DPacket (mkPacketDef (mkSpan (mkPtok 35 "packet" 1 0 0) (mkPtok 3 "}" 7 24 17)) None (mkPtok 35 "packet" 1 0 0) (mkPtok 42 "repeatCount" 1 7 1) (mkPtok 2 "{" 2 0 2) [(mkFieldWithAttr (mkSpan (mkPtok 12 "char[" 2 2 3) (mkPtok 40 "," 3 16 7)) [] (MetaField (mkSpan (mkPtok 12 "char[" 2 2 3) (mkPtok 40 "," 3 16 7)) None (mkMetaDecl (mkSpan (mkPtok 12 "char[" 2 2 3) (mkPtok 40 "," 3 16 7)) (TyFixed (mkSpan (mkPtok 12 "char[" 2 2 3) (mkPtok 13 "]" 3 7 5)) (mkFixedString (mkSpan (mkPtok 12 "char[" 2 2 3) (mkPtok 13 "]" 3 7 5)) (mkPtok 12 "char[" 2 2 3) (mkPtok 30 "00" 3 4 4) (mkPtok 13 "]" 3 7 5))) (mkPtok 42 "uint8x" 3 9 6) None (mkPtok 40 "," 3 16 7)))); (mkFieldWithAttr (mkSpan (mkPtok 5 "@calculatedFrom(" 5 4 9) (mkPtok 40 "," 7 23 16)) [(FACalculatedFrom (mkSpan (mkPtok 5 "@calculatedFrom(" 5 4 9) (mkPtok 6 ")" 6 6 11)) (mkCalculatedFrom (mkSpan (mkPtok 5 "@calculatedFrom(" 5 4 9) (mkPtok 6 ")" 6 6 11)) (mkPtok 5 "@calculatedFrom(" 5 4 9) (mkPtok 31 """a\\""" 6 0 10) (mkPtok 6 ")" 6 6 11)))] (LengthField (mkSpan (mkPtok 42 "asx" 6 8 12) (mkPtok 40 "," 7 23 16)) (mkLengthFieldDecl (mkSpan (mkPtok 42 "asx" 6 8 12) (mkPtok 40 "," 7 23 16)) None (mkPtok 42 "asx" 6 8 12) (mkLengthOf (mkSpan (mkPtok 7 "@lengthOf(" 7 4 13) (mkPtok 6 ")" 7 21 15)) (mkPtok 7 "@lengthOf(" 7 4 13) (mkPtok 42 "charz" 7 15 14) (mkPtok 6 ")" 7 21 15)) None (mkPtok 40 "," 7 23 16))))] (mkPtok 3 "}" 7 24 17))); (DPacket (mkPacketDef (mkSpan (mkPtok 35 "packet" 7 26 18) (mkPtok 3 "}" 32 4 107)) None (mkPtok 35 "packet" 7 26 18) (mkPtok 42 "string_" 7 33 19) (mkPtok 2 "{" 8 0 20) [(mkFieldWithAttr (mkSpan (mkPtok 5 "@calculatedFrom(" 8 2 21) (mkPtok 40 "," 11 17 29)) [(FACalculatedFrom (mkSpan (mkPtok 5 "@calculatedFrom(" 8 2 21) (mkPtok 6 ")" 8 26 23)) (mkCalculatedFrom (mkSpan (mkPtok 5 "@calculatedFrom(" 8 2 21) (mkPtok 6 ")" 8 26 23)) (mkPtok 5 "@calculatedFrom(" 8 2 21) (mkPtok 31 """it's""" 8 19 22) (mkPtok 6 ")" 8 26 23)))] (MetaField (mkSpan (mkPtok 36 "repeat" 8 27 24) (mkPtok 40 "," 11 17 29)) (Some (mkPtok 36 "repeat" 8 27 24)) (mkMetaDecl (mkSpan (mkPtok 16 "char[]" 11 0 27) (mkPtok 40 "," 11 17 29)) (TyDynamic (mkSpan (mkPtok 16 "char[]" 11 0 27) (mkPtok 16 "char[]" 11 0 27)) (mkDynamicString (mkSpan (mkPtok 16 "char[]" 11 0 27) (mkPtok 16 "char[]" 11 0 27)) (mkPtok 16 "char[]" 11 0 27))) (mkPtok 42 "BodyLength" 11 6 28) None (mkPtok 40 "," 11 17 29)))); (mkFieldWithAttr (mkSpan (mkPtok 5 "@calculatedFrom(" 11 19 30) (mkPtok 40 "," 12 14 35)) [(FACalculatedFrom (mkSpan (mkPtok 5 "@calculatedFrom(" 11 19 30) (mkPtok 6 ")" 12 5 32)) (mkCalculatedFrom (mkSpan (mkPtok 5 "@calculatedFrom(" 11 19 30) (mkPtok 6 ")" 12 5 32)) (mkPtok 5 "@calculatedFrom(" 11 19 30) (mkPtok 31 """abc""" 12 0 31) (mkPtok 6 ")" 12 5 32)))] (MetaField (mkSpan (mkPtok 26 "int32" 12 7 33) (mkPtok 40 "," 12 14 35)) None (mkMetaDecl (mkSpan (mkPtok 26 "int32" 12 7 33) (mkPtok 40 "," 12 14 35)) (TyBasic (mkSpan (mkPtok 26 "int32" 12 7 33) (mkPtok 26 "int32" 12 7 33)) (mkBasicType (mkSpan (mkPtok 26 "int32" 12 7 33) (mkPtok 26 "int32" 12 7 33)) (mkPtok 26 "int32" 12 7 33))) (mkPtok 42 "x" 12 13 34) None (mkPtok 40 "," 12 14 35)))); (mkFieldWithAttr (mkSpan (mkPtok 9 "@tag(" 12 15 36) (mkPtok 40 "," 14 6 50)) [(FATag (mkSpan (mkPtok 9 "@tag(" 12 15 36) (mkPtok 6 ")" 12 25 38)) (mkTagAttr (mkSpan (mkPtok 9 "@tag(" 12 15 36) (mkPtok 6 ")" 12 25 38)) (mkPtok 9 "@tag(" 12 15 36) (mkPtok 30 "255" 12 21 37) (mkPtok 6 ")" 12 25 38))); (FACalculatedFrom (mkSpan (mkPtok 5 "@calculatedFrom(" 12 27 39) (mkPtok 6 ")" 12 49 41)) (mkCalculatedFrom (mkSpan (mkPtok 5 "@calculatedFrom(" 12 27 39) (mkPtok 6 ")" 12 49 41)) (mkPtok 5 "@calculatedFrom(" 12 27 39) (mkPtok 31 (string_of_bytes [34; 230; 182; 136; 230; 129; 175; 34]%N) 12 44 40) (mkPtok 6 ")" 12 49 41))); (FATag (mkSpan (mkPtok 9 "@tag(" 12 51 42) (mkPtok 6 ")" 13 11 44)) (mkTagAttr (mkSpan (mkPtok 9 "@tag(" 12 51 42) (mkPtok 6 ")" 13 11 44)) (mkPtok 9 "@tag(" 12 51 42) (mkPtok 30 "0123456789" 13 0 43) (mkPtok 6 ")" 13 11 44)))] (MetaField (mkSpan (mkPtok 12 "char[" 13 13 45) (mkPtok 40 "," 14 6 50)) None (mkMetaDecl (mkSpan (mkPtok 12 "char[" 13 13 45) (mkPtok 40 "," 14 6 50)) (TyFixed (mkSpan (mkPtok 12 "char[" 13 13 45) (mkPtok 13 "]" 14 0 48)) (mkFixedString (mkSpan (mkPtok 12 "char[" 13 13 45) (mkPtok 13 "]" 14 0 48)) (mkPtok 12 "char[" 13 13 45) (mkPtok 30 "65535" 13 19 46) (mkPtok 13 "]" 14 0 48))) (mkPtok 42 "len" 14 2 49) None (mkPtok 40 "," 14 6 50)))); (mkFieldWithAttr (mkSpan (mkPtok 9 "@tag(" 14 8 51) (mkPtok 40 "," 17 0 60)) [(FATag (mkSpan (mkPtok 9 "@tag(" 14 8 51) (mkPtok 6 ")" 14 25 53)) (mkTagAttr (mkSpan (mkPtok 9 "@tag(" 14 8 51) (mkPtok 6 ")" 14 25 53)) (mkPtok 9 "@tag(" 14 8 51) (mkPtok 30 "0123456789" 14 14 52) (mkPtok 6 ")" 14 25 53))); (FALengthOf (mkSpan (mkPtok 7 "@lengthOf(" 14 27 54) (mkPtok 6 ")" 14 46 56)) (mkLengthOf (mkSpan (mkPtok 7 "@lengthOf(" 14 27 54) (mkPtok 6 ")" 14 46 56)) (mkPtok 7 "@lengthOf(" 14 27 54) (mkPtok 42 "stringy" 14 38 55) (mkPtok 6 ")" 14 46 56)))] (ObjectField (mkSpan (mkPtok 42 "int" 14 48 57) (mkPtok 40 "," 17 0 60)) None (mkPtok 42 "int" 14 48 57) None None (mkPtok 40 "," 17 0 60))); (mkFieldWithAttr (mkSpan (mkPtok 9 "@tag(" 17 2 61) (mkPtok 40 "," 24 8 78)) [(FATag (mkSpan (mkPtok 9 "@tag(" 17 2 61) (mkPtok 6 ")" 20 5 65)) (mkTagAttr (mkSpan (mkPtok 9 "@tag(" 17 2 61) (mkPtok 6 ")" 20 5 65)) (mkPtok 9 "@tag(" 17 2 61) (mkPtok 30 "65535" 20 0 64) (mkPtok 6 ")" 20 5 65)))] (InerObjectField (mkSpan (mkPtok 42 "MetaDataX" 20 7 66) (mkPtok 40 "," 24 8 78)) None (InerObjectDecl (mkSpan (mkPtok 42 "MetaDataX" 20 7 66) (mkPtok 3 "}" 24 6 77)) (mkPtok 42 "MetaDataX" 20 7 66) (mkPtok 2 "{" 20 17 67) [(ObjectField (mkSpan (mkPtok 42 "A" 20 19 68) (mkPtok 40 "," 20 27 70)) None (mkPtok 42 "A" 20 19 68) None (Some (mkPtok 43 "`it's`" 20 21 69)) (mkPtok 40 "," 20 27 70)); (CheckSumField (mkSpan (mkPtok 29 "float64" 21 0 71) (mkPtok 40 "," 24 4 76)) (mkChecksumFieldDecl (mkSpan (mkPtok 29 "float64" 21 0 71) (mkPtok 40 "," 24 4 76)) (Some (TyBasic (mkSpan (mkPtok 29 "float64" 21 0 71) (mkPtok 29 "float64" 21 0 71)) (mkBasicType (mkSpan (mkPtok 29 "float64" 21 0 71) (mkPtok 29 "float64" 21 0 71)) (mkPtok 29 "float64" 21 0 71)))) (mkPtok 42 "options1" 21 8 72) (mkCalculatedFrom (mkSpan (mkPtok 5 "@calculatedFrom(" 22 0 73) (mkPtok 6 ")" 23 16 75)) (mkPtok 5 "@calculatedFrom(" 22 0 73) (mkPtok 31 """// no comment""" 23 0 74) (mkPtok 6 ")" 23 16 75)) None (mkPtok 40 "," 24 4 76)))] (mkPtok 3 "}" 24 6 77)) (mkPtok 40 "," 24 8 78))); (mkFieldWithAttr (mkSpan (mkPtok 32 "@rightPad" 24 10 79) (mkPtok 40 "," 30 0 93)) [(FAPadding (mkSpan (mkPtok 32 "@rightPad" 24 10 79) (mkPtok 6 ")" 25 4 82)) (mkPaddingAttr (mkSpan (mkPtok 32 "@rightPad" 24 10 79) (mkPtok 6 ")" 25 4 82)) (mkPtok 32 "@rightPad" 24 10 79) (mkPtok 8 "(" 24 20 80) (Some (mkPtok 33 "'\x00'" 24 22 81)) (mkPtok 6 ")" 25 4 82)))] (LengthField (mkSpan (mkPtok 14 "zchar[" 25 6 83) (mkPtok 40 "," 30 0 93)) (mkLengthFieldDecl (mkSpan (mkPtok 14 "zchar[" 25 6 83) (mkPtok 40 "," 30 0 93)) (Some (TyFixed (mkSpan (mkPtok 14 "zchar[" 25 6 83) (mkPtok 13 "]" 26 4 85)) (mkFixedString (mkSpan (mkPtok 14 "zchar[" 25 6 83) (mkPtok 13 "]" 26 4 85)) (mkPtok 14 "zchar[" 25 6 83) (mkPtok 30 "007" 25 13 84) (mkPtok 13 "]" 26 4 85)))) (mkPtok 42 "rootA" 26 6 86) (mkLengthOf (mkSpan (mkPtok 7 "@lengthOf(" 26 12 87) (mkPtok 6 ")" 26 32 89)) (mkPtok 7 "@lengthOf(" 26 12 87) (mkPtok 42 "lengthOf" 26 23 88) (mkPtok 6 ")" 26 32 89)) (Some (mkPtok 43 (string_of_bytes [96; 230; 182; 136; 230; 129; 175; 231; 177; 187; 229; 158; 139; 96]%N) 27 0 90)) (mkPtok 40 "," 30 0 93)))); (mkFieldWithAttr (mkSpan (mkPtok 7 "@lengthOf(" 30 2 94) (mkPtok 40 "," 30 38 100)) [(FALengthOf (mkSpan (mkPtok 7 "@lengthOf(" 30 2 94) (mkPtok 6 ")" 30 17 96)) (mkLengthOf (mkSpan (mkPtok 7 "@lengthOf(" 30 2 94) (mkPtok 6 ")" 30 17 96)) (mkPtok 7 "@lengthOf(" 30 2 94) (mkPtok 42 "crc" 30 13 95) (mkPtok 6 ")" 30 17 96)))] (MetaField (mkSpan (mkPtok 36 "repeat" 30 19 97) (mkPtok 40 "," 30 38 100)) (Some (mkPtok 36 "repeat" 30 19 97)) (mkMetaDecl (mkSpan (mkPtok 15 "string" 30 26 98) (mkPtok 40 "," 30 38 100)) (TyDynamic (mkSpan (mkPtok 15 "string" 30 26 98) (mkPtok 15 "string" 30 26 98)) (mkDynamicString (mkSpan (mkPtok 15 "string" 30 26 98) (mkPtok 15 "string" 30 26 98)) (mkPtok 15 "string" 30 26 98))) (mkPtok 42 "charz" 30 33 99) None (mkPtok 40 "," 30 38 100)))); (mkFieldWithAttr (mkSpan (mkPtok 9 "@tag(" 31 4 101) (mkPtok 40 "," 31 23 106)) [(FATag (mkSpan (mkPtok 9 "@tag(" 31 4 101) (mkPtok 6 ")" 31 11 103)) (mkTagAttr (mkSpan (mkPtok 9 "@tag(" 31 4 101) (mkPtok 6 ")" 31 11 103)) (mkPtok 9 "@tag(" 31 4 101) (mkPtok 30 "1" 31 9 102) (mkPtok 6 ")" 31 11 103)))] (ObjectField (mkSpan (mkPtok 36 "repeat" 31 13 104) (mkPtok 40 "," 31 23 106)) (Some (mkPtok 36 "repeat" 31 13 104)) (mkPtok 42 "a1" 31 20 105) None None (mkPtok 40 "," 31 23 106)))] (mkPtok 3 "}" 32 4 107)))])).
Eval vm_compute in ("<<<M654>>>" ++ check (runes_of_ascii "options
// " ++ [27880; 37322]%N ++ runes_of_ascii "
// 50% %s
{  a1	=""\n""
Z9_ = char[ 4294967296 ] metadata=	char[] ; As = u32  ; } //")).
Eval vm_compute in ("<<<M686>>>" ++ check (runes_of_ascii "MetaData Packet // @lengthOf(
{
calculatedFrom
    msg_type ,
    char[ 42
]
    u8x , //x
} packet body{
    } packet i64_	{ @calculatedFrom(
    ""// no comment"" ) a1
`" ++ [233]%N ++ runes_of_ascii "`,
}packet BodyLength{charz @lengthOf( chars ) , @calculatedFrom(
""abc"" ) repeat  u32 falsey ,
    @calculatedFrom( ""a	b"" )	@lengthOf( T
    // " ++ [27880; 37322]%N ++ runes_of_ascii "
    )
f32 A@lengthOf( /// triple
packetx)
`// not a comment`
// " ++ [128512]%N ++ runes_of_ascii " emoji
//x
, @rightPad
    // packet A { u8 x, }
    ( )metadata `// not a comment` , repeat repeatCount f32a	,@tag(007
)
@calculatedFrom(
    ""{,}"" )
    //
    string
    // `tick` ""quote"" 'q'
    options1, int16 zchar	, }
")).
Eval vm_compute in ("<<<M718>>>" ++ check (runes_of_ascii "packet charz{ @tag( 7
)@tag( //	t
4294967296)
    @lengthOf( trueish )
    repeat uint64 metadata `line1
line2` , } options{ T=true;
    } packet tag {}")).
Eval vm_compute in ("<<<M750>>>" ++ check (runes_of_ascii "packet f32a {// trailing space 
} packet // trailing space 
As
{ string // @lengthOf(
roots @calculatedFrom( // 50% %s
""a\""b""
    )
    , repeat leftPad
    { int32	As ,// " ++ [27880; 37322]%N ++ runes_of_ascii "
} ,  Logon
int
`crlf
line` , @leftPad ( '\x00' ) @tag(
    65535 )
@calculatedFrom( ""a	b"" )
    u32 f32a @calculatedFrom(
""packet""
) `u8 x,` // a // b
,
    } /// triple")).
Eval vm_compute in ("<<<M782>>>" ++ check (runes_of_ascii "options	{ }
packet tag{ repeat
string msg_type , i64	float `it's` , @rightPad ('0'	)@lengthOf(
    MetaDataX  ) body , match Header as leftPad {	42: Header ,} , @calculatedFrom(	""" ++ [233]%N ++ runes_of_ascii "t" ++ [233]%N ++ runes_of_ascii """) string
matchKey
, @rightPad (	'\x00')
char[] matchKey
    @lengthOf(	crc )
`tab	here` , uint64
    charz
``
    ,	}
packet u128
{ u64 A
    `tab	here` ,
    } root packet i8i8
    { } // `tick` ""quote"" 'q'")).
Eval vm_compute in ("<<<M814>>>" ++ check (runes_of_ascii "//x
root packet  uint8x {	@lengthOf( int
)@lengthOf( metadata )@lengthOf(  pack ) asx @lengthOf( trueish)
// 50% %s
//x
,}packet int{ match Logon as chars {""packet"": Packet ,
    ""{,}"" :  x, } ,msg_type `two words` , uint8 i8i8 `u8 x,` , @tag( 007
    ) @calculatedFrom(
""" ++ [128512]%N ++ runes_of_ascii """
    // `tick` ""quote"" 'q'
    )
@tag(
    3 // " ++ [27880; 37322]%N ++ runes_of_ascii "
) zchar[//	t
255 ] charz @lengthOf( falsey ),  u8
    crc
    @calculatedFrom(
    ""it's"")
    `say ""hi""` ,Logon i8i8
    ,
    u64 f32a , tag A`` ,i64_@calculatedFrom(
""" ++ [233]%N ++ runes_of_ascii "t" ++ [233]%N ++ runes_of_ascii """
) // @lengthOf(
`u8 x,`, @tag( 007 ) repeat
    metadata , } packet i64_
    {} options { BodyLength =
    255  }")).
Eval vm_compute in ("<<<M846>>>" ++ check (runes_of_ascii "MetaData options1 {Packet roots ,
    }
")).
Eval vm_compute in ("<<<T846>>>" ++ terms [mkTok 37 "MetaData" 1 0 false; mkTok 42 "options1" 1 9 false; mkTok 2 "{" 1 18 false; mkTok 42 "Packet" 1 19 false; mkTok 42 "roots" 1 26 false; mkTok 40 "," 1 32 false; mkTok 3 "}" 2 4 false; mkTok 0 "<EOF>" 3 0 false] (mkPacket (mkPtok 37 "MetaData" 1 0 0) (Some (mkPtok 3 "}" 2 4 6)) [(DMeta (mkMetaDef (mkSpan (mkPtok 37 "MetaData" 1 0 0) (mkPtok 3 "}" 2 4 6)) (mkPtok 37 "MetaData" 1 0 0) (mkPtok 42 "options1" 1 9 1) (mkPtok 2 "{" 1 18 2) [(MIRef (mkRefMetaDecl (mkSpan (mkPtok 42 "Packet" 1 19 3) (mkPtok 40 "," 1 32 5)) (mkPtok 42 "Packet" 1 19 3) (mkPtok 42 "roots" 1 26 4) None (mkPtok 40 "," 1 32 5)))] (mkPtok 3 "}" 2 4 6)))])).
Eval vm_compute in ("<<<M878>>>" ++ check (runes_of_ascii "packet len // 50% %s
{
    @calculatedFrom(""it's"" )
calculatedFrom/// triple
msg_type,
}options {zchar = 3; T
    = """ ++ [28040; 24687]%N ++ runes_of_ascii """ ;  x = char[ // 50% %s
3] Foo=false ;
} options {zchar= ""`tick`"" ;T =
    true
Packet
=
    ' ' }options { A= ""\n""
    ;  roots = ""1""
    ;lengthOf= 0 ;	metadata
    // " ++ [128512]%N ++ runes_of_ascii " emoji
    =0123456789 }

")).
Eval vm_compute in ("<<<M910>>>" ++ check (runes_of_ascii "//x

")).
Eval vm_compute in ("<<<M942>>>" ++ check (runes_of_ascii "packet uint8x{
//	t
// 50% %s
@tag(  0 )repeat MetaDataX {
match
    tag /// triple
as
T {  ""packet"": i8i8 ,
[
    ""\n"" /// triple
] :
    tag ,} , repeat
i32
    //	t
    trueish `say ""hi""` , }
/// triple
// " ++ [128512]%N ++ runes_of_ascii " emoji
, // a // b
}
packet options1
{
match
As as  lengthOf//x
{ [ // 50% %s
65535
    , // packet A { u8 x, }
42
// packet A { u8 x, }
// @lengthOf(
,""it's""  , """ ++ [233]%N ++ runes_of_ascii "t" ++ [233]%N ++ runes_of_ascii """ ,
    0,""1"" ]: i8i8  ,""a\""b""
: body, 00 : MetaDataX // 50% %s
, //x
[00
]// " ++ [27880; 37322]%N ++ runes_of_ascii "
: u8x , }, }")).
Eval vm_compute in ("<<<M974>>>" ++ check (runes_of_ascii "options	{
lengthOf
    =
    """ ++ [233]%N ++ runes_of_ascii "t" ++ [233]%N ++ runes_of_ascii """
// 50% %s
//x
; } packet// packet A { u8 x, }
i8i8 { match stringy as a1 { 42 : i64_ 10  : chars  , } , @tag( 255  ) f64
    // 50% %s
    MetaDataX , @calculatedFrom( ""it's"" )@rightPad(
) @tag( 255
)
u32  metadata
// trailing space 
//
@calculatedFrom( ""a\""b"" )
, i64_ zchar , char[
    42 ]
    //	t
    BodyLength `
`, // packet A { u8 x, }
zchar[ 0123456789 ] stringy @lengthOf( crc ), @rightPad( '0' )
u As , f32
    int , repeat msg_type `it's` , } root
packet crc	{	repeat zchar[007 ]
    MetaDataX
,u
    roots	, @calculatedFrom(
    """" )
    match// " ++ [27880; 37322]%N ++ runes_of_ascii "
i64_
as u128 { [ // a // b
""" ++ [28040; 24687]%N ++ runes_of_ascii """,// trailing space 
""\" ++ [233]%N ++ runes_of_ascii """ ,""// no comment"", """" ,
    ""{,}"" , """ ++ [128512]%N ++ runes_of_ascii """ ]:
    T 65535
    : uint8x
    ,
3 : rootA
// `tick` ""quote"" 'q'
// trailing space 
, 3 :
// trailing space 
// `tick` ""quote"" 'q'
chars ,
00	:
    //
    matchKey, ""packet"" :
stringy , }	,
/// triple
// a // b
}
    root packet Foo {float32 T
,}
packet
    charz { chars Pad
`crlf
line` , char[]	u8x @calculatedFrom( ""a	b"" ),	@tag(65535)
// packet A { u8 x, }
/// triple
@tag(0123456789 ) // 50% %s
i16 Packet
`crlf
line` // packet A { u8 x, }
, }")).
Eval vm_compute in ("<<<M1006>>>" ++ check (runes_of_ascii "MetaData
    //
    options1	{ pack
string_ , i8  Header
    ,
    float64 o , }
    root packet
    u8x{
// " ++ [27880; 37322]%N ++ runes_of_ascii "
// a // b
}")).
Eval vm_compute in ("<<<M1038>>>" ++ check (runes_of_ascii "packet Packet
{repeatCount	{char[ 65535  ]
Logon
    , repeat packetx { x_y_z
@calculatedFrom(	""""
    ) ,	}  , repeat
u64// @lengthOf(
f32a
    , string a1 @lengthOf( calculatedFrom
) ,} , @lengthOf( x ) int64
    Logon ,
    @tag( 10 )zchar[0 ]metadata , }
MetaData //
a1 { charz float
    ,i32 i8i8	`" ++ [233]%N ++ runes_of_ascii "`, }")).
Eval vm_compute in ("<<<M1070>>>" ++ check (runes_of_ascii "

")).
Eval vm_compute in ("<<<T1070>>>" ++ terms [mkTok 0 "<EOF>" 3 0 false] (mkPacket (mkPtok 0 "<EOF>" 3 0 0) None [])).
Eval vm_compute in ("<<<M1102>>>" ++ check (runes_of_ascii "root packet MetaDataX {string msg_type @lengthOf(zchar ),
uint16	tag , char[ 007
    ]body @lengthOf( roots )
,
@lengthOf(
uint8x ) zchar[ 3	]u
, char[//
00 ]
T ,
@leftPad (	' '
)
    @tag( 65535 ) f64
// packet A { u8 x, }
// 50% %s
matchKey`line1
line2` ,
// @lengthOf(
// packet A { u8 x, }
char[
4294967296]  chars @calculatedFrom(""" ++ [28040; 24687]%N ++ runes_of_ascii """
) `" ++ [28040; 24687; 31867; 22411]%N ++ runes_of_ascii "`
    // " ++ [128512]%N ++ runes_of_ascii " emoji
    ,uint16 metadata `crlf
line` , char[ 65535
] a1 ,
options1 @calculatedFrom( ""x y""	)
    //x
    `
` ,
} options
    {
stringy ='\x00' ;stringy = ""CRC32""
    ;	Packet =	10 zchar = 4294967296 ; len =
""" ++ [28040; 24687]%N ++ runes_of_ascii """  }
MetaData x_y_z
{
    pack int, }// packet A { u8 x, }
MetaData
tag {  u MetaDataX
, }")).
Eval vm_compute in ("<<<M1134>>>" ++ check (runes_of_ascii "MetaData uint8x
{i8	x_y_z , char[ 255  ] repeatCount `{ , }`
    , }options { u= false options1= 0123456789 BodyLength	= 255
;lengthOf=
""`tick`"" ; u
    =	' '}
MetaData Header {  zchar[0123456789] Z9_ ,int32 Header
, char[007 ] A`
`	, } //	t")).
Eval vm_compute in ("<<<M1166>>>" ++ check (runes_of_ascii "packet
// c
//	t
Foo { repeat
    zchar x_y_z
,match // a // b
f32a as body { 7 :
    len ,} ,
    @tag( //x
4294967296 )//	t
lengthOf	@lengthOf( MetaDataX )
, @tag( 007 ) repeat f64 chars , repeat
//x
// a // b
packetx { f64
    calculatedFrom , char[ 0123456789
    ] Header
@lengthOf( Foo) , repeat rootA
,} , @calculatedFrom(
// c
// trailing space 
""CRC32"" )
falsey  _x `it's` , match roots as packetx{
    42 : rootA ,0123456789 : Z9_ // @lengthOf(
3 : a1
42	://	t
int // c
, 007 // @lengthOf(
:
    // a // b
    options1 , } ,  } root packet
    u8x {zchar[
    00
    ] i8i8
    `{ , }` , u128``
    ,  } packet
    lengthOf	{@leftPad ( '0' )
// " ++ [27880; 37322]%N ++ runes_of_ascii "
// a // b
@rightPad
    (  '0' )
@calculatedFrom("""" ) int16 pack
// `tick` ""quote"" 'q'
// packet A { u8 x, }
@lengthOf(
// " ++ [128512]%N ++ runes_of_ascii " emoji
// " ++ [27880; 37322]%N ++ runes_of_ascii "
repeatCount ) `// not a comment`	,@lengthOf(
// @lengthOf(
// c
crc  )	T ,
// c
// 50% %s
} options{ }
// 50% %s
// " ++ [128512]%N ++ runes_of_ascii " emoji
root packet
    roots {
u8x calculatedFrom , }
")).
Eval vm_compute in ("<<<M1198>>>" ++ check (@nil rune)).
Eval vm_compute in ("<<<M1230>>>" ++ check (runes_of_ascii "packet u8x{ @tag( 10
    // a // b
    ) u128
`` , //	t
}
")).
Eval vm_compute in ("<<<M1262>>>" ++ check (runes_of_ascii "MetaData lengthOf { uint32 charz`100% of %d`//	t
,
    } packet zchar{
    @calculatedFrom(	""x y"" ) match As
// trailing space 
// `tick` ""quote"" 'q'
as As
{ [ 7 ,""" ++ [128512]%N ++ runes_of_ascii """
    ] : lengthOf, [""""
, 007
,
    3 , 42	, ""\n""// packet A { u8 x, }
] :Packet // " ++ [27880; 37322]%N ++ runes_of_ascii "
, //x
} , @leftPad ()
    @tag( 42 ) zchar// c
,
@lengthOf( x ) uint16 crc // " ++ [27880; 37322]%N ++ runes_of_ascii "
@lengthOf(lengthOf // " ++ [128512]%N ++ runes_of_ascii " emoji
) `u8 x,`// c
,Foo { repeat packetx , zchar[3] chars@lengthOf(
/// triple
//	t
tag ), string chars
    // `tick` ""quote"" 'q'
    @calculatedFrom(	""abc"" ) `a\`,
}	, @rightPad( '0'  )Logon {
// " ++ [128512]%N ++ runes_of_ascii " emoji
// " ++ [27880; 37322]%N ++ runes_of_ascii "
int16 leftPad
//	t
// `tick` ""quote"" 'q'
@calculatedFrom(	""""),
Foo@calculatedFrom(  ""\" ++ [233]%N ++ runes_of_ascii """
) ,
// 50% %s
// @lengthOf(
int16  len `u8 x,` , } ,	} MetaData matchKey {
    }
")).
Eval vm_compute in ("<<<M1294>>>" ++ check (runes_of_ascii "
MetaData MetaDataX
    { u64	f32a, metadata lengthOf
    //x
    , }")).
Eval vm_compute in ("<<<T1294>>>" ++ terms [mkTok 37 "MetaData" 2 0 false; mkTok 42 "MetaDataX" 2 9 false; mkTok 2 "{" 3 4 false; mkTok 23 "u64" 3 6 false; mkTok 42 "f32a" 3 10 false; mkTok 40 "," 3 14 false; mkTok 42 "metadata" 3 16 false; mkTok 42 "lengthOf" 3 25 false; mkTok 44 "//x" 4 4 true; mkTok 40 "," 5 4 false; mkTok 3 "}" 5 6 false; mkTok 0 "<EOF>" 5 7 false] (mkPacket (mkPtok 37 "MetaData" 2 0 0) (Some (mkPtok 3 "}" 5 6 10)) [(DMeta (mkMetaDef (mkSpan (mkPtok 37 "MetaData" 2 0 0) (mkPtok 3 "}" 5 6 10)) (mkPtok 37 "MetaData" 2 0 0) (mkPtok 42 "MetaDataX" 2 9 1) (mkPtok 2 "{" 3 4 2) [(MIDecl (mkMetaDecl (mkSpan (mkPtok 23 "u64" 3 6 3) (mkPtok 40 "," 3 14 5)) (TyBasic (mkSpan (mkPtok 23 "u64" 3 6 3) (mkPtok 23 "u64" 3 6 3)) (mkBasicType (mkSpan (mkPtok 23 "u64" 3 6 3) (mkPtok 23 "u64" 3 6 3)) (mkPtok 23 "u64" 3 6 3))) (mkPtok 42 "f32a" 3 10 4) None (mkPtok 40 "," 3 14 5))); (MIRef (mkRefMetaDecl (mkSpan (mkPtok 42 "metadata" 3 16 6) (mkPtok 40 "," 5 4 9)) (mkPtok 42 "metadata" 3 16 6) (mkPtok 42 "lengthOf" 3 25 7) None (mkPtok 40 "," 5 4 9)))] (mkPtok 3 "}" 5 6 10)))])).
Eval vm_compute in ("<<<M1326>>>" ++ check (runes_of_ascii "packet	zchar{
} options  { int = ""{,}""; } packet zchar
{@calculatedFrom(""1"" )
    match
    trueish
as falsey {""it's"" :x [ 00 ,
    255 , ""`tick`""
,
    // trailing space 
    007
    // 50% %s
    ,
    10 , 4294967296 , ""a\\""	,""CRC32""
    ] :	float
    , } // trailing space 
, match Logon as o
{
007 : lengthOf 255 : zchar
    ,
}
    , u64// trailing space 
packetx //
`tab	here` , } 	 ")).
Eval vm_compute in ("<<<M1358>>>" ++ check (runes_of_ascii "

")).
Eval vm_compute in ("<<<M1390>>>" ++ check (runes_of_ascii "packet stringy { } // packet A { u8 x, }
options { }	MetaData  A {float32 trueish ,
// " ++ [27880; 37322]%N ++ runes_of_ascii "
// a // b
}")).
Eval vm_compute in ("<<<M1422>>>" ++ check (runes_of_ascii "// a // b
MetaData
    T
    {
// @lengthOf(
// trailing space 
Foo Logon ,Logon lengthOf , char[00
    ]
//
// @lengthOf(
pack
    ,
    char[7 //
]
    // " ++ [128512]%N ++ runes_of_ascii " emoji
    i8i8 `line1
line2` ,} packet trueish // trailing space 
{	@calculatedFrom(	""abc""
) @leftPad
( '0') @lengthOf(trueish) uint8x
    ,match x as
Packet //
{// a // b
""" ++ [128512]%N ++ runes_of_ascii """: repeatCount , [ 007 , 255, //x
4294967296 , 255// a // b
, """ ++ [28040; 24687]%N ++ runes_of_ascii """ , ""\n"" // a // b
,""\" ++ [233]%N ++ runes_of_ascii """ ,
""abc""
] :  A
    , ""abc"" : packetx  , }
, @tag(
7 ) @lengthOf(msg_type )
    @tag( 00 )
int
    pack
`" ++ [28040; 24687; 31867; 22411]%N ++ runes_of_ascii "`	, }
// a // b
")).
Eval vm_compute in ("<<<M1454>>>" ++ check (runes_of_ascii "
MetaData x_y_z
{ /// triple
}packet
    T
    {	@rightPad ('\x00')
pack ,
} packet
    x_y_z	{ // a // b
@tag( 42 ) @calculatedFrom( """ ++ [128512]%N ++ runes_of_ascii """	)uint32 rootA `say ""hi""` , int64 len , @leftPad (	'0' // " ++ [27880; 37322]%N ++ runes_of_ascii "
) match
a1  as string_ { 00 : BodyLength
255:
    MetaDataX ,
[ 1
] :float ,
    // " ++ [27880; 37322]%N ++ runes_of_ascii "
    00 :
stringy
    , 007
:
Header// `tick` ""quote"" 'q'
,	}
    ,calculatedFrom , @rightPad () i64_ {
repeat char[ 3
    // `tick` ""quote"" 'q'
    ]
msg_type `tab	here`
, } ,repeat _x Pad `say ""hi""`
    ,
//	t
// `tick` ""quote"" 'q'
a1 rootA, uint32 body
`" ++ [233]%N ++ runes_of_ascii "`
,
//x
// `tick` ""quote"" 'q'
} packet x { repeat Pad
Header	,
}packet msg_type { repeat o	{ // `tick` ""quote"" 'q'
uint16 matchKey //x
@lengthOf(float )  , repeat leftPad // @lengthOf(
matchKey `100% of %d`, char[ 007 ] string_ @lengthOf(
// 50% %s
// packet A { u8 x, }
o ) , match A as x_y_z{ 10 :	body ,
    255:
Packet , ""it's"" :
metadata [ 10	]	:
    stringy , 00: zchar
, } , }
, @calculatedFrom(  ""`tick`"" ) @lengthOf(
falsey
)
repeat Z9_
{ matchKey
    Z9_ `doc` , repeat char[
00]
//
// trailing space 
Foo ,}, match f32a as o {	[ 007 , ""\" ++ [233]%N ++ runes_of_ascii """// " ++ [27880; 37322]%N ++ runes_of_ascii "
,
10
, 00	,
/// triple
//	t
""" ++ [128512]%N ++ runes_of_ascii """ ] : // @lengthOf(
repeatCount , [10
]
    //x
    : Packet
,""a\\""	: string_	[ /// triple
""a	b"" ]
: f32a , [255 ,
255 , ""x y"" ,
    /// triple
    ""packet"" ] :
repeatCount//	t
,[	""packet"" ,	42
    // `tick` ""quote"" 'q'
    ] :  u ,  }
,  repeatCount{	zchar[	007] zchar @calculatedFrom(""a\""b""
)  , } , @calculatedFrom( ""a\""b"" )@lengthOf( Foo )
trueish lengthOf `// not a comment` , float64 // packet A { u8 x, }
float `" ++ [28040; 24687; 31867; 22411]%N ++ runes_of_ascii "` ,// packet A { u8 x, }
}
")).
Eval vm_compute in ("<<<M1486>>>" ++ check (runes_of_ascii "packet packetx { // `tick` ""quote"" 'q'
match Pad
as roots
{
10 :body , 0 :
Z9_, 42 :Logon
    , 00
: tag
    ,
    """ ++ [28040; 24687]%N ++ runes_of_ascii """
    : pack  ,
}, @calculatedFrom(
""{,}"") i64 Z9_ ,string u	@lengthOf(
metadata ) , @tag( 0123456789 ) BodyLength u `{ , }`,  @rightPad (
    // a // b
    ) msg_type	@lengthOf(
    //x
    T
) ,
    // @lengthOf(
    }
/// triple
/// triple
packet Logon { @rightPad // packet A { u8 x, }
( '\x00') repeat
// " ++ [27880; 37322]%N ++ runes_of_ascii "
/// triple
int16	metadata
, @tag( 42 ) chars
Pad ,
@calculatedFrom(
    """ ++ [233]%N ++ runes_of_ascii "t" ++ [233]%N ++ runes_of_ascii """)repeat
    //
    A Pad	`line1
line2`,
@lengthOf( T  ) char[] Pad ,
//	t
// `tick` ""quote"" 'q'
len @lengthOf( int
    ), string
Foo ,} options { }
")).
Eval vm_compute in ("<<<M1518>>>" ++ check (runes_of_ascii "
root packet  Packet {match uint8x as u8x/// triple
{ // 50% %s
[
/// triple
// c
""\n"",65535  ] : MetaDataX
    [ ""\" ++ [233]%N ++ runes_of_ascii """ ]
    : options1 ,
0123456789 : leftPad , },
int16 Header	`doc`, @rightPad
    ( ) @tag( 4294967296)
    @tag( 1 ) repeat i64 Header , } /// triple")).
Eval vm_compute in ("<<<T1518>>>" ++ terms [mkTok 34 "root" 2 0 false; mkTok 35 "packet" 2 5 false; mkTok 42 "Packet" 2 13 false; mkTok 2 "{" 2 20 false; mkTok 38 "match" 2 21 false; mkTok 42 "uint8x" 2 27 false; mkTok 17 "as" 2 34 false; mkTok 42 "u8x" 2 37 false; mkTok 44 "/// triple" 2 40 true; mkTok 2 "{" 3 0 false; mkTok 44 "// 50% %s" 3 2 true; mkTok 18 "[" 4 0 false; mkTok 44 "/// triple" 5 0 true; mkTok 44 "// c" 6 0 true; mkTok 31 """\n""" 7 0 false; mkTok 40 "," 7 4 false; mkTok 30 "65535" 7 5 false; mkTok 13 "]" 7 12 false; mkTok 39 ":" 7 14 false; mkTok 42 "MetaDataX" 7 16 false; mkTok 18 "[" 8 4 false; mkTok 31 (string_of_bytes [34; 92; 195; 169; 34]%N) 8 6 false; mkTok 13 "]" 8 11 false; mkTok 39 ":" 9 4 false; mkTok 42 "options1" 9 6 false; mkTok 40 "," 9 15 false; mkTok 30 "0123456789" 10 0 false; mkTok 39 ":" 10 11 false; mkTok 42 "leftPad" 10 13 false; mkTok 40 "," 10 21 false; mkTok 3 "}" 10 23 false; mkTok 40 "," 10 24 false; mkTok 25 "int16" 11 0 false; mkTok 42 "Header" 11 6 false; mkTok 43 "`doc`" 11 13 false; mkTok 40 "," 11 18 false; mkTok 32 "@rightPad" 11 20 false; mkTok 8 "(" 12 4 false; mkTok 6 ")" 12 6 false; mkTok 9 "@tag(" 12 8 false; mkTok 30 "4294967296" 12 14 false; mkTok 6 ")" 12 24 false; mkTok 9 "@tag(" 13 4 false; mkTok 30 "1" 13 10 false; mkTok 6 ")" 13 12 false; mkTok 36 "repeat" 13 14 false; mkTok 27 "i64" 13 21 false; mkTok 42 "Header" 13 25 false; mkTok 40 "," 13 32 false; mkTok 3 "}" 13 34 false; mkTok 44 "/// triple" 13 36 true; mkTok 0 "<EOF>" 13 46 false] (mkPacket (mkPtok 34 "root" 2 0 0) (Some (mkPtok 3 "}" 13 34 49)) [(DPacket (mkPacketDef (mkSpan (mkPtok 34 "root" 2 0 0) (mkPtok 3 "}" 13 34 49)) (Some (mkPtok 34 "root" 2 0 0)) (mkPtok 35 "packet" 2 5 1) (mkPtok 42 "Packet" 2 13 2) (mkPtok 2 "{" 2 20 3) [(mkFieldWithAttr (mkSpan (mkPtok 38 "match" 2 21 4) (mkPtok 40 "," 10 24 31)) [] (MatchField (mkSpan (mkPtok 38 "match" 2 21 4) (mkPtok 40 "," 10 24 31)) (mkMatchFieldDecl (mkSpan (mkPtok 38 "match" 2 21 4) (mkPtok 3 "}" 10 23 30)) (mkPtok 38 "match" 2 21 4) (mkPtok 42 "uint8x" 2 27 5) (mkPtok 17 "as" 2 34 6) (mkPtok 42 "u8x" 2 37 7) (mkPtok 2 "{" 3 0 9) [(mkMatchPair (mkSpan (mkPtok 18 "[" 4 0 11) (mkPtok 42 "MetaDataX" 7 16 19)) (MKList (mkKeyList (mkSpan (mkPtok 18 "[" 4 0 11) (mkPtok 13 "]" 7 12 17)) (mkPtok 18 "[" 4 0 11) (mkPtok 31 """\n""" 7 0 14) [((mkPtok 40 "," 7 4 15), (mkPtok 30 "65535" 7 5 16))] (mkPtok 13 "]" 7 12 17))) (mkPtok 39 ":" 7 14 18) (mkPtok 42 "MetaDataX" 7 16 19) None); (mkMatchPair (mkSpan (mkPtok 18 "[" 8 4 20) (mkPtok 40 "," 9 15 25)) (MKList (mkKeyList (mkSpan (mkPtok 18 "[" 8 4 20) (mkPtok 13 "]" 8 11 22)) (mkPtok 18 "[" 8 4 20) (mkPtok 31 (string_of_bytes [34; 92; 195; 169; 34]%N) 8 6 21) [] (mkPtok 13 "]" 8 11 22))) (mkPtok 39 ":" 9 4 23) (mkPtok 42 "options1" 9 6 24) (Some (mkPtok 40 "," 9 15 25))); (mkMatchPair (mkSpan (mkPtok 30 "0123456789" 10 0 26) (mkPtok 40 "," 10 21 29)) (MKDigits (mkPtok 30 "0123456789" 10 0 26)) (mkPtok 39 ":" 10 11 27) (mkPtok 42 "leftPad" 10 13 28) (Some (mkPtok 40 "," 10 21 29)))] (mkPtok 3 "}" 10 23 30)) (mkPtok 40 "," 10 24 31))); (mkFieldWithAttr (mkSpan (mkPtok 25 "int16" 11 0 32) (mkPtok 40 "," 11 18 35)) [] (MetaField (mkSpan (mkPtok 25 "int16" 11 0 32) (mkPtok 40 "," 11 18 35)) None (mkMetaDecl (mkSpan (mkPtok 25 "int16" 11 0 32) (mkPtok 40 "," 11 18 35)) (TyBasic (mkSpan (mkPtok 25 "int16" 11 0 32) (mkPtok 25 "int16" 11 0 32)) (mkBasicType (mkSpan (mkPtok 25 "int16" 11 0 32) (mkPtok 25 "int16" 11 0 32)) (mkPtok 25 "int16" 11 0 32))) (mkPtok 42 "Header" 11 6 33) (Some (mkPtok 43 "`doc`" 11 13 34)) (mkPtok 40 "," 11 18 35)))); (mkFieldWithAttr (mkSpan (mkPtok 32 "@rightPad" 11 20 36) (mkPtok 40 "," 13 32 48)) [(FAPadding (mkSpan (mkPtok 32 "@rightPad" 11 20 36) (mkPtok 6 ")" 12 6 38)) (mkPaddingAttr (mkSpan (mkPtok 32 "@rightPad" 11 20 36) (mkPtok 6 ")" 12 6 38)) (mkPtok 32 "@rightPad" 11 20 36) (mkPtok 8 "(" 12 4 37) None (mkPtok 6 ")" 12 6 38))); (FATag (mkSpan (mkPtok 9 "@tag(" 12 8 39) (mkPtok 6 ")" 12 24 41)) (mkTagAttr (mkSpan (mkPtok 9 "@tag(" 12 8 39) (mkPtok 6 ")" 12 24 41)) (mkPtok 9 "@tag(" 12 8 39) (mkPtok 30 "4294967296" 12 14 40) (mkPtok 6 ")" 12 24 41))); (FATag (mkSpan (mkPtok 9 "@tag(" 13 4 42) (mkPtok 6 ")" 13 12 44)) (mkTagAttr (mkSpan (mkPtok 9 "@tag(" 13 4 42) (mkPtok 6 ")" 13 12 44)) (mkPtok 9 "@tag(" 13 4 42) (mkPtok 30 "1" 13 10 43) (mkPtok 6 ")" 13 12 44)))] (MetaField (mkSpan (mkPtok 36 "repeat" 13 14 45) (mkPtok 40 "," 13 32 48)) (Some (mkPtok 36 "repeat" 13 14 45)) (mkMetaDecl (mkSpan (mkPtok 27 "i64" 13 21 46) (mkPtok 40 "," 13 32 48)) (TyBasic (mkSpan (mkPtok 27 "i64" 13 21 46) (mkPtok 27 "i64" 13 21 46)) (mkBasicType (mkSpan (mkPtok 27 "i64" 13 21 46) (mkPtok 27 "i64" 13 21 46)) (mkPtok 27 "i64" 13 21 46))) (mkPtok 42 "Header" 13 25 47) None (mkPtok 40 "," 13 32 48))))] (mkPtok 3 "}" 13 34 49)))])).
Eval vm_compute in ("<<<M1550>>>" ++ check (runes_of_ascii "root //	t
packet metadata {@lengthOf(
roots ) T{ match u as roots
    {
[007,""" ++ [128512]%N ++ runes_of_ascii """
    , 0 , // `tick` ""quote"" 'q'
""it's"" // `tick` ""quote"" 'q'
, """ ++ [128512]%N ++ runes_of_ascii """
, 65535 , 007] :rootA , ""{,}""	: uint8x ,
42:u128 ,
    [ 10]
: f32a // trailing space 
, } , match // packet A { u8 x, }
lengthOf as
    string_ { [""x y""
, 0 , ""// no comment""	,4294967296 ,//x
"""" , """" ]
    : // packet A { u8 x, }
uint8x
,
[ 42 ,  ""\" ++ [233]%N ++ runes_of_ascii """
, 3
, """" ]// packet A { u8 x, }
: tag, // 50% %s
}
, i64 /// triple
string_ , }// trailing space 
,@lengthOf( metadata)packetx  Packet `say ""hi""` , @lengthOf( leftPad )matchKey @lengthOf( u128 ) // @lengthOf(
`doc`	,match A as
    trueish
    { [ 0123456789 ] : Foo // `tick` ""quote"" 'q'
""`tick`"" : Pad	, 10 :
x_y_z,
    // c
    3: tag
, 1	:
//x
//	t
leftPad 0123456789 :  string_ , } ,	@tag( 0)repeat// trailing space 
zchar
string_
    /// triple
    `say ""hi""` , @calculatedFrom( """ ++ [128512]%N ++ runes_of_ascii """ ) // trailing space 
int64 body @lengthOf( body )`// not a comment` ,
    i32
_x
`two words` ,
    uint32 msg_type @calculatedFrom(// @lengthOf(
""" ++ [128512]%N ++ runes_of_ascii """) ,  } root
packet
    calculatedFrom{ u8 string_ @calculatedFrom( ""{,}""  )`it's`
    , /// triple
x
@calculatedFrom(
""`tick`""	)
    ,@tag( 007
    //x
    ) repeat	calculatedFrom , // c
}")).
Eval vm_compute in ("<<<M1582>>>" ++ check (runes_of_ascii "/// triple
packet crc { }
MetaData// trailing space 
body { }")).
Eval vm_compute in ("<<<M1614>>>" ++ check (runes_of_ascii "options{
lengthOf= string ; u8x
=
int32 Pad = int32  ; Foo = false;}

")).
Eval vm_compute in ("<<<M1646>>>" ++ check (runes_of_ascii "// a // b
options {
    //
    matchKey
    =char[// 50% %s
3] ; }
")).
Eval vm_compute in ("<<<M1678>>>" ++ check (runes_of_ascii "packet metadata { @lengthOf(
u8x
    ) /// triple
repeat BodyLength, repeat lengthOf {
char[] falsey `line1
line2` ,	uint64
u8x,
    f64//x
u `u8 x,`,
repeat len
Logon`
` // `tick` ""quote"" 'q'
, }
    , @tag(65535 )repeat BodyLength Pad
    , @calculatedFrom( ""x y""
    )@lengthOf(metadata  )
    @leftPad ('\x00' ) pack { zchar[ 00 ] Logon , }
// " ++ [128512]%N ++ runes_of_ascii " emoji
// packet A { u8 x, }
, @lengthOf( int ) uint8 MetaDataX,match MetaDataX
    as u8x { ""abc"" : a1 } , //	t
string  x_y_z`tab	here`
,  zchar
{ u8 Z9_ @lengthOf( chars
    )
    // 50% %s
    `say ""hi""`,
    } ,repeat x_y_z
{ match f32a as
    Pad
//	t
// c
{
    255// c
: repeatCount,
007: charz ,
}
,
    repeat zchar[ 0 ]
roots,
    i32 tag @lengthOf(falsey ) `u8 x,`
, a1 { char Foo @lengthOf(
    _x ) // `tick` ""quote"" 'q'
, }
    ,// @lengthOf(
}// a // b
,	repeat
// " ++ [128512]%N ++ runes_of_ascii " emoji
// 50% %s
u64// a // b
string_
,} options
{ i8i8
    = '0'
    ;
calculatedFrom
=//	t
""1"" len = uint8 }
")).
Eval vm_compute in ("<<<M1710>>>" ++ check (runes_of_ascii "
")).
Eval vm_compute in ("<<<M1742>>>" ++ check (runes_of_ascii "root packet trueish { match
// `tick` ""quote"" 'q'
// 50% %s
Pad as As
// `tick` ""quote"" 'q'
// @lengthOf(
{65535 // " ++ [128512]%N ++ runes_of_ascii " emoji
:calculatedFrom
, } ,
    } root packet trueish { }
packet trueish
    {uint16
chars `{ , }`
, @lengthOf( // @lengthOf(
stringy)u16 matchKey `u8 x,`, @tag( 0 )
// @lengthOf(
// a // b
char[] tag @lengthOf(
    stringy // packet A { u8 x, }
) `it's` ,
repeat float32 /// triple
rootA // a // b
,@lengthOf(
uint8x )uint8
    x_y_z
,
    body @calculatedFrom(""abc"" ) ,
    float32 len ,crc /// triple
int ,
// packet A { u8 x, }
// c
}options {BodyLength= int32; }

")).
Eval vm_compute in ("<<<T1742>>>" ++ terms [mkTok 34 "root" 1 0 false; mkTok 35 "packet" 1 5 false; mkTok 42 "trueish" 1 12 false; mkTok 2 "{" 1 20 false; mkTok 38 "match" 1 22 false; mkTok 44 "// `tick` ""quote"" 'q'" 2 0 true; mkTok 44 "// 50% %s" 3 0 true; mkTok 42 "Pad" 4 0 false; mkTok 17 "as" 4 4 false; mkTok 42 "As" 4 7 false; mkTok 44 "// `tick` ""quote"" 'q'" 5 0 true; mkTok 44 "// @lengthOf(" 6 0 true; mkTok 2 "{" 7 0 false; mkTok 30 "65535" 7 1 false; mkTok 44 (string_of_bytes [47; 47; 32; 240; 159; 152; 128; 32; 101; 109; 111; 106; 105]%N) 7 7 true; mkTok 39 ":" 8 0 false; mkTok 42 "calculatedFrom" 8 1 false; mkTok 40 "," 9 0 false; mkTok 3 "}" 9 2 false; mkTok 40 "," 9 4 false; mkTok 3 "}" 10 4 false; mkTok 34 "root" 10 6 false; mkTok 35 "packet" 10 11 false; mkTok 42 "trueish" 10 18 false; mkTok 2 "{" 10 26 false; mkTok 3 "}" 10 28 false; mkTok 35 "packet" 11 0 false; mkTok 42 "trueish" 11 7 false; mkTok 2 "{" 12 4 false; mkTok 21 "uint16" 12 5 false; mkTok 42 "chars" 13 0 false; mkTok 43 "`{ , }`" 13 6 false; mkTok 40 "," 14 0 false; mkTok 7 "@lengthOf(" 14 2 false; mkTok 44 "// @lengthOf(" 14 13 true; mkTok 42 "stringy" 15 0 false; mkTok 6 ")" 15 7 false; mkTok 21 "u16" 15 8 false; mkTok 42 "matchKey" 15 12 false; mkTok 43 "`u8 x,`" 15 21 false; mkTok 40 "," 15 28 false; mkTok 9 "@tag(" 15 30 false; mkTok 30 "0" 15 36 false; mkTok 6 ")" 15 38 false; mkTok 44 "// @lengthOf(" 16 0 true; mkTok 44 "// a // b" 17 0 true; mkTok 16 "char[]" 18 0 false; mkTok 42 "tag" 18 7 false; mkTok 7 "@lengthOf(" 18 11 false; mkTok 42 "stringy" 19 4 false; mkTok 44 "// packet A { u8 x, }" 19 12 true; mkTok 6 ")" 20 0 false; mkTok 43 "`it's`" 20 2 false; mkTok 40 "," 20 9 false; mkTok 36 "repeat" 21 0 false; mkTok 28 "float32" 21 7 false; mkTok 44 "/// triple" 21 15 true; mkTok 42 "rootA" 22 0 false; mkTok 44 "// a // b" 22 6 true; mkTok 40 "," 23 0 false; mkTok 7 "@lengthOf(" 23 1 false; mkTok 42 "uint8x" 24 0 false; mkTok 6 ")" 24 7 false; mkTok 20 "uint8" 24 8 false; mkTok 42 "x_y_z" 25 4 false; mkTok 40 "," 26 0 false; mkTok 42 "body" 27 4 false; mkTok 5 "@calculatedFrom(" 27 9 false; mkTok 31 """abc""" 27 25 false; mkTok 6 ")" 27 31 false; mkTok 40 "," 27 33 false; mkTok 28 "float32" 28 4 false; mkTok 42 "len" 28 12 false; mkTok 40 "," 28 16 false; mkTok 42 "crc" 28 17 false; mkTok 44 "/// triple" 28 21 true; mkTok 42 "int" 29 0 false; mkTok 40 "," 29 4 false; mkTok 44 "// packet A { u8 x, }" 30 0 true; mkTok 44 "// c" 31 0 true; mkTok 3 "}" 32 0 false; mkTok 1 "options" 32 1 false; mkTok 2 "{" 32 9 false; mkTok 42 "BodyLength" 32 10 false; mkTok 4 "=" 32 20 false; mkTok 26 "int32" 32 22 false; mkTok 41 ";" 32 27 false; mkTok 3 "}" 32 29 false; mkTok 0 "<EOF>" 34 0 false] (mkPacket (mkPtok 34 "root" 1 0 0) (Some (mkPtok 3 "}" 32 29 87)) [(DPacket (mkPacketDef (mkSpan (mkPtok 34 "root" 1 0 0) (mkPtok 3 "}" 10 4 20)) (Some (mkPtok 34 "root" 1 0 0)) (mkPtok 35 "packet" 1 5 1) (mkPtok 42 "trueish" 1 12 2) (mkPtok 2 "{" 1 20 3) [(mkFieldWithAttr (mkSpan (mkPtok 38 "match" 1 22 4) (mkPtok 40 "," 9 4 19)) [] (MatchField (mkSpan (mkPtok 38 "match" 1 22 4) (mkPtok 40 "," 9 4 19)) (mkMatchFieldDecl (mkSpan (mkPtok 38 "match" 1 22 4) (mkPtok 3 "}" 9 2 18)) (mkPtok 38 "match" 1 22 4) (mkPtok 42 "Pad" 4 0 7) (mkPtok 17 "as" 4 4 8) (mkPtok 42 "As" 4 7 9) (mkPtok 2 "{" 7 0 12) [(mkMatchPair (mkSpan (mkPtok 30 "65535" 7 1 13) (mkPtok 40 "," 9 0 17)) (MKDigits (mkPtok 30 "65535" 7 1 13)) (mkPtok 39 ":" 8 0 15) (mkPtok 42 "calculatedFrom" 8 1 16) (Some (mkPtok 40 "," 9 0 17)))] (mkPtok 3 "}" 9 2 18)) (mkPtok 40 "," 9 4 19)))] (mkPtok 3 "}" 10 4 20))); (DPacket (mkPacketDef (mkSpan (mkPtok 34 "root" 10 6 21) (mkPtok 3 "}" 10 28 25)) (Some (mkPtok 34 "root" 10 6 21)) (mkPtok 35 "packet" 10 11 22) (mkPtok 42 "trueish" 10 18 23) (mkPtok 2 "{" 10 26 24) [] (mkPtok 3 "}" 10 28 25))); (DPacket (mkPacketDef (mkSpan (mkPtok 35 "packet" 11 0 26) (mkPtok 3 "}" 32 0 80)) None (mkPtok 35 "packet" 11 0 26) (mkPtok 42 "trueish" 11 7 27) (mkPtok 2 "{" 12 4 28) [(mkFieldWithAttr (mkSpan (mkPtok 21 "uint16" 12 5 29) (mkPtok 40 "," 14 0 32)) [] (MetaField (mkSpan (mkPtok 21 "uint16" 12 5 29) (mkPtok 40 "," 14 0 32)) None (mkMetaDecl (mkSpan (mkPtok 21 "uint16" 12 5 29) (mkPtok 40 "," 14 0 32)) (TyBasic (mkSpan (mkPtok 21 "uint16" 12 5 29) (mkPtok 21 "uint16" 12 5 29)) (mkBasicType (mkSpan (mkPtok 21 "uint16" 12 5 29) (mkPtok 21 "uint16" 12 5 29)) (mkPtok 21 "uint16" 12 5 29))) (mkPtok 42 "chars" 13 0 30) (Some (mkPtok 43 "`{ , }`" 13 6 31)) (mkPtok 40 "," 14 0 32)))); (mkFieldWithAttr (mkSpan (mkPtok 7 "@lengthOf(" 14 2 33) (mkPtok 40 "," 15 28 40)) [(FALengthOf (mkSpan (mkPtok 7 "@lengthOf(" 14 2 33) (mkPtok 6 ")" 15 7 36)) (mkLengthOf (mkSpan (mkPtok 7 "@lengthOf(" 14 2 33) (mkPtok 6 ")" 15 7 36)) (mkPtok 7 "@lengthOf(" 14 2 33) (mkPtok 42 "stringy" 15 0 35) (mkPtok 6 ")" 15 7 36)))] (MetaField (mkSpan (mkPtok 21 "u16" 15 8 37) (mkPtok 40 "," 15 28 40)) None (mkMetaDecl (mkSpan (mkPtok 21 "u16" 15 8 37) (mkPtok 40 "," 15 28 40)) (TyBasic (mkSpan (mkPtok 21 "u16" 15 8 37) (mkPtok 21 "u16" 15 8 37)) (mkBasicType (mkSpan (mkPtok 21 "u16" 15 8 37) (mkPtok 21 "u16" 15 8 37)) (mkPtok 21 "u16" 15 8 37))) (mkPtok 42 "matchKey" 15 12 38) (Some (mkPtok 43 "`u8 x,`" 15 21 39)) (mkPtok 40 "," 15 28 40)))); (mkFieldWithAttr (mkSpan (mkPtok 9 "@tag(" 15 30 41) (mkPtok 40 "," 20 9 53)) [(FATag (mkSpan (mkPtok 9 "@tag(" 15 30 41) (mkPtok 6 ")" 15 38 43)) (mkTagAttr (mkSpan (mkPtok 9 "@tag(" 15 30 41) (mkPtok 6 ")" 15 38 43)) (mkPtok 9 "@tag(" 15 30 41) (mkPtok 30 "0" 15 36 42) (mkPtok 6 ")" 15 38 43)))] (LengthField (mkSpan (mkPtok 16 "char[]" 18 0 46) (mkPtok 40 "," 20 9 53)) (mkLengthFieldDecl (mkSpan (mkPtok 16 "char[]" 18 0 46) (mkPtok 40 "," 20 9 53)) (Some (TyDynamic (mkSpan (mkPtok 16 "char[]" 18 0 46) (mkPtok 16 "char[]" 18 0 46)) (mkDynamicString (mkSpan (mkPtok 16 "char[]" 18 0 46) (mkPtok 16 "char[]" 18 0 46)) (mkPtok 16 "char[]" 18 0 46)))) (mkPtok 42 "tag" 18 7 47) (mkLengthOf (mkSpan (mkPtok 7 "@lengthOf(" 18 11 48) (mkPtok 6 ")" 20 0 51)) (mkPtok 7 "@lengthOf(" 18 11 48) (mkPtok 42 "stringy" 19 4 49) (mkPtok 6 ")" 20 0 51)) (Some (mkPtok 43 "`it's`" 20 2 52)) (mkPtok 40 "," 20 9 53)))); (mkFieldWithAttr (mkSpan (mkPtok 36 "repeat" 21 0 54) (mkPtok 40 "," 23 0 59)) [] (MetaField (mkSpan (mkPtok 36 "repeat" 21 0 54) (mkPtok 40 "," 23 0 59)) (Some (mkPtok 36 "repeat" 21 0 54)) (mkMetaDecl (mkSpan (mkPtok 28 "float32" 21 7 55) (mkPtok 40 "," 23 0 59)) (TyBasic (mkSpan (mkPtok 28 "float32" 21 7 55) (mkPtok 28 "float32" 21 7 55)) (mkBasicType (mkSpan (mkPtok 28 "float32" 21 7 55) (mkPtok 28 "float32" 21 7 55)) (mkPtok 28 "float32" 21 7 55))) (mkPtok 42 "rootA" 22 0 57) None (mkPtok 40 "," 23 0 59)))); (mkFieldWithAttr (mkSpan (mkPtok 7 "@lengthOf(" 23 1 60) (mkPtok 40 "," 26 0 65)) [(FALengthOf (mkSpan (mkPtok 7 "@lengthOf(" 23 1 60) (mkPtok 6 ")" 24 7 62)) (mkLengthOf (mkSpan (mkPtok 7 "@lengthOf(" 23 1 60) (mkPtok 6 ")" 24 7 62)) (mkPtok 7 "@lengthOf(" 23 1 60) (mkPtok 42 "uint8x" 24 0 61) (mkPtok 6 ")" 24 7 62)))] (MetaField (mkSpan (mkPtok 20 "uint8" 24 8 63) (mkPtok 40 "," 26 0 65)) None (mkMetaDecl (mkSpan (mkPtok 20 "uint8" 24 8 63) (mkPtok 40 "," 26 0 65)) (TyBasic (mkSpan (mkPtok 20 "uint8" 24 8 63) (mkPtok 20 "uint8" 24 8 63)) (mkBasicType (mkSpan (mkPtok 20 "uint8" 24 8 63) (mkPtok 20 "uint8" 24 8 63)) (mkPtok 20 "uint8" 24 8 63))) (mkPtok 42 "x_y_z" 25 4 64) None (mkPtok 40 "," 26 0 65)))); (mkFieldWithAttr (mkSpan (mkPtok 42 "body" 27 4 66) (mkPtok 40 "," 27 33 70)) [] (CheckSumField (mkSpan (mkPtok 42 "body" 27 4 66) (mkPtok 40 "," 27 33 70)) (mkChecksumFieldDecl (mkSpan (mkPtok 42 "body" 27 4 66) (mkPtok 40 "," 27 33 70)) None (mkPtok 42 "body" 27 4 66) (mkCalculatedFrom (mkSpan (mkPtok 5 "@calculatedFrom(" 27 9 67) (mkPtok 6 ")" 27 31 69)) (mkPtok 5 "@calculatedFrom(" 27 9 67) (mkPtok 31 """abc""" 27 25 68) (mkPtok 6 ")" 27 31 69)) None (mkPtok 40 "," 27 33 70)))); (mkFieldWithAttr (mkSpan (mkPtok 28 "float32" 28 4 71) (mkPtok 40 "," 28 16 73)) [] (MetaField (mkSpan (mkPtok 28 "float32" 28 4 71) (mkPtok 40 "," 28 16 73)) None (mkMetaDecl (mkSpan (mkPtok 28 "float32" 28 4 71) (mkPtok 40 "," 28 16 73)) (TyBasic (mkSpan (mkPtok 28 "float32" 28 4 71) (mkPtok 28 "float32" 28 4 71)) (mkBasicType (mkSpan (mkPtok 28 "float32" 28 4 71) (mkPtok 28 "float32" 28 4 71)) (mkPtok 28 "float32" 28 4 71))) (mkPtok 42 "len" 28 12 72) None (mkPtok 40 "," 28 16 73)))); (mkFieldWithAttr (mkSpan (mkPtok 42 "crc" 28 17 74) (mkPtok 40 "," 29 4 77)) [] (ObjectField (mkSpan (mkPtok 42 "crc" 28 17 74) (mkPtok 40 "," 29 4 77)) None (mkPtok 42 "crc" 28 17 74) (Some (mkPtok 42 "int" 29 0 76)) None (mkPtok 40 "," 29 4 77)))] (mkPtok 3 "}" 32 0 80))); (DOption (mkOptionDef (mkSpan (mkPtok 1 "options" 32 1 81) (mkPtok 3 "}" 32 29 87)) (mkPtok 1 "options" 32 1 81) (mkPtok 2 "{" 32 9 82) [(mkOptionDecl (mkSpan (mkPtok 42 "BodyLength" 32 10 83) (mkPtok 41 ";" 32 27 86)) (mkPtok 42 "BodyLength" 32 10 83) (mkPtok 4 "=" 32 20 84) (VType (mkSpan (mkPtok 26 "int32" 32 22 85) (mkPtok 26 "int32" 32 22 85)) (TyBasic (mkSpan (mkPtok 26 "int32" 32 22 85) (mkPtok 26 "int32" 32 22 85)) (mkBasicType (mkSpan (mkPtok 26 "int32" 32 22 85) (mkPtok 26 "int32" 32 22 85)) (mkPtok 26 "int32" 32 22 85)))) (Some (mkPtok 41 ";" 32 27 86)))] (mkPtok 3 "}" 32 29 87)))])).
Eval vm_compute in ("<<<M1774>>>" ++ check (runes_of_ascii "root packet u { @tag( 7 ) charz BodyLength ,zchar[ 10 ]
    msg_type @calculatedFrom( ""it's"" ) `100% of %d`
, } root packet string_
    { @leftPad (
) char[ 65535
    ]
x
// a // b
// packet A { u8 x, }
`two words`
    ,
    repeat char roots ,}  root packet
leftPad  {
uint8x { zchar[
0123456789 ] Header
    @lengthOf(
    pack ), }
, }
")).
Eval vm_compute in ("<<<M1806>>>" ++ check (runes_of_ascii "packet packetx{//x
@tag( 00 ) repeat u A //
, @tag( 0 )Logon
trueish , repeat
char[ 42 ] stringy , repeat//	t
string_ a1 ,} // @lengthOf(")).
Eval vm_compute in ("<<<M1838>>>" ++ check (runes_of_ascii "packet
    // `tick` ""quote"" 'q'
    Header {  }
packet x
{
}")).
Eval vm_compute in ("<<<M1870>>>" ++ check (@nil rune)).
Eval vm_compute in ("<<<M1902>>>" ++ check (runes_of_ascii "  packet As {}/// triple
root packet
f32a { leftPad crc ,} packet As
    { Packet `crlf
line`  ,
@tag( 255 // " ++ [128512]%N ++ runes_of_ascii " emoji
) char _x , }")).
Eval vm_compute in ("<<<M1934>>>" ++ check (runes_of_ascii "packet uint8x { metadata { a1
`two words`	,	int
// trailing space 
// packet A { u8 x, }
{ zchar[
255]msg_type // " ++ [27880; 37322]%N ++ runes_of_ascii "
@calculatedFrom( """ ++ [233]%N ++ runes_of_ascii "t" ++ [233]%N ++ runes_of_ascii """ ),} , } , char[
00]
    chars
    , //
}")).
Eval vm_compute in ("<<<M1966>>>" ++ check (runes_of_ascii "//	t
MetaData
body { u _x
    ,
char[]	chars
,float64
matchKey
    `two words` ,f32
x
,
// packet A { u8 x, }
/// triple
BodyLength charz ,
} packet trueish { @lengthOf(
    // 50% %s
    trueish )
char[]packetx@lengthOf( stringy // " ++ [27880; 37322]%N ++ runes_of_ascii "
)	,@tag(1 //	t
) Pad
    { char[]
crc , string falsey `u8 x,` , } ,
    @rightPad
(
//	t
// @lengthOf(
'\x00' ) @rightPad ( '0' ) @leftPad
( )
    falsey  {
i8 matchKey  @calculatedFrom(
""" ++ [28040; 24687]%N ++ runes_of_ascii """ )
    , }
, } packet	T { } packet Header { }	packet options1
{
    // " ++ [27880; 37322]%N ++ runes_of_ascii "
    u { repeat string o
    , }, }
")).
Eval vm_compute in ("<<<T1966>>>" ++ terms [mkTok 44 (string_of_bytes [47; 47; 9; 116]%N) 1 0 true; mkTok 37 "MetaData" 2 0 false; mkTok 42 "body" 3 0 false; mkTok 2 "{" 3 5 false; mkTok 42 "u" 3 7 false; mkTok 42 "_x" 3 9 false; mkTok 40 "," 4 4 false; mkTok 16 "char[]" 5 0 false; mkTok 42 "chars" 5 7 false; mkTok 40 "," 6 0 false; mkTok 29 "float64" 6 1 false; mkTok 42 "matchKey" 7 0 false; mkTok 43 "`two words`" 8 4 false; mkTok 40 "," 8 16 false; mkTok 28 "f32" 8 17 false; mkTok 42 "x" 9 0 false; mkTok 40 "," 10 0 false; mkTok 44 "// packet A { u8 x, }" 11 0 true; mkTok 44 "/// triple" 12 0 true; mkTok 42 "BodyLength" 13 0 false; mkTok 42 "charz" 13 11 false; mkTok 40 "," 13 17 false; mkTok 3 "}" 14 0 false; mkTok 35 "packet" 14 2 false; mkTok 42 "trueish" 14 9 false; mkTok 2 "{" 14 17 false; mkTok 7 "@lengthOf(" 14 19 false; mkTok 44 "// 50% %s" 15 4 true; mkTok 42 "trueish" 16 4 false; mkTok 6 ")" 16 12 false; mkTok 16 "char[]" 17 0 false; mkTok 42 "packetx" 17 6 false; mkTok 7 "@lengthOf(" 17 13 false; mkTok 42 "stringy" 17 24 false; mkTok 44 (string_of_bytes [47; 47; 32; 230; 179; 168; 233; 135; 138]%N) 17 32 true; mkTok 6 ")" 18 0 false; mkTok 40 "," 18 2 false; mkTok 9 "@tag(" 18 3 false; mkTok 30 "1" 18 8 false; mkTok 44 (string_of_bytes [47; 47; 9; 116]%N) 18 10 true; mkTok 6 ")" 19 0 false; mkTok 42 "Pad" 19 2 false; mkTok 2 "{" 20 4 false; mkTok 16 "char[]" 20 6 false; mkTok 42 "crc" 21 0 false; mkTok 40 "," 21 4 false; mkTok 15 "string" 21 6 false; mkTok 42 "falsey" 21 13 false; mkTok 43 "`u8 x,`" 21 20 false; mkTok 40 "," 21 28 false; mkTok 3 "}" 21 30 false; mkTok 40 "," 21 32 false; mkTok 32 "@rightPad" 22 4 false; mkTok 8 "(" 23 0 false; mkTok 44 (string_of_bytes [47; 47; 9; 116]%N) 24 0 true; mkTok 44 "// @lengthOf(" 25 0 true; mkTok 33 "'\x00'" 26 0 false; mkTok 6 ")" 26 7 false; mkTok 32 "@rightPad" 26 9 false; mkTok 8 "(" 26 19 false; mkTok 33 "'0'" 26 21 false; mkTok 6 ")" 26 25 false; mkTok 32 "@leftPad" 26 27 false; mkTok 8 "(" 27 0 false; mkTok 6 ")" 27 2 false; mkTok 42 "falsey" 28 4 false; mkTok 2 "{" 28 12 false; mkTok 24 "i8" 29 0 false; mkTok 42 "matchKey" 29 3 false; mkTok 5 "@calculatedFrom(" 29 13 false; mkTok 31 (string_of_bytes [34; 230; 182; 136; 230; 129; 175; 34]%N) 30 0 false; mkTok 6 ")" 30 5 false; mkTok 40 "," 31 4 false; mkTok 3 "}" 31 6 false; mkTok 40 "," 32 0 false; mkTok 3 "}" 32 2 false; mkTok 35 "packet" 32 4 false; mkTok 42 "T" 32 11 false; mkTok 2 "{" 32 13 false; mkTok 3 "}" 32 15 false; mkTok 35 "packet" 32 17 false; mkTok 42 "Header" 32 24 false; mkTok 2 "{" 32 31 false; mkTok 3 "}" 32 33 false; mkTok 35 "packet" 32 35 false; mkTok 42 "options1" 32 42 false; mkTok 2 "{" 33 0 false; mkTok 44 (string_of_bytes [47; 47; 32; 230; 179; 168; 233; 135; 138]%N) 34 4 true; mkTok 42 "u" 35 4 false; mkTok 2 "{" 35 6 false; mkTok 36 "repeat" 35 8 false; mkTok 15 "string" 35 15 false; mkTok 42 "o" 35 22 false; mkTok 40 "," 36 4 false; mkTok 3 "}" 36 6 false; mkTok 40 "," 36 7 false; mkTok 3 "}" 36 9 false; mkTok 0 "<EOF>" 37 0 false] (mkPacket (mkPtok 37 "MetaData" 2 0 1) (Some (mkPtok 3 "}" 36 9 96)) [(DMeta (mkMetaDef (mkSpan (mkPtok 37 "MetaData" 2 0 1) (mkPtok 3 "}" 14 0 22)) (mkPtok 37 "MetaData" 2 0 1) (mkPtok 42 "body" 3 0 2) (mkPtok 2 "{" 3 5 3) [(MIRef (mkRefMetaDecl (mkSpan (mkPtok 42 "u" 3 7 4) (mkPtok 40 "," 4 4 6)) (mkPtok 42 "u" 3 7 4) (mkPtok 42 "_x" 3 9 5) None (mkPtok 40 "," 4 4 6))); (MIDecl (mkMetaDecl (mkSpan (mkPtok 16 "char[]" 5 0 7) (mkPtok 40 "," 6 0 9)) (TyDynamic (mkSpan (mkPtok 16 "char[]" 5 0 7) (mkPtok 16 "char[]" 5 0 7)) (mkDynamicString (mkSpan (mkPtok 16 "char[]" 5 0 7) (mkPtok 16 "char[]" 5 0 7)) (mkPtok 16 "char[]" 5 0 7))) (mkPtok 42 "chars" 5 7 8) None (mkPtok 40 "," 6 0 9))); (MIDecl (mkMetaDecl (mkSpan (mkPtok 29 "float64" 6 1 10) (mkPtok 40 "," 8 16 13)) (TyBasic (mkSpan (mkPtok 29 "float64" 6 1 10) (mkPtok 29 "float64" 6 1 10)) (mkBasicType (mkSpan (mkPtok 29 "float64" 6 1 10) (mkPtok 29 "float64" 6 1 10)) (mkPtok 29 "float64" 6 1 10))) (mkPtok 42 "matchKey" 7 0 11) (Some (mkPtok 43 "`two words`" 8 4 12)) (mkPtok 40 "," 8 16 13))); (MIDecl (mkMetaDecl (mkSpan (mkPtok 28 "f32" 8 17 14) (mkPtok 40 "," 10 0 16)) (TyBasic (mkSpan (mkPtok 28 "f32" 8 17 14) (mkPtok 28 "f32" 8 17 14)) (mkBasicType (mkSpan (mkPtok 28 "f32" 8 17 14) (mkPtok 28 "f32" 8 17 14)) (mkPtok 28 "f32" 8 17 14))) (mkPtok 42 "x" 9 0 15) None (mkPtok 40 "," 10 0 16))); (MIRef (mkRefMetaDecl (mkSpan (mkPtok 42 "BodyLength" 13 0 19) (mkPtok 40 "," 13 17 21)) (mkPtok 42 "BodyLength" 13 0 19) (mkPtok 42 "charz" 13 11 20) None (mkPtok 40 "," 13 17 21)))] (mkPtok 3 "}" 14 0 22))); (DPacket (mkPacketDef (mkSpan (mkPtok 35 "packet" 14 2 23) (mkPtok 3 "}" 32 2 75)) None (mkPtok 35 "packet" 14 2 23) (mkPtok 42 "trueish" 14 9 24) (mkPtok 2 "{" 14 17 25) [(mkFieldWithAttr (mkSpan (mkPtok 7 "@lengthOf(" 14 19 26) (mkPtok 40 "," 18 2 36)) [(FALengthOf (mkSpan (mkPtok 7 "@lengthOf(" 14 19 26) (mkPtok 6 ")" 16 12 29)) (mkLengthOf (mkSpan (mkPtok 7 "@lengthOf(" 14 19 26) (mkPtok 6 ")" 16 12 29)) (mkPtok 7 "@lengthOf(" 14 19 26) (mkPtok 42 "trueish" 16 4 28) (mkPtok 6 ")" 16 12 29)))] (LengthField (mkSpan (mkPtok 16 "char[]" 17 0 30) (mkPtok 40 "," 18 2 36)) (mkLengthFieldDecl (mkSpan (mkPtok 16 "char[]" 17 0 30) (mkPtok 40 "," 18 2 36)) (Some (TyDynamic (mkSpan (mkPtok 16 "char[]" 17 0 30) (mkPtok 16 "char[]" 17 0 30)) (mkDynamicString (mkSpan (mkPtok 16 "char[]" 17 0 30) (mkPtok 16 "char[]" 17 0 30)) (mkPtok 16 "char[]" 17 0 30)))) (mkPtok 42 "packetx" 17 6 31) (mkLengthOf (mkSpan (mkPtok 7 "@lengthOf(" 17 13 32) (mkPtok 6 ")" 18 0 35)) (mkPtok 7 "@lengthOf(" 17 13 32) (mkPtok 42 "stringy" 17 24 33) (mkPtok 6 ")" 18 0 35)) None (mkPtok 40 "," 18 2 36)))); (mkFieldWithAttr (mkSpan (mkPtok 9 "@tag(" 18 3 37) (mkPtok 40 "," 21 32 51)) [(FATag (mkSpan (mkPtok 9 "@tag(" 18 3 37) (mkPtok 6 ")" 19 0 40)) (mkTagAttr (mkSpan (mkPtok 9 "@tag(" 18 3 37) (mkPtok 6 ")" 19 0 40)) (mkPtok 9 "@tag(" 18 3 37) (mkPtok 30 "1" 18 8 38) (mkPtok 6 ")" 19 0 40)))] (InerObjectField (mkSpan (mkPtok 42 "Pad" 19 2 41) (mkPtok 40 "," 21 32 51)) None (InerObjectDecl (mkSpan (mkPtok 42 "Pad" 19 2 41) (mkPtok 3 "}" 21 30 50)) (mkPtok 42 "Pad" 19 2 41) (mkPtok 2 "{" 20 4 42) [(MetaField (mkSpan (mkPtok 16 "char[]" 20 6 43) (mkPtok 40 "," 21 4 45)) None (mkMetaDecl (mkSpan (mkPtok 16 "char[]" 20 6 43) (mkPtok 40 "," 21 4 45)) (TyDynamic (mkSpan (mkPtok 16 "char[]" 20 6 43) (mkPtok 16 "char[]" 20 6 43)) (mkDynamicString (mkSpan (mkPtok 16 "char[]" 20 6 43) (mkPtok 16 "char[]" 20 6 43)) (mkPtok 16 "char[]" 20 6 43))) (mkPtok 42 "crc" 21 0 44) None (mkPtok 40 "," 21 4 45))); (MetaField (mkSpan (mkPtok 15 "string" 21 6 46) (mkPtok 40 "," 21 28 49)) None (mkMetaDecl (mkSpan (mkPtok 15 "string" 21 6 46) (mkPtok 40 "," 21 28 49)) (TyDynamic (mkSpan (mkPtok 15 "string" 21 6 46) (mkPtok 15 "string" 21 6 46)) (mkDynamicString (mkSpan (mkPtok 15 "string" 21 6 46) (mkPtok 15 "string" 21 6 46)) (mkPtok 15 "string" 21 6 46))) (mkPtok 42 "falsey" 21 13 47) (Some (mkPtok 43 "`u8 x,`" 21 20 48)) (mkPtok 40 "," 21 28 49)))] (mkPtok 3 "}" 21 30 50)) (mkPtok 40 "," 21 32 51))); (mkFieldWithAttr (mkSpan (mkPtok 32 "@rightPad" 22 4 52) (mkPtok 40 "," 32 0 74)) [(FAPadding (mkSpan (mkPtok 32 "@rightPad" 22 4 52) (mkPtok 6 ")" 26 7 57)) (mkPaddingAttr (mkSpan (mkPtok 32 "@rightPad" 22 4 52) (mkPtok 6 ")" 26 7 57)) (mkPtok 32 "@rightPad" 22 4 52) (mkPtok 8 "(" 23 0 53) (Some (mkPtok 33 "'\x00'" 26 0 56)) (mkPtok 6 ")" 26 7 57))); (FAPadding (mkSpan (mkPtok 32 "@rightPad" 26 9 58) (mkPtok 6 ")" 26 25 61)) (mkPaddingAttr (mkSpan (mkPtok 32 "@rightPad" 26 9 58) (mkPtok 6 ")" 26 25 61)) (mkPtok 32 "@rightPad" 26 9 58) (mkPtok 8 "(" 26 19 59) (Some (mkPtok 33 "'0'" 26 21 60)) (mkPtok 6 ")" 26 25 61))); (FAPadding (mkSpan (mkPtok 32 "@leftPad" 26 27 62) (mkPtok 6 ")" 27 2 64)) (mkPaddingAttr (mkSpan (mkPtok 32 "@leftPad" 26 27 62) (mkPtok 6 ")" 27 2 64)) (mkPtok 32 "@leftPad" 26 27 62) (mkPtok 8 "(" 27 0 63) None (mkPtok 6 ")" 27 2 64)))] (InerObjectField (mkSpan (mkPtok 42 "falsey" 28 4 65) (mkPtok 40 "," 32 0 74)) None (InerObjectDecl (mkSpan (mkPtok 42 "falsey" 28 4 65) (mkPtok 3 "}" 31 6 73)) (mkPtok 42 "falsey" 28 4 65) (mkPtok 2 "{" 28 12 66) [(CheckSumField (mkSpan (mkPtok 24 "i8" 29 0 67) (mkPtok 40 "," 31 4 72)) (mkChecksumFieldDecl (mkSpan (mkPtok 24 "i8" 29 0 67) (mkPtok 40 "," 31 4 72)) (Some (TyBasic (mkSpan (mkPtok 24 "i8" 29 0 67) (mkPtok 24 "i8" 29 0 67)) (mkBasicType (mkSpan (mkPtok 24 "i8" 29 0 67) (mkPtok 24 "i8" 29 0 67)) (mkPtok 24 "i8" 29 0 67)))) (mkPtok 42 "matchKey" 29 3 68) (mkCalculatedFrom (mkSpan (mkPtok 5 "@calculatedFrom(" 29 13 69) (mkPtok 6 ")" 30 5 71)) (mkPtok 5 "@calculatedFrom(" 29 13 69) (mkPtok 31 (string_of_bytes [34; 230; 182; 136; 230; 129; 175; 34]%N) 30 0 70) (mkPtok 6 ")" 30 5 71)) None (mkPtok 40 "," 31 4 72)))] (mkPtok 3 "}" 31 6 73)) (mkPtok 40 "," 32 0 74)))] (mkPtok 3 "}" 32 2 75))); (DPacket (mkPacketDef (mkSpan (mkPtok 35 "packet" 32 4 76) (mkPtok 3 "}" 32 15 79)) None (mkPtok 35 "packet" 32 4 76) (mkPtok 42 "T" 32 11 77) (mkPtok 2 "{" 32 13 78) [] (mkPtok 3 "}" 32 15 79))); (DPacket (mkPacketDef (mkSpan (mkPtok 35 "packet" 32 17 80) (mkPtok 3 "}" 32 33 83)) None (mkPtok 35 "packet" 32 17 80) (mkPtok 42 "Header" 32 24 81) (mkPtok 2 "{" 32 31 82) [] (mkPtok 3 "}" 32 33 83))); (DPacket (mkPacketDef (mkSpan (mkPtok 35 "packet" 32 35 84) (mkPtok 3 "}" 36 9 96)) None (mkPtok 35 "packet" 32 35 84) (mkPtok 42 "options1" 32 42 85) (mkPtok 2 "{" 33 0 86) [(mkFieldWithAttr (mkSpan (mkPtok 42 "u" 35 4 88) (mkPtok 40 "," 36 7 95)) [] (InerObjectField (mkSpan (mkPtok 42 "u" 35 4 88) (mkPtok 40 "," 36 7 95)) None (InerObjectDecl (mkSpan (mkPtok 42 "u" 35 4 88) (mkPtok 3 "}" 36 6 94)) (mkPtok 42 "u" 35 4 88) (mkPtok 2 "{" 35 6 89) [(MetaField (mkSpan (mkPtok 36 "repeat" 35 8 90) (mkPtok 40 "," 36 4 93)) (Some (mkPtok 36 "repeat" 35 8 90)) (mkMetaDecl (mkSpan (mkPtok 15 "string" 35 15 91) (mkPtok 40 "," 36 4 93)) (TyDynamic (mkSpan (mkPtok 15 "string" 35 15 91) (mkPtok 15 "string" 35 15 91)) (mkDynamicString (mkSpan (mkPtok 15 "string" 35 15 91) (mkPtok 15 "string" 35 15 91)) (mkPtok 15 "string" 35 15 91))) (mkPtok 42 "o" 35 22 92) None (mkPtok 40 "," 36 4 93)))] (mkPtok 3 "}" 36 6 94)) (mkPtok 40 "," 36 7 95)))] (mkPtok 3 "}" 36 9 96)))])).
Eval vm_compute in ("<<<M1998>>>" ++ check (runes_of_ascii "options { string_
= string } packet
rootA
{
@lengthOf(
MetaDataX ) repeat char[
    255] chars, }packet stringy { u`tab	here` ,  x_y_z
    { zchar[42
] i64_ @lengthOf(roots ),}, @lengthOf(
packetx) Logon @lengthOf(o) , int64 Packet	,
    }
// " ++ [27880; 37322]%N ++ runes_of_ascii "
")).
Eval vm_compute in ("<<<M2030>>>" ++ check (runes_of_ascii "MetaData repeatCount { float64 packetx packetx,
} root packet  metadata {
char _x @lengthOf( trueish ), @leftPad
( ' '// " ++ [27880; 37322]%N ++ runes_of_ascii "
)/// triple
char[] len`doc` , // packet A { u8 x, }
repeatCount , }
")).
Eval vm_compute in ("<<<M2062>>>" ++ check (runes_of_ascii "MetaData repeatCount { float64 packetx,
} root packet  metadata string
char _x @lengthOf( trueish ), @leftPad
( ' '// " ++ [27880; 37322]%N ++ runes_of_ascii "
)/// triple
char[] len`doc` , // packet A { u8 x, }
repeatCount , }
")).
Eval vm_compute in ("<<<M2094>>>" ++ check (runes_of_ascii "MetaData repeatCount { float64 packetx,
} root packet  metadata {
char _x @lengthOf( trueish ), 
( ' '// " ++ [27880; 37322]%N ++ runes_of_ascii "
)/// triple
char[] len`doc` , // packet A { u8 x, }
repeatCount , }
")).
Eval vm_compute in ("<<<M2126>>>" ++ check (runes_of_ascii "MetaData repeatCount { float64 packetx,
} root packet  metadata {
char _x @lengthOf( trueish ), @leftPad
( ' '// " ++ [27880; 37322]%N ++ runes_of_ascii "
)/// triple
char[] len, `doc` // packet A { u8 x, }
repeatCount , }
")).
Eval vm_compute in ("<<<M2158>>>" ++ check (runes_of_ascii "MetaData repeatCount { float64 packetx,
} root packet  metadata {
char _x @lengthOf( trueish ), @leftPad
( ?' '// " ++ [27880; 37322]%N ++ runes_of_ascii "
)/// triple
char[] len`doc` , // packet A { u8 x, }
repeatCount , }
")).
Eval vm_compute in ("<<<M2190>>>" ++ check (runes_of_ascii "options{
leftPad
    =
;
a1 = true ; packetx=  '\x00' ; packetx
=  """ ++ [28040; 24687]%N ++ runes_of_ascii """MetaDataX= // " ++ [27880; 37322]%N ++ runes_of_ascii "
false }root // c
packet // packet A { u8 x, }
Pad { repeat
u8 Header
// packet A { u8 x, }
//	t
`{ , }`
// a // b
//x
, }
")).
Eval vm_compute in ("<<<M2222>>>" ++ check (runes_of_ascii "options{
leftPad
    =65535
;
a1 = true ; =packetx  '\x00' ; packetx
=  """ ++ [28040; 24687]%N ++ runes_of_ascii """MetaDataX= // " ++ [27880; 37322]%N ++ runes_of_ascii "
false }root // c
packet // packet A { u8 x, }
Pad { repeat
u8 Header
// packet A { u8 x, }
//	t
`{ , }`
// a // b
//x
, }
")).
Eval vm_compute in ("<<<M2254>>>" ++ check (runes_of_ascii "options{
leftPad
    =65535
;
a1 = true ; packetx=  '\x00' ; packetx
=")).
Eval vm_compute in ("<<<M2286>>>" ++ check (runes_of_ascii "options{
leftPad
    =65535
;
a1 = true ; packetx=  '\x00' ; packetx
=  """ ++ [28040; 24687]%N ++ runes_of_ascii """MetaDataX= // " ++ [27880; 37322]%N ++ runes_of_ascii "
false }root // c
packet // packet A { u8 x, }
Pad Pad { repeat
u8 Header
// packet A { u8 x, }
//	t
`{ , }`
// a // b
//x
, }
")).
Eval vm_compute in ("<<<M2318>>>" ++ check (runes_of_ascii "options{
leftPad
    =65535
;
a1 = true ; packetx=  '\x00' ; packetx
=  """ ++ [28040; 24687]%N ++ runes_of_ascii """MetaDataX= // " ++ [27880; 37322]%N ++ runes_of_ascii "
false }root // c
packet // packet A { u8 x, }
Pad { repeat
u8 Header
// packet A { u8 x, }
//	t
`{ , }`
// a // b
//x
MetaData }
")).
Eval vm_compute in ("<<<M2350>>>" ++ check (runes_of_ascii "
")).
Eval vm_compute in ("<<<M2382>>>" ++ check (runes_of_ascii "
packet float
{	@calculatedFrom( """ ++ [233]%N ++ runes_of_ascii "t" ++ [233]%N ++ runes_of_ascii """ )
@rightPad ( ( '\x00' )
    @calculatedFrom( ""x y"" ) string chars  ,
    // a // b
    char[0 ]
    u	@lengthOf( i8i8 ) `{ , }` ,repeat char[] o //x
`// not a comment`, } // c")).
Eval vm_compute in ("<<<M2414>>>" ++ check (runes_of_ascii "
packet float
{	@calculatedFrom( """ ++ [233]%N ++ runes_of_ascii "t" ++ [233]%N ++ runes_of_ascii """ )
@rightPad ( '\x00' )
    @calculatedFrom( ""x y"" ) u32 chars  ,
    // a // b
    char[0 ]
    u	@lengthOf( i8i8 ) `{ , }` ,repeat char[] o //x
`// not a comment`, } // c")).
Eval vm_compute in ("<<<M2446>>>" ++ check (runes_of_ascii "
packet float
{	@calculatedFrom( """ ++ [233]%N ++ runes_of_ascii "t" ++ [233]%N ++ runes_of_ascii """ )
@rightPad ( '\x00' )
    @calculatedFrom( ""x y"" ) string chars  ,
    // a // b
    char[0 ]
    u	 i8i8 ) `{ , }` ,repeat char[] o //x
`// not a comment`, } // c")).
Eval vm_compute in ("<<<M2478>>>" ++ check (runes_of_ascii "
packet float
{	@calculatedFrom( """ ++ [233]%N ++ runes_of_ascii "t" ++ [233]%N ++ runes_of_ascii """ )
@rightPad ( '\x00' )
    @calculatedFrom( ""x y"" ) string chars  ,
    // a // b
    char[0 ]
    u	@lengthOf( i8i8 ) `{ , }` ,repeat o char[] //x
`// not a comment`, } // c")).
Eval vm_compute in ("<<<M2510>>>" ++ check (runes_of_ascii "
packet float
{	@calculatedFrom( """ ++ [233]%N ++ runes_of_ascii "t" ++ [233]%N ++ runes_of_ascii """ )
@rightPad ( '\x00' )
  |  @calculatedFrom( ""x y"" ) string chars  ,
    // a // b
    char[0 ]
    u	@lengthOf( i8i8 ) `{ , }` ,repeat char[] o //x
`// not a comment`, } // c")).
Eval vm_compute in ("<<<M2542>>>" ++ check (runes_of_ascii "root packet u128{
    
    zchar[ 65535 ] u `" ++ [28040; 24687; 31867; 22411]%N ++ runes_of_ascii "` ,// `tick` ""quote"" 'q'
} packet i64_ {repeatCount
    `
` ,	} // " ++ [128512]%N ++ runes_of_ascii " emoji")).
Eval vm_compute in ("<<<T2542>>>" ++ terms [mkTok 34 "root" 1 0 false; mkTok 35 "packet" 1 5 false; mkTok 42 "u128" 1 12 false; mkTok 2 "{" 1 16 false; mkTok 14 "zchar[" 3 4 false; mkTok 30 "65535" 3 11 false; mkTok 13 "]" 3 17 false; mkTok 42 "u" 3 19 false; mkTok 43 (string_of_bytes [96; 230; 182; 136; 230; 129; 175; 231; 177; 187; 229; 158; 139; 96]%N) 3 21 false; mkTok 40 "," 3 28 false; mkTok 44 "// `tick` ""quote"" 'q'" 3 29 true; mkTok 3 "}" 4 0 false; mkTok 35 "packet" 4 2 false; mkTok 42 "i64_" 4 9 false; mkTok 2 "{" 4 14 false; mkTok 42 "repeatCount" 4 15 false; mkTok 43 (string_of_bytes [96; 10; 96]%N) 5 4 false; mkTok 40 "," 6 2 false; mkTok 3 "}" 6 4 false; mkTok 44 (string_of_bytes [47; 47; 32; 240; 159; 152; 128; 32; 101; 109; 111; 106; 105]%N) 6 6 true; mkTok 0 "<EOF>" 6 16 false] (mkPacket (mkPtok 34 "root" 1 0 0) (Some (mkPtok 3 "}" 6 4 18)) [(DPacket (mkPacketDef (mkSpan (mkPtok 34 "root" 1 0 0) (mkPtok 3 "}" 4 0 11)) (Some (mkPtok 34 "root" 1 0 0)) (mkPtok 35 "packet" 1 5 1) (mkPtok 42 "u128" 1 12 2) (mkPtok 2 "{" 1 16 3) [(mkFieldWithAttr (mkSpan (mkPtok 14 "zchar[" 3 4 4) (mkPtok 40 "," 3 28 9)) [] (MetaField (mkSpan (mkPtok 14 "zchar[" 3 4 4) (mkPtok 40 "," 3 28 9)) None (mkMetaDecl (mkSpan (mkPtok 14 "zchar[" 3 4 4) (mkPtok 40 "," 3 28 9)) (TyFixed (mkSpan (mkPtok 14 "zchar[" 3 4 4) (mkPtok 13 "]" 3 17 6)) (mkFixedString (mkSpan (mkPtok 14 "zchar[" 3 4 4) (mkPtok 13 "]" 3 17 6)) (mkPtok 14 "zchar[" 3 4 4) (mkPtok 30 "65535" 3 11 5) (mkPtok 13 "]" 3 17 6))) (mkPtok 42 "u" 3 19 7) (Some (mkPtok 43 (string_of_bytes [96; 230; 182; 136; 230; 129; 175; 231; 177; 187; 229; 158; 139; 96]%N) 3 21 8)) (mkPtok 40 "," 3 28 9))))] (mkPtok 3 "}" 4 0 11))); (DPacket (mkPacketDef (mkSpan (mkPtok 35 "packet" 4 2 12) (mkPtok 3 "}" 6 4 18)) None (mkPtok 35 "packet" 4 2 12) (mkPtok 42 "i64_" 4 9 13) (mkPtok 2 "{" 4 14 14) [(mkFieldWithAttr (mkSpan (mkPtok 42 "repeatCount" 4 15 15) (mkPtok 40 "," 6 2 17)) [] (ObjectField (mkSpan (mkPtok 42 "repeatCount" 4 15 15) (mkPtok 40 "," 6 2 17)) None (mkPtok 42 "repeatCount" 4 15 15) None (Some (mkPtok 43 (string_of_bytes [96; 10; 96]%N) 5 4 16)) (mkPtok 40 "," 6 2 17)))] (mkPtok 3 "}" 6 4 18)))])).
Eval vm_compute in ("<<<M2574>>>" ++ check (runes_of_ascii "root packet u128{
    repeat
    zchar[ 65535 ] u `" ++ [28040; 24687; 31867; 22411]%N ++ runes_of_ascii "` }// `tick` ""quote"" 'q'
, packet i64_ {repeatCount
    `
` ,	} // " ++ [128512]%N ++ runes_of_ascii " emoji")).
Eval vm_compute in ("<<<M2606>>>" ++ check (runes_of_ascii "root packet u128{
    repeat
    zchar[ 65535 ] u `" ++ [28040; 24687; 31867; 22411]%N ++ runes_of_ascii "` ,// `tick` ""quote"" 'q'
} packet i64_ {repeatCount")).
Eval vm_compute in ("<<<M2638>>>" ++ check (runes_of_ascii "

roots { int8
    BodyLength ,//	t
}
")).
Eval vm_compute in ("<<<M2670>>>" ++ check (runes_of_ascii "
MetaData
roots { int8
    BodyLength ,//	t
int64
")).
Eval vm_compute in ("<<<M2702>>>" ++ check (runes_of_ascii "options MetaData Packet = ""CRC32""i8i8 = false; leftPad =
    '\x00'
    // `tick` ""quote"" 'q'
    ; o=255  ;
    // packet A { u8 x, }
    }")).
Eval vm_compute in ("<<<M2734>>>" ++ check (runes_of_ascii "options {Packet = ""CRC32""i8i8 = false leftPad =
    '\x00'
    // `tick` ""quote"" 'q'
    ; o=255  ;
    // packet A { u8 x, }
    }")).
Eval vm_compute in ("<<<M2766>>>" ++ check (runes_of_ascii "options {Packet = ""CRC32""i8i8 = false; leftPad =
    '\x00'
    // `tick` ""quote"" 'q'
    ; o 255=  ;
    // packet A { u8 x, }
    }")).
Eval vm_compute in ("<<<M2798>>>" ++ check (runes_of_ascii "options {Packet = @tag""CRC32""i8i8 = false; leftPad =
    '\x00'
    // `tick` ""quote"" 'q'
    ; o=255  ;
    // packet A { u8 x, }
    }")).
Eval vm_compute in ("<<<M2830>>>" ++ check (runes_of_ascii "
packet metadata { @rightPad (
    // packet A { u8 x, }
     ) repeat u32	A
,matchKey ,
    @lengthOf( string_ ) @lengthOf( body )
    // a // b
    @lengthOf(float  )	repeat
int32 u8x
    // c
    `tab	here`
, } // a // b")).
Eval vm_compute in ("<<<M2862>>>" ++ check (runes_of_ascii "
packet metadata { @rightPad (
    // packet A { u8 x, }
    ' ' ) repeat u32	A
,, matchKey
    @lengthOf( string_ ) @lengthOf( body )
    // a // b
    @lengthOf(float  )	repeat
int32 u8x
    // c
    `tab	here`
, } // a // b")).
Eval vm_compute in ("<<<M2894>>>" ++ check (runes_of_ascii "
packet metadata { @rightPad (
    // packet A { u8 x, }
    ' ' ) repeat u32	A
,matchKey ,
    @lengthOf( string_ ) @lengthOf(")).
Eval vm_compute in ("<<<M2926>>>" ++ check (runes_of_ascii "
packet metadata { @rightPad (
    // packet A { u8 x, }
    ' ' ) repeat u32	A
,matchKey ,
    @lengthOf( string_ ) @lengthOf( body )
    // a // b
    @lengthOf(float  )	repeat
int32 u8x u8x
    // c
    `tab	here`
, } // a // b")).
Eval vm_compute in ("<<<M2958>>>" ++ check (runes_of_ascii "
packet metadata { @rightPad (
    // packet A { u8 x, }
    ' ' ) repeat u32	A
,matchKey ,
    @lengthOf( string_ ) @lengthOf( body )
    // a // b
    @lengthOf(float  )	rep" ++ [233]%N ++ runes_of_ascii "eat
int32 u8x
    // c
    `tab	here`
, } // a // b")).
Eval vm_compute in ("<<<M2990>>>" ++ check (runes_of_ascii "packet x{
string")).
Eval vm_compute in ("<<<M3022>>>" ++ check (runes_of_ascii "
 Logon
{ // c
}root packet
    Pad {
    } options
{
u
    =
    ""CRC32""
    // " ++ [128512]%N ++ runes_of_ascii " emoji
    i64_ = u16;
T =65535 x = ' '
    ; u128
= true ; }")).
Eval vm_compute in ("<<<M3054>>>" ++ check (runes_of_ascii "
MetaData Logon
{ // c
}root packet
    { Pad
    } options
{
u
    =
    ""CRC32""
    // " ++ [128512]%N ++ runes_of_ascii " emoji
    i64_ = u16;
T =65535 x = ' '
    ; u128
= true ; }")).
Eval vm_compute in ("<<<M3086>>>" ++ check (runes_of_ascii "
MetaData Logon
{ // c
}root packet
    Pad {
    } options
{
u")).
Eval vm_compute in ("<<<M3118>>>" ++ check (runes_of_ascii "
MetaData Logon
{ // c
}root packet
    Pad {
    } options
{
u
    =
    ""CRC32""
    // " ++ [128512]%N ++ runes_of_ascii " emoji
    i64_ = u16;
T = =65535 x = ' '
    ; u128
= true ; }")).
Eval vm_compute in ("<<<M3150>>>" ++ check (runes_of_ascii "
MetaData Logon
{ // c
}root packet
    Pad {
    } options
{
u
    =
    ""CRC32""
    // " ++ [128512]%N ++ runes_of_ascii " emoji
    i64_ = u16;
T =65535 x = ' '
    ; repeat
= true ; }")).
Eval vm_compute in ("<<<M3182>>>" ++ check (runes_of_ascii "
MetaData Logon
{ // c
}root " ++ [65279]%N ++ runes_of_ascii " packet
    Pad {
    } options
{
u
    =
    ""CRC32""
    // " ++ [128512]%N ++ runes_of_ascii " emoji
    i64_ = u16;
T =65535 x = ' '
    ; u128
= true ; }")).
Eval vm_compute in ("<<<M3214>>>" ++ check (runes_of_ascii "MetaData body{}
packet packet	Packet { x_y_z @calculatedFrom(  ""a\\"")// `tick` ""quote"" 'q'
, }
")).
Eval vm_compute in ("<<<M3246>>>" ++ check (runes_of_ascii "MetaData body{}
packet	Packet { x_y_z @calculatedFrom(  ""a\\""@calculatedFrom(// `tick` ""quote"" 'q'
, }
")).
Eval vm_compute in ("<<<M3278>>>" ++ check (runes_of_ascii "MetaData body{}
packet	" ++ [21517; 23383]%N ++ runes_of_ascii " { x_y_z @calculatedFrom(  ""a\\"")// `tick` ""quote"" 'q'
, }
")).
Eval vm_compute in ("<<<M3310>>>" ++ check (runes_of_ascii "packet f32a {} root packet len len {repeat u // " ++ [128512]%N ++ runes_of_ascii " emoji
`{ , }` , }
")).
Eval vm_compute in ("<<<M3342>>>" ++ check (runes_of_ascii "packet f32a {} root packet len {repeat u // " ++ [128512]%N ++ runes_of_ascii " emoji
`{ , }` ,")).
Eval vm_compute in ("<<<M3374>>>" ++ check (runes_of_ascii "options _x {=""\" ++ [233]%N ++ runes_of_ascii """;
    Logon = 10	; Foo= 7;
i64_= char[]} options {
matchKey = ""// no comment"" // a // b
falsey = string
; trueish =
    4294967296
options1=
    ""it's"" string_	= true } options {
    /// triple
    }")).
Eval vm_compute in ("<<<M3406>>>" ++ check (runes_of_ascii "options{ _x' '""\" ++ [233]%N ++ runes_of_ascii """;
    Logon = 10	; Foo= 7;
i64_= char[]} options {
matchKey = ""// no comment"" // a // b
falsey = string
; trueish =
    4294967296
options1=
    ""it's"" string_	= true } options {
    /// triple
    }")).
Eval vm_compute in ("<<<M3438>>>" ++ check (runes_of_ascii "options{ _x=""\" ++ [233]%N ++ runes_of_ascii """;
    Logon = 10	; Foo= 7;
i64_= char[]} options {
matchKey = ""// no comment"" // a // b
falsey = string")).
Eval vm_compute in ("<<<M3470>>>" ++ check (runes_of_ascii "options{ _x=""\" ++ [233]%N ++ runes_of_ascii """;
    Logon = ;	10 Foo= 7;
i64_= char[]} options {
matchKey = ""// no comment"" // a // b
falsey = string
; trueish =
    4294967296
options1=
    ""it's"" string_	= true } options {
    /// triple
    }")).
Eval vm_compute in ("<<<M3502>>>" ++ check (runes_of_ascii "u80")).
Eval vm_compute in ("<<<M3534>>>" ++ check (runes_of_ascii "matches")).
Eval vm_compute in ("<<<M3566>>>" ++ check (runes_of_ascii "///")).
Eval vm_compute in ("<<<M3598>>>" ++ check (runes_of_ascii "a-b")).
Eval vm_compute in ("<<<M3630>>>" ++ check (runes_of_ascii "packet A { repeat u8 }")).
Eval vm_compute in ("<<<M3662>>>" ++ check (runes_of_ascii "packet A { B { }, }")).
Eval vm_compute in ("<<<M3694>>>" ++ check (runes_of_ascii "packet A { u8 x, @tag(1) }")).
Eval vm_compute in ("<<<M3726>>>" ++ check (runes_of_ascii "options { a = 1; b = 2 c = 3;; }")).
Eval vm_compute in ("<<<M3758>>>" ++ check (runes_of_ascii "/")).
Eval vm_compute in ("<<<M3790>>>" ++ check (runes_of_ascii "char root options u16 zchar[ [ char[] char[] , true uint16")).
Eval vm_compute in ("<<<M3822>>>" ++ check (runes_of_ascii "as ) uint32")).
Eval vm_compute in ("<<<M3854>>>" ++ check (runes_of_ascii "i32 ""x y"" , f32 char[ uint16 char[ @calculatedFrom( repeat ;")).
Eval vm_compute in ("<<<M3886>>>" ++ check (runes_of_ascii "i32 f32 }")).
Eval vm_compute in ("<<<M3918>>>" ++ check (runes_of_ascii "false '0' @tag( @calculatedFrom( float64 u64 float64 u16 ) match ""\n""")).
Eval vm_compute in ("<<<M3950>>>" ++ check (runes_of_ascii "Header @calculatedFrom( MetaData uint32 @tag( true")).
Eval vm_compute in ("<<<M3982>>>" ++ check (runes_of_ascii ") { { true int16 root '0' int8")).
