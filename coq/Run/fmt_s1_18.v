From FP Require Import Lexer Parser ShowPT Digest Formatter.
From Coq Require Import String List NArith.
Import ListNotations.
Open Scope string_scope.
Set Printing Width 100000000.
Set Printing Depth 100000000.
Definition show_fres (r : fres) : string :=
  match r with
  | FOk s => "OK:" ++ sh_escaped s ""
  | FErr s => "ERR:" ++ sh_escaped s ""
  | FPanic p => "PANIC:" ++ p
  end.
Definition check (rs : list rune) : string := digest (show_fres (format_res rs)).
Definition full (rs : list rune) : string := show_fres (format_res rs).
Eval vm_compute in ("<<<M4248>>>" ++ check (runes_of_ascii "packet	Logon

    { 
repeat 
string a1 `crlf
line`,	@lengthOf(	Pad 
)
    match Pad

    as u8x
{ 4294967296 
      //
  	// " ++ [128512]%N ++ runes_of_ascii " emoji
  :	// `tick` ""quote"" 'q'
i8i8, 
}

,
asx
    a1	, 
// a // b
    	// @lengthOf(
    @lengthOf(
body	) 	 //x
  msg_type int ,
tag	`line1
line2`

    ,

repeat
// packet A { u8 x, }

// packet A { u8 x, }
  	Z9_

{
    u16 packetx
	@calculatedFrom( ""it's"" 
) , }  ,@lengthOf(  
  // " ++ [128512]%N ++ runes_of_ascii " emoji
  //	t

Logon  )  // " ++ [128512]%N ++ runes_of_ascii " emoji
		@rightPad (  )

    @calculatedFrom(  """ ++ [233]%N ++ runes_of_ascii "t" ++ [233]%N ++ runes_of_ascii """
	)repeat roots

u128  // `tick` ""quote"" 'q'
,
    @calculatedFrom(  ""{,}"")
chars

{ match// " ++ [128512]%N ++ runes_of_ascii " emoji

  roots
as
Foo

{

10
:
	trueish 
        // trailing space 
  // @lengthOf(
	  , 
}  ,  }
    , i8i8  , @calculatedFrom(	""x y""
	)
@calculatedFrom(

    ""a\""b"" )  repeat	Z9_
    {f32a msg_type
	,

    repeat
o
{ 
    // " ++ [128512]%N ++ runes_of_ascii " emoji
	// @lengthOf(

	zchar[	0]

    charz
	@calculatedFrom(""CRC32""
)
,},}
	, 
}
root
packet  BodyLength
{
calculatedFrom
    { char[] x@calculatedFrom(
""\n"" )  , // @lengthOf(

	_x@calculatedFrom(
""`tick`"" 
)

,

repeat u128
, 
float Packet  `" ++ [28040; 24687; 31867; 22411]%N ++ runes_of_ascii "`  ,	},
repeat Foo
    {	uint64  a1 
	    // `tick` ""quote"" 'q'
	  ,}, /// triple
  repeat
char[ 
42
]  matchKey`it's`

    ,	lengthOf 
{ 	 // " ++ [27880; 37322]%N ++ runes_of_ascii "

u128
	trueish `// not a comment`
	,

    match

chars	as

    MetaDataX { 00	: 
x_y_z

1: 
trueish , [
0123456789
]:  calculatedFrom
,[
	""CRC32"",  ""\" ++ [233]%N ++ runes_of_ascii """
	,	""// no comment""  ,
    ""it's"" ,""packet"" ,  007] :

Pad, 
},
}	/// triple

,repeat
	char[]Logon  // `tick` ""quote"" 'q'
		,
@leftPad
('0' 	 //x
    )

    f32 
Pad	@calculatedFrom(
    ""CRC32"" 
)  , 
@lengthOf(  BodyLength	)
options1

@calculatedFrom(

    ""`tick`"")

    ,
    A{
	    // " ++ [27880; 37322]%N ++ runes_of_ascii "

//	t
	uint8

    charz`u8 x,` 
,falsey

x `line1
line2`
	, repeat
int8	Packet, zchar[1 ]float ,

    }
	,  char[65535]

    matchKey

@calculatedFrom(//
  ""x y""
) // trailing space 
	, @lengthOf(o  //x
)match
chars	as
    As

{
1 :

    f32a	,
	}

,
}packet 
//	t
  // packet A { u8 x, }
  int {  @calculatedFrom(// trailing space 
    	""// no comment""

) @rightPad  ()  @calculatedFrom( """ ++ [233]%N ++ runes_of_ascii "t" ++ [233]%N ++ runes_of_ascii """  )
    roots _x 
  /// triple
	// trailing space 
  `say ""hi""` ,// `tick` ""quote"" 'q'
    }

    options
{
	o
	=

    ""{,}""	Pad =
	255  ;

} // " ++ [27880; 37322]%N ++ runes_of_ascii "
")).
Eval vm_compute in ("<<<M3978>>>" ++ check (runes_of_ascii "packet float {
    @lengthOf(matchKey)
    int64 options1 @calculatedFrom(""{,}"") `it's`,
    repeat i32 msg_type `a\`,
    options1 @calculatedFrom(""it's"") `// not a comment`,
    @lengthOf(roots)
    u8 repeatCount `say ""hi""`,
    int16 len,
    char[] chars @lengthOf(repeatCount),
    @calculatedFrom(""{,}"")
    match body as i64_ {
        ""x y"" : pack,
    },
    A {
        i8i8 @calculatedFrom(""a	b""),
    },
    @leftPad('\x00')
    /// triple
    metadata {
        repeat Foo {
            Z9_ trueish,
        },
    },
    @calculatedFrom(""" ++ [233]%N ++ runes_of_ascii "t" ++ [233]%N ++ runes_of_ascii """)
    @lengthOf(lengthOf)
    @rightPad('\x00')
    repeat char[255] string_ `a\`,
}

MetaData trueish {
    o T,
    char[1] BodyLength `{ , }`,
}

packet Logon {
    @calculatedFrom(""a\\"")
    // `tick` ""quote"" 'q'
    match roots as As {
        255 : stringy,
        [10, """", """ ++ [233]%N ++ runes_of_ascii "t" ++ [233]%N ++ runes_of_ascii """, ""a\""b"", ""\" ++ [233]%N ++ runes_of_ascii """] : _x,
    },
}

packet i64_ {
    @tag(007)
    float32 metadata `two words`,
    match Header as matchKey {
        ""`tick`"" : Pad,
        [
            65535, 10, ""a\""b"", ""a	b"", ""1"",
            ""a\""b"", ""abc"", ""`tick`""
        ] : rootA,
        [255, ""a\""b""] : body,
        // `tick` ""quote"" 'q'
        ""\n"" : stringy,
        [
            0, 65535, 3, 0, 42,
            ""\" ++ [233]%N ++ runes_of_ascii """, ""\" ++ [233]%N ++ runes_of_ascii """, ""1""
        ] : Z9_,
        // a // b
        // @lengthOf(
        ""a\""b"" : string_,
    },
    len MetaDataX,
    u @lengthOf(calculatedFrom) `a\`,
    Foo {
        match crc as asx {
            ""1"" : leftPad,
            """ ++ [128512]%N ++ runes_of_ascii """ : leftPad,
            [""{,}""] : string_,
            ""CRC32"" : crc,
            42 : u,
        },
        match asx as u {
            [4294967296, 1] : zchar,
            //x
        },
        string body,
        // " ++ [128512]%N ++ runes_of_ascii " emoji
        lengthOf asx `two words`,
    },
    charz @calculatedFrom(""abc"") `{ , }`,
    char[0123456789] o @lengthOf(packetx),
}")).
Eval vm_compute in ("<<<M3919>>>" ++ check (runes_of_ascii "MetaData
    falsey  {char[]
	f32a
`" ++ [28040; 24687; 31867; 22411]%N ++ runes_of_ascii "`
    , u8x len  
  /// triple
	// " ++ [128512]%N ++ runes_of_ascii " emoji
`" ++ [233]%N ++ runes_of_ascii "`
    ,
char[]  uint8x 
,

f32
trueish
	,

    char[ 
10

]  len`two words`,
rootA
	int,
    }	root
packet	A 
{
	Z9_,
repeat  MetaDataX
`it's`
	,@tag(
007
)repeat

    options1
A//	t
  ,
repeat x

`line1
line2`
	, 
MetaDataX  
      /// triple
    @lengthOf(options1 ) `say ""hi""`

    ,  }
// trailing space 
      // " ++ [27880; 37322]%N ++ runes_of_ascii "
	  root
    packet  rootA{	@tag(	255 )	char[
    10
]Foo @lengthOf(
    metadata )
`` 
  //
    // " ++ [128512]%N ++ runes_of_ascii " emoji
	  ,  @leftPad(

    '\x00'
) 
msg_type {
	//x
    // a // b
	  float32 	 // packet A { u8 x, }
    Pad 
,	repeat	uint32 Logon  ,}  , @leftPad(
    )stringy

@calculatedFrom(  """ ++ [128512]%N ++ runes_of_ascii """

)  `" ++ [28040; 24687; 31867; 22411]%N ++ runes_of_ascii "`
,
	@tag(

    4294967296
)
	@tag(	4294967296 
)
@lengthOf( 	 // trailing space 
i8i8
    )

BodyLength
{ 
zchar[

    42
]

u128	,crc
{ char[255 ]
Z9_ 
@lengthOf( int
) 
    // packet A { u8 x, }

// " ++ [128512]%N ++ runes_of_ascii " emoji
      ,},

    },
    @tag( //x

  10

) zchar[

    3] //	t
      stringy @calculatedFrom(""\n"" )  // " ++ [27880; 37322]%N ++ runes_of_ascii "
	,
a1	calculatedFrom, } packet	// packet A { u8 x, }
	u8x  {
	x_y_z
@lengthOf(
lengthOf )	`crlf
line`	,

match  uint8x  as repeatCount {  [  ""a\""b"" ,  ""// no comment"" ]

    : 
Header[ ""a\\"" ,  // " ++ [27880; 37322]%N ++ runes_of_ascii "
  	4294967296] :
	roots
    // " ++ [128512]%N ++ runes_of_ascii " emoji
  // " ++ [128512]%N ++ runes_of_ascii " emoji
    ,
    // " ++ [128512]%N ++ runes_of_ascii " emoji

  // @lengthOf(
      42:
rootA
	,
	[  1
    ,
	""""	/// triple
  ,

""`tick`""
,""a	b""

    ]:

    tag 
, ""1""	: u8x 	 // a // b

  ,
	}
    ,
f32a
`a\` 
//x
	  ,
@lengthOf( u8x
	)

    pack	asx ,
uint64

    leftPad
,	repeat
    char[0 
] Pad ,}

")).
Eval vm_compute in ("<<<M467>>>" ++ check (runes_of_ascii "options
{ metadata = char[
4294967296
    ] ;}  packet f32a
{
    match Z9_ as repeatCount
    { 3 : crc
,""{,}"" :pack , }, char[]
calculatedFrom
    @lengthOf( // @lengthOf(
MetaDataX	)
, @calculatedFrom( ""`tick`""
    )// " ++ [128512]%N ++ runes_of_ascii " emoji
x_y_z
    // " ++ [27880; 37322]%N ++ runes_of_ascii "
    , i8 leftPad ,  i8 uint8x @calculatedFrom(
""packet"" ) // trailing space 
`// not a comment`,
@calculatedFrom(""""  ) @tag( 007)	char[ 10
    ] T
    @calculatedFrom(
"""" //
) ,u8x {zchar
    @lengthOf( // packet A { u8 x, }
u )
    `{ , }`
    // c
    , },
    float`say ""hi""`
    ,i64 packetx,@lengthOf(BodyLength ) string  calculatedFrom , } packet
MetaDataX // " ++ [27880; 37322]%N ++ runes_of_ascii "
{ @calculatedFrom( ""{,}"" )
match/// triple
metadata as //
_x
    { ""1""	: // c
uint8x  ,""{,}"" :
falsey } ,} packet // " ++ [27880; 37322]%N ++ runes_of_ascii "
Logon {  o @lengthOf( i8i8 )  , @rightPad ( '0'
)
    int64
msg_type , char calculatedFrom
, @tag( 255 )i8i8  @calculatedFrom( ""x y"" )
    ,i8i8 // @lengthOf(
@calculatedFrom( ""\" ++ [233]%N ++ runes_of_ascii """
    )	, @tag( 0123456789
    ) lengthOf ,@lengthOf( // `tick` ""quote"" 'q'
o ) @tag(
10 )
    match options1 as u{ ""1"" :
Pad  , // c
""\" ++ [233]%N ++ runes_of_ascii """:metadata , // @lengthOf(
} , @tag( // " ++ [128512]%N ++ runes_of_ascii " emoji
1) @tag(
65535 ) @lengthOf( Packet ) repeat T , @tag( 4294967296 )
match x_y_z as uint8x {
""{,}"":uint8x
    7 : metadata, 7: i64_ [""" ++ [233]%N ++ runes_of_ascii "t" ++ [233]%N ++ runes_of_ascii """ ,""CRC32"" , // trailing space 
""packet"" , 00
    ,65535 , ""x y""	, // " ++ [27880; 37322]%N ++ runes_of_ascii "
""packet"" //x
]	:metadata , // packet A { u8 x, }
""packet"" :
    uint8x ,	} , repeat
    x ,	}")).
Eval vm_compute in ("<<<M4381>>>" ++ check (runes_of_ascii "// c

	packet
options1 {
roots 
    // " ++ [128512]%N ++ runes_of_ascii " emoji
  @lengthOf( 
zchar  ) ,

@calculatedFrom(  """ ++ [128512]%N ++ runes_of_ascii """
)
    uint64  //
matchKey
,@tag(
42
    )  i64
        // trailing space 
Logon	@lengthOf(
    i64_
) 	 // `tick` ""quote"" 'q'
  `doc` //x
    , @calculatedFrom( 
""a\""b""	) 
A
,
    @calculatedFrom(
	""it's""
) repeat 
Pad`` , @tag(7
	)zchar[00
    ]trueish `" ++ [233]%N ++ runes_of_ascii "` ,repeat options1
{ repeatCount  {
    Header

,
char[

// " ++ [128512]%N ++ runes_of_ascii " emoji
  // packet A { u8 x, }
7  ] 
Logon
`a\` 
, /// triple
  }
	, }	, 
char[ 
1

]int

`doc`  ,  // a // b
  @calculatedFrom(  """" 
)@calculatedFrom(

""a	b"" ) @lengthOf(
	packetx
)

    msg_type	// trailing space 
    {	string
calculatedFrom
`{ , }` 
    // `tick` ""quote"" 'q'
	,
zchar @calculatedFrom( """ ++ [28040; 24687]%N ++ runes_of_ascii """ 
)  ,
    uint8 
    // " ++ [128512]%N ++ runes_of_ascii " emoji
	// trailing space 
o

    `doc` // " ++ [128512]%N ++ runes_of_ascii " emoji
	,  f32a ,  } ,  //x
    } MetaData
Z9_

    {
char 
A//	t
      , }
packet 	 // trailing space 
    options1
{
msg_type 
{

    chars
    ,
    zchar[ 3

    ]crc

    `doc`,
    },@lengthOf( crc 
)  @tag(10
)@lengthOf( 
asx 
)  zchar[10 ]
Header @calculatedFrom(

""a\\""
    )
`u8 x,` , } packet
    int
{ 
string

x_y_z ,  @calculatedFrom(
""\" ++ [233]%N ++ runes_of_ascii """ )

    match

    pack as
roots {65535 : options1

    ,	// @lengthOf(
		} ,

    } ")).
Eval vm_compute in ("<<<M900>>>" ++ check (runes_of_ascii "options{ x_y_z
=	""" ++ [128512]%N ++ runes_of_ascii """ ;
BodyLength
= 0 a1=""a\\"" ;trueish =
    ""{,}"" ;	} packet	crc { @calculatedFrom( ""CRC32""  ) char[]
    u8x @lengthOf( lengthOf )// " ++ [27880; 37322]%N ++ runes_of_ascii "
`line1
line2` ,
Z9_ int, repeat
    float
    // a // b
    {char[ 00	]
i64_  `` , // c
}
, body
@lengthOf( stringy) // packet A { u8 x, }
`// not a comment`
    ,	} MetaData
u128 { char// " ++ [128512]%N ++ runes_of_ascii " emoji
charz , float64
msg_type	`tab	here`
    ,Logon
stringy `// not a comment` ,	u64 lengthOf ,chars
u8x ,
    string_ crc , } root packet
zchar { @calculatedFrom(""" ++ [28040; 24687]%N ++ runes_of_ascii """ ) @tag(
10
)float32 len
    , } packet calculatedFrom{	repeat
    // " ++ [128512]%N ++ runes_of_ascii " emoji
    int8 zchar, @lengthOf(
    asx ) lengthOf
    @lengthOf(
u ) ,	Header
@lengthOf( rootA )
`it's`  ,@tag( 65535 )  match u8x as
Header { """ ++ [233]%N ++ runes_of_ascii "t" ++ [233]%N ++ runes_of_ascii """
    :matchKey """ ++ [28040; 24687]%N ++ runes_of_ascii """ :x_y_z ,
    0 : trueish, [ """" /// triple
, """ ++ [128512]%N ++ runes_of_ascii """ ,  """ ++ [28040; 24687]%N ++ runes_of_ascii """ , 3 ,
    7// " ++ [128512]%N ++ runes_of_ascii " emoji
, ""`tick`"" ,""""
]
: _x },
    //x
    @leftPad(
' ' ) string_ falsey	`say ""hi""` // " ++ [27880; 37322]%N ++ runes_of_ascii "
, @leftPad (
' ') @rightPad  (
'0' )
    @leftPad( )
match	roots as
a1{ ""packet"" : T }
, @calculatedFrom(
    ""`tick`""
    // " ++ [27880; 37322]%N ++ runes_of_ascii "
    ) @calculatedFrom( ""`tick`"" )
@calculatedFrom(// a // b
""\" ++ [233]%N ++ runes_of_ascii """)
    // a // b
    zchar[0]
    A ,
// " ++ [27880; 37322]%N ++ runes_of_ascii "
//
zchar[ //x
0123456789 ]x ,
    }
")).
Eval vm_compute in ("<<<M479>>>" ++ check (runes_of_ascii "  MetaData tag { lengthOf
Z9_	, } // `tick` ""quote"" 'q'
packet body { @lengthOf( uint8x
    )
zchar[00
// packet A { u8 x, }
//	t
] metadata@lengthOf(
lengthOf)
    , @rightPad ( ) u @lengthOf(	asx )  `{ , }`, roots // `tick` ""quote"" 'q'
{ Foo{
    packetx
    ,
}, match
pack as stringy
    { 65535 : Logon  , """ ++ [233]%N ++ runes_of_ascii "t" ++ [233]%N ++ runes_of_ascii """ :
x_y_z [ """"
    ]
    :	metadata
[ 65535 // a // b
, ""it's""	,
    00 ,// packet A { u8 x, }
""{,}"", ""`tick`"" ,4294967296 , 42, 0 ] // " ++ [27880; 37322]%N ++ runes_of_ascii "
:o ""it's"" : // c
leftPad , } ,
repeat string calculatedFrom ,u64 options1 ,
    }  ,@lengthOf(
// `tick` ""quote"" 'q'
// @lengthOf(
repeatCount )	@tag( 65535
    // trailing space 
    )
@calculatedFrom( ""`tick`"" //
) zchar @lengthOf(crc)
`
`
    // @lengthOf(
    , x_y_z ,
} packet lengthOf // c
{ @leftPad ( '0'
)@lengthOf( uint8x
) @leftPad
//x
/// triple
( ' '	) Foo @calculatedFrom(
""a\""b"") , zchar[
7 ] Z9_
    ,  } packet	crc{ @calculatedFrom( ""{,}""  ) @tag( 3	) @lengthOf(
// packet A { u8 x, }
// c
int
)
    crc charz
, } options { int
=
    '0' ; Packet =
""" ++ [128512]%N ++ runes_of_ascii """ Packet
= ""`tick`"" ;float = char[
    10 ] ; // " ++ [27880; 37322]%N ++ runes_of_ascii "
msg_type
    = char[ 00
    ]}
")).
Eval vm_compute in ("<<<M3593>>>" ++ check (runes_of_ascii "// top
packet // c0
A // c1a
  // c1b
{
    // c2
u8
    // c3
a // c4a
  // c4b
, } packet // c7a
  // c7b
B // c8a
  // c8b
{ // c9a
  // c9b
u16
    // c10
b
    // c11
, // c12a
  // c12b
} packet
    // c14
C // c15a
  // c15b
{ // c16
u32 c
    // c18
, // c19a
  // c19b
}
    // c20
root // c21
packet // c22a
  // c22b
M
    // c23
{ // c24a
  // c24b
u16 // c25
Kc // c26
,
    // c27
u16
    // c28
Kb // c29
, // c30a
  // c30b
u16
    // c31
Ka
    // c32
,
    // c33
match // c34
Kc as
    // c36
X // c37
{
    // c38
9 // c39
:
    // c40
A
    // c41
, 10 // c43
: // c44a
  // c44b
B // c45a
  // c45b
, // c46a
  // c46b
}
    // c47
, // c48a
  // c48b
match Kb // c50
as Y // c52a
  // c52b
{ 2
    // c54
: // c55
C
    // c56
, // c57
1 : A // c60
, // c61
} // c62a
  // c62b
, match // c64a
  // c64b
Ka as
    // c66
Z
    // c67
{ // c68a
  // c68b
1 // c69a
  // c69b
: // c70a
  // c70b
B
    // c71
,
    // c72
} , // c74a
  // c74b
A // c75
, // c76
B , // c78a
  // c78b
C // c79a
  // c79b
, // c80a
  // c80b
} // c81
")).
Eval vm_compute in ("<<<M947>>>" ++ check (runes_of_ascii "packet chars {
    u8 _x@calculatedFrom(
    """ ++ [233]%N ++ runes_of_ascii "t" ++ [233]%N ++ runes_of_ascii """ )
, @lengthOf( stringy //
)
@calculatedFrom( ""a\""b"" ) repeat options1 {body uint8x
`doc` ,
a1 @lengthOf( f32a ) `tab	here` ,
repeat body // `tick` ""quote"" 'q'
{ float64 BodyLength
,
    } ,
    // @lengthOf(
    }  ,@lengthOf(
uint8x ) chars//	t
`crlf
line`
, @lengthOf( // c
crc
    // `tick` ""quote"" 'q'
    )@tag( 4294967296	)	char[] i8i8`tab	here` , char[]x
    `// not a comment` ,repeat string uint8x ,	@calculatedFrom( ""// no comment"" ) @calculatedFrom( ""it's""	)	i8 falsey , int @calculatedFrom( """ ++ [233]%N ++ runes_of_ascii "t" ++ [233]%N ++ runes_of_ascii """ )
,
    // " ++ [27880; 37322]%N ++ runes_of_ascii "
    match u128 as Foo {""" ++ [28040; 24687]%N ++ runes_of_ascii """ :trueish,	[ """ ++ [128512]%N ++ runes_of_ascii """//	t
, ""1"" // a // b
, 42 ,""" ++ [233]%N ++ runes_of_ascii "t" ++ [233]%N ++ runes_of_ascii """ ] // packet A { u8 x, }
:
Pad[0123456789 // packet A { u8 x, }
]:
    repeatCount
007
:calculatedFrom }
,
    // packet A { u8 x, }
    }options { trueish = 10; //x
Packet = true ; u128
= false ; charz	= 007 ;
    // " ++ [27880; 37322]%N ++ runes_of_ascii "
    } options  { Pad = ""`tick`""// packet A { u8 x, }
leftPad = true
// a // b
// " ++ [27880; 37322]%N ++ runes_of_ascii "
charz  = char[] ;	_x = //x
true }

")).
Eval vm_compute in ("<<<M4375>>>" ++ check (runes_of_ascii "
packet f32a
{ @calculatedFrom( ""1""
    )_x{string
        /// triple
  //	t
metadata
	@calculatedFrom(	""`tick`""
) `// not a comment`,
    match // packet A { u8 x, }
      Foo as
len
{42//
:
Z9_ , 	 //x
    }
,	}

    ,	}
packet/// triple
	options1 {	@lengthOf(
    A 
) 
roots @lengthOf(// packet A { u8 x, }
	msg_type 
)
    `line1
line2`

,

    int32 	 /// triple
a1
	`it's`,

@calculatedFrom(
""packet"" )
	repeat

    string
T	,@lengthOf(
i64_ )
@calculatedFrom(

""packet"" )
	@tag(
	007
    ) 
int16 asx @calculatedFrom( 
""it's""
    ) 	 //	t

	`doc`  ,repeat  i32
    charz	,
metadata 	 // packet A { u8 x, }
    `// not a comment` ,	}packet
Logon
{
} options {
}

root
packet 
tag  {
@lengthOf(
    Logon)charz  {
string  stringy

`// not a comment`
    ,  uint64
int,

    char	i64_
`it's` 
    // packet A { u8 x, }
  // a // b
    ,} , 
    //	t
      //
	u8

i64_
    , zchar[ 
1
]
    float , 
}  /// triple")).
Eval vm_compute in ("<<<M3757>>>" ++ check (runes_of_ascii "// c
	packet
	i8i8

{}	packet  string_{ @rightPad

    ( '\x00' //x
    )	int Packet 
,	// a // b
@tag(
    255)matchKey

    ,chars@calculatedFrom(""packet""

    )`
`,
_x @lengthOf( 
u
	),  @tag( // c

	255 )
	asx
Foo

,

string roots
, repeat
    falsey
    {  matchKey {

    match
    Pad
as  i8i8  //x
  {

[ 
00 ,

    7

    ]: u	,1
: BodyLength, 	 // a // b

""// no comment""  :metadata
,
""""
    // @lengthOf(
	  //
	:

    BodyLength
/// triple
	,
	}
, 
} 
,
	A
,
    repeat
	char 
falsey
,	}  ,// packet A { u8 x, }
	_x  u 
`it's`,  @leftPad
    (	'\x00' )

@calculatedFrom(""\n""
	)

match x_y_z	as  metadata
{
""CRC32""
: packetx	// packet A { u8 x, }
    	, ""packet"": 
metadata
1
:
string_ // c

	,[  0

    ,	// " ++ [128512]%N ++ runes_of_ascii " emoji
  10  ] :  // packet A { u8 x, }
  falsey 	 // " ++ [27880; 37322]%N ++ runes_of_ascii "
		,
    },

char[]chars	@lengthOf(

zchar/// triple
	)  `say ""hi""` 
,
	} ")).
Eval vm_compute in ("<<<M1266>>>" ++ check (runes_of_ascii "MetaData
    //	t
    i8i8  {
    u8 string_ `crlf
line` ,} root // trailing space 
packet MetaDataX
{ @rightPad
    //
    ( ' '
)char[] MetaDataX
@lengthOf(
packetx	) ,//	t
} packet packetx	{ @lengthOf(
uint8x )//
trueish`doc`	,
@calculatedFrom(
    ""a\""b""
)
    @rightPad
    (' '
) @calculatedFrom(  ""a\\""
) repeat zchar[7/// triple
]asx	, @tag( 1
) char[3 ] string_
    , string_
@lengthOf(
Logon// a // b
) ,	@rightPad ( // " ++ [128512]%N ++ runes_of_ascii " emoji
'\x00' )@leftPad
//x
// " ++ [128512]%N ++ runes_of_ascii " emoji
(
    // " ++ [128512]%N ++ runes_of_ascii " emoji
    '0' )	repeat
As
    // packet A { u8 x, }
    { trueish { leftPad{i64 crc
,
u8 zchar @lengthOf(
    f32a
)
    // packet A { u8 x, }
    ,
tag @lengthOf( Z9_ )	`// not a comment` , Z9_  _x , }
,// packet A { u8 x, }
char[ 00] Foo `a\` , }	,} , @tag( 7 // packet A { u8 x, }
) char[
    4294967296 ] u128	, }
// packet A { u8 x, }
")).
Eval vm_compute in ("<<<M4558>>>" ++ check (runes_of_ascii "root packet Packet {
    @lengthOf(u128)
    match Foo as metadata {
        [""" ++ [28040; 24687]%N ++ runes_of_ascii """, ""a	b""] : Z9_,
        ""packet"" : metadata,
        [
            0123456789, 10, 4294967296, ""1"", ""1"",
            ""it's"", ""`tick`"", ""{,}""
        ] : As,
        0 : repeatCount,
    },
    match rootA as zchar {
        7 : Logon,
        ""a\\"" : body,
        """ ++ [128512]%N ++ runes_of_ascii """ : T,
        [
            65535, 3, ""1"", ""a\\"", """ ++ [233]%N ++ runes_of_ascii "t" ++ [233]%N ++ runes_of_ascii """,
            ""x y""
        ] : len,
        """ ++ [128512]%N ++ runes_of_ascii """ : o,
    },
    @lengthOf(options1)
    A @calculatedFrom(""a\""b"") `" ++ [233]%N ++ runes_of_ascii "`,/// triple
    @rightPad()
    u64 i8i8 @calculatedFrom(""{,}"") `// not a comment`,
    repeat pack {
        char[] MetaDataX,
    },
    @lengthOf(roots)
    @lengthOf(msg_type)
    @calculatedFrom(""// no comment"")
    char[3] string_ @lengthOf(pack) `doc`,
}")).
Eval vm_compute in ("<<<M4114>>>" ++ check (runes_of_ascii "packet x {
    u16 msg_type @lengthOf(BodyLength),// trailing space 
    @calculatedFrom(""" ++ [28040; 24687]%N ++ runes_of_ascii """)
    repeat Header {
        char[0123456789] repeatCount,
        zchar[7] i64_ @calculatedFrom(""" ++ [28040; 24687]%N ++ runes_of_ascii """),
        repeat T zchar `tab	here`,
    },
    uint8 body `doc`,
    repeat char[] i8i8,
    uint32 f32a @calculatedFrom(""`tick`""),
    @rightPad(' ')
    match rootA as matchKey {
        42 : lengthOf,
        // `tick` ""quote"" 'q'
        ""// no comment"" : Z9_,
        [1, ""a\\""] : len,
        10 : trueish,
    },
    f64 Logon @lengthOf(T) `crlf
    line`,
    match float as i8i8 {
        ""\n"" : i64_,
    },
    @lengthOf(u8x)
    @leftPad('\x00')
    char[007] body `it's`,
    @leftPad('0')
    string crc @calculatedFrom(""a\\"") `" ++ [28040; 24687; 31867; 22411]%N ++ runes_of_ascii "`,
}")).
Eval vm_compute in ("<<<M4321>>>" ++ check (runes_of_ascii "packet Packet {
    asx @lengthOf(metadata) `line1
    line2`,
    @tag(0123456789)
    repeat char tag,
    BodyLength @calculatedFrom(""`tick`""),
    @calculatedFrom(""\" ++ [233]%N ++ runes_of_ascii """)
    tag @calculatedFrom(""" ++ [233]%N ++ runes_of_ascii "t" ++ [233]%N ++ runes_of_ascii """),
    @leftPad()
    match o as T {
        ""CRC32"" : metadata,
        [7, 0123456789, ""CRC32"", ""CRC32"", ""a\\""] : i8i8,
        4294967296 : o,
        [65535] : leftPad,
        00 : charz,
    },
    string_ @calculatedFrom(""\n"") `u8 x,`,
}

root packet Foo {
    @rightPad('0')
    repeat msg_type string_,
}

root packet Z9_ {
    @calculatedFrom(""1"")
    string A,
    repeat x zchar,
    @tag(1)
    @tag(0)
    i64_ float `tab	here`,
    repeat u8 _x ``,
    lengthOf @calculatedFrom(""`tick`""),
}")).
Eval vm_compute in ("<<<M1282>>>" ++ check (runes_of_ascii "options { string_
=
0123456789 ; u=""" ++ [28040; 24687]%N ++ runes_of_ascii """ ; } options { f32a= 1
// " ++ [27880; 37322]%N ++ runes_of_ascii "
//x
;}packet u8x{	float32 A@calculatedFrom( ""`tick`""
    //x
    ) ,i16 o
    `" ++ [233]%N ++ runes_of_ascii "` ,int64 Logon	`
`,@calculatedFrom( ""`tick`"") @tag(
    //x
    42 ) @leftPad
    (	)
    int8
    // a // b
    len
    ,repeat char[3  ] // @lengthOf(
crc , char[] Packet	@lengthOf( pack ) // trailing space 
`" ++ [233]%N ++ runes_of_ascii "` // packet A { u8 x, }
, /// triple
}
// @lengthOf(
// @lengthOf(
packet MetaDataX{ match u8x as Header{0 : body
    //x
    , [  ""\n""
,""\n""
// @lengthOf(
/// triple
, """ ++ [128512]%N ++ runes_of_ascii """
, """ ++ [28040; 24687]%N ++ runes_of_ascii """	, 007// c
]	:
// `tick` ""quote"" 'q'
//x
leftPad, [ ""x y"" ] :
// trailing space 
//
chars[ //	t
10  ,3, ""`tick`"" ]: Header , }
    , }
")).
Eval vm_compute in ("<<<M3596>>>" ++ check (runes_of_ascii "// top
options
    // c0
{ // c1a
  // c1b
FixedStringPadChar // c2a
  // c2b
= // c3a
  // c3b
'0' // c4
; // c5
} // c6
packet // c7
Q
    // c8
{ // c9
zchar[
    // c10
4 // c11a
  // c11b
] // c12
z
    // c13
,
    // c14
@rightPad // c15
( // c16a
  // c16b
'\x00' // c17a
  // c17b
) // c18
char[ 3 // c20
] // c21a
  // c21b
n
    // c22
, char[ // c24
5 ]
    // c26
d // c27
,
    // c28
} root // c30
packet R // c32
{ // c33
Q
    // c34
, // c35
zchar[ // c36
8 // c37a
  // c37b
]
    // c38
top // c39a
  // c39b
, repeat // c41a
  // c41b
zchar[ // c42
2 // c43a
  // c43b
] // c44
zs // c45
, // c46
}
    // c47
")).
Eval vm_compute in ("<<<M1028>>>" ++ check (runes_of_ascii "
options { Packet=' ' BodyLength=
65535 zchar	=
'0'// @lengthOf(
; lengthOf //x
=
    false ;}options {
o
= true ;
Foo
    = ""a\\"";} MetaData chars{
    zchar[
00
// " ++ [128512]%N ++ runes_of_ascii " emoji
//
] // packet A { u8 x, }
A ,
Packet calculatedFrom
    , falsey
options1, int32 x_y_z, char[]
    zchar
// " ++ [128512]%N ++ runes_of_ascii " emoji
// " ++ [128512]%N ++ runes_of_ascii " emoji
, }
    MetaData // " ++ [27880; 37322]%N ++ runes_of_ascii "
_x { stringy f32a
`u8 x,`  ,
} packet f32a
//
// " ++ [27880; 37322]%N ++ runes_of_ascii "
{
    @calculatedFrom(""a\\"" )// " ++ [128512]%N ++ runes_of_ascii " emoji
match a1
as x_y_z
{
    [ """ ++ [233]%N ++ runes_of_ascii "t" ++ [233]%N ++ runes_of_ascii """ , """" ,""" ++ [128512]%N ++ runes_of_ascii """ , ""`tick`"" ,
""x y"" , //	t
""abc""
// `tick` ""quote"" 'q'
// " ++ [27880; 37322]%N ++ runes_of_ascii "
,
    ""\" ++ [233]%N ++ runes_of_ascii """ ,""packet""]	: int
,
    }	,
//
// c
repeat uint16	f32a `crlf
line` , }")).
Eval vm_compute in ("<<<M221>>>" ++ check (runes_of_ascii "packet
matchKey { match Header as chars
{ [ """ ++ [233]%N ++ runes_of_ascii "t" ++ [233]%N ++ runes_of_ascii """ ,0 ]	: body
,
    [
    42,10 ]
    :msg_type
,
""" ++ [128512]%N ++ runes_of_ascii """
: options1 ,7 :
    roots ""\n"" :
    // c
    packetx,	} ,
    zchar[
0 ]
A
@lengthOf(  int )
, char[] Header `
` ,// trailing space 
repeat
    float { repeat
o
    , // `tick` ""quote"" 'q'
repeat
int32 x_y_z `
` , }	,@tag( 0 ) u64 string_ @calculatedFrom(""`tick`"" ) // " ++ [27880; 37322]%N ++ runes_of_ascii "
`two words` , calculatedFrom // " ++ [27880; 37322]%N ++ runes_of_ascii "
{ matchKey
//
// packet A { u8 x, }
, // packet A { u8 x, }
rootA
, } ,
}
    options // " ++ [128512]%N ++ runes_of_ascii " emoji
{ chars =	"""" //
;
    As = true	; Foo =
7	; lengthOf =  ""a\\"" }

")).
Eval vm_compute in ("<<<M377>>>" ++ check (runes_of_ascii "packet float { @leftPad ( ' ' )repeat
metadata falsey
,lengthOf matchKey , int32
roots , int16 Pad@calculatedFrom( // " ++ [128512]%N ++ runes_of_ascii " emoji
""\" ++ [233]%N ++ runes_of_ascii """)
, // a // b
lengthOf
    @calculatedFrom( ""`tick`"")// c
`" ++ [28040; 24687; 31867; 22411]%N ++ runes_of_ascii "` ,
@lengthOf( metadata) i8i8
,@rightPad(
// packet A { u8 x, }
//	t
'0'
) Foo ,
    // trailing space 
    @tag(
10 //
)chars	`
`
    , @tag( 7
)
    // " ++ [128512]%N ++ runes_of_ascii " emoji
    @leftPad ( ) repeat zchar[ 255 ]
u128
, // c
}
    options {//	t
msg_type =
0	; // @lengthOf(
u = ' ' x_y_z =65535 u128 // packet A { u8 x, }
= char[] ; zchar	= zchar[ 3
    ]
; }

")).
Eval vm_compute in ("<<<M482>>>" ++ check (runes_of_ascii "options
{	roots
=
true
; MetaDataX =
    3 ; trueish =10
    } packet
o
    { @tag(
    4294967296 // " ++ [128512]%N ++ runes_of_ascii " emoji
) u8 u`
` ,
    Foo	, }
    //	t
    MetaData matchKey {  } packet
zchar { float@lengthOf(Pad ) , @calculatedFrom(
""" ++ [28040; 24687]%N ++ runes_of_ascii """ )
@tag(007 )
    repeat u16	string_ `" ++ [233]%N ++ runes_of_ascii "` ,@leftPad //	t
(
'\x00'
    ) chars calculatedFrom	, @tag( 0	)	u128 @lengthOf(calculatedFrom ) `two words` , zchar[ 42 ] //	t
i64_
    @lengthOf(//
u128) ``
// trailing space 
// c
,Packet { repeat char[]
    len
, leftPad `line1
line2` ,	}
, }")).
Eval vm_compute in ("<<<M937>>>" ++ check (runes_of_ascii "options
{ u8x =  0123456789
    ;
    } packet rootA {
    i8i8 repeatCount
    ,}
// " ++ [27880; 37322]%N ++ runes_of_ascii "
// a // b
root packet MetaDataX { // @lengthOf(
Logon // " ++ [27880; 37322]%N ++ runes_of_ascii "
{int64 i8i8 @lengthOf(  Header ) ,
    //x
    } ,}	root packet // @lengthOf(
Pad {	roots { i16 Logon
    @calculatedFrom( """ ++ [233]%N ++ runes_of_ascii "t" ++ [233]%N ++ runes_of_ascii """) , match As	as float
{ [ ""packet"" //
, ""// no comment""
    ] : a1
, 65535	: f32a, [
    ""a\""b""
    ,
""// no comment"" , ""a	b"",
    //
    ""a	b"",
""a\\""]
:
x , ""{,}""
:	rootA
,
10
:	msg_type
, } ,
}
    ,
} options {}
")).
Eval vm_compute in ("<<<M3620>>>" ++ check (runes_of_ascii "options {
    StringPrefixLenType = u8;
    ArrayPrefixLenType = u32;
}
packet Quote {
    u32 Ref,
    InNote74 {
        u8 pad0,
    },
}
packet Ack {
    repeat string OrderId,
}
packet Logout {
    zchar[7] venue,
    char[12] Px,
    string count,
    char[] Tail,
    char[] Qty,
    Quote,
}
root packet Trade {
    zchar[2] price,
    u32 x,
    u32 lastPx @lengthOf(Body),
    match x as Body {
        148 : Ack,
        171 : Quote,
        15 : Logout,
    },
}
")).
Eval vm_compute in ("<<<M3625>>>" ++ check (runes_of_ascii "  options{LittleEndian  = true  ; StringPrefixLenType
= u16

    ;
	ArrayPrefixLenType 
=u64;
    }packet

    Fill
{
	}packet	Logon {
repeat
char[

3

]Tail
,
zchar[6	] venue,	repeat
string
Side2
    , }root
packet Cancel	{ 
char[]
    Flags  ,
	char[] OrderId
,
    zchar[

6]
msgKind , Fill
	,
char[] Acct
,  u8

    f1

, match
f1
	as  Body

    {
	188

    : Fill
, 5
	:
Logon

, 
}  ,
	u32
	clOrdID
@calculatedFrom(  ""CRC32""
)  ,}

")).
Eval vm_compute in ("<<<M464>>>" ++ check (runes_of_ascii "options {zchar
    =
""packet"";o = ""CRC32"" ; len
= """" ;
}packet roots {// @lengthOf(
char
// `tick` ""quote"" 'q'
//x
f32a , } root packet
    x { char[ 7 ]
pack // " ++ [27880; 37322]%N ++ runes_of_ascii "
,	}  packet x { zchar[
// `tick` ""quote"" 'q'
// @lengthOf(
1
    ] A
@calculatedFrom( ""a\""b""
/// triple
// trailing space 
) , repeat metadata
Foo , u8x
lengthOf ,A Header, @calculatedFrom( ""CRC32"" )
@calculatedFrom(/// triple
""""  )
@leftPad ( '\x00' ) pack x_y_z,
}
")).
Eval vm_compute in ("<<<M4324>>>" ++ check (runes_of_ascii "  root packet

roots  {
    falsey
@calculatedFrom(  ""a\""b""

),@lengthOf( A

    )  Header
@calculatedFrom(
	""packet""  )
    `u8 x,`
	, @leftPad (' ' 
)
	@lengthOf(

    calculatedFrom
) 
	    // `tick` ""quote"" 'q'
// packet A { u8 x, }
match rootA as x_y_z { 42  :  
      //	t
len, }	,
	}

    options  //x
	{
chars	=  // c
    4294967296 ; BodyLength	=

0123456789
roots
    =

    ""a\""b""  ;  }  //
 
")).
Eval vm_compute in ("<<<M704>>>" ++ check (runes_of_ascii "
packet
matchKey { @calculatedFrom( """ ++ [28040; 24687]%N ++ runes_of_ascii """
) @lengthOf(
lengthOf ) @calculatedFrom( """ ++ [28040; 24687]%N ++ runes_of_ascii """
) match
    /// triple
    trueish as options1// trailing space 
{ 42
:matchKey,} , // " ++ [128512]%N ++ runes_of_ascii " emoji
i64
// trailing space 
//x
u8x , }MetaData float
    { options1 u8x// " ++ [27880; 37322]%N ++ runes_of_ascii "
, options1
//
//
x	, string u `it's` , pack Header `u8 x,` ,
char[] i64_ , } options{ } packet o  { } //
MetaData
    //	t
    MetaDataX
{  }
")).
Eval vm_compute in ("<<<M3308>>>" ++ check (runes_of_ascii "// top
root
    // c0
packet
    // c1
matchKey
    // c2
{
    // c3
zchar[
    // c4
3
    // c5
]
    // c6
pack
    // c7
@calculatedFrom(
    // c8
""a	b""
    // c9
)
    // c10
`doc`
    // c11
,
    // c12
}
    // c13
options
    // c14
{
    // c15
}
    // c16
MetaData
    // c17
A
    // c18
{
    // c19
int8
    // c20
msg_type
    // c21
,
    // c22
}
    // c23
")).
Eval vm_compute in ("<<<M175>>>" ++ check (runes_of_ascii "packet f32a
{
    repeat calculatedFrom u128//	t
,
    T @calculatedFrom( ""a\\"" ) `crlf
line` ,
string /// triple
charz, @leftPad (
    //x
    ) repeat
pack // a // b
T
    ,	}MetaData
charz { } packet	i8i8{A
x ,match A
as
leftPad { ""abc""	: msg_type , ""a	b""
    //	t
    :
    T }	,f64 i8i8
    ,
char charz`" ++ [233]%N ++ runes_of_ascii "`
    // `tick` ""quote"" 'q'
    ,} // " ++ [128512]%N ++ runes_of_ascii " emoji")).
Eval vm_compute in ("<<<M1300>>>" ++ check (runes_of_ascii "packet
Foo	{ @lengthOf(options1
    // trailing space 
    )  zchar[ 255
] matchKey , string i64_// " ++ [128512]%N ++ runes_of_ascii " emoji
,  @lengthOf( len ) char
Z9_ // " ++ [27880; 37322]%N ++ runes_of_ascii "
`" ++ [233]%N ++ runes_of_ascii "`
,
// `tick` ""quote"" 'q'
// a // b
char[7 ]metadata @calculatedFrom( ""a\\"")`doc`
    ,
falsey ,@rightPad (
'\x00'  )u64 rootA`crlf
line`
//x
// " ++ [128512]%N ++ runes_of_ascii " emoji
, @calculatedFrom( ""it's""
    ) f64 i64_ ,}")).
Eval vm_compute in ("<<<M4596>>>" ++ check (runes_of_ascii "root packet BodyLength {
    uint16 As `crlf
        line`,
}

packet A {
    @calculatedFrom(""{,}"")
    f32 trueish `// not a comment`,// `tick` ""quote"" 'q'
}

packet i8i8 {
    zchar[007] leftPad,
    @tag(10)
    tag @lengthOf(o),
    float64 T,
    @calculatedFrom(""a\""b"")
    string uint8x @calculatedFrom(""abc"") `two words`,
}")).
Eval vm_compute in ("<<<M570>>>" ++ check (runes_of_ascii "options {
i64_  = char[
    65535 ]
T = '0' } packet
crc{@calculatedFrom(
""abc"" )zchar[ 007 ] //
msg_type
@lengthOf( Header)  , repeat int8 string_
`crlf
line`
,tag@lengthOf( BodyLength ) ,  }
    // trailing space 
    options
    {
    //
    matchKey =
// c
// c
""" ++ [128512]%N ++ runes_of_ascii """	; /// triple
asx =' '	; crc
    = true
;
    }")).
Eval vm_compute in ("<<<M1961>>>" ++ check (runes_of_ascii "MetaData
    u { }  options {
// c
// @lengthOf(
float = int8 ;rootA =false ; As =	int16 // `tick` ""quote"" 'q'
repeatCount
    // trailing space 
    =
    int16
; u8x u8x =
    //	t
    '\x00' ; } options	{
    repeatCount
= 0
u128
    //
    = false ; i64_
// trailing space 
// `tick` ""quote"" 'q'
= '0' ; //	t
}
")).
Eval vm_compute in ("<<<M2001>>>" ++ check (runes_of_ascii "MetaData
    u { }  options {
// c
// @lengthOf(
float = int8 ;rootA =false ; As =	int16 // `tick` ""quote"" 'q'
repeatCount
    // trailing space 
    =
    int16
; u8x =
    //	t
    '\x00' ; } options	{
    repeatCount
= = 0
u128
    //
    = false ; i64_
// trailing space 
// `tick` ""quote"" 'q'
= '0' ; //	t
}
")).
Eval vm_compute in ("<<<M1328>>>" ++ check (runes_of_ascii "MetaData Pad
{	roots	f32a , char[ 10
// trailing space 
//	t
] u8x	, //	t
calculatedFrom
A , }
packet leftPad	{ roots// " ++ [27880; 37322]%N ++ runes_of_ascii "
@lengthOf(
string_) `two words`
,@tag(
255
)match o as options1	{ [
    0 //
, ""1""
,
""" ++ [128512]%N ++ runes_of_ascii """
//x
//	t
,42 ]
    :
    //
    i8i8
    , } , /// triple
repeatCount msg_type , }	options
{
    }")).
Eval vm_compute in ("<<<M1997>>>" ++ check (runes_of_ascii "MetaData
    u { }  options {
// c
// @lengthOf(
float = int8 ;rootA =false ; As =	int16 // `tick` ""quote"" 'q'
repeatCount
    // trailing space 
    =
    int16
; u8x =
    //	t
    '\x00' ; } options	{
    =
repeatCount 0
u128
    //
    = false ; i64_
// trailing space 
// `tick` ""quote"" 'q'
= '0' ; //	t
}
")).
Eval vm_compute in ("<<<M2005>>>" ++ check (runes_of_ascii "MetaData
    u { }  options {
// c
// @lengthOf(
float = int8 ;rootA =false ; As =	int16 // `tick` ""quote"" 'q'
repeatCount
    // trailing space 
    =
    int16
; u8x =
    //	t
    '\x00' ; } options	{
    repeatCount
= 
u128
    //
    = false ; i64_
// trailing space 
// `tick` ""quote"" 'q'
= '0' ; //	t
}
")).
Eval vm_compute in ("<<<M1970>>>" ++ check (runes_of_ascii "MetaData
    u { }  options {
// c
// @lengthOf(
float = int8 ;rootA =false ; As =	int16 // `tick` ""quote"" 'q'
repeatCount
    // trailing space 
    =
    int16
; u8x =
    //	t
     ; } options	{
    repeatCount
= 0
u128
    //
    = false ; i64_
// trailing space 
// `tick` ""quote"" 'q'
= '0' ; //	t
}
")).
Eval vm_compute in ("<<<M1340>>>" ++ check (runes_of_ascii "  root
// `tick` ""quote"" 'q'
//
packet
    T
    {	@rightPad (	) @calculatedFrom( ""it's""
) int A, match
    Packet as Packet { 0123456789 : u128 ,// c
""a\\"" : Foo , 1:// @lengthOf(
int , [
    // " ++ [128512]%N ++ runes_of_ascii " emoji
    7, 4294967296 , ""\n"" ,
""abc""	,
""abc"",
""\" ++ [233]%N ++ runes_of_ascii """] : msg_type }, }
    options
{ zchar  =
' ' ; }
")).
Eval vm_compute in ("<<<M3704>>>" ++ check (runes_of_ascii "// trailing space 
root packet x_y_z {
    @leftPad()
    repeat rootA {
        BodyLength body `
                `,
        u8 leftPad @calculatedFrom(""1"") ``,
        char[007] i64_,
    },
    u32 zchar `line1
        line2`,
    char[10] i8i8 @calculatedFrom(""" ++ [233]%N ++ runes_of_ascii "t" ++ [233]%N ++ runes_of_ascii """),
}

packet a1 {
}")).
Eval vm_compute in ("<<<M556>>>" ++ check (runes_of_ascii "options {
    uint8x= 3	;
    crc= 42 Logon  = '\x00' falsey= false }  root
    packet zchar {int16// trailing space 
u, } root packet
Header {@rightPad ( ' ' )@lengthOf( a1 )repeat body, zchar[
65535 ] string_ // `tick` ""quote"" 'q'
@lengthOf( MetaDataX ) , // @lengthOf(
}
")).
Eval vm_compute in ("<<<M3876>>>" ++ check (runes_of_ascii "packet MDSnapshotZZ {
    u8 a,
}

packet OrderACK {
    u16 b,
}

packet HTTPServerInfo {
    string s,
}

root packet FIXMsg {
    u8 KType,
    MDSnapshotZZ,
    repeat OrderACK,
    match KType as Body {
        1 : HTTPServerInfo,
        2 : OrderACK,
    },
}")).
Eval vm_compute in ("<<<M1635>>>" ++ check (runes_of_ascii "packet
//	t
// trailing space 
_x {
// packet A { u8 x, }
// c
char[
3
    ] u8x @lengthOf(
u8x ) , @calculatedFrom(""" ++ [128512]%N ++ runes_of_ascii """ // @lengthOf(
)
i16	Foo
@lengthOf(	string_
    )`doc`	, repeat	i64 metadata , @lengthOf( string_
) i8 // c
@leftPad  `line1
line2`	,
}
")).
Eval vm_compute in ("<<<M1520>>>" ++ check (runes_of_ascii "packet
//	t
// trailing space 
_x {
// packet A { u8 x, }
// c
char[
3
    ] uint8 @lengthOf(
u8x ) , @calculatedFrom(""" ++ [128512]%N ++ runes_of_ascii """ // @lengthOf(
)
i16	Foo
@lengthOf(	string_
    )`doc`	, repeat	i64 metadata , @lengthOf( string_
) i8 // c
u  `line1
line2`	,
}
")).
Eval vm_compute in ("<<<M1671>>>" ++ check (runes_of_ascii "packet
//	t
// trailing space 
_x {
// packet A { u8 x, }
// c
char[
3
    ] u8x @lengthOf(
u8x ) , @calculatedFrom(""" ++ [128512]%N ++ runes_of_ascii """ // @lengthOf(
)
i16	" ++ [252]%N ++ runes_of_ascii "ber
@lengthOf(	string_
    )`doc`	, repeat	i64 metadata , @lengthOf( string_
) i8 // c
u  `line1
line2`	,
}
")).
Eval vm_compute in ("<<<M1604>>>" ++ check (runes_of_ascii "packet
//	t
// trailing space 
_x {
// packet A { u8 x, }
// c
char[
3
    ] u8x @lengthOf(
u8x ) , @calculatedFrom(""" ++ [128512]%N ++ runes_of_ascii """ // @lengthOf(
)
i16	Foo
@lengthOf(	string_
    )`doc`	, repeat	i64 , metadata @lengthOf( string_
) i8 // c
u  `line1
line2`	,
}
")).
Eval vm_compute in ("<<<M1284>>>" ++ check (runes_of_ascii "/// triple
packet BodyLength { @calculatedFrom( ""packet"" ) //x
char[]
    options1 @calculatedFrom( ""\" ++ [233]%N ++ runes_of_ascii """ )
,zchar[ 255 // " ++ [128512]%N ++ runes_of_ascii " emoji
] metadata , }options	{ int =	'\x00'; stringy =
false
    T
    // " ++ [128512]%N ++ runes_of_ascii " emoji
    =
    0 trueish
    =
    //	t
    10
}
")).
Eval vm_compute in ("<<<M1118>>>" ++ check (runes_of_ascii "MetaData
tag
    // `tick` ""quote"" 'q'
    { u16
    BodyLength , packetx
f32a
//
// packet A { u8 x, }
, } root packet	Packet {
    char[ 42 ]
    // c
    A //x
, } packet calculatedFrom { repeat rootA { char[ 0123456789
    ] u128,}
, }
")).
Eval vm_compute in ("<<<M4116>>>" ++ check (runes_of_ascii "
root 
packet // `tick` ""quote"" 'q'
metadata {

uint64// @lengthOf(
	rootA
`it's`  ,} packet  Header {
} 
options

{

    Z9_  // @lengthOf(
      =
	255

    ;

metadata=	int32;
trueish=
	' '
;i64_ ='\x00'	stringy  =

    00 
}
")).
Eval vm_compute in ("<<<M3899>>>" ++ check (runes_of_ascii "MetaData a1 {
    u8 u8x,
}

options {
    float = '0';
    // @lengthOf(
    pack = string;
}

MetaData packetx {
    tag Foo `
        `,
    uint8x asx,
    uint16 body,
    T x,
    float a1 `
        `,
    matchKey crc,
}")).
Eval vm_compute in ("<<<M3666>>>" ++ check (runes_of_ascii "packet _x {
    // packet A { u8 x, }
    // c
    char[3] u8x @lengthOf(u8x),
    @calculatedFrom(""" ++ [128512]%N ++ runes_of_ascii """)
    i16 Foo @lengthOf(string_) `doc`,
    repeat i64 metadata,
    @lengthOf(string_)
    i8 u `line1
    line2`,
}")).
Eval vm_compute in ("<<<M1682>>>" ++ check (runes_of_ascii "options { trueish trueish = ""`tick`"" ; string_= """ ++ [233]%N ++ runes_of_ascii "t" ++ [233]%N ++ runes_of_ascii """
    // c
    } root
    packet body { stringy @calculatedFrom(
""a	b"" ) `line1
line2` , }
packet Logon {
    @leftPad(
    ' ' ) //	t
u16 string_ `u8 x,` ,
}
")).
Eval vm_compute in ("<<<M4016>>>" ++ check (runes_of_ascii "  MetaData

    Header

{
A
    float
	, } 
MetaData Pad

{  // trailing space 
    string  float	`a\` ,char[]

    tag
, 
	    // packet A { u8 x, }
	matchKey 
BodyLength

,
	char[
65535
]
	Header , 
}
")).
Eval vm_compute in ("<<<M1839>>>" ++ check (runes_of_ascii "options { trueish = ""`tick`"" ; string_= """ ++ [233]%N ++ runes_of_ascii "t" ++ [233]%N ++ runes_of_ascii """
    // c
    } root
    packet body { stringy @calculatedFrom(
""a	b"" ) `line1
line2` , $ }
packet Logon {
    @leftPad(
    ' ' ) //	t
u16 string_ `u8 x,` ,
}
")).
Eval vm_compute in ("<<<M1703>>>" ++ check (runes_of_ascii "options { trueish = ""`tick`"" ; =string_ """ ++ [233]%N ++ runes_of_ascii "t" ++ [233]%N ++ runes_of_ascii """
    // c
    } root
    packet body { stringy @calculatedFrom(
""a	b"" ) `line1
line2` , }
packet Logon {
    @leftPad(
    ' ' ) //	t
u16 string_ `u8 x,` ,
}
")).
Eval vm_compute in ("<<<M1149>>>" ++ check (runes_of_ascii "MetaData // packet A { u8 x, }
lengthOf
{ msg_type
// `tick` ""quote"" 'q'
// " ++ [128512]%N ++ runes_of_ascii " emoji
metadata , float32 matchKey`" ++ [28040; 24687; 31867; 22411]%N ++ runes_of_ascii "`//
,
int32 body , zchar[ 0123456789
    ] uint8x  , float32 int , int16 body , } //	t")).
Eval vm_compute in ("<<<M1855>>>" ++ check (runes_of_ascii "options { trueish = ""`tick`"" ; a" ++ [769]%N ++ runes_of_ascii "b= """ ++ [233]%N ++ runes_of_ascii "t" ++ [233]%N ++ runes_of_ascii """
    // c
    } root
    packet body { stringy @calculatedFrom(
""a	b"" ) `line1
line2` , }
packet Logon {
    @leftPad(
    ' ' ) //	t
u16 string_ `u8 x,` ,
}
")).
Eval vm_compute in ("<<<M776>>>" ++ check (runes_of_ascii "  options // c
{x_y_z =
    f64 } // " ++ [27880; 37322]%N ++ runes_of_ascii "
root
    packet As {@tag( 255	)string BodyLength ,
    @leftPad	(
) match Foo as
    body {007: i8i8 , 42 :
metadata
    , // @lengthOf(
"""" :
body, }
, }

")).
Eval vm_compute in ("<<<M1825>>>" ++ check (runes_of_ascii "options { trueish = ""`tick`"" ; string_= """ ++ [233]%N ++ runes_of_ascii "t" ++ [233]%N ++ runes_of_ascii """
    // c
    } root
    packet body { stringy @calculatedFrom(
""a	b"" ) `line1
line2` , }
packet Logon {
    @leftPad(
    ' ' ) //	t
u16 string_")).
Eval vm_compute in ("<<<M3361>>>" ++ check (runes_of_ascii "// top
packet
    // c0
x
    // c1
{
    // c2
@rightPad
    // c3
(
    // c4
)
    // c5
repeat
    // c6
roots
    // c7
Logon
    // c8
`doc`
    // c9
,
    // c10
}
    // c11
")).
Eval vm_compute in ("<<<M4544>>>" ++ check (runes_of_ascii "packet A {
    match k as n {
        [
            ""a"", ""bb"", ""c c"", ""d"", ""e"",
            ""f"", ""g"", ""h"", ""i"", ""j"",
            ""k"", ""l""
        ] : B,
        2 : C,
    },
}")).
Eval vm_compute in ("<<<M4177>>>" ++ check (runes_of_ascii "packet A {
    match k as n {
        [
            007, 66, 9, 12, ""a"",
            ""bb"", ""d"", ""e"", ""g"", ""h"",
            ""j"", ""k""
        ] : B,
        2 : C,
    },
}")).
Eval vm_compute in ("<<<M2417>>>" ++ check (runes_of_ascii "// c
packet x { @lengthOf( metadata ) repeat lengthOf lengthOf
,a1{
trueish	,// c
repeat//	t
MetaDataX , } , zchar[
    42	] rootA // `tick` ""quote"" 'q'
,
    }
")).
Eval vm_compute in ("<<<M4182>>>" ++ check (runes_of_ascii "
root
packet matchKey
	{

    zchar[  3
]

pack  // c
  	@calculatedFrom(""a	b""	)
`doc` 
,
	}

    options

    { }
MetaData A
	{	int8
	msg_type

,
}
")).
Eval vm_compute in ("<<<M2344>>>" ++ check (runes_of_ascii "// c
packet x {'1' @lengthOf( metadata ) repeat lengthOf
,a1{
trueish	,// c
repeat//	t
MetaDataX , } , zchar[
    42	] rootA // `tick` ""quote"" 'q'
,
    }
")).
Eval vm_compute in ("<<<M2312>>>" ++ check (runes_of_ascii "// c
packet x { @lengthOf( metadata ) repeat ,
lengthOf a1{
trueish	,// c
repeat//	t
MetaDataX , } , zchar[
    42	] rootA // `tick` ""quote"" 'q'
,
    }
")).
Eval vm_compute in ("<<<M2330>>>" ++ check (runes_of_ascii "// c
packet x { @lengthOf( metadata ) repeat lengthOf
,a1{
trueish	,// c
repeat//	t
, MetaDataX } , zchar[
    42	] rootA // `tick` ""quote"" 'q'
,
    }
")).
Eval vm_compute in ("<<<M2339>>>" ++ check (runes_of_ascii "// c
packet x { @lengthOf( metadata ) repeat lengthOf
,a1{
trueish	,// c
repeat//	t
MetaDataX , }  zchar[
    42	] rootA // `tick` ""quote"" 'q'
,
    }
")).
Eval vm_compute in ("<<<M2161>>>" ++ check (runes_of_ascii "options{
_x
= true
} options
{ o	= /// triple
false
    ; chars
= ""\n"" } root Pad	packet
/// triple
// packet A { u8 x, }
{	chars
    // a // b
    ,}")).
Eval vm_compute in ("<<<M398>>>" ++ check (runes_of_ascii "root packet chars {
@lengthOf( a1
// packet A { u8 x, }
//	t
) Z9_ msg_type `it's` , @lengthOf(	calculatedFrom ) //
repeat calculatedFrom `{ , }`
, }")).
Eval vm_compute in ("<<<M3724>>>" ++ check (runes_of_ascii "
root  packet Foo

{@rightPad	(
'\x00'
    )
Header  
      // " ++ [27880; 37322]%N ++ runes_of_ascii "
    	Pad  `tab	here`
    ,
	@rightPad
( '\x00'
	)  zchar[ 1

    ] x_y_z  ,  }")).
Eval vm_compute in ("<<<M2371>>>" ++ check (runes_of_ascii "// c
packet x { } metadata ) repeat lengthOf
,a1{
trueish	,// c
repeat//	t
MetaDataX , } , zchar[
    42	] rootA // `tick` ""quote"" 'q'
,
    }
")).
Eval vm_compute in ("<<<M3809>>>" ++ check (runes_of_ascii "packet
Z9_  {  @tag(
00
) @tag(	7

    )
@lengthOf( 
    //x
		Logon) 
zchar[ 0123456789	] x_y_z@calculatedFrom(

    ""a\\""
    ) 
, }")).
Eval vm_compute in ("<<<M564>>>" ++ check (runes_of_ascii "MetaData options1  { lengthOf As , char[ 255
]crc
    , char[] leftPad , As
//	t
//
leftPad , uint16 u128 , f32 //
x `{ , }` ,
}
//	t
")).
Eval vm_compute in ("<<<M298>>>" ++ check (runes_of_ascii "MetaData  metadata
{	char[65535]	x ,
    // c
    char[]
    u128, pack Z9_ , }
    packet // " ++ [27880; 37322]%N ++ runes_of_ascii "
a1{ repeat float repeatCount, }
")).
Eval vm_compute in ("<<<M1471>>>" ++ check (runes_of_ascii "
packet
    falsey { Header@calculatedFrom(""packet""  ) , char[
    0123456789 ] @leftpadpacketx
    , } // `tick` ""quote"" 'q'")).
Eval vm_compute in ("<<<M807>>>" ++ check (runes_of_ascii "options { }
options {
pack =false; Z9_//
= false ;} packet Pad { }
packet u8x
{ repeat// " ++ [128512]%N ++ runes_of_ascii " emoji
matchKey packetx
, } //x")).
Eval vm_compute in ("<<<M3323>>>" ++ check (runes_of_ascii "root packet matchKey { zchar[ 3
// c
] pack @calculatedFrom( ""a	b"" ) `doc` , } options { } MetaData A { int8 msg_type , }")).
Eval vm_compute in ("<<<M3355>>>" ++ check (runes_of_ascii "root packet matchKey { zchar[ 3 ] pack @calculatedFrom( ""a	b"" ) `doc` , } options { } MetaData A { int8 msg_type
// c
, }")).
Eval vm_compute in ("<<<M1478>>>" ++ check (runes_of_ascii "
packet
    falsey { Header@calcul" ++ [8232]%N ++ runes_of_ascii "atedFrom(""packet""  ) , char[
    0123456789 ] packetx
    , } // `tick` ""quote"" 'q'")).
Eval vm_compute in ("<<<M3957>>>" ++ check (runes_of_ascii "
packet

B{	u8 
a
	, } root 
packet P
    {
	u8
K,u8

L

    @lengthOf( Body	)

,
match	K	as  Body{1 :  B,  } ,}

")).
Eval vm_compute in ("<<<M4447>>>" ++ check (runes_of_ascii "// top
MetaData float {
    float64 charz `
    `,
}

root packet chars {
    @rightPad('0')
    // c15
    Foo,
}")).
Eval vm_compute in ("<<<M4432>>>" ++ check (runes_of_ascii "
options {

options1
    = char[
	00 ]
    ;
	len =
    """ ++ [128512]%N ++ runes_of_ascii """	;
a1=

    42
Header
=
' '
	}
packet Foo
{

}
")).
Eval vm_compute in ("<<<M2994>>>" ++ check (runes_of_ascii "packet A {
  match k as n {
    [""a"", 22, ""c c"", 4, ""e"", 66, ""g"", 8, ""i"", 10, ""k"", 12] : B,
    2 : C
  },
}")).
Eval vm_compute in ("<<<M505>>>" ++ check (runes_of_ascii "options // a // b
{
    crc = '0'  ;_x=""a\""b""
trueish
    = char[1  ] charz// c
= 00 ;As =// c
""a\""b"" }
")).
Eval vm_compute in ("<<<M2951>>>" ++ check (runes_of_ascii "packet A {
  match k as n {
    [""a"", ""bb"", ""c c"", ""d"", ""e"", ""f"", ""g"", ""h"", ""i""] : B,
    2 : C
  },
}")).
Eval vm_compute in ("<<<M3034>>>" ++ check (runes_of_ascii "packet A {
    Inner {
        u8 x `x
`,
        Deep {
            u8 y `x
`,
        },
    },
}")).
Eval vm_compute in ("<<<M2421>>>" ++ check (runes_of_ascii "// c
packet x { @lengthOf( metadata ) repeat lengthOf
,a1{
trueish	,// c
repeat//	t
MetaDataX ,")).
Eval vm_compute in ("<<<M2970>>>" ++ check (runes_of_ascii "packet A {
  match k as n {
    [1, 22, ""c c"", 4, 5, ""f"", 7, 8, ""i"", 10] : B,
    2 : C
  },
}")).
Eval vm_compute in ("<<<M2215>>>" ++ check (runes_of_ascii "options
""it's"" } options { BodyLength= u16 Header= f64 ; u128 =
    true
    ; } // a // b")).
Eval vm_compute in ("<<<M654>>>" ++ check (runes_of_ascii "options {Pad = ""a	b""
    ;
//
// `tick` ""quote"" 'q'
u
= '\x00'
;lengthOf
= ' '
    ; }
")).
Eval vm_compute in ("<<<M3291>>>" ++ check (runes_of_ascii "MetaData float { float64 charz `
` , } root packet chars { // c
@rightPad ( '0' ) Foo , }")).
Eval vm_compute in ("<<<M3502>>>" ++ check (runes_of_ascii "packet chars { } packet MetaDataX { @tag( 42
// c
) i16 string_ , repeat x `say ""hi""` , }")).
Eval vm_compute in ("<<<M2287>>>" ++ check (runes_of_ascii "options
{ } options { BodyLength= u16 Header= f64 ; u128 =
    true
    ; } } // a // b")).
Eval vm_compute in ("<<<M3170>>>" ++ check (runes_of_ascii "packet A { match k as n // a
 { // b
 1 // c
 : // d
 B // e
 , // f
 } // g
 , // h
 }")).
Eval vm_compute in ("<<<M2283>>>" ++ check (runes_of_ascii "options
{ } options { BodyLength= u16 Header= f64 ; u128 =
    true
    } ; // a // b")).
Eval vm_compute in ("<<<M3241>>>" ++ check (runes_of_ascii "packet metadata { Logon { A `" ++ [28040; 24687; 31867; 22411]%N ++ runes_of_ascii "` , tag o , } , zchar len // c
`// not a comment` , }")).
Eval vm_compute in ("<<<M3429>>>" ++ check (runes_of_ascii "packet // c
o { repeat Logon uint8x , } options { asx = zchar[ 3 ] stringy = '\x00' }")).
Eval vm_compute in ("<<<M3461>>>" ++ check (runes_of_ascii "packet o { repeat Logon uint8x , } options { asx = zchar[ 3 ] stringy = // c
'\x00' }")).
Eval vm_compute in ("<<<M2279>>>" ++ check (runes_of_ascii "options
{ } options { BodyLength= u16 Header= f64 ; u128 =
    [
    ; } // a // b")).
Eval vm_compute in ("<<<M3406>>>" ++ check (runes_of_ascii "MetaData body { i64 pack `it's` , // c
} packet stringy { int16 calculatedFrom , }")).
Eval vm_compute in ("<<<M413>>>" ++ check (runes_of_ascii "options
    {
    Foo =  u16
;
    As
=
char lengthOf = 00 As =
false ;
    }
")).
Eval vm_compute in ("<<<M768>>>" ++ check (runes_of_ascii "// " ++ [27880; 37322]%N ++ runes_of_ascii "
options
{ u8x  = zchar[0
] ; len
    =
    ' ';
    leftPad =false;
} 	 ")).
Eval vm_compute in ("<<<M566>>>" ++ check (runes_of_ascii "packet
    o{  stringy
@calculatedFrom( ""a	b"" // packet A { u8 x, }
),
}")).
Eval vm_compute in ("<<<M3183>>>" ++ check (runes_of_ascii "packet A {
    match k as n {
        1 : B // c
        , // d
    },
}")).
Eval vm_compute in ("<<<M2884>>>" ++ check (runes_of_ascii "packet A {
  match k as n {
    [1, 22, 007, 4] : B,
    2 : C
  },
}")).
Eval vm_compute in ("<<<M2663>>>" ++ check (runes_of_ascii "options { a = char[3]; b = zchar[0] c = char[] d = string e = u8 }")).
Eval vm_compute in ("<<<M4368>>>" ++ check (runes_of_ascii "

  options
    // a // b
  { f32a
=
'0' 
;
    } options {
}
")).
Eval vm_compute in ("<<<M3468>>>" ++ check (runes_of_ascii "// top
MetaData
    // c0
o
    // c1
{
    // c2
}
    // c3
")).
Eval vm_compute in ("<<<M3539>>>" ++ check (runes_of_ascii "root packet P {
    hdr {
        u8 a,
    },
    u8 x,
}
")).
Eval vm_compute in ("<<<M3381>>>" ++ check (runes_of_ascii "packet x { @rightPad ( ) repeat roots Logon // c
`doc` , }")).
Eval vm_compute in ("<<<M3689>>>" ++ check (runes_of_ascii "

  MetaData
    packetx{zchar[ 7]
    u128

    ,
}

")).
Eval vm_compute in ("<<<M2270>>>" ++ check (runes_of_ascii "options
{ } options { BodyLength= u16 Header= f64 ;")).
Eval vm_compute in ("<<<M3760>>>" ++ check (runes_of_ascii "
MetaData M
    {u8

    x

`
x`,T
t`
x`
,
}")).
Eval vm_compute in ("<<<M1146>>>" ++ check (runes_of_ascii "
root packet  u128	{	char[ 007 ]MetaDataX
,}")).
Eval vm_compute in ("<<<M687>>>" ++ check (runes_of_ascii "packet leftPad { u64 Foo
,
// c
// a // b
}
")).
Eval vm_compute in ("<<<M2734>>>" ++ check (runes_of_ascii "@tag( @lengthOf( , @calculatedFrom( u16 as")).
Eval vm_compute in ("<<<M3190>>>" ++ check (runes_of_ascii "root
// c
packet u128 { chars `it's` , }")).
Eval vm_compute in ("<<<M1710>>>" ++ check (runes_of_ascii "options { trueish = ""`tick`"" ; string_")).
Eval vm_compute in ("<<<M2694>>>" ++ check ([65533; 8]%N ++ runes_of_ascii "w!67" ++ [65533; 65533; 65533; 65533; 65533; 65533; 23; 65533; 28; 65533]%N ++ runes_of_ascii "k3 k" ++ [65533; 65533; 65533; 65533; 28; 65533; 65533; 65533; 1656; 65533; 16]%N ++ runes_of_ascii "J" ++ [65533]%N ++ runes_of_ascii "F" ++ [65533; 65533]%N)).
Eval vm_compute in ("<<<M3947>>>" ++ check (runes_of_ascii "

  // c
	root packet 
pack 
{ 
}

")).
Eval vm_compute in ("<<<M1501>>>" ++ check (runes_of_ascii "packet
//	t
// trailing space 
_x")).
Eval vm_compute in ("<<<M3147>>>" ++ check (runes_of_ascii "packet A {
 u8 x `d x`, // c x
}")).
Eval vm_compute in ("<<<M2810>>>" ++ check (runes_of_ascii "X{aZG^\F}_#)~""*yZ&5,]=E;#],:0N")).
Eval vm_compute in ("<<<M4038>>>" ++ check (runes_of_ascii "
// c" ++ [8202]%N ++ runes_of_ascii "

  packet
    A {
}
")).
Eval vm_compute in ("<<<M2807>>>" ++ check (runes_of_ascii "Nx>%""+FOjL#!9!ewSS+QVDXT-b5")).
Eval vm_compute in ("<<<M2579>>>" ++ check (runes_of_ascii "packet A { char[ x ] y, }")).
Eval vm_compute in ("<<<M3758>>>" ++ check (runes_of_ascii "  MetaData leftPad 
{}

")).
Eval vm_compute in ("<<<M730>>>" ++ check (runes_of_ascii "root	packet f32a { }
")).
Eval vm_compute in ("<<<M3479>>>" ++ check (runes_of_ascii "MetaData o { }
// c
")).
Eval vm_compute in ("<<<M3470>>>" ++ check (runes_of_ascii "// c
MetaData o { }")).
Eval vm_compute in ("<<<M3076>>>" ++ check (runes_of_ascii "// c" ++ [133]%N ++ runes_of_ascii "
packet A {
}")).
Eval vm_compute in ("<<<M194>>>" ++ check (runes_of_ascii "root
packet u{}
")).
Eval vm_compute in ("<<<M3786>>>" ++ check (runes_of_ascii "packet
len 
{
}
")).
Eval vm_compute in ("<<<M315>>>" ++ check (runes_of_ascii "MetaData As{ }")).
Eval vm_compute in ("<<<M2653>>>" ++ check (runes_of_ascii "MetaData { }")).
Eval vm_compute in ("<<<M4245>>>" ++ check (runes_of_ascii "

  //x
 
")).
Eval vm_compute in ("<<<M2426>>>" ++ check (runes_of_ascii "char[ ]")).
Eval vm_compute in ("<<<M2691>>>" ++ check (runes_of_ascii "MLpc5K")).
Eval vm_compute in ("<<<M3064>>>" ++ check (runes_of_ascii "// c" ++ [12288]%N)).
Eval vm_compute in ("<<<M2517>>>" ++ check (runes_of_ascii """//""")).
Eval vm_compute in ("<<<M2528>>>" ++ check (runes_of_ascii "007")).
Eval vm_compute in ("<<<M2521>>>" ++ check (runes_of_ascii "`a")).
Eval vm_compute in ("<<<M2845>>>" ++ check (runes_of_ascii "M")).
