From FP Require Import Lexer Parser ShowPT Digest Formatter.
From Coq Require Import String List NArith.
Import ListNotations.
Open Scope string_scope.
Set Printing Width 100000000.
Set Printing Depth 100000000.
Definition show_fres (r : fres) : string :=
  match r with
  | FOk s => "OK:" ++ sh_escaped s ""
  | FErr s => "ERR:" ++ sh_escaped s ""
  | FPanic p => "PANIC:" ++ p
  end.
Definition check (rs : list rune) : string := digest (show_fres (format_res rs)).
Definition full (rs : list rune) : string := show_fres (format_res rs).
Eval vm_compute in ("<<<M87>>>" ++ check (runes_of_ascii "packet Logon{
    repeat string
a1 `crlf
line` ,@lengthOf(
Pad
    ) match  Pad as
u8x
    { 4294967296
//
// " ++ [128512]%N ++ runes_of_ascii " emoji
: // `tick` ""quote"" 'q'
i8i8 , } ,
asx a1 ,
// a // b
// @lengthOf(
@lengthOf(body ) //x
msg_type int
,tag`line1
line2` , repeat
// packet A { u8 x, }
// packet A { u8 x, }
Z9_{ u16
    packetx	@calculatedFrom(
    ""it's"" ) , } , @lengthOf(
// " ++ [128512]%N ++ runes_of_ascii " emoji
//	t
Logon ) // " ++ [128512]%N ++ runes_of_ascii " emoji
@rightPad (
)	@calculatedFrom(""" ++ [233]%N ++ runes_of_ascii "t" ++ [233]%N ++ runes_of_ascii """ ) repeat roots	u128 // `tick` ""quote"" 'q'
,@calculatedFrom( ""{,}"") chars{ match // " ++ [128512]%N ++ runes_of_ascii " emoji
roots as Foo {
    10 :trueish
// trailing space 
// @lengthOf(
, },} , i8i8 ,@calculatedFrom( ""x y"" ) @calculatedFrom( ""a\""b"" ) repeat Z9_
{  f32a msg_type ,
repeat o{
// " ++ [128512]%N ++ runes_of_ascii " emoji
// @lengthOf(
zchar[ 0	]
charz @calculatedFrom(""CRC32"" ) ,
}
,}
    ,
} root
    packet	BodyLength
{ calculatedFrom
{
char[]x@calculatedFrom(
""\n""
)
    , // @lengthOf(
_x @calculatedFrom( ""`tick`""
    ),	repeat u128,float Packet
`" ++ [28040; 24687; 31867; 22411]%N ++ runes_of_ascii "`
    ,}
    , repeat Foo	{ uint64 a1
    // `tick` ""quote"" 'q'
    , } , /// triple
repeat char[ 42 ] matchKey `it's` ,	lengthOf{ // " ++ [27880; 37322]%N ++ runes_of_ascii "
u128 trueish  `// not a comment`, match
chars as MetaDataX {
00
    : x_y_z 1
: trueish, [ 0123456789 ]
    :	calculatedFrom , [
    ""CRC32"" ,	""\" ++ [233]%N ++ runes_of_ascii """
, ""// no comment""
    , ""it's"" ,	""packet""
    , 007 ] : Pad
,
} ,  } /// triple
, repeat char[] Logon // `tick` ""quote"" 'q'
, @leftPad
    ( '0' //x
) f32
    Pad
    @calculatedFrom(""CRC32"" ) , @lengthOf(
BodyLength )  options1 @calculatedFrom( ""`tick`"") , A {
// " ++ [27880; 37322]%N ++ runes_of_ascii "
//	t
uint8 charz`u8 x,`
, falsey x
`line1
line2`  , repeat
    int8 Packet
    ,zchar[ 1 ] float
    , }
, char[ 65535 ] matchKey
@calculatedFrom( //
""x y""
    ) // trailing space 
, @lengthOf( o//x
)match	chars
    as As {	1
    : f32a
,
} , }
packet
//	t
// packet A { u8 x, }
int
{ @calculatedFrom( // trailing space 
""// no comment"" ) @rightPad ( ) @calculatedFrom( """ ++ [233]%N ++ runes_of_ascii "t" ++ [233]%N ++ runes_of_ascii """ ) roots _x
/// triple
// trailing space 
`say ""hi""`	, // `tick` ""quote"" 'q'
} options { o= ""{,}"" Pad =
    255 ;  } // " ++ [27880; 37322]%N)).
Eval vm_compute in ("<<<M360>>>" ++ check (runes_of_ascii "root packet falsey { @lengthOf(Pad	)repeatCount
    @calculatedFrom( ""1"")
    ,@calculatedFrom( """"
)
@lengthOf(
stringy ) A
leftPad , @calculatedFrom(""{,}""
    ) // " ++ [128512]%N ++ runes_of_ascii " emoji
f32 calculatedFrom `{ , }` , char[007
    ] a1,
repeat char[ 007 ] repeatCount`it's`
, char[] pack `line1
line2`, } packet // " ++ [128512]%N ++ runes_of_ascii " emoji
trueish{ repeat zchar[10 ]options1 `a\`
,  roots@calculatedFrom(
""" ++ [128512]%N ++ runes_of_ascii """	) `{ , }`
,  @calculatedFrom(	""a\""b""	)
_x _x `
` , //x
i8 pack
    , @lengthOf(  string_ )
match charz
as
repeatCount
{[
0123456789 ]
    : x// a // b
,255:
    Foo, [ 0123456789 , ""1"" ] : f32a """" :
    // " ++ [128512]%N ++ runes_of_ascii " emoji
    len
,	[0 ,
0123456789 ,""a\\"" ,65535]
    : int ,[""packet"" , ""1"" ,65535 ,  ""a\""b""
    ,	4294967296
, ""x y""
    , ""// no comment"" ]
: calculatedFrom , // trailing space 
},
@calculatedFrom( // " ++ [27880; 37322]%N ++ runes_of_ascii "
""" ++ [28040; 24687]%N ++ runes_of_ascii """
)Pad int  `tab	here`,
} packet // c
As
{
    options1
,  @lengthOf( int // a // b
)int8
options1 @lengthOf( u8x)
`crlf
line`, } packet falsey { @rightPad ( ) char[ 3] o
    , }root
packet
    // @lengthOf(
    _x {@tag( 42
) trueish
    @calculatedFrom(
""" ++ [128512]%N ++ runes_of_ascii """ )
`
` , f32a `crlf
line` , match
rootA as stringy  { // trailing space 
[ ""packet""
    ,
//
// " ++ [27880; 37322]%N ++ runes_of_ascii "
"""" ]:
    uint8x ,  ""\" ++ [233]%N ++ runes_of_ascii """
: uint8x , [""\n"" ,1 ]
    : zchar // packet A { u8 x, }
, 255:
// `tick` ""quote"" 'q'
//
int ,[ ""packet""]: roots }
, repeat u16 // c
x_y_z// a // b
`// not a comment` , }")).
Eval vm_compute in ("<<<M1636>>>" ++ check (runes_of_ascii "options{ StringPrefixLenType = u16
;  ArrayPrefixLenType  =
    u8

;

FixedStringPadFromLeft
=
	true
    ; FixedStringPadChar
=
	' '  ;}packet

    Quote {
int64

OrderId, 
char[]
Ref  , @leftPad  ('0' ) char[5  ] price,

    }

    packet  Heartbeat {

    zchar[  3 ]venue
,	string
Flags ,  }
    packet

    Trade

    {

    repeat	InTag787
	{ i32

venue,
char[	5	]sym, repeat InPx98 {
char[ 11	]
Qty 
, Heartbeat,  char[]  price  ,
	u32 x

,
	float64

    count
	,

repeat 
Quote
    ,
    }
,
	zchar[
	7	]
    Note ,  repeat
char[ 1
]

    Tail  ,

    } , 
repeat
char[	2 
] 
seqNo,	InTail55
{
repeat
Quote

    , string  msgKind ,InPx18

    {

char[]count ,	repeat 
Quote
    , uint16 Qty  ,
    }	,
char[

4 ]

    seqNo  ,

    repeat
Heartbeat 
, repeat string
	sym, }
	,

repeat	Quote
    , 
Heartbeat ,

    @leftPad	(
' '
    )
char[ 
10]	OrderId  , } root

packet
	Fill{Heartbeat, uint32  count

,u8 OrderId
    ,
match OrderId
	as 
Body

    {  96
:

    Quote
, 195:

Trade ,187:  Heartbeat
	,

    } ,
    u32 venue @calculatedFrom(
""CRC32""
)
,}
")).
Eval vm_compute in ("<<<M1553>>>" ++ check (runes_of_ascii "options {
    StringPrefixLenType = u64;
    ArrayPrefixLenType = u16;
    FixedStringPadChar = ' ';
}
packet Logon {
    i32 msgKind,
    repeat InOrderid65 {
        u8 pad0,
    },
    i8 tag7,
    @leftPad(' ') char[12] x,
}
packet Leg {
    char[] f1,
    repeat char[5] Px,
    InQty34 {
        repeat char[6] Qty,
        char[7] seqNo,
        string count,
    },
    Logon,
}
packet Party {
    @leftPad('0') char[10] OrderId,
    string Tail,
}
packet Fill {
    zchar[5] venue,
    zchar[3] clOrdID,
    InRef95 {
        InLastpx25 {
            u8 pad0,
        },
        float64 OrderId,
        i32 f1,
        float32 x,
        char[] seqNo,
    },
    repeat string seqNo,
}
root packet Heartbeat {
    repeat Leg,
    u32 seqNo,
    u16 tag7,
    u32 Flags @lengthOf(Body),
    match tag7 as Body {
        [195, 75] : Party,
        171 : Fill,
        78 : Logon,
        142 : Leg,
    },
    u32 Note @calculatedFrom(""CRC32""),
}
")).
Eval vm_compute in ("<<<M1823>>>" ++ check (runes_of_ascii "// top
options {
    // c1a
    // c1b
    StringPrefixLenType = u8;
    ArrayPrefixLenType = u32;
    // c9
}

packet Quote {
    // c13
    u32 Ref,// c16a
    // c16b
    InNote74 {
        // c18
        u8 pad0,// c21
    },
}

packet Ack {
    repeat string OrderId,// c31
}// c32

packet Logout {
    // c35
    zchar[7] venue,// c40a
    // c40b
    char[12] Px,
    // c45
    string count,
    // c48
    char[] Tail,// c51
    char[] Qty,// c54
    Quote,// c56
}// c57

root packet Trade {
    // c61a
    // c61b
    zchar[2] price,
    // c66
    u32 x,
    u32 lastPx @lengthOf(Body),// c75a
    // c75b
    match x as Body {
        // c80
        148 : Ack,
        // c84
        171 : Quote,
        15 : Logout,
        // c92
    },// c94
}
// c95")).
Eval vm_compute in ("<<<M274>>>" ++ check (runes_of_ascii "packet  int  { @calculatedFrom( """ ++ [28040; 24687]%N ++ runes_of_ascii """  )
@tag(
    // `tick` ""quote"" 'q'
    007
    ) options1 @calculatedFrom( ""CRC32"" ) `tab	here`
, @lengthOf(
As )
    x x_y_z , repeat x
{ i64 Z9_,
zchar[
    // c
    007 ] body
//	t
// a // b
@lengthOf( uint8x
    )
    // c
    , f64  metadata @calculatedFrom( ""`tick`""	)
    `tab	here`, }	, } packet msg_type {
    repeat
// trailing space 
// c
zchar[255 ]A, int64 f32a ,// " ++ [128512]%N ++ runes_of_ascii " emoji
Pad
@lengthOf( falsey
)
,
match
    falsey
as
x_y_z {
7: // `tick` ""quote"" 'q'
len
,}
/// triple
// c
, string // " ++ [27880; 37322]%N ++ runes_of_ascii "
uint8x
    `a\`,string rootA
//x
// a // b
@lengthOf( int	) ,	}	root
/// triple
// `tick` ""quote"" 'q'
packet pack { crc i64_ , }
")).
Eval vm_compute in ("<<<M13>>>" ++ check (runes_of_ascii "
packet msg_type
    // packet A { u8 x, }
    {//	t
string	packetx @lengthOf( charz )	, @calculatedFrom( """"  )
repeat char[ 0123456789
    ]
    // c
    int `it's` ,
    @rightPad (// packet A { u8 x, }
)
@tag( 42 )
    @calculatedFrom( ""`tick`""
) repeat
uint16
falsey  `" ++ [233]%N ++ runes_of_ascii "`
, i32 Foo , @tag(7 ) u64
chars@lengthOf(  BodyLength ), i16
    Z9_@lengthOf(/// triple
a1 ) ,@lengthOf(leftPad ) lengthOf body ``	, @tag(
    007 )
char[
    10 //x
]
_x
// a // b
// " ++ [27880; 37322]%N ++ runes_of_ascii "
@lengthOf(
    roots )	`
` , // a // b
@calculatedFrom(""a\\"" )
    float64 //	t
rootA`doc` , string T @calculatedFrom( """" ) , }")).
Eval vm_compute in ("<<<M2029>>>" ++ check (runes_of_ascii "options {
}

packet BodyLength {
    i8i8 @lengthOf(trueish),
    repeat body,// " ++ [27880; 37322]%N ++ runes_of_ascii "
    @calculatedFrom(""1"")
    repeat int64 i64_,
    @tag(0)
    MetaDataX msg_type `" ++ [28040; 24687; 31867; 22411]%N ++ runes_of_ascii "`,
    Pad {
        Header @calculatedFrom(""""),
    },
    @tag(42)
    u8 asx `u8 x,`,
    @tag(3)
    repeat string_ {
        metadata {
            // @lengthOf(
            char[0123456789] crc,
            Packet `" ++ [28040; 24687; 31867; 22411]%N ++ runes_of_ascii "`,//x
            options1 `tab	here`,
        },
        repeat Packet,
    },
}

//x
options {
    x = char[10];
}")).
Eval vm_compute in ("<<<M1957>>>" ++ check (runes_of_ascii "options {
    LittleEndian = true;
    StringPrefixLenType = u16;
    ArrayPrefixLenType = u64;
}

packet Fill {
}

packet Logon {
    repeat char[3] Tail,
    zchar[6] venue,
    repeat string Side2,
}

root packet Cancel {
    char[] Flags,
    char[] OrderId,
    zchar[6] msgKind,
    Fill,
    char[] Acct,
    u8 f1,
    match f1 as Body {
        188 : Fill,
        5 : Logon,
    },
    u32 clOrdID @calculatedFrom(""CR\
    C32""),
}")).
Eval vm_compute in ("<<<M1116>>>" ++ check (runes_of_ascii "// top
options // c0
{ // c1
charz // c2
= // c3
f64 // c4
; // c5
metadata // c6
= // c7
7 // c8
; // c9
} // c10
options // c11
{ // c12
u128 // c13
= // c14
10 // c15
options1 // c16
= // c17
true // c18
; // c19
zchar // c20
= // c21
uint16 // c22
; // c23
lengthOf // c24
= // c25
true // c26
; // c27
} // c28
options // c29
{ // c30
len // c31
= // c32
1 // c33
} // c34
")).
Eval vm_compute in ("<<<M121>>>" ++ check (runes_of_ascii "root
    packet stringy{ // trailing space 
@calculatedFrom(
""" ++ [28040; 24687]%N ++ runes_of_ascii """ ) repeat
Foo {float64	i64_
    @lengthOf(Z9_ ),	}
    ,	repeat // `tick` ""quote"" 'q'
lengthOf {
falsey
    { uint16 len//x
,	} , Packet uint8x `a\`,} , @calculatedFrom(""" ++ [128512]%N ++ runes_of_ascii """)  string MetaDataX	`" ++ [233]%N ++ runes_of_ascii "`  ,} packet
chars { @leftPad ( '0'
    )i64 trueish
@lengthOf( Z9_  )
    ,
}
")).
Eval vm_compute in ("<<<M40>>>" ++ check (runes_of_ascii "packet// " ++ [128512]%N ++ runes_of_ascii " emoji
charz
    {
repeat options1 {char x_y_z
/// triple
//x
, T	{ string_ @calculatedFrom(""1"") , } ,
f64
    crc ,
u64 A
// trailing space 
/// triple
@calculatedFrom(""CRC32""	), } ,} MetaData MetaDataX //	t
{
}
root packet
u128{ string_  {
    repeat pack {
As matchKey , } ,} ,
}
")).
Eval vm_compute in ("<<<M662>>>" ++ check (runes_of_ascii "root packet tag { }  packet MetaDataX{char[007	]
// c
/// triple
asx  @calculatedFrom( ""a\""b""
) `say ""hi""`// " ++ [27880; 37322]%N ++ runes_of_ascii "
,  @tag(4294967296 )
    char[1//x
] packetx @calculatedFrom(@lengthOf""a\""b""
    ) ,
// " ++ [128512]%N ++ runes_of_ascii " emoji
// a // b
@calculatedFrom(""" ++ [233]%N ++ runes_of_ascii "t" ++ [233]%N ++ runes_of_ascii """  ) repeat pack // " ++ [27880; 37322]%N ++ runes_of_ascii "
,
    } // c")).
Eval vm_compute in ("<<<M1713>>>" ++ check (runes_of_ascii "

  packet

    Sub  { u8
a	, @calculatedFrom(
    ""CRC16""

) u16	SubSum
	,

    }root  packet

    Frame
    { 
u16
	MsgType

    ,

u16
BodyLen @lengthOf( Body )  ,

    Sub
	Body 
,  string note,

    @calculatedFrom(""CRC16"") u16 Checksum,  u8 
tail	,
}")).
Eval vm_compute in ("<<<M525>>>" ++ check (runes_of_ascii "root packet tag { }  packet MetaDataX{char[ ]	007
// c
/// triple
asx  @calculatedFrom( ""a\""b""
) `say ""hi""`// " ++ [27880; 37322]%N ++ runes_of_ascii "
,  @tag(4294967296 )
    char[1//x
] packetx @calculatedFrom(""a\""b""
    ) ,
// " ++ [128512]%N ++ runes_of_ascii " emoji
// a // b
@calculatedFrom(""" ++ [233]%N ++ runes_of_ascii "t" ++ [233]%N ++ runes_of_ascii """  ) repeat pack // " ++ [27880; 37322]%N ++ runes_of_ascii "
,
    } // c")).
Eval vm_compute in ("<<<M561>>>" ++ check (runes_of_ascii "root packet tag { }  packet MetaDataX{char[007	]
// c
/// triple
asx  @calculatedFrom( ""a\""b""
) `say ""hi""`// " ++ [27880; 37322]%N ++ runes_of_ascii "
(  @tag(4294967296 )
    char[1//x
] packetx @calculatedFrom(""a\""b""
    ) ,
// " ++ [128512]%N ++ runes_of_ascii " emoji
// a // b
@calculatedFrom(""" ++ [233]%N ++ runes_of_ascii "t" ++ [233]%N ++ runes_of_ascii """  ) repeat pack // " ++ [27880; 37322]%N ++ runes_of_ascii "
,
    } // c")).
Eval vm_compute in ("<<<M1581>>>" ++ check (runes_of_ascii "packet
Sub
{ u8
    a , @calculatedFrom( 
""CRC16"")

    u16

    SubSum
, 
} root	packet
	Frame{ 
u16
    MsgType
,
    u16
	BodyLen@lengthOf(  Body

    ),
    Sub 
Body

,string

    note 
,	@calculatedFrom(
""CRC16"" )

u16 Checksum 
,	u8 tail

    ,}

")).
Eval vm_compute in ("<<<M571>>>" ++ check (runes_of_ascii "root packet tag { }  packet MetaDataX{char[007	]
// c
/// triple
asx  @calculatedFrom( ""a\""b""
) `say ""hi""`// " ++ [27880; 37322]%N ++ runes_of_ascii "
,  @tag(root )
    char[1//x
] packetx @calculatedFrom(""a\""b""
    ) ,
// " ++ [128512]%N ++ runes_of_ascii " emoji
// a // b
@calculatedFrom(""" ++ [233]%N ++ runes_of_ascii "t" ++ [233]%N ++ runes_of_ascii """  ) repeat pack // " ++ [27880; 37322]%N ++ runes_of_ascii "
,
    } // c")).
Eval vm_compute in ("<<<M1846>>>" ++ check (runes_of_ascii "root packet tag {
}

packet MetaDataX {
    char[007] asx @calculatedFrom(""a\""b"") `say ""hi""`,
    @tag(4294967296)
    zchar[1] packetx @calculatedFrom(""a\""b""),
    // " ++ [128512]%N ++ runes_of_ascii " emoji
    // a // b
    @calculatedFrom(""" ++ [233]%N ++ runes_of_ascii "t" ++ [233]%N ++ runes_of_ascii """)
    repeat pack,
}// c")).
Eval vm_compute in ("<<<M203>>>" ++ check (runes_of_ascii "packet u128  { @calculatedFrom(
""a	b"" ) repeat  uint8x u128
`line1
line2`  , }
    packet string_ { @calculatedFrom(
// `tick` ""quote"" 'q'
// packet A { u8 x, }
""" ++ [128512]%N ++ runes_of_ascii """ )
uint8 Pad
    @lengthOf(
    o )
`{ , }`, }")).
Eval vm_compute in ("<<<M326>>>" ++ check (runes_of_ascii "// @lengthOf(
root packet
MetaDataX{
    repeat
i16
packetx, @tag( 007 )
x
    @lengthOf(
_x
)
,
@calculatedFrom(  """ ++ [28040; 24687]%N ++ runes_of_ascii """ ) repeat
Pad ,	@lengthOf(
falsey) @tag( 00 ) @tag( 3
    )string i8i8,}")).
Eval vm_compute in ("<<<M676>>>" ++ check (runes_of_ascii "root packet len // trailing space 
{
// " ++ [27880; 37322]%N ++ runes_of_ascii "
//	t
char[10
] metadata	@lengthOf( o ) `crlf
line`,
    @rightPad
( ' '
) string
    Header @calculatedFrom( ""a\\""
    ), @lengthOf }
")).
Eval vm_compute in ("<<<M412>>>" ++ check (runes_of_ascii "packet
    // `tick` ""quote"" 'q'
    crc
// packet A { u8 x, }
//	t
{
u32 a1 true
    // trailing space 
    roots
charz //
`two words`,	}
    MetaData int {
} /// triple")).
Eval vm_compute in ("<<<M686>>>" ++ check (runes_of_ascii "root packet len // trailing space 
{
// " ++ [27880; 37322]%N ++ runes_of_ascii "
//	t
char[10
\] metadata	@lengthOf( o ) `crlf
line`,
    @rightPad
( ' '
) string
    Header @calculatedFrom( ""a\\""
    ), }
")).
Eval vm_compute in ("<<<M711>>>" ++ check (runes_of_ascii "root packet len // trailing space 
{
// " ++ [27880; 37322]%N ++ runes_of_ascii "
//	t
char[10
metadata ]	@lengthOf( o ) `crlf
line`,
    @rightPad
( ' '
) string
    Header @calculatedFrom( ""a\\""
    ), }
")).
Eval vm_compute in ("<<<M655>>>" ++ check (runes_of_ascii "root packet tag { }  packet MetaDataX{char[007	]
// c
/// triple
asx  @calculatedFrom( ""a\""b""
) `say ""hi""`// " ++ [27880; 37322]%N ++ runes_of_ascii "
,  @tag(4294967296 )
    char[1//x
] packetx @calcula")).
Eval vm_compute in ("<<<M2009>>>" ++ check (runes_of_ascii "root

packet
matchKey  {

zchar[ 3
]

    pack

    @calculatedFrom( ""a	b"" 
)	`doc` ,

}

options  {

    }MetaData
    A { int8 
// c
  	msg_type
,
}
")).
Eval vm_compute in ("<<<M1629>>>" ++ check (runes_of_ascii "
packet A
    {

match k	as
	n
    {[
    ""a"" ,
    ""bb""
	,
007, ""d""	, 
""e""
,  66	,

    ""g""

,  ""h"" ,  9 ,

    ""j""  ]
:

B 2
:
C
}
	, }
")).
Eval vm_compute in ("<<<M81>>>" ++ check (runes_of_ascii "
root packet // `tick` ""quote"" 'q'
rootA { @rightPad (
) @leftPad(	) @lengthOf(  MetaDataX  )float// c
u128`a\` , // `tick` ""quote"" 'q'
}
")).
Eval vm_compute in ("<<<M2045>>>" ++ check (runes_of_ascii "packet A {
    match k as n {
        [
            1, ""bb"", 007, ""d"", 5,
            ""f"", 7
        ] : B,
        2 : C,
    },
}")).
Eval vm_compute in ("<<<M1668>>>" ++ check (runes_of_ascii "packet A {
    u16 len @lengthOf(body) `x
        `,
    u32 crc @calculatedFrom(""CRC32"") `x
        `,
    string body,
}")).
Eval vm_compute in ("<<<M1252>>>" ++ check (runes_of_ascii "root packet matchKey { zchar[ 3 ] pack @calculatedFrom( ""a	b"" ) `doc` , } options
// c
{ } MetaData A { int8 msg_type , }")).
Eval vm_compute in ("<<<M1947>>>" ++ check (runes_of_ascii "packet metadata {
    Logon {
        A `" ++ [28040; 24687; 31867; 22411]%N ++ runes_of_ascii "`,
        tag o,
        // c
    },
    zchar len `// not a comment`,
}")).
Eval vm_compute in ("<<<M1964>>>" ++ check (runes_of_ascii "
packet chars{

} packet 
MetaDataX
    {  @tag( 42 // c
    )
	i16
    string_ ,
    repeat x`say ""hi""`
,
	}
")).
Eval vm_compute in ("<<<M2079>>>" ++ check (runes_of_ascii "options	{
LittleEndian= true
;}
root 
packet
P
{ u16

    a ,
u32

Sum @calculatedFrom(
""CR\
C32"" ) , }")).
Eval vm_compute in ("<<<M1628>>>" ++ check (runes_of_ascii "MetaData float {
    float64 charz `
        `,
}// c

root packet chars {
    @rightPad('0')
    Foo,
}")).
Eval vm_compute in ("<<<M891>>>" ++ check (runes_of_ascii "packet A {
  match k as n {
    [1, ""bb"", 007, ""d"", 5, ""f"", 7, ""h"", 9, ""j"", 11] : B
    2 : C
  },
}")).
Eval vm_compute in ("<<<M871>>>" ++ check (runes_of_ascii "packet A {
  match k as n {
    [""a"", ""bb"", 007, ""d"", ""e"", 66, ""g"", ""h"", 9] : B
    2 : C
  },
}")).
Eval vm_compute in ("<<<M1923>>>" ++ check (runes_of_ascii "MetaData body {
    i64 pack `it's`,
}

packet stringy {
    int16 calculatedFrom,
    // c
}")).
Eval vm_compute in ("<<<M1178>>>" ++ check (runes_of_ascii "// c
MetaData float { float64 charz `
` , } root packet chars { @rightPad ( '0' ) Foo , }")).
Eval vm_compute in ("<<<M1211>>>" ++ check (runes_of_ascii "MetaData float { float64 charz `
` , } root packet chars { @rightPad ( '0' )
// c
Foo , }")).
Eval vm_compute in ("<<<M1422>>>" ++ check (runes_of_ascii "packet chars { } packet MetaDataX { @tag( 42 ) i16 string_ , repeat // c
x `say ""hi""` , }")).
Eval vm_compute in ("<<<M547>>>" ++ check (runes_of_ascii "root packet tag { }  packet MetaDataX{char[007	]
// c
/// triple
asx  @calculatedFrom(")).
Eval vm_compute in ("<<<M1152>>>" ++ check (runes_of_ascii "packet metadata { Logon { A `" ++ [28040; 24687; 31867; 22411]%N ++ runes_of_ascii "` , tag o , } , zchar len // c
`// not a comment` , }")).
Eval vm_compute in ("<<<M1357>>>" ++ check (runes_of_ascii "packet o { repeat Logon uint8x , } options
// c
{ asx = zchar[ 3 ] stringy = '\x00' }")).
Eval vm_compute in ("<<<M1798>>>" ++ check (runes_of_ascii "packet order_item {
    u8 a,
}

root packet new_order {
    order_item,
    u8 x,
}")).
Eval vm_compute in ("<<<M1318>>>" ++ check (runes_of_ascii "MetaData body { i64 pack `it's` ,
// c
} packet stringy { int16 calculatedFrom , }")).
Eval vm_compute in ("<<<M818>>>" ++ check (runes_of_ascii "packet A {
  match k as n {
    [""a"", ""bb"", 007, ""d"", ""e""] : B,
    2 : C
  },
}")).
Eval vm_compute in ("<<<M813>>>" ++ check (runes_of_ascii "packet A {
  match k as n {
    [1, ""bb"", 007, ""d"", 5] : B
    2 : C
  },
}")).
Eval vm_compute in ("<<<M1902>>>" ++ check (runes_of_ascii "
options

    {

x_y_z = 
true ; a1
= true

;  options1

=  true ; }
")).
Eval vm_compute in ("<<<M846>>>" ++ check (runes_of_ascii "packet A { Inner { match k as n { [1,22,007,4,5,66,7] : B, }, }, }")).
Eval vm_compute in ("<<<M1869>>>" ++ check (runes_of_ascii "MetaData chars {
    f32 metadata,
    i64 metadata `
    `,
}")).
Eval vm_compute in ("<<<M1278>>>" ++ check (runes_of_ascii "packet x // c
{ @rightPad ( ) repeat roots Logon `doc` , }")).
Eval vm_compute in ("<<<M1783>>>" ++ check (runes_of_ascii "MetaData	u128
    {

uint8x	msg_type
`line1
line2`
,}
")).
Eval vm_compute in ("<<<M751>>>" ++ check (runes_of_ascii "i16 u32 string } : } f64 @tag( root ) `` @tag( (")).
Eval vm_compute in ("<<<M168>>>" ++ check (runes_of_ascii "root packet leftPad
    { f32a	tag ,
    }
")).
Eval vm_compute in ("<<<M1106>>>" ++ check (runes_of_ascii "root packet u128 { // c
chars `it's` , }")).
Eval vm_compute in ("<<<M687>>>" ++ check (runes_of_ascii "root packet len // trailing space 
{")).
Eval vm_compute in ("<<<M1603>>>" ++ check (runes_of_ascii "packet A {
    u8 x `d `,// c 
}")).
Eval vm_compute in ("<<<M1961>>>" ++ check (runes_of_ascii "// " ++ [27880; 37322]%N ++ runes_of_ascii "
packet matchKey {
}
// c")).
Eval vm_compute in ("<<<M11>>>" ++ check (runes_of_ascii "options { falsey
= false}")).
Eval vm_compute in ("<<<M752>>>" ++ check (runes_of_ascii "1-I" ++ [65533; 65533]%N ++ runes_of_ascii "Z" ++ [65533; 65533; 65533; 65533; 65533; 65533; 14; 65533; 65533; 65533]%N ++ runes_of_ascii "/" ++ [1765; 65533; 65533]%N)).
Eval vm_compute in ("<<<M991>>>" ++ check (runes_of_ascii "packet A {
}
// c" ++ [5760]%N)).
Eval vm_compute in ("<<<M969>>>" ++ check (runes_of_ascii "packet A {
}// c ")).
Eval vm_compute in ("<<<M183>>>" ++ check (runes_of_ascii "packet T
{}
")).
Eval vm_compute in ("<<<M975>>>" ++ check (runes_of_ascii "// c" ++ [12288]%N)).
Eval vm_compute in ("<<<M727>>>" ++ check (runes_of_ascii "/")).
