From FP Require Import Lexer Parser ShowPT Digest Formatter.
From Coq Require Import String List NArith.
Import ListNotations.
Open Scope string_scope.
Set Printing Width 100000000.
Set Printing Depth 100000000.
Definition show_fres (r : fres) : string :=
  match r with
  | FOk s => "OK:" ++ sh_escaped s ""
  | FErr s => "ERR:" ++ sh_escaped s ""
  | FPanic p => "PANIC:" ++ p
  end.
Definition check (rs : list rune) : string := digest (show_fres (format_res rs)).
Definition full (rs : list rune) : string := show_fres (format_res rs).
Eval vm_compute in ("<<<M4245>>>" ++ check (runes_of_ascii "options {
    ArrayPrefixLenType = u16;
    FixedStringPadFromLeft = true;
    JavaPackage = ""com.example.msg"";
    GoPackage = ""msg"";
    GoModule = ""example.com/msg"";
}

MetaData Meta {
    u32 SeqNum `sequence number`,
    char[8] Symbol `symbol`,
    zchar[5] ZSym `z symbol`,
    string Note,
    Symbol AltSymbol `alias of symbol`,
    f64 Price,
}

packet Inner {
    u8 a,
    i16 b,
    string c,
}

packet Inner2 {
    u8 a2,
    char[3] c2,
}

packet Logon {
    u8 x,
    string user,
    repeat u16 codes,
}

packet Logout {
    u16 reason,
}

packet Empty {
}

root packet Msg {
    u8 su8,
    uint8 luint8,
    u16 su16,
    uint16 luint16,
    u32 su32,
    uint32 luint32,
    u64 su64,
    uint64 luint64,
    i8 si8,
    int8 lint8,
    i16 si16,
    int16 lint16,
    i32 si32,
    int32 lint32,
    i64 si64,
    int64 lint64,
    f32 sf32,
    float32 lfloat32,
    f64 sf64,
    float64 lfloat64,
    char[6] fsplain,
    @leftPad('0')
    char[4] fs0,
    @rightPad('0')
    char[5] fs1,
    @leftPad(' ')
    char[6] fs2,
    @rightPad(' ')
    char[7] fs3,
    @leftPad('\x00')
    char[8] fs4,
    @rightPad('\x00')
    char[9] fs5,
    @leftPad()
    char[10] fs6,
    @rightPad()
    char[11] fs7,
    zchar[7] fz,
    @leftPad('0')
    zchar[3] fzl0,
    string s1 `doc`,
    char[] s2,
    Inner,
    Sub {
        u8 q,
        string w,
        Deep {
            u16 z,
            repeat i32 zs,
        },
    },
    repeat u8 ru8,
    repeat u16 ru16,
    repeat u32 ru32,
    repeat u64 ru64,
    repeat i8 ri8,
    repeat i16 ri16,
    repeat i32 ri32,
    repeat i64 ri64,
    repeat f32 rf32,
    repeat f64 rf64,
    repeat string rstr,
    repeat char[] rstr2,
    repeat char[3] rfs,
    repeat zchar[3] rfz,
    repeat Inner2,
    repeat Grp {
        u8 k,
        char[2] v,
    },
    SeqNum,
    SeqNum seq2,
    repeat SeqNum seqs,
    Symbol,
    AltSymbol alt,
    ZSym,
    Note,
    repeat Symbol syms,
    Price px,
    u16 MsgType,
    u32 BodyLen @lengthOf(Body),
    match MsgType as Body {
        1 : Logon,
        [2, 3] : Logout,
        7 : Logon,
        9 : Empty,
    },
    u32 Checksum @calculatedFrom(""CRC32""),
}")).
Eval vm_compute in ("<<<M3771>>>" ++ check (runes_of_ascii "MetaData float {
    lengthOf u128 `tab	here`,
    u x,
    metadata crc `line1
    line2`,
}

root packet trueish {
    @leftPad('0')
    repeat zchar[10] lengthOf `u8 x,`,
    @leftPad('\x00')
    zchar[255] tag,
    @leftPad()
    u128 trueish,
    chars @lengthOf(i64_) `it's`,
    @tag(10)
    zchar[007] asx,
    char[1] zchar,
    // `tick` ""quote"" 'q'
    // trailing space 
    @tag(7)
    @calculatedFrom(""packet"")
    match f32a as uint8x {
        00 : Header,
        007 : charz,
        [255, """ ++ [233]%N ++ runes_of_ascii "t" ++ [233]%N ++ runes_of_ascii """] : rootA,
        // `tick` ""quote"" 'q'
        ""it's"" : lengthOf,
        ""x y"" : pack,
        """ ++ [28040; 24687]%N ++ runes_of_ascii """ : _x,
    },
    repeat Header {
        char[7] i8i8,
        char msg_type @lengthOf(pack) `line1
        line2`,
        // packet A { u8 x, }
        // a // b
        uint8 crc @lengthOf(zchar) `line1
        line2`,
    },
}

packet Foo {
}

packet Foo {
    zchar[0123456789] packetx @calculatedFrom(""packet"") `doc`,
    zchar @calculatedFrom(""\n"") `
    `,
    @leftPad('\x00')
    @tag(65535)
    char[0] metadata @calculatedFrom(""a\""b""),
    repeat lengthOf {
        lengthOf `" ++ [233]%N ++ runes_of_ascii "`,
    },
    As,
}

packet BodyLength {
    //x
    @calculatedFrom(""a\""b"")
    @lengthOf(x)
    @tag(00)
    Packet zchar ``,
    @tag(0123456789)
    repeat char[255] x `it's`,// a // b
    u {
        match BodyLength as tag {
            3 : matchKey,
        },
    },
    @tag(0123456789)
    // " ++ [128512]%N ++ runes_of_ascii " emoji
    char asx `line1
    line2`,
    @lengthOf(chars)
    @calculatedFrom(""a	b"")
    f64 len,
    match int as BodyLength {
        1 : Header,
        [0] : tag,
        """ ++ [28040; 24687]%N ++ runes_of_ascii """ : asx,
    },
    @leftPad(' ')
    metadata `crlf
    line`,
    // `tick` ""quote"" 'q'
    // trailing space 
    len @lengthOf(metadata),
    zchar[65535] A @lengthOf(trueish),
    @leftPad('0')
    repeatCount Z9_ `" ++ [233]%N ++ runes_of_ascii "`,
}")).
Eval vm_compute in ("<<<M96>>>" ++ check (runes_of_ascii "root packet Logon {
    zchar[ 65535
]
uint8x ,@leftPad ()repeat f32
    Packet , @leftPad ( ' '
//x
//	t
) match i8i8 as  body// a // b
{ 65535 : MetaDataX ,
    007
    : Packet
}
,  @calculatedFrom(""packet"")uint8x ,Foo@lengthOf( asx
    //	t
    )
, i64 int , //
@leftPad ( ' ' ) repeat rootA {
int32 zchar
,match stringy  as MetaDataX
    { [ """ ++ [28040; 24687]%N ++ runes_of_ascii """  , 10 ,42 , ""a\""b"" ,	42 ,7]: msg_type ,[
    42 ]	:stringy , ""a\\"" :
Header  255 : calculatedFrom
    //	t
    ,
// a // b
/// triple
[ 007// " ++ [27880; 37322]%N ++ runes_of_ascii "
]
    :
/// triple
//x
MetaDataX , ""a\""b""
    //	t
    ://
stringy // " ++ [128512]%N ++ runes_of_ascii " emoji
, } , char[ 007  ] int @lengthOf(
    o
    )`" ++ [233]%N ++ runes_of_ascii "` // `tick` ""quote"" 'q'
,
// trailing space 
//x
}	, @leftPad (
//
// @lengthOf(
)@lengthOf(
    metadata )match
asx
as leftPad { ""x y""
:
matchKey // packet A { u8 x, }
} // " ++ [27880; 37322]%N ++ runes_of_ascii "
,
    repeat  leftPad `say ""hi""` ,char[//	t
65535// c
] // a // b
Packet , } root packet // a // b
x_y_z { match uint8x as As
    { [0123456789 ] : T
    65535
    :	x_y_z ""\n""
    //
    : u,
    4294967296 :  Packet	[ 65535  ]: T ,
    255 : uint8x },int32 Packet  `tab	here` , @calculatedFrom( """"
) @calculatedFrom(
    ""a\\"" ) u64 repeatCount
    @calculatedFrom( """" ) , Header
zchar
`doc` ,
match
_x as	metadata // " ++ [128512]%N ++ runes_of_ascii " emoji
{ [ 255 ,""1""	] : Logon [
""" ++ [233]%N ++ runes_of_ascii "t" ++ [233]%N ++ runes_of_ascii """ ,00, 65535
    ,	7 , 42	, 00	]
:
packetx , 4294967296 : stringy
    //	t
    ,}, char[00
    ] tag `doc` ,@lengthOf(
int )
string u
    ,  @tag( 007 ) int16 stringy , float64
    crc, @calculatedFrom( ""x y""  ) repeat u16 f32a ,}options  {	u128= ""CRC32"" options1 = // packet A { u8 x, }
false u8x= ""`tick`"";}")).
Eval vm_compute in ("<<<M606>>>" ++ check (runes_of_ascii "packet i8i8 { @leftPad
( ) u body `
`
    , repeat char[] Z9_  ,	repeat char[1	]	int ,
roots {  _x
// a // b
//
@calculatedFrom(""\n"" ) ,
int //x
{ float
    @lengthOf(packetx )  ,} ,	int8 falsey
`a\`, uint16  x_y_z@lengthOf(u128 )
`two words`,} , @tag( 007 ) matchKey
{ _x
    , } , @leftPad ( )@lengthOf( //	t
chars
) i64_ @calculatedFrom(""`tick`"" )
    `" ++ [233]%N ++ runes_of_ascii "`, } packet asx {
    i32
rootA @calculatedFrom( ""a\""b"" )`{ , }` , } packet f32a {
    @leftPad
(
)
// a // b
//	t
@calculatedFrom( ""// no comment"" ) repeat zchar[ 007 ] string_ `// not a comment` , match //	t
Header as pack { [
""// no comment"", ""a\""b"" ]
: x,
    // packet A { u8 x, }
    [ ""abc"" , //	t
""\n""
,""" ++ [233]%N ++ runes_of_ascii "t" ++ [233]%N ++ runes_of_ascii """ ,
00  , 1	, 42
] : pack// c
,	[ 255 , ""a	b""
    ] : i64_, }
, options1 roots , int16
o , @rightPad
( ' ')char[] tag
`// not a comment`	, }
packet roots { uint64 stringy @calculatedFrom( ""1"" ) `two words` ,
    u8x @calculatedFrom( // " ++ [128512]%N ++ runes_of_ascii " emoji
""1"" ) `tab	here`, repeat
    o
{ charz {match metadata as charz { ""a\""b"": u,[10, ""packet"",
""// no comment"" ,	7,  1 ,
    42 ] : lengthOf , ""abc""
:Packet """ ++ [233]%N ++ runes_of_ascii "t" ++ [233]%N ++ runes_of_ascii """ : crc
    ,1
:
x
, //	t
[ """ ++ [28040; 24687]%N ++ runes_of_ascii """
,""// no comment"" ,
1 , 0123456789,""\n"" // trailing space 
,
    ""1"" ,""" ++ [233]%N ++ runes_of_ascii "t" ++ [233]%N ++ runes_of_ascii """ ] :
    //x
    u } , repeat float32
    As ,// trailing space 
} ,}
    //
    ,
    //x
    repeat	char[ 1 //x
]  x_y_z`line1
line2`
    /// triple
    ,
// trailing space 
//x
}
")).
Eval vm_compute in ("<<<M549>>>" ++ check (runes_of_ascii "packet repeatCount
    { i64 falsey	,char[ 65535
]
calculatedFrom  @lengthOf( calculatedFrom
),int32
    repeatCount ,  @tag( 4294967296 ) repeat matchKey { repeat
int64 rootA , match Packet as BodyLength
    {[ 10]:
repeatCount
,""a\\""
    :	msg_type,  [ ""CRC32"",
    00
] : calculatedFrom , 7
    :
lengthOf
, // " ++ [128512]%N ++ runes_of_ascii " emoji
42 : Header // packet A { u8 x, }
, [ ""it's"" , ""\n""	,  65535
, ""`tick`"" ,0 , 65535
, ""{,}"",255 ]://
T ,
} ,} , @calculatedFrom(
""{,}""
) match asx
as metadata
    {
3
: Z9_, ""`tick`""
:
    // @lengthOf(
    string_
} // `tick` ""quote"" 'q'
,@rightPad ( '0' ) int8 u128 , @tag( // `tick` ""quote"" 'q'
3 ) repeat  i8 x_y_z `it's`,
    @lengthOf(chars )  @calculatedFrom(//
""" ++ [28040; 24687]%N ++ runes_of_ascii """)string float	, }
    packet zchar
    {match uint8x
    //	t
    as f32a
    {[ ""`tick`"" , ""CRC32"" ]
: repeatCount ,[
    00
, ""x y"", 255 , 255 ,
    1, 7 ,	007 ,
    7
]
    :	tag, ""{,}"": leftPad
    ,  007 : len , //x
},
@calculatedFrom( ""CRC32""  ) @lengthOf(
x )@calculatedFrom(""\" ++ [233]%N ++ runes_of_ascii """) char[
65535] string_ , }options { }
    MetaData u128
    // c
    {
// c
/// triple
trueish tag
// c
// a // b
, packetx i8i8 , f64 x_y_z//
, //x
trueish u128 , x Header `say ""hi""` , zchar[ 0
    // `tick` ""quote"" 'q'
    ] A, } MetaData i64_
    { }")).
Eval vm_compute in ("<<<M780>>>" ++ check (runes_of_ascii "root packet
Logon { zchar[
    00 ]roots@calculatedFrom(
    ""a\""b"" ) ,
}MetaData int
//	t
// @lengthOf(
{
float
roots , char u8x `// not a comment` , uint64 _x , // @lengthOf(
u128 chars
// @lengthOf(
//
`
`, i16  leftPad `" ++ [28040; 24687; 31867; 22411]%N ++ runes_of_ascii "` ,
u8
string_  ,
    // @lengthOf(
    }packet trueish
    { /// triple
asx
    //	t
    {
msg_type  {	repeat string A	`" ++ [233]%N ++ runes_of_ascii "`, }
,
    } , @tag( 65535
) Packet
_x `line1
line2`,
// packet A { u8 x, }
// a // b
repeat uint32 // @lengthOf(
x_y_z// a // b
`two words` // c
,@calculatedFrom( ""packet""
    )i64_
@lengthOf( Logon
) ,
    @rightPad (	'\x00' ) match
msg_type as
    Foo
{ [  ""{,}"" ,	""a	b"" , 10
, ""abc"" ]
    :
    u128 ,""// no comment"" :
lengthOf, ""a\""b"" : len// " ++ [27880; 37322]%N ++ runes_of_ascii "
,	""\n"" : x_y_z } ,
    repeat int32
asx `say ""hi""` ,
    @rightPad ( ) @tag(
00 ) @rightPad ( ' ' ) char[
    10 ]crc
@lengthOf(
    // packet A { u8 x, }
    metadata ) `
`
    ,
    @lengthOf(
msg_type	) char[] charz
@lengthOf( //x
Pad
) `crlf
line` , zchar[ 65535 ]
    a1	@calculatedFrom(
""a\\"" )  ,char[ 42
    ]
//x
// " ++ [128512]%N ++ runes_of_ascii " emoji
charz
, }
root packet BodyLength {@tag(	3
    )
@lengthOf(Header ) len @calculatedFrom(
""""
) `crlf
line` ,}")).
Eval vm_compute in ("<<<M994>>>" ++ check (runes_of_ascii "// c
packet options1 {	roots
    // " ++ [128512]%N ++ runes_of_ascii " emoji
    @lengthOf( zchar ) , @calculatedFrom(
""" ++ [128512]%N ++ runes_of_ascii """
)uint64 //
matchKey
, @tag(
42 ) i64
    // trailing space 
    Logon@lengthOf(
i64_  )// `tick` ""quote"" 'q'
`doc` //x
, @calculatedFrom(""a\""b""
    ) A , @calculatedFrom(
    ""it's"")repeat Pad``
, @tag( 7 ) zchar[ 00 ]  trueish`" ++ [233]%N ++ runes_of_ascii "`, repeat options1 {
repeatCount
{
Header ,
char[
// " ++ [128512]%N ++ runes_of_ascii " emoji
// packet A { u8 x, }
7 ]
Logon
`a\` , /// triple
}
,}, char[1
] int
`doc` , // a // b
@calculatedFrom(""""
)@calculatedFrom(
    ""a	b""
)
@lengthOf( packetx )
msg_type// trailing space 
{ string calculatedFrom `{ , }`
    // `tick` ""quote"" 'q'
    , zchar  @calculatedFrom(""" ++ [28040; 24687]%N ++ runes_of_ascii """
) , uint8
// " ++ [128512]%N ++ runes_of_ascii " emoji
// trailing space 
o `doc` // " ++ [128512]%N ++ runes_of_ascii " emoji
, f32a ,}  , //x
} MetaData
    Z9_ {
char A//	t
, }packet // trailing space 
options1 {
msg_type { chars ,	zchar[
3 ] crc
    `doc`, } ,
@lengthOf( crc) @tag(10) @lengthOf(asx
    )zchar[ 10 ]
Header @calculatedFrom( ""a\\"" ) `u8 x,` ,
} packet
int
{ string x_y_z , @calculatedFrom( ""\" ++ [233]%N ++ runes_of_ascii """)	match pack as
    roots { 65535 :
    options1 , // @lengthOf(
}
,
    }
")).
Eval vm_compute in ("<<<M1345>>>" ++ check (runes_of_ascii "
MetaData u128 { } packet string_
{ @lengthOf(	i64_
)
    /// triple
    repeat u16
    a1 , falsey	msg_type `doc`//
,@leftPad('\x00' )
u64 i64_
@calculatedFrom(
    //x
    """ ++ [28040; 24687]%N ++ runes_of_ascii """ )
,
    match
    body as len {""" ++ [128512]%N ++ runes_of_ascii """ :charz
    , //x
} , BodyLength
    `two words` // `tick` ""quote"" 'q'
,  @leftPad ( '0'
) repeat char
o
,
@tag( 42 // `tick` ""quote"" 'q'
) @tag( 1 )@calculatedFrom(""{,}""//
)
    u64 matchKey
@lengthOf( /// triple
charz)
    `// not a comment`
    ,	@calculatedFrom( ""1"")u8
A @lengthOf(
x_y_z )
    ,	@calculatedFrom( // a // b
""// no comment"" ) @lengthOf( falsey )	@calculatedFrom(""\" ++ [233]%N ++ runes_of_ascii """) match tag as f32a { [ ""\n""	, // " ++ [27880; 37322]%N ++ runes_of_ascii "
""x y"" ,
4294967296  , 00 , ""\n"" , 255
]:
    float ,
[ ""\" ++ [233]%N ++ runes_of_ascii """
] :packetx ,
    // " ++ [27880; 37322]%N ++ runes_of_ascii "
    0 :
Z9_
    , [
""" ++ [233]%N ++ runes_of_ascii "t" ++ [233]%N ++ runes_of_ascii """
]// `tick` ""quote"" 'q'
:	rootA
    ,} , } options{ f32a =
char[ 00 ]
    // `tick` ""quote"" 'q'
    ;
tag =
4294967296 ; rootA=""{,}"" } options
    {
//	t
// `tick` ""quote"" 'q'
msg_type =""\n"" ; f32a
=
""// no comment""
//x
// `tick` ""quote"" 'q'
; falsey = 65535 ;}
")).
Eval vm_compute in ("<<<M4178>>>" ++ check (runes_of_ascii "

  packet
    // `tick` ""quote"" 'q'
	  //x
		uint8x 
{
zchar[	007	] 
Header
    @calculatedFrom( ""a	b"" 
) ,
}
	packet

    i64_
    {

    @lengthOf(  crc  )  /// triple
string
	metadata
`
`	//	t
, 	 // trailing space 
	uint8x 	 // " ++ [128512]%N ++ runes_of_ascii " emoji

{
    repeat

    u16
    string_ ,
    }  , 	 // `tick` ""quote"" 'q'
	packetx  {
zchar[
0123456789
]
calculatedFrom	@calculatedFrom( """ ++ [28040; 24687]%N ++ runes_of_ascii """) `crlf
line`  ,
tag {	zchar[ 
007 ]
	tag 
@calculatedFrom(

    ""1""	)
    ,

string u , 
repeat  A  T, 
roots

    @lengthOf(
Logon
	)
,
	// `tick` ""quote"" 'q'

}, u8x `` ,int64

    metadata `tab	here`

, }
	,}
    packet
	rootA	{
@lengthOf( string_ ) Header
    A
    `doc`

    , 
match
stringy
as 
x
    { // c
    0123456789 :
metadata	, 0: rootA

, 42:

A ,
	[
00 ,
    ""abc""

    ] :

T 4294967296 :  a1 
, // @lengthOf(
    	} , 
@rightPad	(
	'0'
)	@tag( 4294967296

    )
	@tag( 00

    )
char[] Foo  @calculatedFrom( ""1"" ) `crlf
line`
, }")).
Eval vm_compute in ("<<<M1237>>>" ++ check (runes_of_ascii "// a // b
options
    { i64_ //
=
    false ; BodyLength
    =
    10	;} packet msg_type { @lengthOf( msg_type) match rootA as
    tag { ""1""	:// `tick` ""quote"" 'q'
u8x ,[""x y""
    ,// " ++ [128512]%N ++ runes_of_ascii " emoji
""" ++ [233]%N ++ runes_of_ascii "t" ++ [233]%N ++ runes_of_ascii """, 0123456789
, 007 , 7, 255 ,	7 , 65535]:matchKey,4294967296 :chars""packet"" : charz
    ,
    ""// no comment"": // a // b
i64_ ,
10 : MetaDataX  ,} , @lengthOf( metadata )
MetaDataX@calculatedFrom(""" ++ [233]%N ++ runes_of_ascii "t" ++ [233]%N ++ runes_of_ascii """ ) `
` , f32a{
matchKey, } , zchar[10 ]  _x
`line1
line2` ,metadata crc ,	@lengthOf( body) char[
3  ]string_ ,repeat T , trueish// @lengthOf(
i8i8 ,f32
Header`
`,	@leftPad	(' ' ) char[00 ]o , } packet zchar { @lengthOf( Packet
) @lengthOf( falsey)// " ++ [128512]%N ++ runes_of_ascii " emoji
repeat rootA `doc`
    , @leftPad // " ++ [128512]%N ++ runes_of_ascii " emoji
( ' '
// @lengthOf(
// @lengthOf(
) char[] float @lengthOf(
roots )
,
    }root packet //x
lengthOf{
rootA// trailing space 
@calculatedFrom(
    ""it's"" ) ,
} root
    packet repeatCount// a // b
{ }
")).
Eval vm_compute in ("<<<M1147>>>" ++ check (runes_of_ascii "
root packet options1
    { uint64	x ,	@lengthOf( i8i8
    ) repeat
char[ 0] len, crc `u8 x,`, As
@calculatedFrom(""a	b""
/// triple
// @lengthOf(
), @rightPad () @calculatedFrom( ""1""//x
) string charz @calculatedFrom(
""" ++ [233]%N ++ runes_of_ascii "t" ++ [233]%N ++ runes_of_ascii """	)`two words` , @tag( 00 )f32a
//x
//	t
{ char[] trueish@lengthOf( //	t
MetaDataX ) `// not a comment`
,repeat	int16 float
,
body `u8 x,` , } //x
, @calculatedFrom( // a // b
""x y""  )
//x
//
match Header as falsey { 7  :f32a , } ,  @tag( 00 )	match zchar
as
    Logon {
[7
, 7 ,
    ""`tick`"",
""\" ++ [233]%N ++ runes_of_ascii """ , 255] : A
, [ 1 ]  :Z9_ [ ""1"" , 1 ,
    ""`tick`"" ,""a	b""
,
//	t
// a // b
""\" ++ [233]%N ++ runes_of_ascii """ , """ ++ [28040; 24687]%N ++ runes_of_ascii """ ]	:
Pad [ ""1"" // " ++ [128512]%N ++ runes_of_ascii " emoji
, """" ,
1	,
00  ,""" ++ [128512]%N ++ runes_of_ascii """ , ""1"" , 1 , ""{,}"" ]
: Z9_ ,10:
A,
    """ ++ [233]%N ++ runes_of_ascii "t" ++ [233]%N ++ runes_of_ascii """
    : u8x
    // " ++ [128512]%N ++ runes_of_ascii " emoji
    , } , repeat int64 metadata ,
    @rightPad (
'0' )match tag as BodyLength
    {""CRC32"" : asx , 10:
    metadata , }
    ,}")).
Eval vm_compute in ("<<<M553>>>" ++ check (runes_of_ascii "packet
    A { calculatedFrom
    //
    @lengthOf(//
zchar ) `say ""hi""`	, @calculatedFrom(  ""{,}""
)
repeat
    u8x // `tick` ""quote"" 'q'
uint8x `u8 x,` ,
    match
//
// " ++ [128512]%N ++ runes_of_ascii " emoji
o as matchKey {
[ 3 ,""""]: T ,//
""{,}""// @lengthOf(
:
// a // b
// packet A { u8 x, }
calculatedFrom } ,
    repeat char[ 255	] u
,char[]Packet ,repeat int64
packetx// trailing space 
,  @leftPad( '\x00'
)@calculatedFrom( """" ) zchar { // trailing space 
f32
    //
    zchar `" ++ [28040; 24687; 31867; 22411]%N ++ runes_of_ascii "`,match
u128 as
    options1
{ [""abc"",10 ,
    65535 , 0 , ""\n"" ,""" ++ [128512]%N ++ runes_of_ascii """ ,
0123456789 ]
    : // a // b
chars
, 00 :
As
, ""a	b""
    : packetx, 10: a1, // packet A { u8 x, }
} , },
    float64 calculatedFrom @lengthOf( //
packetx
    ) ,char[ //x
00]
// " ++ [128512]%N ++ runes_of_ascii " emoji
//
string_ `
` , @calculatedFrom( ""it's""
    )@leftPad
()
    f32 BodyLength , }
// " ++ [27880; 37322]%N ++ runes_of_ascii "
")).
Eval vm_compute in ("<<<M798>>>" ++ check (runes_of_ascii "
options
    { MetaDataX = zchar[
10 ]
    ;
Pad
=	true // trailing space 
;asx=
    false ;Header=""" ++ [233]%N ++ runes_of_ascii "t" ++ [233]%N ++ runes_of_ascii """ roots = ""it's""
} // " ++ [128512]%N ++ runes_of_ascii " emoji
options { // a // b
a1
    =
//	t
//	t
false
;
asx	= '\x00'
; zchar  =""packet"" BodyLength	= """"// trailing space 
As
= true } packet rootA//x
{} packet	calculatedFrom { repeat	char[]
matchKey ,  repeat trueish {	i16 repeatCount @lengthOf( rootA ) , } , uint64
i8i8 , int64 _x @calculatedFrom(
""// no comment"") ,
@lengthOf(tag ) repeat
    leftPad	, @lengthOf( o  ) // " ++ [128512]%N ++ runes_of_ascii " emoji
zchar
    // packet A { u8 x, }
    @calculatedFrom(""`tick`""
) ,tag @lengthOf(
x_y_z
    // `tick` ""quote"" 'q'
    ) ,
A@lengthOf(
    uint8x )`u8 x,` ,/// triple
roots { u128
    ,	} , } root // " ++ [27880; 37322]%N ++ runes_of_ascii "
packet uint8x
{A // " ++ [27880; 37322]%N ++ runes_of_ascii "
@lengthOf(
    x )`" ++ [233]%N ++ runes_of_ascii "` , }")).
Eval vm_compute in ("<<<M1025>>>" ++ check (runes_of_ascii "root packet
roots //
{ // trailing space 
} root packet MetaDataX
{
char[255 ]	rootA , }/// triple
packet u8x { @rightPad
( // " ++ [27880; 37322]%N ++ runes_of_ascii "
) msg_type@lengthOf( Z9_
) , char[
    0
] x_y_z @lengthOf( len )// " ++ [27880; 37322]%N ++ runes_of_ascii "
`it's`// " ++ [128512]%N ++ runes_of_ascii " emoji
, @rightPad
( ' ') int16 calculatedFrom ,chars @lengthOf(//x
msg_type
)
//	t
// @lengthOf(
`it's`
,
    repeat pack { repeat u64 // c
x
    ,
}	, i8
metadata @calculatedFrom(""" ++ [28040; 24687]%N ++ runes_of_ascii """ )
,
    match o as len { [ 0123456789 ,
""a\""b"" , 65535
    // `tick` ""quote"" 'q'
    ,
""" ++ [128512]%N ++ runes_of_ascii """ , 0123456789 ,
""{,}""] : body 3:
As , 3: As ,
42 : int , 1// @lengthOf(
:
    o
    ,  [ 1
    ]
: o// c
,
} ,
zchar[ 007] asx
,
    asx
@lengthOf( zchar
// packet A { u8 x, }
// @lengthOf(
) ,
f64 Logon
    ``
    // " ++ [27880; 37322]%N ++ runes_of_ascii "
    ,
} //")).
Eval vm_compute in ("<<<M3988>>>" ++ check (runes_of_ascii "packet Frame {
    // c2a
    // c2b
    u8 HK,// c5a
    // c5b
    u8 BK,
    u8 TK,// c11a
    // c11b
    match HK as Hdr {
        // c16
        1 : HdrA,
        // c20a
        // c20b
        2 : HdrB,
    },
    // c26
    match BK as Body {
        // c31
        1 : BodyA,
        // c35
        2 : BodyB,
        // c39
    },// c41
    match TK as Trl {
        // c46
        1 : TrlA,
    },// c52
}// c53

packet HdrA {
    u8 a,
    // c59
}

packet HdrB {
    u16 b,
}// c67a

// c67b
packet BodyA {
    // c70
    u32 c,
    // c73
}

// c74
packet BodyB {
    // c77
    u64 d,// c80
}

// c81
packet TrlA {
    u8 e,
}

root packet Msg {
    Frame,
    u8 x,
}// c98")).
Eval vm_compute in ("<<<M688>>>" ++ check (runes_of_ascii "options { msg_type
=65535
    ; a1 = """ ++ [128512]%N ++ runes_of_ascii """
; Foo
=  ""\" ++ [233]%N ++ runes_of_ascii """matchKey
=
'0'
; chars = """ ++ [28040; 24687]%N ++ runes_of_ascii """
    //	t
    } packet lengthOf {
// c
//x
} MetaData body
{
    A len // packet A { u8 x, }
`" ++ [28040; 24687; 31867; 22411]%N ++ runes_of_ascii "` ,}
packet
    o{
@rightPad //x
(
'\x00' ) int
// `tick` ""quote"" 'q'
// packet A { u8 x, }
roots , repeat
    u8x
`tab	here`	,
i32 x_y_z @lengthOf( Logon
) `line1
line2`,
    _x
Z9_ , @lengthOf(
zchar )  i32 msg_type `doc`
,	@rightPad ( ' '	) i8 options1
    //
    ,
@lengthOf(packetx) charz
@lengthOf(
// packet A { u8 x, }
// trailing space 
o
    ) , @rightPad ( ' ' ) match /// triple
packetx as leftPad{
    [ ""{,}""  ,
""" ++ [128512]%N ++ runes_of_ascii """
    ]:
    charz	,
    } ,	}
")).
Eval vm_compute in ("<<<M1268>>>" ++ check (runes_of_ascii "  packet	Packet{ } root
packet pack { @calculatedFrom( ""CRC32"")string
pack`two words`
    // " ++ [128512]%N ++ runes_of_ascii " emoji
    , @lengthOf(Pad
    )
@lengthOf(
rootA ) i16 A`doc`, } options {asx =00;
string_= 7 ;
x_y_z= 0123456789; } packet uint8x { int32
trueish @lengthOf( roots ) `say ""hi""` ,
    @tag( 1 ) @lengthOf(	a1 )
match
f32a as
MetaDataX {
/// triple
// trailing space 
7 :	pack 65535 :
//
// `tick` ""quote"" 'q'
calculatedFrom
// a // b
// " ++ [27880; 37322]%N ++ runes_of_ascii "
, [
    3,""// no comment""
    ,  1 ,
/// triple
/// triple
0123456789 ]:
    // c
    Z9_ ,4294967296
: a1 ,007:int """ ++ [128512]%N ++ runes_of_ascii """ : o
,
}
    ,	repeat calculatedFrom a1 `crlf
line`
, }
")).
Eval vm_compute in ("<<<M4325>>>" ++ check (runes_of_ascii "

  packet  Logon// `tick` ""quote"" 'q'
	{@rightPad( 
)

repeat

    Z9_
	, match

i64_ 
	//x
	// @lengthOf(
	as len {

65535
        // " ++ [27880; 37322]%N ++ runes_of_ascii "
    // @lengthOf(
    :
MetaDataX
, """ ++ [128512]%N ++ runes_of_ascii """ :  u128,""" ++ [28040; 24687]%N ++ runes_of_ascii """
    :

lengthOf""a	b"" :  o

    ,[	255// c
] :
As
,[ ""\n""
]

    : 
    // @lengthOf(
  // trailing space 
    o  ,  }	,
@tag( 
  //	t

	// trailing space 

  42
	)
    @tag(1
    ) 	 //	t
string_@calculatedFrom( ""1""

    )
, } 
root packet

matchKey { repeat u32
    MetaDataX  ,float32

As
@lengthOf(
charz )
,a1	repeatCount	`
`  , } packet msg_type

// trailing space 
{  }
")).
Eval vm_compute in ("<<<M4091>>>" ++ check (runes_of_ascii "
root packet	rootA
    {
    @calculatedFrom( """ ++ [28040; 24687]%N ++ runes_of_ascii """ 
) u
`" ++ [233]%N ++ runes_of_ascii "`	, 
body
	, // " ++ [27880; 37322]%N ++ runes_of_ascii "

	x@lengthOf(	options1	// @lengthOf(
    )	, 
  // " ++ [128512]%N ++ runes_of_ascii " emoji
  // c
    matchKey
	, 
@calculatedFrom(""packet""
)char[] f32a
,u8	options1
    `tab	here`
,
}	packet
Packet//
		{}
options{chars=

    00

    ; Foo// packet A { u8 x, }

	=  true  ;
	trueish
    // " ++ [27880; 37322]%N ++ runes_of_ascii "
  = 
""1""

    ;	zchar = f64  ;	matchKey
    =// " ++ [27880; 37322]%N ++ runes_of_ascii "

false
	;

} 
packet metadata	{
	@leftPad(	'\x00'
)

f32
charz

@calculatedFrom( ""{,}"")
	`// not a comment` 
,

@calculatedFrom(	""1""
)	repeat int8
crc
    , }

")).
Eval vm_compute in ("<<<M4199>>>" ++ check (runes_of_ascii "options {
}

packet Packet {
    repeat zchar[0123456789] crc,
    repeat zchar[4294967296] Z9_,// packet A { u8 x, }
    rootA,
    repeat Packet {
        lengthOf {
            u8x `{ , }`,
            zchar[0123456789] lengthOf `{ , }`,// " ++ [27880; 37322]%N ++ runes_of_ascii "
            Header {
                repeat f32 As `line1
                line2`,
                charz @calculatedFrom(""1""),
            },
        },
    },
    i8 float @lengthOf(T),
    @lengthOf(metadata)
    @calculatedFrom(""packet"")
    @lengthOf(repeatCount)
    repeat f32 Foo,
}")).
Eval vm_compute in ("<<<M4443>>>" ++ check (runes_of_ascii "options {
    x = true
    trueish = 007;
    float = int64;/// triple
    metadata = true//	t
}

options {
    As = ""{,}"";
}

packet As {
    @rightPad('0')
    @leftPad('0')
    char[10] trueish,
    @calculatedFrom(""`tick`"")
    Foo {
        int64 packetx @calculatedFrom(""a\""b"") `" ++ [28040; 24687; 31867; 22411]%N ++ runes_of_ascii "`,
        repeat int64 int,
        zchar[007] Header,
        repeat body,// " ++ [27880; 37322]%N ++ runes_of_ascii "
    },
    repeat char[0] u8x,
    Pad,
    @rightPad('0')
    f64 leftPad `a\`,
    repeat rootA repeatCount `{ , }`,
    rootA float `doc`,
}")).
Eval vm_compute in ("<<<M786>>>" ++ check (runes_of_ascii "MetaData
    metadata{ } packet u // a // b
{ //
@lengthOf(	T) // packet A { u8 x, }
@lengthOf(u ) /// triple
@leftPad ('0'
//	t
// " ++ [27880; 37322]%N ++ runes_of_ascii "
) repeat
    uint8
x_y_z `" ++ [28040; 24687; 31867; 22411]%N ++ runes_of_ascii "`,
    } root packet A{ @tag(
    // a // b
    10 )
repeat zchar[ 0
    ]
    asx `doc` ,
    char[// @lengthOf(
7 ]float//x
@lengthOf(BodyLength)	`crlf
line` ,
zchar[ 0123456789 ] u128
,@rightPad
    ( )  repeat zchar[ 255
] Packet
    ``
    ,BodyLength Pad
,
    @tag(1
)zchar[
    10] float @lengthOf( roots) ,}")).
Eval vm_compute in ("<<<M366>>>" ++ check (runes_of_ascii "  packet tag  {
@calculatedFrom(""" ++ [28040; 24687]%N ++ runes_of_ascii """)A
    `" ++ [233]%N ++ runes_of_ascii "`
    ,
    // a // b
    match u as
// c
// trailing space 
len	{ [42 , """ ++ [233]%N ++ runes_of_ascii "t" ++ [233]%N ++ runes_of_ascii """ ] : As
42 :
    string_
,
""CRC32"" :
body , ""x y"":
    x //
,  [
// `tick` ""quote"" 'q'
// @lengthOf(
007 , 4294967296 ,""{,}"" ,
""""
    , """ ++ [28040; 24687]%N ++ runes_of_ascii """ , ""it's"" , """ ++ [128512]%N ++ runes_of_ascii """
    ] : u
    // " ++ [128512]%N ++ runes_of_ascii " emoji
    ,""" ++ [28040; 24687]%N ++ runes_of_ascii """  : _x,  }
,@lengthOf(rootA) u128 `doc`
,// " ++ [27880; 37322]%N ++ runes_of_ascii "
} options { falsey
=
string
string_=int8 ; } options
{// c
charz
// c
// trailing space 
= ""CRC32"" }
")).
Eval vm_compute in ("<<<M739>>>" ++ check (runes_of_ascii "
packet
    Pad{// `tick` ""quote"" 'q'
@tag( 42)
body
u8x , char[ 3 ]
u128
`it's`
,
char[ 4294967296 ]uint8x`two words`  ,@lengthOf(	f32a ) body {repeat string roots ,Pad @calculatedFrom( ""\" ++ [233]%N ++ runes_of_ascii """ // trailing space 
)
,
// trailing space 
// " ++ [27880; 37322]%N ++ runes_of_ascii "
metadata  crc`tab	here`, lengthOf
    {zchar[  0 ] x_y_z
    // packet A { u8 x, }
    @lengthOf( crc )
    `u8 x,` ,char[] roots ,
    //x
    } ,
    } ,	}
    // c
    options {rootA =""packet""
    }")).
Eval vm_compute in ("<<<M1250>>>" ++ check (runes_of_ascii "  MetaData metadata	{repeatCount
asx, u16 trueish ,i8i8 Foo
`say ""hi""`// packet A { u8 x, }
, char[ 4294967296 ]
u,
} packet uint8x {
repeat char[]
    u, @tag(007 )  char[7 ]falsey@calculatedFrom(""" ++ [233]%N ++ runes_of_ascii "t" ++ [233]%N ++ runes_of_ascii """ ) , @leftPad (
    '\x00' )
@lengthOf(	leftPad )
Packet{
    repeat //	t
packetx Header ,tag `" ++ [233]%N ++ runes_of_ascii "` , i16 _x `a\` , },	repeat A {//	t
repeat Header
`doc` ,i64_  , char[ 10] asx
    `two words`
, }// `tick` ""quote"" 'q'
,} 	 ")).
Eval vm_compute in ("<<<M813>>>" ++ check (runes_of_ascii "packet chars	{
} root  packet chars { zchar[// @lengthOf(
00 ]
    lengthOf
    `" ++ [28040; 24687; 31867; 22411]%N ++ runes_of_ascii "` ,}root packet  tag  {
    @rightPad ( '\x00' ) zchar[ 3] Foo @lengthOf(pack),
zchar[ 10 ]tag ,	repeat uint32
int, @rightPad
    ( '\x00'
)	@lengthOf(f32a ) @rightPad
//
//x
( ' ' )Packet int ,
match
    //	t
    len// " ++ [27880; 37322]%N ++ runes_of_ascii "
as i8i8
{ 10	: chars ,}
    , @calculatedFrom( ""x y"" ) Z9_
    @calculatedFrom(	""it's""	) ,
    } //	t")).
Eval vm_compute in ("<<<M3889>>>" ++ check (runes_of_ascii "packet body {
    Pad {
        a1 `crlf
        line`,
        zchar[007] a1,
        char[10] x_y_z,
        repeat zchar[1] metadata `u8 x,`,
    },
    string trueish,
    repeat uint8x u,
    @tag(007)
    calculatedFrom {
        repeat BodyLength `doc`,
    },
    int64 lengthOf,/// triple
    @lengthOf(leftPad)
    @calculatedFrom(""x y"")
    @calculatedFrom(""\" ++ [233]%N ++ runes_of_ascii """)
    falsey a1,
}")).
Eval vm_compute in ("<<<M114>>>" ++ check (runes_of_ascii "packet BodyLength {  @tag(
0 )
    char[
4294967296 ]
    options1 , }
    root packet asx{ repeat string //x
zchar //	t
,
    repeat char string_ `" ++ [28040; 24687; 31867; 22411]%N ++ runes_of_ascii "` ,
    } options{ rootA = zchar[ 00
] ;len = ""a\""b"" ; float =7;uint8x= f64 ;// `tick` ""quote"" 'q'
}root packet
    stringy{trueish Foo , } packet
pack{ u64
// @lengthOf(
// c
repeatCount @lengthOf( Header
    ) ,
}

")).
Eval vm_compute in ("<<<M4282>>>" ++ check (runes_of_ascii "
MetaData 
u

    { }  options  { 
// c
	// @lengthOf(
      float = int8  ;
    rootA
    =

false
;
As
= 
int16 // `tick` ""quote"" 'q|'
    repeatCount
    // trailing space 
	=

int16 ;
u8x
= 
//	t

  '\x00'
;
}options{
	repeatCount= 
0  u128
    //
  =
    false ;
i64_ 

    // trailing space 
	// `tick` ""quote"" 'q'

='0'

    ;//	t

  }

")).
Eval vm_compute in ("<<<M1152>>>" ++ check (runes_of_ascii "packet lengthOf { string falsey
//
// trailing space 
, repeat char[] tag  `
`
    // " ++ [27880; 37322]%N ++ runes_of_ascii "
    ,
    @rightPad('0' ) body { int8 pack@calculatedFrom( """" )`say ""hi""`
    ,// a // b
repeat
    char calculatedFrom ,float32 leftPad @lengthOf(
A )
// c
// @lengthOf(
, int64  Header ,	}
, i64_`{ , }`
,
f64 repeatCount `" ++ [233]%N ++ runes_of_ascii "` ,
} // trailing space ")).
Eval vm_compute in ("<<<M200>>>" ++ check (runes_of_ascii "options
{ }	MetaData
Foo {
char[
    0 ]  Logon `u8 x,` ,// packet A { u8 x, }
zchar[ 255 ]
    calculatedFrom `
` ,
    zchar[ 00 ]o
    `u8 x,` ,char[255 ]
Header `a\`// `tick` ""quote"" 'q'
, // a // b
Pad
    Pad ,
    } packet i8i8 {
    u32
    // " ++ [128512]%N ++ runes_of_ascii " emoji
    float,// @lengthOf(
As @calculatedFrom( ""// no comment"" ) , }")).
Eval vm_compute in ("<<<M1923>>>" ++ check (runes_of_ascii "MetaData
    u { }  options {
// c
// @lengthOf(
float = int8 ;rootA =false repeat As =	int16 // `tick` ""quote"" 'q'
repeatCount
    // trailing space 
    =
    int16
; u8x =
    //	t
    '\x00' ; } options	{
    repeatCount
= 0
u128
    //
    = false ; i64_
// trailing space 
// `tick` ""quote"" 'q'
= '0' ; //	t
}
")).
Eval vm_compute in ("<<<M1901>>>" ++ check (runes_of_ascii "MetaData
    u { }  options {
// c
// @lengthOf(
float = int8 ; ;rootA =false ; As =	int16 // `tick` ""quote"" 'q'
repeatCount
    // trailing space 
    =
    int16
; u8x =
    //	t
    '\x00' ; } options	{
    repeatCount
= 0
u128
    //
    = false ; i64_
// trailing space 
// `tick` ""quote"" 'q'
= '0' ; //	t
}
")).
Eval vm_compute in ("<<<M1907>>>" ++ check (runes_of_ascii "MetaData
    u { }  options {
// c
// @lengthOf(
float = int8 ;= rootA false ; As =	int16 // `tick` ""quote"" 'q'
repeatCount
    // trailing space 
    =
    int16
; u8x =
    //	t
    '\x00' ; } options	{
    repeatCount
= 0
u128
    //
    = false ; i64_
// trailing space 
// `tick` ""quote"" 'q'
= '0' ; //	t
}
")).
Eval vm_compute in ("<<<M1952>>>" ++ check (runes_of_ascii "MetaData
    u { }  options {
// c
// @lengthOf(
float = int8 ;rootA =false ; As =	int16 // `tick` ""quote"" 'q'
repeatCount
    // trailing space 
    =
    ;
int16 u8x =
    //	t
    '\x00' ; } options	{
    repeatCount
= 0
u128
    //
    = false ; i64_
// trailing space 
// `tick` ""quote"" 'q'
= '0' ; //	t
}
")).
Eval vm_compute in ("<<<M1888>>>" ++ check (runes_of_ascii "MetaData
    u { }  options {
// c
// @lengthOf(
root = int8 ;rootA =false ; As =	int16 // `tick` ""quote"" 'q'
repeatCount
    // trailing space 
    =
    int16
; u8x =
    //	t
    '\x00' ; } options	{
    repeatCount
= 0
u128
    //
    = false ; i64_
// trailing space 
// `tick` ""quote"" 'q'
= '0' ; //	t
}
")).
Eval vm_compute in ("<<<M1229>>>" ++ check (runes_of_ascii "packet leftPad { repeat string x	,float matchKey  `u8 x,` ,	repeat zchar[1 ]  u8x `doc` , @leftPad
( ' ' ) i8i8 @lengthOf(
rootA )// c
,
//	t
// trailing space 
int8 //
x `doc` ,
// c
// @lengthOf(
@tag( 1) @leftPad (
'\x00' ) @lengthOf( // packet A { u8 x, }
_x
)
char[] x @calculatedFrom(""""
    )
    ,	}
")).
Eval vm_compute in ("<<<M342>>>" ++ check (runes_of_ascii "root packet roots {  @tag(7 // `tick` ""quote"" 'q'
) int64
    A ,}
//
//
packet u128
    // a // b
    { msg_type Pad
`line1
line2` , }options {crc = ""\" ++ [233]%N ++ runes_of_ascii """
; }
    root packet _x
    {
@lengthOf( pack// " ++ [27880; 37322]%N ++ runes_of_ascii "
)
    i16 MetaDataX	, calculatedFrom
    { packetx@lengthOf(BodyLength )`{ , }` , } // a // b
,}")).
Eval vm_compute in ("<<<M3602>>>" ++ check (runes_of_ascii "// top
packet // c0
FooBar // c1a
  // c1b
{ // c2
u8 a , // c5a
  // c5b
} // c6a
  // c6b
packet // c7a
  // c7b
foo_bar
    // c8
{ // c9a
  // c9b
u16
    // c10
b // c11a
  // c11b
, }
    // c13
root // c14
packet // c15
R // c16
{
    // c17
FooBar // c18
, // c19
foo_bar
    // c20
, } ")).
Eval vm_compute in ("<<<M29>>>" ++ check (runes_of_ascii "// `tick` ""quote"" 'q'
MetaData
    pack {
string MetaDataX , //
zchar[ 65535
] i8i8, pack rootA	`say ""hi""` ,
    string_ Header `crlf
line` ,
int64
string_ ,
/// triple
//	t
char[]
packetx
,	} options
    { trueish
= ' '
; i64_ =
i16 pack = u16
;
len =false }	MetaData i64_{ }")).
Eval vm_compute in ("<<<M725>>>" ++ check (runes_of_ascii "MetaData Header
    {
    char[ 1 ] As
    ,
}  MetaData
As { } root
// a // b
// `tick` ""quote"" 'q'
packet packetx { // " ++ [27880; 37322]%N ++ runes_of_ascii "
T  @lengthOf(
    packetx) ,/// triple
i8i8 {float
`" ++ [233]%N ++ runes_of_ascii "`
    ,  char[] A
// `tick` ""quote"" 'q'
// a // b
,falsey lengthOf
, }, repeat  roots ,}")).
Eval vm_compute in ("<<<M3747>>>" ++ check (runes_of_ascii "options
{ 
i64_ = ""\n""

    ;BodyLength=float64

i64_

= false
    ;} MetaData

    Packet	{ uint16
A

`u8 x,`,  zchar[
007	]
    i64_

    ,  char[007

    ]

chars , float64
    x_y_z,  MetaDataX
	stringy`// not a comment`
,} MetaData
msg_type 
{ }
")).
Eval vm_compute in ("<<<M1518>>>" ++ check (runes_of_ascii "packet
//	t
// trailing space 
_x {
// packet A { u8 x, }
// c
char[
3
    ] u8x u8x @lengthOf(
u8x ) , @calculatedFrom(""" ++ [128512]%N ++ runes_of_ascii """ // @lengthOf(
)
i16	Foo
@lengthOf(	string_
    )`doc`	, repeat	i64 metadata , @lengthOf( string_
) i8 // c
u  `line1
line2`	,
}
")).
Eval vm_compute in ("<<<M1633>>>" ++ check (runes_of_ascii "packet
//	t
// trailing space 
_x {
// packet A { u8 x, }
// c
char[
3
    ] u8x @lengthOf(
u8x ) , @calculatedFrom(""" ++ [128512]%N ++ runes_of_ascii """ // @lengthOf(
)
i16	Foo
@lengthOf(	string_
    )`doc`	, repeat	i64 metadata , @lengthOf( string_
) i8 // c
u u  `line1
line2`	,
}
")).
Eval vm_compute in ("<<<M1509>>>" ++ check (runes_of_ascii "packet
//	t
// trailing space 
_x {
// packet A { u8 x, }
// c
char[
]
    3 u8x @lengthOf(
u8x ) , @calculatedFrom(""" ++ [128512]%N ++ runes_of_ascii """ // @lengthOf(
)
i16	Foo
@lengthOf(	string_
    )`doc`	, repeat	i64 metadata , @lengthOf( string_
) i8 // c
u  `line1
line2`	,
}
")).
Eval vm_compute in ("<<<M1670>>>" ++ check (runes_of_ascii "packet
//	t
// trailing space 
x" ++ [178]%N ++ runes_of_ascii " {
// packet A { u8 x, }
// c
char[
3
    ] u8x @lengthOf(
u8x ) , @calculatedFrom(""" ++ [128512]%N ++ runes_of_ascii """ // @lengthOf(
)
i16	Foo
@lengthOf(	string_
    )`doc`	, repeat	i64 metadata , @lengthOf( string_
) i8 // c
u  `line1
line2`	,
}
")).
Eval vm_compute in ("<<<M1562>>>" ++ check (runes_of_ascii "packet
//	t
// trailing space 
_x {
// packet A { u8 x, }
// c
char[
3
    ] u8x @lengthOf(
u8x ) , @calculatedFrom(""" ++ [128512]%N ++ runes_of_ascii """ // @lengthOf(
)
i16	
@lengthOf(	string_
    )`doc`	, repeat	i64 metadata , @lengthOf( string_
) i8 // c
u  `line1
line2`	,
}
")).
Eval vm_compute in ("<<<M1522>>>" ++ check (runes_of_ascii "packet
//	t
// trailing space 
_x {
// packet A { u8 x, }
// c
char[
3
    ] u8x 
u8x ) , @calculatedFrom(""" ++ [128512]%N ++ runes_of_ascii """ // @lengthOf(
)
i16	Foo
@lengthOf(	string_
    )`doc`	, repeat	i64 metadata , @lengthOf( string_
) i8 // c
u  `line1
line2`	,
}
")).
Eval vm_compute in ("<<<M1132>>>" ++ check (runes_of_ascii "packet //
x
    { } packet lengthOf{  repeat a1 { lengthOf @lengthOf( x_y_z ) ,// `tick` ""quote"" 'q'
zchar[ 0123456789
    ]Packet , leftPad
    u,
    zchar[1 ] Foo
    // @lengthOf(
    @calculatedFrom(""`tick`""// " ++ [27880; 37322]%N ++ runes_of_ascii "
) , }
,  } 	 ")).
Eval vm_compute in ("<<<M493>>>" ++ check (runes_of_ascii "options { }// a // b
packet BodyLength {zchar[
0123456789
] packetx
`doc`
, repeat
msg_type `// not a comment`
// @lengthOf(
// c
,	zchar[00 ] len, chars
@lengthOf(  chars ) `a\`	, }
MetaData
_x {	asx MetaDataX `{ , }`, }
")).
Eval vm_compute in ("<<<M100>>>" ++ check (runes_of_ascii "
options{ calculatedFrom = false ; } packet i64_
{
    body,
//	t
//x
}/// triple
options { float
=	true ;// @lengthOf(
charz =// a // b
char[65535 ]; u=/// triple
true ;metadata = ""\" ++ [233]%N ++ runes_of_ascii """  matchKey = '\x00'
    } // " ++ [27880; 37322]%N)).
Eval vm_compute in ("<<<M1673>>>" ++ check (runes_of_ascii "options options { trueish = ""`tick`"" ; string_= """ ++ [233]%N ++ runes_of_ascii "t" ++ [233]%N ++ runes_of_ascii """
    // c
    } root
    packet body { stringy @calculatedFrom(
""a	b"" ) `line1
line2` , }
packet Logon {
    @leftPad(
    ' ' ) //	t
u16 string_ `u8 x,` ,
}
")).
Eval vm_compute in ("<<<M1732>>>" ++ check (runes_of_ascii "options { trueish = ""`tick`"" ; string_= """ ++ [233]%N ++ runes_of_ascii "t" ++ [233]%N ++ runes_of_ascii """
    // c
    } root
    packet body body { stringy @calculatedFrom(
""a	b"" ) `line1
line2` , }
packet Logon {
    @leftPad(
    ' ' ) //	t
u16 string_ `u8 x,` ,
}
")).
Eval vm_compute in ("<<<M1839>>>" ++ check (runes_of_ascii "options { trueish = ""`tick`"" ; string_= """ ++ [233]%N ++ runes_of_ascii "t" ++ [233]%N ++ runes_of_ascii """
    // c
    } root
    packet body { stringy @calculatedFrom(
""a	b"" ) `line1
line2` , $ }
packet Logon {
    @leftPad(
    ' ' ) //	t
u16 string_ `u8 x,` ,
}
")).
Eval vm_compute in ("<<<M1703>>>" ++ check (runes_of_ascii "options { trueish = ""`tick`"" ; =string_ """ ++ [233]%N ++ runes_of_ascii "t" ++ [233]%N ++ runes_of_ascii """
    // c
    } root
    packet body { stringy @calculatedFrom(
""a	b"" ) `line1
line2` , }
packet Logon {
    @leftPad(
    ' ' ) //	t
u16 string_ `u8 x,` ,
}
")).
Eval vm_compute in ("<<<M865>>>" ++ check (runes_of_ascii "packet calculatedFrom
    { @calculatedFrom(
""{,}"" )
    // c
    @tag(
    65535 ) f32 Packet @lengthOf(o )
    , @calculatedFrom(  ""`tick`"" ) uint32 MetaDataX  @calculatedFrom(""it's""  ) ``,
} // a // b")).
Eval vm_compute in ("<<<M3704>>>" ++ check (runes_of_ascii "options {
    u8x = zchar[42];
    roots = """ ++ [233]%N ++ runes_of_ascii "t" ++ [233]%N ++ runes_of_ascii """;
    calculatedFrom = '0'
    As = ""packet"";
}

options {
    falsey = 10;
    A = '\x00';
    leftPad = """ ++ [233]%N ++ runes_of_ascii "t" ++ [233]%N ++ runes_of_ascii """;
    crc = u16;
    As = 255
}/// triple")).
Eval vm_compute in ("<<<M1791>>>" ++ check (runes_of_ascii "options { trueish = ""`tick`"" ; string_= """ ++ [233]%N ++ runes_of_ascii "t" ++ [233]%N ++ runes_of_ascii """
    // c
    } root
    packet body { stringy @calculatedFrom(
""a	b"" ) `line1
line2` , }
packet Logon {
    (
    ' ' ) //	t
u16 string_ `u8 x,` ,
}
")).
Eval vm_compute in ("<<<M3590>>>" ++ check (runes_of_ascii "// top
packet // c0
orderItem // c1a
  // c1b
{ u8 // c3
a // c4
, } // c6
root
    // c7
packet // c8a
  // c8b
newOrder // c9
{
    // c10
orderItem , // c12a
  // c12b
u8
    // c13
x , } ")).
Eval vm_compute in ("<<<M3361>>>" ++ check (runes_of_ascii "// top
packet
    // c0
x
    // c1
{
    // c2
@rightPad
    // c3
(
    // c4
)
    // c5
repeat
    // c6
roots
    // c7
Logon
    // c8
`doc`
    // c9
,
    // c10
}
    // c11
")).
Eval vm_compute in ("<<<M3897>>>" ++ check (runes_of_ascii "
packet
	Z9_
    { }
    packet
    f32a
{ repeat
metadata 

    //	t
  // " ++ [27880; 37322]%N ++ runes_of_ascii "
	  `
`

    ,
charz 	 // @lengthOf(
  @calculatedFrom(

    ""a\\"")
	,

    i64

charz, }
")).
Eval vm_compute in ("<<<M1377>>>" ++ check (runes_of_ascii "packet trueish { Header repeatCount
,
    repeat metadata //	t
tag // packet A { u8 x, }
, //	t
@lengthOf( calculatedFrom	) MetaDataX @lengthOf( packetx ) // a // b
, }
")).
Eval vm_compute in ("<<<M4228>>>" ++ check (runes_of_ascii "  // c
	packet 
x
{@lengthOf( metadata
)repeat
lengthOf
	,a1 
{  trueish ,  // c
	//	t
    MetaDataX
	, },zchar[

    42  ]
rootA  // `tick` ""quote"" 'q'
  ,  }
")).
Eval vm_compute in ("<<<M1006>>>" ++ check (runes_of_ascii "options {
    calculatedFrom //x
=float64; x_y_z = 00 } packet roots { @lengthOf( trueish)  zchar[
// trailing space 
// c
42  ] charz , } MetaData Header {  }")).
Eval vm_compute in ("<<<M2145>>>" ++ check (runes_of_ascii "options{
_x
= true
} options
{ o	= /// triple
false
    ; chars
= ""\n"" ""\n"" } root packet	Pad
/// triple
// packet A { u8 x, }
{	chars
    // a // b
    ,}")).
Eval vm_compute in ("<<<M2423>>>" ++ check (runes_of_ascii "// c
packet x { @lengthOf( metadata ) repeat lengthOf
,a1{
trueish	,// c
repeat//	t
MetaDataX , u16 , zchar[
    42	] rootA // `tick` ""quote"" 'q'
,
    }
")).
Eval vm_compute in ("<<<M2185>>>" ++ check (runes_of_ascii "options{
_x
= true
} options
{ o	= /// triple
false
    ; chars
= ""\n"" } root packet	Pad
/// triple
// packet A { u8 x, }
{	chars
    // a // b
    ,} }")).
Eval vm_compute in ("<<<M2196>>>" ++ check (runes_of_ascii "options{
_x
= true
} options
{ o	= /// triple
false
" ++ [0]%N ++ runes_of_ascii "    ; chars
= ""\n"" } root packet	Pad
/// triple
// packet A { u8 x, }
{	chars
    // a // b
    ,}")).
Eval vm_compute in ("<<<M2132>>>" ++ check (runes_of_ascii "options{
_x
= true
} options
{ o	= /// triple
false
    ] chars
= ""\n"" } root packet	Pad
/// triple
// packet A { u8 x, }
{	chars
    // a // b
    ,}")).
Eval vm_compute in ("<<<M2149>>>" ++ check (runes_of_ascii "options{
_x
= true
} options
{ o	= /// triple
false
    ; chars
= ""\n""  root packet	Pad
/// triple
// packet A { u8 x, }
{	chars
    // a // b
    ,}")).
Eval vm_compute in ("<<<M4536>>>" ++ check (runes_of_ascii "
packet
A {	match

    k
    as n {

    [ 1
, ""bb"" 
,
	007 ,""d"" , 5
	,
""f"",
7 , 
""h"" , 9
,

""j""
,
	11

]

:	B 
2
:
	C

    }	,

    }
")).
Eval vm_compute in ("<<<M4293>>>" ++ check (runes_of_ascii "packet
T
{
	@lengthOf( // trailing space 
  matchKey // packet A { u8 x, }

) match u

    as
crc  {[""it's"", ""CRC32""
    ,	3  ] 
:Z9_ ,  }  ,}

")).
Eval vm_compute in ("<<<M594>>>" ++ check (runes_of_ascii "packet
i8i8 {int32 As, options1{
    repeat
int{
    //
    uint16
u, // a // b
zchar`say ""hi""`
// " ++ [128512]%N ++ runes_of_ascii " emoji
//	t
,
char[] trueish , }, } ,
}")).
Eval vm_compute in ("<<<M788>>>" ++ check (runes_of_ascii "MetaData //x
matchKey {u calculatedFrom, } root packet u128 {string BodyLength @lengthOf( u8x ) , int @lengthOf( f32a ) `" ++ [28040; 24687; 31867; 22411]%N ++ runes_of_ascii "`
    , } 	 ")).
Eval vm_compute in ("<<<M4326>>>" ++ check (runes_of_ascii "packet 
A

{	match  k as n { [

    ""a""
,
22  ,""c c""
	,
	4 , ""e""
,	66,
""g""

    , 8	,
""i""

,
	10

] :
	B
    ,2	:	C
	}

,
	} ")).
Eval vm_compute in ("<<<M787>>>" ++ check (runes_of_ascii "packet MetaDataX
    //
    { @calculatedFrom( ""it's""
    )	repeat int8 u128
// packet A { u8 x, }
//	t
`// not a comment`
, }")).
Eval vm_compute in ("<<<M1319>>>" ++ check (runes_of_ascii "// `tick` ""quote"" 'q'
options { i8i8
=
    // @lengthOf(
    ""{,}""  ;
calculatedFrom
// " ++ [128512]%N ++ runes_of_ascii " emoji
// trailing space 
=42 ;
}")).
Eval vm_compute in ("<<<M3317>>>" ++ check (runes_of_ascii "root packet matchKey
// c
{ zchar[ 3 ] pack @calculatedFrom( ""a	b"" ) `doc` , } options { } MetaData A { int8 msg_type , }")).
Eval vm_compute in ("<<<M3349>>>" ++ check (runes_of_ascii "root packet matchKey { zchar[ 3 ] pack @calculatedFrom( ""a	b"" ) `doc` , } options { } MetaData A
// c
{ int8 msg_type , }")).
Eval vm_compute in ("<<<M4273>>>" ++ check (runes_of_ascii "
MetaData
    body{
i64  pack  
      // c
		`it's`, }

    packet

stringy
	{

    int16
	calculatedFrom
	,
}
")).
Eval vm_compute in ("<<<M1429>>>" ++ check (runes_of_ascii "
packet
    falsey { Header@calculatedFrom(""packet""  , ) char[
    0123456789 ] packetx
    , } // `tick` ""quote"" 'q'")).
Eval vm_compute in ("<<<M4059>>>" ++ check (runes_of_ascii "MetaData matchKey {
    char[255] Pad `it's`,
    u8 x_y_z,
    i64_ packetx `tab	here`,
    trueish zchar `it's`,
}")).
Eval vm_compute in ("<<<M961>>>" ++ check (runes_of_ascii "
options{ Pad
=zchar[
    10
    ]  ;a1 //
=
    ""1""	stringy
=
""{,}""
;
uint8x='0' BodyLength =
    1 ; //	t
}")).
Eval vm_compute in ("<<<M213>>>" ++ check (runes_of_ascii "root packet repeatCount
// c
// " ++ [128512]%N ++ runes_of_ascii " emoji
{
msg_type// `tick` ""quote"" 'q'
{
float64 lengthOf
`" ++ [233]%N ++ runes_of_ascii "`,
}
    ,  }")).
Eval vm_compute in ("<<<M3983>>>" ++ check (runes_of_ascii "options {
    stringy = '0';
    body = ""// no comment"";
    pack = char[]
}

options {
    x = 65535
}//x")).
Eval vm_compute in ("<<<M4345>>>" ++ check (runes_of_ascii "options {
    options1 = uint64;
}

root packet T {
    MetaDataX `// not a comment`,
}

packet crc {
}")).
Eval vm_compute in ("<<<M992>>>" ++ check (runes_of_ascii "packet BodyLength {
    uint16 tag // packet A { u8 x, }
, uint8 Header @lengthOf(
    chars )
, }
")).
Eval vm_compute in ("<<<M3535>>>" ++ check (runes_of_ascii "  packet
    Inner

    {	u8

    a

    ,  }	root packet

P
{ Inner	ref_obj ,
	u8

x
, }
")).
Eval vm_compute in ("<<<M4188>>>" ++ check (runes_of_ascii "MetaData a1 {
    Foo body `{ , }`,
    int32 int ``,
    i32 a1 `" ++ [28040; 24687; 31867; 22411]%N ++ runes_of_ascii "`,
    int8 msg_type ``,
}")).
Eval vm_compute in ("<<<M3532>>>" ++ check (runes_of_ascii "

  options
{
	LittleEndian
    =	true
; }	root packet

P

    {repeat  char cs,u8
x	, 
}")).
Eval vm_compute in ("<<<M3935>>>" ++ check (runes_of_ascii "packet A {
    u32 crc @calculatedFrom(""\
    ""),
    @calculatedFrom(""\
    "")
    u8 y,
}")).
Eval vm_compute in ("<<<M2943>>>" ++ check (runes_of_ascii "packet A {
  match k as n {
    [""a"", 22, ""c c"", 4, ""e"", 66, ""g"", 8] : B
    2 : C
  },
}")).
Eval vm_compute in ("<<<M3297>>>" ++ check (runes_of_ascii "MetaData float { float64 charz `
` , } root packet chars { @rightPad ( '0' // c
) Foo , }")).
Eval vm_compute in ("<<<M3508>>>" ++ check (runes_of_ascii "packet chars { } packet MetaDataX { @tag( 42 ) i16 string_
// c
, repeat x `say ""hi""` , }")).
Eval vm_compute in ("<<<M2934>>>" ++ check (runes_of_ascii "packet A {
  match k as n {
    [""a"", ""bb"", 007, ""d"", ""e"", 66, ""g""] : B
    2 : C
  },
}")).
Eval vm_compute in ("<<<M4369>>>" ++ check (runes_of_ascii "
options
	{ 
FixedStringPadFromLeft
=	true  ;}root
packet P  {
    char[	4] z

,
	}

")).
Eval vm_compute in ("<<<M3216>>>" ++ check (runes_of_ascii "packet metadata
// c
{ Logon { A `" ++ [28040; 24687; 31867; 22411]%N ++ runes_of_ascii "` , tag o , } , zchar len `// not a comment` , }")).
Eval vm_compute in ("<<<M3465>>>" ++ check (runes_of_ascii "packet o { repeat Logon uint8x , } options { asx = zchar[ 3 ] stringy = '\x00' } // c
")).
Eval vm_compute in ("<<<M3439>>>" ++ check (runes_of_ascii "packet o { repeat Logon uint8x // c
, } options { asx = zchar[ 3 ] stringy = '\x00' }")).
Eval vm_compute in ("<<<M2778>>>" ++ check (runes_of_ascii "char[] @calculatedFrom( int32 string match false MetaData @tag( i16 } repeat : uint8")).
Eval vm_compute in ("<<<M4568>>>" ++ check (runes_of_ascii "// top
    MetaData
	    // c0
  o 
    // c1
	{

    // c2
    } 
        // c3
")).
Eval vm_compute in ("<<<M3414>>>" ++ check (runes_of_ascii "MetaData body { i64 pack `it's` , } packet stringy { // c
int16 calculatedFrom , }")).
Eval vm_compute in ("<<<M413>>>" ++ check (runes_of_ascii "options
    {
    Foo =  u16
;
    As
=
char lengthOf = 00 As =
false ;
    }
")).
Eval vm_compute in ("<<<M4308>>>" ++ check (runes_of_ascii "MetaData T {
    char[] packetx,//
    Packet u,
    i32 _x,
    uint16 asx,
}")).
Eval vm_compute in ("<<<M83>>>" ++ check (runes_of_ascii "MetaData
Packet
{
    }options { Z9_ =
char[] ; _x=
'0';
body
=
false }
")).
Eval vm_compute in ("<<<M2897>>>" ++ check (runes_of_ascii "packet A {
  match k as n {
    [1, 22, 007, 4, 5] : B,
    2 : C
  },
}")).
Eval vm_compute in ("<<<M161>>>" ++ check (runes_of_ascii "// trailing space 
packet
Header { // c
repeat  char[] MetaDataX , }")).
Eval vm_compute in ("<<<M3564>>>" ++ check (runes_of_ascii "root packet P {
    u16 a,
    u32 Sum @calculatedFrom(""CRC32""),
}
")).
Eval vm_compute in ("<<<M2143>>>" ++ check (runes_of_ascii "options{
_x
= true
} options
{ o	= /// triple
false
    ; chars")).
Eval vm_compute in ("<<<M2290>>>" ++ check (runes_of_ascii "options
{ } options { BodyLength= u16 Header= f64 ; u128 =
  ")).
Eval vm_compute in ("<<<M2859>>>" ++ check (runes_of_ascii "packet A {
  match k as n {
    [""a""] : B,
    2 : C
  },
}")).
Eval vm_compute in ("<<<M3373>>>" ++ check (runes_of_ascii "packet x { @rightPad ( // c
) repeat roots Logon `doc` , }")).
Eval vm_compute in ("<<<M1441>>>" ++ check (runes_of_ascii "
packet
    falsey { Header@calculatedFrom(""packet""  ) ,")).
Eval vm_compute in ("<<<M2133>>>" ++ check (runes_of_ascii "options{
_x
= true
} options
{ o	= /// triple
false")).
Eval vm_compute in ("<<<M4435>>>" ++ check (runes_of_ascii "MetaData

    pack{
    f64
A `{ , }`
    ,  }")).
Eval vm_compute in ("<<<M801>>>" ++ check (runes_of_ascii "MetaData charz {
//
//	t
f32a stringy
    ,	}
")).
Eval vm_compute in ("<<<M784>>>" ++ check (runes_of_ascii "
root packet float{repeat charz falsey  , }
")).
Eval vm_compute in ("<<<M4334>>>" ++ check (runes_of_ascii "
packet  // a // b
    	int	{ }  // a // b")).
Eval vm_compute in ("<<<M3195>>>" ++ check (runes_of_ascii "root packet u128 { // c
chars `it's` , }")).
Eval vm_compute in ("<<<M2607>>>" ++ check (runes_of_ascii "packet A { match k as n { 1 : B,, }, }")).
Eval vm_compute in ("<<<M2821>>>" ++ check ([65533; 1912; 65533; 1; 65533; 21]%N ++ runes_of_ascii "TV" ++ [65533; 65533; 65533]%N ++ runes_of_ascii "'" ++ [65533]%N ++ runes_of_ascii "p_" ++ [22; 65533; 65533; 65533; 65533; 65533; 65533]%N ++ runes_of_ascii "T=%3" ++ [65533]%N ++ runes_of_ascii "ZHz" ++ [28; 22; 1]%N ++ runes_of_ascii "r" ++ [65533; 65533]%N)).
Eval vm_compute in ("<<<M135>>>" ++ check (runes_of_ascii "MetaData pack { f64 A `{ , }` ,}

")).
Eval vm_compute in ("<<<M2759>>>" ++ check ([65533; 65533; 65533; 65533]%N ++ runes_of_ascii "Q" ++ [2; 65533; 65533; 29; 65533]%N ++ runes_of_ascii "%" ++ [30; 65533]%N ++ runes_of_ascii "f" ++ [65533; 65533]%N ++ runes_of_ascii ";lJ" ++ [65533]%N ++ runes_of_ascii "p" ++ [65533]%N ++ runes_of_ascii "," ++ [65533; 65533; 65533; 65533; 65533]%N ++ runes_of_ascii "[k-" ++ [65533; 65533]%N)).
Eval vm_compute in ("<<<M550>>>" ++ check (runes_of_ascii "
packet int {} packet roots
{}")).
Eval vm_compute in ("<<<M3082>>>" ++ check (runes_of_ascii "packet A {
 u8 x `d" ++ [5760]%N ++ runes_of_ascii "`, // c" ++ [5760]%N ++ runes_of_ascii "
}")).
Eval vm_compute in ("<<<M1273>>>" ++ check (runes_of_ascii "packet
    repeatCount
{  }
")).
Eval vm_compute in ("<<<M3037>>>" ++ check (runes_of_ascii "packet A {
    u8 x `
x`,
}")).
Eval vm_compute in ("<<<M2598>>>" ++ check (runes_of_ascii "packet A { B { u8 x, }, }")).
Eval vm_compute in ("<<<M2664>>>" ++ check (runes_of_ascii "options { a = char[x]; }")).
Eval vm_compute in ("<<<M3722>>>" ++ check (runes_of_ascii "packet matchKey {
}//x")).
Eval vm_compute in ("<<<M2666>>>" ++ check (runes_of_ascii "options { a = `d`; }")).
Eval vm_compute in ("<<<M2724>>>" ++ check (runes_of_ascii "8""" ++ [65533; 65533; 65533; 24; 65533; 26]%N ++ runes_of_ascii "fLV" ++ [65533; 65533]%N ++ runes_of_ascii "J" ++ [19; 914; 65533; 27; 918]%N)).
Eval vm_compute in ("<<<M3071>>>" ++ check (runes_of_ascii "// c" ++ [160]%N ++ runes_of_ascii "
packet A {
}")).
Eval vm_compute in ("<<<M151>>>" ++ check (runes_of_ascii "packet  float{ }
")).
Eval vm_compute in ("<<<M3166>>>" ++ check (runes_of_ascii "options { // a
 }")).
Eval vm_compute in ("<<<M315>>>" ++ check (runes_of_ascii "MetaData As{ }")).
Eval vm_compute in ("<<<M2553>>>" ++ check ([65279]%N ++ runes_of_ascii "packet A {}")).
Eval vm_compute in ("<<<M2481>>>" ++ check (runes_of_ascii "@rightPad")).
Eval vm_compute in ("<<<M2459>>>" ++ check (runes_of_ascii "strings")).
Eval vm_compute in ("<<<M286>>>" ++ check (runes_of_ascii " //	t")).
Eval vm_compute in ("<<<M3104>>>" ++ check (runes_of_ascii "// c" ++ [8239]%N)).
Eval vm_compute in ("<<<M2547>>>" ++ check (runes_of_ascii "a
b")).
Eval vm_compute in ("<<<M2551>>>" ++ check (runes_of_ascii "a" ++ [160]%N ++ runes_of_ascii "b")).
Eval vm_compute in ("<<<M2737>>>" ++ check (runes_of_ascii "*F")).
