From FP Require Import Lexer Parser ShowPT Digest Formatter.
From Coq Require Import String List NArith.
Import ListNotations.
Open Scope string_scope.
Set Printing Width 100000000.
Set Printing Depth 100000000.
Definition show_fres (r : fres) : string :=
  match r with
  | FOk s => "OK:" ++ sh_escaped s ""
  | FErr s => "ERR:" ++ sh_escaped s ""
  | FPanic p => "PANIC:" ++ p
  end.
Definition check (rs : list rune) : string := digest (show_fres (format_res rs)).
Definition full (rs : list rune) : string := show_fres (format_res rs).
Eval vm_compute in ("<<<M4023>>>" ++ check (runes_of_ascii "options {
msg_type = ""packet"" //x
    ;
	leftPad // trailing space 

  = 
' '
;
x_y_z=

    ' '
	;
}
root  packet
    A //
	{
    //x
  zchar[ 
42 
]options1 `u8 x,` ,
    float64
    uint8x `a\`
,
    packetx@lengthOf(  BodyLength

) `tab	here` ,
chars
    u8x`100% of %d` ,@leftPad (
    )
    repeat i64_
    charz
	`u8 x,`
,
repeat
	crc{ msg_type  asx ,},
repeat f32a
,char[ 
00 
] o `" ++ [233]%N ++ runes_of_ascii "`

    ,  @lengthOf(
float

)leftPad @calculatedFrom( 

    //	t
      // packet A { u8 x, }
""a	b""

)	, }

    packet
	Packet

{
	i16 asx `a\`//	t
    	, @calculatedFrom( 
""" ++ [128512]%N ++ runes_of_ascii """  ) @lengthOf(

/// triple
    /// triple
		f32a

) @lengthOf(
    Pad
)  repeat
    // a // b
pack
i64_  `// not a comment`
	,
char[]
len  `u8 x,` ,
	repeat  char[] 
asx, match repeatCount 
as uint8x{00 :
	trueish
00 : 
Z9_ 
, 7 : u,
[
00 
,7 
,
	""abc""
,
""1"" ] :
charz [ 1  , ""abc""
    ,	""a\\""
,	65535
,
007
]: Packet 
, } ,
	@calculatedFrom(	""{,}""
)	repeatCount
    body
`it's` , @leftPad(
    // c
	  '\x00')repeat	len 	 // a // b

	`line1
line2`  , @tag(
007
) match
	metadata

as
    string_ {	[ 
""x y""  ]:
falsey
	// packet A { u8 x, }
	}// @lengthOf(
  ,@leftPad ( 
'\x00'

)
packetx
	,	// c

	} 
root
packet	T {  @rightPad(
    ' '	)
    repeat 
      //x
    lengthOf

f32a
`line1
line2` ,

@tag(
    00
)	char[ 1
] body ,
repeat calculatedFrom , // a // b
    repeat

    Z9_
	    //	t
	//	t
	,	repeat u8x

    {
    metadata {match repeatCount
    as  falsey
    {007	// trailing space 

  :len ,
""packet""  :  T	//x
  , 65535
:	T

, }
	, }

,
	u16 string_	`u8 x,` ,	match
float
as  MetaDataX{ ""\" ++ [233]%N ++ runes_of_ascii """

: int 
, 
[ 10	,1,	0,3 
, ""// no comment"" 
,""" ++ [28040; 24687]%N ++ runes_of_ascii """,

00 , 4294967296  // " ++ [128512]%N ++ runes_of_ascii " emoji
]
        // packet A { u8 x, }
  :
    Header
,	[ ""{,}""

,
	42
	    // `tick` ""quote"" 'q'
  ]
    : matchKey
	,
    [

255
, 10	/// triple
  	, 1, """ ++ [128512]%N ++ runes_of_ascii """ ]:chars

    7// " ++ [27880; 37322]%N ++ runes_of_ascii "
	:roots
	,} // " ++ [27880; 37322]%N ++ runes_of_ascii "
      ,
	string

    leftPad,
    }
, 
@lengthOf( 
i8i8  )	//	t
  @leftPad

    ('\x00'

)

repeat 
Packet  `line1
line2` 
, uint8  len 
,
@rightPad(	'\x00' 

// a // b
)char[ 4294967296
    ]

Logon
	`doc` 
,  }	MetaData
msg_type

{ i16 repeatCount
`doc`	,u8x
msg_type , } ")).
Eval vm_compute in ("<<<M557>>>" ++ check (runes_of_ascii "  packet options1 {
@calculatedFrom( ""\n""
) // `tick` ""quote"" 'q'
string int @lengthOf(
    packetx
//
// " ++ [128512]%N ++ runes_of_ascii " emoji
) ,@tag( 0
) @tag( 0123456789)@tag(10 ) match//
len// @lengthOf(
as
// a // b
// packet A { u8 x, }
rootA { [
    ""\" ++ [233]%N ++ runes_of_ascii """ , 1	, 3
]:charz ,[ ""a\""b""
]// trailing space 
:  x, }
,@lengthOf( i64_ ) match BodyLength // trailing space 
as
    //
    roots {""\n"":
u,
    }
, repeat float{options1 {
    repeat f32 len , } ,} ,
zchar[ 0123456789
    ] // a // b
chars
, @leftPad (
'\x00'
) @calculatedFrom(
    ""// no comment"" )@calculatedFrom( """") int64 rootA // packet A { u8 x, }
, } packet len
    { @tag( 10 // 50% %s
) repeat float32 len,match matchKey as x_y_z
{ ""CRC32"" : matchKey ,
    [00
,3
    ] : f32a ,""x y""
    //	t
    :
lengthOf 10 : MetaDataX 7 :// packet A { u8 x, }
MetaDataX,""" ++ [233]%N ++ runes_of_ascii "t" ++ [233]%N ++ runes_of_ascii """
    :	x_y_z } ,
@rightPad (
    '0'
)
    // packet A { u8 x, }
    @leftPad ()
    @tag(
10 ) u8x @lengthOf(lengthOf), }
packet
As {
char[]
calculatedFrom , }
    options {
    calculatedFrom= ""a\\"" ; len =
007 ; i64_
= 10 ;
}
packet Header// trailing space 
{ match o as matchKey{ [ 3 , """"] : T
,""{,}"" :
    calculatedFrom } ,repeat char[// a // b
255 ]
    u // packet A { u8 x, }
,  char[]
    Packet , // a // b
repeat int64 packetx
,
@leftPad
(
'\x00' )
    @calculatedFrom(
    """" )
//x
// @lengthOf(
zchar {f32 zchar `
`
, match u128	as
    options1 { [
// c
// 50% %s
""abc""
    // a // b
    , 10
,65535
,  0, ""\n"" , """ ++ [128512]%N ++ runes_of_ascii """ , 0123456789 ] : chars ,// 50% %s
00 :	As , ""a	b"" :// " ++ [128512]%N ++ runes_of_ascii " emoji
packetx , //
10  : a1 , }
    ,	} , float64
    calculatedFrom
    @lengthOf(
    packetx ) , char[
    00 ]
string_ `
`
    , uint8
charz	@lengthOf(
body ) // packet A { u8 x, }
`two words`
    // @lengthOf(
    ,@calculatedFrom(
    ""`tick`"" ) zchar[
    00]crc @lengthOf( a1	)
//x
// c
`line1
line2` ,}
")).
Eval vm_compute in ("<<<M3619>>>" ++ check (runes_of_ascii "
options
    { x =

    '0'
	}packet calculatedFrom

    {

repeat
    len {

f64  
  //	t
zchar

`
` ,

}

    ,

@rightPad

(

' '
	    // " ++ [128512]%N ++ runes_of_ascii " emoji
		// 50% %s
)
	@calculatedFrom(""\" ++ [233]%N ++ runes_of_ascii """  )

@lengthOf(
Header
) char[]
    rootA

`say ""hi""`	,  repeat	u8  
      // c
  chars
    `say ""hi""`  ,	@tag( 
42
	)	@leftPad

    ( '\x00'  )  @calculatedFrom(
	""\" ++ [233]%N ++ runes_of_ascii """
    )

string len @calculatedFrom(""x y"" )	`it's`

,

    u @calculatedFrom(

""a\\"" )
    // " ++ [27880; 37322]%N ++ runes_of_ascii "
	// @lengthOf(
    	`two words`// @lengthOf(
	  ,
    @leftPad(
)
match

x  as Logon {00	:
//

  metadata
,
	[ 
	// a // b
""a\""b"" 
, 
0
    , 
    // `tick` ""quote"" 'q'

  // trailing space 

	007,	007
,
007	//	t
] //
    :	body
,
007
	:

    As

    } ,  // @lengthOf(
    options1
@calculatedFrom(
	""" ++ [233]%N ++ runes_of_ascii "t" ++ [233]%N ++ runes_of_ascii """)
	`" ++ [233]%N ++ runes_of_ascii "`
	,	/// triple
	repeat char[] 	 //x
x`100% of %d` ,
    @calculatedFrom( 	 // " ++ [27880; 37322]%N ++ runes_of_ascii "
    ""`tick`"")
o 
@calculatedFrom(	""" ++ [128512]%N ++ runes_of_ascii """	)	`
`	,
	}options

{ 	 // @lengthOf(
    	stringy =
    float32

metadata =

    uint16 repeatCount=  """ ++ [28040; 24687]%N ++ runes_of_ascii """

; leftPad
=false
    }  packet

Z9_	// packet A { u8 x, }
	{ 
@tag(

    00
    //
//x
)

    repeat  int {
    u16 // packet A { u8 x, }
      chars ,
}
	, x
	{ 
//	t
repeat

    roots
,	// `tick` ""quote"" 'q'
	},

@tag(  0123456789

)	repeat
    zchar {

    char[  007
    ]  i8i8

@lengthOf( crc  //	t
) // a // b
	  `crlf
line`  ,
calculatedFrom
metadata  , 
//	t
  	//	t
	char[0123456789// " ++ [27880; 37322]%N ++ runes_of_ascii "
  	] x 
    // " ++ [27880; 37322]%N ++ runes_of_ascii "
  ,  }  , } ")).
Eval vm_compute in ("<<<M4447>>>" ++ check (runes_of_ascii "

  root
	packet
body
{ @calculatedFrom(
    ""a	b""

    ) 
repeat int32 
zchar
	, lengthOf 
body 
,@rightPad
    (
    ' ' )uint8x { u64	body,	} 
, 
@tag(
1 ) @leftPad
	(
	'0'

    ) @calculatedFrom(

""" ++ [233]%N ++ runes_of_ascii "t" ++ [233]%N ++ runes_of_ascii """
    )
u64 
x
@calculatedFrom(""" ++ [128512]%N ++ runes_of_ascii """  
      // packet A { u8 x, }
//x
    )
, 
x, @lengthOf(  u128
	)
    _x T  `` 	 //	t
	,
    @rightPad 
('0')
i64 	 // trailing space 
a1 ,
    string 
trueish

@calculatedFrom(
	""// no comment"" 
)
`
`  , }
packet  tag {

    } MetaData

body
    {T u ,string
f32a
,
    f64 Packet

,
	lengthOf
Header
`tab	here`
    , } 
// c
  //
	packet T 	 // @lengthOf(

{@leftPad
	(	) 
chars , @calculatedFrom(""1""
    ) @lengthOf(tag

) @lengthOf( Foo  ) match
charz	as 
chars

    {
42
    :

    // packet A { u8 x, }
      uint8x
    , """ ++ [28040; 24687]%N ++ runes_of_ascii """	:	o , 0123456789 
: 
lengthOf , [""a\\""
,
	""CRC32""
, ""a	b""

    ,
""CRC32"" ,
	0
	,""CRC32"", 
""a\\""

,
	""""]
:  T  ""it's"" :

tag}	//x
  ,i8 roots

    ,	@lengthOf(

    float
)

    @tag(10

) body{
	chars // trailing space 
	{
    repeat
	int8

body, },
repeat

    Header{ char[]
	leftPad,
    }	,	/// triple
	match

Logon as 
  // " ++ [128512]%N ++ runes_of_ascii " emoji

  zchar
	{
	4294967296

:
    len

    ,""a\""b"" // trailing space 

	:

A	00

:

    x_y_z  ,  }

,//	t
  repeat
	i16

    options1 
,}  ,  } options  { }")).
Eval vm_compute in ("<<<M823>>>" ++ check (runes_of_ascii "options {
metadata =
00 ; x_y_z =
    0123456789 ;// 50% %s
uint8x // a // b
= zchar[// 50% %s
4294967296 ] ;} //
root packet Foo
// @lengthOf(
// packet A { u8 x, }
{
    @lengthOf(matchKey)repeat i64_ `doc` , @rightPad (
'\x00' )
@tag(
1)body BodyLength , @tag( // trailing space 
3 ) match  metadata as Foo {
    00  :leftPad
,1
    // " ++ [27880; 37322]%N ++ runes_of_ascii "
    :i64_ , ""a	b"" :x
, // @lengthOf(
} ,pack {
repeat zchar[ 255 ] // trailing space 
u
    , }
    , // `tick` ""quote"" 'q'
@lengthOf(
    rootA
) leftPad {
    match falsey as i64_
{ ""\" ++ [233]%N ++ runes_of_ascii """ : As
    ,  [ 10]:Z9_ ,0123456789 :  calculatedFrom , 0123456789 : float , [ ""abc"", ""it's"" // " ++ [27880; 37322]%N ++ runes_of_ascii "
] : zchar , [
4294967296  , ""\" ++ [233]%N ++ runes_of_ascii """,
""a	b"" , 1 , 3
    ]
    :// trailing space 
chars}
, i32 asx
    ,	i16 i8i8	,repeat  zchar[	0
//x
// packet A { u8 x, }
] Foo,} ,@calculatedFrom( ""x y"" )// @lengthOf(
u32 i8i8@lengthOf(string_ ) `" ++ [233]%N ++ runes_of_ascii "`, @rightPad (
    ' ')
@leftPad
( // @lengthOf(
)	char[
// @lengthOf(
// 50% %s
7 ]
msg_type `it's`
,
@lengthOf(  tag
) match Packet
as u {3 :	msg_type 0123456789 // trailing space 
:
    u128 , // " ++ [27880; 37322]%N ++ runes_of_ascii "
[ ""packet"" ] :
    falsey ,
}// " ++ [128512]%N ++ runes_of_ascii " emoji
, }packet	Header { }
    MetaData
    msg_type{ zchar[ 42
    ] float , }
")).
Eval vm_compute in ("<<<M3953>>>" ++ check (runes_of_ascii "options {
    x = '0'
}

packet calculatedFrom {
    repeat len {
        f64 zchar `
        `,
    },
    @rightPad(' ')
    @calculatedFrom(""\" ++ [233]%N ++ runes_of_ascii """)
    @lengthOf(Header)
    char[] rootA `say ""hi""`,
    repeat u8 chars `say ""hi""`,
    @tag(42)
    @leftPad('\x00')
    @calculatedFrom(""\" ++ [233]%N ++ runes_of_ascii """)
    string len @calculatedFrom(""x y"") `it's`,
    u @calculatedFrom(""a\\"") `two words`,
    @leftPad()
    match x as Logon {
        00 : metadata,
        [""a\""b"", 0, 007, 007, 007] : body,
        007 : As,
    },// @lengthOf(
    options1 @calculatedFrom(""" ++ [233]%N ++ runes_of_ascii "t" ++ [233]%N ++ runes_of_ascii """) `" ++ [233]%N ++ runes_of_ascii "`,/// triple
    repeat char[] x `100% of %d`,
    @calculatedFrom(""`tick`"")
    o @calculatedFrom(""" ++ [128512]%N ++ runes_of_ascii """) `
    `,
}

options {
    // @lengthOf(
    stringy = float32
    metadata = uint16
    repeatCount = """ ++ [28040; 24687]%N ++ runes_of_ascii """;
    leftPad = false
}

packet Z9_ {
    @tag(00)
    repeat int {
        u16 chars,
    },
    x {
        //	t
        repeat roots,// `tick` ""quote"" 'q'
    },
    @tag(0123456789)
    repeat zchar {
        char[007] i8i8 @lengthOf(crc) `crlf
        line`,
        calculatedFrom metadata,
        //	t
        //	t
        char[0123456789] x,
    },
}")).
Eval vm_compute in ("<<<M426>>>" ++ check (runes_of_ascii "MetaData tag
    { u16	leftPad `doc`	,  chars _x	`say ""hi""` ,	}// @lengthOf(
root
    packet // c
crc { packetx o `// not a comment` , char[]	matchKey , @leftPad () repeat repeatCount`a\`
,@leftPad
( '0'
    // `tick` ""quote"" 'q'
    ) Header // " ++ [27880; 37322]%N ++ runes_of_ascii "
{ match rootA as packetx
{"""": options1,
[  ""CRC32"",""packet"" // " ++ [128512]%N ++ runes_of_ascii " emoji
,""1"" ] :  x [ ""`tick`"" ] : len ,
}	, } , }  packet roots
    // `tick` ""quote"" 'q'
    { //x
@tag( 1 )charz ,
// @lengthOf(
//x
int32
    // 50% %s
    msg_type
,@lengthOf(	matchKey ) @calculatedFrom( ""a\\"" ) repeat trueish
{ u x
    //x
    ,
    } ,i32
// trailing space 
//	t
msg_type ,
    match trueish //	t
as
//x
// trailing space 
rootA {  """" : f32a, }
    , @lengthOf(
// @lengthOf(
// c
repeatCount
) i64
packetx
    // a // b
    @lengthOf(i64_ )
// trailing space 
// c
,
repeat
i32 o `// not a comment`,
@tag( 42 ) @calculatedFrom(""1"" ) @lengthOf( crc
    )//
A
o
`two words`
, repeat i64_, chars `" ++ [233]%N ++ runes_of_ascii "`  , }
    options {	A
= ""CRC32""
}  MetaData u8x{ u8
    string_ `line1
line2`,
    BodyLength
i8i8 `" ++ [28040; 24687; 31867; 22411]%N ++ runes_of_ascii "`,  }
")).
Eval vm_compute in ("<<<M151>>>" ++ check (runes_of_ascii "MetaData float{
// `tick` ""quote"" 'q'
// 50% %s
i64
    stringy,	} packet metadata
{ @calculatedFrom( ""a	b"" ) @rightPad
    ( )
char[]
    // 50% %s
    As , i64 asx ,@calculatedFrom(
""// no comment"" ) x { repeat
MetaDataX {
BodyLength ``, }
    , i32 u128, _x // 50% %s
u128, }
// 50% %s
// packet A { u8 x, }
, match u as o
{ 7 : As ""x y""
:
f32a ,
    } ,
    lengthOf@lengthOf( i8i8 )  , @lengthOf(//x
roots )
@calculatedFrom("""" )
@rightPad( '0' )repeat char[
7 ] falsey,@leftPad
( )
i32 _x `" ++ [28040; 24687; 31867; 22411]%N ++ runes_of_ascii "` , } root packet tag { @tag( 42  )
    repeat
zchar[ 007 ] f32a
    ,
@rightPad // `tick` ""quote"" 'q'
(
    ) zchar[ 65535
] Pad ,int64 body , leftPad
`it's` ,string lengthOf , i32 packetx // a // b
@lengthOf( asx )`two words` ,
    @leftPad ( '0'
)	repeat	msg_type
    rootA,
options1 u8x // a // b
,  @tag(
    //x
    42) zchar[ 65535
// c
//x
] As
@lengthOf( // packet A { u8 x, }
a1
    ) ``
,	} root packet charz{ @tag( 4294967296 )
    string
options1`100% of %d`,} packet Header{}
")).
Eval vm_compute in ("<<<M1403>>>" ++ check (runes_of_ascii "root packet
Foo { metadata Foo ,
// " ++ [128512]%N ++ runes_of_ascii " emoji
// " ++ [27880; 37322]%N ++ runes_of_ascii "
zchar[// @lengthOf(
255 ] asx@calculatedFrom( ""\" ++ [233]%N ++ runes_of_ascii """
) ,repeat i64 i64_ `line1
line2` , } options { msg_type
= 65535	chars
    = '0' ; } root
    packet// @lengthOf(
roots
{ string
msg_type
`say ""hi""`
    ,// " ++ [27880; 37322]%N ++ runes_of_ascii "
repeat
// 50% %s
// 50% %s
repeatCount
x_y_z , f64 uint8x // trailing space 
, @lengthOf(
lengthOf ) roots @calculatedFrom( """ ++ [128512]%N ++ runes_of_ascii """)
`// not a comment`//	t
, repeatCount uint8x
, repeat int64
    metadata `it's` , @rightPad ('\x00'
) @lengthOf(charz ) // 50% %s
int8 /// triple
BodyLength ,
@leftPad  ( '0' ) As
{rootA { int64 matchKey, } ,
    repeat zchar[
    1/// triple
]
body `u8 x,`
, f32
Z9_`a\`,roots , }, match stringy
    as zchar  {
7 :
uint8x	[ ""// no comment"" ,
    /// triple
    """",""`tick`"" ,
0123456789] : body ,// `tick` ""quote"" 'q'
""packet"": i8i8 , [ ""abc"" ,0
    ,""CRC32"" ] :
repeatCount
    ,
    3 //	t
:falsey ,
[ /// triple
255 //x
, ""\" ++ [233]%N ++ runes_of_ascii """ ]  : i64_ }, }
")).
Eval vm_compute in ("<<<M4228>>>" ++ check (runes_of_ascii "MetaData

asx { // " ++ [27880; 37322]%N ++ runes_of_ascii "
	charz 
_x
,int8	x_y_z `two words` 
,

i32

    charz
,
repeatCount i64_,u8x calculatedFrom
,i8 
      // `tick` ""quote"" 'q'
  // c
    roots	, } MetaData	x {} MetaData
    len { matchKey packetx , uint8

    uint8x,}

root

packet
	body{
    u128
@calculatedFrom(	""""  /// triple
	) ,
repeat  trueish	{
char[] // " ++ [128512]%N ++ runes_of_ascii " emoji
    	asx
@lengthOf(

body )	`u8 x,` ,
match
    // packet A { u8 x, }
		body
    // @lengthOf(
  // 50% %s
  as  //
	i8i8 {

    ""a\""b""	: 
packetx
, 
""a	b""  :i64_  , 
[ 
"""" 
,

    42  ]
:MetaDataX
    ,
    [

""" ++ [28040; 24687]%N ++ runes_of_ascii """  ]:	pack

    3
:  x[
0

    ,
    007  ]:	Z9_

    , }
,  char[ 10 
]// `tick` ""quote"" 'q'
  int

    `// not a comment`
    ,
	u 
repeatCount
	`{ , }`
,
    } ,
@lengthOf( 
trueish
)
char asx
`doc`// @lengthOf(
  	,	@tag(0
	)
i64_
,  }
MetaData lengthOf {char[] float	`crlf
line`
,// " ++ [128512]%N ++ runes_of_ascii " emoji
    }
")).
Eval vm_compute in ("<<<M558>>>" ++ check (runes_of_ascii "  packet crc{ repeat  i32
    metadata	,}root
packet // @lengthOf(
len { uint32 lengthOf `" ++ [28040; 24687; 31867; 22411]%N ++ runes_of_ascii "` // @lengthOf(
,
    // `tick` ""quote"" 'q'
    Header  crc`u8 x,`	, @calculatedFrom( """ ++ [28040; 24687]%N ++ runes_of_ascii """ )
// packet A { u8 x, }
// @lengthOf(
@calculatedFrom(""abc"" ) uint16
body@calculatedFrom( """ ++ [128512]%N ++ runes_of_ascii """ ),repeat trueish `{ , }` // 50% %s
,  @lengthOf( i64_  ) @calculatedFrom(
// a // b
// " ++ [27880; 37322]%N ++ runes_of_ascii "
""{,}""
// c
// packet A { u8 x, }
) // 50% %s
char[
42]u8x `say ""hi""` ,} packet As
{ calculatedFrom crc//	t
, } packet
calculatedFrom{
    @tag( 7
) @calculatedFrom( ""CRC32"" )  @calculatedFrom(""" ++ [128512]%N ++ runes_of_ascii """) repeat asx u `u8 x,` ,
//x
// @lengthOf(
int16 float
`it's`, Packet {	repeat	uint8 MetaDataX , Z9_ // @lengthOf(
`" ++ [233]%N ++ runes_of_ascii "` , }
    ,
@tag( 4294967296 ) repeat
    metadata , match rootA
    as Foo{ ""CRC32""	: crc	,
}, @lengthOf(Logon //
) float64 Pad // c
@calculatedFrom( ""it's""
)
, tag
, }
")).
Eval vm_compute in ("<<<M603>>>" ++ check (runes_of_ascii "packet
x_y_z  { @calculatedFrom(
// packet A { u8 x, }
// @lengthOf(
""" ++ [128512]%N ++ runes_of_ascii """ )
    //
    match a1 as MetaDataX {
""" ++ [128512]%N ++ runes_of_ascii """: u8x , [ """ ++ [28040; 24687]%N ++ runes_of_ascii """ ]:
    asx  255  : falsey,
    [ 007 ]: stringy	10
    : chars , } , string_  { char[ 4294967296 ] //x
packetx
    // packet A { u8 x, }
    , } ,
    } root packet u128
    { calculatedFrom /// triple
MetaDataX
    `it's`//
, repeat leftPad
// c
// a // b
x_y_z
//x
// " ++ [27880; 37322]%N ++ runes_of_ascii "
, }packet BodyLength {char
    // c
    Pad
    @lengthOf(
// c
// `tick` ""quote"" 'q'
uint8x  )`line1
line2` , uint16
charz ,
// " ++ [128512]%N ++ runes_of_ascii " emoji
// c
@leftPad // @lengthOf(
( '\x00'  )	repeat A { repeat float32 Z9_
    , u16 A @calculatedFrom( ""1"" )``  , Pad{ Packet {repeat uint8 trueish, stringy @lengthOf( u ) `doc`
    , // c
charz Foo`
`,
uint16 falsey `100% of %d` ,} ,}, f32
roots ,
},
    // c
    }
")).
Eval vm_compute in ("<<<M3481>>>" ++ check (runes_of_ascii "options {
    ArrayPrefixLenType = u64;
    FixedStringPadFromLeft = false;
}
packet Trade {
}
packet Reject {
    InPx94 {
        repeat Trade,
        string count,
        InFlags14 {
            u8 pad0,
        },
        repeat InSide239 {
            char[8] lastPx,
            repeat i64 clOrdID,
            i64 Acct,
        },
    },
    repeat string clOrdID,
    zchar[5] sym,
}
packet Quote {
    repeat Reject,
}
packet Logon {
    repeat Reject,
    char[] Acct,
    @leftPad('0') char[4] tag7,
}
root packet Fill {
    @rightPad('0') char[1] count,
    u8 f1,
    u32 Qty @lengthOf(Body),
    match f1 as Body {
        [195, 3] : Reject,
        110 : Quote,
        141 : Logon,
        21 : Trade,
    },
    u32 Flags @calculatedFrom(""CR\
C32""),
}
")).
Eval vm_compute in ("<<<M4398>>>" ++ check (runes_of_ascii "packet asx {
    @leftPad('\x00')
    @calculatedFrom(""{,}"")
    //
    pack x_y_z,
    Pad f32a,
    repeat zchar[42] chars `{ , }`,
    string packetx `
    `,
    @tag(10)
    metadata @calculatedFrom(""x y""),
    uint8x,
    repeat int16 pack `a\`,
    float64 rootA,
    /// triple
}

packet asx {
    string_,
}

root packet Header {
    float64 x_y_z @calculatedFrom(""x y""),
    //
    //x
    @calculatedFrom(""a\""b"")
    @calculatedFrom(""a\""b"")
    int {
        zchar[255] msg_type,
        i64_ {
            stringy @lengthOf(x_y_z),
            u options1 `" ++ [233]%N ++ runes_of_ascii "`,
            repeat f32 msg_type,
            float32 Foo `two words`,
        },
    },
    uint8 asx `line1
    line2`,
}

MetaData lengthOf {
    char[] o `line1
    line2`,
}")).
Eval vm_compute in ("<<<M3736>>>" ++ check (runes_of_ascii "packet o {
    repeat calculatedFrom {
        As,
        repeat u {
            //	t
            i32 repeatCount,
        },
        match BodyLength as u8x {
            007 : trueish,
        },
        asx float `two words`,
    },
    match pack as calculatedFrom {
        ""it's"" : Foo,
        // 50% %s
        // @lengthOf(
    },
    match body as calculatedFrom {
        [""a\""b""] : o,
        42 : Packet,
        //
        [0123456789, 1, ""1""] : float,
    },
}

MetaData i64_ {
    u128 crc ``,// c
    string_ u,
    i8 int `doc`,
    // " ++ [27880; 37322]%N ++ runes_of_ascii "
    i16 x `doc`,
    falsey f32a,
}

options {
    roots = zchar[4294967296];
    x = 65535;
    crc = zchar[7];
    metadata = char[];
    leftPad = i32
}")).
Eval vm_compute in ("<<<M661>>>" ++ check (runes_of_ascii "MetaData
    chars { As Packet ,T	crc ,
// `tick` ""quote"" 'q'
// 50% %s
char[]
    _x, len packetx `line1
line2`, } packet T
    {int64 f32a@lengthOf( x ) `say ""hi""`,
    // trailing space 
    zchar[ 65535
    ]asx
`say ""hi""` , i16
    roots`" ++ [28040; 24687; 31867; 22411]%N ++ runes_of_ascii "` ,  @rightPad (// " ++ [27880; 37322]%N ++ runes_of_ascii "
'\x00' ) string uint8x
,
    rootA  @lengthOf( roots
    // a // b
    ) `two words` ,repeat
u32 u128 , @tag( 255 )
    //x
    charz pack
    // a // b
    , }
// @lengthOf(
// " ++ [27880; 37322]%N ++ runes_of_ascii "
packet Header {
// " ++ [128512]%N ++ runes_of_ascii " emoji
//
@leftPad ( '0'	) repeat
    f32a
    metadata `" ++ [233]%N ++ runes_of_ascii "` ,
    } packet //
msg_type { char A`two words`, @tag( 255	)
    @rightPad ()	body @calculatedFrom( ""\" ++ [233]%N ++ runes_of_ascii """) // 50% %s
, }options { Z9_ = ""packet""
;
    }
")).
Eval vm_compute in ("<<<M3636>>>" ++ check (runes_of_ascii "
root

    packet  // 50% %s
	Foo	{ }
packet
BodyLength	{	@tag(	007 )zchar[ 4294967296  ]_x

    ,x_y_z 
,

@tag(// @lengthOf(
	3	) @leftPad (
'0'
)

@calculatedFrom(	// 50% %s
  ""packet"" )  i16	_x @lengthOf( 
BodyLength

) `u8 x,`
	,	} // @lengthOf(
	packet  int

    { 
u64 
i64_	@calculatedFrom(

    """ ++ [28040; 24687]%N ++ runes_of_ascii """
	)

,@tag( 	 //	t
  10 ) repeat chars
, }
packet float
{  @calculatedFrom(
""it's""

    )
    char[] a1
	,
    Pad leftPad

    `// not a comment` , 
body ``	,

    Z9_ @calculatedFrom(
	""a\\""
    // @lengthOf(
  // " ++ [27880; 37322]%N ++ runes_of_ascii "
	)`tab	here` ,
	@tag(

4294967296

)

int16
	BodyLength

    @calculatedFrom(  ""{,}""
)`say ""hi""`

    , } ")).
Eval vm_compute in ("<<<M1073>>>" ++ check (runes_of_ascii "packet packetx { @leftPad (
    ) u32 x_y_z `u8 x,` // @lengthOf(
,
}packet
zchar { repeat char[
0123456789
] u8x	, T // packet A { u8 x, }
@lengthOf( stringy
)`
`
, repeat u128{ match MetaDataX as
_x  {	[ 1 ] : Logon,0123456789 : Foo
//
// @lengthOf(
, [
""`tick`"" , ""CRC32""]
    : uint8x [ ""{,}"" ,
    ""a\""b"" , 42 , 42
    , ""`tick`""
,	42]
    : // 50% %s
leftPad ,
}, }
,
rootA // @lengthOf(
uint8x`a\`
, } MetaData lengthOf {
    uint32 // 50% %s
msg_type `" ++ [28040; 24687; 31867; 22411]%N ++ runes_of_ascii "` , u16 Pad //	t
`it's` , zchar[ 007 ]
    // packet A { u8 x, }
    charz `crlf
line`,
    u128 /// triple
len , BodyLength asx
    `tab	here`,
Packet Header ,}

")).
Eval vm_compute in ("<<<M3495>>>" ++ check (runes_of_ascii "// top
packet
    // c0
Logon // c1
{
    // c2
u8 // c3a
  // c3b
x // c4a
  // c4b
, // c5a
  // c5b
string // c6a
  // c6b
user , // c8
} // c9a
  // c9b
packet Logout { u16 // c13
reason // c14a
  // c14b
, // c15a
  // c15b
} packet // c17
Empty // c18
{ // c19
} // c20a
  // c20b
root // c21
packet // c22
Frame // c23a
  // c23b
{
    // c24
u16
    // c25
MsgType , // c27a
  // c27b
@lengthOf( // c28
Body // c29
)
    // c30
u64 // c31
BodyLen // c32
, // c33a
  // c33b
u8 // c34
flags // c35a
  // c35b
, // c36a
  // c36b
Logon
    // c37
Body // c38
, // c39
u32
    // c40
trailer , }
    // c43
")).
Eval vm_compute in ("<<<M4309>>>" ++ check (runes_of_ascii "  // a // b
    packet 
i8i8{

} packet
calculatedFrom	{

@calculatedFrom(""" ++ [28040; 24687]%N ++ runes_of_ascii """ ) 
@lengthOf(T 
	// 50% %s
  )
@rightPad  (

    ' '

)repeat

chars  
  // packet A { u8 x, }
    {

string_ {repeat
    metadata
    BodyLength
`tab	here` 
,
	char[] 
x

`u8 x,`

    , }
    ,uint32
lengthOf 
, //	t

pack
options1  `100% of %d`//

  ,}

,int64 
Pad `100% of %d`,

@lengthOf(
	tag  ) repeat uint64
    falsey, 
        //x
		// 50% %s
	@leftPad	( '0'
)
repeat
u8x`
`	,
i16 options1	,
    int@calculatedFrom( """ ++ [28040; 24687]%N ++ runes_of_ascii """
)

,	// " ++ [128512]%N ++ runes_of_ascii " emoji

  char[1]  T  // `tick` ""quote"" 'q'
	  `{ , }`	,	}")).
Eval vm_compute in ("<<<M422>>>" ++ check (runes_of_ascii "packet _x { char[ 4294967296
] float
    @calculatedFrom( ""it's"" )
,// trailing space 
@calculatedFrom(  ""\" ++ [233]%N ++ runes_of_ascii """//x
)	match options1 as matchKey
{ [	""\n""	,
00,
255 ,
007 ,
    0123456789
    // " ++ [128512]%N ++ runes_of_ascii " emoji
    , 4294967296 ]
: MetaDataX // a // b
, /// triple
} // trailing space 
, repeat
    matchKey calculatedFrom `" ++ [233]%N ++ runes_of_ascii "` ,
@calculatedFrom( ""a\""b"" )body `` ,
}
MetaData falsey{ A leftPad
,
MetaDataX tag , }  packet string_ {@calculatedFrom( ""a\""b""
    ) @leftPad ('\x00' )  string options1 , @leftPad
    ( '0'
) @tag( 10 ) @leftPad( )a1 repeatCount `say ""hi""`
    , }")).
Eval vm_compute in ("<<<M3612>>>" ++ check (runes_of_ascii "packet Pad {
}

packet packetx {
    //x
    repeatCount,// packet A { u8 x, }
    @leftPad('\x00')
    tag @lengthOf(u128),
    MetaDataX @calculatedFrom(""\" ++ [233]%N ++ runes_of_ascii """) `tab	here`,// a // b
    uint16 body @calculatedFrom(""abc"") `say ""hi""`,// trailing space 
}

packet x {
    u16 a1 `crlf
        line`,
}

root packet Z9_ {
    @calculatedFrom(""CRC32"")
    repeat string pack `say ""hi""`,
    repeat zchar[3] charz,//	t
    i16 f32a @calculatedFrom(""{,}""),
}

packet len {
    @lengthOf(crc)
    zchar[00] f32a @calculatedFrom(""it's""),// " ++ [128512]%N ++ runes_of_ascii " emoji
}")).
Eval vm_compute in ("<<<M953>>>" ++ check (runes_of_ascii "options { packetx =
    //	t
    '\x00' ; }	packet A{ }
    root packet a1 {
// packet A { u8 x, }
//x
} root  packet float
{
//	t
// @lengthOf(
string
    len @calculatedFrom( ""{,}"" ) `crlf
line` ,
    body
    @lengthOf( msg_type	) //x
`a\` ,
    @leftPad
()  f64  uint8x , packetx	,
@calculatedFrom( ""\n"")
    /// triple
    repeat char[] leftPad ,
    f64 trueish `{ , }`
    ,
int32 zchar//x
, repeat
    zchar[3]
Packet`say ""hi""` //	t
,u32 charz @lengthOf(	x
    ) ,Z9_
    // `tick` ""quote"" 'q'
    , }
//x
")).
Eval vm_compute in ("<<<M1049>>>" ++ check (runes_of_ascii "packet
// a // b
// a // b
A {
@tag(	00 ) f32a @lengthOf( Pad ), // a // b
@rightPad
    ( ' '
    // c
    )
uint16 o,	repeat Pad{ trueish@calculatedFrom(	""// no comment"" ) // c
, asx // a // b
calculatedFrom
`` ,//	t
zchar @lengthOf( int	) ,repeat packetx{ MetaDataX , } , } , repeat Packet matchKey  , //
} MetaData matchKey { u8 charz`" ++ [28040; 24687; 31867; 22411]%N ++ runes_of_ascii "`
, i8i8
    T , zchar[ 0 ] trueish,	char[
4294967296 ]
    //x
    float `a\`
, options1 Pad`" ++ [28040; 24687; 31867; 22411]%N ++ runes_of_ascii "`
    /// triple
    ,
    char[]
    stringy , }
")).
Eval vm_compute in ("<<<M4055>>>" ++ check (runes_of_ascii "root packet x {
}

packet Foo {
    packetx a1,
    metadata u128 `line1
        line2`,
    @tag(0123456789)
    @calculatedFrom(""// no comment"")
    Packet `// not a comment`,
    u32 packetx,
}

options {
    i64_ = uint32;
    u128 = 42
    Packet = '\x00'
    i64_ = 007;
    Pad = char[65535];
}

root packet msg_type {
    match float as falsey {
        // " ++ [27880; 37322]%N ++ runes_of_ascii "
        // 50% %s
        0123456789 : x,
        ""abc"" : x,
        // `tick` ""quote"" 'q'
    },
}")).
Eval vm_compute in ("<<<M1095>>>" ++ check (runes_of_ascii "packet
Pad{
match u as tag{
    [ 00 /// triple
, ""CRC32""] :u128  }	,
}
    root packet Pad {repeat Pad	,
char
a1@calculatedFrom( ""x y""
//
//
) //x
,repeat // @lengthOf(
zchar[ 65535 ]
    // a // b
    x_y_z`
`
,falsey , char[]options1,// packet A { u8 x, }
charz{ i8 roots@calculatedFrom(
""CRC32"")  `
`
,	string_ `crlf
line` ,
// c
// `tick` ""quote"" 'q'
i64 u128
    @lengthOf( crc ) ,
// @lengthOf(
// " ++ [27880; 37322]%N ++ runes_of_ascii "
},	repeatCount
    `say ""hi""` ,}
")).
Eval vm_compute in ("<<<M777>>>" ++ check (runes_of_ascii "options { } packet i8i8 {
    //x
    }	root packet crc {
@calculatedFrom( // 50% %s
""a\\"" )
    @calculatedFrom( ""// no comment"" )	@calculatedFrom( ""packet"") repeat As {
// a // b
// c
zchar[ 7] falsey // @lengthOf(
@lengthOf( // " ++ [128512]%N ++ runes_of_ascii " emoji
int ) ,
    repeat zchar[	007 ] i8i8
`line1
line2`
    ,  } , repeat
Logon { Foo @lengthOf(
//
// c
chars ) ,match matchKey as Pad{ 42:// 50% %s
i8i8 ,
} // `tick` ""quote"" 'q'
, }  , }
")).
Eval vm_compute in ("<<<M675>>>" ++ check (runes_of_ascii "packet
float // a // b
{ repeat string_
{
f64 trueish,  u8
    /// triple
    body `// not a comment` //
,
// a // b
// @lengthOf(
int64
    //x
    packetx@lengthOf(  zchar ), }
, @calculatedFrom( ""`tick`"")
repeat  zchar[ 007]u8x// trailing space 
`line1
line2` ,
// " ++ [27880; 37322]%N ++ runes_of_ascii "
// c
repeat chars`say ""hi""`
,// trailing space 
} MetaData
asx {//	t
a1
    chars
// trailing space 
// c
`it's`
, i64 // " ++ [128512]%N ++ runes_of_ascii " emoji
int
,
}")).
Eval vm_compute in ("<<<M4243>>>" ++ check (runes_of_ascii "// top
packet MetaDataX {
    // c2
}// c3

root packet len {
    // c7
    zchar[7] matchKey @lengthOf(BodyLength),// c15
    BodyLength `// not a comment`,// c18
    match u8x as i8i8 {
        // c23
        ""a\""b"" : stringy,
        // c27
        [""`tick`""] : u8x,
        // c32
        0123456789 : options1,
        // c36
        [""`tick`""] : x_y_z,
        // c41
    },// c43
}// c44")).
Eval vm_compute in ("<<<M4043>>>" ++ check (runes_of_ascii "  packet A 
// " ++ [128512]%N ++ runes_of_ascii " emoji
{

    @rightPad ( ' '
	)

uint32
o
	@calculatedFrom(	"""")

    , }  // a // b
	packet matchKey 	 // `tick` ""quote"" 'q'

{
	repeat
chars,
	string chars`crlf
line`
    //x
	  // " ++ [128512]%N ++ runes_of_ascii " emoji
  , 
string  x_y_z
    ,
A// packet A { u8 x, }
  roots ,	@lengthOf( body 
)

    repeat
	zchar[ 10	] 
x
	,  }options{
    pack //
  =
	""abc"" }  // @lengthOf(
")).
Eval vm_compute in ("<<<M870>>>" ++ check (runes_of_ascii "packet T { i64_ `say ""hi""` , match charz as /// triple
repeatCount { ""{,}""
// a // b
// 50% %s
:
len ,//x
[ // trailing space 
""" ++ [128512]%N ++ runes_of_ascii """ ]  : matchKey ,4294967296  : Packet
,
255	:
// " ++ [128512]%N ++ runes_of_ascii " emoji
// " ++ [27880; 37322]%N ++ runes_of_ascii "
x , 007
    : body 10
: body ,
    /// triple
    } ,
    } MetaData Pad { float64 // 50% %s
metadata, uint64 Z9_ , string o `doc` ,int32 float`a\`
    // " ++ [27880; 37322]%N ++ runes_of_ascii "
    , }

")).
Eval vm_compute in ("<<<M4381>>>" ++ check (runes_of_ascii "MetaData MetaDataX {
    char[65535] falsey,
    //	t
    // @lengthOf(
    asx lengthOf `say ""hi""`,
    u8 metadata,
    string body `
    `,
}

MetaData tag {
    char[007] u8x,
    x_y_z zchar `line1
    line2`,
    A As,
}

MetaData msg_type {
    uint32 pack `tab	here`,
}

options {
    trueish = false
    i8i8 = 007;
    int = char[];
}")).
Eval vm_compute in ("<<<M590>>>" ++ check (runes_of_ascii "options{Pad
    =
    ""packet"" ; }	packet i8i8//x
{ repeat
    string Foo , } options
{float
    = float32; } // 50% %s
options
    // 50% %s
    {As =  char[] ;
    //	t
    roots =//	t
""it's""
    } packet leftPad { @tag(
    42  ) repeat	_x
`crlf
line`// packet A { u8 x, }
, @calculatedFrom( ""x y""
)repeat char[]//	t
Pad, }
")).
Eval vm_compute in ("<<<M1015>>>" ++ check (runes_of_ascii "//x
packet Z9_ {
@lengthOf(
rootA)@calculatedFrom(// trailing space 
""\n""
) int8 Logon`` ,zchar[42  ]
T
    // `tick` ""quote"" 'q'
    @lengthOf( Foo
    // `tick` ""quote"" 'q'
    ) //
,
}  options {//
x_y_z =	""`tick`""
    ;rootA
=
""it's"" ; packetx = 1 ;BodyLength// packet A { u8 x, }
=  255 ; roots
= ""a\\"" //
}

")).
Eval vm_compute in ("<<<M996>>>" ++ check (runes_of_ascii "
root
packet _x
    {
// `tick` ""quote"" 'q'
// packet A { u8 x, }
}
packet stringy // `tick` ""quote"" 'q'
{ @tag( 0
) @tag( 7	) metadata @lengthOf(
charz	) ,repeat As // a // b
o // a // b
`doc` , @leftPad ( ) char[
//
// `tick` ""quote"" 'q'
00 ] trueish`doc`, @tag( 00	)  @tag(1 ) u32	uint8x`" ++ [233]%N ++ runes_of_ascii "`	, }

")).
Eval vm_compute in ("<<<M3699>>>" ++ check (runes_of_ascii "MetaData stringy {
    char[3] T,
    char[255] Logon,
    zchar[007] packetx,
    i8 pack ``,// 50% %s
}// 50% %s

packet Logon {
    match u as roots {
        [""// no comment"", ""it's""] : lengthOf,
    },
    uint64 u128 @calculatedFrom(""\" ++ [233]%N ++ runes_of_ascii """),
    string metadata `say ""hi""`,
}/// triple")).
Eval vm_compute in ("<<<M3550>>>" ++ check (runes_of_ascii "packet Header {
}

root packet BodyLength {
    As {
        a1 {
            char[65535] crc `two words`,
            msg_type,
        },
    },
    repeat Z9_ {
        T,
        pack,
        repeat tag A,
        int64 f32a `u8 x,`,
    },
}

packet packetx {
}
/// triple")).
Eval vm_compute in ("<<<M1602>>>" ++ check (runes_of_ascii "// 50% %s
packet	a1
    { zchar[
// a // b
// 50% %s
007]
T `it's`
    ,@rightPad
    // a // b
    (
'\x00')
    o repeatCount , }  packet packet Logon {  }packet	Logon //x
{ repeat // " ++ [128512]%N ++ runes_of_ascii " emoji
uint16 u128
    //
    `a\`,
falsey
@calculatedFrom(""packet"" ) ,
    } 	 ")).
Eval vm_compute in ("<<<M1569>>>" ++ check (runes_of_ascii "// 50% %s
packet	a1
    { zchar[
// a // b
// 50% %s
007]
T `it's`
    ,@rightPad
    // a // b
    int8
'\x00')
    o repeatCount , }  packet Logon {  }packet	Logon //x
{ repeat // " ++ [128512]%N ++ runes_of_ascii " emoji
uint16 u128
    //
    `a\`,
falsey
@calculatedFrom(""packet"" ) ,
    } 	 ")).
Eval vm_compute in ("<<<M3510>>>" ++ check (runes_of_ascii "  options  {metadata =  false 
    // packet A { u8 x, }
// 50% %s

options1

=f64 
a1 =char[]options1
    = zchar[ 7 
]
    // @lengthOf(
    // trailing space 

  ;} options{

    string_ = 7
	    // `tick` ""quote"" 'q'
	; MetaDataX
= ""a	b""
int =  false;

}

")).
Eval vm_compute in ("<<<M1598>>>" ++ check (runes_of_ascii "// 50% %s
packet	a1
    { zchar[
// a // b
// 50% %s
007]
T `it's`
    ,@rightPad
    // a // b
    (
'\x00')
    o repeatCount , packet  } Logon {  }packet	Logon //x
{ repeat // " ++ [128512]%N ++ runes_of_ascii " emoji
uint16 u128
    //
    `a\`,
falsey
@calculatedFrom(""packet"" ) ,
    } 	 ")).
Eval vm_compute in ("<<<M1611>>>" ++ check (runes_of_ascii "// 50% %s
packet	a1
    { zchar[
// a // b
// 50% %s
007]
T `it's`
    ,@rightPad
    // a // b
    (
'\x00')
    o repeatCount , }  packet Logon   }packet	Logon //x
{ repeat // " ++ [128512]%N ++ runes_of_ascii " emoji
uint16 u128
    //
    `a\`,
falsey
@calculatedFrom(""packet"" ) ,
    } 	 ")).
Eval vm_compute in ("<<<M1343>>>" ++ check (runes_of_ascii "root packet
tag
    //
    {@calculatedFrom( """" ) string
    i64_ @lengthOf( a1  ) , } MetaData u8x
    {BodyLength
    packetx
`" ++ [28040; 24687; 31867; 22411]%N ++ runes_of_ascii "`,repeatCount//x
tag, zchar[
007 ] Foo, }options{ falsey=
' ' x
    = ""1""
    roots //
= u64 ;
packetx
=' ' ;
// " ++ [27880; 37322]%N ++ runes_of_ascii "
//	t
}")).
Eval vm_compute in ("<<<M3434>>>" ++ check (runes_of_ascii "
packet 
P1 {
	u8

    a  ,
    }
packet P2  {
P1

    ,  } 
packet P3
{P2

    , P1  ,
}packet  P4 {
	repeat

    P3	,
	P2
	,}root  packet P5 {P4,P3
	,P1 , u8 
K 
,
match	K
    as
    Body {4 :P4 ,
3 :
P3
    , 2
	: P2,
1	:	P1 
, 
} ,
    }")).
Eval vm_compute in ("<<<M1295>>>" ++ check (runes_of_ascii "
MetaData
a1{ } packet// `tick` ""quote"" 'q'
leftPad{ @leftPad ( )
repeat
pack
    ,  } root // trailing space 
packet//
stringy { @lengthOf(zchar ) string trueish
@lengthOf(
T ) , }  MetaData falsey { // `tick` ""quote"" 'q'
packetx lengthOf,
}
")).
Eval vm_compute in ("<<<M4284>>>" ++ check (runes_of_ascii "// top
packet B {
    u8 a,
    // c5
}

root packet P {
    // c10
    u8 K,
    u64 L @lengthOf(Body),// c19a
    // c19b
    match K as Body {
        // c24
        1 : B,
        // c28a
        // c28b
    },
    // c30
}
// c31")).
Eval vm_compute in ("<<<M795>>>" ++ check (runes_of_ascii "options {float=7 ; } root
packet packetx { repeat
    Foo
// " ++ [128512]%N ++ runes_of_ascii " emoji
// packet A { u8 x, }
,repeat
// a // b
// packet A { u8 x, }
uint32 //	t
As ,	@rightPad	(
    '0' ) string_ As`// not a comment`
    , zchar[
7] Z9_ , }")).
Eval vm_compute in ("<<<M683>>>" ++ check (runes_of_ascii "MetaData x_y_z { int64 Packet
    , char[] charz
`" ++ [233]%N ++ runes_of_ascii "`
    ,string x
, u64
    // a // b
    T , i64 T `{ , }`
//
// `tick` ""quote"" 'q'
,
}packet int {
@lengthOf( u8x )
i8 string_`say ""hi""`
,
    } // trailing space ")).
Eval vm_compute in ("<<<M4143>>>" ++ check (runes_of_ascii "  //
	options
{ MetaDataX = 
      /// triple

""" ++ [28040; 24687]%N ++ runes_of_ascii """
;

    chars=
    // 50% %s
//
		f64 options1	=	42  } root packet
	roots{	u8

metadata
`tab	here` ,
BodyLength

    @lengthOf( 
body ) 	 //

	,
}
")).
Eval vm_compute in ("<<<M1650>>>" ++ check (runes_of_ascii "// 50% %s
packet	a1
    { zchar[
// a // b
// 50% %s
007]
T `it's`
    ,@rightPad
    // a // b
    (
'\x00')
    o repeatCount , }  packet Logon {  }packet	Logon //x
{ repeat // " ++ [128512]%N ++ runes_of_ascii " emoji
uint16")).
Eval vm_compute in ("<<<M3435>>>" ++ check (runes_of_ascii "root packet Frame {
    u8 K,
    Logon first,
    match K as Body {
        1 : Logon,
        2 : Logout,
    },
}
packet Logon {
    string user,
}
packet Logout {
    u16 reason,
}
")).
Eval vm_compute in ("<<<M3903>>>" ++ check (runes_of_ascii "packet u {
    i16 options1 `u8 x,`,
}

MetaData pack {
    // a // b
    string int,
    int8 calculatedFrom,
    x_y_z zchar,
    string uint8x ``,
    lengthOf a1 `" ++ [28040; 24687; 31867; 22411]%N ++ runes_of_ascii "`,
}")).
Eval vm_compute in ("<<<M650>>>" ++ check (runes_of_ascii "root /// triple
packet calculatedFrom { string	crc	,  @calculatedFrom( ""abc"" ) u8
float, match // " ++ [27880; 37322]%N ++ runes_of_ascii "
BodyLength
    // 50% %s
    as Packet{ 0 : charz
    ,
    } ,
}")).
Eval vm_compute in ("<<<M4295>>>" ++ check (runes_of_ascii "  options
{ } 
options{
o
= 
	//x
	//	t
    	false packetx
    = 
        // @lengthOf(
  """ ++ [233]%N ++ runes_of_ascii "t" ++ [233]%N ++ runes_of_ascii """  asx	=

0123456789

Foo =

int8  a1=

    uint8;
    } 	 //	t
")).
Eval vm_compute in ("<<<M4187>>>" ++ check (runes_of_ascii "MetaData Header {
}

root packet options1 {
    crc metadata `" ++ [233]%N ++ runes_of_ascii "`,
}

packet A {
}

root packet leftPad {
}

MetaData Header {
    MetaDataX i8i8 `u8 x,`,
}")).
Eval vm_compute in ("<<<M2141>>>" ++ check (runes_of_ascii "MetaData BodyLength
{ int8 Foo
, string
    MetaDataX , float zchar ,pack options1
,asx string_, }
packet packet u8x {Foo@lengthOf(charz )
`" ++ [28040; 24687; 31867; 22411]%N ++ runes_of_ascii "`,  }
")).
Eval vm_compute in ("<<<M383>>>" ++ check (runes_of_ascii "// a // b
packet
    // @lengthOf(
    matchKey{
repeat
    Z9_{ a1 //
@calculatedFrom(""" ++ [28040; 24687]%N ++ runes_of_ascii """
/// triple
/// triple
)	, } ,} root packet T { //
}")).
Eval vm_compute in ("<<<M2019>>>" ++ check (runes_of_ascii "
packet leftPad {
@leftPad( '0')
u32
i64_ `100% of %d` ,repeat// 50% %s
i8 chars
    ,
} MetaData
    f32a
@lengthOf( // packet A { u8 x, }
}")).
Eval vm_compute in ("<<<M2077>>>" ++ check (runes_of_ascii "MetaData BodyLength
{ int8 Foo
, MetaDataX
    string , float zchar ,pack options1
,asx string_, }
packet u8x {Foo@lengthOf(charz )
`" ++ [28040; 24687; 31867; 22411]%N ++ runes_of_ascii "`,  }
")).
Eval vm_compute in ("<<<M2055>>>" ++ check (runes_of_ascii "MetaData BodyLength
 int8 Foo
, string
    MetaDataX , float zchar ,pack options1
,asx string_, }
packet u8x {Foo@lengthOf(charz )
`" ++ [28040; 24687; 31867; 22411]%N ++ runes_of_ascii "`,  }
")).
Eval vm_compute in ("<<<M3855>>>" ++ check (runes_of_ascii "packet A {
    match k as n {
        [
            ""a"", ""bb"", 007, ""d"", ""e"",
            66, ""g"", ""h""
        ] : B,
        2 : C,
    },
}")).
Eval vm_compute in ("<<<M2060>>>" ++ check (runes_of_ascii "MetaData BodyLength
{  Foo
, string
    MetaDataX , float zchar ,pack options1
,asx string_, }
packet u8x {Foo@lengthOf(charz )
`" ++ [28040; 24687; 31867; 22411]%N ++ runes_of_ascii "`,  }
")).
Eval vm_compute in ("<<<M2281>>>" ++ check (runes_of_ascii "options
    {
x_y_z// " ++ [27880; 37322]%N ++ runes_of_ascii "
= 10 ; }
packet body {
    @calculatedFrom(
// trailing space 
// " ++ [27880; 37322]%N ++ runes_of_ascii "
""1""
)	match true as Foo
    {
255 :T , }
,}")).
Eval vm_compute in ("<<<M2304>>>" ++ check (runes_of_ascii "options
    {
x_y_z// " ++ [27880; 37322]%N ++ runes_of_ascii "
= 10 ; }
packet body {
    @calculatedFrom(
// trailing space 
// " ++ [27880; 37322]%N ++ runes_of_ascii "
""1""
)	match T as Foo
    {
255 : :T , }
,}")).
Eval vm_compute in ("<<<M2348>>>" ++ check (runes_of_ascii "options
    {
x_y_z// " ++ [27880; 37322]%N ++ runes_of_ascii "
= 10 ; }
packet body {
    @calculatedFrom(
// trailing space 
// " ++ [27880; 37322]%N ++ runes_of_ascii "
""1""
)	matc#h T as Foo
    {
255 :T , }
,}")).
Eval vm_compute in ("<<<M2212>>>" ++ check (runes_of_ascii "{
    options
x_y_z// " ++ [27880; 37322]%N ++ runes_of_ascii "
= 10 ; }
packet body {
    @calculatedFrom(
// trailing space 
// " ++ [27880; 37322]%N ++ runes_of_ascii "
""1""
)	match T as Foo
    {
255 :T , }
,}")).
Eval vm_compute in ("<<<M862>>>" ++ check (runes_of_ascii "  packet matchKey {	string leftPad,	options1 A
    ,@calculatedFrom( """" //	t
)
    float { crc `{ , }`,
    len uint8x
,
}
,
    }
")).
Eval vm_compute in ("<<<M3062>>>" ++ check (runes_of_ascii "packet A {
    u16 len @lengthOf(body) `100% of %s %d %v`,
    u32 crc @calculatedFrom(""CRC32"") `100% of %s %d %v`,
    string body,
}")).
Eval vm_compute in ("<<<M3408>>>" ++ check (runes_of_ascii "packet A {
    u8 a,
}
packet B {
    u16 b,
}
root packet P {
    u8 K,
    match K as M {
        1 : A,
        1 : B,
    },
}
")).
Eval vm_compute in ("<<<M3840>>>" ++ check (runes_of_ascii "packet

A { match

k as 
n{	[
	1

    , 22,
	007 ,
	4, 5 ,	66 ,7
    ,
8
,

    9 ,10,
    11 ,

    12
	]	:B 2: 
C }	,}

")).
Eval vm_compute in ("<<<M4022>>>" ++ check (runes_of_ascii "

  packet

    A
	{
Inner
	{

u8
    x
`tab
	x`
	,

    Deep 
{
    u8
y

    `tab
	x`,

    }
	,

    }
	,
    } ")).
Eval vm_compute in ("<<<M4271>>>" ++ check (runes_of_ascii "packet A {
    match k as n {
        [
            1, 22, 007, 4, 5,
            66
        ] : B,
        2 : C,
    },
}")).
Eval vm_compute in ("<<<M250>>>" ++ check (runes_of_ascii "//	t
packet repeatCount {
    @tag( 10 //
) int32 BodyLength @lengthOf( x_y_z ) , a1 calculatedFrom //x
,/// triple
}
")).
Eval vm_compute in ("<<<M1870>>>" ++ check (runes_of_ascii "packet o {
    roots `it's`
// trailing space 
//x
, char[ 42
    i32  A, // " ++ [27880; 37322]%N ++ runes_of_ascii "
f64
repeatCount
    `crlf
line`
,}")).
Eval vm_compute in ("<<<M3979>>>" ++ check (runes_of_ascii "MetaData Z9_ {
}

options {
    repeatCount = '0'
    crc = 007;
    rootA = int8;
    _x = 0;
}

packet falsey {
}")).
Eval vm_compute in ("<<<M1837>>>" ++ check (runes_of_ascii "packet o 
    roots `it's`
// trailing space 
//x
, char[ 42
    ]  A, // " ++ [27880; 37322]%N ++ runes_of_ascii "
f64
repeatCount
    `crlf
line`
,}")).
Eval vm_compute in ("<<<M1092>>>" ++ check (runes_of_ascii "//
options
    {	} options{ // 50% %s
stringy = 0123456789 string_= ""\n""  int =
false
;
/// triple
// a // b
}
")).
Eval vm_compute in ("<<<M3599>>>" ++ check (runes_of_ascii "
MetaData  Foo

{
    zchar[
	0 ]	matchKey , 
}	options 
{ 	 // c
  lengthOf
    =	i32

u=
	00

    ;
}
")).
Eval vm_compute in ("<<<M4302>>>" ++ check (runes_of_ascii "
packet	chars {
	@tag(

    //	t
	007

    )
@rightPad ( ) int64 
Header
    `// not a comment`
	,}
")).
Eval vm_compute in ("<<<M4117>>>" ++ check (runes_of_ascii "packet
    A

{ Inner

    {  u8

x  `a
    b
  c`
,Deep {
u8 y`a
    b
  c`

, }

    ,
} 
,

} ")).
Eval vm_compute in ("<<<M4322>>>" ++ check (runes_of_ascii "MetaData MetaDataX {
    uint8 stringy `a\`,
    float32 f32a,
    u32 T,
    float32 uint8x,
}// " ++ [27880; 37322]%N)).
Eval vm_compute in ("<<<M3666>>>" ++ check (runes_of_ascii "root packet
f32a 
{ @tag(
    1 ) @lengthOf(
    trueish

) 
@tag(4294967296  )u8x	`{ , }` ,
	}
")).
Eval vm_compute in ("<<<M4262>>>" ++ check (runes_of_ascii "packet
	A {

match

k

as
    n {
[
    ""a"",
	22,

    ""c c""

    ,4	]
:	B
	, 2 : 
C }, }
")).
Eval vm_compute in ("<<<M3419>>>" ++ check (runes_of_ascii "

  packet orderItem
{ 
u8 a

,
    }
root packet
newOrder 
{

    orderItem , u8 x	,
}")).
Eval vm_compute in ("<<<M3760>>>" ++ check (runes_of_ascii "
root packet 
SimpleMessage{ uint16
    MsgType	`" ++ [28040; 24687; 31867; 22411]%N ++ runes_of_ascii "` 
, string JsonBody	`Json" ++ [23383; 31526; 20018; 28040; 24687; 20307]%N ++ runes_of_ascii "` ,
}
")).
Eval vm_compute in ("<<<M1429>>>" ++ check (runes_of_ascii "packet
T
{ repeatCount match as	calculatedFrom
{ [65535 ]	: As	,
} ,}
// trailing space 
")).
Eval vm_compute in ("<<<M1422>>>" ++ check (runes_of_ascii "packet
T
 match repeatCount as	calculatedFrom
{ [65535 ]	: As	,
} ,}
// trailing space 
")).
Eval vm_compute in ("<<<M3951>>>" ++ check (runes_of_ascii "MetaData trueish {
    int f32a,
}

root packet zchar {
    trueish `line1
    line2`,
}")).
Eval vm_compute in ("<<<M1776>>>" ++ check (runes_of_ascii "options{  lengthOf =//x
i16;
    BodyLength = 0 ; pack
= false; ;
    A = char[ 3 ] }")).
Eval vm_compute in ("<<<M2955>>>" ++ check (runes_of_ascii "packet A {
  match k as n {
    [1, 22, ""c c"", 4, 5, ""f"", 7, 8] : B,
    2 : C
  },
}")).
Eval vm_compute in ("<<<M2931>>>" ++ check (runes_of_ascii "packet A {
  match k as n {
    [""a"", ""bb"", 007, ""d"", ""e"", 66] : B,
    2 : C
  },
}")).
Eval vm_compute in ("<<<M4272>>>" ++ check (runes_of_ascii "root
packet//
	repeatCount // trailing space 
  {
	_x
	@calculatedFrom(""1""
)
, }

")).
Eval vm_compute in ("<<<M1760>>>" ++ check (runes_of_ascii "options{  lengthOf =//x
i16;
    BodyLength = 0 ; 
= false;
    A = char[ 3 ] }")).
Eval vm_compute in ("<<<M3247>>>" ++ check (runes_of_ascii "MetaData Foo // c
{ zchar[ 0 ] matchKey , } options { lengthOf = i32 u = 00 ; }")).
Eval vm_compute in ("<<<M3279>>>" ++ check (runes_of_ascii "MetaData Foo { zchar[ 0 ] matchKey , } options { lengthOf = i32 u = 00 ; // c
}")).
Eval vm_compute in ("<<<M2720>>>" ++ check (runes_of_ascii "char[ char char[ packet true false : MetaData = @lengthOf( true options int8")).
Eval vm_compute in ("<<<M1164>>>" ++ check (runes_of_ascii "  MetaData len {
    u32
    Pad`two words`// packet A { u8 x, }
, } // c")).
Eval vm_compute in ("<<<M1134>>>" ++ check (runes_of_ascii "MetaData i8i8 // a // b
{
char x_y_z
    ``, i16 body
`two words`,}
")).
Eval vm_compute in ("<<<M2895>>>" ++ check (runes_of_ascii "packet A {
  match k as n {
    [1, 22, 007, 4] : B,
    2 : C
  },
}")).
Eval vm_compute in ("<<<M3715>>>" ++ check (runes_of_ascii "packet u8x {
    // c
}

MetaData crc {
    char[4294967296] Foo,
}")).
Eval vm_compute in ("<<<M532>>>" ++ check (runes_of_ascii "root packet // packet A { u8 x, }
zchar { f32a matchKey
,
    }
")).
Eval vm_compute in ("<<<M3316>>>" ++ check (runes_of_ascii "packet u8x { } MetaData crc { char[ 4294967296 ] Foo , }
// c
")).
Eval vm_compute in ("<<<M3303>>>" ++ check (runes_of_ascii "packet u8x { } MetaData crc { // c
char[ 4294967296 ] Foo , }")).
Eval vm_compute in ("<<<M1029>>>" ++ check (runes_of_ascii "options{ As
=// `tick` ""quote"" 'q'
false leftPad = true }
")).
Eval vm_compute in ("<<<M4085>>>" ++ check (runes_of_ascii "
packet  MetaDataX  {
    }
root
	packet Packet
	{} 	 //
")).
Eval vm_compute in ("<<<M105>>>" ++ check (runes_of_ascii "//	t
root packet As
// c
// " ++ [128512]%N ++ runes_of_ascii " emoji
{
} options
{ }
")).
Eval vm_compute in ("<<<M64>>>" ++ check (runes_of_ascii "
packet calculatedFrom {
repeat string	trueish,}

")).
Eval vm_compute in ("<<<M3901>>>" ++ check (runes_of_ascii "options { 
BodyLength // " ++ [27880; 37322]%N ++ runes_of_ascii "
	=

4294967296
    } ")).
Eval vm_compute in ("<<<M3898>>>" ++ check (runes_of_ascii "packet  packetx
{}packet zchar  //	t
		{ }

")).
Eval vm_compute in ("<<<M3081>>>" ++ check (runes_of_ascii "options {
    a = ""x\
y"";
    b = ""x\
y""
}")).
Eval vm_compute in ("<<<M3087>>>" ++ check (runes_of_ascii "options {
    a = ""%d%s"";
    b = ""%d%s""
}")).
Eval vm_compute in ("<<<M2619>>>" ++ check (runes_of_ascii "packet A { match k as n { [[1]] : B }, }")).
Eval vm_compute in ("<<<M3233>>>" ++ check (runes_of_ascii "root packet u128 { chars `doc` , // c
}")).
Eval vm_compute in ("<<<M2386>>>" ++ check (runes_of_ascii "MetaData
Foo {@ Header //
pack ,	} 	 ")).
Eval vm_compute in ("<<<M2623>>>" ++ check (runes_of_ascii "packet A { match k as n { x : B }, }")).
Eval vm_compute in ("<<<M2769>>>" ++ check ([127]%N ++ runes_of_ascii "7" ++ [65533; 65533; 65533; 65533; 26; 12; 65533; 65533]%N ++ runes_of_ascii "f" ++ [65533]%N ++ runes_of_ascii "e(" ++ [65533; 65533; 65533; 65533; 65533; 65533; 65533]%N ++ runes_of_ascii "j" ++ [65533; 65533; 65533]%N ++ runes_of_ascii "[" ++ [65533; 65533]%N ++ runes_of_ascii "D" ++ [65533; 44370; 65533]%N ++ runes_of_ascii "}" ++ [65533; 65533]%N)).
Eval vm_compute in ("<<<M1965>>>" ++ check (runes_of_ascii "
packet leftPad {
@leftPad( '0')")).
Eval vm_compute in ("<<<M3053>>>" ++ check (runes_of_ascii "root packet A {
    u8 x `
x`,
}")).
Eval vm_compute in ("<<<M5>>>" ++ check (runes_of_ascii "options {
string_ = char[] }
")).
Eval vm_compute in ("<<<M1441>>>" ++ check (runes_of_ascii "packet
T
{ match repeatCount")).
Eval vm_compute in ("<<<M3341>>>" ++ check (runes_of_ascii "options
// c
{ u8x = false }")).
Eval vm_compute in ("<<<M3974>>>" ++ check (runes_of_ascii "
options
{

a =

    1
}")).
Eval vm_compute in ("<<<M2605>>>" ++ check (runes_of_ascii "packet A { B { u8 x, }, }")).
Eval vm_compute in ("<<<M1236>>>" ++ check (runes_of_ascii "
// packet A { u8 x, }
")).
Eval vm_compute in ("<<<M279>>>" ++ check (runes_of_ascii "MetaData u128 {} //	t")).
Eval vm_compute in ("<<<M2627>>>" ++ check (runes_of_ascii "packet A { @tag(1) }")).
Eval vm_compute in ("<<<M3158>>>" ++ check (runes_of_ascii "// c 	
packet A {
}")).
Eval vm_compute in ("<<<M3123>>>" ++ check (runes_of_ascii "// c" ++ [8202]%N ++ runes_of_ascii "
packet A {
}")).
Eval vm_compute in ("<<<M2575>>>" ++ check (runes_of_ascii "packet A { u8 , }")).
Eval vm_compute in ("<<<M88>>>" ++ check (runes_of_ascii "packet	i64_ { }
")).
Eval vm_compute in ("<<<M3835>>>" ++ check (runes_of_ascii "// @lengthOf(
")).
Eval vm_compute in ("<<<M873>>>" ++ check (runes_of_ascii "
options { }")).
Eval vm_compute in ("<<<M2644>>>" ++ check (runes_of_ascii "packet A }")).
Eval vm_compute in ("<<<M2645>>>" ++ check (runes_of_ascii "packet A")).
Eval vm_compute in ("<<<M2476>>>" ++ check (runes_of_ascii "Packet")).
Eval vm_compute in ("<<<M2529>>>" ++ check (runes_of_ascii "`a
b`")).
Eval vm_compute in ("<<<M2486>>>" ++ check (runes_of_ascii "'  '")).
Eval vm_compute in ("<<<M2507>>>" ++ check (runes_of_ascii "///")).
Eval vm_compute in ("<<<M2505>>>" ++ check (runes_of_ascii "//")).
Eval vm_compute in ("<<<M2695>>>" ++ check ([65279]%N)).
